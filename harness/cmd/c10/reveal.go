package main

import (
	"crypto/sha256"
	"encoding/json"
	"fmt"
	"math"
	"os"
	"sort"
	"strings"
	"sync"
	"time"

	"go.sia.tech/core/consensus"
	"go.sia.tech/core/types"
	"verif/harness/chain"
	"verif/harness/vlib"
)

// The "reveal" family of Extremes.tla: COMMIT, THEN REVEAL. An address is the hash of unlock conditions / of a spend policy
// that nobody sees until the output is spent. Block 1 (an ordinary valid payment) funds the address of every pre-image the
// specification enumerates with a siacoin output, a siafund output and -- for unlock conditions -- a v1 contract; block 2
// spends one of them revealing the pre-image (v1 siacoin input, v1 siafund input, v1 contract revision, v2 siacoin input,
// v2 siafund input). The reveal passes the address comparison, so validateSignatures / SpendPolicy.Verify interpret keys
// of odd lengths, unknown algorithms, absurd thresholds and time locks -- content that no mutation of an honest block on
// an honestly built state can bring that far. TLC computes, for every case, the stage of the interpreter that decides it;
// the harness checks on the real code that the case gets there (vacuity), the verdict for the property is only: every
// entry point returns.

type rKey struct {
	Alg string `json:"alg"`
	Len int    `json:"len"`
}
type rUC struct {
	Keys []rKey `json:"keys"`
	Req  string `json:"req"`
	Tl   string `json:"tl"`
}
type rSig struct {
	Pki  string `json:"pki"`
	Slen int    `json:"slen"`
	Cf   string `json:"cf"`
	Stl  string `json:"stl"`
}
type rPol struct {
	K   string `json:"k"`
	V   string `json:"v,omitempty"`
	Key string `json:"key,omitempty"`
	H   string `json:"h,omitempty"`
	UC  *rUC   `json:"uc,omitempty"`
	N   int    `json:"n,omitempty"`
	Of  []rPol `json:"of,omitempty"`
	P   *rPol  `json:"p,omitempty"`
}
type rSat struct {
	S []string `json:"s"`
	P []string `json:"p"`
}

// revealCase is one case, self-contained (it is the replay payload).
type revealCase struct {
	Ver    int    `json:"ver"`
	Form   string `json:"form"`
	UC     *rUC   `json:"uc,omitempty"`
	Sigs   []rSig `json:"sigs,omitempty"`
	Commit *rPol  `json:"commit,omitempty"`
	Mask   string `json:"mask,omitempty"`
	Reveal *rPol  `json:"reveal,omitempty"`
	Sat    *rSat  `json:"sat,omitempty"`
	Stage  string `json:"stage"`            // the model's prediction
	Stage2 string `json:"stage2,omitempty"` // the prediction if the verifications the model leaves open succeed
	id     string // position in the model's tables
}

type revealModel struct {
	v1Reveals        [][]rSig
	sats             []rSat
	formsV1, formsV2 []string
	v1               []struct {
		UC  rUC      `json:"uc"`
		St  []string `json:"st"`
		St2 []string `json:"st2"`
	}
	v2 []struct {
		Commit rPol     `json:"commit"`
		Mask   string   `json:"mask"`
		Reveal rPol     `json:"reveal"`
		St     []string `json:"st"`
	}
}

// revealLines: the lines of the reveal family printed by Extremes.tla (kept by loadExtremes).
var revealLines []string

func parseRevealModel(lines []string) (*revealModel, error) {
	rm := &revealModel{}
	var counts []int
	for _, ln := range lines {
		tag, rest, _ := strings.Cut(ln, " ")
		js := []byte(vlib.UnquoteTLA(rest))
		var err error
		switch tag {
		case "RV1R":
			err = json.Unmarshal(js, &rm.v1Reveals)
		case "RV2S":
			err = json.Unmarshal(js, &rm.sats)
		case "RVF":
			var f struct {
				V1 []string `json:"v1"`
				V2 []string `json:"v2"`
			}
			err = json.Unmarshal(js, &f)
			rm.formsV1, rm.formsV2 = f.V1, f.V2
		case "RV1":
			rm.v1 = append(rm.v1, struct {
				UC  rUC      `json:"uc"`
				St  []string `json:"st"`
				St2 []string `json:"st2"`
			}{})
			err = json.Unmarshal(js, &rm.v1[len(rm.v1)-1])
		case "RV2":
			rm.v2 = append(rm.v2, struct {
				Commit rPol     `json:"commit"`
				Mask   string   `json:"mask"`
				Reveal rPol     `json:"reveal"`
				St     []string `json:"st"`
			}{})
			err = json.Unmarshal(js, &rm.v2[len(rm.v2)-1])
		case "RVCOUNT":
			err = json.Unmarshal(js, &counts)
		}
		if err != nil {
			return nil, fmt.Errorf("line %s: %v", tag, err)
		}
	}
	if len(counts) != 4 || len(rm.v1) != counts[0] || len(rm.v1Reveals) != counts[1] || len(rm.v2) < counts[2] || len(rm.sats) != counts[3] ||
		counts[0] == 0 || counts[1] == 0 || counts[2] == 0 || counts[3] == 0 || len(rm.formsV1) == 0 || len(rm.formsV2) == 0 {
		return nil, fmt.Errorf("%d pre-images x %d reveals (v1), %d policies x %d satisfactions (v2) arrived, announced %v", len(rm.v1), len(rm.v1Reveals), len(rm.v2), len(rm.sats), counts)
	}
	for _, l := range rm.v1 {
		if len(l.St) != len(rm.v1Reveals) || len(l.St2) != len(rm.v1Reveals) {
			return nil, fmt.Errorf("a v1 pre-image carries %d stages for %d reveals", len(l.St), len(rm.v1Reveals))
		}
	}
	for _, l := range rm.v2 {
		if len(l.St) != len(rm.sats) {
			return nil, fmt.Errorf("a v2 policy carries %d stages for %d satisfactions", len(l.St), len(rm.sats))
		}
	}
	return rm, nil
}

// ---- from the model's terms to real values ---------------------------------------------------------------------------------

const revealChild = 2 // height of the revealing block (Child of Extremes.tla)

func rNum(s string, n int) uint64 {
	switch s {
	case "0":
		return 0
	case "1":
		return 1
	case "2":
		return 2
	case "child-1":
		return revealChild - 1
	case "child":
		return revealChild
	case "child+1":
		return revealChild + 1
	case "len":
		return uint64(n)
	case "2^63":
		return 1 << 63
	case "2^64-1":
		return math.MaxUint64
	}
	panic("reveal: unknown number " + s)
}

var revealPreimage = [32]byte{'C', '1', '0', ' ', 'p', 'r', 'e', 'i', 'm', 'a', 'g', 'e'}

func buildUC(u rUC, signer types.PublicKey) types.UnlockConditions {
	uc := types.UnlockConditions{Timelock: rNum(u.Tl, 0), SignaturesRequired: rNum(u.Req, 0)}
	for _, k := range u.Keys {
		var alg types.Specifier
		switch k.Alg {
		case "ed25519":
			alg = types.SpecifierEd25519
		case "entropy":
			alg = types.SpecifierEntropy
		case "unknown":
			alg = types.NewSpecifier("unknown")
		case "zero":
		default:
			panic("reveal: unknown algorithm " + k.Alg)
		}
		key := make([]byte, k.Len)
		for i := range key {
			key[i] = byte(0xA5 ^ i)
		}
		if k.Alg == "ed25519" {
			copy(key, signer[:]) // the signer's key as far as it goes
		}
		uc.PublicKeys = append(uc.PublicKeys, types.UnlockKey{Algorithm: alg, Key: key})
	}
	return uc
}

func buildPolicy(p rPol, k *chain.Keyring) types.SpendPolicy {
	switch p.K {
	case "above":
		return types.PolicyAbove(rNum(p.V, 0))
	case "after":
		var sec int64
		switch p.V {
		case "epoch":
			sec = 0
		case "far":
			sec = 32503680000 // year 3000
		case "2^63-1":
			sec = math.MaxInt64
		case "2^63":
			sec = math.MinInt64 // what the decoder makes of the 64-bit number 2^63
		case "2^64-1":
			sec = -1
		default:
			panic("reveal: unknown time " + p.V)
		}
		return types.PolicyAfter(time.Unix(sec, 0))
	case "pk":
		switch p.Key {
		case "A":
			return types.PolicyPublicKey(k.PK("A"))
		case "zero":
			return types.PolicyPublicKey(types.PublicKey{})
		case "ff":
			var pk types.PublicKey
			for i := range pk {
				pk[i] = 0xFF
			}
			return types.PolicyPublicKey(pk)
		}
		panic("reveal: unknown key " + p.Key)
	case "hash":
		if p.H == "P" {
			return types.PolicyHash(sha256.Sum256(revealPreimage[:]))
		}
		return types.PolicyHash(sha256.Sum256([]byte("another pre-image")))
	case "opaque":
		return types.PolicyOpaque(types.PolicyPublicKey(k.PK("B")))
	case "uc":
		return types.SpendPolicy{Type: types.PolicyTypeUnlockConditions(buildUC(*p.UC, k.PK("A")))}
	case "thresh":
		of := make([]types.SpendPolicy, len(p.Of))
		for i := range p.Of {
			of[i] = buildPolicy(p.Of[i], k)
		}
		return types.PolicyThreshold(uint8(p.N), of)
	case "masked":
		return types.PolicyOpaque(buildPolicy(*p.P, k))
	}
	panic("reveal: unknown policy kind " + p.K)
}

func keyListClass(ks []rKey) string {
	if len(ks) == 0 {
		return "no-keys"
	}
	var s []string
	for _, k := range ks {
		s = append(s, fmt.Sprintf("%s-%d", k.Alg, k.Len))
	}
	return strings.Join(s, "+")
}

// oddKeyClass names the first key of the list that is not an ordinary ed25519 key (the class of a failing input).
func oddKeyClass(ks []rKey) string {
	if len(ks) == 0 {
		return "no-keys"
	}
	for _, k := range ks {
		if k.Alg != "ed25519" || k.Len != 32 {
			return fmt.Sprintf("%s-key-of-%d-bytes", k.Alg, k.Len)
		}
	}
	return "ed25519-key-of-32-bytes"
}

// class of a case: the form and the kind of pre-image (for unlock conditions: the algorithms and lengths of its keys).
func (rc *revealCase) class() string { return rc.classBy(oddKeyClass) }

// group: the finer class the quick tier samples from (the whole key list).
func (rc *revealCase) group() string { return rc.classBy(keyListClass) }

func (rc *revealCase) classBy(keys func([]rKey) string) string {
	pre := ""
	switch {
	case rc.UC != nil:
		pre = "uc:" + keys(rc.UC.Keys)
	case rc.Commit.K == "uc":
		pre = "uc:" + keys(rc.Commit.UC.Keys)
	case rc.Commit.K == "thresh":
		pre = fmt.Sprintf("thresh-%d-of-%d", rc.Commit.N, len(rc.Commit.Of))
	default:
		pre = rc.Commit.K
	}
	return fmt.Sprintf("reveal/v%d:%s/%s", rc.Ver, rc.Form, pre)
}

func (rc *revealCase) kind() string {
	if rc.UC != nil {
		return "uc"
	}
	return rc.Commit.K
}

func (rc *revealCase) commitAddress(k *chain.Keyring) types.Address {
	if rc.UC != nil {
		return buildUC(*rc.UC, k.PK("A")).UnlockHash()
	}
	return buildPolicy(*rc.Commit, k).Address()
}

// ---- the two-block scenario ---------------------------------------------------------------------------------------------------

func revealParams() chain.Params {
	s := chain.Shapes()["mixed"]
	// v1 and v2 transactions are both allowed at heights 1 and 2
	return chain.Params{MatDelay: 1, AllowH: 1, RequireH: 100, EphH: 1, FoundH: 100, Reward: 500, GenSC: s.GenSC, GenSF: s.GenSF}
}

type revealScenario struct {
	sim  *chain.Sim
	keys map[types.PublicKey]types.PrivateKey
	sc   map[types.Address]types.SiacoinOutputID
	sf   map[types.Address]types.SiafundOutputID
	fc   map[types.Address]types.FileContractID
	body map[types.Address]types.FileContract
}

const (
	revealSC = 100 // value of each committed siacoin output
	revealFC = 2   // payout of each committed contract (tax 0)
)

// newRevealScenario builds the chain: genesis, then block 1 paying to every address (and binding a contract to every address
// of unlock conditions). Block 1 itself goes through every entry point.
func newRevealScenario(c *vlib.Ctx, g *guard, addrs []types.Address, ucAddr map[types.Address]bool, count func(string, bool)) *revealScenario {
	sim := chain.NewSim(revealParams())
	rs := &revealScenario{sim: sim, keys: keyMap(sim), sc: map[types.Address]types.SiacoinOutputID{}, sf: map[types.Address]types.SiafundOutputID{},
		fc: map[types.Address]types.FileContractID{}, body: map[types.Address]types.FileContract{}}
	a := sim.K.Addr("A")
	gtx := sim.Gen.Transactions[0]
	if len(gtx.SiacoinOutputs) == 0 || len(gtx.SiafundOutputs) == 0 || gtx.SiacoinOutputs[0].Address != a || gtx.SiafundOutputs[0].Address != a {
		c.Infra("reveal: the genesis block does not fund A first")
		return nil
	}
	// a chain of ordinary transactions, each paying to a chunk of the addresses and handing the change to the next (one
	// transaction for all of them would cost core a hash of the whole transaction per output id)
	const chunk = 40
	scID, sfID := gtx.SiacoinOutputID(0), gtx.SiafundOutputID(0)
	haveSC, haveSF := gtx.SiacoinOutputs[0].Value, gtx.SiafundOutputs[0].Value
	var v1 []types.Transaction
	type place struct{ t, i, f int }
	where := map[types.Address]place{}
	for lo := 0; lo < len(addrs); lo += chunk {
		hi := lo + chunk
		if hi > len(addrs) {
			hi = len(addrs)
		}
		txn := types.Transaction{
			SiacoinInputs: []types.SiacoinInput{{ParentID: scID, UnlockConditions: sim.K.UC("A")}},
			SiafundInputs: []types.SiafundInput{{ParentID: sfID, UnlockConditions: sim.K.UC("A"), ClaimAddress: a}},
		}
		spentSC, spentSF := uint64(0), uint64(0)
		for _, ad := range addrs[lo:hi] {
			pl := place{t: len(v1), i: len(txn.SiacoinOutputs), f: -1}
			txn.SiacoinOutputs = append(txn.SiacoinOutputs, types.SiacoinOutput{Address: ad, Value: types.NewCurrency64(revealSC)})
			txn.SiafundOutputs = append(txn.SiafundOutputs, types.SiafundOutput{Address: ad, Value: 1})
			spentSC += revealSC
			spentSF++
			if ucAddr[ad] {
				out := []types.SiacoinOutput{{Address: a, Value: types.NewCurrency64(revealFC)}}
				pl.f = len(txn.FileContracts)
				txn.FileContracts = append(txn.FileContracts, types.FileContract{WindowStart: 50, WindowEnd: 60, Payout: types.NewCurrency64(revealFC),
					ValidProofOutputs: out, MissedProofOutputs: out, UnlockHash: ad})
				spentSC += revealFC
			}
			where[ad] = pl
		}
		if haveSC.Cmp(types.NewCurrency64(spentSC)) <= 0 || haveSF <= spentSF {
			c.Infra("reveal: the genesis outputs of A do not cover %d addresses", len(addrs))
			return nil
		}
		haveSC, haveSF = haveSC.Sub(types.NewCurrency64(spentSC)), haveSF-spentSF
		txn.SiacoinOutputs = append(txn.SiacoinOutputs, types.SiacoinOutput{Address: a, Value: haveSC})
		txn.SiafundOutputs = append(txn.SiafundOutputs, types.SiafundOutput{Address: a, Value: haveSF})
		for _, id := range []types.Hash256{types.Hash256(scID), types.Hash256(sfID)} {
			txn.Signatures = append(txn.Signatures, types.TransactionSignature{ParentID: id, CoveredFields: types.CoveredFields{WholeTransaction: true}, Signature: make([]byte, 64)})
		}
		scID, sfID = txn.SiacoinOutputID(len(txn.SiacoinOutputs)-1), txn.SiafundOutputID(len(txn.SiafundOutputs)-1) // the change
		v1 = append(v1, txn)
	}
	m := &mctx{sim: sim, cs: sim.CS, child: 1, ver: 1, k: len(v1) - 1, keys: rs.keys}
	m.b, m.bs = sim.Seal(v1, nil), sim.Supplement(v1)
	m.resign()
	m.reseal()
	t0 := time.Now()
	lo := m.exercise(g, count)
	c.Cov("reveal_commit_block_seconds_through_all_entry_points", time.Since(t0).Seconds())
	if lo != nil && lo.O.bad() {
		site := ledgerSite(lo.O.Stack)
		if site == "" {
			site = lo.Entry
		}
		c.Violation("ledger/"+site+"/reveal/commit-block", fmt.Sprintf("%s panics (%s) or hangs on the VALID block whose %d transactions pay to %d addresses and bind contracts to them", lo.Entry, lo.O.Panic, len(v1), len(addrs)),
			map[string]any{"entry": lo.Entry, "panic": lo.O.Panic, "stack": lo.O.Stack, "block": mustJSON(m.b), "supplement": mustJSON(m.bs), "state": mustJSON(m.cs)})
		return nil
	}
	if lo == nil || !lo.Accepted {
		err, _ := sim.Validate(m.b, m.bs)
		c.Infra("reveal: the committing block is not accepted: %v", err)
		return nil
	}
	sim.Apply(m.b, m.bs)
	for _, ad := range addrs {
		pl := where[ad]
		ctx := &m.b.Transactions[pl.t]
		rs.sc[ad], rs.sf[ad] = ctx.SiacoinOutputID(pl.i), ctx.SiafundOutputID(pl.i)
		if pl.f >= 0 {
			rs.fc[ad], rs.body[ad] = ctx.FileContractID(pl.f), ctx.FileContracts[pl.f]
		}
	}
	for _, ad := range addrs {
		if _, ok := sim.Store.SC[rs.sc[ad]]; !ok {
			c.Infra("reveal: the committed siacoin output of %v is not in the store", ad)
			return nil
		}
		if _, ok := sim.Store.SF[rs.sf[ad]]; !ok {
			c.Infra("reveal: the committed siafund output of %v is not in the store", ad)
			return nil
		}
		if id, ok := rs.fc[ad]; ok {
			if _, ok := sim.Store.FC[id]; !ok {
				c.Infra("reveal: the committed contract of %v is not in the store", ad)
				return nil
			}
		}
	}
	return rs
}

// build makes the revealing block of a case on the tip of the scenario (concurrent use: the scenario is only read).
func (rs *revealScenario) build(rc *revealCase) (*mctx, error) {
	sim := rs.sim
	a := sim.K.Addr("A")
	m := &mctx{sim: sim, cs: sim.CS, child: revealChild, ver: rc.Ver, k: 0, keys: rs.keys}
	ad := rc.commitAddress(sim.K)
	if rc.Ver == 1 {
		uc := buildUC(*rc.UC, sim.K.PK("A"))
		var txn types.Transaction
		var parent types.Hash256
		var own func(cf *types.CoveredFields) *[]uint64
		switch rc.Form {
		case "sci":
			id, ok := rs.sc[ad]
			if !ok {
				return nil, fmt.Errorf("no siacoin output committed to the address")
			}
			parent = types.Hash256(id)
			txn.SiacoinInputs = []types.SiacoinInput{{ParentID: id, UnlockConditions: uc}}
			txn.SiacoinOutputs = []types.SiacoinOutput{{Address: a, Value: types.NewCurrency64(revealSC)}}
			own = func(cf *types.CoveredFields) *[]uint64 { return &cf.SiacoinInputs }
		case "sfi":
			id, ok := rs.sf[ad]
			if !ok {
				return nil, fmt.Errorf("no siafund output committed to the address")
			}
			parent = types.Hash256(id)
			txn.SiafundInputs = []types.SiafundInput{{ParentID: id, UnlockConditions: uc, ClaimAddress: a}}
			txn.SiafundOutputs = []types.SiafundOutput{{Address: a, Value: 1}}
			own = func(cf *types.CoveredFields) *[]uint64 { return &cf.SiafundInputs }
		case "rev":
			id, ok := rs.fc[ad]
			if !ok {
				return nil, fmt.Errorf("no contract bound to the address")
			}
			parent = types.Hash256(id)
			fc := rs.body[ad]
			fc.ValidProofOutputs = append([]types.SiacoinOutput(nil), fc.ValidProofOutputs...)
			fc.MissedProofOutputs = append([]types.SiacoinOutput(nil), fc.MissedProofOutputs...)
			fc.RevisionNumber++
			txn.FileContractRevisions = []types.FileContractRevision{{ParentID: id, UnlockConditions: uc, FileContract: fc}}
			own = func(cf *types.CoveredFields) *[]uint64 { return &cf.FileContractRevisions }
		default:
			return nil, fmt.Errorf("unknown form %s", rc.Form)
		}
		for _, s := range rc.Sigs {
			sg := types.TransactionSignature{ParentID: parent, PublicKeyIndex: rNum(s.Pki, len(uc.PublicKeys)), Timelock: rNum(s.Stl, 0)}
			switch s.Cf {
			case "whole":
				sg.CoveredFields.WholeTransaction = true
			case "partial":
				*own(&sg.CoveredFields) = []uint64{0}
				switch rc.Form {
				case "sci":
					sg.CoveredFields.SiacoinOutputs = []uint64{0}
				case "sfi":
					sg.CoveredFields.SiafundOutputs = []uint64{0}
				}
			case "whole+fields":
				sg.CoveredFields.WholeTransaction = true
				*own(&sg.CoveredFields) = []uint64{0}
			case "field-index=len":
				*own(&sg.CoveredFields) = []uint64{1}
			case "sig-index=len":
				sg.CoveredFields.WholeTransaction = true
				sg.CoveredFields.Signatures = []uint64{uint64(len(rc.Sigs))}
			case "field-index=2^64-1":
				sg.CoveredFields.MinerFees = []uint64{math.MaxUint64}
			default:
				return nil, fmt.Errorf("unknown covered fields %s", s.Cf)
			}
			txn.Signatures = append(txn.Signatures, sg)
		}
		// the signer's signature over what each signature covers (where core's hash functions are defined), cut or extended
		sk := sim.K.SK("A")
		for i := range txn.Signatures {
			sg := &txn.Signatures[i]
			good := make([]byte, 64)
			func() {
				defer func() { recover() }()
				var h types.Hash256
				if sg.CoveredFields.WholeTransaction {
					h = m.cs.WholeSigHash(txn, sg.ParentID, sg.PublicKeyIndex, sg.Timelock, sg.CoveredFields.Signatures)
				} else {
					h = m.cs.PartialSigHash(txn, sg.CoveredFields)
				}
				s := sk.SignHash(h)
				copy(good, s[:])
			}()
			n := rc.Sigs[i].Slen
			sig := make([]byte, n)
			copy(sig, good)
			for j := 64; j < n; j++ {
				sig[j] = 0x77
			}
			sg.Signature = sig
		}
		v1 := []types.Transaction{txn}
		m.b, m.bs = sim.Seal(v1, nil), sim.Supplement(v1)
		return m, nil
	}
	// v2
	commit, reveal := buildPolicy(*rc.Commit, sim.K), buildPolicy(*rc.Reveal, sim.K)
	if commit.Address() != reveal.Address() {
		return nil, fmt.Errorf("the revealed policy does not have the committed address")
	}
	sp := types.SatisfiedPolicy{Policy: reveal}
	var txn types.V2Transaction
	switch rc.Form {
	case "sci":
		el, ok := sim.Store.SC[rs.sc[ad]]
		if !ok {
			return nil, fmt.Errorf("no siacoin output committed to the address")
		}
		txn.SiacoinInputs = []types.V2SiacoinInput{{Parent: el.Copy()}}
		txn.SiacoinOutputs = []types.SiacoinOutput{{Address: a, Value: types.NewCurrency64(revealSC)}}
	case "sfi":
		el, ok := sim.Store.SF[rs.sf[ad]]
		if !ok {
			return nil, fmt.Errorf("no siafund output committed to the address")
		}
		txn.SiafundInputs = []types.V2SiafundInput{{Parent: el.Copy(), ClaimAddress: a}}
		txn.SiafundOutputs = []types.SiafundOutput{{Address: a, Value: 1}}
	default:
		return nil, fmt.Errorf("unknown form %s", rc.Form)
	}
	var good types.Signature
	func() {
		defer func() { recover() }()
		good = sim.K.SK("A").SignHash(m.cs.InputSigHash(txn))
	}()
	for _, s := range rc.Sat.S {
		if s == "A" {
			sp.Signatures = append(sp.Signatures, good)
		} else {
			var bad types.Signature
			for i := range bad {
				bad[i] = byte(3*i + 1)
			}
			sp.Signatures = append(sp.Signatures, bad)
		}
	}
	for _, p := range rc.Sat.P {
		if p == "P" {
			sp.Preimages = append(sp.Preimages, revealPreimage)
		} else {
			sp.Preimages = append(sp.Preimages, [32]byte{1, 2, 3})
		}
	}
	if rc.Form == "sci" {
		txn.SiacoinInputs[0].SatisfiedPolicy = sp
	} else {
		txn.SiafundInputs[0].SatisfiedPolicy = sp
	}
	m.b, m.bs = sim.Seal(nil, []types.V2Transaction{txn}), sim.Supplement(nil)
	return m, nil
}

// realStage names the check of the real interpreter that decided the case, from the error ValidateTransaction /
// ValidateV2Transaction returns ("" if the text is none of the interpreter's: the reveal did not get that far).
func realStage(ver int, err error) string {
	if err == nil {
		return "accept"
	}
	s := err.Error()
	var tab [][2]string
	if ver == 1 {
		tab = [][2]string{{"has timelocked parent", "input-timelock"}, {"points to a nonexistent public key", "nokey"}, {"is redundant", "redundant"},
			{"timelock of signature", "sig-timelock"}, {"covers fields not present", "covered"}, {"uses an entropy public key", "entropy"},
			{"has missing signatures", "missing"}, {"is invalid", "invalid"}}
	} else {
		if !strings.Contains(s, "failed to satisfy spend policy") {
			return ""
		}
		tab = [][2]string{{"not above", "height"}, {"not after", "time"}, {"invalid signature", "signature"}, {"invalid preimage", "preimage"}, {"opaque policy", "opaque"},
			{"unlock conditions cannot be sub-policies", "uc-sub-policy"}, {"threshold exceeded", "threshold-exceeded"}, {"threshold not reached: satisfied", "threshold"},
			{"threshold not reached: remaining signatures", "uc-threshold"}, {"entropy public key", "entropy"}, {"superfluous signature", "superfluous-sig"}, {"superfluous preimage", "superfluous-pre"}}
	}
	for _, t := range tab {
		if strings.Contains(s, t[0]) {
			return t[1]
		}
	}
	return ""
}

type revealStats struct {
	mu          sync.Mutex
	cases       int64
	perForm     map[string]int64 // "v1:sci" -> cases
	interpreted map[string]int64 // form -> cases the real interpreter decided (any stage but a time lock)
	accepted    map[string]int64 // form -> blocks accepted, applied, reverted
	stages      map[string]int64 // "v1:invalid" -> cases (real stage)
	kinds       map[string]bool  // "1/sci/uc"
	early       int64            // the reveal was refused before the interpreter (not by the interpreter's texts)
	earlyEx     []string
	diverge     int64 // real stage / verdict differs from the model's
	divergeEx   []string
	undecodable int64
	keysRead    map[string]int64 // class of an odd key the interpreter dereferenced
	reported    map[string]bool  // violation keys already issued
}

// runOne executes one case; it returns false when the harness could not build it.
func (rs *revealScenario) runOne(c *vlib.Ctx, st *ledgerStats, rst *revealStats, g *guard, rc *revealCase, count func(string, bool)) bool {
	var m *mctx
	var berr error
	if p, val := vlib.Recover(func() { m, berr = rs.build(rc) }); p {
		c.Infra("reveal: building %s failed in the harness: %v", rc.class(), val)
		return false
	}
	if berr != nil {
		c.Infra("reveal: %s: %v", rc.class(), berr)
		return false
	}
	if !m.decodable() {
		rst.mu.Lock()
		rst.undecodable++
		rst.mu.Unlock()
		return true
	}
	form := fmt.Sprintf("v%d:%s", rc.Ver, rc.Form)
	lo := m.exercise(g, count)
	if lo != nil && lo.O.bad() {
		site := ledgerSite(lo.O.Stack)
		if site == "" {
			site = lo.Entry
		}
		kind := "panics: " + lo.O.Panic
		if lo.O.TimedOut {
			kind = fmt.Sprintf("has not returned after %v", longDeadline)
		}
		how := "a v1 siacoin input"
		switch form {
		case "v1:sfi":
			how = "a v1 siafund input"
		case "v1:rev":
			how = "a v1 contract revision"
		case "v2:sci":
			how = "a v2 siacoin input"
		case "v2:sfi":
			how = "a v2 siafund input"
		}
		key := "ledger/" + site + "/" + rc.class()
		rst.mu.Lock()
		dup := rst.reported[key]
		rst.reported[key] = true
		rst.mu.Unlock()
		if !dup {
			// a failure of a transaction-level entry point: does ValidateBlock on the same block fail too?
			viaBlock := ""
			if !lo.O.TimedOut && (lo.Entry == "ValidateTransaction" || lo.Entry == "ValidateV2Transaction" || lo.Entry == "ValidateTransactionElements") {
				ob := g.run(func() error { return consensus.ValidateBlock(m.cs, m.b, m.bs) })
				switch {
				case ob.Panic != "":
					viaBlock = "; ValidateBlock on that block panics too: " + ob.Panic
				case ob.TimedOut:
					viaBlock = "; ValidateBlock on that block misses the deadline"
				default:
					viaBlock = "; ValidateBlock on that block returns"
				}
			}
			kind += viaBlock
			c.Violation(key, fmt.Sprintf("%s %s on a block at height 2 in which %s reveals the pre-image of an address that the valid block at height 1 paid to (the model expects the interpreter to decide: %s)", lo.Entry, kind, how, rc.Stage),
				map[string]any{"entry": lo.Entry, "reveal_case": rc, "panic": lo.O.Panic, "stack": lo.O.Stack, "accepted_before_failure": lo.Accepted,
					"block": mustJSON(m.b), "supplement": mustJSON(m.bs), "state": mustJSON(m.cs)})
		}
	}
	// where did the real code decide? (the transaction alone on a fresh MidState)
	stage, verr := "", error(nil)
	if lo == nil || !lo.O.bad() {
		o := g.run(func() error {
			ms := consensus.NewMidState(m.cs)
			if rc.Ver == 1 {
				verr = consensus.ValidateTransaction(ms, m.b.Transactions[0], m.bs.Transactions[0])
			} else {
				verr = consensus.ValidateV2Transaction(ms, m.b.V2Transactions()[0])
			}
			return verr
		})
		if !o.bad() {
			stage = realStage(rc.Ver, verr)
		}
	}
	accepted := lo != nil && lo.Accepted && !lo.O.bad()
	rst.mu.Lock()
	rst.cases++
	rst.perForm[form]++
	rst.kinds[fmt.Sprint(rc.Ver, "/", rc.Form, "/", rc.kind())] = true
	if accepted {
		rst.accepted[form]++
	}
	if lo == nil || !lo.O.bad() {
		if stage == "" {
			rst.early++
			if len(rst.earlyEx) < 5 {
				rst.earlyEx = append(rst.earlyEx, fmt.Sprintf("%s: %v", rc.class(), verr))
			}
		} else {
			rst.stages[fmt.Sprintf("v%d:%s", rc.Ver, stage)]++
			if stage != "input-timelock" {
				rst.interpreted[form]++
			}
			if (stage != rc.Stage && stage != rc.Stage2) || (stage == "accept") != accepted {
				rst.diverge++
				if len(rst.divergeEx) < 8 {
					b, _ := json.Marshal(rc)
					rst.divergeEx = append(rst.divergeEx, fmt.Sprintf("real %s (block accepted: %v, %v) for %s", stage, accepted, verr, b))
				}
			}
			if rc.Ver == 1 && (stage == "invalid" || stage == "accept") && len(rc.Sigs) > 0 {
				if idx := rNum(rc.Sigs[0].Pki, len(rc.UC.Keys)); idx < uint64(len(rc.UC.Keys)) {
					if k := rc.UC.Keys[idx]; k.Alg == "ed25519" && k.Len != 32 {
						rst.keysRead[fmt.Sprintf("%s ed25519-%d", form, k.Len)]++
					}
				}
			}
		}
	}
	rst.mu.Unlock()
	st.mu.Lock()
	st.mutants++
	st.perFam["reveal"]++
	st.distinct["reveal/"+rc.id] = true
	if accepted {
		st.appliedReverted++
		st.accepted[rc.class()]++
	}
	st.mu.Unlock()
	return true
}

// revealCases expands the model's tables into cases.
func revealCases(rm *revealModel) []*revealCase {
	var out []*revealCase
	for li := range rm.v1 {
		l := &rm.v1[li]
		for ri, sigs := range rm.v1Reveals {
			for _, f := range rm.formsV1 {
				out = append(out, &revealCase{Ver: 1, Form: f, UC: &l.UC, Sigs: sigs, Stage: l.St[ri], Stage2: l.St2[ri], id: fmt.Sprint("1/", f, "/", li, "/", ri)})
			}
		}
	}
	for li := range rm.v2 {
		l := &rm.v2[li]
		for si := range rm.sats {
			for _, f := range rm.formsV2 {
				out = append(out, &revealCase{Ver: 2, Form: f, Commit: &l.Commit, Mask: l.Mask, Reveal: &l.Reveal, Sat: &rm.sats[si], Stage: l.St[si], id: fmt.Sprint("2/", f, "/", li, "/", si)})
			}
		}
	}
	return out
}

// runReveal: the whole family. The quick tier takes, from every group (form, kind of pre-image, predicted stage), a
// seed-chosen handful of cases; the thorough tier takes every case.
func runReveal(c *vlib.Ctx, st *ledgerStats, exts []ext) {
	rm, err := parseRevealModel(revealLines)
	if err != nil {
		c.Infra("Extremes.tla, reveal family: %v", err)
		return
	}
	if os.Getenv("C10_CORRUPT_SPEC") != "" { // demonstration: one predicted stage of the specification changed
		for i := range rm.v1 {
			if len(rm.v1[i].UC.Keys) == 1 && rm.v1[i].UC.Keys[0] == (rKey{Alg: "ed25519", Len: 31}) {
				for j := range rm.v1[i].St {
					if rm.v1[i].St[j] == "invalid" {
						rm.v1[i].St[j], rm.v1[i].St2[j] = "accept", "accept"
					}
				}
			}
		}
	}
	all := revealCases(rm)
	groups := map[string][]*revealCase{}
	var order []string
	for _, rc := range all {
		k := rc.group() + "/" + rc.Stage
		if groups[k] == nil {
			order = append(order, k)
		}
		groups[k] = append(groups[k], rc)
	}
	sort.Strings(order)
	var chosen []*revealCase
	per := c.Pick(6, 1<<30)
	rank := map[*revealCase]int64{}
	if !c.Thorough {
		for _, rc := range all {
			rank[rc] = nameHash(fmt.Sprint(c.Seed, "/", rc.id))
		}
	}
	for _, k := range order {
		gr := groups[k]
		if len(gr) > per {
			sort.SliceStable(gr, func(i, j int) bool {
				return rank[gr[i]] < rank[gr[j]]
			})
			gr = gr[:per]
		}
		chosen = append(chosen, gr...)
	}
	// the addresses to commit to (all of the model's, so that the committing block is the same in both tiers)
	g0 := newGuard()
	sim0 := chain.NewSim(revealParams())
	var addrs []types.Address
	seen := map[types.Address]bool{}
	ucAddr := map[types.Address]bool{}
	for li := range rm.v1 {
		ad := buildUC(rm.v1[li].UC, sim0.K.PK("A")).UnlockHash()
		if !seen[ad] {
			seen[ad] = true
			addrs = append(addrs, ad)
		}
		ucAddr[ad] = true
	}
	for li := range rm.v2 {
		ad := buildPolicy(rm.v2[li].Commit, sim0.K).Address()
		if !seen[ad] {
			seen[ad] = true
			addrs = append(addrs, ad)
		}
	}
	count := func(entry string, ok bool) {
		st.mu.Lock()
		st.perEntry[entry]++
		if ok {
			st.perEntryOK[entry]++
		}
		st.mu.Unlock()
	}
	rs := newRevealScenario(c, g0, addrs, ucAddr, count)
	if rs == nil {
		return
	}
	rst := &revealStats{perForm: map[string]int64{}, interpreted: map[string]int64{}, accepted: map[string]int64{}, stages: map[string]int64{}, kinds: map[string]bool{}, keysRead: map[string]int64{}, reported: map[string]bool{}}
	workers := c.Pick(4, 8)
	var wg sync.WaitGroup
	for w := 0; w < workers; w++ {
		wg.Add(1)
		go func(w int) {
			defer wg.Done()
			g := newGuard()
			for i := w; i < len(chosen); i += workers {
				rs.runOne(c, st, rst, g, chosen[i], count)
			}
		}(w)
	}
	wg.Wait()
	// ---- vacuity guards and coverage
	forms := []string{}
	for _, f := range rm.formsV1 {
		forms = append(forms, "v1:"+f)
	}
	for _, f := range rm.formsV2 {
		forms = append(forms, "v2:"+f)
	}
	for _, f := range forms {
		if rst.perForm[f] == 0 || rst.interpreted[f] == 0 || rst.accepted[f] == 0 {
			c.Infra("vacuity: reveal form %s: %d cases, %d decided by the signature / policy interpreter, %d accepted", f, rst.perForm[f], rst.interpreted[f], rst.accepted[f])
		}
	}
	if rst.undecodable*100 > rst.cases+rst.undecodable {
		c.Infra("vacuity: %d reveals were not executed because their transaction does not survive a round trip through the codecs (numbers, byte strings and short lists: decodable by construction)", rst.undecodable)
	}
	if rst.early*100 > rst.cases {
		c.Infra("vacuity: %d of %d reveals were refused before the interpreter saw the pre-image, e.g. %v", rst.early, rst.cases, rst.earlyEx)
	}
	if c.NViolations() == 0 {
		for _, f := range rm.formsV1 {
			for _, n := range []int{0, 1, 31, 33, 64} {
				if rst.keysRead[fmt.Sprintf("v1:%s ed25519-%d", f, n)] == 0 {
					c.Infra("vacuity: no reveal of form v1:%s made the interpreter read an ed25519 key of %d bytes", f, n)
				}
			}
		}
	}
	for ei, e := range exts {
		if e.Fam != "reveal" {
			continue
		}
		if rst.kinds[fmt.Sprint(e.Ver, "/", e.T, "/", e.X)] {
			st.mu.Lock()
			st.entriesHit[ei] = true
			st.mu.Unlock()
		} else {
			c.Infra("vacuity: no case of %v was executed", e)
		}
	}
	c.Cov("reveal_cases_of_the_model", len(all))
	c.Cov("reveal_cases_executed", rst.cases)
	c.Cov("reveal_addresses_committed_in_block_1", len(addrs))
	c.Cov("reveal_cases_per_form", rst.perForm)
	c.Cov("reveal_cases_decided_by_the_interpreter_per_form", rst.interpreted)
	c.Cov("reveal_blocks_accepted_applied_reverted_per_form", rst.accepted)
	c.Cov("reveal_cases_by_deciding_stage_on_the_real_code", rst.stages)
	c.Cov("reveal_odd_ed25519_keys_read_by_the_interpreter", rst.keysRead)
	c.Cov("reveal_cases_refused_before_the_interpreter", rst.early)
	c.Cov("reveal_cases_whose_real_stage_differs_from_the_model", map[string]any{"count": rst.diverge, "examples": rst.divergeEx})
	if rst.diverge > 0 {
		// who may spend is the subject of C02 / C03, not of this property: noted like the other foreign mismatches of the ledger harness
		fmt.Printf("NOTE: first C03:reveal-verdict (%d cases): the signature / policy interpreter decides differently from Extremes.tla: %s\n", rst.diverge, rst.divergeEx[0])
	}
	c.Cov("reveal_cases_not_decodable", rst.undecodable)
	st.mu.Lock()
	if len(chosen) > 0 {
		st.samples = append(st.samples, map[string]any{"reveal_case": chosen[len(chosen)/2]})
	}
	st.mu.Unlock()
}

// replayReveal re-executes one saved case: the committing block pays to its address only.
func replayReveal(c *vlib.Ctx, rc *revealCase) {
	st := newLedgerStats()
	g := newGuard()
	sim0 := chain.NewSim(revealParams())
	ad := rc.commitAddress(sim0.K)
	count := func(string, bool) {}
	rs := newRevealScenario(c, g, []types.Address{ad}, map[types.Address]bool{ad: rc.Ver == 1}, count)
	if rs == nil {
		return
	}
	rst := &revealStats{perForm: map[string]int64{}, interpreted: map[string]int64{}, accepted: map[string]int64{}, stages: map[string]int64{}, kinds: map[string]bool{}, keysRead: map[string]int64{}, reported: map[string]bool{}}
	rs.runOne(c, st, rst, g, rc, count)
}
