// C10 — untrusted input can never crash a node: decoding and validation are total.
//
// The inputs are GENERATED FROM THE SPECIFICATIONS, not random:
//
//  1. spec/wire/Malformed.tla: for every schema line of the wire formats (WireCodec combinator language) and every
//     small valid shape of it, TLC computes the protocol encoding together with the positions of its structural
//     items, and the catalogue of format-aware corruptions of each (cut points, inflated / deflated length prefixes
//     and counts, bool / presence bytes 2 and 255, over-long and zero-led v1 currencies, unknown tags, policy
//     nesting and arity beyond the limits and beyond the data, multiproof leaf indices and leaf-count hints, outline
//     kind bytes, specifier variants, field bitmaps, extreme 64-bit members). Every byte string runs through the real
//     DecodeFrom of its type. The same module holds the catalogue of corruptions of JSON documents and identifier
//     texts; they run through json.Unmarshal / UnmarshalJSON / UnmarshalText of every type of core reachable from
//     the registered wire types.
//  2. spec/ledger/Extremes.tla: the catalogue of structure-aware extremes over the generic transaction of
//     Ledger.tla. Every valid block of every replayed behaviour of Ledger.tla is the base of mutants (as is, and
//     re-signed + re-sealed) that run through ValidateHeader, ValidateOrphan, ValidateBlock, ValidateTransaction /
//     ValidateV2Transaction on a fresh MidState, ValidateTransactionElements, and — when ValidateBlock accepts —
//     ApplyBlock and RevertBlock. The same module holds the COMMIT-THEN-REVEAL family (reveal.go): a valid block pays to the
//     addresses of unlock conditions and spend policies that TLC enumerates (keys of odd lengths, unknown algorithms, absurd
//     thresholds and time locks, every kind of policy), the next block spends them revealing the pre-image in every spending
//     form; the model transcribes validateSignatures and SpendPolicy.Verify and names the stage that decides each case.
//
// The prediction of both specifications is only: the call returns (a value or an error). A violation observed on the
// real code is: a panic; a call that has not returned after 120 s (5 s makes it a suspect, the same execution is then
// given the long deadline; calls that return but take more than 2 s are recorded in the evidence as slow_cases); a heap
// that at its PEAK during the call has grown by more than 64 x input + 1 MiB (total allocation is only the cheap
// first-stage filter; the verdict is the smallest of three peak measurements in a fresh process); the death of the
// process.
package main

import (
	"bufio"
	"bytes"
	"context"
	"encoding/binary"
	"encoding/json"
	"fmt"
	"os"
	"os/exec"
	"path/filepath"
	"regexp"
	"runtime/pprof"
	"sort"
	"strings"
	"sync"
	"time"

	"verif/harness/vlib"
	wb "verif/harness/wirebridge"
)

func main() {
	if len(os.Args) >= 3 && os.Args[1] == "-worker" {
		workerMain(os.Args[2])
		return
	}
	stackMu.Lock()
	stackBuf = make([]byte, 8<<20) // this process runs many goroutines
	stackMu.Unlock()
	c := vlib.Start("C10")
	if c.Replay != "" {
		replay(c)
		return
	}
	if os.Getenv("C10_ONLY") == "reveal" { // development aid: the commit-then-reveal family alone
		c.Rule("development run: reveal family only")
		if pf := os.Getenv("C10_CPUPROFILE"); pf != "" {
			if f, err := os.Create(pf); err == nil {
				pprof.StartCPUProfile(f)
				defer pprof.StopCPUProfile()
			}
		}
		exts, _ := loadExtremes(c)
		st := newLedgerStats()
		runReveal(c, st, exts)
		pprof.StopCPUProfile()
		c.Count(st.mutants, int64(len(st.distinct)))
		c.Finish()
	}
	c.Rule("Decoder cases: TLC (Malformed.tla) enumerates (wire type, small valid shape, structural item, corruption) and emits the bytes; a case is distinct by " +
		"(type, shape, case number) and non-trivial iff its bytes differ from the valid encoding. JSON / text cases: every catalogue entry at sampled nodes of valid " +
		"documents of every reachable type of core (each counts: a replacement is never the node's own text). Ledger cases: (catalogue entry of Extremes.tla) x (valid " +
		"transaction of an accepted block of a replayed Ledger.tla behaviour) x (as is | re-signed and re-sealed); distinct by (entry, sealing, transaction template, era); " +
		"non-trivial iff the entry changed the block. Reveal cases: (pre-image) x (signatures / satisfaction) x (spending form) of the commit-then-reveal family of Extremes.tla, " +
		"distinct by their position in the model's tables, all non-trivial (the quick tier takes a seed-chosen handful from every group (form, key list or policy kind, predicted stage)). " +
		"evaluations = cases executed on the real code.")
	c.Assume("the schema lines of spec/wire and the generic transaction of spec/ledger/Ledger.tla describe the formats and the ledger (bound to the code by C11 and C01..C08)")
	c.Assume("a worker process runs one case at a time, so runtime.MemStats.TotalAlloc deltas are the case's total allocations: the cheap filter. The verdict is the PEAK heap growth during the call, measured three times (smallest counts) in a fresh process that holds next to nothing, with a sampler forcing collections back to back; a reading overestimates memory held by what is allocated during one collection (1-3 MB for the fastest churners)")
	c.Assume("the v1 block supplement is the node's own data: ValidateBlock checks it against the accumulator before any transaction sees it, so entries that change the CONTENT of supplement elements go through ValidateBlock only (entries about which elements it holds also go through ValidateTransaction)")
	c.Assume("an allocation above the bound that encoding/json itself makes while it builds the value (slice growth, zeroed elements for null: at most the size of the Go type per array element) is a property of the Go JSON decoder and is counted, not reported; allocations made by functions of core (or by libraries they call) are reported")
	c.Assume("unstructured random bytes are not generated (that would be fuzzing, not model-based generation)")
	t0 := time.Now()
	if pf := os.Getenv("C10_CPUPROFILE"); pf != "" { // development aid
		if f, err := os.Create(pf); err == nil {
			pprof.StartCPUProfile(f)
			defer pprof.StopCPUProfile()
		}
	}

	// ---- TLC: malformed encodings (runs while the ledger side works)
	var regNames []string
	for _, t := range wb.Types() {
		regNames = append(regNames, fmt.Sprintf("%q", t.Name))
	}
	var resM *vlib.TLCResult
	var errM error
	doneM := make(chan struct{})
	go func() {
		resM, errM = c.TLC(vlib.TLCOpts{SpecDirs: []string{"wire"}, Module: "Malformed",
			ConfText: fmt.Sprintf("SPECIFICATION MSpec\nCONSTANTS\n  Depth = %d\n  MaxCuts = %d\n  Only = {%s}\nCHECK_DEADLOCK FALSE\n", c.Pick(1, 2), c.Pick(96, 400), strings.Join(regNames, ", ")),
			Workers:  8, Timeout: 20 * time.Minute, Xss: "512m"})
		close(doneM)
	}()

	// ---- self-test of the verdict machinery (synthetic entry points through the real guard, in worker processes)
	canaryDone := make(chan string, 1)
	go func() { canaryDone <- runCanaries(c) }()

	// ---- TLC: catalogue of extremes
	exts, fams := loadExtremes(c)
	c.Cov("extremes_catalogue_entries", len(exts))

	// ---- workers for decoders and unmarshallers start as soon as the malformed encodings are there
	type poolResult struct {
		units []unitLine
		fatal int
	}
	var decRes, jsonRes poolResult
	var cat *catalogue
	poolDone := make(chan struct{})
	go func() {
		defer close(poolDone)
		<-doneM
		if errM != nil {
			c.Infra("Malformed.tla: %v", errM)
			return
		}
		if resM.Violated != "" {
			c.Infra("Malformed.tla failed to evaluate (%s): %s", resM.Violated, vlib.Tail(resM.Out, 1200))
			return
		}
		lines := unquoteLines(resM.Lines)
		if os.Getenv("C10_CORRUPT_SPEC") != "" { // demonstration: one announced case count of the specification changed
			re := regexp.MustCompile(`"n":(\d+)`)
			for i, ln := range lines {
				if strings.HasPrefix(ln, "SHAPE ") {
					lines[i] = re.ReplaceAllString(ln, `"n":1$1`)
					break
				}
			}
		}
		var err error
		if cat, err = parseCatalogue(lines); err != nil {
			c.Infra("Malformed.tla output: %v", err)
			return
		}
		perType := map[string]int{}
		for _, sh := range cat.Shapes {
			perType[sh.Type]++
		}
		for _, t := range wb.Types() {
			if cat.Counts[t.Name] == 0 || perType[t.Name] != cat.Counts[t.Name] {
				c.Infra("Malformed.tla: %d of %d shapes of %s arrived", perType[t.Name], cat.Counts[t.Name], t.Name)
			}
		}
		dir := filepath.Join(c.Work, "pool")
		os.MkdirAll(dir, 0o755)
		all := filepath.Join(dir, "malformed.lines")
		var head []string
		for _, ln := range lines {
			if !strings.HasPrefix(ln, "SHAPE ") {
				head = append(head, ln)
			}
		}
		os.WriteFile(all, []byte(strings.Join(lines, "\n")+"\n"), 0o644)
		headFile := filepath.Join(dir, "catalogue.lines")
		os.WriteFile(headFile, []byte(strings.Join(head, "\n")+"\n"), 0o644)
		nDec, nJSON := 5, 4
		var wg sync.WaitGroup
		var mu sync.Mutex
		for w := 0; w < nDec; w++ {
			wg.Add(1)
			go func(w int) {
				defer wg.Done()
				u, f := superviseWorker(c, cat, job{Kind: "decode", Lines: all, W: w, Of: nDec, Seed: c.Seed, Thorough: c.Thorough}, dir)
				mu.Lock()
				decRes.units = append(decRes.units, u...)
				decRes.fatal += f
				mu.Unlock()
			}(w)
		}
		for w := 0; w < nJSON; w++ {
			wg.Add(1)
			go func(w int) {
				defer wg.Done()
				u, f := superviseWorker(c, cat, job{Kind: "json", Lines: headFile, W: w, Of: nJSON, Seed: c.Seed, Thorough: c.Thorough}, dir)
				mu.Lock()
				jsonRes.units = append(jsonRes.units, u...)
				jsonRes.fatal += f
				mu.Unlock()
			}(w)
		}
		wg.Wait()
	}()

	// ---- ledger side (in this process)
	tL := time.Now()
	ls, rs := runLedger(c, exts)
	secL := time.Since(tL).Seconds()
	<-poolDone
	if msg := <-canaryDone; msg != "" {
		c.Infra("self-test of the guard failed: %s", msg)
	} else {
		c.Cov("guard_selftest", "synthetic entry points: panic, 8 MiB held for 16 bytes, no return by the long deadline and process death are flagged; a benign one, a slow one (observation only) and one that churns 128 MiB of garbage for 256 KiB of input while holding 32 KiB are not")
	}
	if cat == nil {
		c.Finish()
	}

	// ---- evidence and vacuity guards: decoders
	var evals, nontrivial int64
	perType := map[string]int{}
	classSeen := map[string]int{}
	perEntry := map[string]int64{}
	outcomes := map[string]int{}
	remeasured, churn := 0, 0
	churnMax := map[string]any{}
	var churnTop uint64
	noteChurn := func(u unitLine) {
		churn += u.Churn
		if u.ChurnMax > churnTop {
			churnTop = u.ChurnMax
			churnMax = map[string]any{"key": u.ChurnKey, "input_bytes": u.ChurnInput, "total_allocated": u.ChurnMax, "peak_heap_growth": u.ChurnPeak, "bound": allocBound(u.ChurnInput)}
		}
	}
	for _, u := range decRes.units {
		noteChurn(u)
		perType[u.Type] += u.N
		evals += int64(u.N)
		nontrivial += int64(u.N - u.Trivial)
		outcomes["decode_cases_equal_to_the_valid_encoding"] += u.Trivial
		perEntry["DecodeFrom"] += int64(u.N)
		outcomes["decode_error"] += u.Err
		outcomes["decode_value"] += u.OK
		outcomes["decode_skipped_after_fatal_or_hang"] += u.Skipped
		remeasured += u.Remeas
		for k, v := range u.Classes {
			classSeen[k] += v
		}
	}
	minPer := c.Pick(20, 40)
	small := map[string]bool{"V2FileContractExpiration": true, "rhp4_RPCSettingsRequest": true, "rhp4_RPCAttachPoolsResponse": true, "rhp4_RPCDetachPoolsResponse": true,
		"rhp3_InstrRevision": true, "rhp3_RPCPriceTableResponse": true} // empty objects: only the extensions exist
	for _, t := range wb.Types() {
		need := minPer
		if small[t.Name] {
			need = 4
		}
		if perType[t.Name] < need {
			c.Infra("vacuity: only %d malformed encodings of %s were decoded (wanted >= %d)", perType[t.Name], t.Name, need)
		}
	}
	for _, cl := range cat.Classes {
		if classSeen[cl] == 0 {
			c.Infra("vacuity: corruption class %s was never applied", cl)
		}
	}
	if outcomes["decode_error"] == 0 || outcomes["decode_value"] == 0 {
		c.Infra("vacuity: decoders returned %d errors and %d values", outcomes["decode_error"], outcomes["decode_value"])
	}
	c.Cov("decode_cases_per_type_min", minOf(perType))
	c.Cov("decode_cases_by_class", classSeen)
	c.Cov("decode_shapes", len(cat.Shapes))
	c.Cov("decode_types", len(perType))

	// ---- JSON / text
	jsonTypes, textTypes := map[string]int{}, map[string]int{}
	jclass := map[string]int{}
	for _, u := range jsonRes.units {
		noteChurn(u)
		evals += int64(u.N)
		nontrivial += int64(u.N)
		perEntry[u.Entry] += int64(u.N)
		outcomes["unmarshal_error"] += u.Err
		outcomes["unmarshal_value"] += u.OK
		remeasured += u.Remeas
		outcomes["over_bound_but_allocated_by_encoding_json_itself"] += u.Generic
		if u.Entry == "UnmarshalText" {
			textTypes[u.Type] += u.N
		} else {
			jsonTypes[u.Type] += u.N
		}
		for k, v := range u.Classes {
			jclass[k] += v
		}
	}
	rts := roots()
	nText := 0
	for _, rt := range rts {
		if jsonTypes[rt.Name] == 0 {
			c.Infra("vacuity: no corrupted JSON document was unmarshalled into %s", rt.Name)
		}
		if rt.Text {
			nText++
			if textTypes[rt.Name] == 0 {
				c.Infra("vacuity: no corrupted text was given to %s.UnmarshalText", rt.Name)
			}
		}
	}
	for _, e := range cat.JSONCat {
		if jclass[e.Class] == 0 {
			c.Infra("vacuity: JSON corruption class %s was never applied", e.Class)
		}
	}
	for _, e := range cat.TextCat {
		if jclass[e.Class] == 0 {
			c.Infra("vacuity: text corruption class %s was never applied", e.Class)
		}
	}
	c.Cov("json_root_types", len(rts))
	c.Cov("text_entry_points", nText)
	c.Cov("json_text_cases_by_class", jclass)
	c.Cov("worker_processes_killed_by_a_case", decRes.fatal+jsonRes.fatal)
	c.Cov("cases_remeasured_alone_for_allocation", remeasured)
	c.Cov("cases_over_the_bound_in_total_allocation_but_not_in_peak_heap", churn)
	c.Cov("largest_such_case", churnMax)

	// ---- ledger
	evals += ls.mutants + int64(rs.Rejected)
	nontrivial += int64(len(ls.distinct))
	for k, v := range ls.perEntry {
		perEntry[k] += v
	}
	for _, ep := range entryPoints {
		if ls.perEntry[ep] == 0 {
			c.Infra("vacuity: validation entry point %s was never exercised", ep)
		}
	}
	for _, f := range fams {
		if ls.perFam[f] == 0 {
			c.Infra("vacuity: no mutant of family %s was executed", f)
		}
	}
	for k := range ls.unknown {
		c.Infra("the harness cannot interpret catalogue entries: %s", k)
	}
	if ls.appliedReverted == 0 {
		c.Infra("vacuity: no mutated block passed validation (nothing was applied and reverted)")
	}
	// pairs of currency members apply only where both members meet in one transaction; every other entry must be used
	var never []string
	nonPair := 0
	for i, e := range exts {
		if e.Fam == "cur2" {
			continue
		}
		nonPair++
		if !ls.entriesHit[i] {
			never = append(never, e.String())
		}
	}
	c.Cov("ledger_entries_never_applied", never)
	if c.Thorough && float64(len(never)) > 0.1*float64(nonPair) {
		c.Infra("vacuity: %d of %d non-pair catalogue entries were never applied: %v", len(never), nonPair, never)
	}
	c.Traces(int64(rs.Behaviours+ls.fixed) + ls.honestBehaviours)
	evals += ls.honestBlocks
	nontrivial += ls.honestBlocks
	c.Cov("honest_exhaustive_families_behaviours", ls.honestPerFamily)
	c.Cov("honest_exhaustive_families_blocks_validated_applied_reverted", ls.honestBlocks)
	for _, f := range honestFamilies() {
		if (!f.thoroughExtra || c.Thorough) && ls.honestPerFamily[f.name] == 0 {
			c.Infra("vacuity: the exhaustive family %s produced no behaviour", f.name)
		}
	}
	c.Cov("ledger_fixed_behaviours_replayed", ls.fixed)
	c.Cov("ledger_behaviours_replayed", rs.Behaviours)
	c.Cov("ledger_blocks_mutated", ls.blocks)
	c.Cov("ledger_defective_blocks_of_the_model_validated", rs.Rejected)
	c.Cov("ledger_mutants", ls.mutants)
	c.Cov("ledger_mutants_by_family", ls.perFam)
	c.Cov("ledger_catalogue_entries_applied", len(ls.entriesHit))
	c.Cov("ledger_entry_transaction_pairs_not_applicable", ls.notApplicable)
	c.Cov("ledger_mutants_accepted_applied_reverted", ls.appliedReverted)
	c.Cov("ledger_accepted_mutant_classes", len(ls.accepted))
	c.Cov("ledger_follow_up_blocks_on_accepted_mutants", ls.followUps)
	if ls.followUps["spend"] == 0 || ls.followUps["contracts"] == 0 {
		c.Infra("vacuity: follow-up histories were not exercised: %v", ls.followUps)
	}
	for k, n := range ls.followUps {
		if !strings.Contains(k, "accepted") {
			evals += n
		}
	}
	c.Cov("ledger_mutants_not_executed_because_no_decoder_produces_the_value", ls.notDecodable)
	c.Cov("ledger_mutants_skipped_after_confirmed_hang_of_their_class", ls.skippedHung)
	c.Cov("ledger_entry_point_returned_nil", ls.perEntryOK)
	for k, v := range ls.slow {
		noteSlow(k, v)
	}
	c.Cov("slow_cases", slowCases)
	c.Cov("ledger_seconds", secL)
	c.Cov("executions_per_entry_point", perEntry)
	c.Cov("outcomes", outcomes)
	c.Cov("total_seconds", time.Since(t0).Seconds())
	for _, s := range ls.samples {
		c.Sample(s)
	}
	if len(cat.Shapes) > 0 {
		sh := cat.Shapes[len(cat.Shapes)/2]
		dc := cat.caseAt(sh, cat.numCases(sh)/2)
		c.Sample(map[string]any{"decode_case": map[string]any{"type": sh.Type, "class": dc.Class, "variant": dc.Variant, "member": dc.Owner + "." + dc.Path, "valid": fmt.Sprintf("%x", sh.Bytes), "malformed": fmt.Sprintf("%x", dc.B)}})
	}
	c.CovAdd("goroutines_abandoned_after_deadline", leaked.Load()) // those of the ledger side (this process)
	c.Count(evals, nontrivial)
	pprof.StopCPUProfile()
	c.Finish()
}

// runCanaries checks that the guard flags what it must flag and nothing else; "" = as expected.
func runCanaries(c *vlib.Ctx) string {
	dir := filepath.Join(c.Work, "canary")
	os.MkdirAll(dir, 0o755)
	lines := filepath.Join(dir, "none.lines")
	os.WriteFile(lines, []byte("BLOBS []\nFIXED {}\nTAILS []\nJSONCAT []\nTEXTCAT []\nCLASSES []\n"), 0o644)
	j := job{Kind: "canary", Lines: lines, Out: filepath.Join(dir, "canary.out"), Progress: filepath.Join(dir, "canary.progress"), DeadlineMs: 1500}
	jb, _ := json.Marshal(j)
	jf := filepath.Join(dir, "canary.job")
	os.WriteFile(jf, jb, 0o644)
	if code, stderr, to := runProcess(jf, time.Minute); code != 0 || to {
		return fmt.Sprintf("canary worker exit %d: %s", code, firstLines(stderr, 3))
	}
	out, _ := os.ReadFile(j.Out)
	got := map[string]bool{}
	slow, churn := false, false
	for _, ln := range strings.Split(string(out), "\n") {
		var v violLine
		if json.Unmarshal([]byte(ln), &v) == nil && v.K == "viol" {
			got[v.Key] = true
		}
		var sl slowLine
		if json.Unmarshal([]byte(ln), &sl) == nil && sl.K == "slow" && sl.Key == "canary/slow" {
			slow = true
		}
		var u unitLine
		if json.Unmarshal([]byte(ln), &u) == nil && u.K == "unit" && u.Churn == 1 && u.ChurnKey == "canary/churns" {
			churn = true
		}
	}
	if !slow {
		return "a slow but terminating call was not recorded as an observation"
	}
	if !churn {
		return "a call that churns garbage but holds little was not recognised as such: " + vlib.Tail(string(out), 1500)
	}
	want := []string{"canary/panics/panic", "canary/allocates/alloc", "canary/hangs/hang"}
	for _, k := range want {
		if !got[k] {
			return "not detected: " + k
		}
	}
	if len(got) != len(want) {
		return fmt.Sprintf("flagged more than it should: %v", got)
	}
	k := job{Kind: "canary-kill", Lines: lines, Out: filepath.Join(dir, "kill.out"), Progress: filepath.Join(dir, "kill.progress")}
	kb, _ := json.Marshal(k)
	kf := filepath.Join(dir, "kill.job")
	os.WriteFile(kf, kb, 0o644)
	if code, _, to := runProcess(kf, time.Minute); code == 0 || to {
		return "the death of a worker process was not noticed"
	}
	return ""
}

var (
	slowMu    sync.Mutex
	slowCases = map[string]float64{}
)

// noteSlow records an observation: a call that returned, but slowly.
func noteSlow(key string, seconds float64) {
	slowMu.Lock()
	if slowCases[key] < seconds {
		slowCases[key] = seconds
	}
	slowMu.Unlock()
}

func minOf(m map[string]int) int {
	first, min := true, 0
	for _, v := range m {
		if first || v < min {
			first, min = false, v
		}
	}
	return min
}

// superviseWorker runs one worker process to completion, restarting it behind every case that kills it.
func superviseWorker(c *vlib.Ctx, cat *catalogue, j job, dir string) (units []unitLine, fatal int) {
	tag := fmt.Sprintf("%s-%d", j.Kind, j.W)
	j.Out = filepath.Join(dir, tag+".out")
	j.Progress = filepath.Join(dir, tag+".progress")
	jobFile := filepath.Join(dir, tag+".job")
	os.Remove(j.Out)
	limit := 12 * time.Minute
	if c.Thorough {
		limit = 40 * time.Minute
	}
	start := time.Now()
	for restarts := 0; ; restarts++ {
		if restarts > 400 {
			c.Infra("worker %s: more than 400 restarts", tag)
			break
		}
		os.Remove(j.Progress)
		jb, _ := json.Marshal(j)
		os.WriteFile(jobFile, jb, 0o644)
		code, stderr, timedOut := runProcess(jobFile, limit-time.Since(start))
		if timedOut {
			c.Infra("worker %s did not finish within %v", tag, limit)
			break
		}
		if code == 0 {
			break
		}
		if code == 3 {
			c.Infra("worker %s could not start: %s", tag, vlib.Tail(stderr, 400))
			break
		}
		// the process died: which case was running?
		pb, err := os.ReadFile(j.Progress)
		if err != nil || len(pb) < 16 {
			c.Infra("worker %s died (exit %d) before its first case: %s", tag, code, vlib.Tail(stderr, 600))
			break
		}
		unit, cs := int(binary.LittleEndian.Uint64(pb[0:])), int(binary.LittleEndian.Uint64(pb[8:]))
		key, what, payload := caseDescription(j, cat, unit, cs)
		if payload == nil {
			c.Infra("worker %s died (exit %d) at an unknown case (%d, %d): %s", tag, code, unit, cs, vlib.Tail(stderr, 600))
			break
		}
		// reproduce: the case alone, in a fresh process
		single := j
		single.Start = [2]int{unit, cs}
		single.Out = filepath.Join(dir, tag+".single.out")
		single.Progress = filepath.Join(dir, tag+".single.progress")
		single.Skip = append([]string{"@single"}, j.Skip...)
		sb, _ := json.Marshal(single)
		singleFile := filepath.Join(dir, tag+".single.job")
		os.WriteFile(singleFile, sb, 0o644)
		code2, stderr2, to2 := runProcess(singleFile, 2*time.Minute)
		if code2 != 0 || to2 {
			fatal++
			first := firstLines(stderr2, 6)
			payload["outcome"], payload["stderr"] = "process killed", first
			vkey := key
			if site := panicSite(stderr2); site != "" {
				parts := strings.Split(key, "/")
				vkey = parts[0] + "/" + site + "/" + parts[len(parts)-1]
			}
			c.Violation(vkey, fmt.Sprintf("%s kills the process (not recoverable): %s", what, strings.ReplaceAll(firstLines(stderr2, 2), "\n", " | ")), payload)
			j.Skip = append(j.Skip, key)
		} else {
			fmt.Printf("NOTE: worker %s died at case (%d,%d) %s but the case alone does not kill a fresh process: %s\n", tag, unit, cs, key, firstLines(stderr, 3))
			c.Infra("worker %s died (exit %d) at %s, not reproducible alone: %s", tag, code, key, firstLines(stderr, 4))
		}
		j.Start = [2]int{unit, cs + 1}
	}
	// collect
	f, err := os.Open(j.Out)
	if err != nil {
		c.Infra("worker %s left no results", tag)
		return
	}
	defer f.Close()
	sc := bufio.NewScanner(f)
	sc.Buffer(make([]byte, 1<<20), 1<<26)
	done := false
	for sc.Scan() {
		var probe struct {
			K string `json:"k"`
		}
		if json.Unmarshal(sc.Bytes(), &probe) != nil {
			continue
		}
		switch probe.K {
		case "unit":
			var u unitLine
			json.Unmarshal(sc.Bytes(), &u)
			units = append(units, u)
		case "viol":
			var v violLine
			json.Unmarshal(sc.Bytes(), &v)
			c.Violation(v.Key, v.What, v.Payload)
		case "slow":
			var sl slowLine
			json.Unmarshal(sc.Bytes(), &sl)
			noteSlow(sl.Key, sl.Seconds)
		case "infra":
			var in struct {
				What string `json:"what"`
			}
			json.Unmarshal(sc.Bytes(), &in)
			c.Infra("worker %s: %s", tag, in.What)
		case "done":
			done = true
			var d struct {
				Leaked int64 `json:"leaked"`
			}
			json.Unmarshal(sc.Bytes(), &d)
			c.CovAdd("goroutines_abandoned_after_deadline", d.Leaked)
		}
	}
	if !done {
		c.Infra("worker %s did not complete", tag)
	}
	return
}

func firstLines(s string, n int) string {
	ls := strings.Split(strings.TrimSpace(s), "\n")
	if len(ls) > n {
		ls = ls[:n]
	}
	return strings.Join(ls, "\n")
}

// runProcess starts this binary as a worker.
func runProcess(jobFile string, limit time.Duration) (code int, stderr string, timedOut bool) {
	if limit < time.Second {
		limit = time.Second
	}
	ctx, cancel := context.WithTimeout(context.Background(), limit)
	defer cancel()
	cmd := exec.CommandContext(ctx, os.Args[0], "-worker", jobFile)
	var eb bytes.Buffer
	cmd.Stderr = &limitedWriter{w: &eb, n: 1 << 16}
	cmd.Stdout = nil
	err := cmd.Run()
	if ctx.Err() != nil {
		return -1, eb.String(), true
	}
	if err == nil {
		return 0, eb.String(), false
	}
	if ee, ok := err.(*exec.ExitError); ok {
		return ee.ExitCode(), eb.String(), false
	}
	return 3, err.Error(), false
}

type limitedWriter struct {
	w *bytes.Buffer
	n int
}

func (l *limitedWriter) Write(p []byte) (int, error) {
	if l.n > 0 {
		q := p
		if len(q) > l.n {
			q = q[:l.n]
		}
		l.w.Write(q)
		l.n -= len(q)
	}
	return len(p), nil
}

var _ = sort.Strings
