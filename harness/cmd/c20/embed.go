package main

// 2b. Direction A at every EMBEDDING POSITION (spec/text/TextEmbed.tla).
//
// TextCorrupt replays the corruption classes of the property on the stand-alone parser of
// each identifier kind. The same identifiers are also read as tokens inside composite
// forms, by other parsers or other call sites:
//
//   policy strings   TLC cuts the text of recorded policies into the tokens of the grammar of
//                    Text!PolText (names, numbers, 0x-hex arguments, unlock keys, delimiters),
//                    each with its role and the place of its policy in the tree, alters ONE
//                    token per case and prints the whole string: ParseSpendPolicy must refuse
//                    it or return the same policy.
//   JSON documents   real documents of every JSON type (json.go) and carriers of the policy
//                    bases are decoded into a generic tree; every string leaf that is the text
//                    form of an identifier-typed Go value of the document (found by
//                    reflection, confirmed live by replacing it with another VALID token) is
//                    sent to TLC with kind and abstract value; TLC alters the token; the leaf
//                    is replaced in the tree and the document decoded by the real
//                    json.Unmarshal of its type: refused, or the same value.

import (
	"encoding/json"
	"fmt"
	"math"
	"math/rand"
	"os"
	"reflect"
	"sort"
	"strings"
	"time"

	"go.sia.tech/core/types"
	"verif/harness/vlib"
)

type polBase struct {
	pol  types.SpendPolicy
	text string
	how  string // how the base was built (root / rotation / nested / random)
}

// embedLeafPolicy: a leaf policy whose tokens begin and end with hex letters (so that every
// character-position class alters something) and whose numbers have several digits.
func embedLeafPolicy(r *rand.Rand, kind string) types.SpendPolicy {
	var h [32]byte
	nonTrivialBytes(r, h[:])
	key := func(alg string, n int) types.UnlockKey {
		uk := types.UnlockKey{Algorithm: types.NewSpecifier(alg), Key: make([]byte, n)}
		if n > 0 {
			nonTrivialBytes(r, uk.Key)
		}
		return uk
	}
	switch kind {
	case "above":
		return types.PolicyAbove([]uint64{7, 1 + uint64(r.Intn(1e7)), math.MaxUint64, 0}[r.Intn(4)])
	case "after":
		return types.PolicyAfter(time.Unix([]int64{1700000000 + int64(r.Intn(1e6)), -1 - int64(r.Intn(1e9)), math.MaxInt64, 5}[r.Intn(4)], 0))
	case "pk":
		return types.PolicyPublicKey(types.PublicKey(h))
	case "h":
		return types.PolicyHash(types.Hash256(h))
	case "opaque":
		return types.SpendPolicy{Type: types.PolicyTypeOpaque(h)}
	case "uc0":
		return types.SpendPolicy{Type: types.PolicyTypeUnlockConditions{Timelock: uint64(r.Intn(1000)), SignaturesRequired: uint64(r.Intn(3))}}
	case "uc", "uc1":
		return types.SpendPolicy{Type: types.PolicyTypeUnlockConditions{Timelock: uint64(r.Intn(100000)),
			PublicKeys: []types.UnlockKey{key("ed25519", 32)}, SignaturesRequired: 1}}
	case "uc3":
		return types.SpendPolicy{Type: types.PolicyTypeUnlockConditions{Timelock: math.MaxUint64,
			PublicKeys: []types.UnlockKey{key("ed25519", 32), key("a b", 8), key("a(,)b", 3)}, SignaturesRequired: 1 + uint64(r.Intn(400))}}
	case "uc2":
		return types.SpendPolicy{Type: types.PolicyTypeUnlockConditions{Timelock: 0,
			PublicKeys: []types.UnlockKey{key("entropy", 1), key("ed25519", 32)}, SignaturesRequired: 2}}
	case "thresh":
		return types.PolicyThreshold(1, []types.SpendPolicy{embedLeafPolicy(r, "pk")})
	case "thresh0":
		return types.PolicyThreshold(0, []types.SpendPolicy{})
	}
	panic("unknown leaf kind " + kind)
}

// embedPolicyBases: every leaf kind at the root, as first / middle / last child of a threshold
// (rotation), as only child two thresholds deep, plus random policies.
func embedPolicyBases(c *vlib.Ctx, r *rand.Rand) []polBase {
	var out []polBase
	add := func(how string, p types.SpendPolicy) {
		if !policyInAlphabet(p) {
			return
		}
		txt := p.String()
		if len(txt) > 700 || !policyRoundTrips(p) { // the round trip itself is direction B's business
			return
		}
		out = append(out, polBase{p, txt, how})
	}
	for _, k := range []string{"above", "after", "pk", "h", "opaque", "uc0", "uc1", "uc2", "uc3", "thresh0"} {
		add("root", embedLeafPolicy(r, k))
	}
	rot := []string{"above", "after", "pk", "h", "opaque", "uc", "thresh"}
	for j := range rot {
		of := []types.SpendPolicy{embedLeafPolicy(r, rot[j]), embedLeafPolicy(r, rot[(j+1)%len(rot)]), embedLeafPolicy(r, rot[(j+2)%len(rot)])}
		add("rotation", types.PolicyThreshold(uint8(1+r.Intn(3)), of))
	}
	for _, k := range []string{"above", "after", "pk", "h", "opaque", "uc2"} {
		add("nested", types.PolicyThreshold(1, []types.SpendPolicy{types.PolicyThreshold(uint8(r.Intn(256)), []types.SpendPolicy{embedLeafPolicy(r, k)})}))
	}
	g := &gen{r: r, seen: map[string]int{}, specAlphabet: true}
	for i, n := 0, c.Pick(4, 60); i < n; i++ {
		add("random", g.value(policyType, modeRandom).Interface().(types.SpendPolicy))
	}
	return out
}

// ---------------------------------------------------------------------------
// JSON documents and their identifier leaves

type embedDoc struct {
	typ  jsonType
	js   []byte
	tree any
	orig reflect.Value
}

type docLeaf struct {
	doc   int
	path  []any // object keys and array indices
	spath string
	kind  string
	abs   map[string]any
	text  string
}

type cand struct {
	kind string
	abs  map[string]any
}

var kindPriority = map[string]int{"Address": 9, "UnlockKey": 8, "PublicKey": 7, "Account": 7, "Signature": 6, "ChainIndex": 5, "Currency": 4, "Work": 4, "ProtocolVersion": 3, "Hash256": 2, "Specifier": 1}

func is32(t reflect.Type) bool {
	return t.Kind() == reflect.Array && t.Len() == 32 && t.Elem().Kind() == reflect.Uint8
}

// collectCands: the text forms of every identifier-typed value inside v (by reflection).
func collectCands(v reflect.Value, out map[string][]cand, depth int) {
	if !v.IsValid() || depth > 40 {
		return
	}
	addKind := func(k *kindDef, x reflect.Value) {
		txt, err := marshalText(k, x)
		if err == nil {
			out[txt] = append(out[txt], cand{k.name, absValue(k.name, x)})
		}
	}
	if v.CanInterface() {
		for i := range textKinds {
			k := &textKinds[i]
			if v.Type() != k.typ {
				continue
			}
			switch k.name {
			case "SpendPolicy": // object form in JSON: look inside
			case "ChainIndex":
				addKind(k, v) // and look inside (the JSON form is an object)
			default:
				addKind(k, v)
				return
			}
		}
	}
	switch v.Kind() {
	case reflect.Ptr, reflect.Interface:
		if !v.IsNil() {
			collectCands(v.Elem(), out, depth+1)
		}
	case reflect.Struct:
		if v.Type() == timeType {
			return
		}
		for i := 0; i < v.NumField(); i++ {
			if v.Type().Field(i).IsExported() {
				collectCands(v.Field(i), out, depth+1)
			}
		}
	case reflect.Array:
		if is32(v.Type()) && v.CanInterface() {
			// a 32-byte value of a type without a text form of its own (policy types, preimages ...):
			// a custom marshaller may print it in any of the 32-byte forms
			var b [32]byte
			for i := range b {
				b[i] = byte(v.Index(i).Uint())
			}
			for _, kn := range []string{"Hash256", "PublicKey", "Address"} {
				k := kindByName(kn)
				x := reflect.New(k.typ).Elem()
				for i := range b {
					x.Index(i).SetUint(uint64(b[i]))
				}
				addKind(k, x)
			}
			return
		}
		fallthrough
	case reflect.Slice:
		if v.Type().Elem().Kind() == reflect.Uint8 {
			return
		}
		for i := 0; i < v.Len() && i < 64; i++ {
			collectCands(v.Index(i), out, depth+1)
		}
	case reflect.Map:
		it := v.MapRange()
		for it.Next() {
			collectCands(it.Value(), out, depth+1)
		}
	}
}

func pathString(path []any) string {
	var sb strings.Builder
	for _, p := range path {
		switch x := p.(type) {
		case string:
			sb.WriteString("." + x)
		case int:
			fmt.Fprintf(&sb, "[%d]", x)
		}
	}
	return sb.String()
}

func walkTree(node any, path []any, f func(path []any, s string)) {
	switch x := node.(type) {
	case map[string]any:
		keys := make([]string, 0, len(x))
		for k := range x {
			keys = append(keys, k)
		}
		sort.Strings(keys)
		for _, k := range keys {
			walkTree(x[k], append(append([]any{}, path...), k), f)
		}
	case []any:
		for i := range x {
			walkTree(x[i], append(append([]any{}, path...), i), f)
		}
	case string:
		f(path, x)
	}
}

// setAt replaces the node at path and returns the previous one.
func setAt(tree any, path []any, val any) (old any) {
	cur := tree
	for i, p := range path {
		last := i == len(path)-1
		switch x := p.(type) {
		case string:
			m := cur.(map[string]any)
			if last {
				old, m[x] = m[x], val
				return
			}
			cur = m[x]
		case int:
			a := cur.([]any)
			if last {
				old, a[x] = a[x], val
				return
			}
			cur = a[x]
		}
	}
	return nil
}

func decodeTree(js []byte) (any, error) {
	d := json.NewDecoder(strings.NewReader(string(js)))
	d.UseNumber()
	var tree any
	err := d.Decode(&tree)
	return tree, err
}

// diffChain: the Go types from the root down to the first field in which a and b differ
// (nil when none is found; nil and empty collections are not told apart, times are skipped).
func diffChain(a, b reflect.Value, chain []reflect.Type) []reflect.Type {
	if !a.IsValid() || !b.IsValid() {
		if a.IsValid() != b.IsValid() {
			return chain
		}
		return nil
	}
	if a.Type() != b.Type() {
		return append(chain, a.Type(), b.Type())
	}
	chain = append(chain[:len(chain):len(chain)], a.Type())
	switch a.Kind() {
	case reflect.Slice, reflect.Array:
		if a.Len() != b.Len() {
			return chain
		}
		for i := 0; i < a.Len(); i++ {
			if d := diffChain(a.Index(i), b.Index(i), chain); d != nil {
				return d
			}
		}
	case reflect.Struct:
		if a.Type() == timeType {
			return nil
		}
		for i := 0; i < a.NumField(); i++ {
			if d := diffChain(a.Field(i), b.Field(i), chain); d != nil {
				return d
			}
		}
	case reflect.Ptr, reflect.Interface:
		if a.IsNil() || b.IsNil() {
			if a.IsNil() != b.IsNil() {
				return chain
			}
			return nil
		}
		return diffChain(a.Elem(), b.Elem(), chain)
	case reflect.String:
		if a.String() != b.String() {
			return chain
		}
	case reflect.Bool:
		if a.Bool() != b.Bool() {
			return chain
		}
	case reflect.Int, reflect.Int8, reflect.Int16, reflect.Int32, reflect.Int64:
		if a.Int() != b.Int() {
			return chain
		}
	case reflect.Uint, reflect.Uint8, reflect.Uint16, reflect.Uint32, reflect.Uint64, reflect.Uintptr:
		if a.Uint() != b.Uint() {
			return chain
		}
	}
	return nil
}

// typedDiff: the difference lies inside a value of the Go type of the kind (or, for the 32-byte
// forms a custom marshaller gives to policy types and preimages, inside a 32-byte array).
func typedDiff(kind string, chain []reflect.Type) bool {
	k := kindByName(kind)
	for _, t := range chain {
		if k != nil && t == k.typ {
			return true
		}
		if is32(t) && k != nil && is32(k.typ) {
			return true
		}
	}
	return false
}

func flipLast(s string, a, b byte) string {
	if len(s) == 0 {
		return s
	}
	c := a
	if s[len(s)-1] == a {
		c = b
	}
	return s[:len(s)-1] + string(c)
}

// otherValid: another VALID text of the kind (for the liveness probe of a leaf).
func otherValid(kind, text string) (string, bool) {
	switch kind {
	case "Address":
		a, err := types.ParseAddress(text)
		if err != nil {
			return "", false
		}
		a[0] ^= 1
		return a.String(), true
	case "UnlockKey":
		if strings.HasSuffix(text, ":") {
			return text + "00", true
		}
		return flipLast(text, '0', '1'), true
	case "Specifier":
		return "zz", text != "zz"
	case "SpendPolicy":
		return "", false
	}
	return flipLast(text, '0', '1'), len(text) > 0
}

// embedSubst decodes the document with one leaf replaced.
func embedSubst(d *embedDoc, lf *docLeaf, tok string) (doc []byte, back reflect.Value, err error, pan any) {
	old := setAt(d.tree, lf.path, tok)
	doc, merr := json.Marshal(d.tree)
	setAt(d.tree, lf.path, old)
	if merr != nil {
		return nil, reflect.Value{}, merr, nil
	}
	back, err, pan = parseJSON(d.typ.typ, doc)
	return
}

// embedDocs builds the documents and selects their live identifier leaves.
func embedDocs(c *vlib.Ctx, r *rand.Rand, pbases []polBase, stats map[string]int) ([]*embedDoc, []docLeaf) {
	var docs []*embedDoc
	var leaves []docLeaf
	perPath := map[string]int{}
	maxPerPath := c.Pick(1, 2)
	addDoc := func(t jsonType, v reflect.Value) {
		var js []byte
		var err error
		if pan, _ := vlib.Recover(func() { js, err = json.Marshal(v.Interface()) }); pan || err != nil {
			stats["doc-not-marshalled"]++
			return
		}
		orig, err, pan := parseJSON(t.typ, js)
		if err != nil || pan != nil {
			stats["doc-not-parsed(direction B)"]++
			return
		}
		tree, err := decodeTree(js)
		if err != nil {
			stats["doc-not-generic"]++
			return
		}
		// control: the generic tree re-marshalled decodes to the same value
		d := &embedDoc{typ: t, js: js, tree: tree, orig: orig}
		js2, err := json.Marshal(tree)
		if err != nil {
			stats["doc-control-failed"]++
			return
		}
		if back, err, pan := parseJSON(t.typ, js2); err != nil || pan != nil || !sameValue(orig, back) {
			stats["doc-control-failed"]++
			return
		}
		cands := map[string][]cand{}
		collectCands(v, cands, 0)
		di := -1
		perDoc := map[string]int{}
		walkTree(tree, nil, func(path []any, s string) {
			cs := cands[s]
			if len(cs) == 0 {
				return
			}
			best := cs[0]
			for _, x := range cs[1:] {
				if kindPriority[x.kind] > kindPriority[best.kind] {
					best = x
				}
			}
			if best.kind == "Specifier" && t.name != "Specifier" {
				return
			}
			sp := stripIndices(pathString(path))
			key := t.name + "|" + sp + "|" + best.kind
			if !c.Thorough {
				// quick tier: one leaf per (kind, field and its holder) - the call site of the token's parser -
				// whatever the document type around it
				key = lastFields(sp, 2) + "|" + best.kind
			}
			if perDoc[key] >= 2 || perPath[key] >= maxPerPath {
				stats["leaves-same-position-skipped"]++
				return
			}
			dix := di
			if dix < 0 {
				dix = len(docs)
			}
			lf := docLeaf{doc: dix, path: path, spath: sp, kind: best.kind, abs: best.abs, text: s}
			// liveness: another valid token of the kind must decode to a value that differs inside a
			// field of that kind (otherwise the leaf is derived / ignored / free text)
			other, ok := otherValid(best.kind, s)
			if !ok {
				stats["leaves-no-probe"]++
				return
			}
			_, back, err, pan := embedSubst(d, &lf, other)
			if err != nil || pan != nil {
				stats["leaves-probe-refused"]++
				return
			}
			if sameValue(orig, back) {
				stats["leaves-not-live"]++
				return
			}
			if !typedDiff(best.kind, diffChain(orig, back, nil)) {
				stats["leaves-not-of-the-kind"]++
				return
			}
			if di < 0 {
				di = len(docs)
				docs = append(docs, d)
			}
			perDoc[key]++
			perPath[key]++
			leaves = append(leaves, lf)
			stats["leaves"]++
			stats["leaves-"+best.kind]++
		})
		stats["docs-generated"]++
	}
	byName := map[string]jsonType{}
	for _, t := range jsonTypes {
		byName[t.name] = t
	}
	// carriers of the policy bases: the object form of every token of the policy grammar
	for _, pb := range pbases {
		if pb.how == "random" {
			continue
		}
		names, vals := carriersOf(reflect.ValueOf(pb.pol))
		for i := range names {
			addDoc(byName[names[i]], vals[i])
		}
	}
	g := &gen{r: r, seen: map[string]int{}, specAlphabet: true}
	for _, t := range jsonTypes {
		addDoc(t, g.value(t.typ, modeMax))
		for i, n := 0, c.Pick(2, 5); i < n; i++ {
			addDoc(t, g.value(t.typ, modeRandom))
		}
	}
	stats["docs-with-leaves"] = len(docs)
	return docs, leaves
}

// ---------------------------------------------------------------------------

type ecase struct {
	Fam     string
	B, Sg   int
	Cls     string
	Role    string
	Where   string
	O       string
	I, C    int
	Tok     []int
	Orig    []int
	Text    []int
	Casevar bool
	Expect  string
}

type embedInput struct {
	pbases []polBase
	docs   []*embedDoc
	leaves []docLeaf
	stats  map[string]int
	files  map[string][]byte
}

func buildEmbed(c *vlib.Ctx) *embedInput {
	r := rand.New(rand.NewSource(c.Seed*7919 + 20))
	in := &embedInput{stats: map[string]int{}}
	in.pbases = embedPolicyBases(c, r)
	in.docs, in.leaves = embedDocs(c, r, in.pbases, in.stats)
	var pev, lev []map[string]any
	for _, b := range in.pbases {
		pev = append(pev, map[string]any{"val": absPolicy(b.pol)})
	}
	for _, l := range in.leaves {
		lev = append(lev, map[string]any{"kind": l.kind, "val": l.abs, "type": in.docs[l.doc].typ.name, "path": l.spath})
	}
	in.files = map[string][]byte{"pbases.ndjson": vlib.NDJSON(pev), "leaves.ndjson": vlib.NDJSON(lev)}
	if p := os.Getenv("VERIF_C20_DUMP"); p != "" { // development aid: keep the inputs for stand-alone TLC runs
		for n, b := range in.files {
			os.WriteFile(p+"."+n, b, 0o644)
		}
	}
	return in
}

func embedTLC(c *vlib.Ctx, in *embedInput) *vlib.TLCResult {
	if len(in.pbases) == 0 || len(in.leaves) == 0 {
		c.Infra("vacuity: embedding positions: %d policy bases, %d JSON leaves", len(in.pbases), len(in.leaves))
		return nil
	}
	cfg := "TextEmbed.cfg"
	if c.Thorough {
		cfg = "TextEmbedT.cfg"
	}
	return c.MustTLC(vlib.TLCOpts{SpecDirs: []string{"text"}, Module: "TextEmbed", Config: cfg,
		Workers: 4, Files: in.files, Timeout: 12 * time.Minute, Xss: "64m"})
}

// embedJudge: the verdict on one altered composite form.
func embedJudge(form, class, op, expect string, accepted, same bool, pan any) (key, what string) {
	switch {
	case pan != nil:
		return fmt.Sprintf("embed/%s/%s/panic", form, class), fmt.Sprintf("the parser panics (%v)", pan)
	case accepted && !same:
		return fmt.Sprintf("embed/%s/%s/%s/different-value", form, class, op), "accepted as a DIFFERENT value"
	case accepted && expect == "reject":
		return fmt.Sprintf("embed/%s/%s/%s/accepted", form, class, op), "an altered address is accepted"
	}
	return "", ""
}

func lastFields(spath string, n int) string {
	parts := strings.Split(spath, ".")
	if len(parts) > n {
		parts = parts[len(parts)-n:]
	}
	return strings.Join(parts, ".")
}

func lastField(spath string) string {
	if i := strings.LastIndexByte(spath, '.'); i >= 0 {
		return spath[i+1:]
	}
	return spath
}

func runEmbed(c *vlib.Ctx, in *embedInput, res *vlib.TLCResult) {
	if res == nil {
		c.Infra("no embedded-position cases")
		return
	}
	st := in.stats
	perPol, perJSON := map[string]int{}, map[string]int{}
	wherePol := map[string]map[string]bool{}
	typesHit := map[string]bool{}
	distinct := map[string]bool{}
	n, acceptedSame, rejected := 0, 0, 0
	for _, ln := range res.Lines {
		if !strings.HasPrefix(ln, "ECASE ") {
			continue
		}
		var tc ecase
		if err := json.Unmarshal([]byte(vlib.UnquoteTLA(ln[6:])), &tc); err != nil {
			c.Infra("bad embedded case line %.200q: %v", ln, err)
			continue
		}
		n++
		tok, orig := string(uncodes(tc.Tok)), string(uncodes(tc.Orig))
		// an unlock key is cut at its LAST colon: a colon in place of a hex digit is a class of its own
		// (what precedes it becomes part of the algorithm)
		if (tc.Cls == "key" || tc.Cls == "UnlockKey") && tc.O == "subst" && tc.C == ':' {
			tc.O = "subst-colon"
		}
		switch tc.Fam {
		case "pol":
			if tc.B < 1 || tc.B > len(in.pbases) {
				c.Infra("embedded case names policy base %d", tc.B)
				continue
			}
			b := in.pbases[tc.B-1]
			text := string(uncodes(tc.Text))
			if text == b.text || len(text) != len(b.text)-len(orig)+len(tok) || !strings.Contains(b.text, orig) {
				c.Infra("embedded case is not one altered token of its base: %q from %q", text, b.text)
				continue
			}
			distinct["p:"+text] = true
			perPol[tc.Role+"/"+tc.O]++
			pos := "root"
			switch {
			case strings.Count(tc.Where, "thresh.of[") >= 2:
				pos = "nested"
			case strings.Contains(tc.Where, "thresh.of["):
				pos = tc.Where[strings.Index(tc.Where, "[")+1 : strings.Index(tc.Where, "]")]
			}
			if wherePol[tc.Role] == nil {
				wherePol[tc.Role] = map[string]bool{}
			}
			wherePol[tc.Role][pos] = true
			if i := strings.Index(tc.Where, "uc.keys["); i >= 0 {
				wherePol[tc.Role]["key-"+tc.Where[i+8:len(tc.Where)-1]] = true
			}
			back, err, pan := parseText(kindByName("SpendPolicy"), text)
			accepted := err == nil && pan == nil
			same := accepted && sameValue(reflect.ValueOf(b.pol), back)
			if accepted && same {
				acceptedSame++
			} else if !accepted && pan == nil {
				rejected++
			}
			if key, what := embedJudge("policy-string", tc.Role, tc.O, tc.Expect, accepted, same, pan); key != "" {
				got := ""
				if accepted {
					got = fmt.Sprintf(" (parsed as %q)", back.Interface().(types.SpendPolicy).String())
				}
				c.Violation(key, fmt.Sprintf("policy string %q - token %q (%s, %s%s) of %q altered to %q by %s at %d - is %s%s", text, orig, tc.Cls, tc.Where, tc.Role, b.text, tok, tc.O, tc.I, what, got),
					map[string]any{"class": "embed", "type": "policy-string", "kind": tc.Role, "op": tc.O, "expect": tc.Expect, "text": tc.Text, "base": codes([]byte(b.text)), "printed": text})
			}
		case "json":
			if tc.B < 1 || tc.B > len(in.leaves) {
				c.Infra("embedded case names leaf %d", tc.B)
				continue
			}
			lf := &in.leaves[tc.B-1]
			d := in.docs[lf.doc]
			if orig != lf.text {
				st["leaf-text-not-the-specified-layout(direction B)"]++
			}
			if tok == lf.text {
				continue
			}
			distinct["j:"+d.typ.name+lf.spath+":"+tok] = true
			perJSON[lf.kind+"/"+tc.O]++
			typesHit[d.typ.name] = true
			doc, back, err, pan := embedSubst(d, lf, tok)
			if doc == nil {
				c.Infra("cannot marshal the altered document: %v", err)
				continue
			}
			accepted := err == nil && pan == nil
			same := accepted && sameValue(d.orig, back)
			if accepted && same {
				acceptedSame++
			} else if !accepted && pan == nil {
				rejected++
			}
			class := lf.kind + "@" + lastField(lf.spath)
			if key, what := embedJudge("json", class, tc.O, tc.Expect, accepted, same, pan); key != "" {
				c.Violation(key, fmt.Sprintf("%s document: the %s at %s, %q, altered to %q (%s at %d) is %s; document %.300s", d.typ.name, lf.kind, pathString(lf.path), lf.text, tok, tc.O, tc.I, what, doc),
					map[string]any{"class": "embed", "type": d.typ.name, "kind": class, "op": tc.O, "expect": tc.Expect, "text": codes(doc), "base": codes(d.js), "printed": string(doc)})
			}
		default:
			c.Infra("embedded case of unknown family %q", tc.Fam)
		}
		if n == 23 {
			c.Sample(map[string]any{"embedded": map[string]any{"fam": tc.Fam, "role": tc.Role, "where": tc.Where, "cls": tc.Cls, "op": tc.O, "i": tc.I}, "token": orig, "altered": tok, "text": string(uncodes(tc.Text))})
		}
	}
	st["cases"] = n
	st["tlc-ms"] = int(res.Wall.Milliseconds())
	st["accepted-as-same-value"] = acceptedSame
	st["rejected"] = rejected
	st["policy-bases"] = len(in.pbases)
	st["json-types-with-cases"] = len(typesHit)
	c.Cov("embed", st)
	c.Cov("embed_policy_string_cases_per_role_and_class", perPol)
	c.Cov("embed_json_cases_per_kind_and_class", perJSON)
	wp := map[string][]string{}
	for role, m := range wherePol {
		for p := range m {
			wp[role] = append(wp[role], p)
		}
		sort.Strings(wp[role])
	}
	c.Cov("embed_policy_string_positions_per_role", wp)
	c.Count(int64(n), int64(len(distinct)))
	c.Traces(int64(n))
	if want := int64(n + len(in.pbases) + len(in.leaves)); want != res.Distinct {
		// one state per policy base and per leaf, one per case
		c.Infra("TLC found %d states for %d embedded cases (%d expected)", res.Distinct, n, want)
	}
	// vacuity: every token role of the grammar at every position class, with every class of alteration
	need := map[string][]string{
		"above.n": {"num-subst", "num-ins", "num-empty", "num-over", "num-neg", "num-hex"}, "after.t": {"num-subst", "num-ins", "num-empty", "num-over"},
		"thresh.n": {"num-subst", "num-empty", "num-over", "num-neg"}, "uc.timelock": {"num-subst", "num-empty", "num-over"}, "uc.sigs": {"num-subst", "num-empty", "num-over"},
		"pk.key": {"subst", "upper", "del", "ins", "del2", "ins2", "empty", "prefix"}, "h.hash": {"subst", "upper", "del", "ins", "del2", "ins2", "empty", "prefix"},
		"opaque.addr": {"subst", "upper", "del", "ins", "del2", "ins2", "empty", "prefix"},
		"uc.key":      {"subst", "upper", "del", "ins", "prefix"}, "delimiter": {"delim-del", "delim-twice"},
		"pk.name": {"name-upper", "name-del", "name-ins", "name-empty"}, "uc.name": {"name-upper", "name-del", "name-ins", "name-empty"}, "thresh.name": {"name-upper", "name-del"},
		"above.name": {"name-upper"}, "after.name": {"name-upper"}, "h.name": {"name-upper"}, "opaque.name": {"name-upper"},
	}
	for role, ops := range need {
		for _, o := range ops {
			if perPol[role+"/"+o] == 0 {
				c.Infra("vacuity: no policy-string case %s for token %s", o, role)
			}
		}
		if role == "delimiter" || role == "thresh.name" || role == "thresh.n" {
			continue
		}
		for _, p := range []string{"root", "first", "mid", "last", "nested"} {
			if !wherePol[role][p] {
				c.Infra("vacuity: token %s never altered in a policy at position %s", role, p)
			}
		}
	}
	for _, p := range []string{"key-only", "key-first", "key-mid", "key-last"} {
		if !wherePol["uc.key"][p] {
			c.Infra("vacuity: no unlock key altered at list position %s of uc(...)", p)
		}
	}
	for _, k := range []string{"Address", "Hash256", "PublicKey", "Signature", "UnlockKey", "Currency", "SiacoinOutputID", "FileContractID", "BlockID"} {
		for _, o := range []string{"subst", "del", "ins", "prefix"} {
			oo := o
			if k == "Currency" {
				oo = map[string]string{"subst": "num-subst", "del": "num-empty", "ins": "num-ins", "prefix": "num-over"}[o]
			}
			if perJSON[k+"/"+oo] == 0 {
				c.Infra("vacuity: no JSON document with an altered %s leaf (%s)", k, oo)
			}
		}
	}
	for _, t := range []string{"SpendPolicy", "SatisfiedPolicy", "V2SiacoinInput", "V2Transaction", "Transaction", "Block", "UnlockConditions", "V2FileContract", "SiacoinElement", "State"} {
		if !typesHit[t] {
			c.Infra("vacuity: no altered identifier inside a %s document", t)
		}
	}
	if len(typesHit) < 30 {
		c.Infra("vacuity: identifiers altered inside documents of %d types only", len(typesHit))
	}
	if acceptedSame == 0 || rejected == 0 {
		c.Infra("vacuity: altered composite forms accepted as the same value %d times, refused %d times", acceptedSame, rejected)
	}
}

// replayEmbed re-executes one saved case: the original and the altered composite form.
func replayEmbed(c *vlib.Ctx, key, typ, class, op, expect string, base, text []byte, payload any) {
	var orig, back reflect.Value
	var err error
	var pan any
	form := "json"
	if typ == "policy-string" {
		form = "policy-string"
		k := kindByName("SpendPolicy")
		var e0 error
		var p0 any
		orig, e0, p0 = parseText(k, string(base))
		if e0 != nil || p0 != nil {
			c.Fatal("replay: the unaltered policy string does not parse: %v %v", e0, p0)
		}
		back, err, pan = parseText(k, string(text))
	} else {
		var t *jsonType
		for i := range jsonTypes {
			if jsonTypes[i].name == typ {
				t = &jsonTypes[i]
			}
		}
		if t == nil {
			c.Fatal("replay: unknown type %q", typ)
		}
		var e0 error
		var p0 any
		orig, e0, p0 = parseJSON(t.typ, base)
		if e0 != nil || p0 != nil {
			c.Fatal("replay: the unaltered document does not parse: %v %v", e0, p0)
		}
		back, err, pan = parseJSON(t.typ, text)
	}
	accepted := err == nil && pan == nil
	same := accepted && sameValue(orig, back)
	if k, what := embedJudge(form, class, op, expect, accepted, same, pan); k != "" {
		c.Violation(k, fmt.Sprintf("%s %.300q (from %.300q) is %s", typ, text, base, what), payload)
	}
}
