package main

// "Unmarshalling replaces" (Text.tla, section of that name): a document or text A decoded
// into a receiver that already holds a value B yields A, not a mixture -- for scalar text
// forms (every UnmarshalText, every JSON string) and for the JSON types that are not a plain
// object-of-fields (Text!VariantJSONTypes). Plain object documents follow Go's merge
// semantics (an absent member leaves the field untouched), also when a custom unmarshaller
// decodes the object field by field: their lines are information only (scope = false).

import (
	"encoding"
	"encoding/json"
	"reflect"

	"verif/harness/vlib"
)

var (
	jsonUnmarshalerType = reflect.TypeOf((*json.Unmarshaler)(nil)).Elem()
	textUnmarshalerType = reflect.TypeOf((*encoding.TextUnmarshaler)(nil)).Elem()
)

func hasCustomUnmarshal(t reflect.Type) bool {
	p := reflect.PointerTo(t)
	return p.Implements(jsonUnmarshalerType) || p.Implements(textUnmarshalerType)
}

// Text!VariantJSONTypes: JSON forms that are not a plain object-of-fields
var variantJSONTypes = map[string]bool{"ApplyUpdate": true, "RevertUpdate": true, "V2FileContractResolution": true,
	"V2FileContractElementDiff": true, "SpendPolicy": true, "ElementAccumulator": true}

// inReplaceClause mirrors Text!InReplaceClause (TLC checks that both agree on every line)
func inReplaceClause(how string, doc []byte, typ string) (scope, scalar bool) {
	scalar = how == "json" && len(doc) > 0 && doc[0] == '"'
	return how == "text" || scalar || variantJSONTypes[typ], scalar
}

// usedJSON decodes document b and then document a into one receiver of type t.
func usedJSON(typ string, t reflect.Type, a, b []byte) map[string]any {
	scope, scalar := inReplaceClause("json", a, typ)
	line := map[string]any{"ev": "used", "type": typ, "how": "json", "scope": scope, "scalar": scalar, "custom": hasCustomUnmarshal(t), "fok": false, "uok": false,
		"same": false, "eq": false, "nontrivial": string(a) != string(b), "diff": "", "chain": -1, "seq": 0}
	fresh, err, pan := parseJSON(t, a)
	if err != nil || pan != nil {
		return line
	}
	line["fok"] = true
	recv := reflect.New(t)
	var e1, e2 error
	if p, _ := vlib.Recover(func() {
		e1 = json.Unmarshal(b, recv.Interface())
		e2 = json.Unmarshal(a, recv.Interface())
	}); p || e1 != nil || e2 != nil {
		return line
	}
	line["uok"] = true
	var js2 []byte
	var merr error
	if p, _ := vlib.Recover(func() { js2, merr = json.Marshal(recv.Elem().Interface()) }); !p && merr == nil {
		line["same"] = string(js2) == string(a)
	}
	d := firstFieldDiff(fresh, recv.Elem(), "")
	if d != "" {
		// not data under the rules of Text!JSONRules (stale roots in unused accumulator slots, ...)?
		if same, _, _ := equalUnder(fresh, recv.Elem()); same {
			d = ""
		}
	}
	line["eq"], line["diff"] = d == "", stripIndices(d)
	return line
}

// usedText: the same for MarshalText / UnmarshalText of a text kind.
func usedText(k *kindDef, a, b string) map[string]any {
	line := map[string]any{"ev": "used", "type": k.name, "how": "text", "scope": true, "scalar": false, "custom": true, "fok": false, "uok": false,
		"same": false, "eq": false, "nontrivial": a != b, "diff": "", "chain": -1, "seq": 0}
	if k.name == "SpendPolicy" {
		return nil // ParseSpendPolicy returns a value; there is no receiver
	}
	fresh, err, pan := parseText(k, a)
	if err != nil || pan != nil {
		return line
	}
	line["fok"] = true
	recv := reflect.New(k.typ)
	var e1, e2 error
	if p, _ := vlib.Recover(func() {
		u := recv.Interface().(encoding.TextUnmarshaler)
		e1 = u.UnmarshalText([]byte(b))
		e2 = u.UnmarshalText([]byte(a))
	}); p || e1 != nil || e2 != nil {
		return line
	}
	line["uok"] = true
	if txt, err := marshalText(k, recv.Elem()); err == nil {
		line["same"] = txt == a
	}
	d := firstFieldDiff(fresh, recv.Elem(), "")
	line["eq"], line["diff"] = d == "", stripIndices(d)
	return line
}

// usedFails: the verdict of a "used" line as the real code produced it (for replays)
func usedFails(line map[string]any) bool {
	return line["scope"] == true && line["fok"] == true && (line["uok"] != true || line["same"] != true || line["eq"] != true)
}

// usedKey: one key per type (the detail names the first field that kept a previous value)
func usedKey(typ string, line map[string]any) string {
	return "used-receiver/" + typ
}
