package main

// The values at the limits. spec/text/Text.tla states what the other codecs and the
// types admit (LimitCases: compact descriptors); spec/text/TextLimits.tla emits them;
// this file builds each one at its real size, has the real code print and parse it
// in every form (text, JSON, binary), and logs the result for TextTrace, which checks
// that the value built is the value described (Realises) and that the forms agree:
// every value the binary codec round-trips parses back from its text and JSON forms.

import (
	"bytes"
	"encoding/json"
	"fmt"
	"math"
	"math/big"
	"reflect"
	"strings"
	"time"

	"go.sia.tech/core/consensus"
	rhp4 "go.sia.tech/core/rhp/v4"
	"go.sia.tech/core/types"
	"verif/harness/vlib"
)

// a limit descriptor, as printed by TextLimits (Text!D)
type limDesc struct {
	Fam    string `json:"fam"`
	A      int    `json:"a"`
	B      int    `json:"b"`
	S      string `json:"s"`
	N      []int  `json:"n"`
	T      []int  `json:"t"`
	Within bool   `json:"within"`
}

var noLimit = limDesc{Fam: "none", N: []int{}, T: []int{}, Within: true}

func (d limDesc) id() string {
	return fmt.Sprintf("%s/%d/%d/%s/%v/%x", d.Fam, d.A, d.B, d.S, d.N, uncodes(d.T))
}

func parseLimits(c *vlib.Ctx, res *vlib.TLCResult) []limDesc {
	var out []limDesc
	for _, ln := range res.Lines {
		if !strings.HasPrefix(ln, "LIMIT ") {
			continue
		}
		var d limDesc
		if err := json.Unmarshal([]byte(vlib.UnquoteTLA(ln[6:])), &d); err != nil || d.N == nil || d.T == nil {
			c.Infra("bad limit line %q: %v", ln, err)
			continue
		}
		out = append(out, d)
	}
	if int64(len(out)) != res.Distinct {
		c.Infra("TLC generated %d limit cases but %d were parsed", res.Distinct, len(out))
	}
	return out
}

// ---------------------------------------------------------------------------
// the binary codec

// binaryRoundTrip sends v through EncodeTo / DecodeFrom of the real code:
// "ok" same value and same bytes again, "changed", "refused", or "n/a" (no binary form).
func binaryRoundTrip(v reflect.Value) string {
	if !v.CanInterface() {
		return "n/a"
	}
	enc, ok := v.Interface().(types.EncoderTo)
	if !ok {
		return "n/a"
	}
	p := reflect.New(v.Type())
	dec, ok := p.Interface().(types.DecoderFrom)
	if !ok {
		return "n/a"
	}
	encode := func(x types.EncoderTo) (b []byte, failed bool) {
		var buf bytes.Buffer
		failed, _ = vlib.Recover(func() {
			e := types.NewEncoder(&buf)
			x.EncodeTo(e)
			e.Flush()
		})
		return buf.Bytes(), failed
	}
	b1, failed := encode(enc)
	if failed {
		return "refused"
	}
	d := types.NewBufDecoder(b1)
	if pan, _ := vlib.Recover(func() { dec.DecodeFrom(d) }); pan || d.Err() != nil {
		return "refused"
	}
	b2, failed := encode(p.Elem().Interface().(types.EncoderTo))
	if failed || !bytes.Equal(b1, b2) {
		return "changed"
	}
	if same, _, _ := equalUnder(v, p.Elem()); !same {
		return "changed"
	}
	return "ok"
}

// ---------------------------------------------------------------------------
// the layout domain of Text.tla (InSpecAlphabet): no UTF-8 lead byte 0xC2..0xF4 is
// followed by a continuation byte

func inSpecAlphabet(s types.Specifier) bool {
	for i := 0; i+1 < len(s); i++ {
		if s[i] >= 0xC2 && s[i] <= 0xF4 && s[i+1] >= 0x80 && s[i+1] <= 0xBF {
			return false
		}
	}
	return true
}

func policyInAlphabet(p types.SpendPolicy) bool {
	switch t := p.Type.(type) {
	case types.PolicyTypeThreshold:
		for _, sub := range t.Of {
			if !policyInAlphabet(sub) {
				return false
			}
		}
	case types.PolicyTypeUnlockConditions:
		for _, k := range t.PublicKeys {
			if !inSpecAlphabet(k.Algorithm) {
				return false
			}
		}
	}
	return true
}

func inLayoutDomain(v reflect.Value) bool {
	switch x := v.Interface().(type) {
	case types.Specifier:
		return inSpecAlphabet(x)
	case types.UnlockKey:
		return inSpecAlphabet(x.Algorithm)
	case types.SpendPolicy:
		return policyInAlphabet(x)
	}
	return true
}

// ---------------------------------------------------------------------------
// building the described values

func fill32(b byte) (out [32]byte) {
	for i := range out {
		out[i] = b
	}
	return
}

func leafPolicy(kind string, salt int) types.SpendPolicy {
	switch kind {
	case "above":
		return types.PolicyAbove(math.MaxUint64 - uint64(salt))
	case "after":
		return types.PolicyAfter(time.Unix(maxUnix-int64(salt), 0).UTC())
	case "pk":
		return types.PolicyPublicKey(types.PublicKey(fill32(byte(0xF0 + salt%16))))
	case "h":
		return types.PolicyHash(types.Hash256(fill32(byte(0xA0 + salt%16))))
	case "opaque":
		return types.SpendPolicy{Type: types.PolicyTypeOpaque(fill32(byte(0x50 + salt%16)))}
	case "uc":
		return types.SpendPolicy{Type: types.PolicyTypeUnlockConditions{
			Timelock:           math.MaxUint64,
			PublicKeys:         []types.UnlockKey{{Algorithm: types.SpecifierEd25519, Key: bytes.Repeat([]byte{byte(salt)}, 32)}},
			SignaturesRequired: 1,
		}}
	case "thresh":
		return types.PolicyThreshold(0, nil)
	}
	panic("unknown leaf kind " + kind)
}

func polDepth(p types.SpendPolicy) int {
	t, ok := p.Type.(types.PolicyTypeThreshold)
	if !ok {
		return 0
	}
	d := 0
	for _, sub := range t.Of {
		if x := 1 + polDepth(sub); x > d {
			d = x
		}
	}
	return d
}

func bigFromLimbs(l []int) *big.Int { return vlib.FromLimbs(l) }

func currencyFromBig(x *big.Int) (types.Currency, bool) {
	if x.Sign() < 0 || x.BitLen() > 128 {
		return types.ZeroCurrency, false
	}
	return types.NewCurrency(new(big.Int).And(x, new(big.Int).SetUint64(math.MaxUint64)).Uint64(), new(big.Int).Rsh(x, 64).Uint64()), true
}

var algQuoted = types.NewSpecifier("a:b\"(,)[]")

func specPattern(x byte, pat int) (s types.Specifier) {
	switch pat {
	case 1:
		s[0] = x
	case 2:
		s[0], s[1] = 'a', x
	case 3:
		s[0], s[1] = x, 'a'
	case 4:
		for i := range s {
			s[i] = x
		}
	case 5:
		s[0], s[1] = x, 0x80
	}
	return
}

// valuesOf builds the text-kind values a descriptor describes (kind name, value).
func valuesOf(d limDesc) (kinds []string, vals []reflect.Value, err error) {
	add := func(kind string, v any) {
		kinds = append(kinds, kind)
		vals = append(vals, reflect.ValueOf(v))
	}
	switch d.Fam {
	case "nest":
		p := leafPolicy(d.S, 0)
		for lvl := 0; lvl < d.A; lvl++ {
			of := make([]types.SpendPolicy, d.B)
			for j := range of {
				of[j] = leafPolicy([]string{"pk", "above", "h", "opaque"}[(lvl+j)%4], lvl+j)
			}
			of[lvl%d.B] = p // the nested child moves through the positions
			p = types.PolicyThreshold(uint8(1+lvl%d.B), of)
		}
		add("SpendPolicy", p)
	case "wide":
		var of []types.SpendPolicy
		if d.A > 0 {
			of = make([]types.SpendPolicy, d.A)
		}
		for j := range of {
			of[j] = leafPolicy(d.S, j)
		}
		// uint8(d.B): the required count is one byte in every form
		add("SpendPolicy", types.PolicyThreshold(uint8(d.B), of))
	case "keys":
		uc := types.UnlockConditions{Timelock: math.MaxUint64, SignaturesRequired: bigFromLimbs(d.N).Uint64()}
		if d.A > 0 {
			uc.PublicKeys = make([]types.UnlockKey, d.A)
		}
		for j := range uc.PublicKeys {
			uc.PublicKeys[j] = types.UnlockKey{Algorithm: types.SpecifierEd25519, Key: bytes.Repeat([]byte{byte(j), byte(j >> 8)}, d.B/2)}
		}
		add("SpendPolicy", types.SpendPolicy{Type: types.PolicyTypeUnlockConditions(uc)})
	case "keylen":
		alg := types.SpecifierEd25519
		if d.S == "quoted" {
			alg = algQuoted
		}
		key := make([]byte, d.A)
		for i := range key {
			key[i] = byte(255 - i%251)
		}
		add("UnlockKey", types.UnlockKey{Algorithm: alg, Key: key})
	case "specbyte":
		s := specPattern(byte(d.A), d.B)
		key := []byte{0xAB, 0xCD, 0xEF}
		add("Specifier", s)
		add("UnlockKey", types.UnlockKey{Algorithm: s, Key: key})
		add("SpendPolicy", types.SpendPolicy{Type: types.PolicyTypeUnlockConditions{PublicKeys: []types.UnlockKey{{Algorithm: s, Key: key}}, SignaturesRequired: 1}})
	default:
		return nil, nil, fmt.Errorf("no text-kind value for family %s", d.Fam)
	}
	return
}

// carriersOf places a limit policy / currency inside bigger JSON types.
func carriersOf(v reflect.Value) (names []string, vals []reflect.Value) {
	add := func(name string, x any) {
		names = append(names, name)
		vals = append(vals, reflect.ValueOf(x))
	}
	switch x := v.Interface().(type) {
	case types.SpendPolicy:
		sp := types.SatisfiedPolicy{Policy: x, Signatures: []types.Signature{{1}}, Preimages: [][32]byte{{2}}}
		add("SpendPolicy", x)
		add("SatisfiedPolicy", sp)
		add("V2SiacoinInput", types.V2SiacoinInput{SatisfiedPolicy: sp})
		add("V2SiafundInput", types.V2SiafundInput{SatisfiedPolicy: sp})
		add("V2Transaction", types.V2Transaction{SiacoinInputs: []types.V2SiacoinInput{{SatisfiedPolicy: sp}}, SiafundInputs: []types.V2SiafundInput{{SatisfiedPolicy: sp}}})
	case types.Currency:
		add("Currency", x)
		add("SiacoinOutput", types.SiacoinOutput{Value: x})
		add("V2FileContract", types.V2FileContract{RenterOutput: types.SiacoinOutput{Value: x}, HostOutput: types.SiacoinOutput{Value: x}, MissedHostValue: x, TotalCollateral: x})
		add("Transaction", types.Transaction{MinerFees: []types.Currency{x}, SiacoinOutputs: []types.SiacoinOutput{{Value: x}}})
		add("V2Transaction", types.V2Transaction{MinerFee: x})
		add("rhp4.Usage", rhp4.Usage{RPC: x, Storage: x, Egress: x, Ingress: x, AccountFunding: x, RiskedCollateral: x})
	}
	return
}

// ---------------------------------------------------------------------------
// ev = "cur": one currency in every printed form through every entry point

func curLine(cur types.Currency, lim limDesc) map[string]any {
	type form struct {
		f, text string
	}
	mt, _ := cur.MarshalText()
	js, _ := json.Marshal(cur)
	forms := []form{
		{"String", cur.String()}, {"%s", fmt.Sprintf("%s", cur)}, {"%v", fmt.Sprintf("%v", cur)},
		{"ExactString", cur.ExactString()}, {"%d", fmt.Sprintf("%d", cur)}, {"MarshalText", string(mt)},
		{"JSON", string(js)},
	}
	var out []any
	rec := func(f form, entry string, parse func() (types.Currency, error)) {
		var back types.Currency
		var err error
		pan, _ := vlib.Recover(func() { back, err = parse() })
		ok := !pan && err == nil
		if !ok {
			back = types.ZeroCurrency
		}
		out = append(out, map[string]any{"f": f.f, "e": entry, "text": codes([]byte(f.text)), "ok": ok, "back": vlib.Limbs(back.Big())})
	}
	for _, f := range forms {
		f := f
		if f.f == "JSON" {
			rec(f, "json.Unmarshal", func() (c types.Currency, err error) { err = json.Unmarshal([]byte(f.text), &c); return })
			continue
		}
		rec(f, "ParseCurrency", func() (types.Currency, error) { return types.ParseCurrency(f.text) })
		rec(f, "UnmarshalText", func() (c types.Currency, err error) { err = c.UnmarshalText([]byte(f.text)); return })
	}
	e := map[string]any{"ev": "cur", "val": map[string]any{"n": vlib.Limbs(cur.Big())}, "forms": out}
	limFields(e, lim)
	return e
}

// ---------------------------------------------------------------------------
// ev = "time": one Unix second through the forms of an after() policy and as the
// RFC 3339 string of JSON documents

func absUnix(u int64) (neg bool, n []int) {
	b := big.NewInt(u)
	return u < 0, vlib.Limbs(new(big.Int).Abs(b))
}

type timeCarrier struct {
	name string
	key  string // JSON member holding the timestamp (or an array of them)
	make func(t time.Time) any
	get  func(p any) time.Time
}

var timeCarriers = []timeCarrier{
	{"BlockHeader", "timestamp", func(t time.Time) any { return &types.BlockHeader{Nonce: 7, Timestamp: t} },
		func(p any) time.Time { return p.(*types.BlockHeader).Timestamp }},
	{"Block", "timestamp", func(t time.Time) any { return &types.Block{Nonce: 7, Timestamp: t} },
		func(p any) time.Time { return p.(*types.Block).Timestamp }},
	{"State", "prevTimestamps", func(t time.Time) any {
		s := &consensus.State{}
		for i := range s.PrevTimestamps {
			s.PrevTimestamps[i] = t
		}
		return s
	}, func(p any) time.Time { return p.(*consensus.State).PrevTimestamps[10] }},
	{"rhp4.HostPrices", "validUntil", func(t time.Time) any { return &rhp4.HostPrices{TipHeight: 1, ValidUntil: t} },
		func(p any) time.Time { return p.(*rhp4.HostPrices).ValidUntil }},
	{"rhp4.AccountToken", "validUntil", func(t time.Time) any { return &rhp4.AccountToken{ValidUntil: t} },
		func(p any) time.Time { return p.(*rhp4.AccountToken).ValidUntil }},
}

func timeLine(u int64, lim limDesc) map[string]any {
	t := time.Unix(u, 0).UTC()
	neg, n := absUnix(u)
	var forms []any
	rec := func(f, carrier string, printed bool, text string, ok bool, back int64) {
		if !printed || !ok {
			back = 0
		}
		bneg, bn := absUnix(back)
		forms = append(forms, map[string]any{"f": f, "c": carrier, "printed": printed, "text": codes([]byte(text)), "ok": printed && ok, "bneg": bneg, "bn": bn})
	}
	backOf := func(p types.SpendPolicy) (int64, bool) {
		a, ok := p.Type.(types.PolicyTypeAfter)
		if !ok {
			return 0, false
		}
		return time.Time(a).Unix(), true
	}
	pol := types.PolicyAfter(t)
	// string form
	{
		var txt string
		var q types.SpendPolicy
		var err error
		pan1, _ := vlib.Recover(func() { txt = pol.String() })
		pan2, _ := vlib.Recover(func() { q, err = types.ParseSpendPolicy(txt) })
		b, isAfter := backOf(q)
		rec("after-string", "SpendPolicy", !pan1, txt, !pan2 && err == nil && isAfter, b)
	}
	// JSON object form
	{
		var js []byte
		var merr, uerr error
		var q types.SpendPolicy
		pan1, _ := vlib.Recover(func() { js, merr = json.Marshal(pol) })
		pan2, _ := vlib.Recover(func() { uerr = json.Unmarshal(js, &q) })
		b, isAfter := backOf(q)
		rec("after-json", "SpendPolicy", !pan1 && merr == nil, string(js), !pan2 && uerr == nil && isAfter, b)
	}
	// binary form
	{
		var buf bytes.Buffer
		var q types.SpendPolicy
		pan1, _ := vlib.Recover(func() {
			e := types.NewEncoder(&buf)
			pol.EncodeTo(e)
			e.Flush()
		})
		d := types.NewBufDecoder(buf.Bytes())
		pan2, _ := vlib.Recover(func() { q.DecodeFrom(d) })
		b, isAfter := backOf(q)
		rec("after-binary", "SpendPolicy", !pan1, "", !pan2 && d.Err() == nil && isAfter, b)
	}
	// RFC 3339 inside JSON documents
	for _, tc := range timeCarriers {
		v := tc.make(t)
		var js []byte
		var merr error
		pan1, _ := vlib.Recover(func() { js, merr = json.Marshal(v) })
		printed := !pan1 && merr == nil
		text, ok, back := "", false, int64(0)
		if printed {
			var doc map[string]any
			if json.Unmarshal(js, &doc) == nil {
				switch x := doc[tc.key].(type) {
				case string:
					text = x
				case []any:
					if len(x) > 0 {
						text, _ = x[len(x)-1].(string)
					}
				}
			}
			p := reflect.New(reflect.TypeOf(v).Elem()).Interface()
			var uerr error
			pan2, _ := vlib.Recover(func() { uerr = json.Unmarshal(js, p) })
			if !pan2 && uerr == nil {
				ok, back = true, tc.get(p).Unix()
			}
		}
		rec("rfc3339", tc.name, printed, text, ok, back)
	}
	e := map[string]any{"ev": "time", "val": map[string]any{"neg": neg, "n": n}, "forms": forms}
	limFields(e, lim)
	return e
}

func unixFromDesc(d limDesc) (int64, bool) {
	x := bigFromLimbs(d.N)
	if d.A == 1 {
		x.Neg(x)
	}
	if !x.IsInt64() {
		return 0, false
	}
	return x.Int64(), true
}

// ---------------------------------------------------------------------------
// "beyond" texts: one step outside the accepted language; every entry point of the
// kind must refuse (any accepted value is necessarily a different one)

func runBeyond(d limDesc) (entries int, accepted []string) {
	text := string(uncodes(d.T))
	try := func(entry string, f func() error) {
		entries++
		var err error
		if pan, pv := vlib.Recover(func() { err = f() }); pan {
			accepted = append(accepted, fmt.Sprintf("%s panics (%v)", entry, pv))
		} else if err == nil {
			accepted = append(accepted, entry+" accepts")
		}
	}
	k := kindByName(d.S)
	if k == nil {
		return 0, []string{"unknown kind " + d.S}
	}
	try("parse", func() error { _, err, pan := parseText(k, text); return orPanic(err, pan) })
	switch d.S {
	case "Currency":
		try("ParseCurrency", func() error { _, err := types.ParseCurrency(text); return err })
		try("json.Unmarshal", func() error { _, err, pan := parseJSON(k.typ, []byte(`"`+text+`"`)); return orPanic(err, pan) })
	case "Work":
		try("json.Unmarshal", func() error { _, err, pan := parseJSON(k.typ, []byte(`"`+text+`"`)); return orPanic(err, pan) })
	case "ChainIndex":
		try("ParseChainIndex", func() error { _, err := types.ParseChainIndex(text); return err })
	}
	return
}

func orPanic(err error, pan any) error {
	if pan != nil {
		panic(pan)
	}
	return err
}

// ---------------------------------------------------------------------------
// random values close to the limits (TLC computes Admitted from the abstract value)

// deepPolicy: a chain of thresholds of random depth around MaxPolicyDepth with random
// widths; the siblings are random leaves.
func (g *gen) deepPolicy(maxWidth int) types.SpendPolicy {
	depth := 27 + g.r.Intn(8) // 27..34
	p := g.policy(3)          // depth >= 3: a leaf
	for lvl := 0; lvl < depth; lvl++ {
		w := 1 + g.r.Intn(maxWidth)
		of := make([]types.SpendPolicy, w)
		for j := range of {
			of[j] = g.policy(3)
		}
		of[g.r.Intn(w)] = p
		p = types.PolicyThreshold(uint8(g.r.Intn(w+1)), of)
	}
	g.note(fmt.Sprintf("policy-depth-%d", polDepth(p)))
	return p
}

// edgeCurrency: random currencies whose printed forms are as long as they get
func (g *gen) edgeCurrency() types.Currency {
	max := types.MaxCurrency.Big()
	x := new(big.Int)
	switch g.r.Intn(5) {
	case 0: // the top of the range
		x.Sub(max, new(big.Int).SetUint64(uint64(g.r.Intn(1000))))
	case 1: // 39 digits
		lo := new(big.Int).Exp(big.NewInt(10), big.NewInt(38), nil)
		x.Rand(g.r, new(big.Int).Sub(max, lo))
		x.Add(x, lo)
	case 2: // around a power of ten
		e := int64(g.r.Intn(39))
		x.Exp(big.NewInt(10), big.NewInt(e), nil)
		x.Add(x, big.NewInt(int64(g.r.Intn(5)-2)))
		if x.Sign() < 0 {
			x.SetInt64(0)
		}
	case 3: // few significant digits times a power of ten
		e := int64(g.r.Intn(37))
		x.Exp(big.NewInt(10), big.NewInt(e), nil)
		x.Mul(x, big.NewInt(int64(1+g.r.Intn(340))))
	default:
		return g.currency()
	}
	c, ok := currencyFromBig(x)
	if !ok {
		return types.MaxCurrency
	}
	return c
}

func (g *gen) edgeUnix() int64 {
	switch g.r.Intn(6) {
	case 0:
		return minUnix + int64(g.r.Intn(5)) - 2
	case 1:
		return maxUnix + int64(g.r.Intn(5)) - 2
	case 2:
		return math.MinInt64 + int64(g.r.Intn(3))
	case 3:
		return math.MaxInt64 - int64(g.r.Intn(3))
	case 4:
		return g.i64()
	default:
		return minUnix + g.r.Int63n(maxUnix-minUnix+1)
	}
}
