package main

// The update-through-JSON experiment: a small real chain of valid v2 blocks with
// payments, siafund transfers, contract formation, revision and every kind of
// resolution, and block reverts. A client tracks every element ever created, twice:
// copy A is refreshed with each ApplyUpdate/RevertUpdate as returned by the code,
// copy B with the same update after json.Marshal/json.Unmarshal. Every (update,
// element) pair becomes one "upd" trace line carrying both proofs and whether each
// verifies against State.Elements. Each pair is judged on its own: after a line is
// logged, copy B restarts from the correctly refreshed proof.

import (
	"encoding/json"
	"fmt"
	"math/rand"
	"reflect"
	"sort"
	"time"

	"go.sia.tech/core/consensus"
	"go.sia.tech/core/types"
	"verif/harness/vlib"
)

type trk struct {
	kind  string // sc sf fc ci
	id    [32]byte
	elem  any                // types.SiacoinElement | SiafundElement | V2FileContractElement | ChainIndexElement (its StateElement is not used)
	spent bool               // spent / resolved
	a, b  types.StateElement // the two copies of the proof
}

func (t *trk) leaf(se *types.StateElement) consensus.VerifLeaf {
	switch e := t.elem.(type) {
	case types.SiacoinElement:
		e.StateElement = se.Copy()
		return consensus.VerifSiacoinLeaf(&e, t.spent)
	case types.SiafundElement:
		e.StateElement = se.Copy()
		return consensus.VerifSiafundLeaf(&e, t.spent)
	case types.V2FileContractElement:
		e.StateElement = se.Copy()
		return consensus.VerifV2FileContractLeaf(&e, nil, t.spent)
	case types.ChainIndexElement:
		e.StateElement = se.Copy()
		return consensus.VerifChainIndexLeaf(&e)
	}
	panic("unknown tracked element")
}

type updater interface {
	UpdateElementProof(*types.StateElement)
}

// one recorded refresh whose two copies disagree or fail to verify, kept so that the
// rejected line can be re-executed on the real code
type updRecord struct {
	op      string
	height  uint64
	chain   int
	orig    updater
	viaJSON updater
	viaUsed updater // the same JSON decoded into a receiver that held the previous update of its kind
	origV   reflect.Value
	jsonV   reflect.Value
	pre     types.StateElement // copy A before the refresh
	preB    types.StateElement // copy B before the refresh
	snap    trk                // element and status at the time of the check
	acc     *consensus.ElementAccumulator
	line    map[string]any
}

type chainRun struct {
	c      *vlib.Ctx
	r      *rand.Rand
	idx    int
	hid    map[types.Hash256]int
	lines  []map[string]any
	recs   map[int]*updRecord // by index into lines
	jsonrt []jsonCase
	used   []map[string]any // "used" lines: update k+1 decoded into the variable that held update k
	auUsed consensus.ApplyUpdate
	ruUsed consensus.RevertUpdate
	nAU    int
	nRU    int
	stats  map[string]int
}

type jsonCase struct {
	typ  string
	line map[string]any
	js   []byte
}

func (cr *chainRun) intern(p []types.Hash256) []int {
	out := make([]int, len(p))
	for i, h := range p {
		id, ok := cr.hid[h]
		if !ok {
			id = len(cr.hid) + 1
			cr.hid[h] = id
		}
		out[i] = id
	}
	return out
}

func mineBlock(cs consensus.State, b *types.Block) {
	for b.ID().CmpWork(cs.PoWTarget()) < 0 {
		b.Nonce += cs.NonceFactor()
	}
}

// refresh applies u to a copy of se, reporting a panic instead of crashing
func refresh(u updater, se types.StateElement) (types.StateElement, bool) {
	out := se.Copy()
	pan, _ := vlib.Recover(func() { u.UpdateElementProof(&out) })
	return out, pan
}

func viaJSON[T any](c *vlib.Ctx, u T) (T, []byte, error) {
	var back T
	js, err := json.Marshal(u)
	if err != nil {
		return back, nil, err
	}
	err = json.Unmarshal(js, &back)
	return back, js, err
}

type accessors struct {
	SCE []consensus.SiacoinElementDiff
	SFE []consensus.SiafundElementDiff
	FCE []consensus.FileContractElementDiff
	V2  []consensus.V2FileContractElementDiff
	CIE types.ChainIndexElement
}

// run builds one chain of nBlocks applied blocks (reverted ones not counted).
func (cr *chainRun) run(nBlocks int) {
	c, r := cr.c, cr.r
	n := &consensus.Network{Name: "c20", InitialCoinbase: types.Siacoins(3), MinimumCoinbase: types.Siacoins(3),
		InitialTarget: types.BlockID{0xFF}, BlockInterval: 10 * time.Minute, MaturityDelay: 2}
	n.HardforkOak.Height, n.HardforkOak.FixHeight = 1000, 1000
	n.HardforkASIC.Height, n.HardforkASIC.NonceFactor = 2000, 1
	n.HardforkFoundation.Height = 3
	n.HardforkV2.AllowHeight, n.HardforkV2.RequireHeight, n.HardforkV2.FinalCutHeight = 0, 5000, 6000
	seed := make([]byte, 32)
	seed[0] = byte(cr.idx)
	sk := types.NewPrivateKeyFromSeed(seed)
	pol := types.PolicyPublicKey(sk.PublicKey())
	addr := pol.Address()
	n.HardforkFoundation.PrimaryAddress, n.HardforkFoundation.FailsafeAddress = addr, addr

	var outs []types.SiacoinOutput
	for i := 0; i < 7+r.Intn(6); i++ {
		outs = append(outs, types.SiacoinOutput{Value: types.Siacoins(uint32(50 + r.Intn(500))), Address: addr})
	}
	genesis := types.Block{Timestamp: time.Unix(1e9, 0), Transactions: []types.Transaction{{
		SiacoinOutputs: outs,
		SiafundOutputs: []types.SiafundOutput{{Value: 6000, Address: addr}, {Value: 3000, Address: addr}, {Value: 1000, Address: addr}}}}}
	cs, au0 := consensus.ApplyBlock(n.GenesisState(), genesis, consensus.V1BlockSupplement{Transactions: make([]consensus.V1TransactionSupplement, 1)}, time.Time{})

	tracked := map[[32]byte]*trk{}
	order := [][32]byte{} // deterministic iteration
	add := func(t *trk) {
		if _, ok := tracked[t.id]; !ok {
			order = append(order, t.id)
		}
		tracked[t.id] = t
	}
	remove := func(id [32]byte) {
		delete(tracked, id)
		for i := range order {
			if order[i] == id {
				order = append(order[:i:i], order[i+1:]...)
				break
			}
		}
	}

	ciAt := map[uint64][32]byte{}
	logLine := func(rec *updRecord, t *trk, a, b, u types.StateElement, panA, panB, panU bool, acc *consensus.ElementAccumulator) {
		va := !panA && acc.VerifContainsLeaf(t.leaf(&a))
		vb := !panB && acc.VerifContainsLeaf(t.leaf(&b))
		vu := !panU && acc.VerifContainsLeaf(t.leaf(&u))
		pa, pb, pu := cr.intern(a.MerkleProof), cr.intern(b.MerkleProof), cr.intern(u.MerkleProof)
		rec.line = map[string]any{"ev": "upd", "op": rec.op, "h": int(rec.height), "chain": cr.idx, "leaf": fmt.Sprint(a.LeafIndex),
			"kind": t.kind, "pa": pa, "pb": pb, "pu": pu, "va": va, "vb": vb, "vu": vu, "panicA": panA, "panicB": panB, "panicU": panU}
		if !va || !vb || !vu || panA || panB || panU || fmt.Sprint(pa) != fmt.Sprint(pb) || fmt.Sprint(pa) != fmt.Sprint(pu) {
			rec.acc, rec.snap = acc, *t
			cr.recs[len(cr.lines)] = rec
		}
		rec.line["changed"] = fmt.Sprint(cr.intern(rec.pre.MerkleProof)) != fmt.Sprint(pa)
		if rec.line["changed"] == true {
			cr.stats["proof-changed"]++
		}
		cr.lines = append(cr.lines, rec.line)
	}

	// integrate folds the diffs of an apply update into the client's view; B-copies of
	// new elements are taken from the update that went through JSON.
	integrate := func(au, auJ accessors, height uint64, acc *consensus.ElementAccumulator, auV, auJV reflect.Value, o, j updater) {
		newElem := func(t *trk, a, b types.StateElement) {
			t.a, t.b = a.Copy(), a.Copy()
			add(t)
			rec := &updRecord{op: "new", height: height, chain: cr.idx, orig: o, viaJSON: j, origV: auV, jsonV: auJV, pre: a.Copy(), preB: b.Copy()}
			logLine(rec, t, a, b, b, false, false, false, acc) // a new element's proof comes with the update itself
		}
		for i, d := range au.SCE {
			id := [32]byte(d.SiacoinElement.ID)
			if d.Created && d.Spent {
				cr.stats["ephemeral"]++
				continue // never enters the accumulator
			}
			if d.Created {
				var bse types.StateElement
				if i < len(auJ.SCE) {
					bse = auJ.SCE[i].SiacoinElement.StateElement
				}
				newElem(&trk{kind: "sc", id: id, elem: d.SiacoinElement.Copy()}, d.SiacoinElement.StateElement, bse)
			} else if t := tracked[id]; t != nil {
				t.spent = true
			}
		}
		for i, d := range au.SFE {
			id := [32]byte(d.SiafundElement.ID)
			if d.Created && d.Spent {
				continue
			}
			if d.Created {
				var bse types.StateElement
				if i < len(auJ.SFE) {
					bse = auJ.SFE[i].SiafundElement.StateElement
				}
				newElem(&trk{kind: "sf", id: id, elem: d.SiafundElement.Copy()}, d.SiafundElement.StateElement, bse)
			} else if t := tracked[id]; t != nil {
				t.spent = true
			}
		}
		for i, d := range au.V2 {
			id := [32]byte(d.V2FileContractElement.ID)
			if d.Created {
				var bse types.StateElement
				if i < len(auJ.V2) {
					bse = auJ.V2[i].V2FileContractElement.StateElement
				}
				fce := d.V2FileContractElement.Copy()
				if d.Revision != nil {
					fce.V2FileContract = *d.Revision
				}
				newElem(&trk{kind: "fc", id: id, elem: fce}, d.V2FileContractElement.StateElement, bse)
				continue
			}
			if t := tracked[id]; t != nil {
				if d.Revision != nil {
					fce := t.elem.(types.V2FileContractElement)
					fce.V2FileContract = *d.Revision
					t.elem = fce
				}
				if d.Resolution != nil {
					t.spent = true
				}
			}
		}
		cie := au.CIE
		newElem(&trk{kind: "ci", id: [32]byte(cie.ID), elem: cie.Copy()}, cie.StateElement, auJ.CIE.StateElement)
		ciAt[cie.ChainIndex.Height] = [32]byte(cie.ID)
	}

	accOf := func(u interface {
		SiacoinElementDiffs() []consensus.SiacoinElementDiff
		SiafundElementDiffs() []consensus.SiafundElementDiff
		FileContractElementDiffs() []consensus.FileContractElementDiff
		V2FileContractElementDiffs() []consensus.V2FileContractElementDiff
		ChainIndexElement() types.ChainIndexElement
	}) accessors {
		return accessors{u.SiacoinElementDiffs(), u.SiafundElementDiffs(), u.FileContractElementDiffs(), u.V2FileContractElementDiffs(), u.ChainIndexElement()}
	}

	// jsonLine records the round trip of the update object itself (public view + bytes)
	jsonLine := func(typ string, orig, back accessors, js []byte, err error, remarshal func() ([]byte, error)) {
		line := map[string]any{"ev": "jsonrt", "type": typ, "mok": js != nil, "uok": err == nil, "eq": false, "same": false, "rules": []string{}, "n": len(js), "diff": "", "fam": "none", "bin": "n/a"}
		if js != nil && err == nil {
			ok, rules, diff := equalUnder(reflect.ValueOf(orig), reflect.ValueOf(back))
			js2, err2 := remarshal()
			line["eq"], line["rules"], line["diff"] = ok, rules, diff
			line["same"] = err2 == nil && string(js) == string(js2)
		}
		cr.jsonrt = append(cr.jsonrt, jsonCase{typ, line, js})
	}

	applyUpdate := func(au consensus.ApplyUpdate, height uint64, acc *consensus.ElementAccumulator) {
		auJ, js, err := viaJSON(c, au)
		jsonLine("ApplyUpdate", accOf(au), accOf(auJ), js, err, func() ([]byte, error) { return json.Marshal(auJ) })
		if err != nil {
			return
		}
		auV, auJV := reflect.ValueOf(au), reflect.ValueOf(auJ)
		// the same document decoded into the variable that held the previous apply update
		errU := json.Unmarshal(js, &cr.auUsed)
		auU := cr.auUsed // the slices of an update are replaced, never written through: a struct copy is a snapshot
		cr.usedLine("ApplyUpdate", js, reflect.ValueOf(auJ), reflect.ValueOf(auU), errU, cr.nAU)
		cr.nAU++
		type res struct {
			rec              *updRecord
			t                *trk
			a, b, u          types.StateElement
			panA, panB, panU bool
		}
		var results []res
		for _, id := range order {
			t := tracked[id]
			rec := &updRecord{op: "apply", height: height, chain: cr.idx, orig: au, viaJSON: auJ, viaUsed: auU, origV: auV, jsonV: auJV, pre: t.a.Copy(), preB: t.b.Copy()}
			a, panA := refresh(au, t.a)
			b, panB := refresh(auJ, t.b)
			u, panU := refresh(auU, t.a)
			results = append(results, res{rec, t, a, b, u, panA, panB, panU})
		}
		integrate(accOf(au), accOf(auJ), height, acc, auV, auJV, au, auJ)
		for _, x := range results {
			// each (update, element) pair is judged on its own: copy B restarts from the correct proof
			x.t.a, x.t.b = x.a, x.a.Copy()
			logLine(x.rec, x.t, x.a, x.b, x.u, x.panA, x.panB, x.panU, acc)
		}
	}

	revertUpdate := func(ru consensus.RevertUpdate, height uint64, prev *consensus.ElementAccumulator) {
		ruJ, js, err := viaJSON(c, ru)
		jsonLine("RevertUpdate", accOf(ru), accOf(ruJ), js, err, func() ([]byte, error) { return json.Marshal(ruJ) })
		if err != nil {
			return
		}
		ruV, ruJV := reflect.ValueOf(ru), reflect.ValueOf(ruJ)
		// the same document decoded into the variable that held the previous revert update
		errU := json.Unmarshal(js, &cr.ruUsed)
		ruU := cr.ruUsed
		cr.usedLine("RevertUpdate", js, reflect.ValueOf(ruJ), reflect.ValueOf(ruU), errU, cr.nRU)
		cr.nRU++
		// status first: what the block created disappears, what it spent is unspent again
		for _, d := range ru.SiacoinElementDiffs() {
			id := [32]byte(d.SiacoinElement.ID)
			if d.Created {
				remove(id)
			} else if t := tracked[id]; t != nil && d.Spent {
				t.spent = false
			}
		}
		for _, d := range ru.SiafundElementDiffs() {
			id := [32]byte(d.SiafundElement.ID)
			if d.Created {
				remove(id)
			} else if t := tracked[id]; t != nil && d.Spent {
				t.spent = false
			}
		}
		for _, d := range ru.V2FileContractElementDiffs() {
			id := [32]byte(d.V2FileContractElement.ID)
			if d.Created {
				remove(id)
			} else if t := tracked[id]; t != nil {
				fce := t.elem.(types.V2FileContractElement)
				fce.V2FileContract = d.V2FileContractElement.V2FileContract
				t.elem = fce
				if d.Resolution != nil {
					t.spent = false
				}
			}
		}
		remove([32]byte(ru.ChainIndexElement().ID))
		delete(ciAt, ru.ChainIndexElement().ChainIndex.Height)
		for _, id := range append([][32]byte(nil), order...) {
			t := tracked[id]
			if t.a.LeafIndex >= prev.NumLeaves {
				c.Infra("chain %d height %d: element with leaf %d survives the revert to %d leaves", cr.idx, height, t.a.LeafIndex, prev.NumLeaves)
				remove(id)
				continue
			}
			rec := &updRecord{op: "revert", height: height, chain: cr.idx, orig: ru, viaJSON: ruJ, viaUsed: ruU, origV: ruV, jsonV: ruJV, pre: t.a.Copy(), preB: t.b.Copy()}
			a, panA := refresh(ru, t.a)
			b, panB := refresh(ruJ, t.b)
			u, panU := refresh(ruU, rec.pre)
			t.a, t.b = a, a.Copy()
			logLine(rec, t, a, b, u, panA, panB, panU, prev)
		}
	}

	applyUpdate(au0, 0, &cs.Elements)

	signC := func(fc *types.V2FileContract) {
		h := cs.ContractSigHash(*fc)
		fc.RenterSignature, fc.HostSignature = sk.SignHash(h), sk.SignHash(h)
	}
	applied := 0
	type histEntry struct {
		prev consensus.State
		b    types.Block
	}
	var hist []histEntry
	wantOps := []string{"pay", "sf", "form", "revise", "expire", "proof", "renew", "attest", "revert", "multi-update", "reorg-depth-2+"}
	covered := func() bool {
		for _, k := range wantOps {
			if cr.stats[k] == 0 {
				return false
			}
		}
		return true
	}
	for iter := 0; (applied < nBlocks || !covered()) && iter < 4*nBlocks+40; iter++ {
		child := cs.Index.Height + 1
		var txns []types.V2Transaction
		used := map[[32]byte]bool{}
		cur := func(t *trk) types.StateElement { return t.a.Copy() }
		pickSC := func(min types.Currency) (types.SiacoinElement, bool) {
			for _, id := range order {
				t := tracked[id]
				if e, ok := t.elem.(types.SiacoinElement); ok && !t.spent && !used[id] && e.MaturityHeight <= child && e.SiacoinOutput.Value.Cmp(min) >= 0 {
					used[id] = true
					e.StateElement = cur(t)
					return e, true
				}
			}
			return types.SiacoinElement{}, false
		}
		pickFC := func(ok func(fc types.V2FileContract) bool) (types.V2FileContractElement, bool) {
			for _, id := range order {
				t := tracked[id]
				if e, isFC := t.elem.(types.V2FileContractElement); isFC && !t.spent && !used[id] && ok(e.V2FileContract) {
					used[id] = true
					e.StateElement = cur(t)
					return e, true
				}
			}
			return types.V2FileContractElement{}, false
		}
		updatesExisting := 0
		for k := 1 + r.Intn(4); k > 0; k-- {
			var txn types.V2Transaction
			addIn := func(e types.SiacoinElement) {
				txn.SiacoinInputs = append(txn.SiacoinInputs, types.V2SiacoinInput{Parent: e, SatisfiedPolicy: types.SatisfiedPolicy{Policy: pol}})
			}
			op := r.Intn(9)
			what := ""
			switch op {
			case 0, 1: // pay with fee
				e, ok := pickSC(types.NewCurrency64(1000))
				if !ok {
					continue
				}
				fee := types.NewCurrency64(uint64(r.Intn(500)))
				rest := e.SiacoinOutput.Value.Sub(fee)
				a := rest.Div64(uint64(2 + r.Intn(5)))
				addIn(e)
				txn.MinerFee = fee
				if !a.IsZero() {
					txn.SiacoinOutputs = append(txn.SiacoinOutputs, types.SiacoinOutput{Value: a, Address: addr})
				}
				txn.SiacoinOutputs = append(txn.SiacoinOutputs, types.SiacoinOutput{Value: rest.Sub(a), Address: addr})
				what = "pay"
			case 2: // siafund transfer
				var t *trk
				for _, id := range order {
					if x := tracked[id]; x.kind == "sf" && !x.spent && !used[id] {
						t = x
						break
					}
				}
				if t == nil {
					continue
				}
				used[t.id] = true
				e := t.elem.(types.SiafundElement)
				e.StateElement = cur(t)
				txn.SiafundInputs = []types.V2SiafundInput{{Parent: e, ClaimAddress: addr, SatisfiedPolicy: types.SatisfiedPolicy{Policy: pol}}}
				a := uint64(1 + r.Intn(int(e.SiafundOutput.Value)))
				txn.SiafundOutputs = append(txn.SiafundOutputs, types.SiafundOutput{Value: a, Address: addr})
				if a < e.SiafundOutput.Value {
					txn.SiafundOutputs = append(txn.SiafundOutputs, types.SiafundOutput{Value: e.SiafundOutput.Value - a, Address: addr})
				}
				what = "sf"
			case 3, 4: // form a contract
				rv, hv := types.NewCurrency64(uint64(1+r.Intn(1e6))), types.NewCurrency64(uint64(r.Intn(1e6)))
				fc := types.V2FileContract{ProofHeight: child + uint64(r.Intn(4)), RenterOutput: types.SiacoinOutput{Value: rv, Address: addr},
					HostOutput: types.SiacoinOutput{Value: hv, Address: addr}, MissedHostValue: hv.Div64(uint64(1 + r.Intn(3))),
					RenterPublicKey: sk.PublicKey(), HostPublicKey: sk.PublicKey()}
				fc.ExpirationHeight = fc.ProofHeight + 1 + uint64(r.Intn(3))
				fc.TotalCollateral = fc.MissedHostValue
				cost := rv.Add(hv).Add(cs.V2FileContractTax(fc))
				e, ok := pickSC(cost)
				if !ok {
					continue
				}
				signC(&fc)
				addIn(e)
				txn.FileContracts = []types.V2FileContract{fc}
				if ch := e.SiacoinOutput.Value.Sub(cost); !ch.IsZero() {
					txn.SiacoinOutputs = []types.SiacoinOutput{{Value: ch, Address: addr}}
				}
				what = "form"
			case 5: // revise
				e, ok := pickFC(func(fc types.V2FileContract) bool { return fc.ProofHeight >= child && !fc.RenterOutput.Value.IsZero() })
				if !ok {
					continue
				}
				rev := e.V2FileContract
				d := rev.RenterOutput.Value.Div64(uint64(2 + r.Intn(3)))
				rev.RenterOutput.Value = rev.RenterOutput.Value.Sub(d)
				rev.HostOutput.Value = rev.HostOutput.Value.Add(d)
				rev.RevisionNumber++
				rev.MissedHostValue = rev.MissedHostValue.Div64(uint64(1 + r.Intn(2)))
				signC(&rev)
				txn.FileContractRevisions = []types.V2FileContractRevision{{Parent: e, Revision: rev}}
				what = "revise"
			case 6: // attestation
				a := types.Attestation{PublicKey: sk.PublicKey(), Key: fmt.Sprintf("k%d", r.Intn(1000)), Value: []byte{byte(r.Intn(256))}}
				a.Signature = sk.SignHash(cs.AttestationSigHash(a))
				txn.Attestations = []types.Attestation{a}
				what = "attest"
			default: // resolve: expiration, storage proof or renewal, whichever a contract allows
				kinds := r.Perm(3)
				var res types.V2FileContractResolutionType
				var e types.V2FileContractElement
				found := false
				for _, kind := range kinds {
					switch kind {
					case 0:
						e, found = pickFC(func(fc types.V2FileContract) bool { return child > fc.ExpirationHeight })
						if found {
							res, what = &types.V2FileContractExpiration{}, "expire"
						}
					case 1:
						e, found = pickFC(func(fc types.V2FileContract) bool {
							_, ok := ciAt[fc.ProofHeight]
							return child >= fc.ProofHeight+1 && ok
						})
						if found {
							ci := tracked[ciAt[e.V2FileContract.ProofHeight]]
							pi := ci.elem.(types.ChainIndexElement)
							pi.StateElement = cur(ci)
							res, what = &types.V2StorageProof{ProofIndex: pi}, "proof"
						}
					case 2:
						e, found = pickFC(func(fc types.V2FileContract) bool { return true })
						if found {
							fc := e.V2FileContract
							roll := fc.RenterOutput.Value.Div64(uint64(1 + r.Intn(4)))
							nc := fc
							nc.RevisionNumber = 0
							nc.ProofHeight, nc.ExpirationHeight = child+2, child+4
							nc.RenterOutput.Value = roll
							nc.HostOutput.Value = types.NewCurrency64(uint64(1 + r.Intn(1000)))
							nc.MissedHostValue, nc.TotalCollateral = types.ZeroCurrency, types.ZeroCurrency
							signC(&nc)
							ren := &types.V2FileContractRenewal{
								FinalRenterOutput: types.SiacoinOutput{Value: fc.RenterOutput.Value.Sub(roll), Address: addr},
								FinalHostOutput:   types.SiacoinOutput{Value: fc.HostOutput.Value, Address: addr},
								RenterRollover:    roll, NewContract: nc}
							need := nc.RenterOutput.Value.Add(nc.HostOutput.Value).Add(cs.V2FileContractTax(nc)).Sub(roll)
							in, ok2 := pickSC(need)
							if !ok2 {
								used[[32]byte(e.ID)] = false
								found = false
								continue
							}
							addIn(in)
							if ch := in.SiacoinOutput.Value.Sub(need); !ch.IsZero() {
								txn.SiacoinOutputs = []types.SiacoinOutput{{Value: ch, Address: addr}}
							}
							h := cs.RenewalSigHash(*ren)
							ren.RenterSignature, ren.HostSignature = sk.SignHash(h), sk.SignHash(h)
							res, what = ren, "renew"
						}
					}
					if found {
						break
					}
				}
				if !found {
					continue
				}
				txn.FileContractResolutions = []types.V2FileContractResolution{{Parent: e, Resolution: res}}
			}
			h := cs.InputSigHash(txn)
			for i := range txn.SiacoinInputs {
				txn.SiacoinInputs[i].SatisfiedPolicy.Signatures = []types.Signature{sk.SignHash(h)}
			}
			for i := range txn.SiafundInputs {
				txn.SiafundInputs[i].SatisfiedPolicy.Signatures = []types.Signature{sk.SignHash(h)}
			}
			txns = append(txns, txn)
			cr.stats[what]++
			updatesExisting += len(txn.SiacoinInputs) + len(txn.SiafundInputs) + len(txn.FileContractRevisions) + len(txn.FileContractResolutions)
		}
		b := types.Block{ParentID: cs.Index.ID, Timestamp: time.Unix(1e9+int64(child)*600, 0),
			MinerPayouts: []types.SiacoinOutput{{Address: addr, Value: cs.BlockReward()}}, V2: &types.V2BlockData{Height: child, Transactions: txns}}
		for _, x := range txns {
			b.MinerPayouts[0].Value = b.MinerPayouts[0].Value.Add(x.MinerFee)
		}
		b.V2.Commitment = cs.Commitment(addr, nil, txns)
		mineBlock(cs, &b)
		if err := consensus.ValidateBlock(cs, b, consensus.V1BlockSupplement{}); err != nil {
			c.Infra("chain %d: generated block %d is invalid: %v", cr.idx, child, err)
			return
		}
		if updatesExisting >= 2 {
			cr.stats["multi-update"]++
		}
		// real blocks are JSON values too
		cr.jsonrt = append(cr.jsonrt, roundTrip("Block", reflect.ValueOf(b)))
		prev := cs
		next, au := consensus.ApplyBlock(cs, b, consensus.V1BlockSupplement{}, time.Time{})
		cr.jsonrt = append(cr.jsonrt, roundTrip("State", reflect.ValueOf(next)))
		applyUpdate(au, child, &next.Elements)
		cs = next
		applied++
		hist = append(hist, histEntry{prev, b})
		if applied > 2 && r.Intn(6) == 0 {
			// a reorg: undo the last one to three blocks, newest first; the chain continues from
			// the common parent with different blocks
			depth := []int{1, 1, 1, 1, 1, 2, 2, 2, 3, 3}[r.Intn(10)]
			if depth > applied-2 {
				depth = applied - 2
			}
			if depth >= 2 {
				cr.stats["reorg-depth-2+"]++
			}
			for ; depth > 0; depth-- {
				h := hist[len(hist)-1]
				hist = hist[:len(hist)-1]
				ru := consensus.RevertBlock(h.prev, h.b, consensus.V1BlockSupplement{})
				revertUpdate(ru, h.prev.Index.Height+1, &h.prev.Elements)
				cs = h.prev
				applied--
				cr.stats["revert"]++
			}
		}
	}
	cr.stats["blocks"] += applied
	cr.stats["tracked"] += len(order)
	if !covered() {
		missing := []string{}
		for _, k := range wantOps {
			if cr.stats[k] == 0 {
				missing = append(missing, k)
			}
		}
		sort.Strings(missing)
		c.Infra("vacuity: chain %d never exercised %v", cr.idx, missing)
	}
}

// usedLine records the decoding of an update's JSON into a receiver that was used before
// (seq = how many documents it has held): the result must be the update a fresh receiver
// yields, field by field (unexported ones too), and must marshal to the same document.
func (cr *chainRun) usedLine(typ string, js []byte, fresh, used reflect.Value, err error, seq int) {
	line := map[string]any{"ev": "used", "type": typ, "how": "json", "scope": true, "scalar": false, "custom": true, "fok": true, "uok": err == nil,
		"same": false, "eq": false, "nontrivial": seq > 0, "diff": "", "chain": cr.idx, "seq": seq}
	if err == nil {
		var js2 []byte
		var merr error
		if pan, _ := vlib.Recover(func() { js2, merr = json.Marshal(used.Interface()) }); !pan && merr == nil {
			line["same"] = string(js) == string(js2)
		}
		d := firstFieldDiff(fresh, used, "")
		line["eq"], line["diff"] = d == "", stripIndices(d)
	}
	cr.used = append(cr.used, line)
}
