package main

// Reflection value generator for the text/JSON round trips of C20: boundary shapes
// (all nil, all empty, maximal) and structured random values. Only values that JSON
// can represent at all are produced: string fields are valid UTF-8, timestamps are
// whole seconds in the years 0..9999, policies and resolutions are never nil.

import (
	"math"
	"math/rand"
	"reflect"
	"time"

	"go.sia.tech/core/consensus"
	"go.sia.tech/core/types"
)

const (
	modeRandom = iota
	modeNil    // zero numbers, nil collections and pointers
	modeEmpty  // zero numbers, empty (non-nil) collections, pointers set
	modeMax    // maximal numbers, one-element collections
)

var (
	timeType     = reflect.TypeOf(time.Time{})
	durationType = reflect.TypeOf(time.Duration(0))
	policyType   = reflect.TypeOf(types.SpendPolicy{})
	currencyType = reflect.TypeOf(types.Currency{})
	workType     = reflect.TypeOf(consensus.Work{})
	specType     = reflect.TypeOf(types.Specifier{})
	accType      = reflect.TypeOf(consensus.ElementAccumulator{})
	networkPtr   = reflect.TypeOf((*consensus.Network)(nil))
	resTypeIface = reflect.TypeOf((*types.V2FileContractResolutionType)(nil)).Elem()
	v2DiffType   = reflect.TypeOf(consensus.V2FileContractElementDiff{})
	fcrType      = reflect.TypeOf(types.FileContractRevision{})
	stateType    = reflect.TypeOf(consensus.State{})
)

const (
	minUnix = -62167219200 // 0000-01-01T00:00:00Z
	maxUnix = 253402300799 // 9999-12-31T23:59:59Z
)

type gen struct {
	r    *rand.Rand
	mode int
	// specAlphabet restricts specifiers to the quoting alphabet of Text.tla (ASCII and
	// bytes that can never be part of valid UTF-8 here), so that TLC can state the text.
	specAlphabet bool
	// coverage of the unusual values named by the property
	seen map[string]int
}

func (g *gen) note(k string) { g.seen[k]++ }

func (g *gen) u64() uint64 {
	switch g.mode {
	case modeNil, modeEmpty:
		return 0
	case modeMax:
		return math.MaxUint64
	}
	switch g.r.Intn(12) {
	case 0:
		return 0
	case 1:
		return 1
	case 2:
		return math.MaxUint64
	case 3:
		return math.MaxUint64 - uint64(g.r.Intn(3))
	case 4:
		return 1 << 32
	case 5:
		return 1<<53 + uint64(g.r.Intn(3)) // beyond exact float64 integers
	case 6:
		return 1 << 63
	case 7:
		return uint64(g.r.Intn(300))
	default:
		return g.r.Uint64() >> uint(g.r.Intn(64))
	}
}

func (g *gen) i64() int64 {
	switch g.mode {
	case modeNil, modeEmpty:
		return 0
	case modeMax:
		return math.MaxInt64
	}
	switch g.r.Intn(8) {
	case 0:
		return 0
	case 1:
		return math.MinInt64
	case 2:
		return math.MaxInt64
	case 3:
		return -1
	default:
		return int64(g.r.Uint64()>>uint(g.r.Intn(64))) * int64(1-2*g.r.Intn(2))
	}
}

func (g *gen) time() time.Time {
	var u int64
	switch g.mode {
	case modeNil:
		return time.Time{}
	case modeEmpty:
		u = 0
	case modeMax:
		u = maxUnix
	default:
		switch g.r.Intn(8) {
		case 0:
			u = minUnix
		case 1:
			u = maxUnix
		case 2:
			u = 0
		case 3:
			u = -1
		case 4:
			return time.Time{}
		default:
			u = minUnix + g.r.Int63n(maxUnix-minUnix+1)
		}
	}
	return time.Unix(u, 0).UTC()
}

func (g *gen) currency() types.Currency {
	switch g.mode {
	case modeNil, modeEmpty:
		return types.ZeroCurrency
	case modeMax:
		g.note("currency-max")
		return types.MaxCurrency
	}
	switch g.r.Intn(8) {
	case 0:
		return types.ZeroCurrency
	case 1:
		g.note("currency-max")
		return types.MaxCurrency
	case 2:
		return types.NewCurrency(math.MaxUint64, 0)
	case 3:
		return types.NewCurrency(0, 1)
	case 4:
		return types.NewCurrency64(uint64(g.r.Intn(3)))
	default:
		return types.NewCurrency(g.r.Uint64(), g.r.Uint64()>>uint(g.r.Intn(65)))
	}
}

func (g *gen) work() consensus.Work {
	var b [32]byte
	switch g.mode {
	case modeNil, modeEmpty:
	case modeMax:
		for i := range b {
			b[i] = 0xFF
		}
	default:
		switch g.r.Intn(6) {
		case 0:
		case 1:
			for i := range b {
				b[i] = 0xFF
			}
		case 2:
			b[31] = 1
		default:
			n := g.r.Intn(33)
			g.r.Read(b[32-n:])
		}
	}
	var w consensus.Work
	d := types.NewBufDecoder(b[:])
	w.DecodeFrom(d)
	return w
}

// specifier classes; the first nine lie in the alphabet of Text.tla
func (g *gen) specifier() types.Specifier {
	var s types.Specifier
	alnum := "abcdefghijklmnopqrstuvwxyzABCDEFGHIJKLMNOPQRSTUVWXYZ0123456789"
	punct := " !\"#$%&'()*+,-./:;<=>?@[\\]^_`{|}~"
	never := []byte{0x80, 0xBF, 0xC0, 0xC1, 0xF5, 0xFE, 0xFF, 0x9C}
	randFrom := func(set string, n int) {
		for i := 0; i < n; i++ {
			s[i] = set[g.r.Intn(len(set))]
		}
	}
	nClasses := 9
	if !g.specAlphabet {
		nClasses = 11
	}
	cl := g.r.Intn(nClasses)
	switch g.mode {
	case modeNil, modeEmpty:
		cl = 0
	case modeMax:
		cl = 5
	}
	switch cl {
	case 0: // well known / empty
		names := []string{"ed25519", "entropy", "", "a", "0", "ed25519", "0123456789abcdef"}
		copy(s[:], names[g.r.Intn(len(names))])
	case 1: // alphanumeric
		randFrom(alnum, g.r.Intn(17))
	case 2: // one punctuation character among alphanumerics
		n := 1 + g.r.Intn(16)
		randFrom(alnum, n)
		s[g.r.Intn(n)] = punct[g.r.Intn(len(punct))]
		g.note("specifier-nonalnum")
	case 3: // punctuation only, including the policy-string delimiters and quotes
		randFrom(punct, 1+g.r.Intn(16))
		g.note("specifier-nonalnum")
	case 4: // control characters
		n := 1 + g.r.Intn(8)
		randFrom(alnum, n)
		s[g.r.Intn(n)] = []byte{1, 7, 8, 9, 10, 11, 12, 13, 27, 31, 127}[g.r.Intn(11)]
		g.note("specifier-nonalnum")
	case 5: // all sixteen bytes used, never-UTF-8 bytes
		for i := range s {
			s[i] = never[g.r.Intn(len(never))]
		}
		g.note("specifier-nonalnum")
	case 6: // interior NUL
		n := 2 + g.r.Intn(14)
		randFrom(alnum, n)
		s[g.r.Intn(n-1)] = 0
		g.note("specifier-nonalnum")
	case 7: // mixture
		n := 1 + g.r.Intn(16)
		for i := 0; i < n; i++ {
			switch g.r.Intn(4) {
			case 0:
				s[i] = punct[g.r.Intn(len(punct))]
			case 1:
				s[i] = never[g.r.Intn(len(never))]
			case 2:
				s[i] = byte(g.r.Intn(32))
			default:
				s[i] = alnum[g.r.Intn(len(alnum))]
			}
		}
		g.note("specifier-nonalnum")
	case 8: // starts with a quote or a colon
		n := 1 + g.r.Intn(10)
		randFrom(alnum, n)
		s[0] = []byte{'"', ':', '\\', ' '}[g.r.Intn(4)]
		g.note("specifier-nonalnum")
	case 9: // valid multi-byte UTF-8 (outside Text.tla's alphabet: round trip only)
		words := []string{"é", "日本", "añb", "​", "Ωmega", "a b", "😀"}
		copy(s[:], words[g.r.Intn(len(words))])
		g.note("specifier-nonalnum")
	case 10: // arbitrary bytes
		g.r.Read(s[:1+g.r.Intn(16)])
		g.note("specifier-nonalnum")
	}
	return s
}

func (g *gen) str() string {
	if g.mode == modeNil || g.mode == modeEmpty {
		return ""
	}
	pieces := []string{"a", "Z", "0", " ", "\"", "\\", "<", ">", "&", "/", "é", "日", "😀", "\n", "\t", "\u0000", "\u001f", "\u007f", " ", "�", "host.example:9982", "v1.5.2"}
	n := g.r.Intn(5)
	if g.mode == modeMax {
		n = 6
	}
	s := ""
	for i := 0; i < n; i++ {
		s += pieces[g.r.Intn(len(pieces))]
	}
	return s
}

// sliceLen: -1 nil, 0 empty, >0 elements
func (g *gen) sliceLen(depth int) int {
	switch g.mode {
	case modeNil:
		return -1
	case modeEmpty:
		return 0
	case modeMax:
		if depth > 6 {
			return 0
		}
		return 1
	}
	if depth > 7 {
		return -1 + g.r.Intn(2)
	}
	switch g.r.Intn(8) {
	case 0, 1:
		return -1
	case 2:
		return 0
	default:
		if depth > 4 {
			return 1
		}
		return 1 + g.r.Intn(3)
	}
}

func (g *gen) policy(depth int) types.SpendPolicy {
	k := g.r.Intn(8)
	switch g.mode {
	case modeNil:
		k = 4
	case modeEmpty:
		k = 6
	case modeMax:
		k = 7
	}
	switch {
	case k == 0:
		g.note("policy-above")
		return types.PolicyAbove(g.u64())
	case k == 1:
		g.note("policy-after")
		return types.PolicyAfter(g.time())
	case k == 2:
		var pk types.PublicKey
		g.fill(reflect.ValueOf(&pk).Elem(), depth+1)
		g.note("policy-pk")
		return types.PolicyPublicKey(pk)
	case k == 3:
		var h types.Hash256
		g.fill(reflect.ValueOf(&h).Elem(), depth+1)
		g.note("policy-h")
		return types.PolicyHash(h)
	case k == 5:
		var a types.Address
		g.fill(reflect.ValueOf(&a).Elem(), depth+1)
		g.note("policy-opaque")
		return types.SpendPolicy{Type: types.PolicyTypeOpaque(a)}
	case (k == 4 || k == 6) && depth < 3:
		n := g.sliceLen(depth + 3)
		var of []types.SpendPolicy
		if n >= 0 {
			of = make([]types.SpendPolicy, n)
			for i := range of {
				of[i] = g.policy(depth + 1)
			}
		}
		g.note("policy-thresh")
		nn := uint8(g.r.Intn(5))
		if g.r.Intn(4) == 0 {
			nn = uint8(g.r.Intn(256))
		}
		return types.PolicyThreshold(nn, of)
	default:
		var uc types.UnlockConditions
		g.fill(reflect.ValueOf(&uc).Elem(), depth+1)
		if g.mode == modeRandom && g.r.Intn(3) == 0 {
			// a plain standard-looking one, so that uc policies free of unusual values are frequent too
			for i := range uc.PublicKeys {
				uc.PublicKeys[i].Algorithm = types.SpecifierEd25519
			}
			uc.SignaturesRequired = uint64(g.r.Intn(256))
		}
		if uc.SignaturesRequired > 255 {
			g.note("uc-sigcount-over-255")
		}
		g.note("policy-uc")
		return types.SpendPolicy{Type: types.PolicyTypeUnlockConditions(uc)}
	}
}

func (g *gen) accumulator() consensus.ElementAccumulator {
	var acc consensus.ElementAccumulator
	acc.NumLeaves = g.u64()
	for i := range acc.Trees {
		// slots without a tree sometimes hold a stale root, as they do in a running node
		if acc.NumLeaves&(1<<uint(i)) != 0 || (g.mode == modeRandom && g.r.Intn(16) == 0) {
			g.r.Read(acc.Trees[i][:])
		}
	}
	return acc
}

func (g *gen) resolution(depth int) types.V2FileContractResolutionType {
	k := g.r.Intn(3)
	switch g.mode {
	case modeNil:
		k = 2
	case modeEmpty:
		k = 1
	case modeMax:
		k = 0
	}
	switch k {
	case 0:
		r := new(types.V2FileContractRenewal)
		g.fill(reflect.ValueOf(r).Elem(), depth+1)
		g.note("resolution-renewal")
		return r
	case 1:
		r := new(types.V2StorageProof)
		g.fill(reflect.ValueOf(r).Elem(), depth+1)
		g.note("resolution-storage-proof")
		return r
	default:
		g.note("resolution-expiration")
		return new(types.V2FileContractExpiration)
	}
}

func (g *gen) fill(v reflect.Value, depth int) {
	switch v.Type() {
	case timeType:
		v.Set(reflect.ValueOf(g.time()))
		return
	case durationType:
		v.SetInt(g.i64())
		return
	case policyType:
		v.Set(reflect.ValueOf(g.policy(depth)))
		return
	case currencyType:
		v.Set(reflect.ValueOf(g.currency()))
		return
	case workType:
		v.Set(reflect.ValueOf(g.work()))
		return
	case specType:
		v.Set(reflect.ValueOf(g.specifier()))
		return
	case accType:
		v.Set(reflect.ValueOf(g.accumulator()))
		return
	case networkPtr:
		// not encoded; present now and then so that the rule for it is exercised
		if g.mode == modeRandom && g.r.Intn(4) == 0 {
			v.Set(reflect.ValueOf(&consensus.Network{Name: "x"}))
		}
		return
	}
	switch v.Kind() {
	case reflect.Uint64, reflect.Uint32, reflect.Uint16, reflect.Uint:
		u := g.u64()
		if v.OverflowUint(u) {
			u &= 1<<uint(v.Type().Bits()) - 1
		}
		v.SetUint(u)
	case reflect.Uint8:
		switch g.mode {
		case modeNil, modeEmpty:
			v.SetUint(0)
		case modeMax:
			v.SetUint(255)
		default:
			v.SetUint(uint64(g.r.Intn(256)))
		}
	case reflect.Int64, reflect.Int:
		v.SetInt(g.i64())
	case reflect.Bool:
		switch g.mode {
		case modeNil, modeEmpty:
			v.SetBool(false)
		case modeMax:
			v.SetBool(true)
		default:
			v.SetBool(g.r.Intn(2) == 0)
		}
	case reflect.String:
		v.SetString(g.str())
	case reflect.Array:
		if v.Type().Elem().Kind() == reflect.Uint8 {
			// byte arrays: zero, all ones, or random
			k := g.r.Intn(6)
			switch g.mode {
			case modeNil, modeEmpty:
				k = 0
			case modeMax:
				k = 1
			}
			for i := 0; i < v.Len(); i++ {
				switch k {
				case 0:
					v.Index(i).SetUint(0)
				case 1:
					v.Index(i).SetUint(255)
				default:
					v.Index(i).SetUint(uint64(g.r.Intn(256)))
				}
			}
			return
		}
		for i := 0; i < v.Len(); i++ {
			g.fill(v.Index(i), depth+1)
		}
	case reflect.Slice:
		n := g.sliceLen(depth)
		if v.Type().Elem().Kind() == reflect.Uint8 && n > 0 && g.mode == modeRandom {
			n = 1 + g.r.Intn(40)
		}
		if n < 0 {
			g.note("collection-nil")
			v.Set(reflect.Zero(v.Type()))
			return
		}
		if n == 0 {
			g.note("collection-empty")
		}
		s := reflect.MakeSlice(v.Type(), n, n)
		for i := 0; i < n; i++ {
			g.fill(s.Index(i), depth+1)
		}
		v.Set(s)
	case reflect.Ptr:
		if g.mode == modeNil || (g.mode == modeRandom && g.r.Intn(2) == 0) {
			v.Set(reflect.Zero(v.Type()))
			return
		}
		p := reflect.New(v.Type().Elem())
		g.fill(p.Elem(), depth+1)
		v.Set(p)
	case reflect.Struct:
		for i := 0; i < v.NumField(); i++ {
			if v.Field(i).CanSet() {
				g.fill(v.Field(i), depth+1)
			}
		}
		if v.Type() == v2DiffType {
			// a diff without resolution is the common case
			if g.mode == modeNil || (g.mode == modeRandom && g.r.Intn(3) == 0) {
				v.FieldByName("Resolution").Set(reflect.Zero(resTypeIface))
			}
		}
	case reflect.Interface:
		if v.Type() == resTypeIface {
			v.Set(reflect.ValueOf(g.resolution(depth)))
		}
	}
}

// value returns a fresh value of type t in the given mode.
func (g *gen) value(t reflect.Type, mode int) reflect.Value {
	old := g.mode
	g.mode = mode
	v := reflect.New(t).Elem()
	g.fill(v, 0)
	g.mode = old
	return v
}
