package main

// Abstract values (what Text.tla talks about) of the identifier and policy types,
// the Go-side comparison of the big JSON types under the explicit normalisation
// rules, and a field-by-field comparison that also reads unexported fields.

import (
	"bytes"
	"encoding"
	"encoding/json"
	"fmt"
	"math/big"
	"reflect"
	"time"

	coreblake "go.sia.tech/core/blake2b"
	"go.sia.tech/core/consensus"
	rhp4 "go.sia.tech/core/rhp/v4"
	"go.sia.tech/core/types"
	"verif/harness/vlib"
)

func codes(s []byte) []int {
	out := make([]int, len(s))
	for i, b := range s {
		out[i] = int(b)
	}
	return out
}

func uncodes(cs []int) []byte {
	out := make([]byte, len(cs))
	for i, c := range cs {
		out[i] = byte(c)
	}
	return out
}

func limbs64(u uint64) []int { return vlib.Limbs(new(big.Int).SetUint64(u)) }

// checksum of an address, with a BLAKE2b that does not pass through types.Address
func addrChecksum(a types.Address) []int {
	h := coreblake.Sum256(a[:])
	return codes(h[:6])
}

func absPolicy(p types.SpendPolicy) map[string]any {
	switch t := p.Type.(type) {
	case types.PolicyTypeAbove:
		return map[string]any{"k": "above", "n": limbs64(uint64(t))}
	case types.PolicyTypeAfter:
		u := time.Time(t).Unix()
		mag := new(big.Int).Abs(big.NewInt(u))
		return map[string]any{"k": "after", "neg": u < 0, "n": vlib.Limbs(mag)}
	case types.PolicyTypePublicKey:
		return map[string]any{"k": "pk", "b": codes(t[:])}
	case types.PolicyTypeHash:
		return map[string]any{"k": "h", "b": codes(t[:])}
	case types.PolicyTypeOpaque:
		return map[string]any{"k": "opaque", "b": codes(t[:])}
	case types.PolicyTypeThreshold:
		of := make([]any, len(t.Of))
		for i := range t.Of {
			of[i] = absPolicy(t.Of[i])
		}
		return map[string]any{"k": "thresh", "n": int(t.N), "of": of, "ofNil": t.Of == nil}
	case types.PolicyTypeUnlockConditions:
		keys := make([]any, len(t.PublicKeys))
		for i, k := range t.PublicKeys {
			keys[i] = map[string]any{"alg": codes(k.Algorithm[:]), "key": codes(k.Key), "keyNil": k.Key == nil}
		}
		return map[string]any{"k": "uc", "tl": limbs64(t.Timelock), "keys": keys, "keysNil": t.PublicKeys == nil, "sr": limbs64(t.SignaturesRequired)}
	}
	return map[string]any{"k": "nil"}
}

// a text kind: a type whose text form Text.tla states
type kindDef struct {
	name   string
	typ    reflect.Type
	hasStr bool // String() is the same form as MarshalText
}

var textKinds = []kindDef{
	{"Hash256", reflect.TypeOf(types.Hash256{}), true},
	{"BlockID", reflect.TypeOf(types.BlockID{}), true},
	{"TransactionID", reflect.TypeOf(types.TransactionID{}), true},
	{"SiacoinOutputID", reflect.TypeOf(types.SiacoinOutputID{}), true},
	{"SiafundOutputID", reflect.TypeOf(types.SiafundOutputID{}), true},
	{"FileContractID", reflect.TypeOf(types.FileContractID{}), true},
	{"AttestationID", reflect.TypeOf(types.AttestationID{}), true},
	{"Signature", reflect.TypeOf(types.Signature{}), true},
	{"PublicKey", reflect.TypeOf(types.PublicKey{}), true},
	{"Account", reflect.TypeOf(rhp4.Account{}), true},
	{"Address", reflect.TypeOf(types.Address{}), true},
	{"Specifier", reflect.TypeOf(types.Specifier{}), true},
	{"UnlockKey", reflect.TypeOf(types.UnlockKey{}), false},
	{"ChainIndex", reflect.TypeOf(types.ChainIndex{}), false}, // String() is an abbreviation
	{"ProtocolVersion", reflect.TypeOf(rhp4.ProtocolVersion{}), true},
	{"Work", reflect.TypeOf(consensus.Work{}), true},
	{"Currency", reflect.TypeOf(types.Currency{}), false}, // String() is the unit form (C15)
	{"SpendPolicy", reflect.TypeOf(types.SpendPolicy{}), true},
}

func kindByName(n string) *kindDef {
	for i := range textKinds {
		if textKinds[i].name == n {
			return &textKinds[i]
		}
	}
	return nil
}

func bytesOf(v reflect.Value) []int {
	out := make([]int, v.Len())
	for i := range out {
		out[i] = int(v.Index(i).Uint())
	}
	return out
}

// abstract value of v (of a text kind)
func absValue(kind string, v reflect.Value) map[string]any {
	switch x := v.Interface().(type) {
	case types.Address:
		return map[string]any{"b": codes(x[:]), "ck": addrChecksum(x)}
	case types.UnlockKey:
		return map[string]any{"alg": codes(x.Algorithm[:]), "key": codes(x.Key), "keyNil": x.Key == nil}
	case types.ChainIndex:
		return map[string]any{"h": limbs64(x.Height), "id": codes(x.ID[:])}
	case rhp4.ProtocolVersion:
		return map[string]any{"v": []int{int(x[0]), int(x[1]), int(x[2])}}
	case consensus.Work:
		// the 256-bit number, read from the binary encoding
		var buf bytes.Buffer
		e := types.NewEncoder(&buf)
		x.EncodeTo(e)
		e.Flush()
		return map[string]any{"n": vlib.Limbs(new(big.Int).SetBytes(buf.Bytes()))}
	case types.Currency:
		return map[string]any{"n": vlib.Limbs(x.Big())}
	case types.SpendPolicy:
		return absPolicy(x)
	}
	return map[string]any{"b": bytesOf(v)}
}

func marshalText(k *kindDef, v reflect.Value) (string, error) {
	if k.name == "SpendPolicy" {
		return v.Interface().(types.SpendPolicy).String(), nil
	}
	b, err := v.Interface().(encoding.TextMarshaler).MarshalText()
	return string(b), err
}

// parseText runs the real parser of the kind on s, into a fresh value.
func parseText(k *kindDef, s string) (out reflect.Value, err error, panicked any) {
	p := reflect.New(k.typ)
	pan, val := vlib.Recover(func() {
		if k.name == "SpendPolicy" {
			var sp types.SpendPolicy
			sp, err = types.ParseSpendPolicy(s)
			p.Elem().Set(reflect.ValueOf(sp))
			return
		}
		err = p.Interface().(encoding.TextUnmarshaler).UnmarshalText([]byte(s))
	})
	if pan {
		return p.Elem(), nil, val
	}
	return p.Elem(), err, nil
}

func parseJSON(t reflect.Type, js []byte) (out reflect.Value, err error, panicked any) {
	p := reflect.New(t)
	pan, val := vlib.Recover(func() { err = json.Unmarshal(js, p.Interface()) })
	if pan {
		return p.Elem(), nil, val
	}
	return p.Elem(), err, nil
}

// ---------------------------------------------------------------------------
// comparison of big values under the normalisation rules of Text!JSONRules

type cmp struct {
	rules map[string]bool
	diff  string // path of the first difference
	field string // innermost struct field containing it: Type.Field
}

func asTime(v reflect.Value) (time.Time, bool) {
	if v.Kind() == reflect.Struct && v.Type().ConvertibleTo(timeType) && v.CanInterface() {
		return v.Convert(timeType).Interface().(time.Time), true
	}
	return time.Time{}, false
}

func (c *cmp) fail(path string) bool {
	if c.diff == "" {
		c.diff = path
	}
	return false
}

// eq reports whether a (the original) and b (the value that came back) are the same
// value up to the rules it records.
func (c *cmp) eq(a, b reflect.Value, path string) bool {
	if a.Type() != b.Type() {
		return c.fail(path)
	}
	if ta, ok := asTime(a); ok {
		tb, _ := asTime(b)
		if !ta.Equal(tb) {
			return c.fail(path)
		}
		if ta != tb {
			c.rules["time-instant"] = true
		}
		return true
	}
	switch a.Kind() {
	case reflect.Slice:
		if a.Len() != b.Len() {
			return c.fail(path)
		}
		if a.IsNil() != b.IsNil() {
			c.rules["nil-empty"] = true
		}
		for i := 0; i < a.Len(); i++ {
			if !c.eq(a.Index(i), b.Index(i), fmt.Sprintf("%s[%d]", path, i)) {
				return false
			}
		}
		return true
	case reflect.Array:
		for i := 0; i < a.Len(); i++ {
			if !c.eq(a.Index(i), b.Index(i), fmt.Sprintf("%s[%d]", path, i)) {
				return false
			}
		}
		return true
	case reflect.Struct:
		if a.Type() == accType && a.CanInterface() {
			// a tree slot is data only where NumLeaves has the bit
			x, y := a.Interface().(consensus.ElementAccumulator), b.Interface().(consensus.ElementAccumulator)
			if x.NumLeaves != y.NumLeaves {
				c.field = "ElementAccumulator.NumLeaves"
				return c.fail(path + ".NumLeaves")
			}
			for h := range x.Trees {
				if x.Trees[h] == y.Trees[h] {
					continue
				}
				if x.NumLeaves&(1<<uint(h)) != 0 {
					c.field = "ElementAccumulator.Trees"
					return c.fail(fmt.Sprintf("%s.Trees[%d]", path, h))
				}
				c.rules["acc-unused-trees"] = true
			}
			return true
		}
		for i := 0; i < a.NumField(); i++ {
			f := a.Type().Field(i)
			fp := path + "." + f.Name
			switch {
			case a.Type() == reflect.TypeOf(types.StateElement{}) && f.Name == "shared":
				continue // ownership marker, not data
			case a.Type() == reflect.TypeOf(types.FileContract{}) && f.Name == "Payout" && c.inRevision(path):
				// not part of a revision: decoding yields the documented sentinel
				if !c.eqQuiet(a.Field(i), b.Field(i)) {
					if b.Field(i).Interface().(types.Currency) != types.MaxCurrency {
						c.field = "FileContractRevision.Payout"
						return c.fail(fp)
					}
					c.rules["revision-payout"] = true
				}
				continue
			case a.Type() == stateType && f.Name == "Network":
				if !b.Field(i).IsNil() {
					c.field = "State.Network"
					return c.fail(fp)
				}
				if !a.Field(i).IsNil() {
					c.rules["network-omitted"] = true
				}
				continue
			}
			if !c.eq(a.Field(i), b.Field(i), fp) {
				if c.field == "" {
					c.field = a.Type().Name() + "." + f.Name
				}
				return false
			}
		}
		return true
	case reflect.Ptr, reflect.Interface:
		if a.IsNil() || b.IsNil() {
			if a.IsNil() != b.IsNil() {
				return c.fail(path)
			}
			return true
		}
		if a.Kind() == reflect.Interface && a.Elem().Type() != b.Elem().Type() {
			return c.fail(path)
		}
		return c.eq(a.Elem(), b.Elem(), path)
	case reflect.Map:
		if a.Len() != b.Len() {
			return c.fail(path)
		}
		for _, k := range a.MapKeys() {
			bv := b.MapIndex(k)
			if !bv.IsValid() || !c.eq(a.MapIndex(k), bv, fmt.Sprintf("%s[%v]", path, k)) {
				return c.fail(path)
			}
		}
		return true
	case reflect.String:
		if a.String() != b.String() {
			return c.fail(path)
		}
	case reflect.Bool:
		if a.Bool() != b.Bool() {
			return c.fail(path)
		}
	case reflect.Int, reflect.Int8, reflect.Int16, reflect.Int32, reflect.Int64:
		if a.Int() != b.Int() {
			return c.fail(path)
		}
	case reflect.Uint, reflect.Uint8, reflect.Uint16, reflect.Uint32, reflect.Uint64, reflect.Uintptr:
		if a.Uint() != b.Uint() {
			return c.fail(path)
		}
	default:
		return c.fail(path + "(unsupported kind)")
	}
	return true
}

func (c *cmp) eqQuiet(a, b reflect.Value) bool {
	q := &cmp{rules: map[string]bool{}}
	return q.eq(a, b, "")
}

// the embedded FileContract of a FileContractRevision has a path ending in ".FileContract"
// directly below a value of type FileContractRevision; the caller passes that path.
func (c *cmp) inRevision(path string) bool { return revisionPaths[path] }

var revisionPaths = map[string]bool{}

// markRevisions records the paths of every FileContractRevision.FileContract inside v.
func markRevisions(v reflect.Value, path string) {
	switch v.Kind() {
	case reflect.Slice, reflect.Array:
		for i := 0; i < v.Len(); i++ {
			markRevisions(v.Index(i), fmt.Sprintf("%s[%d]", path, i))
		}
	case reflect.Struct:
		if _, ok := asTime(v); ok {
			return
		}
		for i := 0; i < v.NumField(); i++ {
			fp := path + "." + v.Type().Field(i).Name
			if v.Type() == fcrType && v.Type().Field(i).Name == "FileContract" {
				revisionPaths[fp] = true
			}
			markRevisions(v.Field(i), fp)
		}
	case reflect.Ptr, reflect.Interface:
		if !v.IsNil() {
			markRevisions(v.Elem(), path)
		}
	}
}

func equalUnder(a, b reflect.Value) (ok bool, rules []string, diff string) {
	revisionPaths = map[string]bool{}
	markRevisions(a, "")
	c := &cmp{rules: map[string]bool{}}
	ok = c.eq(a, b, "")
	rules = []string{}
	for _, r := range []string{"nil-empty", "time-instant", "revision-payout", "network-omitted", "acc-unused-trees"} {
		if c.rules[r] {
			rules = append(rules, r)
		}
	}
	diff = c.field
	if !ok && diff == "" {
		diff = a.Type().Name()
	}
	return ok, rules, diff
}

// firstFieldDiff compares every field, exported or not, and returns the path of the
// first field that differs (nil and empty collections are not told apart).
func firstFieldDiff(a, b reflect.Value, path string) string {
	if a.Type() != b.Type() {
		return path
	}
	switch a.Kind() {
	case reflect.Slice, reflect.Array:
		if a.Len() != b.Len() {
			return path + "(len)"
		}
		for i := 0; i < a.Len(); i++ {
			if d := firstFieldDiff(a.Index(i), b.Index(i), fmt.Sprintf("%s[%d]", path, i)); d != "" {
				return d
			}
		}
	case reflect.Struct:
		if a.Type() == timeType {
			return ""
		}
		for i := 0; i < a.NumField(); i++ {
			n := a.Type().Field(i).Name
			if n == "shared" {
				continue
			}
			if d := firstFieldDiff(a.Field(i), b.Field(i), path+"."+n); d != "" {
				return d
			}
		}
	case reflect.Ptr, reflect.Interface:
		if a.IsNil() || b.IsNil() {
			if a.IsNil() != b.IsNil() {
				return path + "(nil)"
			}
			return ""
		}
		return firstFieldDiff(a.Elem(), b.Elem(), path)
	case reflect.String:
		if a.String() != b.String() {
			return path
		}
	case reflect.Bool:
		if a.Bool() != b.Bool() {
			return path
		}
	case reflect.Int, reflect.Int8, reflect.Int16, reflect.Int32, reflect.Int64:
		if a.Int() != b.Int() {
			return path
		}
	case reflect.Uint, reflect.Uint8, reflect.Uint16, reflect.Uint32, reflect.Uint64, reflect.Uintptr:
		if a.Uint() != b.Uint() {
			return path
		}
	}
	return ""
}
