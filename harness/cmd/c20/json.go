package main

// JSON round trips of the big types: Unmarshal(Marshal(v)) == v under the rules of
// Text!JSONRules, and Marshal again byte-identical. Decided on the real code; every
// case becomes one "jsonrt" trace line that TLC has to accept.

import (
	"encoding/json"
	"fmt"
	"reflect"

	"go.sia.tech/core/consensus"
	rhp2 "go.sia.tech/core/rhp/v2"
	rhp3 "go.sia.tech/core/rhp/v3"
	rhp4 "go.sia.tech/core/rhp/v4"
	"go.sia.tech/core/types"
	"verif/harness/vlib"
)

type jsonType struct {
	name string
	typ  reflect.Type
}

func jt[T any](name string) jsonType { return jsonType{name, reflect.TypeOf((*T)(nil)).Elem()} }

var jsonTypes = []jsonType{
	// identifiers and small values inside JSON documents
	jt[types.Currency]("Currency"), jt[types.Address]("Address"), jt[types.PublicKey]("PublicKey"),
	jt[types.Signature]("Signature"), jt[types.Specifier]("Specifier"), jt[types.UnlockKey]("UnlockKey"),
	jt[types.ChainIndex]("ChainIndex"), jt[types.Hash256]("Hash256"),
	// v1
	jt[types.UnlockConditions]("UnlockConditions"), jt[types.SiacoinOutput]("SiacoinOutput"), jt[types.SiafundOutput]("SiafundOutput"),
	jt[types.SiacoinInput]("SiacoinInput"), jt[types.SiafundInput]("SiafundInput"), jt[types.FileContract]("FileContract"),
	jt[types.FileContractRevision]("FileContractRevision"), jt[types.StorageProof]("StorageProof"),
	jt[types.CoveredFields]("CoveredFields"), jt[types.TransactionSignature]("TransactionSignature"),
	jt[types.FoundationAddressUpdate]("FoundationAddressUpdate"), jt[types.Transaction]("Transaction"),
	// v2
	jt[types.SpendPolicy]("SpendPolicy"), jt[types.SatisfiedPolicy]("SatisfiedPolicy"), jt[types.V2FileContract]("V2FileContract"),
	jt[types.V2SiacoinInput]("V2SiacoinInput"), jt[types.V2SiafundInput]("V2SiafundInput"),
	jt[types.V2FileContractRevision]("V2FileContractRevision"), jt[types.V2FileContractRenewal]("V2FileContractRenewal"),
	jt[types.V2StorageProof]("V2StorageProof"), jt[types.V2FileContractResolution]("V2FileContractResolution"),
	jt[types.Attestation]("Attestation"), jt[types.V2Transaction]("V2Transaction"),
	// elements
	jt[types.StateElement]("StateElement"), jt[types.SiacoinElement]("SiacoinElement"), jt[types.SiafundElement]("SiafundElement"),
	jt[types.FileContractElement]("FileContractElement"), jt[types.V2FileContractElement]("V2FileContractElement"),
	jt[types.AttestationElement]("AttestationElement"), jt[types.ChainIndexElement]("ChainIndexElement"),
	// blocks
	jt[types.BlockHeader]("BlockHeader"), jt[types.V2BlockData]("V2BlockData"), jt[types.Block]("Block"),
	// consensus
	jt[consensus.Work]("Work"), jt[consensus.ElementAccumulator]("ElementAccumulator"), jt[consensus.State]("State"),
	jt[consensus.Network]("Network"),
	jt[consensus.SiacoinElementDiff]("SiacoinElementDiff"), jt[consensus.SiafundElementDiff]("SiafundElementDiff"),
	jt[consensus.FileContractElementDiff]("FileContractElementDiff"), jt[consensus.V2FileContractElementDiff]("V2FileContractElementDiff"),
	jt[consensus.V1TransactionSupplement]("V1TransactionSupplement"), jt[consensus.V1BlockSupplement]("V1BlockSupplement"),
	// renter-host protocols
	jt[rhp4.ProtocolVersion]("ProtocolVersion"), jt[rhp4.Account]("Account"), jt[rhp4.HostPrices]("rhp4.HostPrices"),
	jt[rhp4.HostSettings]("rhp4.HostSettings"), jt[rhp4.AccountToken]("rhp4.AccountToken"), jt[rhp4.Usage]("rhp4.Usage"),
	jt[rhp4.RPCSettingsResponse]("rhp4.RPCSettingsResponse"), jt[rhp4.RPCFormContractParams]("rhp4.RPCFormContractParams"),
	jt[rhp2.HostSettings]("rhp2.HostSettings"), jt[rhp3.HostPriceTable]("rhp3.HostPriceTable"),
}

func roundTrip(typ string, v reflect.Value) jsonCase {
	line := map[string]any{"ev": "jsonrt", "type": typ, "mok": false, "uok": false, "eq": false, "same": false,
		"rules": []string{}, "n": 0, "diff": "", "fam": "none", "bin": "n/a"}
	out := jsonCase{typ: typ, line: line}
	var js []byte
	var err error
	if pan, pv := vlib.Recover(func() { js, err = json.Marshal(v.Interface()) }); pan || err != nil {
		line["diff"] = fmt.Sprintf("marshal: %v %v", err, pv)
		return out
	}
	out.js = js
	line["mok"], line["n"] = true, len(js)
	back, err, pan := parseJSON(v.Type(), js)
	if err != nil || pan != nil {
		line["diff"] = fmt.Sprintf("unmarshal: %v %v", err, pan)
		return out
	}
	line["uok"] = true
	ok, rules, diff := equalUnder(v, back)
	line["eq"], line["rules"], line["diff"] = ok, rules, diff
	var js2 []byte
	if pan, _ := vlib.Recover(func() { js2, err = json.Marshal(back.Interface()) }); !pan && err == nil {
		line["same"] = string(js) == string(js2)
	}
	return out
}

// roundTripLim: the JSON round trip of a carrier of a limit value, with what the
// binary codec does with the same carrier.
func roundTripLim(typ string, v reflect.Value, lim limDesc) jsonCase {
	jc := roundTrip(typ, v)
	limFields(jc.line, lim)
	jc.line["bin"] = binaryRoundTrip(v)
	return jc
}
