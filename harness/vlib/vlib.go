// Package vlib is the shared runtime of the /verif checks: it runs TLC on the
// specifications under /verif/spec, parses what TLC prints, collects verdicts
// obtained from the real code, applies the known-findings list, and writes the
// evidence file.
package vlib

import (
	"bufio"
	"encoding/json"
	"flag"
	"fmt"
	"math/big"
	"os"
	"os/exec"
	"path/filepath"
	"regexp"
	"sort"
	"strconv"
	"strings"
	"sync"
	"time"
)

// Root is the verification directory.
const Root = "/verif"

// OutRoot is where evidence/ and replay/ are written: /verif, unless the development
// aid VERIF_OUT redirects a run against a scratch checkout.
func OutRoot() string { return envOr("VERIF_OUT", Root) }

// RepoDir is the checkout of core the harness was built against.
func RepoDir() string { return envOr("VERIF_REPO", "/repo") }

// Ctx is one run of one property check.
type Ctx struct {
	ID     string // property id, e.g. "C15"
	Tier   string // quick | thorough
	Seed   int64
	Replay string // non-empty: re-execute one saved case
	Work   string // scratch directory (removed on Finish)
	start  time.Time

	mu         sync.Mutex
	cov        map[string]any
	samples    []any
	assume     []string
	violations []violation
	known      map[string]string // key -> text
	knownHit   map[string]bool
	states     int64
	trans      int64
	traces     int64
	evals      int64
	nontrivial int64
	rule       string
	infra      []string
	Thorough   bool
}

type violation struct {
	key    string
	what   string
	replay string
}

// Start parses the common flags and prepares the scratch directory.
func Start(id string) *Ctx {
	tier := flag.String("tier", envOr("VERIF_TIER", "quick"), "quick|thorough")
	replay := flag.String("replay", "", "replay file")
	flag.Parse()
	seed := int64(1)
	if s := os.Getenv("VERIF_SEED"); s != "" {
		if v, err := strconv.ParseInt(s, 10, 64); err == nil {
			seed = v
		}
	}
	c := &Ctx{ID: id, Tier: *tier, Seed: seed, Replay: *replay, start: time.Now(),
		cov: map[string]any{}, known: map[string]string{}, knownHit: map[string]bool{}}
	c.Thorough = c.Tier == "thorough"
	c.Work = filepath.Join(Root, ".work", fmt.Sprintf("%s-%d", id, os.Getpid()))
	os.RemoveAll(c.Work)
	if err := os.MkdirAll(c.Work, 0o755); err != nil {
		fmt.Println("INFRA: cannot create work dir:", err)
		os.Exit(2)
	}
	c.loadKnown()
	return c
}

func envOr(k, d string) string {
	if v := os.Getenv(k); v != "" {
		return v
	}
	return d
}

func (c *Ctx) loadKnown() {
	f, err := os.Open(filepath.Join(Root, "KNOWN_FINDINGS.txt"))
	if err != nil {
		return
	}
	defer f.Close()
	sc := bufio.NewScanner(f)
	re := regexp.MustCompile(`^known:\s+property=(\S+)\s+key=(\S+)\s+(.*)$`)
	for sc.Scan() {
		m := re.FindStringSubmatch(strings.TrimSpace(sc.Text()))
		if m != nil && m[1] == c.ID {
			c.known[m[2]] = m[3]
		}
	}
}

// Pick returns q for the quick tier and t for the thorough tier.
func (c *Ctx) Pick(q, t int) int {
	if c.Thorough {
		return t
	}
	return q
}

// Cov records an extra coverage key.
func (c *Ctx) Cov(k string, v any) {
	c.mu.Lock()
	c.cov[k] = v
	c.mu.Unlock()
}

// CovAdd adds n to an integer coverage key.
func (c *Ctx) CovAdd(k string, n int64) {
	c.mu.Lock()
	cur, _ := c.cov[k].(int64)
	c.cov[k] = cur + n
	c.mu.Unlock()
}

// Sample records an example case (at most 6 are kept).
func (c *Ctx) Sample(v any) {
	c.mu.Lock()
	if len(c.samples) < 6 {
		c.samples = append(c.samples, v)
	}
	c.mu.Unlock()
}

// Assume records an assumption for the evidence file.
func (c *Ctx) Assume(s string) { c.assume = append(c.assume, s) }

// Rule sets the text describing generation and non-triviality.
func (c *Ctx) Rule(s string) { c.rule = s }

// Count adds to evaluations / distinct non-trivial.
func (c *Ctx) Count(evals, nontrivial int64) {
	c.mu.Lock()
	c.evals += evals
	c.nontrivial += nontrivial
	c.mu.Unlock()
}

// Traces adds to traces_validated_against_impl.
func (c *Ctx) Traces(n int64) {
	c.mu.Lock()
	c.traces += n
	c.mu.Unlock()
}

// Infra records an infrastructure failure: the run ends with exit 2 and no verdict.
func (c *Ctx) Infra(format string, a ...any) {
	c.mu.Lock()
	c.infra = append(c.infra, fmt.Sprintf(format, a...))
	c.mu.Unlock()
}

// Fatal is Infra followed by Finish.
func (c *Ctx) Fatal(format string, a ...any) {
	c.Infra(format, a...)
	c.Finish()
}

// Violation records a violation observed on the real code. key is the stable
// identifier of the failing input class (matched against KNOWN_FINDINGS.txt);
// what is a human description; payload is written to the replay file.
func (c *Ctx) Violation(key, what string, payload any) {
	c.mu.Lock()
	defer c.mu.Unlock()
	if txt, ok := c.known[key]; ok {
		if !c.knownHit[key] {
			c.knownHit[key] = true
			fmt.Printf("KNOWN-FINDING: property=%s key=%s %s\n", c.ID, key, txt)
		}
		return
	}
	for _, v := range c.violations {
		if v.key == key {
			return // one replay per class
		}
	}
	dir := filepath.Join(OutRoot(), "replay")
	os.MkdirAll(dir, 0o755)
	safe := regexp.MustCompile(`[^A-Za-z0-9_.+-]`).ReplaceAllString(key, "_")
	if len(safe) > 80 {
		safe = safe[:80]
	}
	path := filepath.Join(dir, fmt.Sprintf("%s-%s.json", c.ID, safe))
	b, _ := json.MarshalIndent(map[string]any{"property": c.ID, "key": key, "what": what, "seed": c.Seed, "tier": c.Tier, "case": payload}, "", " ")
	os.WriteFile(path, b, 0o644)
	c.violations = append(c.violations, violation{key, what, path})
	fmt.Printf("violation detail: property=%s key=%s %s\n", c.ID, key, what)
}

// NViolations is the number of unlisted violations so far.
func (c *Ctx) NViolations() int { c.mu.Lock(); defer c.mu.Unlock(); return len(c.violations) }

// Finish writes the evidence file, prints VIOLATION lines and exits.
func (c *Ctx) Finish() {
	exec.Command("pkill", "-f", "tlc2.TL[C].*"+c.Work).Run()
	os.RemoveAll(c.Work)
	if len(c.infra) > 0 {
		for _, s := range c.infra {
			fmt.Printf("INFRA: property=%s %s\n", c.ID, s)
		}
		// no evidence and no verdict from a broken run
		if len(c.violations) == 0 {
			os.Exit(2)
		}
	}
	cov := map[string]any{}
	for k, v := range c.cov {
		cov[k] = v
	}
	cov["states"] = c.states
	cov["transitions"] = c.trans
	cov["traces_validated_against_impl"] = c.traces
	cov["evaluations"] = c.evals
	cov["distinct_nontrivial"] = c.nontrivial
	cov["rule"] = c.rule
	if len(c.samples) == 0 {
		c.samples = []any{"(no sample recorded)"}
	}
	cov["samples"] = c.samples
	kh := []string{}
	for k := range c.knownHit {
		kh = append(kh, k)
	}
	sort.Strings(kh)
	cov["known_findings_reproduced"] = kh
	if c.assume == nil {
		c.assume = []string{}
	}
	ev := map[string]any{
		"property_id": c.ID, "tier": c.Tier, "seed": c.Seed, "level": "model_checking",
		"coverage": cov, "assumptions": c.assume, "wall_s": time.Since(c.start).Seconds(),
		"violations": len(c.violations),
	}
	if c.Replay == "" {
		b, _ := json.MarshalIndent(ev, "", " ")
		os.MkdirAll(filepath.Join(OutRoot(), "evidence"), 0o755)
		if err := os.WriteFile(filepath.Join(OutRoot(), "evidence", c.ID+".json"), b, 0o644); err != nil {
			fmt.Println("INFRA: cannot write evidence:", err)
			os.Exit(2)
		}
	}
	if len(c.violations) > 0 {
		for _, v := range c.violations {
			fmt.Printf("VIOLATION property=%s replay=%s\n", c.ID, v.replay)
		}
		os.Exit(1)
	}
	fmt.Printf("OK property=%s tier=%s seed=%d states=%d transitions=%d traces=%d evaluations=%d nontrivial=%d wall=%.1fs\n",
		c.ID, c.Tier, c.Seed, c.states, c.trans, c.traces, c.evals, c.nontrivial, time.Since(c.start).Seconds())
	os.Exit(0)
}

// ---------------------------------------------------------------------------
// TLC

// TLCOpts configures one TLC run.
type TLCOpts struct {
	SpecDirs  []string          // directories under /verif/spec whose *.tla/*.cfg are copied to the scratch dir
	Module    string            // root module (file Module.tla)
	Config    string            // config file name (copied) — or ConfigText
	ConfText  string            // literal config contents (written as <Module>_gen.cfg)
	Files     map[string][]byte // extra files (traces) placed next to the spec
	Workers   int               // default 8
	Timeout   time.Duration     // default 10 min
	Simulate  string            // e.g. "num=200" → -simulate num=200
	Depth     int               // -depth
	Seed      int64             // -seed (0: none)
	DFS       bool              // depth-first queue (StateDeque)
	Coverage  bool              // -coverage 1
	Xss       string            // e.g. 512m
	NoCount   bool              // do not add states/transitions to the evidence totals
	ExtraArgs []string
}

// TLCResult is what a TLC run printed.
type TLCResult struct {
	Out       string
	Generated int64
	Distinct  int64
	ExitCode  int
	Lines     []string // lines printed by PrintT carrying the @@ sentinel: text after "@@"
	Violated  string   // name of violated invariant/property, or "error" for evaluation errors
	Wall      time.Duration
}

var reStates = regexp.MustCompile(`(\d+) states generated, (\d+) distinct states found`)
var reInv = regexp.MustCompile(`Error: Invariant (\S+) is violated`)
var reProp = regexp.MustCompile(`Error: (Action|Temporal) propert(y|ies) (\S*)`)

// TLC runs TLC; an error return means infrastructure trouble (timeout, crash, parse error).
func (c *Ctx) TLC(o TLCOpts) (*TLCResult, error) {
	if o.Workers == 0 {
		o.Workers = 8
	}
	if o.Timeout == 0 {
		o.Timeout = 10 * time.Minute
	}
	dir, err := os.MkdirTemp(c.Work, "tlc-")
	if err != nil {
		return nil, err
	}
	for _, d := range append([]string{"lib"}, o.SpecDirs...) {
		src := filepath.Join(Root, "spec", d)
		ents, err := os.ReadDir(src)
		if err != nil {
			return nil, err
		}
		for _, e := range ents {
			if e.IsDir() {
				continue
			}
			n := e.Name()
			if strings.HasSuffix(n, ".tla") || strings.HasSuffix(n, ".cfg") {
				b, err := os.ReadFile(filepath.Join(src, n))
				if err != nil {
					return nil, err
				}
				os.WriteFile(filepath.Join(dir, n), b, 0o644)
			}
		}
	}
	for n, b := range o.Files {
		if err := os.WriteFile(filepath.Join(dir, n), b, 0o644); err != nil {
			return nil, err
		}
	}
	cfg := o.Config
	if o.ConfText != "" {
		cfg = o.Module + "_gen.cfg"
		os.WriteFile(filepath.Join(dir, cfg), []byte(o.ConfText), 0o644)
	}
	args := []string{"-k", "10", fmt.Sprintf("%d", int(o.Timeout.Seconds())+5),
		"java", "-XX:+UseParallelGC"}
	if o.Xss != "" {
		args = append(args, "-Xss"+o.Xss)
	}
	if o.DFS {
		args = append(args, "-Dtlc2.tool.queue.IStateQueue=StateDeque")
	}
	args = append(args, "-cp", "/opt/veriftools/tla/tla2tools.jar:/opt/veriftools/tla/CommunityModules-deps.jar", "tlc2.TLC",
		"-metadir", filepath.Join(dir, "meta"), "-workers", strconv.Itoa(o.Workers), "-config", cfg)
	if o.Simulate != "" {
		args = append(args, "-simulate", o.Simulate)
	}
	if o.Depth > 0 {
		args = append(args, "-depth", strconv.Itoa(o.Depth))
	}
	if o.Seed != 0 {
		args = append(args, "-seed", strconv.FormatInt(o.Seed, 10))
	}
	if o.Coverage {
		args = append(args, "-coverage", "1")
	}
	args = append(args, o.ExtraArgs...)
	args = append(args, o.Module)
	cmd := exec.Command("timeout", args...)
	cmd.Dir = dir
	t0 := time.Now()
	out, runErr := runCapped(cmd, 256<<20)
	res := &TLCResult{Out: string(out), Wall: time.Since(t0)}
	if runErr == errTooMuchOutput {
		return res, fmt.Errorf("TLC printed more than 256 MiB (%s %s): %s", o.Module, cfg, tail(res.Out[:4096], 2000))
	}
	if ee, ok := runErr.(*exec.ExitError); ok {
		res.ExitCode = ee.ExitCode()
	} else if runErr != nil {
		return res, runErr
	}
	for _, ln := range strings.Split(res.Out, "\n") {
		if i := strings.Index(ln, "@@"); i >= 0 {
			s := ln[i+2:]
			s = strings.TrimSuffix(strings.TrimSpace(s), "\"")
			res.Lines = append(res.Lines, s)
		}
	}
	if ms := reStates.FindAllStringSubmatch(res.Out, -1); len(ms) > 0 {
		m := ms[len(ms)-1]
		res.Generated, _ = strconv.ParseInt(m[1], 10, 64)
		res.Distinct, _ = strconv.ParseInt(m[2], 10, 64)
	}
	if m := reInv.FindStringSubmatch(res.Out); m != nil {
		res.Violated = m[1]
	} else if m := reProp.FindStringSubmatch(res.Out); m != nil {
		res.Violated = m[3]
	} else if strings.Contains(res.Out, "Error:") {
		res.Violated = "error"
	}
	if res.Violated != "" || res.ExitCode == 124 || res.ExitCode == 137 {
		os.WriteFile(filepath.Join(Root, ".work", "tlc-fail-"+c.ID+".log"), out, 0o644)
	}
	if res.ExitCode == 124 || res.ExitCode == 137 {
		return res, fmt.Errorf("TLC timed out after %v (%s %s)", o.Timeout, o.Module, cfg)
	}
	if o.Simulate == "" && res.Generated == 0 && res.Violated == "" {
		return res, fmt.Errorf("TLC produced no state count (%s %s): %s", o.Module, cfg, tail(res.Out, 800))
	}
	if !o.NoCount {
		c.mu.Lock()
		c.states += res.Distinct
		c.trans += res.Generated
		c.mu.Unlock()
	}
	os.RemoveAll(filepath.Join(dir, "meta"))
	return res, nil
}

var errTooMuchOutput = fmt.Errorf("too much output")

// runCapped runs cmd collecting stdout+stderr, killing it when the output exceeds limit bytes.
func runCapped(cmd *exec.Cmd, limit int) ([]byte, error) {
	pr, pw, err := os.Pipe()
	if err != nil {
		return nil, err
	}
	cmd.Stdout, cmd.Stderr = pw, pw
	if err := cmd.Start(); err != nil {
		pw.Close()
		pr.Close()
		return nil, err
	}
	pw.Close()
	var buf []byte
	tmp := make([]byte, 1<<16)
	over := false
	for {
		n, rerr := pr.Read(tmp)
		if n > 0 && !over {
			buf = append(buf, tmp[:n]...)
			if len(buf) > limit {
				over = true
				cmd.Process.Kill()
				exec.Command("pkill", "-f", "tlc2.TL[C].*"+cmd.Dir).Run()
			}
		}
		if rerr != nil {
			break
		}
	}
	pr.Close()
	werr := cmd.Wait()
	if over {
		return buf, errTooMuchOutput
	}
	return buf, werr
}

// MustTLC runs TLC and treats any violation inside the model as a spec bug (exit 2).
func (c *Ctx) MustTLC(o TLCOpts) *TLCResult {
	r, err := c.TLC(o)
	if err != nil {
		c.Fatal("%v", err)
	}
	if r.Violated != "" {
		c.Fatal("model-internal failure in %s/%s (%s): %s", o.Module, o.Config, r.Violated, tail(r.Out, 1500))
	}
	return r
}

// AddStates adds to the model-checking totals (for simulate runs where TLC prints other counters).
func (c *Ctx) AddStates(distinct, generated int64) {
	c.mu.Lock()
	c.states += distinct
	c.trans += generated
	c.mu.Unlock()
}

func tail(s string, n int) string {
	if len(s) <= n {
		return s
	}
	return "…" + s[len(s)-n:]
}

// Tail exposes tail for diagnostics.
func Tail(s string, n int) string { return tail(s, n) }

// UnquoteTLA turns the text TLC prints for a string (with \" and \\ escapes) back into the string.
func UnquoteTLA(s string) string {
	s = strings.ReplaceAll(s, `\"`, `"`)
	s = strings.ReplaceAll(s, `\\`, `\`)
	return s
}

// ---------------------------------------------------------------------------
// numbers

// Limbs converts a non-negative integer to little-endian base-2^15 limbs.
func Limbs(x *big.Int) []int {
	r := []int{}
	y := new(big.Int).Set(x)
	m := big.NewInt(32768)
	rem := new(big.Int)
	for y.Sign() > 0 {
		y.QuoRem(y, m, rem)
		r = append(r, int(rem.Int64()))
	}
	return r
}

// FromLimbs is the inverse of Limbs.
func FromLimbs(l []int) *big.Int {
	x := new(big.Int)
	for i := len(l) - 1; i >= 0; i-- {
		x.Lsh(x, 15)
		x.Add(x, big.NewInt(int64(l[i])))
	}
	return x
}

// NDJSON serialises events one per line.
func NDJSON(events []map[string]any) []byte {
	var sb strings.Builder
	for _, e := range events {
		b, _ := json.Marshal(e)
		sb.Write(b)
		sb.WriteByte('\n')
	}
	return []byte(sb.String())
}

// Recover runs f and reports whether it panicked.
func Recover(f func()) (panicked bool, val any) {
	defer func() {
		if r := recover(); r != nil {
			panicked, val = true, r
		}
	}()
	f()
	return
}
