package wirebridge

import (
	"errors"
	"fmt"
	"math/bits"
	"math/rand"
	"reflect"
	"strings"
	"time"

	"go.sia.tech/core/types"
)

// Influence says whether changing a leaf alone must change the encoding.
type Influence int

const (
	// Must: the member is transmitted; changing it alone must change the bytes.
	Must Influence = iota
	// MustNot: the member is documented as not transmitted; changing it alone must leave the bytes unchanged.
	MustNot
	// May: the member is transmitted only when other data does not already determine it
	// (Merkle proof entries inside a multiproof); nothing is demanded.
	May
)

// A Leaf is one independently changeable part of a value: a scalar member, the length of a
// collection, the presence of an optional member, the variant of a union.
type Leaf struct {
	Path      string // e.g. SiacoinInputs[1].Parent.StateElement.LeafIndex
	Kind      string // codec kind, or len / presence / variant / nanos
	Influence Influence
}

// walker converts a Go value to its abstract value under a codec, in lock-step; optionally it
// reports leaves and applies one mutation.
type walker struct {
	s         Schema
	normalise bool // emit untransmitted timestamp / accumulator slots as zero
	leaves    []Leaf
	collect   bool
	mutate    int        // index of the leaf to mutate (-1: none)
	r         *rand.Rand // for mutations
	g         *Gen
	mutated   *Leaf
	bitOpt    bool // the next opt codec is a bitmap member: its presence is a bit of the bitmap, not a byte
	mp        bool // below a multiproof: element proofs are redundant with each other
}

// Abstract returns the abstract value (JSON-able: maps, slices, ints, bools) of the Go value
// ptr points to, under schema line name. A disagreement between the Go type and the schema
// line (member missing on either side, kind mismatch) is returned as an error: it is a defect
// of the check, not of the code under test.
func Abstract(s Schema, name string, ptr any) (any, error) {
	return abstract(s, name, ptr, false)
}

// AbstractNormalised is Abstract with the conditionally transmitted slots (State.PrevTimestamps beyond
// min(height+1, 11), accumulator trees whose bit is clear in NumLeaves) replaced by zero.
func AbstractNormalised(s Schema, name string, ptr any) (any, error) {
	return abstract(s, name, ptr, true)
}

func abstract(s Schema, name string, ptr any, norm bool) (out any, err error) {
	c, ok := s[name]
	if !ok {
		return nil, fmt.Errorf("no schema line %q", name)
	}
	w := &walker{s: s, normalise: norm, mutate: -1}
	defer func() {
		if r := recover(); r != nil {
			if e, ok := r.(bridgeError); ok {
				err = fmt.Errorf("%s: %s", name, string(e))
				return
			}
			panic(r)
		}
	}()
	return w.walk(c, reflect.ValueOf(ptr).Elem(), "", Must), nil
}

// Leaves enumerates the leaves of the value ptr points to.
func Leaves(s Schema, name string, ptr any) (ls []Leaf, err error) {
	c, ok := s[name]
	if !ok {
		return nil, fmt.Errorf("no schema line %q", name)
	}
	w := &walker{s: s, mutate: -1, collect: true}
	defer func() {
		if r := recover(); r != nil {
			if e, ok := r.(bridgeError); ok {
				err = fmt.Errorf("%s: %s", name, string(e))
				return
			}
			panic(r)
		}
	}()
	w.walk(c, reflect.ValueOf(ptr).Elem(), "", Must)
	return w.leaves, nil
}

// MutateLeaf changes leaf number i (in the order of Leaves) of the value ptr points to, in place,
// and nothing else. Use Clone first to keep the original.
func MutateLeaf(s Schema, name string, ptr any, i int, r *rand.Rand) (leaf Leaf, err error) {
	c, ok := s[name]
	if !ok {
		return Leaf{}, fmt.Errorf("no schema line %q", name)
	}
	g := NewGen(r)
	g.Budget = 4
	w := &walker{s: s, mutate: i, collect: true, r: r, g: g}
	defer func() {
		if rec := recover(); rec != nil {
			if e, ok := rec.(bridgeError); ok {
				err = fmt.Errorf("%s: %s", name, string(e))
				return
			}
			panic(rec)
		}
	}()
	w.walk(c, reflect.ValueOf(ptr).Elem(), "", Must)
	if w.mutated == nil {
		return Leaf{}, fmt.Errorf("%s: no leaf %d", name, i)
	}
	return *w.mutated, nil
}

type bridgeError string

func fail(format string, a ...any) { panic(bridgeError(fmt.Sprintf(format, a...))) }

// Words splits a number into 16-bit words, most significant first.
func Words(hi, lo uint64, n int) []int {
	out := make([]int, n)
	for i := 0; i < n; i++ {
		sh := uint(16 * (n - 1 - i))
		var w uint64
		if sh >= 64 {
			w = hi >> (sh - 64)
		} else {
			w = lo >> sh
		}
		out[i] = int(w & 0xffff)
	}
	return out
}

func byteInts(b []byte) []int {
	out := make([]int, len(b))
	for i, x := range b {
		out[i] = int(x)
	}
	return out
}

// leaf reports a leaf; when it is the one selected for mutation, mut is applied.
func (w *walker) leaf(path, kind string, inf Influence, mut func()) {
	if !w.collect {
		return
	}
	idx := len(w.leaves)
	l := Leaf{Path: path, Kind: kind, Influence: inf}
	w.leaves = append(w.leaves, l)
	if idx == w.mutate && w.mutated == nil {
		w.mutated = &w.leaves[idx]
		mut()
	}
}

func isTime(t reflect.Type) bool {
	return t.Kind() == reflect.Struct && t.ConvertibleTo(timeType) && t.NumField() == timeType.NumField()
}
func isCurrency(t reflect.Type) bool {
	return t.Kind() == reflect.Struct && t.ConvertibleTo(currencyType)
}

func asTime(v reflect.Value) time.Time { return readable(v).Convert(timeType).Interface().(time.Time) }
func asCurrency(v reflect.Value) types.Currency {
	return readable(v).Convert(currencyType).Interface().(types.Currency)
}

// NumTimestamps is the number of previous-block timestamps a state whose index has the given height transmits.
func NumTimestamps(height uint64) int {
	if height+1 < 11 {
		return int(height + 1)
	}
	return 11
}

func getPath(v reflect.Value, path []string) reflect.Value {
	for _, p := range path {
		v = v.FieldByName(p)
		if !v.IsValid() {
			fail("control path member %q missing", p)
		}
	}
	return v
}

// walk returns the abstract value of v under c. v is addressable. inf is the influence context.
func (w *walker) walk(c *Codec, v reflect.Value, path string, inf Influence) any {
	v = Settable(v)
	t := v.Type()
	mism := func() { fail("%s: codec %s does not fit Go type %v", path, c.K, t) }
	switch c.K {
	case "ref":
		return w.walk(w.s[c.Name], v, path, inf)
	case "u8":
		if t.Kind() != reflect.Uint8 {
			mism()
		}
		w.leaf(path, "u8", inf, func() { v.SetUint(v.Uint() ^ 1<<uint(w.r.Intn(8))) })
		return int(v.Uint())
	case "u64":
		switch t.Kind() {
		case reflect.Uint64, reflect.Uint:
			w.leaf(path, "u64", inf, func() { v.SetUint(v.Uint() ^ 1<<uint(w.r.Intn(64))) })
			return Words(0, v.Uint(), 4)
		case reflect.Int64, reflect.Int:
			w.leaf(path, "u64", inf, func() { v.SetInt(v.Int() ^ 1<<uint(w.r.Intn(64))) })
			return Words(0, uint64(v.Int()), 4)
		}
		mism()
	case "curv1u64":
		if t.Kind() != reflect.Uint64 {
			mism()
		}
		w.leaf(path, "curv1u64", inf, func() { v.SetUint(v.Uint() ^ 1<<uint(w.r.Intn(64))) })
		return Words(0, v.Uint(), 4)
	case "time":
		if !isTime(t) {
			mism()
		}
		w.leaf(path, "time", inf, func() {
			x := asTime(v).Add(time.Duration(1+w.r.Intn(1000)) * time.Second)
			v.Set(reflect.ValueOf(x).Convert(t))
		})
		w.leaf(path+"#nanos", "nanos", MustNot, func() {
			x := asTime(v)
			x = time.Unix(x.Unix(), int64((x.Nanosecond()+1+w.r.Intn(999999))%1000000000))
			v.Set(reflect.ValueOf(x).Convert(t))
		})
		return Words(0, uint64(asTime(v).Unix()), 4)
	case "bool":
		if t.Kind() != reflect.Bool {
			mism()
		}
		w.leaf(path, "bool", inf, func() { v.SetBool(!v.Bool()) })
		return v.Bool()
	case "fixed", "lfixed", "account3":
		if c.K == "account3" {
			c = &Codec{K: "account3", N: 32}
		}
		if t.Kind() != reflect.Array || t.Elem().Kind() != reflect.Uint8 || t.Len() != c.N {
			mism()
		}
		w.leaf(path, c.K, inf, func() {
			e := v.Index(w.r.Intn(c.N))
			e.SetUint(e.Uint() ^ 1<<uint(w.r.Intn(8)))
		})
		out := make([]int, c.N)
		for i := range out {
			out[i] = int(v.Index(i).Uint())
		}
		return out
	case "bytes":
		if t.Kind() != reflect.Slice || t.Elem().Kind() != reflect.Uint8 {
			mism()
		}
		if v.Len() > 0 {
			w.leaf(path, "bytes", inf, func() {
				e := v.Index(w.r.Intn(v.Len()))
				e.SetUint(e.Uint() ^ 1<<uint(w.r.Intn(8)))
			})
		}
		w.leaf(path+"#len", "len", inf, func() {
			if v.Len() > 0 && w.r.Intn(2) == 0 {
				v.Set(v.Slice(0, v.Len()-1))
			} else {
				v.Set(reflect.Append(reflect.AppendSlice(reflect.MakeSlice(t, 0, v.Len()+1), v), reflect.ValueOf(byte(w.r.Intn(256)))))
			}
		})
		return byteInts(v.Bytes())
	case "str":
		if t.Kind() != reflect.String {
			mism()
		}
		if v.Len() > 0 {
			w.leaf(path, "str", inf, func() {
				b := []byte(v.String())
				b[w.r.Intn(len(b))] ^= 1 << uint(w.r.Intn(8))
				v.SetString(string(b))
			})
		}
		w.leaf(path+"#len", "len", inf, func() {
			if v.Len() > 0 && w.r.Intn(2) == 0 {
				v.SetString(v.String()[:v.Len()-1])
			} else {
				v.SetString(v.String() + string([]byte{byte('a' + w.r.Intn(26))}))
			}
		})
		return byteInts([]byte(v.String()))
	case "curv1", "curv2":
		if !isCurrency(t) {
			mism()
		}
		w.leaf(path, c.K, inf, func() {
			x := asCurrency(v)
			if b := w.r.Intn(128); b < 64 {
				x.Lo ^= 1 << uint(b)
			} else {
				x.Hi ^= 1 << uint(b-64)
			}
			v.Set(reflect.ValueOf(x).Convert(t))
		})
		x := asCurrency(v)
		return Words(x.Hi, x.Lo, 8)
	case "slice", "slicen":
		if t.Kind() != reflect.Slice {
			mism()
		}
		return w.walkSlice(c.E, v, path, inf, inf)
	case "opt":
		if t.Kind() != reflect.Ptr {
			mism()
		}
		pk := "presence"
		if w.bitOpt {
			pk, w.bitOpt = "presence-bit", false
		}
		w.leaf(path+"#presence", pk, inf, func() {
			if v.IsNil() {
				p := reflect.New(t.Elem())
				w.g.left = w.g.Budget
				w.g.Fill(p.Elem(), Random, 3, path)
				v.Set(p)
			} else {
				v.Set(reflect.Zero(t))
			}
		})
		if v.IsNil() {
			return []any{}
		}
		return []any{w.walk(c.E, v.Elem(), path, inf)}
	case "struct":
		if t.Kind() != reflect.Struct {
			mism()
		}
		return w.walkStruct(c, v, path, inf)
	case "errstr":
		if t != errorType {
			mism()
		}
		w.leaf(path, "errstr", inf, func() {
			if v.IsNil() || w.r.Intn(2) == 0 {
				old := ""
				if !v.IsNil() {
					old = v.Interface().(error).Error()
				}
				v.Set(reflect.ValueOf(errors.New(old + "x")))
			} else {
				v.Set(reflect.Zero(t))
			}
		})
		if v.IsNil() {
			return []int{}
		}
		return byteInts([]byte(v.Interface().(error).Error()))
	case "union", "tframed":
		if t.Kind() != reflect.Interface {
			mism()
		}
		if v.IsNil() {
			fail("%s: nil interface value has no wire form", path)
		}
		w.leaf(path+"#variant", "variant", inf, func() {
			cur := v.Elem().Type()
			vs := Variants[t]
			var other []reflect.Type
			for _, x := range vs {
				if x != cur {
					other = append(other, x)
				}
			}
			if len(other) == 0 {
				fail("%s: no other variant to switch to", path)
			}
			ct := other[w.r.Intn(len(other))]
			w.g.left = w.g.Budget
			if ct.Kind() == reflect.Ptr {
				p := reflect.New(ct.Elem())
				w.g.Fill(p.Elem(), Random, 4, path)
				v.Set(p)
			} else {
				p := reflect.New(ct)
				w.g.Fill(p.Elem(), Random, 4, path)
				v.Set(p.Elem())
			}
		})
		e := v.Elem()
		if e.Kind() == reflect.Ptr {
			if e.IsNil() {
				fail("%s: nil pointer variant has no wire form", path)
			}
			e = e.Elem()
		} else {
			// interface holds a non-pointer: work on an addressable copy and store it back after the walk
			cp := reflect.New(e.Type()).Elem()
			cp.Set(e)
			e = cp
			defer func() { v.Set(cp) }()
		}
		name := e.Type().Name()
		for _, vr := range c.Vs {
			if vr.Name == name {
				return map[string]any{"tag": name, "v": w.walk(vr.C, e, path+"<"+name+">", inf)}
			}
		}
		fail("%s: Go variant %s is not in the schema union", path, name)
	case "multiproof":
		if t.Kind() != reflect.Slice || t.Elem().Kind() != reflect.Struct {
			mism()
		}
		return w.walkSlice(c.E, v, path, inf, May)
	case "outline":
		return w.walkOutline(c, v, path, inf)
	case "nt", "const", "bitmap", "timestamps", "masked", "raw":
		fail("%s: codec %s is only meaningful as a struct member", path, c.K)
	}
	fail("%s: unhandled codec kind %s", path, c.K)
	return nil
}

// walkSlice handles slice / slicen / multiproof. proofInf is the influence of Merkle proof members below (May inside a multiproof).
func (w *walker) walkSlice(ec *Codec, v reflect.Value, path string, inf, proofInf Influence) any {
	t := v.Type()
	w.leaf(path+"#len", "len", inf, func() {
		if v.Len() > 0 && w.r.Intn(2) == 0 {
			v.Set(v.Slice(0, v.Len()-1))
			return
		}
		n := reflect.MakeSlice(t, v.Len()+1, v.Len()+1)
		reflect.Copy(n, v)
		w.g.left = w.g.Budget
		w.g.Fill(n.Index(v.Len()), Random, 4, path+"[]")
		if proofInf == May {
			stripAssigned(n.Index(v.Len()))
		}
		v.Set(n)
	})
	out := make([]any, v.Len())
	for i := 0; i < v.Len(); i++ {
		// inside a multiproof the entries of element proofs are redundant with each other
		out[i] = w.walkCtx(ec, v.Index(i), fmt.Sprintf("%s[%d]", path, i), inf, w.mp || proofInf == May)
	}
	return out
}

// stripAssigned makes a freshly generated v2 transaction safe to add to a consistent multiproof set:
// all its elements become ephemeral (unassigned leaf index, no proof).
func stripAssigned(v reflect.Value) {
	switch v.Kind() {
	case reflect.Struct:
		if v.Type() == reflect.TypeOf(types.StateElement{}) {
			se := v.Addr().Interface().(*types.StateElement)
			se.LeafIndex = types.UnassignedLeafIndex
			se.MerkleProof = nil
			return
		}
		for i := 0; i < v.NumField(); i++ {
			if v.Type().Field(i).IsExported() {
				stripAssigned(v.Field(i))
			}
		}
	case reflect.Slice, reflect.Array:
		for i := 0; i < v.Len(); i++ {
			stripAssigned(v.Index(i))
		}
	case reflect.Ptr, reflect.Interface:
		if !v.IsNil() {
			e := v.Elem()
			if e.Kind() == reflect.Ptr && !e.IsNil() {
				e = e.Elem()
			}
			if e.CanAddr() {
				stripAssigned(e)
			}
		}
	}
}

func (w *walker) walkCtx(c *Codec, v reflect.Value, path string, inf Influence, mp bool) any {
	old := w.mp
	w.mp = mp
	defer func() { w.mp = old }()
	return w.walk(c, v, path, inf)
}

func (w *walker) walkStruct(c *Codec, v reflect.Value, path string, inf Influence) any {
	t := v.Type()
	out := map[string]any{}
	seen := map[string]bool{}
	sub := func(name string) string {
		if path == "" {
			return name
		}
		return path + "." + name
	}
	field := func(name string) reflect.Value {
		f, ok := t.FieldByName(name)
		if !ok || len(f.Index) != 1 {
			fail("%s: schema member %q does not exist in Go type %v", path, name, t)
		}
		seen[name] = true
		if !f.IsExported() && f.Type.Size() > 0 && !SchemaUnexported[t.String()+"."+name] {
			fail("%s: the schema names the unexported member %v.%s: list it in SchemaUnexported (generation and fresh copies must treat it as content)", path, t, name)
		}
		return v.Field(f.Index[0])
	}
	for _, f := range c.Fs {
		if strings.HasPrefix(f.Name, "_") && f.C.K != "bitmap" {
			if f.C.K != "const" {
				fail("%s: wire-only member %q must be a constant", path, f.Name)
			}
			continue
		}
		switch f.C.K {
		case "nt":
			fv := field(f.Name)
			w.leafAny(sub(f.Name), fv, MustNot)
		case "bitmap":
			for _, bf := range f.C.Fs {
				fv := field(bf.Name)
				w.bitOpt = bf.Rule == "some"
				out[bf.Name] = w.walk(bf.C, fv, sub(bf.Name), inf)
				w.bitOpt = false
			}
		case "timestamps":
			fv := Settable(field(f.Name))
			if fv.Kind() != reflect.Array || fv.Len() != 11 || !isTime(fv.Type().Elem()) {
				fail("%s: timestamps codec does not fit %v", sub(f.Name), fv.Type())
			}
			n := NumTimestamps(getPath(v, f.C.Ctl).Uint())
			arr := make([]any, 11)
			tc := &Codec{K: "time"}
			for i := 0; i < 11; i++ {
				in := inf
				if i >= n {
					in = MustNot
				}
				arr[i] = w.walk(tc, fv.Index(i), fmt.Sprintf("%s[%d]", sub(f.Name), i), in)
				if i >= n && w.normalise {
					arr[i] = []int{0, 0, 0, 0}
				}
			}
			out[f.Name] = arr
		case "raw":
			out[f.Name] = w.walk(&Codec{K: "bytes"}, field(f.Name), sub(f.Name), inf)
		case "masked":
			fv := Settable(field(f.Name))
			if fv.Kind() != reflect.Array || fv.Len() != 64 {
				fail("%s: masked codec does not fit %v", sub(f.Name), fv.Type())
			}
			mask := getPath(v, f.C.Ctl).Uint()
			arr := make([]any, 64)
			for i := 0; i < 64; i++ {
				in := inf
				if mask&(1<<uint(i)) == 0 {
					in = MustNot
				}
				arr[i] = w.walk(f.C.E, fv.Index(i), fmt.Sprintf("%s[%d]", sub(f.Name), i), in)
				if in == MustNot && w.normalise {
					arr[i] = make([]int, w.s.Resolve(f.C.E).N)
				}
			}
			out[f.Name] = arr
		default:
			fv := field(f.Name)
			in := inf
			if w.mp && t == reflect.TypeOf(types.StateElement{}) && f.Name == "MerkleProof" && inf == Must {
				in = May
			}
			out[f.Name] = w.walk(f.C, fv, sub(f.Name), in)
		}
	}
	for i := 0; i < t.NumField(); i++ {
		if !seen[t.Field(i).Name] {
			if IsHidden(t, i) {
				// an unexported member the protocol description does not know: it is not transmitted and no part of
				// the abstract value; whatever an implementation keeps there must not show in any result
				noteHidden(t, i)
				continue
			}
			fail("%s: Go member %v.%s is absent from the schema line (not even marked not transmitted)", path, t, t.Field(i).Name)
		}
	}
	return out
}

// leafAny reports one leaf for a whole Go value that is outside the wire form and mutates it generically.
func (w *walker) leafAny(path string, v reflect.Value, inf Influence) {
	v = Settable(v)
	if v.Type().Size() == 0 {
		return // an empty marker struct has nothing to change
	}
	w.leaf(path, "nt", inf, func() {
		before := fmt.Sprintf("%#v", readable(v))
		for try := 0; try < 20; try++ {
			switch v.Kind() {
			case reflect.Ptr:
				if v.IsNil() {
					v.Set(reflect.New(v.Type().Elem()))
				} else {
					v.Set(reflect.Zero(v.Type()))
				}
				return
			case reflect.Bool:
				v.SetBool(!v.Bool())
				return
			default:
				w.g.left = w.g.Budget
				w.g.Fill(v, Random, 4, path)
			}
			if fmt.Sprintf("%#v", readable(v)) != before {
				return
			}
		}
		fail("%s: could not change the untransmitted member", path)
	})
}

// walkOutline handles gateway.V2BlockOutline.Transactions: each entry is a v1 transaction, a v2 transaction or a bare hash.
func (w *walker) walkOutline(c *Codec, v reflect.Value, path string, inf Influence) any {
	t := v.Type()
	if t.Kind() != reflect.Slice || t.Elem().Kind() != reflect.Struct || t.Elem().NumField() != 3 {
		fail("%s: outline codec does not fit %v", path, t)
	}
	for _, n := range []string{"Hash", "Transaction", "V2Transaction"} {
		if _, ok := t.Elem().FieldByName(n); !ok {
			fail("%s: outline entry lacks member %s", path, n)
		}
	}
	w.leaf(path+"#len", "len", inf, func() {
		if v.Len() > 0 && w.r.Intn(2) == 0 {
			v.Set(v.Slice(0, v.Len()-1))
			return
		}
		n := reflect.MakeSlice(t, v.Len()+1, v.Len()+1)
		reflect.Copy(n, v)
		w.g.Fill(n.Index(v.Len()).FieldByName("Hash"), Random, 4, path)
		v.Set(n)
	})
	out := make([]any, v.Len())
	hc := &Codec{K: "fixed", N: 32}
	for i := 0; i < v.Len(); i++ {
		e := v.Index(i)
		p := fmt.Sprintf("%s[%d]", path, i)
		t1, t2, h := e.FieldByName("Transaction"), e.FieldByName("V2Transaction"), e.FieldByName("Hash")
		switch {
		case !t1.IsNil():
			if !t2.IsNil() {
				fail("%s: outline entry holds both a v1 and a v2 transaction", p)
			}
			w.leafAny(p+".Hash", h, MustNot) // recomputed from the transaction by the receiver
			out[i] = map[string]any{"tag": "Transaction", "v": w.walk(c.T1, t1.Elem(), p+".Transaction", inf)}
		case !t2.IsNil():
			w.leafAny(p+".Hash", h, MustNot)
			out[i] = map[string]any{"tag": "V2Transaction", "v": w.walkCtx(c.T2, t2.Elem(), p+".V2Transaction", inf, true)}
		default:
			out[i] = map[string]any{"tag": "Hash", "v": w.walk(hc, h, p+".Hash", inf)}
		}
	}
	return out
}

// LeafHeight returns the proof length of leaf index idx in an accumulator of n leaves (idx < n).
func LeafHeight(idx, n uint64) int { return bits.Len64(idx^n) - 1 }

// EqualAbstract compares two abstract values as produced by Abstract (no JSON round trip).
func EqualAbstract(a, b any) bool {
	switch x := a.(type) {
	case map[string]any:
		y, ok := b.(map[string]any)
		if !ok || len(x) != len(y) {
			return false
		}
		for k, e := range x {
			f, ok := y[k]
			if !ok || !EqualAbstract(e, f) {
				return false
			}
		}
		return true
	case []any:
		y, ok := b.([]any)
		if !ok || len(x) != len(y) {
			return false
		}
		for i := range x {
			if !EqualAbstract(x[i], y[i]) {
				return false
			}
		}
		return true
	case []int:
		y, ok := b.([]int)
		if !ok || len(x) != len(y) {
			return false
		}
		for i := range x {
			if x[i] != y[i] {
				return false
			}
		}
		return true
	default:
		return a == b
	}
}
