// Package wirebridge binds the TLA+ wire schema (spec/wire/Wire*.tla) to the Go objects of core.
//
// Schema
//
//	s := wirebridge.LoadSchema(c)            // runs TLC on spec/wire/WireDump, parses Wire!Schema (exit 2 on failure)
//	s["V2Transaction"]                       // *Codec: K (kind), Fs (members in wire order), E, Vs, ...
//	s.NotTransmittedMembers()                // every member marked NT(why) in the schema
//
// Registry of wire types (types, consensus, gateway, rhp/v4, rhp/v2, rhp/v3) with their REAL codecs
//
//	for _, t := range wirebridge.Types() {   // t.Pkg, t.Name (= schema name), t.GoType
//	    b := t.Encode(ptr)                   // real encoder (SafeEncode reports panics)
//	    v, left, err := t.Decode(b)          // real decoder into a fresh value, unread byte count, Decoder.Err()
//	}
//	wirebridge.TypeByName("gateway_RPCSendHeaders_Request")
//
// gateway codecs are unexported: they are reached with go:linkname (no file is added to core);
// rhp/v4 objects go through the exported WriteResponse / ReadResponse framing.
//
// Generation by reflection (any Go type, no schema needed)
//
//	g := wirebridge.NewGen(rand.New(rand.NewSource(seed)))
//	ptr := g.New(reflect.TypeOf(types.V2Transaction{}), wirebridge.Random).Interface()   // modes: Random, Zero, Max, Empty
//	t.Fix(r, ptr)                            // = FixValue: consistent multiproof sets (incl. repeated references to one
//	                                         //   accumulator leaf within and across transactions), valid outline entries, ...
//	wirebridge.MakeConsistent(r, txnPtrs)    // the multiproof fixer alone; ProofShape / DuplicateRefs describe a set
//	wirebridge.Variants[ifaceType]           // concrete types a valid interface value may hold (policies, resolutions, instructions)
//
// Abstract values (what TLC consumes), lock-step walk of Go value and schema line
//
//	abs, err := wirebridge.Abstract(s, "V2Transaction", ptr)       // err = Go type and schema line disagree -> c.Infra
//	wirebridge.AbstractNormalised(...)                             // untransmitted timestamp / accumulator slots zeroed
//	wirebridge.EqualAbstract(a, b)
//
// Single-leaf mutation
//
//	leaves, _ := wirebridge.Leaves(s, name, ptr)                   // []Leaf{Path, Kind, Influence: Must | MustNot | May}
//	m := wirebridge.Clone(reflect.ValueOf(ptr)).Interface()
//	leaf, _ := wirebridge.MutateLeaf(s, name, m, i, r)             // changes leaf i of m and nothing else
//	wirebridge.LeafByPath(leaves, "SiafundInputs[0].ClaimAddress")
//
// Hidden members: an unexported struct member that no schema line names (SchemaUnexported lists the named ones) is
// outside the protocol - a cache, a memo, a lock an implementation keeps beside the content. Walks do not fail on it:
// it is not transmitted, is no part of an abstract value and no leaf; Gen leaves it zero; Clone copies it as Go's
// assignment does; Fresh(ptr) is the deep copy of the content alone (a value nothing was computed from yet);
// HiddenMembers() lists the ones met (coverage).
package wirebridge
