package wirebridge

import (
	"bytes"
	"errors"
	"fmt"
	"io"
	"math/rand"
	"reflect"
	_ "unsafe" // go:linkname

	"go.sia.tech/core/consensus"
	"go.sia.tech/core/gateway"
	rhp2 "go.sia.tech/core/rhp/v2"
	rhp3 "go.sia.tech/core/rhp/v3"
	rhp4 "go.sia.tech/core/rhp/v4"
	"go.sia.tech/core/types"
	"verif/harness/vlib"
)

// A WireType is one object with a binary codec in core: its schema line and its real encoder and decoder.
type WireType struct {
	Pkg    string       // types | consensus | gateway | rhp4 | rhp2 | rhp3
	Name   string       // schema name (= Go type name for package types, pkg_Name otherwise, _Request/_Response for gateway RPC halves)
	GoType reflect.Type // the in-memory type (not a pointer)
	// Encode runs the real encoder on the value ptr points to.
	Encode func(ptr any) []byte
	// Decode runs the real decoder on b into a fresh value; it returns a pointer to it, the number of
	// bytes left unread, and the decoder's error.
	Decode func(b []byte) (ptr any, left int, err error)
	// DecodeN runs the real decoder on b with a decoder whose byte limit (io.LimitedReader.N) is limit; all of b is
	// available to the reader whatever the limit. For RHP4 objects this is the object's own decodeFrom (export shim),
	// without the response framing and its transport-sized limit that Decode goes through.
	DecodeN func(b []byte, limit int64) (ptr any, left int, err error)
	// MaxBytes > 0: the protocol refuses longer encodings of this object (generated values are kept below it).
	MaxBytes int
	// Fix makes a freshly generated value valid where validity cannot be seen from the Go type
	// (multiproof sets must carry mutually consistent Merkle proofs, outline entries hold one transaction at most).
	Fix func(r *rand.Rand, ptr any)
}

// New returns a pointer to a zero value of the type.
func (t *WireType) New() any { return reflect.New(t.GoType).Interface() }

// SafeEncode runs Encode and reports a panic of the encoder instead of propagating it.
func (t *WireType) SafeEncode(ptr any) (b []byte, panicked any) {
	p, val := vlib.Recover(func() { b = t.Encode(ptr) })
	if p {
		return nil, val
	}
	return b, nil
}

// SafeDecode runs Decode and reports a panic of the decoder instead of propagating it.
func (t *WireType) SafeDecode(b []byte) (ptr any, left int, err error, panicked any) {
	p, val := vlib.Recover(func() { ptr, left, err = t.Decode(b) })
	if p {
		return nil, 0, nil, val
	}
	return
}

// SafeDecodeN runs DecodeN and reports a panic of the decoder instead of propagating it.
func (t *WireType) SafeDecodeN(b []byte, limit int64) (ptr any, left int, err error, panicked any) {
	p, val := vlib.Recover(func() { ptr, left, err = t.DecodeN(b, limit) })
	if p {
		return nil, 0, nil, val
	}
	return
}

func encodeWith(fn func(e *types.Encoder)) []byte {
	var buf bytes.Buffer
	e := types.NewEncoder(&buf)
	fn(e)
	e.Flush()
	return buf.Bytes()
}

func decodeWith(b []byte, fn func(d *types.Decoder)) (left int, err error) {
	return decodeWithN(b, int64(len(b)), fn)
}

// decodeWithN decodes from a reader holding all of b through a decoder that may consume at most limit bytes.
func decodeWithN(b []byte, limit int64, fn func(d *types.Decoder)) (left int, err error) {
	r := bytes.NewReader(b)
	d := types.NewDecoder(io.LimitedReader{R: r, N: limit})
	fn(d)
	return r.Len(), d.Err()
}

// std registers a type with exported EncodeTo / DecodeFrom methods.
func std[T any, P interface {
	*T
	types.EncoderTo
	types.DecoderFrom
}](pkg, name string) *WireType {
	return &WireType{Pkg: pkg, Name: name, GoType: reflect.TypeOf((*T)(nil)).Elem(),
		Encode: func(ptr any) []byte { return encodeWith(P(ptr.(*T)).EncodeTo) },
		Decode: func(b []byte) (any, int, error) {
			v := new(T)
			left, err := decodeWith(b, P(v).DecodeFrom)
			return v, left, err
		},
		DecodeN: func(b []byte, limit int64) (any, int, error) {
			v := new(T)
			left, err := decodeWithN(b, limit, P(v).DecodeFrom)
			return v, left, err
		}}
}

// fn registers a type whose codec is a pair of unexported methods (reached by linkname).
func fn[T any](pkg, name string, enc func(*T, *types.Encoder), dec func(*T, *types.Decoder)) *WireType {
	return &WireType{Pkg: pkg, Name: name, GoType: reflect.TypeOf((*T)(nil)).Elem(),
		Encode: func(ptr any) []byte { return encodeWith(func(e *types.Encoder) { enc(ptr.(*T), e) }) },
		Decode: func(b []byte) (any, int, error) {
			v := new(T)
			left, err := decodeWith(b, func(d *types.Decoder) { dec(v, d) })
			return v, left, err
		},
		DecodeN: func(b []byte, limit int64) (any, int, error) {
			v := new(T)
			left, err := decodeWithN(b, limit, func(d *types.Decoder) { dec(v, d) })
			return v, left, err
		}}
}

// obj4 registers an RHP4 object: it is encoded and decoded through the exported response framing
// (one leading byte 0 = "not an error", then the object), which is stripped / added here.
func obj4[T any, P interface {
	*T
	rhp4.Object
}](name string) *WireType {
	return &WireType{Pkg: "rhp4", Name: "rhp4_" + name, GoType: reflect.TypeOf((*T)(nil)).Elem(), MaxBytes: 10 << 10,
		Encode: func(ptr any) []byte {
			var buf bytes.Buffer
			if err := rhp4.WriteResponse(&buf, P(ptr.(*T))); err != nil {
				panic(err)
			}
			b := buf.Bytes()
			if len(b) == 0 || b[0] != 0 {
				panic(fmt.Sprintf("rhp4.WriteResponse(%T) did not start with the not-an-error byte", ptr))
			}
			return b[1:]
		},
		Decode: func(b []byte) (any, int, error) {
			v := new(T)
			r := bytes.NewReader(append([]byte{0}, b...))
			err := rhp4.ReadResponse(r, P(v))
			return v, r.Len(), err
		},
		DecodeN: func(b []byte, limit int64) (any, int, error) {
			v := new(T)
			left, err := decodeWithN(b, limit, func(d *types.Decoder) { rhp4.VerifDecode(P(v), d) })
			return v, left, err
		}}
}

// gateway: the codecs are unexported methods. RPC objects and the block outline are reached through the export
// shim gateway/verif_export.go (build tag verif); the handshake header has no shim and is reached by name.

//go:linkname gwHeaderEnc go.sia.tech/core/gateway.(*Header).encodeTo
func gwHeaderEnc(*gateway.Header, *types.Encoder)

//go:linkname gwHeaderDec go.sia.tech/core/gateway.(*Header).decodeFrom
func gwHeaderDec(*gateway.Header, *types.Decoder)

// gwHalf registers the request or the response half of a gateway RPC object (export shim gateway/verif_export.go).
func gwHalf[T any, P interface {
	*T
	gateway.Object
}](name string, request bool) *WireType {
	enc, dec := gateway.VerifEncodeResponse, gateway.VerifDecodeResponse
	if request {
		enc, dec = gateway.VerifEncodeRequest, gateway.VerifDecodeRequest
	}
	return fn("gateway", name, func(v *T, e *types.Encoder) { enc(P(v), e) }, func(v *T, d *types.Decoder) { dec(P(v), d) })
}

func rhp4Error() *WireType {
	return &WireType{Pkg: "rhp4", Name: "rhp4_RPCError", GoType: reflect.TypeOf(rhp4.RPCError{}), MaxBytes: 1024,
		Encode: func(ptr any) []byte {
			var buf bytes.Buffer
			if err := rhp4.WriteResponse(&buf, ptr.(*rhp4.RPCError)); err != nil {
				panic(err)
			}
			b := buf.Bytes()
			if len(b) == 0 || b[0] != 1 {
				panic("rhp4.WriteResponse(*RPCError) did not start with the error byte")
			}
			return b[1:]
		},
		Decode: func(b []byte) (any, int, error) {
			r := bytes.NewReader(append([]byte{1}, b...))
			err := rhp4.ReadResponse(r, new(rhp4.RPCSettingsRequest))
			var re *rhp4.RPCError
			if errors.As(err, &re) {
				return re, r.Len(), nil
			}
			if err == nil {
				err = errors.New("an error response was read as a success")
			}
			return new(rhp4.RPCError), r.Len(), err
		},
		DecodeN: func(b []byte, limit int64) (any, int, error) {
			v := new(rhp4.RPCError)
			left, err := decodeWithN(b, limit, func(d *types.Decoder) { rhp4.VerifDecode(v, d) })
			return v, left, err
		}}
}

var registry []*WireType

// Types returns every registered wire type, in a fixed order.
func Types() []*WireType {
	if registry != nil {
		return registry
	}
	t := func(w *WireType) { registry = append(registry, w) }
	// ---- types
	t(std[types.Hash256]("types", "Hash256"))
	t(std[types.BlockID]("types", "BlockID"))
	t(std[types.TransactionID]("types", "TransactionID"))
	t(std[types.Address]("types", "Address"))
	t(std[types.PublicKey]("types", "PublicKey"))
	t(std[types.SiacoinOutputID]("types", "SiacoinOutputID"))
	t(std[types.SiafundOutputID]("types", "SiafundOutputID"))
	t(std[types.FileContractID]("types", "FileContractID"))
	t(std[types.AttestationID]("types", "AttestationID"))
	t(std[types.Signature]("types", "Signature"))
	t(std[types.Specifier]("types", "Specifier"))
	t(std[types.V1Currency]("types", "V1Currency"))
	t(std[types.V2Currency]("types", "V2Currency"))
	t(std[types.ChainIndex]("types", "ChainIndex"))
	t(std[types.UnlockKey]("types", "UnlockKey"))
	t(std[types.UnlockConditions]("types", "UnlockConditions"))
	t(std[types.V1SiacoinOutput]("types", "V1SiacoinOutput"))
	t(std[types.V2SiacoinOutput]("types", "V2SiacoinOutput"))
	t(std[types.V1SiafundOutput]("types", "V1SiafundOutput"))
	t(std[types.V2SiafundOutput]("types", "V2SiafundOutput"))
	t(std[types.SiacoinInput]("types", "SiacoinInput"))
	t(std[types.SiafundInput]("types", "SiafundInput"))
	t(std[types.FileContract]("types", "FileContract"))
	t(std[types.FileContractRevision]("types", "FileContractRevision"))
	t(std[types.StorageProof]("types", "StorageProof"))
	t(std[types.FoundationAddressUpdate]("types", "FoundationAddressUpdate"))
	t(std[types.CoveredFields]("types", "CoveredFields"))
	t(std[types.TransactionSignature]("types", "TransactionSignature"))
	t(std[types.Transaction]("types", "Transaction"))
	t(std[types.SpendPolicy]("types", "SpendPolicy"))
	t(std[types.SatisfiedPolicy]("types", "SatisfiedPolicy"))
	t(std[types.StateElement]("types", "StateElement"))
	t(std[types.ChainIndexElement]("types", "ChainIndexElement"))
	t(std[types.SiacoinElement]("types", "SiacoinElement"))
	t(std[types.SiafundElement]("types", "SiafundElement"))
	t(std[types.FileContractElement]("types", "FileContractElement"))
	t(std[types.V2FileContractElement]("types", "V2FileContractElement"))
	t(std[types.V2FileContract]("types", "V2FileContract"))
	t(std[types.V2SiacoinInput]("types", "V2SiacoinInput"))
	t(std[types.V2SiafundInput]("types", "V2SiafundInput"))
	t(std[types.V2FileContractRevision]("types", "V2FileContractRevision"))
	t(std[types.V2FileContractRenewal]("types", "V2FileContractRenewal"))
	t(std[types.V2StorageProof]("types", "V2StorageProof"))
	t(std[types.V2FileContractExpiration]("types", "V2FileContractExpiration"))
	t(std[types.V2FileContractResolution]("types", "V2FileContractResolution"))
	t(std[types.Attestation]("types", "Attestation"))
	t(std[types.V2Transaction]("types", "V2Transaction"))
	t(std[types.V2TransactionsMultiproof]("types", "V2TransactionsMultiproof"))
	t(std[types.V2BlockData]("types", "V2BlockData"))
	t(std[types.BlockHeader]("types", "BlockHeader"))
	t(std[types.V1Block]("types", "V1Block"))
	t(std[types.V2Block]("types", "V2Block"))
	// ---- consensus
	t(std[consensus.Work]("consensus", "consensus_Work"))
	t(std[consensus.ElementAccumulator]("consensus", "consensus_ElementAccumulator"))
	t(std[consensus.State]("consensus", "consensus_State"))
	t(std[consensus.V1StorageProofSupplement]("consensus", "consensus_V1StorageProofSupplement"))
	t(std[consensus.V1TransactionSupplement]("consensus", "consensus_V1TransactionSupplement"))
	t(std[consensus.V1BlockSupplement]("consensus", "consensus_V1BlockSupplement"))
	// ---- gateway
	t(fn("gateway", "gateway_Header", gwHeaderEnc, gwHeaderDec))
	t(fn("gateway", "gateway_V2BlockOutline", gateway.VerifEncodeOutline, gateway.VerifDecodeOutline))
	t(gwHalf[gateway.RPCShareNodes]("gateway_RPCShareNodes_Response", false))
	t(gwHalf[gateway.RPCDiscoverIP]("gateway_RPCDiscoverIP_Response", false))
	t(gwHalf[gateway.RPCSendHeaders]("gateway_RPCSendHeaders_Request", true))
	t(gwHalf[gateway.RPCSendHeaders]("gateway_RPCSendHeaders_Response", false))
	t(gwHalf[gateway.RPCSendV2Blocks]("gateway_RPCSendV2Blocks_Request", true))
	t(gwHalf[gateway.RPCSendV2Blocks]("gateway_RPCSendV2Blocks_Response", false))
	t(gwHalf[gateway.RPCSendTransactions]("gateway_RPCSendTransactions_Request", true))
	t(gwHalf[gateway.RPCSendTransactions]("gateway_RPCSendTransactions_Response", false))
	t(gwHalf[gateway.RPCSendCheckpoint]("gateway_RPCSendCheckpoint_Request", true))
	t(gwHalf[gateway.RPCSendCheckpoint]("gateway_RPCSendCheckpoint_Response", false))
	t(gwHalf[gateway.RPCRelayV2Header]("gateway_RPCRelayV2Header_Request", true))
	t(gwHalf[gateway.RPCRelayV2BlockOutline]("gateway_RPCRelayV2BlockOutline_Request", true))
	t(gwHalf[gateway.RPCRelayV2TransactionSet]("gateway_RPCRelayV2TransactionSet_Request", true))
	// ---- rhp/v4
	t(std[rhp4.Account]("rhp4", "rhp4_Account"))
	t(std[rhp4.AccountDeposit]("rhp4", "rhp4_AccountDeposit"))
	t(std[rhp4.HostPrices]("rhp4", "rhp4_HostPrices"))
	t(std[rhp4.HostSettings]("rhp4", "rhp4_HostSettings"))
	t(std[rhp4.PoolAttachment]("rhp4", "rhp4_PoolAttachment"))
	t(std[rhp4.PoolDetachment]("rhp4", "rhp4_PoolDetachment"))
	t(rhp4Error())
	t(obj4[rhp4.RPCSettingsRequest]("RPCSettingsRequest"))
	t(obj4[rhp4.RPCSettingsResponse]("RPCSettingsResponse"))
	t(obj4[rhp4.RPCFormContractRequest]("RPCFormContractRequest"))
	t(obj4[rhp4.RPCFormContractResponse]("RPCFormContractResponse"))
	t(obj4[rhp4.RPCFormContractSecondResponse]("RPCFormContractSecondResponse"))
	t(obj4[rhp4.RPCFormContractThirdResponse]("RPCFormContractThirdResponse"))
	t(obj4[rhp4.RPCRenewContractRequest]("RPCRenewContractRequest"))
	t(obj4[rhp4.RPCRenewContractResponse]("RPCRenewContractResponse"))
	t(obj4[rhp4.RPCRenewContractSecondResponse]("RPCRenewContractSecondResponse"))
	t(obj4[rhp4.RPCRenewContractThirdResponse]("RPCRenewContractThirdResponse"))
	t(obj4[rhp4.RPCRefreshContractRequest]("RPCRefreshContractRequest"))
	t(obj4[rhp4.RPCRefreshContractResponse]("RPCRefreshContractResponse"))
	t(obj4[rhp4.RPCRefreshContractSecondResponse]("RPCRefreshContractSecondResponse"))
	t(obj4[rhp4.RPCRefreshContractThirdResponse]("RPCRefreshContractThirdResponse"))
	t(obj4[rhp4.RPCFreeSectorsRequest]("RPCFreeSectorsRequest"))
	t(obj4[rhp4.RPCFreeSectorsResponse]("RPCFreeSectorsResponse"))
	t(obj4[rhp4.RPCFreeSectorsSecondResponse]("RPCFreeSectorsSecondResponse"))
	t(obj4[rhp4.RPCFreeSectorsThirdResponse]("RPCFreeSectorsThirdResponse"))
	t(obj4[rhp4.RPCAppendSectorsRequest]("RPCAppendSectorsRequest"))
	t(obj4[rhp4.RPCAppendSectorsResponse]("RPCAppendSectorsResponse"))
	t(obj4[rhp4.RPCAppendSectorsSecondResponse]("RPCAppendSectorsSecondResponse"))
	t(obj4[rhp4.RPCAppendSectorsThirdResponse]("RPCAppendSectorsThirdResponse"))
	t(obj4[rhp4.RPCLatestRevisionRequest]("RPCLatestRevisionRequest"))
	t(obj4[rhp4.RPCLatestRevisionResponse]("RPCLatestRevisionResponse"))
	t(obj4[rhp4.RPCReadSectorRequest]("RPCReadSectorRequest"))
	t(obj4[rhp4.RPCReadSectorResponse]("RPCReadSectorResponse"))
	t(obj4[rhp4.RPCWriteSectorRequest]("RPCWriteSectorRequest"))
	t(obj4[rhp4.RPCWriteSectorResponse]("RPCWriteSectorResponse"))
	t(obj4[rhp4.RPCSectorRootsRequest]("RPCSectorRootsRequest"))
	t(obj4[rhp4.RPCSectorRootsResponse]("RPCSectorRootsResponse"))
	t(obj4[rhp4.RPCAccountBalanceRequest]("RPCAccountBalanceRequest"))
	t(obj4[rhp4.RPCAccountBalanceResponse]("RPCAccountBalanceResponse"))
	t(obj4[rhp4.RPCReplenishAccountsRequest]("RPCReplenishAccountsRequest"))
	t(obj4[rhp4.RPCReplenishAccountsResponse]("RPCReplenishAccountsResponse"))
	t(obj4[rhp4.RPCReplenishAccountsSecondResponse]("RPCReplenishAccountsSecondResponse"))
	t(obj4[rhp4.RPCReplenishAccountsThirdResponse]("RPCReplenishAccountsThirdResponse"))
	t(obj4[rhp4.RPCFundAccountsRequest]("RPCFundAccountsRequest"))
	t(obj4[rhp4.RPCFundAccountsResponse]("RPCFundAccountsResponse"))
	t(obj4[rhp4.RPCAttachPoolsRequest]("RPCAttachPoolsRequest"))
	t(obj4[rhp4.RPCAttachPoolsResponse]("RPCAttachPoolsResponse"))
	t(obj4[rhp4.RPCDetachPoolsRequest]("RPCDetachPoolsRequest"))
	t(obj4[rhp4.RPCDetachPoolsResponse]("RPCDetachPoolsResponse"))
	t(obj4[rhp4.RPCVerifySectorRequest]("RPCVerifySectorRequest"))
	t(obj4[rhp4.RPCVerifySectorResponse]("RPCVerifySectorResponse"))
	registerRHP23(t)
	for _, w := range registry {
		w.Fix = FixValue
	}
	return registry
}

// TypeByName returns the registered wire type with the given schema name.
func TypeByName(name string) *WireType {
	for _, w := range Types() {
		if w.Name == name {
			return w
		}
	}
	return nil
}

var _ = rhp2.Challenge{}
var _ = rhp3.Account{}
