package wirebridge

import (
	"fmt"
	"reflect"

	"go.sia.tech/core/gateway"
	rhp3 "go.sia.tech/core/rhp/v3"
	"go.sia.tech/core/types"
)

// CheckDecodedDefaults verifies, on a value produced by a real decoder, the documented contents of the
// members that are not on the wire: a v1 revision's payout is the 2^128-1 sentinel, the pre-1.5.7 registry
// instructions get version 1 / the arbitrary entry type, an outline entry carrying a transaction carries
// that transaction's hash. It returns a description of the first deviation ("" if none).
func CheckDecodedDefaults(ptr any) (what string) {
	var walk func(v reflect.Value)
	walk = func(v reflect.Value) {
		if what != "" {
			return
		}
		switch v.Kind() {
		case reflect.Struct:
			if isTime(v.Type()) {
				return
			}
			if v.CanAddr() && v.CanInterface() {
				switch x := v.Addr().Interface().(type) {
				case *types.FileContractRevision:
					if x.FileContract.Payout != types.MaxCurrency {
						what = fmt.Sprintf("a decoded v1 revision has payout %v, not the 2^128-1 sentinel", x.FileContract.Payout)
					}
				case *rhp3.InstrReadRegistryNoVersion:
					if x.Version != 1 {
						what = fmt.Sprintf("a decoded version-less registry read has version %d, not 1", x.Version)
					}
				case *rhp3.InstrUpdateRegistryNoType:
					if x.EntryType != rhp3.EntryTypeArbitrary {
						what = fmt.Sprintf("a decoded type-less registry update has entry type %d, not arbitrary", x.EntryType)
					}
				case *gateway.OutlineTransaction:
					if x.Transaction != nil && x.Hash != x.Transaction.MerkleLeafHash() {
						what = "a decoded outline entry does not carry the hash of its v1 transaction"
					}
					if x.V2Transaction != nil && x.Hash != x.V2Transaction.MerkleLeafHash() {
						what = "a decoded outline entry does not carry the hash of its v2 transaction"
					}
				}
			}
			for i := 0; i < v.NumField(); i++ {
				if v.Type().Field(i).IsExported() {
					walk(v.Field(i))
				}
			}
		case reflect.Slice, reflect.Array:
			if k := v.Type().Elem().Kind(); k == reflect.Uint8 || k == reflect.Uint64 || k == reflect.Bool {
				return
			}
			for i := 0; i < v.Len(); i++ {
				walk(v.Index(i))
			}
		case reflect.Ptr, reflect.Interface:
			if !v.IsNil() {
				walk(v.Elem())
			}
		}
	}
	walk(reflect.ValueOf(ptr))
	return
}

// LeafByPath returns the index (for MutateLeaf) of the leaf with the given path, or -1.
func LeafByPath(leaves []Leaf, path string) int {
	for i, l := range leaves {
		if l.Path == path {
			return i
		}
	}
	return -1
}
