package wirebridge

import (
	"encoding/json"
	"fmt"
	"sort"
	"strings"

	"verif/harness/vlib"
)

// A Codec is one node of a schema line (see spec/wire/WireCodec.tla).
type Codec struct {
	K    string    // kind: u8 u64 time bool fixed lfixed bytes str curv1 curv2 curv1u64 slice slicen opt ref struct union tframed const nt bitmap timestamps masked raw multiproof outline account3 errstr
	N    int       // fixed: length
	E    *Codec    // slice, slicen, opt, masked, multiproof: element codec
	Name string    // ref: schema name
	Fs   []Field   // struct, bitmap: members in wire order
	Vs   []Variant // union
	Bs   []int     // const: the bytes
	Why  string    // nt: why the member is not transmitted
	Ctl  []string  // timestamps, masked: path of the controlling member
	T1   *Codec    // outline: v1 transaction codec
	T2   *Codec    // outline: v2 transaction codec
}

// A Field is a member of a struct (or bitmap) codec.
type Field struct {
	Name string
	C    *Codec
	Rule string // bitmap members: nonempty | some | nonzero
}

// A Variant is one alternative of a union codec.
type Variant struct {
	Name string
	Tag  int
	C    *Codec
}

// Schema maps schema names to their lines.
type Schema map[string]*Codec

type rawCodec struct {
	K    string            `json:"k"`
	N    int               `json:"n"`
	E    json.RawMessage   `json:"e"`
	Name string            `json:"name"`
	Fs   []json.RawMessage `json:"fs"`
	Vs   []json.RawMessage `json:"vs"`
	Bs   []int             `json:"bs"`
	Why  string            `json:"why"`
	Ctl  []string          `json:"ctl"`
	T1   json.RawMessage   `json:"t1"`
	T2   json.RawMessage   `json:"t2"`
}

func parseCodec(b json.RawMessage) (*Codec, error) {
	var r rawCodec
	if err := json.Unmarshal(b, &r); err != nil {
		return nil, fmt.Errorf("codec %s: %w", string(b), err)
	}
	c := &Codec{K: r.K, N: r.N, Name: r.Name, Bs: r.Bs, Why: r.Why, Ctl: r.Ctl}
	var err error
	sub := func(m json.RawMessage) *Codec {
		if len(m) == 0 || err != nil {
			return nil
		}
		var x *Codec
		x, err = parseCodec(m)
		return x
	}
	c.E, c.T1, c.T2 = sub(r.E), sub(r.T1), sub(r.T2)
	for _, f := range r.Fs {
		var parts []json.RawMessage
		if e := json.Unmarshal(f, &parts); e != nil || len(parts) < 2 {
			return nil, fmt.Errorf("bad struct member %s", string(f))
		}
		var fl Field
		json.Unmarshal(parts[0], &fl.Name)
		fl.C = sub(parts[1])
		if len(parts) > 2 {
			json.Unmarshal(parts[2], &fl.Rule)
		}
		c.Fs = append(c.Fs, fl)
	}
	for _, v := range r.Vs {
		var parts []json.RawMessage
		if e := json.Unmarshal(v, &parts); e != nil || len(parts) != 3 {
			return nil, fmt.Errorf("bad union variant %s", string(v))
		}
		var vr Variant
		json.Unmarshal(parts[0], &vr.Name)
		json.Unmarshal(parts[1], &vr.Tag) // a byte-string tag (tframed) is not needed on the Go side
		vr.C = sub(parts[2])
		c.Vs = append(c.Vs, vr)
	}
	if err != nil {
		return nil, err
	}
	switch c.K {
	case "u8", "u64", "time", "bool", "fixed", "lfixed", "bytes", "str", "curv1", "curv2", "curv1u64", "slice", "slicen", "opt", "ref",
		"struct", "union", "const", "nt", "bitmap", "timestamps", "masked", "multiproof", "outline", "account3", "tframed", "errstr", "raw":
	default:
		return nil, fmt.Errorf("unknown codec kind %q", c.K)
	}
	return c, nil
}

// ParseSchema parses the JSON text TLC prints for Wire!Schema.
func ParseSchema(js []byte) (Schema, error) {
	var raw map[string]json.RawMessage
	if err := json.Unmarshal(js, &raw); err != nil {
		return nil, err
	}
	s := Schema{}
	for name, m := range raw {
		c, err := parseCodec(m)
		if err != nil {
			return nil, fmt.Errorf("%s: %w", name, err)
		}
		s[name] = c
	}
	// every reference must resolve
	var check func(c *Codec) error
	check = func(c *Codec) error {
		if c == nil {
			return nil
		}
		if c.K == "ref" {
			if _, ok := s[c.Name]; !ok {
				return fmt.Errorf("dangling reference %q", c.Name)
			}
		}
		for _, x := range []*Codec{c.E, c.T1, c.T2} {
			if err := check(x); err != nil {
				return err
			}
		}
		for _, f := range c.Fs {
			if err := check(f.C); err != nil {
				return err
			}
		}
		for _, v := range c.Vs {
			if err := check(v.C); err != nil {
				return err
			}
		}
		return nil
	}
	for name, c := range s {
		if err := check(c); err != nil {
			return nil, fmt.Errorf("%s: %w", name, err)
		}
	}
	return s, nil
}

// LoadSchema runs TLC on spec/wire/WireDump and returns the schema it interprets.
// Any failure is an infrastructure failure of the calling check (exit 2).
func LoadSchema(c *vlib.Ctx) Schema {
	res := c.MustTLC(vlib.TLCOpts{SpecDirs: []string{"wire"}, Module: "WireDump", Config: "WireDump.cfg", Workers: 1, NoCount: true})
	for _, ln := range res.Lines {
		if strings.HasPrefix(ln, "SCHEMA ") {
			s, err := ParseSchema([]byte(vlib.UnquoteTLA(strings.TrimPrefix(ln, "SCHEMA "))))
			if err != nil {
				c.Fatal("wire schema does not parse: %v", err)
			}
			return s
		}
	}
	c.Fatal("WireDump printed no schema: %s", vlib.Tail(res.Out, 600))
	return nil
}

// Resolve follows references.
func (s Schema) Resolve(c *Codec) *Codec {
	for c != nil && c.K == "ref" {
		c = s[c.Name]
	}
	return c
}

// Names returns the schema names in sorted order.
func (s Schema) Names() []string {
	var out []string
	for n := range s {
		out = append(out, n)
	}
	sort.Strings(out)
	return out
}

// A NotTransmitted entry documents one member that the schema marks as not on the wire.
type NotTransmitted struct{ Type, Member, Why string }

// NotTransmittedMembers lists every member marked NT in the schema.
func (s Schema) NotTransmittedMembers() []NotTransmitted {
	var out []NotTransmitted
	var walk func(typ, path string, c *Codec)
	walk = func(typ, path string, c *Codec) {
		if c == nil {
			return
		}
		switch c.K {
		case "struct", "bitmap":
			for _, f := range c.Fs {
				p := f.Name
				if path != "" {
					p = path + "." + f.Name
				}
				if f.C.K == "nt" {
					out = append(out, NotTransmitted{typ, p, f.C.Why})
				} else {
					walk(typ, p, f.C)
				}
			}
		case "union":
			for _, v := range c.Vs {
				walk(typ, path+"<"+v.Name+">", v.C)
			}
		case "slice", "slicen", "opt", "masked":
			walk(typ, path+"[]", c.E)
		}
	}
	for _, n := range s.Names() {
		walk(n, "", s[n])
	}
	return out
}

// Kinds returns the set of codec kinds reachable from a line (following references).
func (s Schema) Kinds(name string) map[string]bool {
	seen := map[string]bool{}
	kinds := map[string]bool{}
	var walk func(c *Codec)
	walk = func(c *Codec) {
		if c == nil {
			return
		}
		kinds[c.K] = true
		if c.K == "ref" {
			if !seen[c.Name] {
				seen[c.Name] = true
				walk(s[c.Name])
			}
			return
		}
		walk(c.E)
		walk(c.T1)
		walk(c.T2)
		for _, f := range c.Fs {
			walk(f.C)
		}
		for _, v := range c.Vs {
			walk(v.C)
		}
	}
	walk(s[name])
	return kinds
}
