package wirebridge

import (
	"errors"
	"fmt"
	"math"
	"math/rand"
	"reflect"
	"sort"
	"sync"
	"time"
	"unsafe"

	rhp3 "go.sia.tech/core/rhp/v3"
	"go.sia.tech/core/types"
)

// Mode selects the shape of a generated value.
type Mode int

const (
	// Random draws every member independently: boundary scalars, nil / empty / short / occasionally long
	// collections, absent and present pointers, every variant of every interface.
	Random Mode = iota
	// Zero is the zero value (nil collections, nil pointers; interfaces get their first variant).
	Zero
	// Max sets every scalar to its maximum, every byte to 0xff, makes every pointer present and every collection non-empty.
	Max
	// Empty is the zero value with every collection empty but non-nil and every pointer present.
	Empty
)

var (
	timeType     = reflect.TypeOf(time.Time{})
	currencyType = reflect.TypeOf(types.Currency{})
	policyType   = reflect.TypeOf(types.SpendPolicy{})
	errorType    = reflect.TypeOf((*error)(nil)).Elem()
)

// Variants maps an interface type to the concrete types a valid value may hold.
var Variants = map[reflect.Type][]reflect.Type{
	reflect.TypeOf((*types.V2FileContractResolutionType)(nil)).Elem(): {
		reflect.TypeOf(&types.V2FileContractRenewal{}), reflect.TypeOf(&types.V2StorageProof{}), reflect.TypeOf(&types.V2FileContractExpiration{}),
	},
	policyType.Field(0).Type: {
		reflect.TypeOf(types.PolicyTypeAbove(0)), reflect.TypeOf(types.PolicyTypeAfter{}), reflect.TypeOf(types.PolicyTypePublicKey{}),
		reflect.TypeOf(types.PolicyTypeHash{}), reflect.TypeOf(types.PolicyTypeThreshold{}), reflect.TypeOf(types.PolicyTypeOpaque{}),
		reflect.TypeOf(types.PolicyTypeUnlockConditions{}),
	},
	reflect.TypeOf((*rhp3.Instruction)(nil)).Elem(): {
		reflect.TypeOf(&rhp3.InstrAppendSector{}), reflect.TypeOf(&rhp3.InstrAppendSectorRoot{}), reflect.TypeOf(&rhp3.InstrDropSectors{}),
		reflect.TypeOf(&rhp3.InstrHasSector{}), reflect.TypeOf(&rhp3.InstrReadOffset{}), reflect.TypeOf(&rhp3.InstrReadSector{}),
		reflect.TypeOf(&rhp3.InstrSwapSector{}), reflect.TypeOf(&rhp3.InstrUpdateSector{}), reflect.TypeOf(&rhp3.InstrStoreSector{}),
		reflect.TypeOf(&rhp3.InstrRevision{}), reflect.TypeOf(&rhp3.InstrReadRegistry{}), reflect.TypeOf(&rhp3.InstrReadRegistryNoVersion{}),
		reflect.TypeOf(&rhp3.InstrUpdateRegistry{}), reflect.TypeOf(&rhp3.InstrUpdateRegistryNoType{}),
	},
}

// NilPointers lists pointer-typed struct members that are configuration, not content: they are left nil.
var NilPointers = map[string]bool{"consensus.State.Network": true}

// A Gen generates Go values by reflection from a seeded source.
type Gen struct {
	R *rand.Rand
	// MaxDepth bounds nesting of collections (slices below it are empty); default 7.
	MaxDepth int
	// Budget is the approximate number of collection elements one value may contain; default 24.
	Budget int
	left   int
	force  int // > 0: the next interface value gets variant force-1
}

// NewGen returns a generator with the default bounds.
func NewGen(r *rand.Rand) *Gen { return &Gen{R: r, MaxDepth: 7, Budget: 24} }

// Settable returns a settable view of v, even for an unexported struct member (v must be addressable).
func Settable(v reflect.Value) reflect.Value {
	if v.CanSet() || !v.CanAddr() {
		return v
	}
	return reflect.NewAt(v.Type(), unsafe.Pointer(v.UnsafeAddr())).Elem()
}

// New returns a pointer to a fresh value of type t generated in the given mode.
func (g *Gen) New(t reflect.Type, m Mode) reflect.Value {
	p := reflect.New(t)
	g.left = g.Budget
	g.Fill(p.Elem(), m, 0, t.String())
	return p
}

// Uint64 draws a 64-bit number with boundary values and every magnitude.
func (g *Gen) Uint64() uint64 {
	switch g.R.Intn(10) {
	case 0:
		return 0
	case 1:
		return 1
	case 2:
		return math.MaxUint64
	case 3:
		return math.MaxUint64 - uint64(g.R.Intn(3))
	case 4:
		return 1 << uint(g.R.Intn(64))
	case 5:
		return uint64(g.R.Intn(12))
	default:
		return g.R.Uint64() >> uint(g.R.Intn(64))
	}
}

func (g *Gen) currency() types.Currency {
	switch g.R.Intn(8) {
	case 0:
		return types.ZeroCurrency
	case 1:
		return types.MaxCurrency
	case 2:
		return types.NewCurrency(0, 1) // 2^64
	case 3:
		return types.NewCurrency64(g.Uint64())
	case 4:
		return types.NewCurrency(math.MaxUint64, 0)
	default:
		return types.NewCurrency(g.Uint64(), g.Uint64())
	}
}

func (g *Gen) time() time.Time {
	var sec int64
	switch g.R.Intn(8) {
	case 0:
		sec = 0
	case 1:
		sec = g.R.Int63n(1 << 32)
	case 2:
		sec = -g.R.Int63n(1 << 32) // before the epoch: transmitted modulo 2^64
	case 3:
		sec = int64(g.Uint64())
	default:
		sec = 1600000000 + g.R.Int63n(400000000)
	}
	nsec := int64(0)
	if g.R.Intn(3) == 0 {
		nsec = g.R.Int63n(1e9) // the sub-second part is not transmitted
	}
	t := time.Unix(sec, nsec)
	if g.R.Intn(3) == 0 {
		t = t.UTC()
	}
	return t
}

func (g *Gen) sliceLen(depth int, elem reflect.Type) (n int, null bool) {
	if depth >= g.MaxDepth || g.left <= 0 {
		return 0, g.R.Intn(2) == 0
	}
	switch k := g.R.Intn(12); {
	case k < 2:
		return 0, true
	case k < 4:
		return 0, false
	case k < 7:
		n = 1
	case k < 10:
		n = 2
	case k == 10:
		n = 3 + g.R.Intn(3)
	default:
		n = 1
		if elem.Kind() == reflect.Uint8 {
			// long byte strings cross the decoder's 64-byte and the encoder's 1024-byte buffers
			n = []int{63, 64, 65, 300, 1023, 1024, 1025, 1500}[g.R.Intn(8)]
			return n, false
		}
	}
	if elem.Kind() == reflect.Uint8 {
		n = 1 + g.R.Intn(40)
	} else {
		if n > g.left {
			n = g.left
		}
		g.left -= n
	}
	return n, false
}

// Fill sets v (addressable) to a generated value. path names the member for NilPointers.
func (g *Gen) Fill(v reflect.Value, m Mode, depth int, path string) {
	v = Settable(v)
	t := v.Type()
	if t.Kind() == reflect.Struct && t.ConvertibleTo(timeType) && t.NumField() == timeType.NumField() {
		var x time.Time
		switch m {
		case Random:
			x = g.time()
		case Max:
			x = time.Unix(math.MaxInt64, 999999999)
		default:
			x = time.Unix(0, 0)
		}
		v.Set(reflect.ValueOf(x).Convert(t))
		return
	}
	if t.Kind() == reflect.Struct && t.ConvertibleTo(currencyType) {
		var x types.Currency
		switch m {
		case Random:
			x = g.currency()
		case Max:
			x = types.MaxCurrency
		}
		v.Set(reflect.ValueOf(x).Convert(t))
		return
	}
	switch t.Kind() {
	case reflect.Bool:
		v.SetBool(m == Max || (m == Random && g.R.Intn(2) == 0))
	case reflect.Uint8:
		switch m {
		case Random:
			v.SetUint(uint64([]int{0, 1, 2, 127, 128, 255, g.R.Intn(256), g.R.Intn(256)}[g.R.Intn(8)]))
		case Max:
			v.SetUint(255)
		default:
			v.SetUint(0)
		}
	case reflect.Uint16, reflect.Uint32, reflect.Uint64, reflect.Uint:
		var x uint64
		switch m {
		case Random:
			x = g.Uint64()
		case Max:
			x = math.MaxUint64
		}
		v.SetUint(x & (math.MaxUint64 >> (64 - uint(t.Bits()))))
	case reflect.Int16, reflect.Int32, reflect.Int64, reflect.Int:
		var x uint64
		switch m {
		case Random:
			x = g.Uint64()
		case Max:
			x = math.MaxUint64
		}
		sh := 64 - uint(t.Bits())
		v.SetInt(int64(x<<sh) >> sh)
	case reflect.String:
		switch m {
		case Random:
			n, _ := g.sliceLen(depth, reflect.TypeOf(byte(0)))
			b := make([]byte, n)
			for i := range b {
				if g.R.Intn(8) == 0 {
					b[i] = byte(g.R.Intn(256)) // any byte, not only text
				} else {
					b[i] = byte(' ' + g.R.Intn(95))
				}
			}
			v.SetString(string(b))
		case Max:
			v.SetString("\xff\xff")
		default:
			v.SetString("")
		}
	case reflect.Array:
		if t.Elem().Kind() == reflect.Uint8 {
			pat := 0
			if m == Random {
				pat = 1 + g.R.Intn(6)
			} else if m == Max {
				pat = 3
			}
			for i := 0; i < v.Len(); i++ {
				var b byte
				switch pat {
				case 0, 2:
					b = 0
				case 3:
					b = 255
				case 4:
					b = byte(i + 1) // distinct bytes expose any reordering
				default:
					b = byte(g.R.Intn(256))
				}
				v.Index(i).SetUint(uint64(b))
			}
			return
		}
		for i := 0; i < v.Len(); i++ {
			g.Fill(v.Index(i), m, depth+1, path+"[]")
		}
	case reflect.Slice:
		var n int
		null := false
		switch m {
		case Random:
			n, null = g.sliceLen(depth, t.Elem())
		case Zero:
			null = true
		case Max:
			n = 1
			if depth < 2 {
				n = 2
			}
			if depth >= g.MaxDepth {
				n = 0
			}
		}
		if null {
			v.Set(reflect.Zero(t))
			return
		}
		if m == Max && t.Elem().Kind() == reflect.Interface && len(Variants[t.Elem()]) > 0 && depth < g.MaxDepth {
			n = len(Variants[t.Elem()]) // a maximal list of variants holds every variant once
		}
		s := reflect.MakeSlice(t, n, n)
		for i := 0; i < n; i++ {
			if m == Max && t.Elem().Kind() == reflect.Interface {
				g.force = i + 1
			}
			g.Fill(s.Index(i), m, depth+1, path+"[]")
		}
		v.Set(s)
	case reflect.Ptr:
		if NilPointers[path] || m == Zero || (m == Random && g.R.Intn(2) == 0) || depth >= g.MaxDepth {
			v.Set(reflect.Zero(t))
			return
		}
		p := reflect.New(t.Elem())
		g.Fill(p.Elem(), m, depth+1, path)
		v.Set(p)
	case reflect.Interface:
		if t == errorType {
			if m == Zero || (m == Random && g.R.Intn(2) == 0) {
				v.Set(reflect.Zero(t))
			} else {
				v.Set(reflect.ValueOf(errors.New([]string{"e", "host error", "out of funds: \x00\xff"}[g.R.Intn(3)])))
			}
			return
		}
		vs := Variants[t]
		if len(vs) == 0 {
			panic(fmt.Sprintf("wirebridge: no variants registered for interface %v (member %s)", t, path))
		}
		ct := vs[0]
		if g.force > 0 {
			ct = vs[(g.force-1)%len(vs)]
			g.force = 0
		} else if m == Random {
			ct = vs[g.R.Intn(len(vs))]
			if depth >= 4 && ct == reflect.TypeOf(types.PolicyTypeThreshold{}) {
				ct = vs[0]
			}
		} else if m == Max {
			ct = vs[len(vs)/2]
		}
		if ct.Kind() == reflect.Ptr {
			p := reflect.New(ct.Elem())
			g.Fill(p.Elem(), m, depth+1, path)
			v.Set(p)
		} else {
			p := reflect.New(ct)
			g.Fill(p.Elem(), m, depth+1, path)
			v.Set(p.Elem())
		}
	case reflect.Struct:
		for i := 0; i < t.NumField(); i++ {
			if IsHidden(t, i) {
				continue // not content: a generated value is one nothing has been done with yet
			}
			g.Fill(v.Field(i), m, depth+1, t.String()+"."+t.Field(i).Name)
		}
	default:
		panic(fmt.Sprintf("wirebridge: cannot generate %v (member %s)", t, path))
	}
}

// SchemaUnexported lists the unexported struct members that the schema names (they are content, or documented as not
// transmitted). Every other unexported member of non-zero size is HIDDEN: the protocol description does not know it
// (a cache, a memo, a lock). Hidden members are no part of an abstract value, are left zero by Gen and Fresh, and are
// recorded (HiddenMembers) when a walk meets them; Clone copies them like Go's assignment does.
var SchemaUnexported = map[string]bool{"consensus.Work.n": true, "types.StateElement.shared": true}

// IsHidden reports whether member i of struct type t is hidden (see SchemaUnexported).
func IsHidden(t reflect.Type, i int) bool {
	f := t.Field(i)
	return !f.IsExported() && f.Type.Size() > 0 && !SchemaUnexported[t.String()+"."+f.Name]
}

var (
	hiddenMu   sync.Mutex
	hiddenSeen = map[string]bool{}
)

func noteHidden(t reflect.Type, i int) {
	hiddenMu.Lock()
	hiddenSeen[t.String()+"."+t.Field(i).Name+" "+t.Field(i).Type.String()] = true
	hiddenMu.Unlock()
}

// HiddenMembers lists the hidden members met by Abstract / Leaves / MutateLeaf / Fresh so far ("type.member gotype"), sorted.
func HiddenMembers() []string {
	hiddenMu.Lock()
	defer hiddenMu.Unlock()
	var out []string
	for k := range hiddenSeen {
		out = append(out, k)
	}
	sort.Strings(out)
	return out
}

// Clone returns a deep copy of the content of the value ptr points to (as a new pointer); hidden members are copied as
// Go's assignment copies them (the member itself, not what it refers to).
func Clone(ptr reflect.Value) reflect.Value {
	out := reflect.New(ptr.Type().Elem())
	cloneInto(out.Elem(), ptr.Elem(), false)
	return out
}

// Fresh returns a deep copy of the CONTENT of the value ptr points to (as a new pointer): every hidden member is zero,
// as in a value that was just built or decoded and that nothing has been computed from yet.
func Fresh(ptr reflect.Value) reflect.Value {
	out := reflect.New(ptr.Type().Elem())
	cloneInto(out.Elem(), ptr.Elem(), true)
	return out
}

func cloneInto(dst, src reflect.Value, fresh bool) {
	dst = Settable(dst)
	switch src.Kind() {
	case reflect.Slice:
		if src.IsNil() {
			dst.Set(reflect.Zero(src.Type()))
			return
		}
		s := reflect.MakeSlice(src.Type(), src.Len(), src.Len())
		for i := 0; i < src.Len(); i++ {
			cloneInto(s.Index(i), src.Index(i), fresh)
		}
		dst.Set(s)
	case reflect.Array:
		for i := 0; i < src.Len(); i++ {
			cloneInto(dst.Index(i), src.Index(i), fresh)
		}
	case reflect.Ptr:
		if src.IsNil() {
			dst.Set(reflect.Zero(src.Type()))
			return
		}
		if src.Type().Elem().Kind() == reflect.Struct && src.Type().Elem().ConvertibleTo(timeType) {
			dst.Set(src)
			return
		}
		p := reflect.New(src.Type().Elem())
		cloneInto(p.Elem(), src.Elem(), fresh)
		dst.Set(p)
	case reflect.Interface:
		if src.IsNil() {
			dst.Set(reflect.Zero(src.Type()))
			return
		}
		e := src.Elem()
		if e.Kind() == reflect.Struct && !e.CanAddr() && e.CanInterface() {
			tmp := reflect.New(e.Type()).Elem() // a struct held by value: make its members addressable
			tmp.Set(e)
			e = tmp
		}
		p := reflect.New(e.Type())
		cloneInto(p.Elem(), e, fresh)
		dst.Set(p.Elem())
	case reflect.Struct:
		if src.Type().ConvertibleTo(timeType) && src.NumField() == timeType.NumField() {
			Settable(dst).Set(readable(src))
			return
		}
		for i := 0; i < src.NumField(); i++ {
			if IsHidden(src.Type(), i) {
				noteHidden(src.Type(), i)
				if !fresh && src.Field(i).CanAddr() {
					// as Go's assignment does: the member itself is copied, what it points to is shared (never walked:
					// it is no content, and it may point anywhere)
					Settable(dst.Field(i)).Set(readable(src.Field(i)))
				}
				continue
			}
			cloneInto(dst.Field(i), src.Field(i), fresh)
		}
	default:
		dst.Set(readable(src))
	}
}

// readable returns a view of v that may be read with Interface / Set even when it was reached through an unexported member.
func readable(v reflect.Value) reflect.Value {
	if v.CanInterface() {
		return v
	}
	if v.CanAddr() {
		return reflect.NewAt(v.Type(), unsafe.Pointer(v.UnsafeAddr())).Elem()
	}
	// copy into an addressable temporary through the kind-specific getters
	tmp := reflect.New(v.Type()).Elem()
	switch v.Kind() {
	case reflect.Bool:
		tmp.SetBool(v.Bool())
	case reflect.Uint8, reflect.Uint16, reflect.Uint32, reflect.Uint64, reflect.Uint:
		tmp.SetUint(v.Uint())
	case reflect.Int8, reflect.Int16, reflect.Int32, reflect.Int64, reflect.Int:
		tmp.SetInt(v.Int())
	case reflect.String:
		tmp.SetString(v.String())
	default:
		panic(fmt.Sprintf("wirebridge: cannot read unexported unaddressable %v", v.Type()))
	}
	return tmp
}
