package wirebridge

import (
	"math/rand"
	"reflect"
	"sort"

	"go.sia.tech/core/blake2b"
	"go.sia.tech/core/consensus"
	"go.sia.tech/core/gateway"
	rhp3 "go.sia.tech/core/rhp/v3"
	"go.sia.tech/core/types"
)

// An mpLeaf is one accumulator leaf referenced by a v2 transaction.
type mpLeaf struct {
	se   *types.StateElement
	hash func() types.Hash256 // leaf hash (depends on the element's content and leaf index)
}

// txnLeaves lists the accumulator leaves of a transaction in protocol order.
func txnLeaves(txn *types.V2Transaction) (ls []mpLeaf) {
	for i := range txn.SiacoinInputs {
		e := &txn.SiacoinInputs[i].Parent
		ls = append(ls, mpLeaf{&e.StateElement, func() types.Hash256 { return consensus.VerifSiacoinLeaf(e, false).Hash() }})
	}
	for i := range txn.SiafundInputs {
		e := &txn.SiafundInputs[i].Parent
		ls = append(ls, mpLeaf{&e.StateElement, func() types.Hash256 { return consensus.VerifSiafundLeaf(e, false).Hash() }})
	}
	for i := range txn.FileContractRevisions {
		e := &txn.FileContractRevisions[i].Parent
		ls = append(ls, mpLeaf{&e.StateElement, func() types.Hash256 { return consensus.VerifV2FileContractLeaf(e, nil, false).Hash() }})
	}
	for i := range txn.FileContractResolutions {
		e := &txn.FileContractResolutions[i].Parent
		ls = append(ls, mpLeaf{&e.StateElement, func() types.Hash256 { return consensus.VerifV2FileContractLeaf(e, nil, false).Hash() }})
		if sp, ok := txn.FileContractResolutions[i].Resolution.(*types.V2StorageProof); ok {
			ci := &sp.ProofIndex
			ls = append(ls, mpLeaf{&ci.StateElement, func() types.Hash256 { return consensus.VerifChainIndexLeaf(ci).Hash() }})
		}
	}
	return
}

// MakeConsistent rewrites the leaf indices and Merkle proofs of the elements referenced by txns so
// that they are valid proofs for one accumulator (the rest of the forest is random): the only values
// the multiproof form can carry. Some elements are made ephemeral (unassigned leaf index).
// The forest is built here from the definition (leaf hash of each element, pairwise node hashes),
// independently of types/multiproof.go.
func MakeConsistent(r *rand.Rand, txns []*types.V2Transaction) {
	var all []mpLeaf
	for _, t := range txns {
		all = append(all, txnLeaves(t)...)
	}
	// forest size
	n := uint64(1) + uint64(r.Int63n(1<<uint(1+r.Intn(20))))
	if r.Intn(4) == 0 {
		n = uint64(1) << uint(r.Intn(12)) // a single tree
	}
	used := map[uint64]bool{}
	var assigned []mpLeaf
	base := uint64(r.Int63n(int64(n)))
	for _, l := range all {
		if r.Intn(5) == 0 || uint64(len(used)) >= n {
			l.se.LeafIndex = types.UnassignedLeafIndex
			if r.Intn(2) == 0 {
				l.se.MerkleProof = nil
			}
			continue
		}
		// cluster the indices so that several leaves share subtrees
		idx := base
		for tries := 0; used[idx]; tries++ {
			if tries < 8 {
				idx = (base + uint64(r.Intn(16))) % n
			} else {
				idx = uint64(r.Int63n(int64(n)))
			}
		}
		used[idx] = true
		l.se.LeafIndex = idx
		l.se.MerkleProof = make([]types.Hash256, LeafHeight(idx, n))
		assigned = append(assigned, l)
	}
	byHeight := map[int][]mpLeaf{}
	for _, l := range assigned {
		h := len(l.se.MerkleProof)
		byHeight[h] = append(byHeight[h], l)
	}
	randHash := func() (h types.Hash256) { r.Read(h[:]); return }
	var build func(start uint64, h int, ls []mpLeaf) types.Hash256
	build = func(start uint64, h int, ls []mpLeaf) types.Hash256 {
		if len(ls) == 0 {
			return randHash()
		}
		if h == 0 {
			return ls[0].hash()
		}
		mid := start + 1<<uint(h-1)
		k := sort.Search(len(ls), func(i int) bool { return ls[i].se.LeafIndex >= mid })
		left, right := ls[:k], ls[k:]
		lr, rr := build(start, h-1, left), build(mid, h-1, right)
		for _, l := range left {
			l.se.MerkleProof[h-1] = rr
		}
		for _, l := range right {
			l.se.MerkleProof[h-1] = lr
		}
		return blake2b.SumPair(lr, rr)
	}
	var heights []int
	for h := range byHeight {
		heights = append(heights, h)
	}
	sort.Ints(heights)
	for _, h := range heights {
		ls := byHeight[h]
		sort.Slice(ls, func(i, j int) bool { return ls[i].se.LeafIndex < ls[j].se.LeafIndex })
		start := ls[0].se.LeafIndex &^ (1<<uint(h) - 1)
		build(start, h, ls)
	}
}

var (
	blockDataType = reflect.TypeOf(types.V2BlockData{})
	mpSliceType   = reflect.TypeOf(types.V2TransactionsMultiproof{})
	outlineType   = reflect.TypeOf(gateway.V2BlockOutline{})
)

// FixMultiproofs walks a freshly generated value and makes it valid where validity cannot be read off
// the Go types: every multiproof transaction list (V2BlockData.Transactions, V2TransactionsMultiproof,
// the v2 transactions of a block outline) gets mutually consistent Merkle proofs, and every outline
// entry holds at most one transaction.
func FixMultiproofs(r *rand.Rand, ptr any) { fixWalk(r, reflect.ValueOf(ptr).Elem()) }

// FixValue is the validity fixer applied to every generated value: FixMultiproofs, and an RHP3 program
// response states the length of its (unprefixed) output.
func FixValue(r *rand.Rand, ptr any) {
	FixMultiproofs(r, ptr)
	if resp, ok := ptr.(*rhp3.RPCExecuteProgramResponse); ok {
		resp.OutputLength = uint64(len(resp.Output))
	}
}

func fixWalk(r *rand.Rand, v reflect.Value) {
	switch v.Kind() {
	case reflect.Struct:
		switch v.Type() {
		case blockDataType:
			bd := v.Addr().Interface().(*types.V2BlockData)
			ps := make([]*types.V2Transaction, len(bd.Transactions))
			for i := range bd.Transactions {
				ps[i] = &bd.Transactions[i]
			}
			MakeConsistent(r, ps)
			return
		case outlineType:
			ob := v.Addr().Interface().(*gateway.V2BlockOutline)
			var ps []*types.V2Transaction
			for i := range ob.Transactions {
				ot := &ob.Transactions[i]
				switch r.Intn(3) {
				case 0:
					ot.V2Transaction = nil
					if ot.Transaction == nil {
						ot.Transaction = new(types.Transaction)
					}
				case 1:
					ot.Transaction = nil
					if ot.V2Transaction == nil {
						ot.V2Transaction = new(types.V2Transaction)
					}
					ps = append(ps, ot.V2Transaction)
				default:
					ot.Transaction, ot.V2Transaction = nil, nil
				}
			}
			MakeConsistent(r, ps)
			return
		}
		if isTime(v.Type()) {
			return
		}
		for i := 0; i < v.NumField(); i++ {
			if v.Type().Field(i).IsExported() {
				fixWalk(r, v.Field(i))
			}
		}
	case reflect.Slice:
		if v.Type() == mpSliceType {
			s := v.Interface().(types.V2TransactionsMultiproof)
			ps := make([]*types.V2Transaction, len(s))
			for i := range s {
				ps[i] = &s[i]
			}
			MakeConsistent(r, ps)
			return
		}
		if k := v.Type().Elem().Kind(); k != reflect.Struct && k != reflect.Ptr && k != reflect.Slice && k != reflect.Interface {
			return
		}
		for i := 0; i < v.Len(); i++ {
			fixWalk(r, v.Index(i))
		}
	case reflect.Array:
		if k := v.Type().Elem().Kind(); k != reflect.Struct {
			return
		}
		for i := 0; i < v.Len(); i++ {
			fixWalk(r, v.Index(i))
		}
	case reflect.Ptr:
		if !v.IsNil() {
			fixWalk(r, v.Elem())
		}
	case reflect.Interface:
		if !v.IsNil() && v.Elem().Kind() == reflect.Ptr && !v.Elem().IsNil() {
			fixWalk(r, v.Elem().Elem())
		}
	}
}

// ProofShape describes how demanding a multiproof transaction list is: the number of assigned leaves, the
// number of hashes its multiproof carries, and the number of trees that hold two or more of the leaves
// (where the compression actually shares nodes).
func ProofShape(txns []types.V2Transaction) (leaves, hashes, sharedTrees int) {
	byHeight := map[int][]uint64{}
	for i := range txns {
		for _, l := range txnLeaves(&txns[i]) {
			if l.se.LeafIndex != types.UnassignedLeafIndex {
				leaves++
				h := len(l.se.MerkleProof)
				byHeight[h] = append(byHeight[h], l.se.LeafIndex)
			}
		}
	}
	var count func(h int, ls []uint64) int
	count = func(h int, ls []uint64) int {
		if len(ls) == 0 {
			return 1
		}
		if h == 0 {
			return 0
		}
		var left, right []uint64
		for _, x := range ls {
			if x&(1<<uint(h-1)) == 0 {
				left = append(left, x)
			} else {
				right = append(right, x)
			}
		}
		return count(h-1, left) + count(h-1, right)
	}
	for h, ls := range byHeight {
		hashes += count(h, ls)
		if len(ls) > 1 {
			sharedTrees++
		}
	}
	return
}
