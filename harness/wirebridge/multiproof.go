package wirebridge

import (
	"math/rand"
	"reflect"
	"sort"

	"go.sia.tech/core/blake2b"
	"go.sia.tech/core/consensus"
	"go.sia.tech/core/gateway"
	rhp3 "go.sia.tech/core/rhp/v3"
	"go.sia.tech/core/types"
)

// An mpLeaf is one reference of a v2 transaction to an accumulator leaf.
type mpLeaf struct {
	se   *types.StateElement
	hash func() types.Hash256 // leaf hash (depends on the element's content and leaf index)
	kind string               // siacoin | siafund | v2contract | chainindex
	elem any                  // pointer to the referencing element (*types.SiacoinElement, ...)
	txn  int                  // index of the transaction holding the reference (set by callers that need it)
}

// id is the element's identifier: two references with the same kind and id denote the same element.
func (l mpLeaf) id() types.Hash256 {
	switch e := l.elem.(type) {
	case *types.SiacoinElement:
		return types.Hash256(e.ID)
	case *types.SiafundElement:
		return types.Hash256(e.ID)
	case *types.V2FileContractElement:
		return types.Hash256(e.ID)
	case *types.ChainIndexElement:
		return types.Hash256(e.ID)
	}
	panic("wirebridge: unknown element kind")
}

// copyFrom makes the referenced element a deep copy of another reference's element (same kind).
func (l mpLeaf) copyFrom(src mpLeaf) {
	reflect.ValueOf(l.elem).Elem().Set(Clone(reflect.ValueOf(src.elem)).Elem())
}

// txnLeaves lists the accumulator references of a transaction in protocol order.
func txnLeaves(txn *types.V2Transaction) (ls []mpLeaf) {
	for i := range txn.SiacoinInputs {
		e := &txn.SiacoinInputs[i].Parent
		ls = append(ls, mpLeaf{se: &e.StateElement, kind: "siacoin", elem: e, hash: func() types.Hash256 { return consensus.VerifSiacoinLeaf(e, false).Hash() }})
	}
	for i := range txn.SiafundInputs {
		e := &txn.SiafundInputs[i].Parent
		ls = append(ls, mpLeaf{se: &e.StateElement, kind: "siafund", elem: e, hash: func() types.Hash256 { return consensus.VerifSiafundLeaf(e, false).Hash() }})
	}
	for i := range txn.FileContractRevisions {
		e := &txn.FileContractRevisions[i].Parent
		ls = append(ls, mpLeaf{se: &e.StateElement, kind: "v2contract", elem: e, hash: func() types.Hash256 { return consensus.VerifV2FileContractLeaf(e, nil, false).Hash() }})
	}
	for i := range txn.FileContractResolutions {
		e := &txn.FileContractResolutions[i].Parent
		ls = append(ls, mpLeaf{se: &e.StateElement, kind: "v2contract", elem: e, hash: func() types.Hash256 { return consensus.VerifV2FileContractLeaf(e, nil, false).Hash() }})
		if sp, ok := txn.FileContractResolutions[i].Resolution.(*types.V2StorageProof); ok {
			ci := &sp.ProofIndex
			ls = append(ls, mpLeaf{se: &ci.StateElement, kind: "chainindex", elem: ci, hash: func() types.Hash256 { return consensus.VerifChainIndexLeaf(ci).Hash() }})
		}
	}
	return
}

// MakeConsistent rewrites the leaf indices and Merkle proofs of the elements referenced by txns so
// that they are valid proofs for one accumulator (the rest of the forest is random): the only values
// the multiproof form can carry. Some elements are made ephemeral (unassigned leaf index).
// One element may be referenced several times (a contract revised by one transaction and resolved by a
// later one, two storage proofs against the same chain index, ...): references of the same kind with the
// same ID denote the same element and get the same content, leaf index and proof; about a quarter of
// the references are turned into such repeated references of an earlier element.
// The forest is built here from the definition (leaf hash of each element, pairwise node hashes),
// independently of types/multiproof.go.
func MakeConsistent(r *rand.Rand, txns []*types.V2Transaction) {
	var all []mpLeaf
	for _, t := range txns {
		all = append(all, txnLeaves(t)...)
	}
	// repeated references: copy an earlier element of the same kind, then group by (kind, id)
	for i := range all {
		if r.Intn(4) != 0 {
			continue
		}
		var cands []int
		for j := 0; j < i; j++ {
			if all[j].kind == all[i].kind {
				cands = append(cands, j)
			}
		}
		if len(cands) > 0 {
			all[i].copyFrom(all[cands[r.Intn(len(cands))]])
		}
	}
	type key struct {
		kind string
		id   types.Hash256
	}
	primary := map[key]int{}
	dupOf := make([]int, len(all))
	for i, l := range all {
		k := key{l.kind, l.id()}
		if j, ok := primary[k]; ok {
			dupOf[i] = j
		} else {
			primary[k] = i
			dupOf[i] = -1
		}
	}
	// forest size
	n := uint64(1) + uint64(r.Int63n(1<<uint(1+r.Intn(20))))
	if r.Intn(4) == 0 {
		n = uint64(1) << uint(r.Intn(12)) // a single tree
	}
	used := map[uint64]bool{}
	var assigned []mpLeaf
	base := uint64(r.Int63n(int64(n)))
	for i, l := range all {
		if dupOf[i] >= 0 {
			continue
		}
		if r.Intn(5) == 0 || uint64(len(used)) >= n {
			l.se.LeafIndex = types.UnassignedLeafIndex
			if r.Intn(2) == 0 {
				l.se.MerkleProof = nil
			}
			continue
		}
		// cluster the indices so that several leaves share subtrees
		idx := base
		for tries := 0; used[idx]; tries++ {
			if tries < 8 {
				idx = (base + uint64(r.Intn(16))) % n
			} else {
				idx = uint64(r.Int63n(int64(n)))
			}
		}
		used[idx] = true
		l.se.LeafIndex = idx
		l.se.MerkleProof = make([]types.Hash256, LeafHeight(idx, n))
		assigned = append(assigned, l)
	}
	for i, l := range all {
		if j := dupOf[i]; j >= 0 {
			l.copyFrom(all[j]) // same content, same leaf index; its own proof slice, filled below like the first reference's
			if l.se.LeafIndex != types.UnassignedLeafIndex {
				l.se.MerkleProof = make([]types.Hash256, len(all[j].se.MerkleProof))
				assigned = append(assigned, l)
			}
		}
	}
	byHeight := map[int][]mpLeaf{}
	for _, l := range assigned {
		h := len(l.se.MerkleProof)
		byHeight[h] = append(byHeight[h], l)
	}
	randHash := func() (h types.Hash256) { r.Read(h[:]); return }
	var build func(start uint64, h int, ls []mpLeaf) types.Hash256
	build = func(start uint64, h int, ls []mpLeaf) types.Hash256 {
		if len(ls) == 0 {
			return randHash()
		}
		if h == 0 {
			return ls[0].hash()
		}
		mid := start + 1<<uint(h-1)
		k := sort.Search(len(ls), func(i int) bool { return ls[i].se.LeafIndex >= mid })
		left, right := ls[:k], ls[k:]
		lr, rr := build(start, h-1, left), build(mid, h-1, right)
		for _, l := range left {
			l.se.MerkleProof[h-1] = rr
		}
		for _, l := range right {
			l.se.MerkleProof[h-1] = lr
		}
		return blake2b.SumPair(lr, rr)
	}
	var heights []int
	for h := range byHeight {
		heights = append(heights, h)
	}
	sort.Ints(heights)
	for _, h := range heights {
		ls := byHeight[h]
		sort.Slice(ls, func(i, j int) bool { return ls[i].se.LeafIndex < ls[j].se.LeafIndex })
		start := ls[0].se.LeafIndex &^ (1<<uint(h) - 1)
		build(start, h, ls)
	}
}

var (
	blockDataType = reflect.TypeOf(types.V2BlockData{})
	mpSliceType   = reflect.TypeOf(types.V2TransactionsMultiproof{})
	outlineType   = reflect.TypeOf(gateway.V2BlockOutline{})
)

// FixMultiproofs walks a freshly generated value and makes it valid where validity cannot be read off
// the Go types: every multiproof transaction list (V2BlockData.Transactions, V2TransactionsMultiproof,
// the v2 transactions of a block outline) gets mutually consistent Merkle proofs, and every outline
// entry holds at most one transaction.
func FixMultiproofs(r *rand.Rand, ptr any) { fixWalk(r, reflect.ValueOf(ptr).Elem()) }

// FixValue is the validity fixer applied to every generated value: FixMultiproofs, and an RHP3 program
// response states the length of its (unprefixed) output.
func FixValue(r *rand.Rand, ptr any) {
	FixMultiproofs(r, ptr)
	if resp, ok := ptr.(*rhp3.RPCExecuteProgramResponse); ok {
		resp.OutputLength = uint64(len(resp.Output))
	}
}

func fixWalk(r *rand.Rand, v reflect.Value) {
	switch v.Kind() {
	case reflect.Struct:
		switch v.Type() {
		case blockDataType:
			bd := v.Addr().Interface().(*types.V2BlockData)
			if r.Intn(6) == 0 {
				bd.Transactions = append(bd.Transactions, duplicateHeavyTxns(r)...)
			}
			ps := make([]*types.V2Transaction, len(bd.Transactions))
			for i := range bd.Transactions {
				ps[i] = &bd.Transactions[i]
			}
			MakeConsistent(r, ps)
			return
		case outlineType:
			ob := v.Addr().Interface().(*gateway.V2BlockOutline)
			var ps []*types.V2Transaction
			for i := range ob.Transactions {
				ot := &ob.Transactions[i]
				switch r.Intn(3) {
				case 0:
					ot.V2Transaction = nil
					if ot.Transaction == nil {
						ot.Transaction = new(types.Transaction)
					}
				case 1:
					ot.Transaction = nil
					if ot.V2Transaction == nil {
						ot.V2Transaction = new(types.V2Transaction)
					}
					ps = append(ps, ot.V2Transaction)
				default:
					ot.Transaction, ot.V2Transaction = nil, nil
				}
			}
			if r.Intn(6) == 0 {
				for _, t := range duplicateHeavyTxns(r) {
					t := t
					ob.Transactions = append(ob.Transactions, gateway.OutlineTransaction{V2Transaction: &t})
					ps = append(ps, &t)
				}
			}
			MakeConsistent(r, ps)
			return
		}
		if isTime(v.Type()) {
			return
		}
		for i := 0; i < v.NumField(); i++ {
			if v.Type().Field(i).IsExported() {
				fixWalk(r, v.Field(i))
			}
		}
	case reflect.Slice:
		if v.Type() == mpSliceType {
			s := v.Interface().(types.V2TransactionsMultiproof)
			if r.Intn(6) == 0 && v.CanSet() {
				s = append(s, duplicateHeavyTxns(r)...)
				v.Set(reflect.ValueOf(s))
			}
			ps := make([]*types.V2Transaction, len(s))
			for i := range s {
				ps[i] = &s[i]
			}
			MakeConsistent(r, ps)
			return
		}
		if k := v.Type().Elem().Kind(); k != reflect.Struct && k != reflect.Ptr && k != reflect.Slice && k != reflect.Interface {
			return
		}
		for i := 0; i < v.Len(); i++ {
			fixWalk(r, v.Index(i))
		}
	case reflect.Array:
		if k := v.Type().Elem().Kind(); k != reflect.Struct {
			return
		}
		for i := 0; i < v.Len(); i++ {
			fixWalk(r, v.Index(i))
		}
	case reflect.Ptr:
		if !v.IsNil() {
			fixWalk(r, v.Elem())
		}
	case reflect.Interface:
		if !v.IsNil() && v.Elem().Kind() == reflect.Ptr && !v.Elem().IsNil() {
			fixWalk(r, v.Elem().Elem())
		}
	}
}

// ProofShape describes how demanding a multiproof transaction list is: the number of assigned leaves, the
// number of hashes its multiproof carries, and the number of trees that hold two or more of the leaves
// (where the compression actually shares nodes).
func ProofShape(txns []types.V2Transaction) (leaves, hashes, sharedTrees int) {
	byHeight := map[int][]uint64{}
	for i := range txns {
		for _, l := range txnLeaves(&txns[i]) {
			if l.se.LeafIndex != types.UnassignedLeafIndex {
				leaves++
				h := len(l.se.MerkleProof)
				byHeight[h] = append(byHeight[h], l.se.LeafIndex)
			}
		}
	}
	var count func(h int, ls []uint64) int
	count = func(h int, ls []uint64) int {
		if len(ls) == 0 {
			return 1
		}
		if h == 0 {
			return 0
		}
		var left, right []uint64
		for _, x := range ls {
			if x&(1<<uint(h-1)) == 0 {
				left = append(left, x)
			} else {
				right = append(right, x)
			}
		}
		return count(h-1, left) + count(h-1, right)
	}
	for h, ls := range byHeight {
		hashes += count(h, ls)
		if len(ls) > 1 {
			sharedTrees++
		}
	}
	return
}

// DuplicateRefs counts, in a multiproof transaction list, the references to an assigned accumulator leaf that
// another reference already denotes: in total, within one transaction, across transactions, and as the
// ProofIndex of a second storage proof.
func DuplicateRefs(txns []types.V2Transaction) (total, within, across, proofIndex int) {
	first := map[uint64]int{}
	for ti := range txns {
		for _, l := range txnLeaves(&txns[ti]) {
			if l.se.LeafIndex == types.UnassignedLeafIndex {
				continue
			}
			if t0, ok := first[l.se.LeafIndex]; ok {
				total++
				if t0 == ti {
					within++
				} else {
					across++
				}
				if l.kind == "chainindex" {
					proofIndex++
				}
			} else {
				first[l.se.LeafIndex] = ti
			}
		}
	}
	return
}

// duplicateHeavyTxns returns two transactions in which the same contract is revised by the first and resolved
// by the second, the second carries two storage proofs against the same chain index, and one siacoin element
// is spent by both (ids are made equal here; MakeConsistent then gives the references one leaf and one proof).
func duplicateHeavyTxns(r *rand.Rand) []types.V2Transaction {
	g := NewGen(r)
	g.Budget = 2
	var rev types.V2FileContractRevision
	var res1, res2 types.V2FileContractResolution
	var in1, in2 types.V2SiacoinInput
	for _, p := range []any{&rev, &res1, &res2, &in1, &in2} {
		v := reflect.ValueOf(p).Elem()
		g.left = g.Budget
		g.Fill(v, Random, 3, v.Type().String())
	}
	sp1, sp2 := new(types.V2StorageProof), new(types.V2StorageProof)
	g.Fill(reflect.ValueOf(sp1).Elem(), Random, 3, "V2StorageProof")
	g.Fill(reflect.ValueOf(sp2).Elem(), Random, 3, "V2StorageProof")
	r.Read(sp1.ProofIndex.ID[:])
	sp2.ProofIndex.ID = sp1.ProofIndex.ID
	res1.Resolution, res2.Resolution = sp1, sp2
	r.Read(rev.Parent.ID[:])
	res1.Parent.ID = rev.Parent.ID
	r.Read(res2.Parent.ID[:])
	r.Read(in1.Parent.ID[:])
	in2.Parent.ID = in1.Parent.ID
	return []types.V2Transaction{
		{SiacoinInputs: []types.V2SiacoinInput{in1}, FileContractRevisions: []types.V2FileContractRevision{rev}},
		{SiacoinInputs: []types.V2SiacoinInput{in2}, FileContractResolutions: []types.V2FileContractResolution{res1, res2}},
	}
}
