#!/bin/bash
# Build the harness from files on disk only (offline) and parse every specification with SANY.
# Every check rebuilds its own binary from /repo's working tree when it runs; this script only warms the
# build cache and reports problems early, so a failure of one component here is a warning, not an error.
set -u
cd /verif || exit 2
export GOFLAGS=-mod=mod GOPROXY=off GOSUMDB=off GOTOOLCHAIN=local
mkdir -p .work/bin evidence replay
command -v go1.26 >/dev/null || { echo "go1.26 not found"; exit 2; }
command -v java >/dev/null || { echo "java not found"; exit 2; }
for d in harness/cmd/*/; do
  n=$(basename "$d")
  (cd harness && go1.26 build -tags verif -o "/verif/.work/bin/$n" "./cmd/$n") 2>/dev/null || echo "warning: harness/cmd/$n does not build yet"
done
tmp=$(mktemp -d /verif/.work/sany.XXXXXX)
for d in spec/*/; do cp "$d"*.tla "$tmp"/ 2>/dev/null; done
(cd "$tmp" && for f in *.tla; do
   timeout 120 tla-sany "$f" >/dev/null 2>&1 || echo "warning: SANY reports problems in $f"
 done)
rm -rf "$tmp"
exit 0
