#!/bin/bash
# Build the harness from files on disk only (offline) and parse every specification with SANY.
set -u
cd /verif || exit 2
export GOFLAGS=-mod=mod GOPROXY=off GOSUMDB=off GOTOOLCHAIN=local
mkdir -p .work/bin evidence replay
rc=0
(cd harness && go1.26 build -tags verif -o /verif/.work/bin/ ./cmd/... ) || rc=2
tmp=$(mktemp -d /verif/.work/sany.XXXXXX)
for d in spec/*/; do cp "$d"*.tla "$tmp"/ 2>/dev/null; done
(cd "$tmp" && for f in *.tla; do
   out=$(timeout 120 tla-sany "$f" 2>&1) || { echo "SANY failed on $f"; echo "$out" | tail -5; rc=2; }
 done)
rm -rf "$tmp"
exit $rc
