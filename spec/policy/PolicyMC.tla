------------------------------ MODULE PolicyMC ------------------------------
(* Bounded space of policies, contexts and witnesses for Policy.tla.

   Design level (checked by TLC on every selected policy, every context that
   straddles one of its locks, and every witness assignment of the alphabet):
     - VerifyAlg = Meaning                       (the walk computes the meaning)
     - for unlock conditions the earliest-match reading equals the
       declarative "m distinct listed keys in order" reading, and the loop
       (fold) forms of the key walk and of the earliest match, which
       PolicySizes uses on key lists of thousands of keys, equal the
       recursive ones
     - Addr(p) = Addr(p with any subset of children made opaque)
     - an opaque policy is never satisfied; if p can be satisfied, p with one
       revealed child hidden cannot be satisfied by anything
     - family "num": every numeric parameter of every policy kind at the
       extremes of its machine type (0, 1, len, len+1, 255, 256 and the value
       classes BIG / NEG of Policy.tla, whose members the harness instantiates
       one by one); a revealed parameter of class BIG makes a policy
       unsatisfiable, a time lock of class NEG asks for nothing
   Binding: every checked (policy, context) prints one ROW with the set of
   witness assignments Meaning accepts; the harness replays the whole row on
   the real code.

   The policies are laid out as a sequence; a run checks the single-leaf
   policies and every Stride-th of the others, starting at number Offset.  From the root state TLC branches into one
   state per chunk of items and walks each chunk (parallel, linear).        *)
EXTENDS Policy, Json

CONSTANTS Fam,        \* "leaf", "uc", "d1", "d2", "d3", "all", or "num" (parameters at the extremes of their machine types)
          Wide,       \* 0: narrow child pools, 1: wide child pools
          MaxSigs,    \* longest signature sequence
          MaxPres,    \* longest preimage sequence
          UCLen,      \* longest unlock-key list (and largest number of required signatures)
          Stride, Offset,
          ChunkSize

H0 == 10
T0 == 1000
SeqUpTo(S, n) == UNION {[1..m -> S] : m \in 0..n}

\* ---- contexts: the base context and one step to each side of it ----------
Ctxs == <<Ctx(H0, T0), Ctx(H0 - 1, T0), Ctx(H0 + 1, T0), Ctx(H0, T0 - 1), Ctx(H0, T0 + 1)>>
RECURSIVE HasKind(_, _)
HasKind(p, kinds) == p.k \in kinds \/ (p.k = "thresh" /\ \E i \in DOMAIN p.of : HasKind(p.of[i], kinds))
CtxIdx(p) == <<1>> \o (IF HasKind(p, {"above", "uc"}) THEN <<2, 3>> ELSE <<>>)
                   \o (IF HasKind(p, {"after"}) THEN <<4, 5>> ELSE <<>>)

\* ---- witnesses -------------------------------------------------------------
SigSeqs == SetToSeq(SeqUpTo({-1, 0, 1}, MaxSigs))
PreSeqs == SetToSeq(SeqUpTo({-1, 0, 1}, MaxPres))
NS == Len(SigSeqs)
NP == Len(PreSeqs)
W  == 0..(NS * NP - 1)
SigOf(w) == SigSeqs[(w \div NP) + 1]
PreOf(w) == PreSeqs[(w % NP) + 1]

\* ---- policies --------------------------------------------------------------
OpPK1 == Opaque(Addr(PK(1)))
OpTh  == Opaque(Addr(Thresh(1, <<PK(0)>>)))
UCsub == UC(H0, <<Key(0, 0)>>, 1)
Leaves == {Above(H0 - 1), Above(H0), Above(H0 + 1), After(T0 - 1), After(T0), After(T0 + 1),
           PK(0), PK(1), Hash(0), Hash(1), OpPK1, OpTh}
KeyAlphabet == {Key(0, 0), Key(0, 1), Key(1, 0), Key(2, 0)}
UCs == {UC(lock, ks, m) : lock \in (IF Wide = 1 THEN {H0, H0 + 1} ELSE {H0}),
                          ks \in SeqUpTo(KeyAlphabet, UCLen), m \in 0..UCLen}
Sub1 == {Above(H0), Above(H0 + 1), After(T0), PK(0), PK(1), Hash(0), OpPK1, UCsub}
          \cup (IF Wide = 1 THEN {After(T0 - 1), Hash(1)} ELSE {})
D1 == {Thresh(n, of) : n \in 0..3, of \in SeqUpTo(Sub1, 3)}
Sub2 == {Thresh(1, <<PK(0)>>), Thresh(1, <<PK(1), OpPK1>>), Thresh(2, <<PK(0), Hash(1)>>), Thresh(0, <<>>),
         PK(1), Hash(0), OpTh}
          \cup (IF Wide = 1 THEN {Thresh(2, <<Above(H0), PK(0)>>), Thresh(1, <<After(T0), OpPK1>>), UCsub} ELSE {})
D2 == {Thresh(n, of) : n \in 0..3, of \in SeqUpTo(Sub2, 3)}
\* depth 3 and 4, breadth 2
Sub3 == {Thresh(1, <<Thresh(1, <<PK(0)>>)>>), Thresh(2, <<Thresh(1, <<Hash(0), OpPK1>>), PK(1)>>),
         Thresh(1, <<OpTh, Thresh(2, <<PK(1), Thresh(1, <<Hash(1)>>)>>)>>), Thresh(1, <<Above(H0 + 1)>>),
         Thresh(0, <<OpTh>>), PK(0), OpTh}
D3 == {Thresh(n, of) : n \in 0..2, of \in SeqUpTo(Sub3, 2)}
\* ---- "num": every numeric parameter of every policy kind at the extremes of its machine type ----
\* (the value classes BIG and NEG of Policy.tla; 0, 1, 255, 256, len, len+1 are ordinary numbers)
NumLocks == {0, H0 - 1, H0, H0 + 1, BIG}                       \* above(h), uc timelock
NumTimes == {NEG, 0, T0 - 1, T0, T0 + 1, BIG}                  \* after(t)
NumCounts(n) == {0, 1, n, n + 1, 255, 256, BIG}                \* uc signatures required, n = number of listed keys
NumNs(len)   == {0, 1, len, len + 1, 255}                      \* thresh n (a uint8)
NumLeaves == {Above(h) : h \in NumLocks} \cup {After(t) : t \in NumTimes}
\* key lists of length 0, 1, many; with duplicates; ed25519 / unknown algorithm / entropy
\* (Wide = 1: every key list up to length 3, every child list up to length 3)
NumKeyLists == IF Wide = 1 THEN SeqUpTo(KeyAlphabet, 3) ELSE
               {<<>>, <<Key(0, 0)>>, <<Key(2, 0)>>, <<Key(1, 0)>>,
                <<Key(0, 0), Key(0, 0)>>, <<Key(0, 0), Key(0, 1)>>,
                <<Key(0, 0), Key(0, 1), Key(0, 0)>>, <<Key(0, 0), Key(2, 0), Key(0, 1)>>,
                <<Key(0, 0), Key(0, 0), Key(0, 0)>>, <<Key(0, 1), Key(1, 0), Key(0, 0)>>}
NumUCs == UNION {{UC(lock, ks, m) : lock \in NumLocks, m \in NumCounts(Len(ks))} : ks \in NumKeyLists}
OpAfBig == Opaque(Addr(After(BIG)))
NumSub == {Above(0), Above(BIG), After(NEG), After(BIG), PK(0), OpPK1}
NumLists == SeqUpTo(NumSub, IF Wide = 1 THEN 3 ELSE 2) \cup {<<PK(0), Above(0), After(NEG)>>, <<Above(BIG), PK(0), OpPK1>>,
                                     <<OpAfBig, After(BIG), PK(0)>>, <<PK(0), PK(0), PK(0)>>}
NumTh == UNION {{Thresh(n, of) : n \in NumNs(Len(of))} : of \in NumLists}
NumNest == {Thresh(1, <<Thresh(1, <<Above(BIG)>>)>>), Thresh(2, <<Thresh(1, <<After(NEG)>>), Thresh(0, <<>>)>>),
            Thresh(1, <<Thresh(255, <<PK(0)>>)>>), Thresh(1, <<Thresh(2, <<Above(0), After(NEG)>>), OpAfBig>>),
            Thresh(1, <<UC(BIG, <<>>, BIG)>>), Thresh(2, <<Thresh(1, <<PK(0), Opaque(Addr(UC(0, <<Key(0, 0)>>, BIG)))>>), After(BIG)>>)}
Num == NumLeaves \cup NumUCs \cup NumTh \cup NumNest
\* the model stays strictly inside the classes (see Policy.tla)
ASSUME /\ \A i \in DOMAIN Ctxs : BIG > Ctxs[i].h + 1 /\ BIG > Ctxs[i].t + 1 /\ NEG < Ctxs[i].t - 1 /\ Ctxs[i].t > 1 /\ Ctxs[i].h > 1
       /\ BIG > MaxPolicies /\ BIG > MaxWidth + 1 /\ BIG > MaxSigs + 1 /\ BIG > MaxPres + 1 /\ BIG > UCLen + 1
       /\ BIG > 256 /\ Len(BigU64) = 5 /\ Len(BigI64) = 5 /\ Len(NegI64) = 5

PolSet == CASE Fam = "leaf" -> Leaves
            [] Fam = "num"  -> Num
            [] Fam = "uc"   -> UCs
            [] Fam = "d1"   -> D1
            [] Fam = "d2"   -> D2
            [] Fam = "d3"   -> D3
            [] OTHER        -> Leaves \cup UCs \cup D1 \cup D2 \cup D3
\* the leaves are always checked; of the others every Stride-th, starting at Offset
Always == SetToSeq(PolSet \cap Leaves)
Rest   == SetToSeq(PolSet \ Leaves)
NPols  == Len(Always) + Len(Rest)
NRest  == IF Len(Rest) > Offset THEN (Len(Rest) - Offset - 1) \div Stride + 1 ELSE 0
NItems == Len(Always) + NRest
Item(k) == IF k <= Len(Always) THEN Always[k] ELSE Rest[(k - Len(Always) - 1) * Stride + Offset + 1]
NChunks == (NItems + ChunkSize - 1) \div ChunkSize
LastOf(c) == IF c * ChunkSize < NItems THEN c * ChunkSize ELSE NItems

\* ---- one row ---------------------------------------------------------------
AcceptM(p, c)  == LET d == Demands(p, c) IN {w \in W : MeaningD(p, c, d, SigOf(w), PreOf(w), UCInjection)}
AcceptG(p, c)  == LET d == Demands(p, c) IN {w \in W : MeaningD(p, c, d, SigOf(w), PreOf(w), UCGreedy)}
AcceptA(p, c)  == {w \in W : VerifyAlg(p, c, SigOf(w), PreOf(w))}
\* the fold forms of the key walk and of the earliest match (used at size by PolicySizes)
AcceptAF(p, c) == {w \in W : VerifyAlgF(p, c, SigOf(w), PreOf(w))}
AcceptMF(p, c) == LET d == Demands(p, c) IN {w \in W : MeaningD(p, c, d, SigOf(w), PreOf(w), UCFold)}
RECURSIVE RowSeq(_, _, _)
RowSeq(p, cs, j) == IF j > Len(cs) THEN <<>>
                    ELSE <<[c |-> cs[j], acc |-> SetToSeq(AcceptM(p, Ctxs[cs[j]]))]>> \o RowSeq(p, cs, j + 1)
RECURSIVE HidSeq(_, _)
HidSeq(p, i) == IF i > Len(p.of) THEN <<>>
                ELSE (IF p.of[i].k # "opaque" THEN <<Str(HideSet(p, {i}))>> ELSE <<>>) \o HidSeq(p, i + 1)
\* what the class BIG means, said once more without the walk or the demand list: a policy with a
\* revealed lock or required count beyond the model is satisfied by nothing, under no context
RECURSIVE NeverByClass(_)
NeverByClass(p) ==
  \/ p.k \in {"above", "after"} /\ p.a = BIG
  \/ p.k = "uc" /\ (p.a = BIG \/ p.b = BIG)
  \/ p.k = "thresh" /\ \E i \in DOMAIN p.of : NeverByClass(p.of[i])
\* ... and a time lock of class NEG asks for nothing
AlwaysByClass(p) == p.k = "after" /\ p.a = NEG
Design(p, cs, rows) ==
  /\ \A j \in DOMAIN cs :
       LET c == Ctxs[cs[j]]  acc == ToSet(rows[j].acc) IN
       /\ acc = AcceptA(p, c)                                        \* VerifyAlg = Meaning
       /\ NeverByClass(p) => acc = {}
       /\ AlwaysByClass(p) => acc = {w \in W : SigOf(w) = <<>> /\ PreOf(w) = <<>>}
       /\ p.k = "uc" => acc = AcceptG(p, c)                          \* earliest match = injection
       /\ p.k = "uc" => acc = AcceptAF(p, c) /\ acc = AcceptMF(p, c)   \* loop forms = recursive forms
       /\ acc # {} => Satisfiable(p, c)
       /\ p.k = "opaque" => acc = {}                                 \* opaque is never satisfied
       /\ (p.k = "thresh" /\ Satisfiable(p, c)) =>
             \A i \in RevealedIdx(p) : ~Satisfiable(HideSet(p, {i}), c)   \* a hidden branch is unusable
  /\ p.k = "thresh" => \A S \in SUBSET (DOMAIN p.of) : Addr(HideSet(p, S)) = Addr(p)
Line(k) ==
  LET p == Item(k)  cs == CtxIdx(p)  rows == RowSeq(p, cs, 1) IN
  /\ PrintT("@@ROW " \o ToJson([p |-> Str(p), ad |-> Addr(p), rows |-> rows,
                               hid |-> IF p.k = "thresh" THEN HidSeq(p, 1) ELSE <<>>]))
  /\ IF Design(p, cs, rows) THEN TRUE ELSE PrintT("@@DISAGREE " \o Str(p)) /\ FALSE

VARIABLES chunk, pos, agree
Init == /\ chunk = 0 /\ pos = 0 /\ agree = TRUE
        /\ PrintT("@@WIT " \o ToJson([sigs |-> SigSeqs, pres |-> PreSeqs, ctxs |-> Ctxs, npols |-> NPols, nitems |-> NItems,
                                      bigu |-> BigU64, bigt |-> BigI64, negt |-> NegI64]))
Next == \/ /\ chunk = 0
           /\ chunk' \in 1..NChunks
           /\ pos' = (chunk' - 1) * ChunkSize + 1
           /\ UNCHANGED agree
        \/ /\ chunk > 0 /\ pos <= LastOf(chunk)
           /\ agree' = Line(pos)
           /\ pos' = pos + 1 /\ UNCHANGED chunk
Spec == Init /\ [][Next]_<<chunk, pos, agree>>
Agree == agree
=============================================================================
