\* Reference configuration (the harness writes its own with the tier's Fam/Wide/Stride/Offset;
\* Fam = "num" is the family of parameters at the extremes of their machine types).
SPECIFICATION Spec
CONSTANTS
  Fam = "all"
  Wide = 0
  MaxSigs = 3
  MaxPres = 2
  UCLen = 3
  Stride = 1
  Offset = 0
  ChunkSize = 8
INVARIANT Agree
CHECK_DEADLOCK FALSE
