------------------------------- MODULE Policy -------------------------------
(* Spend policies (types/policy.go).

   Meaning    the declarative reading of a policy: what it demands of the
              height, the median time and the witnesses (the oracle);
   VerifyAlg  a transcription of the cursor-threading walk of
              types.SpendPolicy.Verify;
   Addr       the address of a policy as a term: the text of the pre-image
              the real code hashes (children of a threshold are replaced by
              their opaque form);
   Str        the text form in which policies travel to the harness.

   A policy is one record shape [k, a, b, of, ad] (TLC compares only values
   of one shape):
     above  a = height              after  a = time
     pk     a = key id              hash   a = image id
     opaque ad = address term of the hidden policy
     thresh a = n, of = children
     uc     a = timelock, b = signatures required, of = unlock keys
     key    a = algorithm (0 ed25519, 1 entropy, 2 other), b = key id
   A context is [h, t]: height and median time of the parent state.
   A signature is the id of the key that made it over the right hash, or -1
   (valid for no key in play); a preimage is the id of the image it hashes
   to, or -1.

   The numeric parameters (height of above, time of after, timelock and
   required signatures of uc, n of thresh) are numbers of the specification:
   unbounded naturals (integers for times).  See "parameters at the size of
   their machine types" below for how values beyond TLC's 32-bit integers
   are represented.                                                         *)
EXTENDS Integers, Sequences, FiniteSets, TLC, SequencesExt

P(k, a, b, of, ad) == [k |-> k, a |-> a, b |-> b, of |-> of, ad |-> ad]
Above(h)      == P("above", h, 0, <<>>, "")
After(t)      == P("after", t, 0, <<>>, "")
PK(i)         == P("pk", i, 0, <<>>, "")
Hash(i)       == P("hash", i, 0, <<>>, "")
Opaque(ad)    == P("opaque", 0, 0, <<>>, ad)
Thresh(n, of) == P("thresh", n, 0, of, "")
Key(alg, i)   == P("key", alg, i, <<>>, "")
UC(lock, keys, m) == P("uc", lock, m, keys, "")
Ctx(h, t)     == [h |-> h, t |-> t]

MaxPolicies == 1024     \* total number of sub-policies Verify is willing to visit
MaxWidth    == 255      \* children of one threshold
MaxDepth    == 32       \* nesting depth the decoder accepts

-----------------------------------------------------------------------------
(* ---------- parameters at the size of their machine types ----------
   The code keeps above.a, uc.a (timelock) and uc.b (signatures required) in
   a uint64, after.a as whole seconds in an int64 (sent as its two's
   complement uint64) and thresh.a in a uint8.  The meaning of a policy does
   not know about machine types: above(h) asks for height >= h, after(t) for
   time > t, uc(T, k, keys) for height >= T and k listed keys, thresh for
   exactly n revealed children, whatever the size of h, t, T, k, n.

   TLC's integers are 32 bit, so parameters beyond the bounded model travel
   as value classes.  Every comparison the meaning (and the transcription)
   makes with such a parameter has a quantity of the bounded model on the
   other side: a context height or time, the length of a witness or key list,
   a count of sub-policies.  A class is therefore represented by ONE number
   that lies on the same side of all those quantities as every member of the
   class, and the verdict computed for it is the verdict of every member:
     BIG  greater than every height, time, length and count of the model
     NEG  (times only) smaller than every time of the model
   (PolicyMC and PolicyTrace check that the model stays below BIG / above NEG).
   The members the harness has to instantiate - every one of them, on the
   real code - are listed here as decimal numerals (strings: they do not fit
   TLC's integers):                                                         *)
BIG == 1000000000
NEG == 0 - 1000000000
\* uint64 parameters (above, uc timelock, uc signatures required): 2^31, 2^32, 2^63-1, 2^63, 2^64-1
BigU64 == <<"2147483648", "4294967296", "9223372036854775807", "9223372036854775808", "18446744073709551615">>
\* after(t), t in seconds since 1970 held in an int64: 2^31, 2^32, the last second whose internal
\* representation (seconds since year 1) still fits an int64 = 2^63-1-62135596800, the one after it, 2^63-1
BigI64 == <<"2147483648", "4294967296", "9223371974719179007", "9223371974719179008", "9223372036854775807">>
\* after(t) below every time of the model: -2^63 (sent as 2^63), -2^63+1, one second before year 1,
\* -2^32, -1 (sent as 2^64-1; only where the model's times are mapped above 0)
NegI64 == <<"-9223372036854775808", "-9223372036854775807", "-62135596801", "-4294967296", "-1">>
\* directly representable boundary values used by PolicyMC: 0, 1, 255, 256 (uint8 boundary), len, len+1
NumStr(x) == IF x = BIG THEN "B" ELSE IF x = NEG THEN "N" ELSE ToString(x)
IsClass(x) == x = BIG \/ x = NEG

SigOK(s, i) == s = i
PreOK(x, i) == x = i
\* as specified: a height lock passes from its height on, a time lock strictly after its time
HeightOK(c, h) == c.h >= h
TimeOK(c, t)   == c.t > t

-----------------------------------------------------------------------------
(* ---------- transcription of SpendPolicy.Verify ---------- *)
\* state threaded through the walk: [ok, sigs, pres, total]
RECURSIVE Walk(_, _, _)
RECURSIVE WalkSubs(_, _, _, _, _)
RECURSIVE WalkKeys(_, _, _, _)
Fail(st) == [st EXCEPT !.ok = FALSE]
Walk(p, c, st) ==
  IF ~st.ok THEN st ELSE
  CASE p.k = "above" -> IF HeightOK(c, p.a) THEN st ELSE Fail(st)
    [] p.k = "after" -> IF TimeOK(c, p.a) THEN st ELSE Fail(st)
    [] p.k = "pk"    -> IF Len(st.sigs) > 0 /\ SigOK(Head(st.sigs), p.a)
                        THEN [st EXCEPT !.sigs = Tail(@)]
                        ELSE IF Len(st.sigs) > 0 THEN Fail([st EXCEPT !.sigs = Tail(@)]) ELSE Fail(st)
    [] p.k = "hash"  -> IF Len(st.pres) > 0 /\ PreOK(Head(st.pres), p.a)
                        THEN [st EXCEPT !.pres = Tail(@)]
                        ELSE IF Len(st.pres) > 0 THEN Fail([st EXCEPT !.pres = Tail(@)]) ELSE Fail(st)
    [] p.k = "opaque" -> Fail(st)
    [] p.k = "thresh" ->
         LET st1 == [st EXCEPT !.total = @ + Len(p.of)] IN
         IF st1.total > MaxPolicies \/ Len(p.of) > MaxWidth THEN Fail(st1)
         ELSE WalkSubs(p, c, 1, 0, st1)
    [] p.k = "uc" ->
         LET st1 == Walk(Above(p.a), c, st) IN
         IF ~st1.ok THEN st1 ELSE WalkKeys(p.of, 1, p.b, st1)
\* thresholds: i = next child, sat = satisfied so far
WalkSubs(p, c, i, sat, st) ==
  IF ~st.ok THEN st
  ELSE IF i > Len(p.of) THEN (IF sat = p.a THEN st ELSE Fail(st))
  ELSE LET ch == p.of[i] IN
       IF ch.k = "uc" THEN Fail(st)
       ELSE IF ch.k = "opaque" THEN WalkSubs(p, c, i + 1, sat, st)
       ELSE IF sat = p.a THEN Fail(st)                      \* threshold exceeded
       ELSE WalkSubs(p, c, i + 1, sat + 1, Walk(ch, c, st))
\* unlock conditions: i = next key, need = signatures still required
WalkKeys(keys, i, need, st) ==
  IF i > Len(keys) \/ need = 0 \/ need > Len(keys) - i + 1 \/ need > Len(st.sigs)
  THEN (IF need = 0 THEN st ELSE Fail(st))
  ELSE LET k == keys[i] IN
       IF k.a = 1 THEN Fail(st)                              \* entropy key
       ELSE IF k.a = 0 THEN
            IF SigOK(Head(st.sigs), k.b) THEN WalkKeys(keys, i + 1, need - 1, [st EXCEPT !.sigs = Tail(@)])
            ELSE WalkKeys(keys, i + 1, need, st)
       ELSE WalkKeys(keys, i + 1, need - 1, [st EXCEPT !.sigs = Tail(@)])
VerifyAlg(p, c, sigs, pres) ==
  LET st == Walk(p, c, [ok |-> TRUE, sigs |-> sigs, pres |-> pres, total |-> 0])
  IN st.ok /\ st.sigs = <<>> /\ st.pres = <<>>

\* The key walk of unlock conditions once more, as what it is in the code: a loop over the key list,
\* i.e. a left fold.  (TLC evaluates a fold iteratively; the recursive form costs it time quadratic in
\* the length of the list.  PolicySizes walks key lists of thousands of keys with this form; PolicyMC
\* checks on its whole space that both forms agree.)   acc = [st, need, stop]
WalkKeysF(keys, need0, st0) ==
  LET n == Len(keys)
      step(acc, i) ==
        IF acc.stop \/ ~acc.st.ok THEN acc
        ELSE IF acc.need = 0 \/ acc.need > n - i + 1 \/ acc.need > Len(acc.st.sigs) THEN [acc EXCEPT !.stop = TRUE]
        ELSE LET k == keys[i] IN
             IF k.a = 1 THEN [acc EXCEPT !.st = Fail(@)]                         \* entropy key
             ELSE IF k.a = 0 /\ ~SigOK(Head(acc.st.sigs), k.b) THEN acc
             ELSE [acc EXCEPT !.need = @ - 1, !.st = [@ EXCEPT !.sigs = Tail(@)]]
      r == FoldLeftDomain(step, [st |-> st0, need |-> need0, stop |-> FALSE], keys)
  IN IF ~r.st.ok \/ r.need = 0 THEN r.st ELSE Fail(r.st)
VerifyAlgF(p, c, sigs, pres) ==
  IF p.k # "uc" THEN VerifyAlg(p, c, sigs, pres)
  ELSE LET st0 == [ok |-> TRUE, sigs |-> sigs, pres |-> pres, total |-> 0]
           st1 == Walk(Above(p.a), c, st0)
           st  == IF ~st1.ok THEN st1 ELSE WalkKeysF(p.of, p.b, st1)
       IN st.ok /\ st.sigs = <<>> /\ st.pres = <<>>

-----------------------------------------------------------------------------
(* ---------- declarative meaning ---------- *)
\* The demand list of a policy under a context: the signatures <<1, key>> and
\* preimages <<2, image>> its revealed leaves ask for, left to right, or FAIL
\* when the policy cannot be satisfied by any witnesses at all.
FAIL == << <<-99, -99>> >>
RECURSIVE Demands(_, _)
RECURSIVE ConcatDemands(_, _, _)
ConcatDemands(subs, c, i) ==
  IF i > Len(subs) THEN <<>>
  ELSE LET d == Demands(subs[i], c) IN
       IF d = FAIL THEN FAIL
       ELSE LET r == ConcatDemands(subs, c, i + 1) IN IF r = FAIL THEN FAIL ELSE d \o r
RECURSIVE CountNodes(_)
RECURSIVE SumNodes(_, _)
SumNodes(subs, i) == IF i > Len(subs) THEN 0 ELSE CountNodes(subs[i]) + SumNodes(subs, i + 1)
CountNodes(p) == IF p.k = "thresh" THEN Len(p.of) + SumNodes(p.of, 1) ELSE 0
Revealed(p) == SelectSeq(p.of, LAMBDA ch : ch.k # "opaque")
Demands(p, c) ==
  CASE p.k = "above"  -> IF HeightOK(c, p.a) THEN <<>> ELSE FAIL
    [] p.k = "after"  -> IF TimeOK(c, p.a) THEN <<>> ELSE FAIL
    [] p.k = "pk"     -> << <<1, p.a>> >>
    [] p.k = "hash"   -> << <<2, p.a>> >>
    [] p.k = "opaque" -> FAIL
    [] p.k = "uc"     -> FAIL                      \* only meaningful at top level
    [] p.k = "thresh" ->
         LET shown == Revealed(p) IN
         IF Len(p.of) > MaxWidth \/ (\E i \in DOMAIN p.of : p.of[i].k = "uc") \/ Len(shown) # p.a
         THEN FAIL ELSE ConcatDemands(shown, c, 1)

\* unlock conditions: which signatures a listed key accepts
KeyAccepts(k, s) == k.a = 2 \/ (k.a = 0 /\ SigOK(s, k.b))
\* keys that can be used: those before the first entropy key
RECURSIVE UsableKeys(_, _)
UsableKeys(keys, i) == IF i > Len(keys) \/ keys[i].a = 1 THEN i - 1 ELSE UsableKeys(keys, i + 1)
\* the m signatures are accepted, in order, by m distinct listed keys (declarative form)
UCInjection(keys, sigs) ==
  LET m == Len(sigs)  u == UsableKeys(keys, 1) IN
  \E f \in [1..m -> 1..u] :
     /\ \A i \in 1..(m - 1) : f[i] < f[i + 1]
     /\ \A i \in 1..m : KeyAccepts(keys[f[i]], sigs[i])
\* the same, computed by earliest match (used where the key list is long)
RECURSIVE Greedy(_, _, _)
Greedy(keys, i, sigs) ==
  IF sigs = <<>> \/ i > Len(keys) THEN 0
  ELSE LET k == keys[i] IN
       IF k.a = 1 THEN -1000
       ELSE IF KeyAccepts(k, Head(sigs)) THEN 1 + Greedy(keys, i + 1, Tail(sigs))
       ELSE Greedy(keys, i + 1, sigs)
UCGreedy(keys, sigs) == Greedy(keys, 1, sigs) = Len(sigs)
\* earliest match as a left fold over the keys: acc = signatures matched so far, -1 once an entropy key
\* is reached with signatures left
UCFold(keys, sigs) ==
  LET m == Len(sigs)
      step(acc, k) == IF acc < 0 \/ acc >= m THEN acc
                      ELSE IF k.a = 1 THEN -1
                      ELSE IF KeyAccepts(k, sigs[acc + 1]) THEN acc + 1 ELSE acc
  IN FoldLeft(step, 0, keys) = m

\* d = Demands(p, c), hoisted so that a whole row of witnesses shares it
MeaningD(p, c, d, sigs, pres, UCMatch(_, _)) ==
  IF p.k = "uc"
  THEN HeightOK(c, p.a) /\ pres = <<>> /\ Len(sigs) = p.b /\ UCMatch(p.of, sigs)
  ELSE /\ d # FAIL /\ CountNodes(p) <= MaxPolicies
       /\ LET ds == SelectSeq(d, LAMBDA x : x[1] = 1)  dp == SelectSeq(d, LAMBDA x : x[1] = 2) IN
          /\ Len(ds) = Len(sigs) /\ \A i \in DOMAIN ds : SigOK(sigs[i], ds[i][2])
          /\ Len(dp) = Len(pres) /\ \A i \in DOMAIN dp : PreOK(pres[i], dp[i][2])
Meaning(p, c, sigs, pres)  == MeaningD(p, c, Demands(p, c), sigs, pres, UCInjection)
MeaningG(p, c, sigs, pres) == MeaningD(p, c, Demands(p, c), sigs, pres, UCGreedy)
MeaningF(p, c, sigs, pres) == MeaningD(p, c, Demands(p, c), sigs, pres, UCFold)

\* can the policy be satisfied at all under c (by witnesses of any kind)?
Satisfiable(p, c) ==
  IF p.k = "uc" THEN HeightOK(c, p.a) /\ p.b <= UsableKeys(p.of, 1)
  ELSE Demands(p, c) # FAIL /\ CountNodes(p) <= MaxPolicies

\* nesting depth as the decoder counts it: the root is at depth 0
RECURSIVE Depth(_)
RECURSIVE MaxDepthOf(_, _)
MaxDepthOf(subs, i) == IF i > Len(subs) THEN 0
                       ELSE LET a == Depth(subs[i]) b == MaxDepthOf(subs, i + 1) IN IF a > b THEN a ELSE b
Depth(p) == IF p.k = "thresh" /\ Len(p.of) > 0 THEN 1 + MaxDepthOf(p.of, 1) ELSE 0
RECURSIVE Encodable(_)
Encodable(p) == p.k # "thresh" \/ (Len(p.of) <= MaxWidth /\ \A i \in DOMAIN p.of : Encodable(p.of[i]))
Decodable(p) == Depth(p) <= MaxDepth

-----------------------------------------------------------------------------
(* ---------- text form and address term ---------- *)
KeyStr(k) == CASE k.a = 0 -> "e" \o ToString(k.b) [] k.a = 1 -> "n" \o ToString(k.b) [] OTHER -> "x" \o ToString(k.b)
RECURSIVE Str(_)
RECURSIVE StrSeq(_, _)
RECURSIVE KeySeq(_, _)
KeySeq(ks, i) == IF i > Len(ks) THEN "" ELSE (IF i > 1 THEN "," ELSE "") \o KeyStr(ks[i]) \o KeySeq(ks, i + 1)
StrSeq(ps, i) == IF i > Len(ps) THEN "" ELSE (IF i > 1 THEN "," ELSE "") \o Str(ps[i]) \o StrSeq(ps, i + 1)
Str(p) ==
  CASE p.k = "above"  -> "ab(" \o NumStr(p.a) \o ")"
    [] p.k = "after"  -> "af(" \o NumStr(p.a) \o ")"
    [] p.k = "pk"     -> "pk(" \o ToString(p.a) \o ")"
    [] p.k = "hash"   -> "h(" \o ToString(p.a) \o ")"
    [] p.k = "opaque" -> "op(" \o p.ad \o ")"
    [] p.k = "uc"     -> "uc(" \o NumStr(p.a) \o "," \o NumStr(p.b) \o ",[" \o KeySeq(p.of, 1) \o "])"
    [] p.k = "thresh" -> "th(" \o ToString(p.a) \o ",[" \o StrSeq(p.of, 1) \o "])"
\* Address term: the text of what is hashed.  Unlock conditions keep their
\* legacy address (the harness evaluates the uc term with the v1 unlock hash);
\* a threshold is hashed with every child in opaque form; an opaque child
\* stays as it is.
RECURSIVE Addr(_)
RECURSIVE Hidden(_)
RECURSIVE HiddenSeq(_, _)
Hidden(p) == IF p.k = "opaque" THEN p ELSE Opaque(Addr(p))
HiddenSeq(ps, i) == IF i > Len(ps) THEN <<>> ELSE <<Hidden(ps[i])>> \o HiddenSeq(ps, i + 1)
Addr(p) == IF p.k = "thresh" THEN Str(Thresh(p.a, HiddenSeq(p.of, 1))) ELSE Str(p)
\* p with the children in S replaced by their opaque form
RECURSIVE HideSeq(_, _, _)
HideSeq(ps, S, i) == IF i > Len(ps) THEN <<>>
                     ELSE <<IF i \in S THEN Hidden(ps[i]) ELSE ps[i]>> \o HideSeq(ps, S, i + 1)
HideSet(p, S) == [p EXCEPT !.of = HideSeq(p.of, S, 1)]
RevealedIdx(p) == {i \in DOMAIN p.of : p.of[i].k # "opaque"}
=============================================================================
