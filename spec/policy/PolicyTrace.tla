---------------------------- MODULE PolicyTrace ----------------------------
(* Direction B: validation of verdicts recorded from the real
   types.SpendPolicy.Verify (and the real policy decoder) on policies that lie
   beyond the exhaustively checked bound: seeded random trees up to depth 6 and
   the complexity limits (1024/1025 sub-policies, 255/256 children, nesting
   depth 32/33).  One line = one call:
     p     policy tree in the record shape of Policy.tla
     h, t  height and median time of the context
     sigs, pres   witness ids (key id / image id, -1 = valid for nothing)
     v     the verdict of the real Verify (TRUE = accepted)
     dec   the real decoder accepted the encoding of p
   Parameters of the value classes BIG / NEG (Policy.tla) arrive as those
   numbers; the harness ran the line with one member of the class (every
   member over the run) - the line must keep h, t and its witness lists
   strictly inside the classes (INSIDE, else SPECBUG).
   The line is allowed iff v = Meaning and dec = Decodable.  The transcription
   VerifyAlg is evaluated as well; a disagreement between the two readings of
   the specification is reported as SPECBUG (never a verdict on the code).   *)
EXTENDS Policy, TraceLib, Json
Trace == ndJsonDeserialize("trace.ndjson")
N == Len(Trace)

Line(l) ==
  LET t == Trace[l]  p == t.p  c == Ctx(t.h, t.t)
      m == MeaningG(p, c, t.sigs, t.pres) IN
  /\ IF VerifyAlg(p, c, t.sigs, t.pres) = m THEN TRUE ELSE PrintT("@@SPECBUG " \o ToString(l))
  /\ IF /\ t.h + 1 < BIG /\ t.t + 1 < BIG /\ t.t - 1 > NEG /\ t.h >= 0
        /\ Len(t.sigs) + 1 < BIG /\ Len(t.pres) + 1 < BIG /\ CountNodes(p) + 1 < BIG
     THEN TRUE ELSE PrintT("@@SPECBUG " \o ToString(l))
  /\ Check(t.v = m, l, IF m THEN "Verify rejects a satisfied policy" ELSE "Verify accepts an unsatisfied policy")
  /\ Check(~Encodable(p) \/ t.dec = Decodable(p), l, "decoder depth limit")

VARIABLES chunk, pos
Init == chunk = 0 /\ pos = 0
LastOf(c) == IF c * TL_ChunkSize < N THEN c * TL_ChunkSize ELSE N
Next == \/ /\ chunk = 0
           /\ chunk' \in 1..NChunks(N)
           /\ pos' = (chunk' - 1) * TL_ChunkSize + 1
        \/ /\ chunk > 0 /\ pos <= LastOf(chunk)
           /\ Line(pos)
           /\ pos' = pos + 1 /\ UNCHANGED chunk
Spec == Init /\ [][Next]_<<chunk, pos>>
=============================================================================
