----------------------------- MODULE PolicySizes -----------------------------
(* Family "size": policies and witness lists at the magnitudes of the limits
   the codec and the evaluator document.

   The property speaks about every policy the decoder admits and every list
   of witnesses.  The meaning of a policy (Policy.tla) knows three limits:
     MaxWidth    = 255   children of one threshold (and the range of its n: a
                         uint8, whose first value out of range is 256)
     MaxPolicies = 1024  sub-policies of one tree
     MaxDepth    = 32    nesting (decoder; PolicyTrace / PolicyLimits)
   and NO limit at all on
     - the number of keys listed by unlock conditions,
     - the number of signatures unlock conditions require,
     - the length of the signature and preimage lists
   beyond what follows from the tree (a tree of at most 1024 sub-policies has
   at most 1020 leaves; unlock conditions ask for as many signatures as they
   say).  PolicyMC walks these quantities at 0..4 only.  Here every one of
   them is put just below, at and just above every limit, and once far
   beyond all of them:

     SizeSet = {l-1, l, l+1 : l in {255, 256, 1024}} + {2049}

   - unlock conditions with n in SizeSet listed keys, requiring
     m in {0, 1, n-1, n, n+1} + {s in SizeSet : s < n} signatures; keys all
     ed25519 with the signing keys first / last in the list (the first n-m
     keys then accept none of the signatures), all of an unknown algorithm,
     mixed; an entropy key just after / at the last consulted key / first;
     lock passed / not passed;
   - one threshold of 254, 255, 256 children of which 0, 1, w-1, w are
     revealed (the first / the last ones), n one below, at, one above the
     number revealed;
   - trees of 1023, 1024, 1025, 1026, 2049 sub-policies whose leaves all ask
     for a witness (1020 signatures, 1020 preimages, 510 of each),
   each with the witness lists it asks for and with lists one short, one
   long, with the first / last entry wrong, empty, with a stray preimage.

   A size is a value class in the sense of Policy.tla, read the other way
   round: the verdict depends on the RELATIONS between the sizes (m <= n,
   length = m, total <= 1024, width <= 255, n = number revealed), never on
   the magnitudes.  ClassVerdict says this without the walk and without the
   demand list; TLC checks, on the policies at their real sizes,
       VerifyAlg = Meaning   and   ClassVerdict is respected,
   and prints every case with the verdict of Meaning.  The harness builds the
   policy with real keys and signatures, runs the real Verify, codec, Address
   and ValidateV2Transaction on it and compares.

   Layout as in PolicyMC: the shapes are a sequence; TLC branches into one
   state per chunk and walks each chunk.  Full = 0 (quick tier) keeps every
   size pair of the plain key lists, every tree total and the satisfiable
   wide thresholds, with the exact witnesses and two rotating flaws, and
   every Stride-th of the other shapes; Full = 1 keeps everything.                                        *)
EXTENDS Policy, Json

CONSTANTS Full, Stride, Offset, ChunkSize

H0 == 10
T0 == 1000
C0 == Ctx(H0, T0)

Limits    == {MaxWidth, MaxWidth + 1, MaxPolicies}
Around(l) == {l - 1, l, l + 1}
Beyond    == 2 * MaxPolicies + 1
SizeSet   == UNION {Around(l) : l \in Limits} \cup {Beyond}
ASSUME BIG > Beyond + 2 /\ \A l \in Limits : Beyond > l + 1

\* one record shape for all families:
\*   uc     n keys, m signatures required, x = position of an entropy key (0: none), y = timelock
\*          kind: ed-first, ed-last, other, mixed
\*   flat   n children, threshold m, x revealed children, y = 0: the first x / 1: the last x
\*   total  n groups: n-1 full ones (255 leaves) and one of m leaves
\*          kind (flat, total): pk, hash, mix
D(fam, kind, n, m, x, y) == [fam |-> fam, kind |-> kind, n |-> n, m |-> m, x |-> x, y |-> y]

Required(n) == {m \in {0, 1, n - 1, n, n + 1} \cup {s \in SizeSet : s < n} : m >= 0}
NM       == {nm \in SizeSet \X (0..(Beyond + 1)) : nm[2] \in Required(nm[1])}       \* <<keys listed, signatures required>>
UCPlain  == {D("uc", k, nm[1], nm[2], 0, H0 - 1) : k \in {"ed-first", "ed-last"}, nm \in NM}
UCOther  == {D("uc", k, nm[1], nm[2], 0, H0 - 1) : k \in {"other", "mixed"}, nm \in NM}
UCEnt    == UNION {{D("uc", "ed-first", nm[1], nm[2], x, H0 - 1) : x \in {nm[2], nm[2] + 1, nm[1]} \cap (1..nm[1])} \cup
                   {D("uc", "ed-last", nm[1], nm[2], 1, H0 - 1)} : nm \in NM}
UCLocked == UNION {{D("uc", "ed-first", n, m, 0, y) : m \in {0, n}, y \in {H0, H0 + 1, BIG}} : n \in {MaxWidth + 1, MaxPolicies + 1}}
Kinds    == {"pk", "hash", "mix"}
Flats    == {d \in {D("flat", k, n, m, x, y) : k \in Kinds, n \in Around(MaxWidth), m \in 0..MaxWidth,
                                              x \in {0, 1, MaxWidth - 2, MaxWidth - 1, MaxWidth, MaxWidth + 1}, y \in {0, 1}} :
               /\ d.x \in {0, 1, d.n - 1, d.n} /\ d.m \in {d.x - 1, d.x, d.x + 1} /\ (d.x = 0 => d.y = 0)}
\* n + 255 * (n - 1) + m sub-policies: 1023, 1024, 1025, 1026, 2049
Totals   == {D("total", k, g[1], g[2], 0, 0) : k \in Kinds, g \in {<<4, 254>>, <<4, 255>>, <<5, 0>>, <<5, 1>>, <<9, 0>>}}

\* checked in every tier: every size pair of the plain key lists, every tree total, the satisfiable wide thresholds
FlatsE    == {d \in Flats : d.kind = "mix" /\ d.y = 1 /\ d.m = d.x}
Essential == SetToSeq(UCPlain) \o SetToSeq(Totals) \o SetToSeq(FlatsE)
Rest      == SetToSeq(UCOther \cup UCEnt \cup UCLocked \cup (Flats \ FlatsE))
NRest     == IF Full = 1 THEN Len(Rest)
             ELSE IF Len(Rest) > Offset THEN (Len(Rest) - Offset - 1) \div Stride + 1 ELSE 0
NItems    == Len(Essential) + NRest
Item(k)   == IF k <= Len(Essential) THEN Essential[k]
             ELSE IF Full = 1 THEN Rest[k - Len(Essential)]
             ELSE Rest[(k - Len(Essential) - 1) * Stride + Offset + 1]
NChunks   == (NItems + ChunkSize - 1) \div ChunkSize
LastOf(c) == IF c * ChunkSize < NItems THEN c * ChunkSize ELSE NItems

\* ---- the policy of a shape ---------------------------------------------------
\* a sequence given by its length and its i-th element, as an explicit tuple (TLC keeps [i \in 1..n |-> e]
\* as an unevaluated function and would re-evaluate it at every Len and Tail of the walk)
Tup(f, n) == SubSeq(f, 1, n)
OpPK1 == Opaque(Addr(PK(1)))
KeyAt(d, i) ==
  IF i = d.x THEN Key(1, 0)
  ELSE CASE d.kind = "ed-first" -> Key(0, (i - 1) % 4)
         [] d.kind = "ed-last"  -> IF i <= d.n - d.m THEN Key(0, 4) ELSE Key(0, (i - 1) % 4)   \* key 4 signs nothing here
         [] d.kind = "other"    -> Key(2, (i - 1) % 4)
         [] OTHER               -> IF (i % 3) = 0 THEN Key(2, i % 4) ELSE Key(0, (i - 1) % 4)
LeafAt(kind, i) ==
  CASE kind = "pk"   -> PK((i - 1) % 4)
    [] kind = "hash" -> Hash((i - 1) % 4)
    [] OTHER         -> IF (i % 2) = 1 THEN PK((i - 1) % 4) ELSE Hash((i - 1) % 4)
Group(kind, w, off) == Thresh(w, Tup([i \in 1..w |-> LeafAt(kind, off + i)], w))
PolicyOf(d) ==
  CASE d.fam = "uc"   -> UC(d.y, Tup([i \in 1..d.n |-> KeyAt(d, i)], d.n), d.m)
    [] d.fam = "flat" -> Thresh(d.m, Tup([i \in 1..d.n |-> IF (d.y = 0 /\ i <= d.x) \/ (d.y = 1 /\ i > d.n - d.x)
                                                            THEN LeafAt(d.kind, i) ELSE OpPK1], d.n))
    [] OTHER          -> Thresh(d.n, Tup([j \in 1..d.n |-> Group(d.kind, IF j < d.n THEN MaxWidth ELSE d.m, (j - 1) * MaxWidth)], d.n))

\* ---- the witnesses a shape asks for --------------------------------------------
\* unlock conditions: one signature per consulted key (the first m, or the last m for ed-last);
\* a key of unknown algorithm is given garbage (it takes anything)
SigFor(k) == IF k.a = 0 THEN k.b ELSE IF k.a = 2 THEN -1 ELSE 0
UCSigs(d, keys) ==
  LET base == IF d.kind = "ed-last" /\ d.m <= d.n THEN d.n - d.m ELSE 0
  IN Tup([i \in 1..d.m |-> IF base + i <= d.n THEN SigFor(keys[base + i]) ELSE 0], d.m)
\* trees: what the revealed leaves ask for, left to right (whether or not the tree can be satisfied)
RECURSIVE Asked(_)
RECURSIVE AskedSeq(_, _)
Asked(p) == CASE p.k = "pk"     -> << <<1, p.a>> >>
              [] p.k = "hash"   -> << <<2, p.a>> >>
              [] p.k = "thresh" -> AskedSeq(p.of, 1)
              [] OTHER          -> <<>>
AskedSeq(ps, i) == IF i > Len(ps) THEN <<>> ELSE Asked(ps[i]) \o AskedSeq(ps, i + 1)
Ids(s) == Tup([i \in 1..Len(s) |-> s[i][2]], Len(s))
W(name, sigs, pres) == [v |-> name, sigs |-> sigs, pres |-> pres]
DropLast(s) == SubSeq(s, 1, Len(s) - 1)
BadAt(s, i) == [s EXCEPT ![i] = -1]
\* all variants of a pair of lists: exact, one short, one long, first / last wrong, none, stray
Variants(S, Pp, isUC) ==
  <<W("exact", S, Pp), W("sig-long", S \o <<0>>, Pp)>>
  \o (IF Len(S) > 0 THEN <<W("sig-short", DropLast(S), Pp), W("sig-none", <<>>, Pp)>> ELSE <<>>)
  \o (IF Len(S) > 0 /\ S[1] # -1 THEN <<W("sig-first-wrong", BadAt(S, 1), Pp)>> ELSE <<>>)
  \o (IF Len(S) > 1 /\ S[Len(S)] # -1 THEN <<W("sig-last-wrong", BadAt(S, Len(S)), Pp)>> ELSE <<>>)
  \o <<W("pre-long", S, Pp \o <<0>>)>>
  \o (IF Len(Pp) > 0 THEN <<W("pre-short", S, DropLast(Pp)), W("pre-last-wrong", S, BadAt(Pp, Len(Pp)))>> ELSE <<>>)
\* quick tier: the exact lists and two of the others, rotating with the position of the shape
Thin(vs, k) ==
  IF Full = 1 \/ Len(vs) <= 3 THEN vs
  ELSE LET r == Len(vs) - 1 IN
       <<vs[1], vs[2 + ((k + Offset) % r)], vs[2 + ((k + Offset + 1) % r)]>>

\* ---- what a size class means, said without the walk and without the demand list -----
\* stable name of the class (the harness uses it in violation keys)
Bucket(x) == IF x <= MaxWidth THEN "le255" ELSE IF x <= MaxPolicies THEN "le1024" ELSE "gt1024"
ClassName(d, p) ==
  CASE d.fam = "uc"   -> "uc-keys-" \o Bucket(d.n) \o "-required-" \o Bucket(d.m)
    [] d.fam = "flat" -> "thresh-width-" \o (IF d.n <= MaxWidth THEN "le255" ELSE "gt255") \o "-" \o d.kind
    [] OTHER          -> "tree-total-" \o Bucket(CountNodes(p)) \o "-" \o d.kind
\* "must", "never" or "any" (no statement)
ClassVerdict(d, p, w) ==
  IF d.fam = "uc" THEN
       IF Len(w.sigs) # d.m \/ w.pres # <<>> \/ d.m > d.n \/ d.y > H0 THEN "never"
       ELSE IF d.m = 0 THEN "must"
       ELSE IF w.v = "exact" /\ (d.x = 0 \/ (d.kind = "ed-first" /\ d.x > d.m)) THEN "must"
       ELSE IF d.x # 0 /\ (d.kind = "ed-last" \/ d.x <= d.m) THEN "never"     \* an entropy key is consulted
       ELSE IF w.v \in {"sig-first-wrong", "sig-last-wrong"} /\ d.kind \in {"ed-first", "ed-last"} THEN "never"
       ELSE "any"
  ELSE LET asked == Asked(p)
           ns == Len(SelectSeq(asked, LAMBDA a : a[1] = 1))
           np == Len(SelectSeq(asked, LAMBDA a : a[1] = 2))
           within == /\ CountNodes(p) <= MaxPolicies
                     /\ IF d.fam = "flat" THEN d.n <= MaxWidth /\ d.m = d.x ELSE TRUE
       IN IF ~within \/ Len(w.sigs) # ns \/ Len(w.pres) # np THEN "never"
          ELSE IF w.v = "exact" THEN "must"
          ELSE IF w.v \in {"sig-first-wrong", "sig-last-wrong", "pre-last-wrong"} THEN "never"
          ELSE "any"

\* ---- one shape ---------------------------------------------------------------------
Cases(d, p, k) ==
  IF d.fam = "uc" THEN Thin(Variants(UCSigs(d, p.of), <<>>, TRUE), k)
  ELSE LET a == Asked(p) IN
       Thin(Variants(Ids(SelectSeq(a, LAMBDA x : x[1] = 1)), Ids(SelectSeq(a, LAMBDA x : x[1] = 2)), FALSE), k)
Judge(d, p, w) ==
  LET want == MeaningF(p, C0, w.sigs, w.pres)      \* the loop forms of Policy.tla: PolicyMC checks that they
      alg  == VerifyAlgF(p, C0, w.sigs, w.pres)     \* equal the recursive ones
      cv   == ClassVerdict(d, p, w)
  IN [v |-> w.v, sigs |-> w.sigs, pres |-> w.pres, want |-> want,
      ok |-> (alg = want) /\ (cv = "must" => want) /\ (cv = "never" => ~want)]
\* the policy in compact form: unlock conditions as [lock, required, keys as 10 * algorithm + id]
Compact(d, p) ==
  IF d.fam = "uc" THEN [k |-> "uc", a |-> p.a, b |-> p.b, keys |-> Tup([i \in 1..Len(p.of) |-> (10 * p.of[i].a) + p.of[i].b], Len(p.of))]
  ELSE p
Line(k) ==
  LET d  == Item(k)
      p  == PolicyOf(d)
      js == LET cs == Cases(d, p, k) IN Tup([i \in 1..Len(cs) |-> Judge(d, p, cs[i])], Len(cs))
  IN /\ PrintT("@@SZ " \o ToJson([class |-> ClassName(d, p), d |-> d, p |-> Compact(d, p), nodes |-> CountNodes(p),
                                  dec |-> Decodable(p), enc |-> Encodable(p), cases |-> js]))
     /\ IF \A i \in 1..Len(js) : js[i].ok THEN TRUE
        ELSE PrintT("@@DISAGREE " \o ToString(d)) /\ FALSE

VARIABLES chunk, pos, agree
Init == /\ chunk = 0 /\ pos = 0 /\ agree = TRUE
        /\ PrintT("@@SIZES " \o ToJson([sizes |-> SetToSeq(SizeSet), nitems |-> NItems, essential |-> Len(Essential),
                                        rest |-> Len(Rest), h |-> H0, t |-> T0]))
Next == \/ /\ chunk = 0
           /\ chunk' \in 1..NChunks
           /\ pos' = (chunk' - 1) * ChunkSize + 1
           /\ UNCHANGED agree
        \/ /\ chunk > 0 /\ pos <= LastOf(chunk)
           /\ agree' = Line(pos)
           /\ pos' = pos + 1 /\ UNCHANGED chunk
Spec == Init /\ [][Next]_<<chunk, pos, agree>>
Agree == agree
=============================================================================
