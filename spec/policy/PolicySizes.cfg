\* Reference configuration (the harness writes its own: Full = 1 in the thorough tier,
\* Offset = seed mod Stride in the quick tier).
SPECIFICATION Spec
CONSTANTS
  Full = 0
  Stride = 8
  Offset = 0
  ChunkSize = 6
INVARIANT Agree
CHECK_DEADLOCK FALSE
