SPECIFICATION Spec
CONSTANT Compact = TRUE
CONSTANT TL_ChunkSize = 16
CHECK_DEADLOCK FALSE
