---------------------------- MODULE MerkleAppend ----------------------------
(* Append proofs: rhp4.BuildAppendProof / VerifyAppendSectorsProof over
   blake2b.Accumulator, and rhp2.VerifyAppendProof (single sector) over
   proofAccumulator: every contract size 0..N and every batch of 1..K roots. *)
EXTENDS RHPMerkle, Json
CONSTANTS N, K
VARIABLES lv, n, k
vars == <<lv, n, k>>
Init == lv = 0 /\ n = 0 /\ k = 0
Next == \/ lv = 0 /\ lv' = 1 /\ n' \in 0..N /\ UNCHANGED k
        \/ lv = 1 /\ lv' = 2 /\ k' \in 1..K /\ UNCHANGED n
Spec == Init /\ [][Next]_vars

Case ==
  LET L == Leaves(n)
      app == [i \in 1..k |-> AppH(i - 1)]
      all == L \o app
      b == BuildAppendAlg(L, app)
      old == Root(L, 0, n)
      new == Root(all, 0, n + k)
      V(sub, ap, o, nw) == VerifyAppendSectorsAlg(n, sub, ap, o, nw)
      V2(sub, r, o, nw) == VerifyAppendV2Alg(n, sub, r, o, nw)
  IN
  \* definition = transcription; the accumulator root is the plain root
  /\ b.sub = AppendDef(L, n, 0)
  /\ Len(b.sub) = Pop(n)
  /\ b.newRoot = new
  /\ AccRoot(InsertLeaves(Empty, L, 1)) = old
  \* completeness
  /\ V(b.sub, app, old, new)
  \* soundness, n held true (the verifier does not fix the proof length:
  \* surplus hashes are ignored, so "one more" is not in the catalogue here)
  /\ \A i \in DOMAIN b.sub : ~V([b.sub EXCEPT ![i] = BAD], app, old, new)
  /\ \A i \in DOMAIN app : ~V(b.sub, [app EXCEPT ![i] = BAD], old, new)
  /\ (b.sub # <<>> => ~V(SubSeq(b.sub, 1, Len(b.sub) - 1), app, old, new))
  /\ (b.sub # <<>> => ~V(Tail(b.sub), app, old, new))
  /\ ~V(b.sub, SubSeq(app, 1, k - 1), old, new)
  /\ ~V(b.sub, app \o <<BAD>>, old, new)
  /\ ~V(b.sub, app, BAD, new)
  /\ ~V(b.sub, app, old, BAD)
  /\ V(b.sub \o <<BAD>>, app, old, new)          \* documented: surplus ignored
  /\ (k = 1 =>
        /\ V2(b.sub, app[1], old, new)
        /\ \A i \in DOMAIN b.sub : ~V2([b.sub EXCEPT ![i] = BAD], app[1], old, new)
        /\ (b.sub # <<>> => ~V2(SubSeq(b.sub, 1, Len(b.sub) - 1), app[1], old, new))
        /\ ~V2(b.sub, BAD, old, new)
        /\ ~V2(b.sub, app[1], BAD, new)
        /\ ~V2(b.sub, app[1], old, BAD))
  /\ PrintT("@@AP " \o ToJson([n |-> n, k |-> k, sub |-> b.sub, old |-> old, new |-> new]))
OK == lv = 2 => Case
=============================================================================
