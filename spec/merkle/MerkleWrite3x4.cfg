SPECIFICATION Spec
CONSTANT Compact = FALSE
CONSTANT N = 3
CONSTANT LW = 4
CONSTANT MaxTrim = 3
INVARIANT OK
CHECK_DEADLOCK FALSE
