SPECIFICATION Spec
CONSTANT Compact = FALSE
CONSTANT N = 128
CONSTANT K = 6
INVARIANT OK
CHECK_DEADLOCK FALSE
