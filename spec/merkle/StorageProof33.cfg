INIT Init
NEXT Next
CONSTANT MaxLeaves = 33
INVARIANTS Complete_ Emit EmitEras
CHECK_DEADLOCK FALSE
