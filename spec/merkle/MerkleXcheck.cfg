SPECIFICATION Spec
CONSTANT Compact = FALSE
CONSTANT N = 16
INVARIANT OK
CHECK_DEADLOCK FALSE
