SPECIFICATION Spec
CONSTANT Compact = TRUE
CONSTANT Ks = {15, 16, 17, 18}
CONSTANT D = 2
CONSTANT MaxVerify = 70
CONSTANT Batches = {1, 2, 3, 5, 8}
INVARIANT OK
CHECK_DEADLOCK FALSE
