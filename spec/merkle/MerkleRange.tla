---------------------------- MODULE MerkleRange ----------------------------
(* Sector-root range proofs (rhp2.BuildSectorRangeProof / VerifySectorRangeProof,
   rhp4.BuildSectorRootsProof / VerifySectorRootsProof): every (n <= N, s, e).
   For each case TLC checks definition = transcription, completeness and the
   corruption catalogue, and prints the expected proof and root as terms.
   The state graph is a tree (root -> n -> (n,s) -> (n,s,e)) so that the
   workers share the cases.                                                  *)
EXTENDS RHPMerkle, Json
CONSTANT N
VARIABLES lv, n, s, e
vars == <<lv, n, s, e>>
Init == lv = 0 /\ n = 0 /\ s = 0 /\ e = 0
Next == \/ lv = 0 /\ lv' = 1 /\ n' \in 1..N /\ UNCHANGED <<s, e>>
        \/ lv = 1 /\ lv' = 2 /\ s' \in 0..(n - 1) /\ UNCHANGED <<n, e>>
        \/ lv = 2 /\ lv' = 3 /\ e' \in (s + 1)..n /\ UNCHANGED <<n, s>>
Spec == Init /\ [][Next]_vars

Case ==
  LET L == Leaves(n)
      root == Root(L, 0, n)
      proof == BuildRangeProofAlg(L, n, s, e)
      rr == SubSeq(L, s + 1, e)
  IN
  \* definition = transcription, size formula
  /\ proof = ProofDef(L, 0, n, s, e)
  /\ Len(proof) = RangeProofSize(n, s, e)
  \* completeness
  /\ VerifyRangeAlg(proof, rr, s, e, n, root)
  \* soundness against single corruptions, the count n held true
  /\ \A i \in DOMAIN proof : ~VerifyRangeAlg([proof EXCEPT ![i] = BAD], rr, s, e, n, root)
  /\ \A i \in DOMAIN rr : ~VerifyRangeAlg(proof, [rr EXCEPT ![i] = BAD], s, e, n, root)
  /\ (proof # <<>> => ~VerifyRangeAlg(SubSeq(proof, 1, Len(proof) - 1), rr, s, e, n, root))
  /\ (proof # <<>> => ~VerifyRangeAlg(Tail(proof), rr, s, e, n, root))
  /\ ~VerifyRangeAlg(proof \o <<BAD>>, rr, s, e, n, root)
  \* the same roots claimed at any other position (the number of roots is part of the call)
  /\ \A s2 \in 0..(n - (e - s)) : s2 # s => ~VerifyRangeAlg(proof, rr, s2, s2 + (e - s), n, root)
  /\ ~VerifyRangeAlg(proof, rr, s, e, n, BAD)
  /\ PrintT("@@RP " \o ToJson([n |-> n, s |-> s, e |-> e, proof |-> proof, root |-> root]))
OK == lv = 3 => Case
=============================================================================
