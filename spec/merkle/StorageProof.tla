---------------------------- MODULE StorageProof ----------------------------
(* Storage proofs of file contracts (consensus/validation.go: the v1 verifier
   inside validateFileContracts; consensus/merkle.go: storageProofRoot for v2).

   Definition layer: the file is cut into n leaves of 64 bytes (the last one
   possibly shorter, zero-extended when hashed); Root is the plain binary
   Merkle tree that splits at the largest power of two below the count;
   ProofDef(n, i) is the bottom-up sibling list of leaf i in that tree.
   Algorithm layer: transcriptions of the two verifiers (left/right decided by
   the bits of the leaf index up to the height at which the path of leaf i
   joins the path of the last leaf; above it every sibling is on the left).

   Hashes are symbolic: a hash is the text of its pre-image, so equality of
   roots is equality of tree shapes and leaf contents.  Leaves are named by
   index and by a content tag ("d" = the file's data, "x" = altered data).    *)
EXTENDS Integers, Sequences, TLC, Json

CONSTANT MaxLeaves

Node(l, r) == "N(" \o l \o "," \o r \o ")"
Leaf(i, tag) == "L" \o ToString(i) \o tag
Pow2(k) == 2 ^ k
RECURSIVE BitLen(_)
BitLen(x) == IF x = 0 THEN 0 ELSE 1 + BitLen(x \div 2)
RECURSIVE Xor(_, _)
Xor(a, b) == IF a = 0 /\ b = 0 THEN 0 ELSE (((a % 2) + (b % 2)) % 2) + 2 * Xor(a \div 2, b \div 2)
Bit(x, k) == (x \div Pow2(k)) % 2
RECURSIVE SplitAt(_)
\* largest power of two strictly below n (n >= 2)
SplitAt(n) == IF n <= 2 THEN 1 ELSE 2 * SplitAt((n + 1) \div 2)

\* ---- definition layer ---------------------------------------------------------
RECURSIVE Root(_, _)
\* root of leaves lo .. hi-1 (all carrying the file's own data)
Root(lo, hi) == IF hi - lo = 1 THEN Leaf(lo, "d")
                ELSE LET k == SplitAt(hi - lo) IN Node(Root(lo, lo + k), Root(lo + k, hi))
RECURSIVE ProofRanges(_, _, _)
\* bottom-up list of <<lo, hi>> ranges whose roots are the siblings of leaf i in the tree over lo..hi-1
ProofRanges(lo, hi, i) ==
  IF hi - lo = 1 THEN <<>>
  ELSE LET k == SplitAt(hi - lo) IN
       IF i < lo + k THEN Append(ProofRanges(lo, lo + k, i), <<lo + k, hi>>)
       ELSE Append(ProofRanges(lo + k, hi, i), <<lo, lo + k>>)
ProofDef(n, i) == LET rs == ProofRanges(0, n, i) IN [k \in DOMAIN rs |-> Root(rs[k][1], rs[k][2])]

\* ---- algorithm layer ------------------------------------------------------------
\* v1 (validateFileContracts.storageProofRoot): n = number of leaves, last = n - 1
RECURSIVE FoldV1(_, _, _, _, _)
FoldV1(root, idx, sh, proof, k) ==
  IF k > Len(proof) THEN root
  ELSE IF Bit(idx, k - 1) = 1 \/ (k - 1) >= sh THEN FoldV1(Node(proof[k], root), idx, sh, proof, k + 1)
       ELSE FoldV1(Node(root, proof[k]), idx, sh, proof, k + 1)
\* (the length test was added by the repair of the v1 soundness defect: without it the proof of a later leaf, which
\*  is shorter when the tree is not perfect, verifies for a challenged leaf of the left part, e.g. n = 3, i = 1, j = 2)
VerifyV1(n, idx, leaf, proof) ==
  LET sh == BitLen(Xor(idx, n - 1)) IN
  IF Len(proof) < sh THEN "invalid" ELSE FoldV1(leaf, idx, sh, proof, 1)
\* v2 (consensus/merkle.go storageProofRoot): a proof shorter than the subtree height is invalid
RECURSIVE FoldBits(_, _, _, _, _)
FoldBits(root, idx, proof, k, upto) ==
  IF k > upto THEN root
  ELSE IF Bit(idx, k - 1) = 0 THEN FoldBits(Node(root, proof[k]), idx, proof, k + 1, upto)
       ELSE FoldBits(Node(proof[k], root), idx, proof, k + 1, upto)
RECURSIVE FoldLeft(_, _, _)
FoldLeft(root, proof, k) == IF k > Len(proof) THEN root ELSE FoldLeft(Node(proof[k], root), proof, k + 1)
VerifyV2(n, idx, leaf, proof) ==
  LET sh == BitLen(Xor(idx, n - 1)) IN
  IF Len(proof) < sh THEN "invalid" ELSE FoldLeft(FoldBits(leaf, idx, proof, 1, sh), proof, sh + 1)

\* ---- what the property demands ------------------------------------------------------
\* completeness: the honest proof of the challenged leaf reproduces the committed root
Complete(n, i) == VerifyV1(n, i, Leaf(i, "d"), ProofDef(n, i)) = Root(0, n)
                  /\ VerifyV2(n, i, Leaf(i, "d"), ProofDef(n, i)) = Root(0, n)
DropLast(s) == SubSeq(s, 1, Len(s) - 1)
Verify(ver, n, idx, leaf, proof) == IF ver = 1 THEN VerifyV1(n, idx, leaf, proof) ELSE VerifyV2(n, idx, leaf, proof)
\* the dishonest proofs of the property: another leaf j, altered data, a proof one hash short or long
Bad(n, i) == {<<"other", j>> : j \in (0..(n - 1)) \ {i}} \cup {<<"data", i>>, <<"long", i>>} \cup (IF n > 1 THEN {<<"short", i>>} ELSE {})
BadLeaf(n, i, b)  == IF b[1] = "other" THEN Leaf(b[2], "d") ELSE IF b[1] = "data" THEN Leaf(i, "x") ELSE Leaf(i, "d")
BadProof(n, i, b) == CASE b[1] = "other" -> ProofDef(n, b[2])
                       [] b[1] = "data"  -> ProofDef(n, i)
                       [] b[1] = "short" -> DropLast(ProofDef(n, i))
                       [] b[1] = "long"  -> Append(ProofDef(n, i), Root(0, n))
\* soundness of a verifier: none of them reproduces the root
Holes(ver, n, i) == {b \in Bad(n, i) : Verify(ver, n, i, BadLeaf(n, i, b), BadProof(n, i, b)) = Root(0, n)}
Sound(n, i) == Holes(1, n, i) = {} /\ Holes(2, n, i) = {}

\* ---- era rule for the v1 leaf (which bytes of the supplied 64-byte leaf are hashed) ----
\* era 0: before the tax fork; era 1: until the storage-proof fork; era 2: after it.
\* size = file size in bytes, idx = challenged leaf; result: number of leading bytes hashed (the rest is
\* zero-extended), or -1 when no proof is needed at all.
NumLeaves(size) == (size + 63) \div 64
LastLeaf(size) == IF size % 64 # 0 THEN size \div 64 ELSE (size \div 64) - 1
HashedBytes(era, size, idx) ==
  CASE era = 0 -> 64
    [] era = 1 -> IF idx = LastLeaf(size) THEN size % 64 ELSE 64
    [] era = 2 -> IF size = 0 THEN -1 ELSE IF idx = LastLeaf(size) /\ size % 64 # 0 THEN size % 64 ELSE 64
\* an honest proof (real data, zero-extended last leaf) is accepted unless the era cuts real data off the leaf:
\* the middle era's multiple-of-64 last leaf (a reproduced historical consensus bug)
\* (an empty file has no leaf: from the storage-proof fork on no proof of it is needed, before the fork none exists - the
\* root the contract commits to is not the root of any leaf)
HonestAccepted(era, size, idx) ==
  IF size = 0 THEN era = 2 ELSE
  LET hb == HashedBytes(era, size, idx)
      real == IF idx = LastLeaf(size) /\ size % 64 # 0 THEN size % 64 ELSE 64 IN
  hb = -1 \/ hb >= real

VARIABLES n, i
Init == n \in 1..MaxLeaves /\ i \in 0..(MaxLeaves - 1) /\ i < n
Next == UNCHANGED <<n, i>>
Holds == Complete(n, i) /\ Sound(n, i)
Complete_ == Complete(n, i)
\* generation: proof shapes for the harness (one record per (n, i): the sibling ranges of leaf i, and the dishonest
\* proofs the transcribed verifiers would accept: none, if the verifiers are sound)
Emit == PrintT("@@SHAPE " \o ToJson([n |-> n, i |-> i, ranges |-> ProofRanges(0, n, i),
                                     holes1 |-> Holes(1, n, i), holes2 |-> Holes(2, n, i)]))
EraSizes == {0, 1, 63, 64, 65, 127, 128, 129, 191, 192, 200, 320, 448}
EraCases == {[era |-> e, size |-> s, idx |-> x, hashed |-> HashedBytes(e, s, x), honest |-> HonestAccepted(e, s, x)] :
                <<e, s, x>> \in {y \in {0, 1, 2} \X EraSizes \X (0..7) : y[3] < NumLeaves(y[2]) \/ (y[2] = 0 /\ y[3] = 0)}}
\* which leaf rule governs a proof presented in the block at height child (the child block's height decides)
EraOf(child, taxH, proofH) == IF child < taxH THEN 0 ELSE IF child < proofH THEN 1 ELSE 2
ForkHeights == {0, 1, 2, 3, 4, 1000}
EraTable == {[child |-> c, taxH |-> t, proofH |-> p, era |-> EraOf(c, t, p)] : <<c, t, p>> \in {y \in (1..4) \X ForkHeights \X ForkHeights : y[2] <= y[3]}}
\* ---- several proofs in one transaction ----
\* A transaction is judged proof by proof: it is acceptable iff every one of its proofs is, in whatever order they stand
\* and whatever the sizes of their files (nothing of one proof's leaf enters the verdict on the next). sizes: the files
\* of the contracts proved, in the order of the proofs; idxs: their challenged leaves; bad: the position of the one
\* dishonest proof (0: none; files of size 0 need no proof, so theirs cannot be dishonest).
TxVerdict(era, sizes, idxs, bad) == bad = 0 /\ \A k \in DOMAIN sizes : HonestAccepted(era, sizes[k], idxs[k])
TxSizes == {0, 10, 64, 100, 128, 200}
TxLists == {<<a, b>> : a \in TxSizes, b \in TxSizes} \cup {<<a, b, c>> : a \in {10, 64, 200}, b \in {10, 64, 200}, c \in {10, 64, 200}}
TxCases == {[sizes |-> l, bad |-> k] : l \in TxLists, k \in 0..3} 
TxCasesOK == {c \in TxCases : c.bad <= Len(c.sizes) /\ (c.bad > 0 => c.sizes[c.bad] > 0)}
EmitEras == (n = 1 /\ i = 0) => (PrintT("@@ERAS " \o ToJson(EraCases)) /\ PrintT("@@ERAOF " \o ToJson(EraTable)) /\ PrintT("@@TXCASES " \o ToJson(TxCasesOK)))
=============================================================================
