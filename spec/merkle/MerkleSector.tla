---------------------------- MODULE MerkleSector ----------------------------
(* Sector level (65 536 leaves of 64 bytes): proof *shapes*.  The harness
   passes the (s,e) ranges and leaf counts to examine in sector_params.ndjson;
   for each line TLC computes, in the compact term language R(i,j),
     k = "range": the proof of [s,e) within a sector by the definition
                  (ProofDef, which is also the recursion of BuildProof /
                  BuildSectorProof) and by the nextSubtreeSize walk that
                  RangeProofVerifier.Verify and VerifySectorRangeProof
                  consume; both must agree and have RangeProofSize hashes;
     k = "root" : the root of a stream of n leaves by the definition, R(0,n),
                  and by the accumulator fold over the perfect subtrees of the
                  binary decomposition of n.
     k = "stream": the expected verdict of the streaming verifier for an altered
                  claimed range / truncated / over-long stream (see StreamLine).
   Lines are independent: chunked walk of TraceLib.                          *)
EXTENDS RHPMerkle, TraceLib, Json
Params == ndJsonDeserialize("sector_params.ndjson")
NP == Len(Params)
LPS == 65536

Range(t, l) ==
  LET def == ProofDef(<<>>, 0, LPS, t.s, t.e)
      alg == BuildRangeProofAlg(<<>>, LPS, t.s, t.e)
  IN /\ Check(0 <= t.s /\ t.s < t.e /\ t.e <= LPS, l, "SPECFAIL bad range")
     /\ Check(def = alg, l, "SPECFAIL definition and nextSubtreeSize walk differ")
     /\ Check(Len(def) = RangeProofSize(LPS, t.s, t.e), l, "SPECFAIL RangeProofSize")
     /\ PrintT("@@SP " \o ToJson([idx |-> l, s |-> t.s, e |-> t.e, proof |-> def]))
RootLine(t, l) ==
  LET acc == Fill([Empty EXCEPT !.n = t.n], 0, MaxHeight + 1, AppendDef(<<>>, t.n, 0))
  IN PrintT("@@SR " \o ToJson([idx |-> l, n |-> t.n, def |-> Sub(<<>>, 0, t.n), fold |-> AccRoot(acc)]))
\* k = "stream": the streaming verifier (NewRangeProofVerifier(s2,e2) + ReadFrom + Verify) is given
\* `len` bytes of the sector from leaf s on (the honest data of [s,e) when len = 64*(e-s), a truncated
\* or over-long stream otherwise) and the honest proof of [s,e) (pf = 0) or of the claimed range
\* [s2,e2) (pf = 1).  Expected verdict: RHPMerkle!StreamHonest in its position form (a trailing partial
\* leaf is not a leaf: ReadFrom fails if it gets that far).
StreamLine(t, l) ==
  LET ps == IF t.pf = 0 THEN t.s ELSE t.s2
      pe == IF t.pf = 0 THEN t.e ELSE t.e2
      proof == ProofDef(<<>>, 0, LPS, ps, pe)
  IN /\ Check(0 <= t.s /\ t.s < t.e /\ t.e <= LPS /\ 0 <= t.s2 /\ t.s2 < t.e2 /\ t.e2 <= LPS /\ t.len >= 0, l, "SPECFAIL bad stream line")
     /\ Check(proof = BuildRangeProofAlg(<<>>, LPS, ps, pe), l, "SPECFAIL definition and nextSubtreeSize walk differ")
     /\ PrintT("@@SS " \o ToJson([idx |-> l, s |-> t.s, e |-> t.e, s2 |-> t.s2, e2 |-> t.e2, len |-> t.len, pf |-> t.pf,
                                   proof |-> proof,
                                   accept |-> StreamCutHonest(ps, pe, t.s, t.len \div 64, t.s2, t.e2)]))
Line(l) == LET t == Params[l] IN
  CASE t.k = "range" -> Range(t, l)
    [] t.k = "root"  -> RootLine(t, l)
    [] t.k = "stream" -> StreamLine(t, l)
    [] OTHER -> Reject(l, "SPECFAIL unknown line")

VARIABLES chunk, pos
Init == chunk = 0 /\ pos = 0
Last(c) == IF c * TL_ChunkSize < NP THEN c * TL_ChunkSize ELSE NP
Next == \/ /\ chunk = 0
           /\ chunk' \in 1..NChunks(NP)
           /\ pos' = (chunk' - 1) * TL_ChunkSize + 1
        \/ /\ chunk > 0 /\ pos <= Last(chunk)
           /\ Line(pos)
           /\ pos' = pos + 1 /\ UNCHANGED chunk
Spec == Init /\ [][Next]_<<chunk, pos>>
=============================================================================
