SPECIFICATION Spec
CONSTANT Compact = FALSE
CONSTANT N = 11
CONSTANT PermK = 4
INVARIANT OK
CHECK_DEADLOCK FALSE
