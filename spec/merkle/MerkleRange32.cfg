SPECIFICATION Spec
CONSTANT Compact = FALSE
CONSTANT N = 32
INVARIANT OK
CHECK_DEADLOCK FALSE
