----------------------------- MODULE RHPMerkle -----------------------------
(* Merkle roots and proofs of the renter-host protocols (rhp/v2/merkle.go,
   rhp/v4/merkle.go, blake2b.Accumulator) over symbolic hashes.

   A hash is the text of its pre-image:
       L<i>      hash of leaf i of the case (a sector root, or the leaf hash of
                 64 bytes of sector data)
       A<i>      i-th appended sector root
       N(l,r)    blake2b.SumPair(l, r)
       Z         the all-zero hash (root of nothing, an empty accumulator slot)
       X         some hash different from every hash of the case (a corruption)
       R(i,j)    compact form, only when Compact = TRUE: Root over the leaves
                 i..j-1 exactly as defined below (the harness expands it)
   The construction is injective, so everything proved here is relative to
   collision resistance of the real hash.

   Definition layer : Root, ProofDef, MultiDef, AppendDef, ApplyActions.
   Algorithm layer  : transcriptions of RangeProofSize, nextSubtreeSize,
                      BuildSectorRangeProof, VerifySectorRangeProof,
                      proofAccumulator, BuildDiffProof, VerifyDiffProof
                      (sectorsChanged, modifyLeaves, modifyProofRanges),
                      DiffProofSize, convertFreeActions, v4 BuildAppendProof,
                      VerifyAppendSectorsProof, v2 VerifyAppendProof.
   This module has no variables; the generator modules Merkle*.tla enumerate
   cases, assert the invariants and print the expectations for the harness.   *)
EXTENDS Integers, Sequences, FiniteSets, TLC
CONSTANT Compact      \* TRUE: subtree roots are printed as R(i,j) (sector level)

Node(l, r) == "N(" \o l \o "," \o r \o ")"
LeafH(i) == "L" \o ToString(i)
AppH(i) == "A" \o ToString(i)
RTerm(lo, hi) == "R(" \o ToString(lo) \o "," \o ToString(hi) \o ")"
ZERO == "Z"
BAD == "X"
Leaves(m) == [i \in 1..m |-> LeafH(i - 1)]
INF == 2^30            \* stands for math.MaxUint64 / math.MaxInt32: above every count used
MaxHeight == 24        \* accumulator slots modelled (the code has 64)

(* ---------------- bit arithmetic ---------------- *)
Bit(x, k) == (x \div 2^k) % 2
RECURSIVE BitLen(_)
BitLen(x) == IF x = 0 THEN 0 ELSE 1 + BitLen(x \div 2)
RECURSIVE TZ(_)
TZ(x) == IF x = 0 THEN 64 ELSE IF x % 2 = 1 THEN 0 ELSE 1 + TZ(x \div 2)
RECURSIVE Pop(_)
Pop(x) == IF x = 0 THEN 0 ELSE (x % 2) + Pop(x \div 2)
RECURSIVE Xor(_, _)
Xor(x, y) == IF x = 0 /\ y = 0 THEN 0 ELSE ((x + y) % 2) + 2 * Xor(x \div 2, y \div 2)
\* ^x & (2^m - 1)
NotAnd(x, m) == LET RECURSIVE f(_, _)
                    f(v, k) == IF k = m THEN 0 ELSE (1 - (v % 2)) * 2^k + f(v \div 2, k + 1)
                IN f(x, 0)
IsPow2(x) == x > 0 /\ Pop(x) = 1
RECURSIVE SortedSeq(_)
SortedSeq(S) == IF S = {} THEN <<>>
                ELSE LET m == CHOOSE x \in S : \A y \in S : x <= y IN <<m>> \o SortedSeq(S \ {m})
SeqSet(q) == {q[i] : i \in DOMAIN q}

(* ======================= definition layer ======================= *)
\* Plain binary Merkle tree over the leaves lo..hi-1 (0-based) of L: a single
\* leaf is its own root; otherwise split at the largest power of two below
\* the length.
LargestPow2Below(m) == 2^(BitLen(m - 1) - 1)            \* m >= 2
RECURSIVE Root(_, _, _)
Root(L, lo, hi) == IF hi <= lo THEN ZERO
                   ELSE IF hi - lo = 1 THEN L[lo + 1]
                   ELSE LET sp == LargestPow2Below(hi - lo)
                        IN Node(Root(L, lo, lo + sp), Root(L, lo + sp, hi))
Sub(L, lo, hi) == IF Compact THEN RTerm(lo, hi) ELSE Root(L, lo, hi)

\* Range proof for [s,e): the roots of the maximal subtrees of the tree over
\* lo..hi-1 that lie outside the range, left to right.
RECURSIVE ProofDef(_, _, _, _, _)
ProofDef(L, lo, hi, s, e) ==
  IF lo >= s /\ hi <= e THEN <<>>
  ELSE IF hi <= s \/ lo >= e THEN <<Sub(L, lo, hi)>>
  ELSE LET sp == LargestPow2Below(hi - lo)
       IN ProofDef(L, lo, lo + sp, s, e) \o ProofDef(L, lo + sp, hi, s, e)

\* Multi-index (diff) proof: the roots of the maximal *perfect* subtrees that
\* contain none of the indices I, left to right (the diff proof never uses the
\* ragged right-spine nodes: it must stay valid when the tree shrinks or grows).
RECURSIVE MultiDef(_, _, _, _)
MultiDef(L, lo, hi, I) ==
  IF hi <= lo THEN <<>>
  ELSE IF hi - lo = 1 THEN (IF lo \in I THEN <<>> ELSE <<Sub(L, lo, hi)>>)
  ELSE IF IsPow2(hi - lo) /\ (\A i \in I : i < lo \/ i >= hi) THEN <<Sub(L, lo, hi)>>
  ELSE LET sp == LargestPow2Below(hi - lo)
       IN MultiDef(L, lo, lo + sp, I) \o MultiDef(L, lo + sp, hi, I)

\* Append proof: the roots of the perfect subtrees of the binary decomposition
\* of n, smallest (rightmost) first.
RECURSIVE AppendDef(_, _, _)
AppendDef(L, n, h) ==
  IF 2^h > n THEN <<>>
  ELSE IF Bit(n, h) = 1
       THEN LET lo == n - (n % 2^(h + 1)) IN <<Sub(L, lo, lo + 2^h)>> \o AppendDef(L, n, h + 1)
       ELSE AppendDef(L, n, h + 1)

\* Write actions: [t |-> "append"|"trim"|"swap", a, b, h]  (h: the appended root)
ActAppend(h) == [t |-> "append", a |-> 0, b |-> 0, h |-> h]
ActTrim(k) == [t |-> "trim", a |-> k, b |-> 0, h |-> ZERO]
ActSwap(i, j) == [t |-> "swap", a |-> i, b |-> j, h |-> ZERO]
\* Meaning of an action list on the list of sector roots.
ApplyOne(L, a) ==
  CASE a.t = "append" -> Append(L, a.h)
    [] a.t = "trim"   -> SubSeq(L, 1, Len(L) - a.a)
    [] a.t = "swap"   -> [L EXCEPT ![a.a + 1] = L[a.b + 1], ![a.b + 1] = L[a.a + 1]]
RECURSIVE ApplyActions(_, _, _)
ApplyActions(L, as, k) == IF k > Len(as) THEN L ELSE ApplyActions(ApplyOne(L, as[k]), as, k + 1)
\* An action list is admissible on n sectors if every action refers to existing sectors.
RECURSIVE Admissible(_, _, _)
Admissible(as, k, n) ==
  IF k > Len(as) THEN TRUE
  ELSE LET a == as[k] IN
       CASE a.t = "append" -> Admissible(as, k + 1, n + 1)
         [] a.t = "trim"   -> a.a <= n /\ Admissible(as, k + 1, n - a.a)
         [] a.t = "swap"   -> a.a < n /\ a.b < n /\ a.a >= 0 /\ a.b >= 0 /\ Admissible(as, k + 1, n)

(* ======================= algorithm layer ======================= *)
(* ---- rhp/v2: nextSubtreeSize, RangeProofSize ---- *)
NextSubtreeSize(start, end) ==
  LET ideal == TZ(start)
      mx == BitLen(end - start) - 1
  IN IF ideal > mx THEN 2^mx ELSE 2^ideal
RangeProofSize(n, s, e) == Pop(s) + Pop(NotAnd(e - 1, BitLen(Xor(e - 1, n - 1))))

(* ---- rhp/v2: BuildSectorRangeProof (= rhp/v4 BuildSectorRootsProof) ----
   MetaRoot(sectorRoots[i:][:size]) is written Sub(L, i, i+size): that MetaRoot
   is the plain root is checked on the real code separately.                  *)
RECURSIVE BuildRange(_, _, _, _)
BuildRange(L, n, i, j) ==
  IF ~(i < j /\ i < n) THEN <<>>
  ELSE LET sz0 == NextSubtreeSize(i, j)
           sz == IF i + sz0 > n THEN n - i ELSE sz0
       IN <<Sub(L, i, i + sz)>> \o BuildRange(L, n, i + sz, j)
BuildRangeProofAlg(L, n, s, e) == BuildRange(L, n, 0, s) \o BuildRange(L, n, e, 2147483647)

(* ---- rhp/v2: proofAccumulator ([n, trees]); blake2b.Accumulator is the same
   algorithm with every insertion at height 0 ---- *)
Empty == [n |-> 0, trees |-> [h \in 0..MaxHeight |-> ZERO]]
HasNode(acc, h) == Bit(acc.n, h) = 1
RECURSIVE InsertAt(_, _, _)
InsertAt(acc, h, i) == IF HasNode(acc, i) THEN InsertAt(acc, Node(acc.trees[i], h), i + 1)
                       ELSE [acc EXCEPT !.trees[i] = h]
InsertNode(acc, h, height) == [InsertAt(acc, h, height) EXCEPT !.n = acc.n + 2^height]
RECURSIVE FoldUp(_, _, _)
FoldUp(acc, i, root) ==
  IF i > MaxHeight THEN root
  ELSE FoldUp(acc, i + 1, IF HasNode(acc, i) THEN Node(acc.trees[i], root) ELSE root)
AccRoot(acc) == IF acc.n = 0 THEN ZERO ELSE LET i == TZ(acc.n) IN FoldUp(acc, i + 1, acc.trees[i])
RECURSIVE InsertLeaves(_, _, _)
InsertLeaves(acc, rs, k) == IF k > Len(rs) THEN acc ELSE InsertLeaves(InsertNode(acc, rs[k], 0), rs, k + 1)

\* insertRange / consume: st = [acc, proof]; hashes are taken from the proof
\* while there are any
RECURSIVE InsertRange(_, _, _)
InsertRange(st, i, j) ==
  IF ~(i < j /\ Len(st.proof) > 0) THEN st
  ELSE LET sz == NextSubtreeSize(i, j) IN
       InsertRange([acc |-> InsertNode(st.acc, Head(st.proof), BitLen(sz) - 1), proof |-> Tail(st.proof)],
                   i + sz, j)

(* ---- rhp/v2: VerifySectorRangeProof (= v4 VerifySectorRootsProof; v4
   VerifyLeafProof is the case e = s+1, n = 65536) ---- *)
VerifyRangeAlg(proof, rangeRoots, s, e, n, root) ==
  IF Len(proof) # RangeProofSize(n, s, e) THEN FALSE
  ELSE LET st1 == InsertRange([acc |-> Empty, proof |-> proof], 0, s)
           acc2 == InsertLeaves(st1.acc, rangeRoots, 1)
           st3 == InsertRange([acc |-> acc2, proof |-> st1.proof], e, INF)
       IN AccRoot(st3.acc) = root

(* ---- rhp/v2: RangeProofVerifier, the streaming verifier (NewRangeProofVerifier +
   ReadFrom + Verify; rhp/v4 re-exports it).  ns = leaves per sector (code: 65536).
   The stream is the sequence of the leaf hashes of the whole leaves the reader
   delivers (a trailing partial leaf makes ReadFrom fail: no verdict "accept").
   ReadFrom walks the subtrees of the CLAIMED range and records, for every one of
   them, ReaderRoot of the at most subtreeSize leaves the stream still has: the
   plain root of those leaves, the zero hash when the stream is exhausted.  It
   never reads more than e - s leaves.  Verify inserts the left proof hashes,
   the recorded roots at the heights of the walk, the right proof hashes.       *)
ReaderRootOf(q) == Root(q, 0, Len(q))
RECURSIVE StreamRoots(_, _, _)
StreamRoots(q, i, j) ==
  IF ~(i < j) THEN <<>>
  ELSE LET sz == NextSubtreeSize(i, j)
           take == IF Len(q) < sz THEN Len(q) ELSE sz
       IN <<ReaderRootOf(SubSeq(q, 1, take))>> \o StreamRoots(SubSeq(q, take + 1, Len(q)), i + sz, j)
VerifyStreamAlg(proof, stream, s, e, ns, root) ==
  IF Len(proof) # RangeProofSize(ns, s, e) THEN FALSE
  ELSE LET st1 == InsertRange([acc |-> Empty, proof |-> proof], 0, s)
           st2 == InsertRange([acc |-> st1.acc, proof |-> StreamRoots(stream, s, e)], s, e)
           st3 == InsertRange([acc |-> st2.acc, proof |-> st1.proof], e, ns)
       IN AccRoot(st3.acc) = root
\* The range-proof model's verdict for a streaming verification against the true
\* root of the sector L: accept exactly when the proof is the honest proof of the
\* claimed range [s,e) and the first e - s leaves of the stream (all it may read)
\* are the honest leaves s..e-1.  An altered start or end, a stream that ends
\* early, a foreign leaf among those read, any other proof: reject.  Leaves
\* behind the claimed range are not read and do not matter.
StreamHonest(L, ns, proof, stream, s, e) ==
  /\ proof = ProofDef(L, 0, ns, s, e)
  /\ Len(stream) >= e - s
  /\ SubSeq(stream, 1, e - s) = SubSeq(L, s + 1, e)
\* The same verdict by position arithmetic, for the streams used at sector level
\* (where sequences of 65536 leaves are not built): the stream is cut from the
\* sector itself, nl whole leaves from leaf ds on (pairwise different leaves), and
\* the proof is the honest proof of [ps,pe).  MerkleStream checks that this IS
\* StreamHonest on every such stream of the small sector.
StreamCutHonest(ps, pe, ds, nl, s, e) == ps = s /\ pe = e /\ ds = s /\ nl >= e - s

(* ---- rhp/v2: sectorsChanged, BuildDiffProof, DiffProofSize ---- *)
RECURSIVE ChangedSet(_, _, _, _)
ChangedSet(as, k, newN, S) ==
  IF k > Len(as) THEN S
  ELSE LET a == as[k] IN
       CASE a.t = "append" -> ChangedSet(as, k + 1, newN + 1, S \cup {newN})
         [] a.t = "trim"   -> ChangedSet(as, k + 1, newN - a.a, S \cup ((newN - a.a)..(newN - 1)))
         [] a.t = "swap"   -> ChangedSet(as, k + 1, newN, S \cup {a.a, a.b})
SectorsChanged(as, n) == SortedSeq({i \in ChangedSet(as, 1, n, {}) : i < n})

RECURSIVE DiffRange(_, _, _)
DiffRange(L, i, j) ==
  IF ~(i < j) THEN <<>>
  ELSE LET sz == NextSubtreeSize(i, j) IN <<Sub(L, i, i + sz)>> \o DiffRange(L, i + sz, j)
RECURSIVE DiffTree(_, _, _, _, _)
DiffTree(L, idx, k, start, n) ==
  IF k > Len(idx) THEN DiffRange(L, start, n)
  ELSE DiffRange(L, start, idx[k]) \o DiffTree(L, idx, k + 1, idx[k] + 1, n)
BuildDiffAlg(L, as, n) ==
  LET idx == SectorsChanged(as, n) IN
  [th |-> DiffTree(L, idx, 1, 0, n), lh |-> [k \in 1..Len(idx) |-> L[idx[k] + 1]]]
\* DiffProofSize: the same walk, counting
RECURSIVE CountRange(_, _)
CountRange(i, j) == IF ~(i < j) THEN 0 ELSE 1 + CountRange(i + NextSubtreeSize(i, j), j)
RECURSIVE CountTree(_, _, _, _)
CountTree(idx, k, start, n) ==
  IF k > Len(idx) THEN CountRange(start, n)
  ELSE CountRange(start, idx[k]) + CountTree(idx, k + 1, idx[k] + 1, n)
DiffProofSizeAlg(as, n) == LET idx == SectorsChanged(as, n) IN Len(idx) + CountTree(idx, 1, 0, n)

(* ---- rhp/v2: VerifyDiffProof (verifyMulti, modifyLeaves, modifyProofRanges) ---- *)
RECURSIVE VMulti(_, _, _, _, _, _)
VMulti(idx, k, start, st, lh, n) ==
  IF k > Len(idx) THEN InsertRange(st, start, n)
  ELSE LET st1 == InsertRange(st, start, idx[k]) IN
       VMulti(idx, k + 1, idx[k] + 1, [acc |-> InsertNode(st1.acc, lh[k], 0), proof |-> st1.proof], lh, n)
VerifyMulti(idx, th, lh, n, root) ==
  LET st == VMulti(idx, 1, 0, [acc |-> Empty, proof |-> th], lh, n)
  IN AccRoot(st.acc) = root /\ st.proof = <<>>

\* indexMap of modifyLeaves: position of an index among the sorted distinct
\* indices touched by the actions (those at or above n included)
Rank(S, x) == Cardinality({y \in S : y < x})
RECURSIVE MLeaves(_, _, _, _)
MLeaves(lh, as, k, S) ==
  IF k > Len(as) THEN lh
  ELSE LET a == as[k] IN
       CASE a.t = "append" -> MLeaves(Append(lh, a.h), as, k + 1, S)
         [] a.t = "trim"   -> MLeaves(SubSeq(lh, 1, Len(lh) - a.a), as, k + 1, S)
         [] a.t = "swap"   -> LET i == Rank(S, a.a) + 1  j == Rank(S, a.b) + 1 IN
                              MLeaves([lh EXCEPT ![i] = lh[j], ![j] = lh[i]], as, k + 1, S)
ModifyLeaves(lh, as, n) == MLeaves(lh, as, 1, ChangedSet(as, 1, n, {}))
RECURSIVE MRanges(_, _, _, _)
MRanges(idx, as, k, n) ==
  IF k > Len(as) THEN idx
  ELSE LET a == as[k] IN
       CASE a.t = "append" -> MRanges(Append(idx, n), as, k + 1, n + 1)
         [] a.t = "trim"   -> MRanges(SubSeq(idx, 1, Len(idx) - a.a), as, k + 1, n - a.a)
         [] a.t = "swap"   -> MRanges(idx, as, k + 1, n)
VerifyDiffAlg(as, n, th, lh, oldRoot, newRoot) ==
  LET idx == SectorsChanged(as, n) IN
  IF Len(idx) # Len(lh) THEN FALSE
  ELSE IF ~VerifyMulti(idx, th, lh, n, oldRoot) THEN FALSE
  ELSE LET nl == ModifyLeaves(lh, as, n)
           ni == MRanges(idx, as, 1, n)
       IN VerifyMulti(ni, th, nl, n + Len(nl) - Len(lh), newRoot)

(* ---- rhp/v4: convertFreeActions ---- *)
ConvFree(freed, n) == [i \in 1..Len(freed) |-> ActSwap(freed[i], n - (i - 1) - 1)] \o <<ActTrim(Len(freed))>>

(* ---- rhp/v4: BuildAppendProof, VerifyAppendSectorsProof; rhp/v2: VerifyAppendProof ---- *)
RECURSIVE TreesAtBits(_, _)
TreesAtBits(acc, i) ==
  IF i > MaxHeight THEN <<>>
  ELSE (IF HasNode(acc, i) THEN <<acc.trees[i]>> ELSE <<>>) \o TreesAtBits(acc, i + 1)
BuildAppendAlg(L, app) ==
  LET acc0 == InsertLeaves(Empty, L, 1) IN
  [sub |-> TreesAtBits(acc0, 0), newRoot |-> AccRoot(InsertLeaves(acc0, app, 1))]
RECURSIVE Fill(_, _, _, _)
Fill(acc, i, lim, sub) ==
  IF i >= lim THEN acc
  ELSE IF HasNode(acc, i) /\ sub # <<>> THEN Fill([acc EXCEPT !.trees[i] = Head(sub)], i + 1, lim, Tail(sub))
  ELSE Fill(acc, i + 1, lim, sub)
VerifyAppendSectorsAlg(n, sub, app, oldRoot, newRoot) ==
  LET acc == Fill([Empty EXCEPT !.n = n], 0, BitLen(n), sub) IN
  IF AccRoot(acc) # oldRoot THEN FALSE ELSE AccRoot(InsertLeaves(acc, app, 1)) = newRoot
VerifyAppendV2Alg(n, sub, sectorRoot, oldRoot, newRoot) ==
  LET acc == Fill([Empty EXCEPT !.n = n], 0, MaxHeight + 1, sub) IN
  IF AccRoot(acc) # oldRoot THEN FALSE ELSE AccRoot(InsertNode(acc, sectorRoot, 0)) = newRoot
=============================================================================
