SPECIFICATION Spec
CONSTANT Compact = FALSE
CONSTANT N = 8
CONSTANT PermK = 4
INVARIANT OK
CHECK_DEADLOCK FALSE
