---------------------------- MODULE MerkleWrite ----------------------------
(* rhp2 diff proofs for general write-action lists (append, trim, swap mixed):
   BuildDiffProof / VerifyDiffProof / DiffProofSize.  Every admissible list of
   1..LW actions on 1..N sectors (trim sizes 1..MaxTrim, swaps a <= b).       *)
EXTENDS RHPMerkle, Json
CONSTANTS N, LW, MaxTrim
VARIABLES n, as, cur, na
vars == <<n, as, cur, na>>
Init == n = 0 /\ as = <<>> /\ cur = 0 /\ na = 0
Min(a, b) == IF a < b THEN a ELSE b
Next ==
  \/ n = 0 /\ n' \in 1..N /\ cur' = n' /\ UNCHANGED <<as, na>>
  \/ /\ n > 0 /\ Len(as) < LW
     /\ UNCHANGED n
     /\ \/ as' = Append(as, ActAppend(AppH(na))) /\ cur' = cur + 1 /\ na' = na + 1
        \/ \E k \in 1..Min(cur, MaxTrim) : as' = Append(as, ActTrim(k)) /\ cur' = cur - k /\ UNCHANGED na
        \/ \E a \in 0..(cur - 1) : \E b \in a..(cur - 1) : as' = Append(as, ActSwap(a, b)) /\ UNCHANGED <<cur, na>>
Spec == Init /\ [][Next]_vars

Case ==
  LET L == Leaves(n)
      b == BuildDiffAlg(L, as, n)
      post == ApplyActions(L, as, 1)
      old == Root(L, 0, n)
      new == Root(post, 0, Len(post))
      I == {i \in ChangedSet(as, 1, n, {}) : i < n}
      V(th, lh, o, nw) == VerifyDiffAlg(as, n, th, lh, o, nw)
  IN
  /\ Admissible(as, 1, n)
  /\ Len(post) = cur
  /\ b.th = MultiDef(L, 0, n, I)
  /\ Len(b.th) + Len(b.lh) = DiffProofSizeAlg(as, n)
  /\ V(b.th, b.lh, old, new)
  /\ \A i \in DOMAIN b.th : ~V([b.th EXCEPT ![i] = BAD], b.lh, old, new)
  /\ \A i \in DOMAIN b.lh : ~V(b.th, [b.lh EXCEPT ![i] = BAD], old, new)
  /\ (b.th # <<>> => ~V(SubSeq(b.th, 1, Len(b.th) - 1), b.lh, old, new))
  /\ ~V(b.th \o <<BAD>>, b.lh, old, new)
  /\ (b.lh # <<>> => ~V(b.th, SubSeq(b.lh, 1, Len(b.lh) - 1), old, new))
  /\ ~V(b.th, b.lh \o <<BAD>>, old, new)
  /\ ~V(b.th, b.lh, BAD, new)
  /\ ~V(b.th, b.lh, old, BAD)
  /\ PrintT("@@WR " \o ToJson([n |-> n, as |-> as, th |-> b.th, lh |-> b.lh, old |-> old, new |-> new]))
OK == Len(as) > 0 => Case
=============================================================================
