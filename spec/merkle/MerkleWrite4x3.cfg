SPECIFICATION Spec
CONSTANT Compact = FALSE
CONSTANT N = 4
CONSTANT LW = 3
CONSTANT MaxTrim = 2
INVARIANT OK
CHECK_DEADLOCK FALSE
