---------------------------- MODULE MerkleStream ----------------------------
(* The streaming range-proof verifier (rhp2.NewRangeProofVerifier + ReadFrom +
   Verify, re-exported by rhp/v4) on a sector of NS leaves, exhaustively:
   for every honest range [s,e), every CLAIMED range [s2,e2) with
   |s2-s| <= D and |e2-e| <= D (D >= NS: every claimed range), every stream
   made of the sector's leaves from s on -- every length k from 0 (nothing) over
   e-s (exactly the honest data) to the end of the sector plus one foreign
   leaf (over-long), with no leaf or any one leaf p replaced by a foreign
   one -- and the honest proof of [s,e) as well as the honest proof of
   [s2,e2): the transcription VerifyStreamAlg of the code accepts exactly when
   the range-proof model says so (StreamHonest: the claimed range, the data
   read and the proof are the honest ones).  In particular an altered end
   index, or a stream truncated at a subtree boundary, is rejected at every
   position of the sector, the last leaves included.
   The state graph is a tree: root -> s -> (s,e) -> (s,e,s2) -> (s,e,s2,e2).   *)
EXTENDS RHPMerkle, Json
CONSTANTS NS, D
VARIABLES lv, s, e, s2, e2
vars == <<lv, s, e, s2, e2>>
Init == lv = 0 /\ s = 0 /\ e = 0 /\ s2 = 0 /\ e2 = 0
Near(x, y) == x - y <= D /\ y - x <= D
Next == \/ lv = 0 /\ lv' = 1 /\ s' \in 0..(NS - 1) /\ UNCHANGED <<e, s2, e2>>
        \/ lv = 1 /\ lv' = 2 /\ e' \in (s + 1)..NS /\ UNCHANGED <<s, s2, e2>>
        \/ lv = 2 /\ lv' = 3 /\ s2' \in {x \in 0..(NS - 1) : Near(x, s)} /\ UNCHANGED <<s, e, e2>>
        \/ lv = 3 /\ lv' = 4 /\ e2' \in {y \in (s2 + 1)..NS : Near(y, e)} /\ UNCHANGED <<s, e, s2>>
Spec == Init /\ [][Next]_vars

L == Leaves(NS)
\* k leaves of the sector from s on (foreign behind the end of the sector), leaf p foreign (p = 0: none)
Stream(k, p) == [i \in 1..k |-> IF i = p \/ s + i > NS THEN BAD ELSE L[s + i]]
Variants == {<<k, p>> \in (0..(NS - s + 1)) \X (0..(NS + 1)) : p <= k}
Case ==
  LET root == Root(L, 0, NS)
      honest == ProofDef(L, 0, NS, s, e)
      claimed == ProofDef(L, 0, NS, s2, e2)
      Ok(pf, v) == VerifyStreamAlg(pf, Stream(v[1], v[2]), s2, e2, NS, root)
                     = StreamHonest(L, NS, pf, Stream(v[1], v[2]), s2, e2)
      acc == Cardinality({v \in Variants : StreamHonest(L, NS, claimed, Stream(v[1], v[2]), s2, e2)})
  IN /\ \A v \in Variants : Ok(honest, v) /\ Ok(claimed, v)
     \* the position-arithmetic form used at sector level is the same verdict
     /\ \A k \in 0..(NS - s) :
          /\ StreamHonest(L, NS, honest, Stream(k, 0), s2, e2) = StreamCutHonest(s, e, s, k, s2, e2)
          /\ StreamHonest(L, NS, claimed, Stream(k, 0), s2, e2) = StreamCutHonest(s2, e2, s, k, s2, e2)
     \* an altered end index, explicitly, explicitly: the honest data and proof of [s,e) under a later end index
     /\ (s2 = s /\ e2 > e => ~VerifyStreamAlg(honest, Stream(e - s, 0), s2, e2, NS, root))
     /\ (s2 = s /\ e2 > e => ~VerifyStreamAlg(claimed, Stream(e - s, 0), s2, e2, NS, root))
     /\ (s2 = s /\ e2 < e => ~VerifyStreamAlg(honest, Stream(e - s, 0), s2, e2, NS, root))
     /\ PrintT("@@ST " \o ToJson([s |-> s, e |-> e, s2 |-> s2, e2 |-> e2, variants |-> 2 * Cardinality(Variants), accept |-> acc]))
OK == lv = 4 => Case
=============================================================================
