SPECIFICATION Spec
CONSTANT Compact = FALSE
CONSTANT NS = 8
CONSTANT D = 8
INVARIANT OK
CHECK_DEADLOCK FALSE
