SPECIFICATION Spec
CONSTANT TL_ChunkSize = 64
CHECK_DEADLOCK FALSE
