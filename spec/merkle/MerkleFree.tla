----------------------------- MODULE MerkleFree -----------------------------
(* Free-sectors (swap + trim) diff proofs: rhp4.BuildFreeSectorsProof /
   VerifyFreeSectorsProof = rhp2.BuildDiffProof / VerifyDiffProof on the
   actions of convertFreeActions.  Every non-empty subset of the n <= N
   sectors is freed; a subset of at most PermK indices in every order, a
   larger one ascending, descending and rotated.                             *)
EXTENDS RHPMerkle, Json
CONSTANTS N, PermK
VARIABLES lv, n, m, freed
vars == <<lv, n, m, freed>>

MaskSet(mask, k) == {i \in 0..(k - 1) : Bit(mask, i) = 1}
RECURSIVE Perms(_)
Perms(S) == IF S = {} THEN {<<>>} ELSE UNION {{<<x>> \o p : p \in Perms(S \ {x})} : x \in S}
Reverse(q) == [i \in 1..Len(q) |-> q[Len(q) + 1 - i]]
Orders(S) == IF Cardinality(S) <= PermK THEN Perms(S)
             ELSE LET asc == SortedSeq(S) IN {asc, Reverse(asc), Tail(asc) \o <<Head(asc)>>}

Init == lv = 0 /\ n = 0 /\ m = 0 /\ freed = <<>>
Next == \/ lv = 0 /\ lv' = 1 /\ n' \in 1..N /\ UNCHANGED <<m, freed>>
        \/ lv = 1 /\ lv' = 2 /\ m' \in 1..(2^n - 1) /\ UNCHANGED <<n, freed>>
        \/ lv = 2 /\ lv' = 3 /\ freed' \in Orders(MaskSet(m, n)) /\ UNCHANGED <<n, m>>
Spec == Init /\ [][Next]_vars

\* index corruption p in 1..k*n: position ((p-1) \div n)+1 of the list replaced by the value (p-1) % n
Moved(p) == [freed EXCEPT ![((p - 1) \div n) + 1] = (p - 1) % n]

Case ==
  LET L == Leaves(n)
      k == Len(freed)
      as == ConvFree(freed, n)
      b == BuildDiffAlg(L, as, n)
      I == SeqSet(freed) \cup ((n - k)..(n - 1))
      post == ApplyActions(L, as, 1)
      old == Root(L, 0, n)
      new == Root(post, 0, n - k)
      \* The verifier is handed an index list that differs in one place from the one
      \* the proof was built for.  Given the true n, old is the root of L only, so
      \* accepting is sound only if the altered request also leads to `new`.
      mv == [p \in 1..(k * n) |-> Moved(p)]
      ic == [p \in 1..(k * n) |-> mv[p] # freed /\ Root(ApplyActions(L, ConvFree(mv[p], n), 1), 0, n - k) # new]  \* TRUE: must be rejected
      \* what the transcribed verifier does with it (not asserted here: the verdict on
      \* this clause is taken from the real code by the harness)
      ia == [p \in 1..(k * n) |-> VerifyDiffAlg(ConvFree(mv[p], n), n, b.th, b.lh, old, new)]
  IN
  /\ Admissible(as, 1, n)
  /\ Len(post) = n - k
  \* definition = transcription
  /\ b.th = MultiDef(L, 0, n, I)
  /\ b.lh = [j \in 1..Len(SortedSeq(I)) |-> L[SortedSeq(I)[j] + 1]]
  /\ Len(b.th) + Len(b.lh) = DiffProofSizeAlg(as, n)
  \* completeness, with the old root and the root of the resulting contract
  /\ VerifyDiffAlg(as, n, b.th, b.lh, old, new)
  \* soundness, n held true
  /\ \A i \in DOMAIN b.th : ~VerifyDiffAlg(as, n, [b.th EXCEPT ![i] = BAD], b.lh, old, new)
  /\ \A i \in DOMAIN b.lh : ~VerifyDiffAlg(as, n, b.th, [b.lh EXCEPT ![i] = BAD], old, new)
  /\ (b.th # <<>> => ~VerifyDiffAlg(as, n, SubSeq(b.th, 1, Len(b.th) - 1), b.lh, old, new))
  /\ (b.th # <<>> => ~VerifyDiffAlg(as, n, Tail(b.th), b.lh, old, new))
  /\ ~VerifyDiffAlg(as, n, b.th \o <<BAD>>, b.lh, old, new)
  /\ ~VerifyDiffAlg(as, n, b.th, SubSeq(b.lh, 1, Len(b.lh) - 1), old, new)
  /\ ~VerifyDiffAlg(as, n, b.th, b.lh \o <<BAD>>, old, new)
  /\ ~VerifyDiffAlg(as, n, b.th, b.lh, BAD, new)
  /\ ~VerifyDiffAlg(as, n, b.th, b.lh, old, BAD)
  /\ \A p \in 1..(k * n) : ~ic[p] => ia[p]        \* an equivalent request is accepted
  /\ PrintT("@@FR " \o ToJson([n |-> n, freed |-> freed, th |-> b.th, lh |-> b.lh, old |-> old, new |-> new, ic |-> ic, ia |-> ia]))
OK == lv = 3 => Case
=============================================================================
