---------------------------- MODULE MerkleLarge ----------------------------
(* The sector-ROOT tree of a contract at LARGE sizes.

   The proofs over the list of sector roots (range, append, free) are claimed
   for EVERY number n of sectors of a contract.  n is unbounded: in particular
   it is not bounded by B = 65536 = LeavesPerSector, which is the (fixed) size
   of the other tree of the protocol, the segment tree inside one sector.  No
   clause about the root tree may depend on B or on any other power of two.
   The exhaustive families (MerkleRange, MerkleAppend, MerkleFree) stop at a
   few dozen roots; this module continues them at the boundaries:

     Counts  the sizes around every power of two 2^k, k in Ks (just below, at,
             just above, ragged above), where Ks contains 16 (= B) and larger
             exponents;
     Marks   the positions within D of the anchors 0, B, n, the top split of
             the tree of n leaves, and an unaligned interior point;
     range   every [s,e) with s, e in Marks(n): before, across and behind B,
             at the start and at the ragged end of the tree;
     append  batches appended to a contract of n in Counts sectors;
     free    freed index lists drawn from the anchors.

   Subtree roots are written in the compact form R(i,j) (Compact = TRUE); the
   harness evaluates them with the real hash.  For every case TLC checks
   definition = transcription of the builder and the size formula.  The
   transcribed VERIFIERS are run in the interval domain: a hash is the
   interval [lo,hi) whose Root it is, Node(l,r) is an interval exactly when l
   and r are the two children that the definition of Root gives to their
   union, and NONE otherwise (NONE is absorbing).  This is the accumulator of
   RHPMerkle with INode in the place of Node; a verifier accepts when its
   accumulator root is the interval [0,n).  Completeness of the builder /
   verifier pair is asserted for every range of at most MaxVerify roots
   (longer ranges: builder clauses only; the real pair is run by the harness
   on all of them).                                                          *)
EXTENDS RHPMerkle, Json
CONSTANTS Ks, D, MaxVerify, Batches
B == 65536

CountsOf(k) == {2^k - 1, 2^k, 2^k + 1, 2^k + 3, 2^k + 2^(k - 4) + 3}
Counts == UNION {CountsOf(k) : k \in Ks}
Anchors(n) == {0, B, n, LargestPow2Below(n), n \div 3}
Marks(n) == {x \in {a + d : a \in Anchors(n), d \in (0 - D)..D} : 0 <= x /\ x <= n}

\* freed index lists (rhp4 free-sectors request), in the order of the request
FreeCands(n) ==
  LET p == LargestPow2Below(n) IN
  {<<0>>, <<B - 1>>, <<B>>, <<n - 1>>, <<p>>, <<p - 1>>,
   <<B - 1, B>>, <<B, B - 1>>, <<n - 1, 0>>, <<n - 1, n - 2>>, <<0, B, n - 1>>, <<B + 1, 1, B - 2>>, <<n - 2, B, 0, n - 1>>}
Distinct(q) == \A i, j \in DOMAIN q : i # j => q[i] # q[j]
FreedLists(n) == {q \in FreeCands(n) : Distinct(q) /\ \A i \in DOMAIN q : 0 <= q[i] /\ q[i] < n}

(* ---------------- interval domain ---------------- *)
NONE == [lo |-> -1, hi |-> -1]
Iv(lo, hi) == [lo |-> lo, hi |-> hi]
INode(l, r) == IF /\ l.lo >= 0 /\ l.lo < l.hi /\ r.lo < r.hi /\ l.hi = r.lo
                  /\ l.hi - l.lo = LargestPow2Below(r.hi - l.lo)
               THEN Iv(l.lo, r.hi) ELSE NONE
Terms(q) == [i \in DOMAIN q |-> RTerm(q[i].lo, q[i].hi)]

IEmpty == [n |-> 0, trees |-> [h \in 0..MaxHeight |-> NONE]]
RECURSIVE IInsertAt(_, _, _)
IInsertAt(acc, h, i) == IF HasNode(acc, i) THEN IInsertAt(acc, INode(acc.trees[i], h), i + 1)
                        ELSE [acc EXCEPT !.trees[i] = h]
IInsertNode(acc, h, height) == [IInsertAt(acc, h, height) EXCEPT !.n = acc.n + 2^height]
RECURSIVE IFoldUp(_, _, _)
IFoldUp(acc, i, root) ==
  IF i > MaxHeight THEN root
  ELSE IFoldUp(acc, i + 1, IF HasNode(acc, i) THEN INode(acc.trees[i], root) ELSE root)
IAccRoot(acc) == IF acc.n = 0 THEN NONE ELSE LET i == TZ(acc.n) IN IFoldUp(acc, i + 1, acc.trees[i])
RECURSIVE IInsertLeaves(_, _, _)
IInsertLeaves(acc, i, j) == IF i >= j THEN acc ELSE IInsertLeaves(IInsertNode(acc, Iv(i, i + 1), 0), i + 1, j)
RECURSIVE IInsertRange(_, _, _)
IInsertRange(st, i, j) ==
  IF ~(i < j /\ Len(st.proof) > 0) THEN st
  ELSE LET sz == NextSubtreeSize(i, j) IN
       IInsertRange([acc |-> IInsertNode(st.acc, Head(st.proof), BitLen(sz) - 1), proof |-> Tail(st.proof)], i + sz, j)
\* VerifySectorRangeProof / VerifySectorRootsProof (RHPMerkle!VerifyRangeAlg) on intervals
IVerifyRange(proof, s, e, n) ==
  IF Len(proof) # RangeProofSize(n, s, e) THEN FALSE
  ELSE LET st1 == IInsertRange([acc |-> IEmpty, proof |-> proof], 0, s)
           acc2 == IInsertLeaves(st1.acc, s, e)
           st3 == IInsertRange([acc |-> acc2, proof |-> st1.proof], e, INF)
       IN IAccRoot(st3.acc) = Iv(0, n)
\* the definitions, as intervals
RECURSIVE IProofDef(_, _, _, _)
IProofDef(lo, hi, s, e) ==
  IF lo >= s /\ hi <= e THEN <<>>
  ELSE IF hi <= s \/ lo >= e THEN <<Iv(lo, hi)>>
  ELSE LET sp == LargestPow2Below(hi - lo) IN IProofDef(lo, lo + sp, s, e) \o IProofDef(lo + sp, hi, s, e)
RECURSIVE IAppendDef(_, _)
IAppendDef(n, h) ==
  IF 2^h > n THEN <<>>
  ELSE IF Bit(n, h) = 1 THEN LET lo == n - (n % 2^(h + 1)) IN <<Iv(lo, lo + 2^h)>> \o IAppendDef(n, h + 1)
       ELSE IAppendDef(n, h + 1)
\* VerifyAppendSectorsProof (RHPMerkle!Fill, VerifyAppendSectorsAlg) on intervals
RECURSIVE IFill(_, _, _, _)
IFill(acc, i, lim, sub) ==
  IF i >= lim THEN acc
  ELSE IF HasNode(acc, i) /\ sub # <<>> THEN IFill([acc EXCEPT !.trees[i] = Head(sub)], i + 1, lim, Tail(sub))
  ELSE IFill(acc, i + 1, lim, sub)
IVerifyAppend(n, sub, k) ==
  LET acc == IFill([IEmpty EXCEPT !.n = n], 0, BitLen(n), sub) IN
  IAccRoot(acc) = Iv(0, n) /\ IAccRoot(IInsertLeaves(acc, n, n + k)) = Iv(0, n + k)

(* ---------------- the cases ---------------- *)
VARIABLES lv, fam, n, a, b, fr
vars == <<lv, fam, n, a, b, fr>>
Init == lv = 0 /\ fam = 0 /\ n = 0 /\ a = 0 /\ b = 0 /\ fr = <<>>
Next == \/ lv = 0 /\ lv' = 1 /\ n' \in Counts /\ UNCHANGED <<fam, a, b, fr>>
        \/ lv = 1 /\ lv' = 2 /\ fam' = 1 /\ a' \in {x \in Marks(n) : x < n} /\ UNCHANGED <<n, b, fr>>
        \/ lv = 2 /\ lv' = 3 /\ b' \in {x \in Marks(n) : x > a} /\ UNCHANGED <<fam, n, a, fr>>
        \/ lv = 1 /\ lv' = 3 /\ fam' = 2 /\ a' \in Batches /\ UNCHANGED <<n, b, fr>>
        \/ lv = 1 /\ lv' = 3 /\ fam' = 3 /\ fr' \in FreedLists(n) /\ UNCHANGED <<n, a, b>>
Spec == Init /\ [][Next]_vars

\* where the range lies relative to B (for the coverage record of the harness)
Side(s, e) == IF e <= B THEN "left" ELSE IF s >= B THEN "right" ELSE "across"

RangeCase ==
  LET s == a
      e == b
      def == ProofDef(<<>>, 0, n, s, e)
      alg == BuildRangeProofAlg(<<>>, n, s, e)
      ip == IProofDef(0, n, s, e)
      chk == e - s <= MaxVerify
  IN
  /\ def = alg
  /\ Terms(ip) = def
  /\ Len(def) = RangeProofSize(n, s, e)
  /\ (chk =>
       \* completeness: the verifier's walk reassembles exactly the tree of n leaves
       /\ IVerifyRange(ip, s, e, n)
       \* the same proof under a moved claim, a proof that stops short, a foreign hash
       /\ (e < n => ~IVerifyRange(ip, s + 1, e + 1, n))
       /\ (s > 0 => ~IVerifyRange(ip, s - 1, e - 1, n))
       /\ (ip # <<>> => ~IVerifyRange(SubSeq(ip, 1, Len(ip) - 1), s, e, n))
       /\ (ip # <<>> => ~IVerifyRange(Tail(ip), s, e, n))
       /\ ~IVerifyRange(ip \o <<NONE>>, s, e, n)
       /\ \A i \in DOMAIN ip : ~IVerifyRange([ip EXCEPT ![i] = NONE], s, e, n))
  /\ PrintT("@@LR " \o ToJson([n |-> n, s |-> s, e |-> e, proof |-> def, root |-> RTerm(0, n),
                                side |-> Side(s, e), verified |-> chk]))

AppendCase ==
  LET k == a
      sub == IAppendDef(n, 0)
  IN
  /\ Terms(sub) = AppendDef(<<>>, n, 0)
  /\ Len(sub) = Pop(n)
  /\ IVerifyAppend(n, sub, k)
  /\ (sub # <<>> => ~IVerifyAppend(n, Tail(sub), k))
  /\ \A i \in DOMAIN sub : ~IVerifyAppend(n, [sub EXCEPT ![i] = NONE], k)
  \* leaf n+i of the environment is the i-th appended root
  /\ PrintT("@@LA " \o ToJson([n |-> n, k |-> k, sub |-> Terms(sub), old |-> RTerm(0, n), new |-> RTerm(0, n + k)]))

\* the actions of a free request on the touched positions only: P maps a touched
\* position to the original index of the root it holds
RECURSIVE SwapAll(_, _, _)
SwapAll(P, as, j) ==
  IF j > Len(as) THEN P
  ELSE LET x == as[j] IN
       IF x.t = "swap" THEN SwapAll([P EXCEPT ![x.a] = P[x.b], ![x.b] = P[x.a]], as, j + 1)
       ELSE SwapAll(P, as, j + 1)
FreeCase ==
  LET k == Len(fr)
      as == ConvFree(fr, n)
      I == SeqSet(fr) \cup ((n - k)..(n - 1))
      idx == SortedSeq(I)
      th == DiffTree(<<>>, idx, 1, 0, n)
      P == SwapAll([i \in I |-> i], as, 1)
      keep == SortedSeq({i \in I : i < n - k})
  IN
  /\ Admissible(as, 1, n)
  /\ SectorsChanged(as, n) = idx
  /\ th = MultiDef(<<>>, 0, n, I)
  /\ Len(th) + Len(idx) = DiffProofSizeAlg(as, n)
  \* (indices are positions at the time their swap is executed, as in MerkleFree: the meaning of the
  \* request is ApplyActions of the converted list, here on the touched positions only)
  /\ Cardinality({P[i] : i \in I}) = Cardinality(I)
  /\ PrintT("@@LF " \o ToJson([n |-> n, freed |-> fr, th |-> th, idx |-> idx, newn |-> n - k,
                                patch |-> [j \in DOMAIN keep |-> <<keep[j], P[keep[j]]>>]]))

OK == /\ (lv = 3 /\ fam = 1 => RangeCase)
      /\ (lv = 3 /\ fam = 2 => AppendCase)
      /\ (lv = 3 /\ fam = 3 => FreeCase)
      \* per size: what is to come (the harness counts the states independently as well)
      /\ (lv = 1 => PrintT("@@LN " \o ToJson([n |-> n, marks |-> SortedSeq(Marks(n)), frees |-> Cardinality(FreedLists(n))])))
=============================================================================
