--------------------------- MODULE ChallengeTrace ---------------------------
(* The storage-proof challenge: the leaf a proof must open is the chain-derived
   seed (a 256-bit number, big-endian) modulo the number of 64-byte leaves of
   the file.  Each trace line records one call of State.StorageProofLeafIndex:
   the seed as BigNat limbs, the file size, and the index the code returned.  *)
EXTENDS BigNat, TraceLib, Json
Trace == ndJsonDeserialize("trace.ndjson")
N == Len(Trace)
Leaves(size) == (size + 63) \div 64
\* file sizes up to 2^64-1 (a contract may commit to any size): size, index and the quotient seed \div leaves as limbs;
\* the number of leaves is ceil(size / 64) in exact arithmetic, whatever the machine word does
BigLine(l) == LET t == Trace[l]
                  n == DivSmall(Add(t.bsize, <<63>>), 64)       \* leaves
              IN
  /\ Check(IsNat(t.seed) /\ Lt(t.seed, Pow2(256)) /\ IsNat(t.bsize) /\ Lt(t.bsize, Pow2(64)) /\ IsNat(t.bidx) /\ IsNat(t.q), l, "not numbers")
  /\ Check(n # <<>> \/ t.bidx = <<>>, l, "empty file must give index 0")
  /\ Check(n = <<>> \/ (Lt(t.bidx, n) /\ Add(Mul(t.q, n), t.bidx) = t.seed), l, "challenge index is not seed mod leaves (large file)")
Line(l) == IF "bsize" \in DOMAIN Trace[l] THEN BigLine(l) ELSE
  LET t == Trace[l] n == Leaves(t.size) IN
  /\ Check(IsNat(t.seed) /\ Lt(t.seed, Pow2(256)), l, "seed is not a 256-bit number")
  /\ Check(n > 0 \/ t.idx = 0, l, "empty file must give index 0")
  /\ Check(n = 0 \/ (t.idx < n /\ ModSmall(t.seed, n) = t.idx), l, "challenge index is not seed mod leaves")
VARIABLES chunk, pos
Init == chunk = 0 /\ pos = 0
Last(c) == IF c * TL_ChunkSize < N THEN c * TL_ChunkSize ELSE N
Next == \/ /\ chunk = 0 /\ chunk' \in 1..NChunks(N) /\ pos' = (chunk' - 1) * TL_ChunkSize + 1
        \/ /\ chunk > 0 /\ pos <= Last(chunk) /\ Line(pos) /\ pos' = pos + 1 /\ UNCHANGED chunk
Spec == Init /\ [][Next]_<<chunk, pos>>
=============================================================================
