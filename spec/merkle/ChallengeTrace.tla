--------------------------- MODULE ChallengeTrace ---------------------------
(* The storage-proof challenge: the leaf a proof must open is the chain-derived
   seed (a 256-bit number, big-endian) modulo the number of 64-byte leaves of
   the file.  Each trace line records one call of State.StorageProofLeafIndex:
   the seed as BigNat limbs, the file size, and the index the code returned.  *)
EXTENDS BigNat, TraceLib, Json
Trace == ndJsonDeserialize("trace.ndjson")
N == Len(Trace)
Leaves(size) == (size + 63) \div 64
Line(l) == LET t == Trace[l] n == Leaves(t.size) IN
  /\ Check(IsNat(t.seed) /\ Lt(t.seed, Pow2(256)), l, "seed is not a 256-bit number")
  /\ Check(n > 0 \/ t.idx = 0, l, "empty file must give index 0")
  /\ Check(n = 0 \/ (t.idx < n /\ ModSmall(t.seed, n) = t.idx), l, "challenge index is not seed mod leaves")
VARIABLES chunk, pos
Init == chunk = 0 /\ pos = 0
Last(c) == IF c * TL_ChunkSize < N THEN c * TL_ChunkSize ELSE N
Next == \/ /\ chunk = 0 /\ chunk' \in 1..NChunks(N) /\ pos' = (chunk' - 1) * TL_ChunkSize + 1
        \/ /\ chunk > 0 /\ pos <= Last(chunk) /\ Line(pos) /\ pos' = pos + 1 /\ UNCHANGED chunk
Spec == Init /\ [][Next]_<<chunk, pos>>
=============================================================================
