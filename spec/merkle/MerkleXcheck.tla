---------------------------- MODULE MerkleXcheck ----------------------------
(* Cross-check material for the harness's evaluator of the compact term
   R(i,j): the fully expanded Root over the leaves i..j-1, for every
   0 <= i < j <= N, and the root of nothing.                                 *)
EXTENDS RHPMerkle, Json
CONSTANT N
VARIABLES lv, i, j
vars == <<lv, i, j>>
Init == lv = 0 /\ i = 0 /\ j = 0
Next == \/ lv = 0 /\ lv' = 1 /\ i' \in 0..(N - 1) /\ UNCHANGED j
        \/ lv = 1 /\ lv' = 2 /\ j' \in (i + 1)..N /\ UNCHANGED i
Spec == Init /\ [][Next]_vars
OK == /\ lv = 2 => PrintT("@@XC " \o ToJson([i |-> i, j |-> j, term |-> Root(Leaves(N), i, j)]))
      /\ lv = 0 => PrintT("@@XC " \o ToJson([i |-> 0, j |-> 0, term |-> Root(Leaves(N), 0, 0)]))
=============================================================================
