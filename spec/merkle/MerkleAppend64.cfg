SPECIFICATION Spec
CONSTANT Compact = FALSE
CONSTANT N = 64
CONSTANT K = 4
INVARIANT OK
CHECK_DEADLOCK FALSE
