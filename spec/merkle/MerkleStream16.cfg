SPECIFICATION Spec
CONSTANT Compact = FALSE
CONSTANT NS = 16
CONSTANT D = 2
INVARIANT OK
CHECK_DEADLOCK FALSE
