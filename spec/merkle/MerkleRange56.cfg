SPECIFICATION Spec
CONSTANT Compact = FALSE
CONSTANT N = 56
INVARIANT OK
CHECK_DEADLOCK FALSE
