SPECIFICATION Spec
CONSTANT Compact = TRUE
CONSTANT Ks = {16, 17}
CONSTANT D = 1
CONSTANT MaxVerify = 40
CONSTANT Batches = {1, 2, 5}
INVARIANT OK
CHECK_DEADLOCK FALSE
