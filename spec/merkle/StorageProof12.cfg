INIT Init
NEXT Next
CONSTANT MaxLeaves = 12
INVARIANTS Complete_ Emit EmitEras
CHECK_DEADLOCK FALSE
