------------------------------ MODULE Admission ------------------------------
(* C17 — admission cases.  The constructors are only ever called for requests the
   host-side validation (rhp/v4 Validate methods) admits; the property demands that
   every admitted request leads to a consensus-valid result.  This module
   enumerates, per RPC, abstract requests on both sides of every gate of the
   admission rules (ContractRules part 3) and states the rule's verdict for each:

     heights   price tables signed at the current tip, 1, 17, 18, 19, 25 blocks before it,
               3 blocks ahead of it, or carrying tip height 0;  requested proof heights around
               tip + MinContractDuration, around price-table tip + MinContractDuration, already
               passed, at the uint64 limit;  existing contracts 40 .. -2 blocks before their
               proof height;  maximum duration exact / one short
     funds     allowance zero / one below / at / above the minimum; collateral at / above the host limit
     sizes     for every contract shape stored <= capacity <= MaxCap sectors: every set of sector
               indices up to and beyond the capacity (with and without a duplicate), every
               offset / length of a roots request, empty and non-empty appends; batch limits
     accounts  fund / replenish: unset ids and signatures, empty / maximal / oversized batches,
               zero accounts, zero amounts, zero target

   A case is relative (offsets from the current tip, classes of amounts, sector
   counts in units): the harness realises it at real magnitudes on a real chain,
   asks the real Validate, and for every admitted request runs the constructor
   and the real consensus validation.  ContractsTrace re-evaluates the same
   rules (GateOf) on the concrete request; here they are evaluated on a small
   instance (tip 200, prices 2 and 3, ...) to obtain the expected gate.          *)
EXTENDS ContractRules, TLC, Json, FiniteSets

CONSTANT MaxCap          \* largest capacity (in units) of the contract shapes

VARIABLE kase

T == 200                 \* the abstract current tip
N(n) == FromInt(n)

\* ---- heights --------------------------------------------------------------------------
PtipOffs == {0, -1, -17, -18, -19, -25, 3}
Hts == {[o |-> o, z |-> FALSE] : o \in PtipOffs} \cup {[o |-> 0, z |-> TRUE]}       \* z: the price table carries tip height 0
HtsShort == {h \in Hts : h.o \in {0, -1, -19, -25, 3}}
PtipOf(k) == IF k.z THEN Zero ELSE N(T + k.o)
\* requested proof height: tip + x, or (huge) 2^64-1-ProofWindow, one above, 2^64-1
PhOf(k) == CASE k.huge = 0 -> N(T + k.x) [] k.huge = 1 -> Sub(MaxU64, PWn) [] k.huge = 2 -> Add(Sub(MaxU64, PWn), One) [] k.huge = 3 -> MaxU64
DurOrZero(ph, ptip) == IF Le(ptip, Add(ph, PWn)) THEN DurationOf(ph, ptip) ELSE Zero
MaxDurOf(k, d) == CASE k.dur = "ample" -> Add(d, N(1000)) [] k.dur = "max" -> d [] k.dur = "above" -> Sub(d, One) [] k.dur = "huge" -> MaxU64

\* ---- funds (small instance: storage price 2, collateral price 3 or 0, collateral 10) -----
Sp == N(2)
PcOf(k) == IF k.pc0 THEN Zero ELSE N(3)
CollReq == N(10)
QOf(k) == IF k.pc0 THEN Zero ELSE N(3)
MinAllowOf(k) == IF k.pc0 THEN Zero ELSE N(6)
AllowOf(k) == CASE k.allow = "zero" -> Zero [] k.allow = "below" -> Sub(MinAllowOf(k), One) [] k.allow = "min" -> MinAllowOf(k) [] k.allow = "ample" -> N(100)
\* host limit relative to the collateral the request makes the host lock (total)
MaxCollOf(k, total) == CASE k.coll = "below" -> Add(total, N(10)) [] k.coll = "max" -> total [] k.coll = "above" -> Sub(total, One)
PvOf(k) == k.pv = "ok"
AllowClasses == {[a |-> a, z |-> z] : a \in {"zero", "below", "min", "ample"}, z \in BOOLEAN} \ {[a |-> "below", z |-> TRUE], [a |-> "min", z |-> TRUE]}

\* ---- form ------------------------------------------------------------------------------
FormBase == [rpc |-> "form", o |-> 0, z |-> FALSE, x |-> 30, huge |-> 0, dur |-> "ample", fee0 |-> FALSE, basis0 |-> FALSE, noIn |-> FALSE,
             pv |-> "ok", allow |-> "ample", pc0 |-> FALSE, coll |-> "below"]
FormXs(o) == {-3, 0, 1, 17, 18, 19, 30} \cup {o + 17, o + 18, o + 19}
FormCases ==
  UNION {{[FormBase EXCEPT !.o = h.o, !.z = h.z, !.x = x] : x \in FormXs(h.o)} : h \in Hts}
  \cup {[FormBase EXCEPT !.huge = g, !.dur = "huge"] : g \in {1, 2, 3}}
  \cup {[FormBase EXCEPT !.o = o, !.x = 18, !.dur = d] : o \in {0, -25}, d \in {"max", "above"}}
  \cup {[FormBase EXCEPT !.fee0 = TRUE], [FormBase EXCEPT !.basis0 = TRUE], [FormBase EXCEPT !.noIn = TRUE]}
  \cup {[FormBase EXCEPT !.pv = v] : v \in {"expired", "badsig"}}
  \cup {[FormBase EXCEPT !.allow = c.a, !.pc0 = c.z] : c \in AllowClasses}
  \cup {[FormBase EXCEPT !.coll = c] : c \in {"max", "above"}}
FormReq(k) ==
  LET ph == PhOf(k) ptip == PtipOf(k) IN
  [pv |-> PvOf(k), feeZero |-> k.fee0, basisZero |-> k.basis0, nIn |-> IF k.noIn THEN 0 ELSE 1,
   tip |-> N(T), ptip |-> ptip, ph |-> ph, maxDur |-> MaxDurOf(k, DurOrZero(ph, ptip)),
   allow |-> AllowOf(k), coll |-> CollReq, maxColl |-> MaxCollOf(k, CollReq), sp |-> Sp, pc |-> PcOf(k), q |-> QOf(k)]

\* ---- renew (e: existing proof height - tip) -------------------------------------------------
RenewBase == [rpc |-> "renew", e |-> 10, o |-> 0, z |-> FALSE, x |-> 30, huge |-> 0, dur |-> "ample", fee0 |-> FALSE, basis0 |-> FALSE,
              pv |-> "ok", allow |-> "ample", pc0 |-> FALSE, coll |-> "below"]
RenewXs(e, o) == {e, e + 1, 17, 18, 19, o + 17, o + 18, o + 19}
RenewCases ==
  UNION {UNION {{[RenewBase EXCEPT !.e = e, !.o = h.o, !.z = h.z, !.x = x] : x \in RenewXs(e, h.o)} : h \in HtsShort} : e \in {40, 10, -2}}
  \cup {[RenewBase EXCEPT !.huge = g, !.dur = "huge"] : g \in {2, 3}}
  \cup {[RenewBase EXCEPT !.o = o, !.x = 18, !.dur = d] : o \in {0, -25}, d \in {"max", "above"}}
  \cup {[RenewBase EXCEPT !.fee0 = TRUE], [RenewBase EXCEPT !.basis0 = TRUE]}
  \cup {[RenewBase EXCEPT !.pv = v] : v \in {"expired", "badsig"}}
  \cup {[RenewBase EXCEPT !.allow = c.a, !.pc0 = c.z] : c \in AllowClasses}
  \cup {[RenewBase EXCEPT !.coll = c, !.pc0 = z] : c \in {"max", "above"}, z \in BOOLEAN}
FsStored == N(8)
RenewReq(k) ==
  LET ph == PhOf(k) ptip == PtipOf(k)
      total == Add(CollReq, Mul(Mul(PcOf(k), FsStored), DurOrZero(ph, ptip))) IN
  [pv |-> PvOf(k), feeZero |-> k.fee0, basisZero |-> k.basis0,
   tip |-> N(T), ptip |-> ptip, ph |-> ph, exPh |-> N(T + k.e), maxDur |-> MaxDurOf(k, DurOrZero(ph, ptip)),
   allow |-> AllowOf(k), coll |-> CollReq, maxColl |-> MaxCollOf(k, total), sp |-> Sp, pc |-> PcOf(k), q |-> QOf(k), fs |-> FsStored]

\* ---- refresh (partial / full rollover) ------------------------------------------------------
RefreshBase(rpc) == [rpc |-> rpc, e |-> 40, o |-> 0, z |-> FALSE, fee0 |-> FALSE, basis0 |-> FALSE, pv |-> "ok", allow |-> "ample", pc0 |-> FALSE, coll |-> "below"]
RefreshCasesOf(rpc) ==
  LET b == RefreshBase(rpc) IN
  {[b EXCEPT !.e = e, !.o = h.o, !.z = h.z] : e \in {40, 19, 18, 17, 1, 0, -2}, h \in Hts}
  \cup {[b EXCEPT !.fee0 = TRUE], [b EXCEPT !.basis0 = TRUE]}
  \cup {[b EXCEPT !.pv = v] : v \in {"expired", "badsig"}}
  \cup {[b EXCEPT !.allow = c.a, !.pc0 = c.z] : c \in AllowClasses}
  \cup {[b EXCEPT !.coll = c] : c \in {"max", "above"}}
RefreshCases == RefreshCasesOf("refreshP") \cup RefreshCasesOf("refreshF")
ExTc == N(50)
ExMh == N(30)
RefreshReq(k) ==
  LET partial == k.rpc = "refreshP"
      total == Add(IF partial THEN Sub(ExTc, ExMh) ELSE ExTc, CollReq) IN
  [pv |-> PvOf(k), feeZero |-> k.fee0, basisZero |-> k.basis0, tip |-> N(T), ptip |-> PtipOf(k), exPh |-> N(T + k.e),
   allow |-> AllowOf(k), coll |-> CollReq, maxColl |-> MaxCollOf(k, total), sp |-> Sp, pc |-> PcOf(k), q |-> QOf(k),
   partial |-> partial, exTc |-> ExTc, exMh |-> ExMh]

\* ---- sizes: contract shapes (sz sectors stored, cap sectors of capacity, in units) ---------------
Shapes == {sh \in [sz : 0..MaxCap, cap : 0..MaxCap] : sh.sz <= sh.cap}
RECURSIVE SortedSeq(_)
SortedSeq(S) == IF S = {} THEN <<>> ELSE LET m == CHOOSE a \in S : \A b \in S : a <= b IN <<m>> \o SortedSeq(S \ {m})
\* bulk: 0 = unit indices; 1 / 2 = a request of MaxSectorBatch / MaxSectorBatch + 1 sectors on a contract that stores
\* 2 * MaxSectorBatch sectors (sz = cap = 2, the unit is MaxSectorBatch sectors)
AppendCases == {[rpc |-> "append", sz |-> sh.sz, cap |-> sh.cap, n |-> n, bulk |-> 0, pv |-> "ok"] : sh \in Shapes, n \in {0, 1, 2}}
               \cup {[rpc |-> "append", sz |-> 2, cap |-> 2, n |-> 0, bulk |-> b, pv |-> "ok"] : b \in {1, 2}}
               \cup {[rpc |-> "append", sz |-> 1, cap |-> 1, n |-> 1, bulk |-> 0, pv |-> v] : v \in {"expired", "badsig"}}
\* every set of indices 0 .. cap (cap itself lies beyond the capacity), ascending, optionally with its smallest repeated
FreeCases == UNION {{[rpc |-> "free", sz |-> sh.sz, cap |-> sh.cap,
                      idx |-> SortedSeq(S) \o (IF d /\ S # {} THEN <<CHOOSE a \in S : \A b \in S : a <= b>> ELSE <<>>),
                      bulk |-> 0, pv |-> "ok"] : S \in SUBSET (0..sh.cap), d \in BOOLEAN} : sh \in Shapes}
             \cup {[rpc |-> "free", sz |-> 2, cap |-> 2, idx |-> <<>>, bulk |-> b, pv |-> "ok"] : b \in {1, 2}}
             \cup {[rpc |-> "free", sz |-> 1, cap |-> 1, idx |-> <<0>>, bulk |-> 0, pv |-> v] : v \in {"expired", "badsig"}}
RootsCases == {[rpc |-> "roots", sz |-> sh.sz, cap |-> sh.cap, off |-> o, len |-> n, bulk |-> 0, pv |-> "ok"] : sh \in Shapes, o \in 0..(MaxCap + 1), n \in 0..(MaxCap + 1)}
              \cup {[rpc |-> "roots", sz |-> 2, cap |-> 2, off |-> 0, len |-> 0, bulk |-> b, pv |-> "ok"] : b \in {1, 2}}
              \cup {[rpc |-> "roots", sz |-> 1, cap |-> 1, off |-> 0, len |-> 1, bulk |-> 0, pv |-> v] : v \in {"expired", "badsig"}}
UnitFs(k) == IF k.bulk = 0 THEN Mul(SS, N(k.sz)) ELSE Mul(SS, N(k.sz * MaxSectorBatch))
BulkN(k) == IF k.bulk = 1 THEN MaxSectorBatch ELSE MaxSectorBatch + 1
AppendReq(k) == [pv |-> PvOf(k), n |-> IF k.bulk = 0 THEN k.n ELSE BulkN(k)]
FreeReq(k) == [pv |-> PvOf(k), fs |-> UnitFs(k),
               runs |-> IF k.bulk = 0 THEN [i \in DOMAIN k.idx |-> [from |-> k.idx[i], cnt |-> 1]] ELSE <<[from |-> 0, cnt |-> BulkN(k)]>>]
RootsReq(k) == [pv |-> PvOf(k), fs |-> UnitFs(k), off |-> IF k.bulk = 0 THEN k.off ELSE 0, len |-> IF k.bulk = 0 THEN k.len ELSE BulkN(k)]

\* ---- accounts ---------------------------------------------------------------------------------
FundBase == [rpc |-> "fund", sz |-> 1, cap |-> 1, n |-> 3, id0 |-> FALSE, sig0 |-> FALSE, acct0 |-> FALSE, amt0 |-> FALSE]
FundCases == {[FundBase EXCEPT !.n = n] : n \in {0, 1, 3, MaxAccountBatch, MaxAccountBatch + 1}}
             \cup {[FundBase EXCEPT !.id0 = TRUE], [FundBase EXCEPT !.sig0 = TRUE], [FundBase EXCEPT !.acct0 = TRUE], [FundBase EXCEPT !.amt0 = TRUE],
                   [FundBase EXCEPT !.n = 1, !.acct0 = TRUE], [FundBase EXCEPT !.n = 1, !.amt0 = TRUE]}
FundReq(k) == [idZero |-> k.id0, sigZero |-> k.sig0, n |-> k.n, zeroAcct |-> k.acct0, zeroAmt |-> k.amt0]
ReplBase == [rpc |-> "replenish", sz |-> 1, cap |-> 1, n |-> 2, id0 |-> FALSE, sig0 |-> FALSE, acct0 |-> FALSE, target0 |-> FALSE]
ReplCases == {[ReplBase EXCEPT !.n = n] : n \in {0, 1, 2, MaxAccountBatch, MaxAccountBatch + 1}}
             \cup {[ReplBase EXCEPT !.id0 = TRUE], [ReplBase EXCEPT !.sig0 = TRUE], [ReplBase EXCEPT !.acct0 = TRUE], [ReplBase EXCEPT !.target0 = TRUE]}
ReplReq(k) == [idZero |-> k.id0, sigZero |-> k.sig0, n |-> k.n, targetZero |-> k.target0, zeroAcct |-> k.acct0]

\* ---- the rule's verdict on the small instance ------------------------------------------------------
ReqOf(k) == CASE k.rpc = "form" -> FormReq(k) [] k.rpc = "renew" -> RenewReq(k) [] k.rpc \in {"refreshP", "refreshF"} -> RefreshReq(k)
              [] k.rpc = "append" -> AppendReq(k) [] k.rpc = "free" -> FreeReq(k) [] k.rpc = "roots" -> RootsReq(k)
              [] k.rpc = "fund" -> FundReq(k) [] k.rpc = "replenish" -> ReplReq(k)
Gate(k) == GateOf(k.rpc, ReqOf(k))

Init == \/ kase \in FormCases \/ kase \in RenewCases \/ kase \in RefreshCases
        \/ kase \in AppendCases \/ kase \in FreeCases \/ kase \in RootsCases
        \/ kase \in FundCases \/ kase \in ReplCases
Next == UNCHANGED kase
Spec == Init /\ [][Next]_kase

\* ---- model-internal checks -----------------------------------------------------------------------
\* the small instance realises the quotient it claims
InstanceSane == Gate(kase) # "case-quotient"
\* the headline cases: a proof height that has passed, or lies within MinContractDuration of the CURRENT tip, is
\* refused however old the price table is; indices at or beyond the STORED sectors are refused whatever the capacity
StalePricesDoNotHelp ==
  /\ (kase.rpc \in {"form", "renew"} /\ kase.huge = 0 /\ kase.x < MinContractDuration) => Gate(kase) # "ok"
  /\ (kase.rpc \in {"refreshP", "refreshF"} /\ kase.e <= MinContractDuration) => Gate(kase) # "ok"
OnlyStoredSectors ==
  /\ (kase.rpc = "free" /\ kase.bulk = 0 /\ \E i \in DOMAIN kase.idx : kase.idx[i] >= kase.sz) => Gate(kase) # "ok"
  /\ (kase.rpc = "free" /\ kase.bulk = 0 /\ Len(kase.idx) > kase.sz) => Gate(kase) # "ok"
  /\ (kase.rpc = "roots" /\ kase.bulk = 0 /\ kase.off + kase.len > kase.sz) => Gate(kase) # "ok"

Emit == PrintT("@@AD " \o ToJson(kase @@ [gate |-> Gate(kase)]))
=============================================================================
