\* quick: every skeleton of exactly MaxOps operations of the size / capacity focus: plain formation, then amply
\* funded appends, non-empty frees and refreshes of a contract with free space (history carried, emitted at Stop)
SPECIFICATION Spec
CONSTANTS
  MaxOps = 6
  MaxSectors = 4
  AppendNs = {1, 2, 3}
  KeepHist = TRUE
  Focus = "sizes"
INVARIANTS TypeOK OneCollClassPerSegment OutcomeMatchesClass StartsWithNew Emit
PROPERTIES CapacityMonotone RenewalResets
CHECK_DEADLOCK FALSE
