------------------------------ MODULE Contracts ------------------------------
(* C17 — skeleton generator.  TLC chooses the scenario: a sequence of RHP4
   constructor calls on one contract lineage, starting from NewContract.  The
   state is the abstract shape of the current contract (sectors stored,
   sectors of capacity, class of the renter balance, whether the collateral
   of the current segment is still untouched); every operation carries a
   funding class

      ample   funds well above the cost
      exact   funds equal the cost to the hasting (the call must succeed)
      short   funds one hasting below the cost     (the call must fail cleanly)

   For revisions the class speaks about the renter output of the contract
   (f) and, for a growing append, about the host's remaining collateral (c).
   For formation / renewal / refresh it speaks about the siacoin inputs that
   fund the transaction relative to ContractCost / RenewalCost / RefreshCost
   (short = consensus must refuse the transaction).

   The harness executes every emitted skeleton on the real constructors with
   real magnitudes; sector counts are multiplied by a per-sequence scale.
   The rules the results must meet are in ContractRules.tla; the model here
   carries small concrete numbers only for the size/capacity bookkeeping.    *)
EXTENDS Integers, Sequences, TLC, Json

CONSTANTS MaxOps,       \* operations per sequence (including New)
          MaxSectors,   \* bound on stored sectors (abstract units)
          AppendNs,     \* append sizes
          KeepHist,     \* TRUE: carry and emit the operation history
          Focus         \* "all": every variant;  "data": formation / renewals only in their plain variant,
                        \* no account funding, no empty free: random walks spend their steps on append / free / roots
                        \* "sizes": the size / capacity bookkeeping alone: plain formation, then only amply funded
                        \* appends, non-empty frees and (WithRefresh) plain refreshes; emitted at full length only.
                        \* Exhaustive enumeration of this focus yields every way of appending, freeing and
                        \* re-appending fewer / as many / more sectors than were freed (capacity > filesize states).

VARIABLES sz, cap, bal, fresh, segcoll, n, done, hist
vars == <<sz, cap, bal, fresh, segcoll, n, done, hist>>

Classes == {"ample", "exact", "short"}
Plain == Focus \in {"data", "sizes"}              \* formation / renewal only amply funded, with collateral
RevClasses == IF Focus = "sizes" THEN {"ample"} ELSE Classes
Min(a, b) == IF a < b THEN a ELSE b
Max(a, b) == IF a > b THEN a ELSE b

Op(k, a, b, f, c, g, ok) == [k |-> k, a |-> a, b |-> b, f |-> f, c |-> c, g |-> g, ok |-> ok]
\* every logged operation also carries the size bookkeeping of the contract it is applied to (sectors
\* stored / of capacity before the call): the harness compares them with the real contract
Log(op) == hist' = IF KeepHist THEN Append(hist, op @@ [sz0 |-> sz, cap0 |-> cap]) ELSE hist

Init == /\ sz = 0 /\ cap = 0 /\ bal = "none" /\ fresh = FALSE /\ segcoll = FALSE
        /\ n = 0 /\ done = FALSE /\ hist = <<>>

Live == n >= 1 /\ n < MaxOps /\ ~done

\* balance class after a revision with funding class f that needed a drain (or not)
BalAfter(f) == CASE f = "ample" -> bal [] f = "exact" -> "zero" [] f = "short" -> (IF bal = "ample" THEN "some" ELSE bal)

\* funding classes a priced revision may carry in the current balance class
\*   ample balance: all three (exact/short are arranged by draining the contract first)
\*   zero balance : only short (any positive cost is unaffordable)
\*   some balance : none (the balance is an arbitrary small remainder)
PricedClasses == CASE bal = "ample" -> Classes [] bal = "zero" -> {"short"} [] OTHER -> {}

\* ---- formation --------------------------------------------------------------
\* a = 1: host locks collateral; a = 0: no collateral (the host funds nothing)
New == /\ n = 0
       /\ \E f \in (IF Plain THEN {"ample"} ELSE Classes), a \in (IF Plain THEN {1} ELSE {0, 1}) :
            /\ sz' = 0 /\ cap' = 0 /\ bal' = "ample" /\ fresh' = TRUE /\ segcoll' = (a = 1)
            /\ Log(Op("new", a, 0, f, "ample", 0, TRUE))
       /\ n' = 1 /\ UNCHANGED done

\* ---- revisions --------------------------------------------------------------
\* Append m sectors; g = sectors of new capacity.  The collateral class c is offered once per
\* segment, on a growing append, while the segment's collateral is untouched and non-zero.
AppendOp == /\ Live
            /\ \E m \in AppendNs, f \in RevClasses, c \in RevClasses :
                 LET g == m - Min(m, cap - sz)
                     ok == f # "short" /\ c # "short" IN
                 /\ sz + m <= MaxSectors
                 \* only new capacity is charged: an append into free space costs nothing
                 /\ f \in (IF g = 0 THEN {"ample"} ELSE PricedClasses)
                 /\ (c # "ample" => (g > 0 /\ fresh /\ segcoll /\ f # "short"))
                 /\ sz' = IF ok THEN sz + m ELSE sz
                 /\ cap' = IF ok THEN Max(cap, sz + m) ELSE cap
                 \* drained to the exact cost but refused for lack of collateral: the cost stays in the contract
                 /\ bal' = IF g = 0 THEN bal ELSE IF f = "exact" /\ ~ok THEN "some" ELSE BalAfter(f)
                 /\ fresh' = (fresh /\ g = 0)
                 /\ Log(Op("append", m, 0, f, c, g, ok))
            /\ n' = n + 1 /\ UNCHANGED <<segcoll, done>>

\* Free k sectors (k = 0 is a legal, free-of-charge request)
FreeOp == /\ Live
          /\ \E k \in (IF Plain THEN 1..sz ELSE 0..sz) : \E f \in (IF k = 0 THEN {"ample"} ELSE PricedClasses \cap RevClasses) :
               LET ok == f # "short" IN
               /\ sz' = IF ok THEN sz - k ELSE sz
               /\ bal' = IF k = 0 THEN bal ELSE BalAfter(f)
               /\ Log(Op("free", k, 0, f, "ample", 0, ok))
          /\ n' = n + 1 /\ UNCHANGED <<cap, fresh, segcoll, done>>

\* Sector roots: r = 1 (one root) or r = sz (all roots)
RootsOp == /\ Live /\ sz >= 1 /\ Focus # "sizes"
           /\ \E r \in {1, sz}, f \in PricedClasses :
                /\ bal' = BalAfter(f)
                /\ Log(Op("roots", r, 0, f, "ample", 0, f # "short"))
           /\ n' = n + 1 /\ UNCHANGED <<sz, cap, fresh, segcoll, done>>

\* Fund accounts / replenish accounts: the amount itself realises the class
\* (ample: below the balance; exact: the whole balance; short: balance + 1).
\* A fund request cannot carry a zero amount, a replenish can (b = 1: zero amount).
FundOp(kind) ==
  /\ Live /\ ~Plain
  /\ \E f \in (IF Focus = "data" THEN {"ample"} ELSE Classes), z \in {0, 1} :
       /\ (f = "ample" => bal = "ample")
       /\ (z = 1 => (kind = "replenish" /\ (f = "ample" \/ (f = "exact" /\ bal = "zero"))))
       /\ (f = "exact" /\ bal = "zero" => z = 1)
       /\ bal' = IF f = "exact" THEN "zero" ELSE bal
       /\ Log(Op(kind, 0, z, f, "ample", 0, f # "short"))
  /\ n' = n + 1 /\ UNCHANGED <<sz, cap, fresh, segcoll, done>>

\* ---- renewal and refresh: a new contract replaces the current one ------------
\* (every later operation acts on the new contract; the old one is resolved)
Renewal(kind) ==
  /\ Live
  \* sizes: only the refreshes (they keep the capacity, free space included), and not as the last call
  /\ Focus = "sizes" => (kind # "renew" /\ n + 1 < MaxOps /\ cap > sz)
  /\ \E f \in (IF Plain THEN {"ample"} ELSE Classes), a \in (IF Plain THEN {1} ELSE {0, 1}) :
       /\ cap' = IF kind = "renew" THEN sz ELSE cap
       /\ bal' = "ample" /\ fresh' = TRUE /\ segcoll' = (a = 1)
       /\ Log(Op(kind, a, 0, f, "ample", 0, TRUE))
  /\ n' = n + 1 /\ UNCHANGED <<sz, done>>

Stop == /\ n >= 1 /\ ~done /\ (Focus = "sizes" => n = MaxOps) /\ done' = TRUE /\ UNCHANGED <<sz, cap, bal, fresh, segcoll, n, hist>>

Next == \/ New \/ AppendOp \/ FreeOp \/ RootsOp \/ FundOp("fund") \/ FundOp("replenish")
        \/ Renewal("renew") \/ Renewal("refreshP") \/ Renewal("refreshF") \/ Stop
Spec == Init /\ [][Next]_vars

\* ---- model-internal invariants ------------------------------------------------
TypeOK == /\ sz \in 0..MaxSectors /\ cap \in 0..MaxSectors /\ sz <= cap
          /\ bal \in {"none", "ample", "zero", "some"}
          /\ n \in 0..MaxOps
          /\ (n = 0) = (bal = "none")
\* the collateral class is used at most once per segment
RECURSIVE CollUses(_, _)
CollUses(h, i) == IF i = 0 THEN 0
                  ELSE IF h[i].k \in {"new", "renew", "refreshP", "refreshF"} THEN 0
                  ELSE (IF h[i].c # "ample" THEN 1 ELSE 0) + CollUses(h, i - 1)
OneCollClassPerSegment == KeepHist => \A i \in DOMAIN hist : CollUses(hist, i) <= 1
\* a revision fails exactly when one of its classes is short; formation / renewal always yield a
\* contract (their short class is a refused under-funded transaction followed by the funded one)
SegStart == {"new", "renew", "refreshP", "refreshF"}
OutcomeMatchesClass == KeepHist => \A i \in DOMAIN hist :
   hist[i].ok = (hist[i].k \in SegStart \/ (hist[i].f # "short" /\ hist[i].c # "short"))
StartsWithNew == KeepHist => (hist # <<>> => hist[1].k = "new" /\ \A i \in 2..Len(hist) : hist[i].k # "new")

\* size bookkeeping: stored sectors never exceed the capacity (TypeOK), and no call on a contract
\* lowers its capacity (consensus: a revision must not decrease capacity); only a renewal starts the
\* new contract at capacity = filesize.  An append into free space leaves the capacity alone.
Revising == AppendOp \/ FreeOp \/ RootsOp \/ FundOp("fund") \/ FundOp("replenish") \/ Renewal("refreshP") \/ Renewal("refreshF")
CapacityMonotone == [][Revising => (cap' >= cap /\ sz' <= cap')]_vars
RenewalResets == [][Renewal("renew") => cap' = sz]_vars

Emit == (KeepHist /\ done) => PrintT("@@SK " \o ToJson(hist))
View == <<sz, cap, bal, fresh, segcoll, n, done>>
=============================================================================
