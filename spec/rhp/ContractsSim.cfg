\* random skeletons of up to 6 operations (-simulate); emitted at Stop
SPECIFICATION Spec
CONSTANTS
  MaxOps = 6
  MaxSectors = 6
  AppendNs = {1, 2, 3}
  KeepHist = TRUE
  Focus = "all"
INVARIANTS TypeOK OneCollClassPerSegment OutcomeMatchesClass StartsWithNew Emit
CHECK_DEADLOCK FALSE
