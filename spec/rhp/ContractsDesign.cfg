\* quick: NewContract, then one revision or renewal / refresh, all parameter combinations
SPECIFICATION Spec
CONSTANTS
  Plan <- PlanQuick
  Allows <- AllowValues
  Colls <- CollValues
  Cps = {0, 11}
  Fees = {1}
  Units = {0, 1}
INVARIANTS Sound Lineage
CHECK_DEADLOCK FALSE
