\* capacity bookkeeping: NewContract, three appends / frees of 1..3 sectors in every order, then one more or a
\* renewal / refresh; one funding level, all unit prices
SPECIFICATION Spec
CONSTANTS
  Plan <- PlanSizes
  Allows <- OneAllow
  Colls <- OneColl
  Cps = {11}
  Fees = {1}
  Units = {1}
INVARIANTS Sound Lineage
PROPERTIES CapacityMonotone
CHECK_DEADLOCK FALSE
