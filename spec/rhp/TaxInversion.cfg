\* window mode: every payout within 60 of the two boundaries of the 78 phases of two periods, and the smallest targets
SPECIFICATION Spec
CONSTANTS
  W = 60
  MaxPhase = 77
  FullScan = FALSE
  ChunkLen = 1
INVARIANTS Solvable AtMostTwo Bracket InversionCorrect Periodic Discriminates WindowsCover Emit
CHECK_DEADLOCK FALSE
