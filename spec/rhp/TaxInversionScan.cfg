\* scan mode: every target of one full period (thorough tier)
SPECIFICATION Spec
CONSTANTS
  W = 60
  MaxPhase = 77
  FullScan = TRUE
  ChunkLen = 10000
INVARIANTS Solvable AtMostTwo Bracket InversionCorrect Discriminates WindowsCover
CHECK_DEADLOCK FALSE
