---------------------------- MODULE ContractRules ----------------------------
(* C17 — the rules every RHP4 contract constructor result has to meet, as pure
   operators over BigNat (no variables; used by Contracts.tla and by
   ContractsTrace.tla).

   A contract is a record
      [fs, cap : bytes (BigNat)   ph, eh, rn : heights / revision number (int)
       ro, ho, mh, tc : renter output, host output, missed host value,
                        total collateral (BigNat)]
   A price table is [cp, sp, ip, ep, fsp, pc : BigNat, tip : int]
   (contract price, storage, ingress, egress, free-sector price, collateral
   per byte per block, host tip height).
   A usage is [rpc, st, eg, ing, fund, coll : BigNat].

   Part 1  consensus rules (transcription of validateV2FileContracts /
           validateV2Siacoins / validateV2CurrencyOverflow for one contract).
   Part 2  relational post-conditions of the constructors.                  *)
EXTENDS BigNat

SS == Pow2(22)                      \* sector size in bytes
ProofWindow == 144
Two128 == Pow2(128)
Min2(a, b) == IF Le(a, b) THEN a ELSE b
RECURSIVE SumSeq(_)
SumSeq(s) == IF s = <<>> THEN Zero ELSE Add(Head(s), SumSeq(Tail(s)))
AllPositive(s) == \A i \in DOMAIN s : s[i] # Zero
\* floor(x / 2^22)
DivSS(x) == DivSmall(DivSmall(x, 2048), 2048)
Round4K(n) == ((n + 4095) \div 4096) * 4096

IsContract(fc) == /\ IsNat(fc.fs) /\ IsNat(fc.cap) /\ IsNat(fc.ro) /\ IsNat(fc.ho)
                  /\ IsNat(fc.mh) /\ IsNat(fc.tc)
                  /\ fc.ph >= 0 /\ fc.eh >= 0 /\ fc.rn >= 0

SumOut(fc) == Add(fc.ro, fc.ho)
\* consensus/state.go V2FileContractTax: 4 % of the outputs, rounded down
TaxV2(fc) == DivSmall(SumOut(fc), 25)
ContractCostV2(fc) == Add(SumOut(fc), TaxV2(fc))
RiskedCollateral(fc) == Sub(fc.tc, fc.mh)       \* requires mh <= tc
RiskedRevenue(fc)    == Sub(fc.ho, fc.tc)       \* requires tc <= ho

-----------------------------------------------------------------------------
(* Part 1: consensus *)

\* validateV2CurrencyOverflow: everything named in the transaction sums below 2^128
ContractOverflowSum(fc) == Add(Add(Add(fc.ro, fc.ho), Add(fc.mh, fc.tc)), TaxV2(fc))

\* validateContract (formation and the new contract of a renewal)
CV_Contract(fc, child) ==
  /\ Le(fc.fs, fc.cap)
  /\ fc.ph >= child
  /\ fc.eh > fc.ph
  /\ ~(fc.ro = Zero /\ fc.ho = Zero)
  /\ Le(fc.mh, fc.ho)
  /\ Le(fc.tc, fc.ho)

\* a transaction that forms fc, spends inputs `ins`, creates plain outputs `outs`, pays `fee`
ConsensusValidV2Formation(fc, child, ins, outs, fee) ==
  /\ Lt(Add(Add(SumSeq(outs), ContractOverflowSum(fc)), fee), Two128)
  /\ AllPositive(outs)
  /\ SumSeq(ins) = Add(Add(SumSeq(outs), ContractCostV2(fc)), fee)
  /\ CV_Contract(fc, child)

\* validateRevision: cur is the contract the ledger holds; eph: child height has
\* reached the height from which missed host value is bounded by the host output
ConsensusValidV2Revision(cur, rev, child, eph) ==
  /\ Lt(ContractOverflowSum(rev), Two128)
  /\ cur.ph >= child                        \* parent still revisable
  /\ Le(cur.cap, rev.cap)                   \* capacity never decreases
  /\ Le(rev.fs, rev.cap)
  /\ rev.rn > cur.rn
  /\ SumOut(rev) = SumOut(cur)
  /\ Le(rev.mh, cur.mh)
  /\ (eph => Le(rev.mh, rev.ho))
  /\ rev.tc = cur.tc
  /\ rev.ph >= child
  /\ rev.eh > rev.ph

\* a renewal r = [fro, fho, rr, hr : BigNat, nc : contract] resolving cur
ConsensusValidV2Renewal(cur, r, child, ins, outs, fee) ==
  /\ Lt(Add(Add(Add(SumSeq(outs), ContractOverflowSum(r.nc)), Add(Add(r.fro, r.fho), Add(r.rr, r.hr))), fee), Two128)
  /\ AllPositive(outs)
  /\ Add(SumSeq(ins), Add(r.rr, r.hr)) = Add(Add(SumSeq(outs), ContractCostV2(r.nc)), fee)
  /\ Add(Add(r.fro, r.rr), Add(r.fho, r.hr)) = SumOut(cur)
  /\ Le(Add(r.rr, r.hr), ContractCostV2(r.nc))
  /\ CV_Contract(r.nc, child)

-----------------------------------------------------------------------------
(* Part 2: constructors.  Every operator returns a sequence of <<condition, message>>. *)

RenterCost(u) == Add(Add(Add(u.rpc, u.st), Add(u.eg, u.ing)), u.fund)
ZeroUsage == [rpc |-> Zero, st |-> Zero, eg |-> Zero, ing |-> Zero, fund |-> Zero, coll |-> Zero]
SameUsage(a, b) == /\ a.rpc = b.rpc /\ a.st = b.st /\ a.eg = b.eg /\ a.ing = b.ing
                   /\ a.fund = b.fund /\ a.coll = b.coll

\* free space of a contract in sectors, growth of an append of n sectors (BigNat)
FreeSectors(fc) == DivSS(Sub(fc.cap, fc.fs))
Growth(fc, n) == LET nb == FromInt(n) fr == FreeSectors(fc) IN IF Le(nb, fr) THEN Zero ELSE Sub(nb, fr)

\* bytes of k sector roots, at 4 KiB granularity (k a BigNat below 2^40)
RootBytes(k) == MulSmall(DivSmall(Add(MulSmall(k, 32), FromInt(4095)), 4096), 4096)
\* usage a revision constructor has to report, from the price table (prices are per byte per block,
\* per byte moved (4 KiB granularity), per sector freed)
ExpectedUsage(op, cur, p, n, amount) ==
  CASE op = "append" ->
         LET g == Growth(cur, n) bytesBlocks == Mul(Mul(SS, g), FromInt(cur.eh - p.tip)) IN
         \* (only the sectors that enlarge the contract are charged, roots included)
         [ZeroUsage EXCEPT !.st = Mul(p.sp, bytesBlocks), !.ing = Mul(p.ip, RootBytes(g)),
                           !.coll = Mul(p.pc, bytesBlocks)]
    [] op = "free"   -> [ZeroUsage EXCEPT !.rpc = Mul(p.fsp, FromInt(n))]
    [] op = "roots"  -> [ZeroUsage EXCEPT !.eg = Mul(p.ep, FromInt(Round4K(32 * n)))]
    [] op \in {"fund", "replenish"} -> [ZeroUsage EXCEPT !.fund = amount]

\* filesize / capacity a successful revision must show
ExpectedSize(op, cur, n) ==
  CASE op = "append" -> [fs |-> Add(cur.fs, Mul(SS, FromInt(n))), cap |-> Add(cur.cap, Mul(SS, Growth(cur, n)))]
    [] op = "free"   -> [fs |-> Sub(cur.fs, Mul(SS, FromInt(n))), cap |-> cur.cap]
    [] OTHER         -> [fs |-> cur.fs, cap |-> cur.cap]

Affordable(cur, u) == Le(RenterCost(u), cur.ro) /\ Le(u.coll, cur.mh)

\* successful revision: cur -> rev with reported usage u
PostRevision(op, cur, rev, u, p, n, amount) ==
  LET eu == ExpectedUsage(op, cur, p, n, amount)  es == ExpectedSize(op, cur, n) IN
  << <<SameUsage(u, eu), "reported usage differs from the price table">>,
     <<Affordable(cur, eu), "revision returned although funds or collateral are insufficient">>,
     <<SumOut(rev) = SumOut(cur), "revision changes the total value">>,
     <<Add(rev.ro, RenterCost(u)) = cur.ro, "renter not charged exactly the reported usage">>,
     <<rev.ho = Add(cur.ho, RenterCost(u)), "host not credited exactly the reported usage">>,
     <<Add(rev.mh, u.coll) = cur.mh, "risked collateral differs from the reported collateral">>,
     <<Le(rev.mh, cur.mh), "missed host value raised">>,
     <<rev.tc = cur.tc, "total collateral touched">>,
     <<rev.rn > cur.rn, "revision number does not increase">>,
     <<rev.fs = es.fs, "filesize rule">>,
     <<rev.cap = es.cap, "capacity rule">>,
     <<Le(rev.fs, rev.cap), "filesize exceeds capacity">>,
     \* consensus (validateRevision) refuses a revision below the capacity of the contract it revises:
     \* freed sectors stay paid-for capacity, an append into them leaves the capacity alone
     <<Le(cur.cap, rev.cap), "revision decreases capacity">>,
     <<rev.ph = cur.ph /\ rev.eh = cur.eh, "revision moves the proof window">> >>

\* failed revision: an error is justified only by insufficient funds, and nothing may have been charged
PostRevisionError(op, cur, ret, p, n, amount) ==
  LET eu == ExpectedUsage(op, cur, p, n, amount) IN
  << <<~Affordable(cur, eu), "error although funds and collateral suffice">>,
     <<ret.ro = cur.ro /\ ret.ho = cur.ho /\ ret.mh = cur.mh /\ ret.tc = cur.tc /\ ret.rn = cur.rn,
       "failed revision returned a contract with a payment applied">> >>

\* NewContract
PostNew(fc, u, p, allow, coll, ph) ==
  << <<fc.ro = allow, "new contract renter output is not the allowance">>,
     <<fc.ho = Add(coll, p.cp), "new contract host output is not collateral plus contract price">>,
     <<fc.mh = coll /\ fc.tc = coll, "new contract collateral fields">>,
     <<fc.fs = Zero /\ fc.cap = Zero /\ fc.rn = 0, "new contract is not empty at revision 0">>,
     <<fc.ph = ph /\ fc.eh = ph + ProofWindow, "new contract proof window">>,
     <<SameUsage(u, [ZeroUsage EXCEPT !.rpc = p.cp]), "formation usage is not the contract price">> >>

\* the cost functions fund a new contract exactly (formation: no rollover)
CostsFundExactly(nc, rr, hr, rcost, hcost, fee) ==
  Add(Add(rcost, hcost), Add(rr, hr)) = Add(ContractCostV2(nc), fee)

\* common to renew / refresh: the old value is split exactly, rollover is bounded, costs are exact
PostRenewalCommon(cur, r, rcost, hcost, fee) ==
  << <<Add(r.fro, r.rr) = cur.ro, "final renter output + renter rollover is not the old renter output">>,
     <<Add(r.fho, r.hr) = cur.ho, "final host output + host rollover is not the old host output">>,
     <<Add(Add(r.fro, r.rr), Add(r.fho, r.hr)) = SumOut(cur), "final outputs + rollover is not the old contract value">>,
     <<Le(Add(r.rr, r.hr), ContractCostV2(r.nc)), "rollover exceeds the new contract cost">>,
     <<CostsFundExactly(r.nc, r.rr, r.hr, rcost, hcost, fee), "renter cost + host cost + rollover does not fund new contract + tax + fee exactly">>,
     <<r.nc.rn = 0, "renewed contract does not start at revision 0">>,
     <<Le(r.nc.fs, r.nc.cap), "filesize exceeds capacity">>,
     <<r.nc.fs = cur.fs, "renewal changes the filesize">>,
     <<Le(r.nc.mh, r.nc.tc) /\ Le(r.nc.tc, r.nc.ho), "collateral ordering of the new contract">> >>

\* RenewContract: what the code documents
PostRenew(cur, r, u, p, allow, coll, ph) ==
  LET nc == r.nc
      risked == Mul(Mul(p.pc, cur.fs), FromInt(ph + ProofWindow - p.tip))
      storage == Mul(Mul(p.sp, cur.fs), FromInt(ph + ProofWindow - cur.eh))
      total == Add(coll, risked) IN
  << <<nc.ph = ph /\ nc.eh = ph + ProofWindow, "renewal proof window">>,
     <<nc.cap = cur.fs, "renewal capacity is not the filesize">>,
     <<nc.ro = allow, "renewal renter output is not the allowance">>,
     <<nc.mh = coll, "renewal missed host value is not the new collateral">>,
     <<nc.tc = total, "renewal total collateral is not new collateral + collateral risked for the stored data">>,
     <<nc.ho = Add(Add(total, storage), p.cp), "renewal host output is not collateral + storage + contract price">>,
     <<r.hr = Min2(cur.tc, total), "renewal host rollover is not min(old collateral, new collateral)">>,
     <<r.rr = Min2(cur.ro, allow), "renewal renter rollover is not min(old renter output, allowance)">>,
     <<SameUsage(u, [ZeroUsage EXCEPT !.rpc = p.cp, !.st = storage, !.coll = risked]), "renewal usage">> >>

\* RefreshContractPartialRollover
PostRefreshPartial(cur, r, u, p, allow, coll) ==
  LET nc == r.nc  rc == RiskedCollateral(cur)  hostFunds == Add(Add(RiskedRevenue(cur), rc), coll) IN
  << <<nc.ph = cur.ph /\ nc.eh = cur.eh /\ nc.cap = cur.cap, "refresh changes window or capacity">>,
     <<nc.ro = allow, "refresh renter output is not the allowance">>,
     <<nc.mh = coll, "refresh missed host value is not the new collateral">>,
     <<nc.tc = Add(rc, coll), "refresh total collateral is not risked + new collateral">>,
     <<nc.ho = Add(hostFunds, p.cp), "refresh host output is not revenue + risked + new collateral + contract price">>,
     <<r.hr = Min2(cur.ho, hostFunds), "refresh host rollover is not min(old host output, new host funds)">>,
     <<r.rr = Min2(cur.ro, Add(allow, p.cp)), "refresh renter rollover is not min(old renter output, allowance + contract price)">>,
     <<SameUsage(u, [ZeroUsage EXCEPT !.rpc = p.cp, !.coll = rc]), "refresh usage">> >>

\* RefreshContractFullRollover
PostRefreshFull(cur, r, u, p, allow, coll) ==
  LET nc == r.nc IN
  << <<nc.ph = cur.ph /\ nc.eh = cur.eh /\ nc.cap = cur.cap, "refresh changes window or capacity">>,
     <<r.fro = Zero /\ r.fho = Zero /\ r.rr = cur.ro /\ r.hr = cur.ho, "full rollover does not roll over everything">>,
     <<nc.ro = Add(cur.ro, allow), "refresh renter output is not old output + allowance">>,
     <<nc.ho = Add(Add(cur.ho, coll), p.cp), "refresh host output is not old output + collateral + contract price">>,
     <<nc.mh = Add(cur.mh, coll), "refresh missed host value is not old value + collateral">>,
     <<nc.tc = Add(cur.tc, coll), "refresh total collateral is not old collateral + new collateral">>,
     <<SameUsage(u, [ZeroUsage EXCEPT !.rpc = p.cp, !.coll = RiskedCollateral(cur)]), "refresh usage">> >>

-----------------------------------------------------------------------------
(* Part 3: admission rules of the RPC requests (what a host must refuse before it
   calls a constructor; rhp/v4/validation.go).  A request that passes must lead
   to a consensus-valid result, so every gate is stated against the state the
   consensus rules will see: the host's CURRENT tip (not the tip the price table
   was signed at), the sectors the contract STORES (not its capacity).

   Heights are BigNat here (a request may carry any uint64).  Every Gate*
   operator returns the name of the first gate that refuses the request, "ok" if
   none does.  Request records:
     form     [pv, feeZero, basisZero, nIn, tip, ptip, ph, maxDur, allow, coll, maxColl, sp, pc, q]
     renew    [pv, feeZero, basisZero, tip, ptip, ph, exPh, maxDur, allow, coll, maxColl, sp, pc, q, fs]
     refresh  [pv, feeZero, basisZero, tip, ptip, exPh, allow, coll, maxColl, sp, pc, q, partial, exTc, exMh]
     append   [pv, n]
     free     [pv, fs, runs]        runs: sequence of [from, cnt] (the indices from .. from+cnt-1, in request order)
     roots    [pv, fs, off, len]
     fund     [idZero, sigZero, n, zeroAcct, zeroAmt]
     replenish[idZero, sigZero, n, targetZero, zeroAcct]
   pv: the price table is unexpired and carries the host's signature;  q = floor(coll / pc) when pc # 0
   (logged by the harness, verified here by IsQuot).                                         *)
MaxU64 == Sub(Pow2(64), One)
MinContractDuration == 18
MaxSectorBatch == 262144            \* 2^40 bytes / SectorSize
MaxAccountBatch == 1000
PWn == FromInt(ProofWindow)

\* the earliest proof height a host may accept: MinContractDuration beyond the later of its current tip
\* and the tip of the price table (saturating at 2^64 - 1)
MinProofHeight(tip, ptip) ==
  LET h == IF Le(tip, ptip) THEN ptip ELSE tip IN
  IF Lt(Sub(MaxU64, FromInt(MinContractDuration)), h) THEN MaxU64 ELSE Add(h, FromInt(MinContractDuration))
\* duration the prices are charged for
DurationOf(ph, ptip) == Sub(Add(ph, PWn), ptip)
QuotOK(r) == r.pc = Zero \/ IsQuot(r.coll, r.pc, r.q)
MinAllowanceOf(r) == IF r.pc = Zero THEN Zero ELSE Mul(r.sp, r.q)

GateForm(r) ==
  IF ~r.pv THEN "prices" ELSE IF r.feeZero THEN "fee" ELSE IF r.basisZero THEN "basis" ELSE IF r.nIn = 0 THEN "inputs" ELSE
  IF Lt(r.ph, MinProofHeight(r.tip, r.ptip)) THEN "proof-height" ELSE
  IF Lt(Sub(MaxU64, PWn), r.ph) THEN "proof-height-max" ELSE
  IF Lt(r.maxDur, DurationOf(r.ph, r.ptip)) THEN "duration" ELSE
  IF r.allow = Zero THEN "allowance-zero" ELSE
  IF Lt(r.maxColl, r.coll) THEN "collateral" ELSE
  IF ~QuotOK(r) THEN "case-quotient" ELSE
  IF Lt(r.allow, MinAllowanceOf(r)) THEN "allowance-min" ELSE "ok"

GateRenew(r) ==
  IF ~r.pv THEN "prices" ELSE IF r.feeZero THEN "fee" ELSE IF r.basisZero THEN "basis" ELSE
  IF Le(r.ph, r.exPh) THEN "proof-height-existing" ELSE
  IF Lt(r.ph, MinProofHeight(r.tip, r.ptip)) THEN "proof-height" ELSE
  IF Lt(Sub(MaxU64, PWn), r.ph) THEN "proof-height-max" ELSE
  IF Lt(r.maxDur, DurationOf(r.ph, r.ptip)) THEN "duration" ELSE
  IF r.allow = Zero THEN "allowance-zero" ELSE
  \* the host risks collateral for the stored data over the whole new duration, on top of the requested one
  IF Lt(r.maxColl, Add(r.coll, Mul(Mul(r.pc, r.fs), DurationOf(r.ph, r.ptip)))) THEN "collateral" ELSE
  IF ~QuotOK(r) THEN "case-quotient" ELSE
  IF Lt(r.allow, MinAllowanceOf(r)) THEN "allowance-min" ELSE "ok"

\* a refresh keeps the proof height: the existing one must still be far enough away
GateRefresh(r) ==
  IF ~r.pv THEN "prices" ELSE IF r.feeZero THEN "fee" ELSE IF r.basisZero THEN "basis" ELSE
  IF Le(r.exPh, MinProofHeight(r.tip, r.ptip)) THEN "proof-height-existing" ELSE
  IF r.allow = Zero THEN "allowance-zero" ELSE
  IF ~QuotOK(r) THEN "case-quotient" ELSE
  IF Lt(r.allow, MinAllowanceOf(r)) THEN "allowance-min" ELSE
  IF Lt(r.maxColl, Add(IF r.partial THEN Sub(r.exTc, r.exMh) ELSE r.exTc, r.coll)) THEN "collateral" ELSE "ok"

GateAppend(r) == IF ~r.pv THEN "prices" ELSE IF r.n = 0 THEN "empty" ELSE IF r.n > MaxSectorBatch THEN "batch" ELSE "ok"

\* sectors a contract stores (int; filesizes stay below 2^50)
StoredSectors(fs) == ToInt(DivSS(fs))
RECURSIVE RunsCount(_)
RunsCount(runs) == IF runs = <<>> THEN 0 ELSE Head(runs).cnt + RunsCount(Tail(runs))
\* only stored sectors can be freed, each at most once: otherwise the constructor's filesize arithmetic
\* (filesize - SectorSize * deletions) leaves the contract's real size or wraps around
GateFree(r) ==
  LET sectors == StoredSectors(r.fs)  runs == r.runs IN
  IF ~r.pv THEN "prices" ELSE IF RunsCount(runs) > MaxSectorBatch THEN "batch" ELSE
  IF \E i \in DOMAIN runs : runs[i].cnt > 0 /\ runs[i].from + runs[i].cnt > sectors THEN "index" ELSE
  IF \E i, j \in DOMAIN runs : i < j /\ runs[i].cnt > 0 /\ runs[j].cnt > 0
                                /\ runs[i].from < runs[j].from + runs[j].cnt /\ runs[j].from < runs[i].from + runs[i].cnt THEN "duplicate"
  ELSE "ok"

GateRoots(r) ==
  LET sectors == StoredSectors(r.fs) IN
  IF ~r.pv THEN "prices" ELSE IF r.len = 0 THEN "length-zero" ELSE
  IF r.off > sectors \/ r.len > sectors - r.off THEN "range" ELSE IF r.len > MaxSectorBatch THEN "batch" ELSE "ok"

GateFund(r) ==
  IF r.idZero THEN "contract-id" ELSE IF r.sigZero THEN "signature" ELSE IF r.n = 0 THEN "empty" ELSE
  IF r.n > MaxAccountBatch THEN "batch" ELSE IF r.zeroAcct THEN "account" ELSE IF r.zeroAmt THEN "amount" ELSE "ok"
GateReplenish(r) ==
  IF r.idZero THEN "contract-id" ELSE IF r.sigZero THEN "signature" ELSE IF r.n = 0 THEN "empty" ELSE
  IF r.n > MaxAccountBatch THEN "batch" ELSE IF r.targetZero THEN "target" ELSE IF r.zeroAcct THEN "account" ELSE "ok"

GateOf(rpc, r) ==
  CASE rpc = "form" -> GateForm(r) [] rpc = "renew" -> GateRenew(r) [] rpc \in {"refreshP", "refreshF"} -> GateRefresh(r)
    [] rpc = "append" -> GateAppend(r) [] rpc = "free" -> GateFree(r) [] rpc = "roots" -> GateRoots(r)
    [] rpc = "fund" -> GateFund(r) [] rpc = "replenish" -> GateReplenish(r)

-----------------------------------------------------------------------------
(* v1-era contracts (rhp/v2, rhp/v3): consensus tax after the tax hardfork *)
SiafundCount == 10000
TaxV1(payout) == MulSmall(DivSmall(DivSmall(MulSmall(payout, 39), 1000), SiafundCount), SiafundCount)
\* before the tax hardfork (consensus/state.go FileContractTax, first branch): the payout times the
\* float64 nearest to 0.039 taken as an exact fraction (5620492334958379 / 2^57), rounded down;
\* 2^57 = Base^3 x 4096
TaxRatePreNum == <<1835, 12845, 24379, 159>>
DropLimbs(x, n) == IF Len(x) <= n THEN <<>> ELSE SubSeq(x, n + 1, Len(x))
TaxV1Pre(payout) == MulSmall(DivSmall(DivSmall(DropLimbs(Mul(payout, TaxRatePreNum), 3), 4096), SiafundCount), SiafundCount)
\* validateFileContracts
ConsensusValidV1Payout(payout, validSum, missedSum) ==
  /\ validSum = missedSum
  /\ payout = Add(validSum, TaxV1(payout))
ConsensusValidV1PayoutPre(payout, validSum, missedSum) ==
  /\ validSum = missedSum
  /\ payout = Add(validSum, TaxV1Pre(payout))
=============================================================================
