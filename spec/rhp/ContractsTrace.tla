--------------------------- MODULE ContractsTrace ---------------------------
(* C17 — validation of what the real RHP constructors and the real consensus
   code did.  The harness executes every skeleton emitted by Contracts.tla and
   logs one line per constructor call (all amounts as BigNat limbs):

     reset                      a new sequence (a new contract lineage) starts
     new                        NewContract + ContractCost + the funded transaction(s) submitted
     rev                        ReviseFor{AppendSectors,FreeSectors,SectorRoots,FundAccounts,Replenish}
     renew                      RenewContract / RefreshContract{Partial,Full}Rollover + cost functions
     probeRev probeNew probeRenew   an accepted result altered in one field, with the real verdict
     adm                        one RPC request (a case of Admission.tla realised at real magnitudes) with the
                                verdict of the real Validate method and, if admitted, the constructor's
                                result and the verdict of the real consensus validation
     v1form v1renew2 v1renew3 v1pay   rhp/v2, rhp/v3 (independent lines; targets random or chosen by TaxInversion.tla)
     limits                     MinRenterAllowance / MaxHostCollateral (independent lines)

   The trace is stateful per sequence: `cur` is the contract this specification
   believes the ledger holds; every call must start from it (so nothing can
   operate on a resolved contract), and it moves only when the real
   ValidateV2Transaction accepted the constructor's result.  Lines are cut into
   chunks at sequence boundaries (chunks.ndjson) so that TLC workers validate
   them in parallel.  A line the rules do not allow prints a REJECT record;
   the harness accepts the trace iff there is none and TLC visited exactly
   1 + chunks + lines states.                                                *)
EXTENDS ContractRules, TraceLib, Json

Trace  == ndJsonDeserialize("trace.ndjson")
Chunks == ndJsonDeserialize("chunks.ndjson")     \* [from, to] line ranges
N == Len(Trace)

NoContract == [live |-> FALSE, fc |-> [fs |-> Zero, cap |-> Zero, ph |-> 0, eh |-> 0, ro |-> Zero, ho |-> Zero, mh |-> Zero, tc |-> Zero, rn |-> 0]]
Holding(fc) == [live |-> TRUE, fc |-> fc]

\* run a list of <<condition, message>> pairs
All(l, checks) == \A i \in DOMAIN checks : Check(checks[i][1], l, checks[i][2])

UsageOf(u) == [rpc |-> u.rpc, st |-> u.st, eg |-> u.eg, ing |-> u.ing, fund |-> u.fund, coll |-> u.coll]
\* the RenterCost the code reports is the sum of the five cost components
UsageSane(u, l) == /\ Check(~u.rcPanic, l, "Usage.RenterCost panicked")
                   /\ Check(u.rc = RenterCost(UsageOf(u)), l, "Usage.RenterCost is not the sum of its components")

\* ---- formation -----------------------------------------------------------------
\* every submitted transaction: the transcription of the consensus rules and the real verdict agree;
\* a transaction funded with exactly rcost + hcost (plus what it returns as change) must be accepted.
NetFunding(t) == Sub(SumSeq(t.ins), SumSeq(t.outs))
TriesNew(t, l) ==
  \A i \in DOMAIN t.tries :
    LET y == t.tries[i]  v == ConsensusValidV2Formation(t.fc, t.child, y.ins, y.outs, t.fee) IN
    /\ Check(v = y.accepted, l, IF y.accepted THEN "consensus accepted a formation the transcribed rules refuse"
                                              ELSE "consensus refused a formation the transcribed rules allow")
    /\ Check((Le(SumSeq(y.outs), SumSeq(y.ins)) /\ NetFunding(y) = Add(t.rcost, t.hcost)) => y.accepted, l,
             "formation funded with exactly ContractCost was refused by consensus")
New(t, l, c) ==
  IF t.panic THEN Reject(l, "NewContract or ContractCost panicked") ELSE
  /\ Check(~c.live, l, "formation inside a running sequence")
  /\ Check(IsContract(t.fc), l, "malformed contract")
  /\ UsageSane(t.u, l)
  /\ All(l, PostNew(t.fc, UsageOf(t.u), t.p, t.allow, t.coll, t.phParam))
  /\ Check(CostsFundExactly(t.fc, Zero, Zero, t.rcost, t.hcost, t.fee), l, "renter cost + host cost does not fund new contract + tax + fee exactly")
  /\ Check(t.hcost = t.fc.tc, l, "host formation cost is not the collateral")
  /\ Check(t.tries # <<>>, l, "nothing submitted")
  /\ TriesNew(t, l)

Accepted(t) == ~t.panic /\ t.tries # <<>> /\ t.tries[Len(t.tries)].accepted

\* ---- revisions -----------------------------------------------------------------
Rev(t, l, c) ==
  IF t.panic THEN Reject(l, "revision constructor panicked") ELSE
  /\ Check(c.live /\ t.before = c.fc, l, "constructor applied to a contract the ledger does not hold")
  /\ Check(IsContract(t.before) /\ IsContract(t.after), l, "malformed contract")
  /\ IF t.err
     THEN All(l, PostRevisionError(t.op, t.before, t.after, t.p, t.n, t.amount))
     ELSE /\ UsageSane(t.u, l)
          /\ All(l, PostRevision(t.op, t.before, t.after, UsageOf(t.u), t.p, t.n, t.amount))
          /\ Check(t.submitted, l, "revision not submitted")
          /\ Check(ConsensusValidV2Revision(t.before, t.after, t.child, t.eph) = t.accepted, l,
                   IF t.accepted THEN "consensus accepted a revision the transcribed rules refuse"
                                 ELSE "consensus refused a revision the transcribed rules allow")
          /\ Check(t.accepted, l, "constructed revision refused by consensus")
  \* the funding class chosen by the model decides the outcome
  /\ Check(t.err = (t.f = "short" \/ t.c = "short"), l,
           IF t.err THEN "revision failed although the contract was funded for it" ELSE "revision succeeded on an under-funded contract")

\* ---- renew / refresh ----------------------------------------------------------
TriesRenew(t, l) ==
  \A i \in DOMAIN t.tries :
    LET y == t.tries[i]  v == ConsensusValidV2Renewal(t.before, t.r, t.child, y.ins, y.outs, t.fee) IN
    /\ Check(v = y.accepted, l, IF y.accepted THEN "consensus accepted a renewal the transcribed rules refuse"
                                              ELSE "consensus refused a renewal the transcribed rules allow")
    /\ Check((Le(SumSeq(y.outs), SumSeq(y.ins)) /\ NetFunding(y) = Add(t.rcost, t.hcost)) => y.accepted, l,
             "renewal funded with exactly the reported costs was refused by consensus")
Renew(t, l, c) ==
  IF t.panic THEN Reject(l, "renewal constructor or cost function panicked") ELSE
  /\ Check(c.live /\ t.before = c.fc, l, "constructor applied to a contract the ledger does not hold")
  /\ Check(IsContract(t.before) /\ IsContract(t.r.nc) /\ IsNat(t.r.fro) /\ IsNat(t.r.fho) /\ IsNat(t.r.rr) /\ IsNat(t.r.hr), l, "malformed renewal")
  /\ UsageSane(t.u, l)
  /\ All(l, PostRenewalCommon(t.before, t.r, t.rcost, t.hcost, t.fee))
  /\ All(l, CASE t.op = "renew"    -> PostRenew(t.before, t.r, UsageOf(t.u), t.p, t.allow, t.coll, t.phParam)
              [] t.op = "refreshP" -> PostRefreshPartial(t.before, t.r, UsageOf(t.u), t.p, t.allow, t.coll)
              [] t.op = "refreshF" -> PostRefreshFull(t.before, t.r, UsageOf(t.u), t.p, t.allow, t.coll))
  /\ Check(t.tries # <<>>, l, "nothing submitted")
  /\ TriesRenew(t, l)

\* ---- probes: an accepted result altered in one field and submitted; binds the transcription of
\* the consensus rules (ContractRules part 1) to the real code on refusals and on legal variations
\* (a probe line follows the line of the result it alters; t.before is that line's contract)
ProbeRev(t, l, c) ==
  Check(ConsensusValidV2Revision(t.before, t.after, t.child, t.eph) = t.accepted, l, "probe: transcribed revision rules disagree with the real consensus verdict")
ProbeNew(t, l) ==
  Check(ConsensusValidV2Formation(t.fc, t.child, t.ins, t.outs, t.fee) = t.accepted, l, "probe: transcribed formation rules disagree with the real consensus verdict")
ProbeRenew(t, l, c) ==
  Check(ConsensusValidV2Renewal(t.before, t.r, t.child, t.ins, t.outs, t.fee) = t.accepted, l, "probe: transcribed renewal rules disagree with the real consensus verdict")

\* ---- admission: request -> Validate -> constructor -> consensus --------------------------------
\* t.kase: the abstract case with the gate the model expects (Admission.tla); t.req: the concrete request.
\* Messages that start with "case:" blame the harness (the request it built is not the one the model chose).
Adm(t, l, c) ==
  LET g == GateOf(t.rpc, t.req) IN
  /\ Check(IF t.live THEN c.live /\ t.before = c.fc ELSE ~c.live, l, "case: request against a contract the ledger does not hold")
  /\ Check(t.kase.gate = g, l, "case: the realised request is not at the gate the model chose")
  /\ IF t.vpanic THEN Reject(l, "Validate panicked") ELSE
     /\ Check((g = "ok") = t.admitted, l,
              IF t.admitted THEN "Validate admits a request the admission rule refuses: " \o g
                            ELSE "Validate refuses a request the admission rule admits")
     /\ Check(t.admitted => ~t.cpanic, l, "constructor or cost function panicked on an admitted request")
     /\ Check((t.admitted /\ ~t.cpanic /\ ~t.cerr) => (t.submitted /\ t.accepted), l,
              "admitted request: the constructor's result is refused by consensus")

\* ---- v1-era constructors (independent lines) -------------------------------------
V1Contract(t, l) ==
  /\ Check(Len(t.valid) = 2 /\ Len(t.missed) = 3, l, "v1 contract output layout")
  /\ Check(t.tax = TaxV1(t.payout), l, "consensus FileContractTax is not 3.9 % rounded down to a multiple of the siafund count")
  /\ Check(ConsensusValidV1Payout(t.payout, SumSeq(t.valid), SumSeq(t.missed)), l, "payout is not valid outputs + tax(payout), or missed outputs differ in sum")
  /\ Check(t.ws = t.end /\ t.we = t.end + t.window, l, "v1 contract window")
  /\ Check(t.accepted = (t.payout # Zero /\ ConsensusValidV1Payout(t.payout, SumSeq(t.valid), SumSeq(t.missed)) /\ t.we > t.ws), l,
           "real v1 contract validation disagrees with the transcribed rule")
  \* the same contract under a state before the tax hardfork: the constructors take no state and aim at
  \* the rule in force since the hardfork, so here only the rule itself is bound to the real code
  /\ Check(t.taxPre = TaxV1Pre(t.payout), l, "consensus FileContractTax before the tax hardfork is not payout x float64(0.039) rounded down to a multiple of the siafund count")
  /\ Check(t.accPre = (t.payout # Zero /\ ConsensusValidV1PayoutPre(t.payout, SumSeq(t.valid), SumSeq(t.missed)) /\ t.we > t.ws), l,
           "real v1 contract validation before the tax hardfork disagrees with the transcribed rule")
\* Lines whose target was chosen by TaxInversion.tla (t.t0 >= 0; random lines have t.t0 = -1): the
\* target is the model's target t0 lifted by k whole periods, and the payout must be one of the
\* model's solutions Sol(t0) lifted by k periods (TaxInversion!Periodic).  Sol is recomputed here.
TE == INSTANCE TaxEquation
V1Inversion(t, l) ==
  IF t.t0 < 0 THEN TRUE ELSE
  /\ Check(t.k = Zero \/ t.t0 >= TE!PeriodT, l, "case: a target of the first period was lifted")
  /\ Check(t.target = Add(FromInt(t.t0), Mul(t.k, FromInt(TE!PeriodT))) /\ SumSeq(t.valid) = t.target, l,
           "case: the valid outputs do not add up to the model's target")
  /\ Check(\E s \in TE!Sol(t.t0) : t.payout = Add(FromInt(s), Mul(t.k, FromInt(TE!PeriodP))), l,
           "tax inversion: wrong payout, target class " \o TE!Class(t.t0))
V1Form(t, l) ==
  IF t.panic THEN Reject(l, "PrepareContractFormation panicked") ELSE
  /\ V1Contract(t, l)
  /\ V1Inversion(t, l)
  /\ Check(t.payout = Add(t.target, TaxV1(t.payout)), l, "tax-adjusted payout misses its target")
  /\ Check(t.valid[1] = t.rp /\ t.valid[2] = Add(t.cp, t.coll), l, "formation valid outputs")
  /\ Check(t.missed[1] = t.rp /\ t.missed[2] = Add(t.cp, t.coll) /\ t.missed[3] = Zero, l, "formation missed outputs")
  /\ Check(Add(t.cost, t.coll) = t.payout, l, "renter formation cost + host collateral is not the payout")
V1Renew2(t, l) ==
  IF t.panic THEN Reject(l, "rhp/v2 PrepareContractRenewal panicked") ELSE
  LET bytesBlocks == Mul(t.fs, FromInt(t.ext))
      basePrice == Mul(t.sp, bytesBlocks)  baseColl == Mul(t.pc, bytesBlocks)
      hostValid == Add(Add(t.cp, basePrice), Add(baseColl, t.newColl)) IN
  /\ V1Contract(t, l)
  /\ V1Inversion(t, l)
  /\ Check(t.basePrice = basePrice /\ t.bp2 = basePrice, l, "base price is not storage price x filesize x extension")
  /\ Check(t.hv = hostValid /\ t.vm = Add(basePrice, baseColl) /\ Add(t.hm, t.vm) = t.hv, l, "CalculateHostPayouts")
  /\ Check(t.valid[1] = t.rp /\ t.valid[2] = hostValid, l, "renewal valid outputs")
  /\ Check(t.missed[1] = t.rp /\ t.missed[2] = t.hm /\ t.missed[3] = t.vm, l, "renewal missed outputs")
  /\ Check(t.nfs = t.fs, l, "renewal changes the filesize")
  /\ Check(Add(t.cost, Add(baseColl, t.newColl)) = Add(t.payout, t.fee), l, "renter renewal cost + host collateral is not payout + fee")
V1Renew3(t, l) ==
  IF t.panic THEN Reject(l, "rhp/v3 PrepareContractRenewal panicked") ELSE
  LET bytesBlocks == Mul(t.fs, FromInt(t.ext))
      basePrice == Add(t.rcc, Mul(t.sp, bytesBlocks))
      rawBase == Mul(t.pc, bytesBlocks)
      rawNew == Mul(Mul(t.pc, t.expStorage), FromInt(t.dur))
      baseColl == IF Lt(t.maxColl, rawBase) THEN t.maxColl ELSE rawBase
      newColl == IF Lt(t.maxColl, rawBase) THEN Zero
                 ELSE IF Lt(t.maxColl, Add(rawBase, rawNew)) THEN Sub(t.maxColl, rawBase) ELSE rawNew
      hostValid == Add(Add(t.cp, basePrice), Add(baseColl, newColl)) IN
  /\ Check(t.bp = basePrice /\ t.bc = baseColl /\ t.nc = newColl, l, "RenewalCosts")
  /\ Check(t.err = Lt(newColl, t.minNew), l, "renewal fails iff the new collateral is below the requested minimum")
  /\ IF t.err THEN TRUE ELSE
      /\ V1Contract(t, l)
      /\ V1Inversion(t, l)
      /\ Check(t.basePrice = basePrice, l, "base price")
      /\ Check(t.valid[1] = t.rp /\ t.valid[2] = hostValid, l, "renewal valid outputs")
      /\ Check(t.missed[1] = t.rp /\ t.missed[2] = Add(t.cp, newColl) /\ t.missed[3] = Add(basePrice, baseColl), l, "renewal missed outputs")
      /\ Check(t.nfs = t.fs, l, "renewal changes the filesize")
      /\ Check(Add(t.cost, Add(baseColl, newColl)) = Add(t.payout, t.fee), l, "renter renewal cost + host collateral is not payout + fee")
V1Pay(t, l) ==
  IF t.panic THEN Reject(l, "PayByContract panicked") ELSE
  LET can == Le(t.amount, t.bv[1]) /\ Le(t.amount, t.bm[1]) IN
  /\ Check(t.ok = can, l, "PayByContract succeeds iff valid and missed renter payouts cover the amount")
  /\ IF t.ok
     THEN /\ Check(Add(t.av[1], t.amount) = t.bv[1] /\ t.av[2] = Add(t.bv[2], t.amount), l, "valid outputs move exactly the amount")
          /\ Check(Add(t.am[1], t.amount) = t.bm[1] /\ t.am[2] = Add(t.bm[2], t.amount) /\ t.am[3] = t.bm[3], l, "missed outputs move exactly the amount")
          /\ Check(SumSeq(t.av) = SumSeq(t.bv) /\ SumSeq(t.am) = SumSeq(t.bm), l, "payment changes the contract value")
          /\ Check(t.arn = t.brn + 1 /\ t.reqRN = t.arn, l, "revision number")
          /\ Check(t.reqV = t.av /\ t.reqM = t.am, l, "request does not carry the revised values")
     ELSE Check(t.av = t.bv /\ t.am = t.bm /\ t.arn = t.brn, l, "failed payment modified the revision")

\* MinRenterAllowance / MaxHostCollateral: storage price x (collateral / collateral price) and
\* collateral price x (allowance / storage price); no bound when the divisor price is zero
MaxCurrency == Sub(Two128, One)
Limits(t, l) ==
  IF t.panic THEN Reject(l, "MinRenterAllowance or MaxHostCollateral panicked") ELSE
  /\ Check(IF t.pc = Zero THEN t.minAllow = Zero ELSE IsQuot(t.coll, t.pc, t.q1) /\ t.minAllow = Mul(t.sp, t.q1), l, "MinRenterAllowance")
  /\ Check(IF t.sp = Zero THEN t.maxColl = MaxCurrency ELSE IsQuot(t.allow, t.sp, t.q2) /\ t.maxColl = Mul(t.pc, t.q2), l, "MaxHostCollateral")

\* ---- the trace automaton -------------------------------------------------------------
VARIABLES chunk, pos, cur
Init == chunk = 0 /\ pos = 0 /\ cur = NoContract

Line(l) ==
  LET t == Trace[l] IN
  CASE t.ev = "reset" -> TRUE
    [] t.ev = "new"   -> New(t, l, cur)
    [] t.ev = "rev"   -> Rev(t, l, cur)
    [] t.ev = "renew" -> Renew(t, l, cur)
    [] t.ev = "probeRev"   -> ProbeRev(t, l, cur)
    [] t.ev = "probeNew"   -> ProbeNew(t, l)
    [] t.ev = "probeRenew" -> ProbeRenew(t, l, cur)
    [] t.ev = "adm"      -> Adm(t, l, cur)
    [] t.ev = "v1form"   -> V1Form(t, l)
    [] t.ev = "v1renew2" -> V1Renew2(t, l)
    [] t.ev = "v1renew3" -> V1Renew3(t, l)
    [] t.ev = "v1pay"    -> V1Pay(t, l)
    [] t.ev = "limits"   -> Limits(t, l)
    [] OTHER -> Reject(l, "unknown event")
\* the contract the ledger holds after line l
After(l) ==
  LET t == Trace[l] IN
  CASE t.ev = "reset" -> NoContract
    [] t.ev = "new"   -> IF Accepted(t) THEN Holding(t.fc) ELSE cur
    [] t.ev = "rev"   -> IF ~t.panic /\ ~t.err /\ t.accepted THEN Holding(t.after) ELSE cur
    [] t.ev = "renew" -> IF Accepted(t) THEN Holding(t.r.nc) ELSE cur
    [] OTHER -> cur

Next == \/ /\ chunk = 0
           /\ chunk' \in 1..Len(Chunks)
           /\ pos' = Chunks[chunk'].from
           /\ cur' = NoContract
        \/ /\ chunk > 0 /\ pos <= Chunks[chunk].to
           /\ Line(pos)
           /\ cur' = After(pos)
           /\ pos' = pos + 1 /\ UNCHANGED chunk
Spec == Init /\ [][Next]_<<chunk, pos, cur>>
=============================================================================
