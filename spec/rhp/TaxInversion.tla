---------------------------- MODULE TaxInversion ----------------------------
(* C17 — targets for the v1 tax inversion, chosen by the structure of the equation and not at
   random (definitions: TaxEquation.tla).

   Window mode (FullScan = FALSE): one state per case.  A case is a payout within W of one of
   the two boundaries of a phase j in 0..MaxPhase (two periods for MaxPhase = 77), turned into
   its target, or one of the smallest targets.  For every case TLC checks the theorems below and
   prints the target with the set of payouts that solve the equation and its class; the harness
   lifts target and solutions by whole periods to the magnitudes of real contracts (theorem
   Periodic), hands the target to the real rhp/v2 and rhp/v3 constructors and the result to the
   real consensus validation; ContractsTrace.tla decides (it recomputes Sol itself).

   Scan mode (FullScan = TRUE): every target of one full period, chunked so that the workers
   share the scan: the same theorems, and WindowsCover: every target of a boundary class lies in
   one of the windows (so the window mode misses no class, whatever the phase).                *)
EXTENDS TaxEquation, Sequences, TLC, Json
CONSTANTS W,          \* half-width of the windows (a burst of equal distance is about 25 targets long)
          MaxPhase,   \* phases 0..MaxPhase
          FullScan,   \* BOOLEAN
          ChunkLen    \* scan mode: targets per chunk

VARIABLE kase         \* [b |-> boundary kind, j |-> phase (scan: chunk), d |-> offset (small, scan: the target)]

PayoutOf(k) == IF k.b = "jump" THEN JumpAt(k.j) + k.d ELSE SecondAt(k.j) + k.d
TargetOf(k) == IF k.b \in {"jump", "second"} THEN Target(PayoutOf(k)) ELSE k.d
T == TargetOf(kase)

NChunks == (PeriodT + ChunkLen - 1) \div ChunkLen
\* window mode: one root per phase, whose successors are the cases of that phase (so that TLC's
\* workers share the phases); the roots themselves stand for the target 0
CasesOf(j) == {k \in [b : {"jump", "second"}, j : {j}, d : (0 - W)..W] : PayoutOf(k) >= 0}
              \cup (IF j = 0 THEN [b : {"small"}, j : {0}, d : 0..W] ELSE {})
Init == IF FullScan
        THEN kase \in {[b |-> "scan", j |-> c, d |-> c * ChunkLen] : c \in 0..(NChunks - 1)}
        ELSE kase \in [b : {"phase"}, j : 0..MaxPhase, d : {0}]
Next == IF kase.b = "phase" THEN kase' \in CasesOf(kase.j)
        ELSE IF kase.b = "scan" /\ kase.d + 1 < (kase.j + 1) * ChunkLen /\ kase.d + 1 < PeriodT
        THEN kase' = [kase EXCEPT !.d = @ + 1]
        ELSE UNCHANGED kase
Spec == Init /\ [][Next]_kase

-----------------------------------------------------------------------------
(* theorems *)
Solvable  == Sol(T) # {}
AtMostTwo == LET s == Sol(T) IN Cardinality(s) <= 2 /\ (Cardinality(s) = 2 => MaxOf(s) - MinOf(s) = SF)
\* what the inversion relies on: the floor estimate is at or above the largest solution by less than SF
Bracket   == Dist(T) \in 0..(SF - 1)
InversionCorrect == Inv(T) = MaxOf(Sol(T))
\* lifting by whole periods (n up to 2 keeps 39 x amount below 2^31 for two periods of cases).  Only
\* targets of the second period and later are lifted: the targets below 390 have a second
\* solution from the second period on (in the first it would be a negative payout).
Liftable(t) == t >= PeriodT
Periodic  == Liftable(T) => \A n \in 1..2 : /\ Sol(T + n * PeriodT) = {P + n * PeriodP : P \in Sol(T)}
                                            /\ Class(T + n * PeriodT) = Class(T)
\* the classes are the right ones: each near-miss inversion is wrong exactly on its class
Discriminates ==
  LET s == Sol(T)  d == Dist(T) IN
  /\ (InvCeil(T) \in s)     = ~(d = SF - 1 /\ ~Exact(T))
  /\ (InvLow(T) \in s)      = ~(d = 0 /\ Cardinality(s) = 1)
  /\ (InvLe(T) \in s)       = ~(d = 0 /\ Cardinality(s) = 1)
  /\ (InvNoBorrow(T) \in s) = ~Borrow(T)

\* scan mode: every target of a boundary class has a solution within W of a boundary of its phase
PhaseOf(P) == ((39 * P) \div 1000) \div SF
Near(P, Q) == P - Q <= W /\ Q - P <= W
InWindow(P) == LET j == PhaseOf(P) IN Near(P, JumpAt(j)) \/ Near(P, SecondAt(j)) \/ Near(P, JumpAt(j + 1))
WindowsCover == (Dist(T) \in {0, 1, SF - 2, SF - 1}) => (\E P \in Sol(T) : InWindow(P))

SolSeq(t) == LET s == Sol(t) IN IF Cardinality(s) = 1 THEN <<MaxOf(s)>> ELSE <<MinOf(s), MaxOf(s)>>
Emit == PrintT("@@TX " \o ToJson([t |-> T, sol |-> SolSeq(T), cls |-> Class(T), b |-> kase.b, j |-> kase.j, d |-> kase.d]))
=============================================================================
