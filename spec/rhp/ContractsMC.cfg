\* exhaustive exploration of the abstract skeleton state space (history not carried)
SPECIFICATION Spec
CONSTANTS
  MaxOps = 7
  MaxSectors = 6
  AppendNs = {1, 2, 3}
  KeepHist = FALSE
  Focus = "all"
INVARIANTS TypeOK
CHECK_DEADLOCK FALSE
PROPERTIES CapacityMonotone RenewalResets
