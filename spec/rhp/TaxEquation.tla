----------------------------- MODULE TaxEquation -----------------------------
(* C17 — "forall v1 payout targets for the tax inversion": the consensus tax equation of a
   v1 file contract and its inversion, over plain naturals.

   Consensus (validateFileContracts, after the tax hardfork) accepts a contract only if
       payout = sum(valid outputs) + Tax(payout),   Tax(P) = floor(39 P / 1000) rounded down to a
                                                             multiple of the siafund count (10000).
   A constructor is given the TARGET (the sum of the outputs) and must find a payout P with
       P - Tax(P) = target.
   Everything here is periodic: Tax(P + 10^7) = Tax(P) + 390000, so targets repeat their
   behaviour with period 9 610 000 and payouts with period 10 000 000 (theorem Periodic of
   TaxInversion.tla, checked by TLC).  Inside one period the raw tax floor(39P/1000) passes 39
   multiples of the siafund count ("phases"); in every phase there are two boundaries:
       jump    the raw tax reaches 10000 j:        the rounded tax jumps, targets fall back by 10000
       second  the raw tax reaches 10000 j + 9610: from here on P and P + 10000 are both solutions
   Just below `second` the floor estimate 1000 t / 961 is payout + 9999, + 9998, ... (bursts of
   about 25 consecutive targets each); just above `jump` and `second` it is payout + 0, + 1, ...
   These are the residue classes at which an inversion that rounds or compares slightly
   differently fails, roughly one target in ten thousand each.

   Amounts must stay below 2^31 / 39 = 55 063 683 (TLC integers); five periods fit.            *)
EXTENDS Integers, FiniteSets, Sequences

SF       == 10000          \* siafund count
PeriodP  == 10000000       \* payouts
PeriodT  == 9610000        \* targets = PeriodP - Tax(PeriodP)
PhasesPerPeriod == 39

Tax(P)    == (((39 * P) \div 1000) \div SF) * SF
Target(P) == P - Tax(P)

\* the definition of a correct answer: every payout that satisfies the equation.  Tax(P) is a
\* multiple of SF and at most 39 P / 1000 <= 39 t / 961, hence the candidates.
Sol(t) == {P \in {t + SF * k : k \in 0..((39 * t) \div (961 * SF) + 2)} : Target(P) = t}
MaxOf(S) == CHOOSE x \in S : \A y \in S : y <= x
MinOf(S) == CHOOSE x \in S : \A y \in S : x <= y

\* boundaries of phase j, in payout space
JumpAt(j)   == (10000000 * j + 38) \div 39                  \* least P with 39P/1000 >= 10000 j
SecondAt(j) == ((10000 * j + 9610) * 1000 + 38) \div 39     \* least P with 39P/1000 >= 10000 j + 9610

\* the inversion of rhp/v2 and rhp/v3 (taxAdjustedPayout): the floor estimate, then the largest
\* value not above it that is congruent to the target modulo the siafund count
Guess(t) == t + (39 * t) \div 961                           \* = floor(1000 t / 961)
Exact(t) == (39 * t) % 961 = 0                              \* the estimate is not rounded
Borrow(t) == Guess(t) % SF < t % SF
Inv(t) == (IF Borrow(t) THEN Guess(t) - SF ELSE Guess(t)) + (t % SF) - (Guess(t) % SF)

\* inversions that differ by one rounding or one comparison; each is wrong exactly on one class of
\* targets (theorem Discriminates of TaxInversion.tla) — the reason for the classes below
AdjustTo(g, t) == (IF g % SF < t % SF THEN g - SF ELSE g) + (t % SF) - (g % SF)
InvCeil(t)  == AdjustTo(t + (39 * t + 960) \div 961, t)              \* estimate rounded up
InvLow(t)   == AdjustTo(Guess(t) - 1, t)                             \* estimate one too low
InvLe(t)    == LET g == Guess(t) IN (IF g % SF <= t % SF THEN g - SF ELSE g) + (t % SF) - (g % SF)
InvNoBorrow(t) == Guess(t) + (t % SF) - (Guess(t) % SF)

\* the class of a target: distance of the estimate from the largest solution, whether the
\* estimate is exact, how many solutions there are, which branch of the adjustment is taken,
\* and whether the largest solution is the first payout after a jump of the rounded tax
Dist(t) == Guess(t) - MaxOf(Sol(t))
DistClass(d) == IF d < 0 THEN "below" ELSE IF d = 0 THEN "d0" ELSE IF d = 1 THEN "d1" ELSE
                IF d = SF - 2 THEN "d9998" ELSE IF d = SF - 1 THEN "d9999" ELSE IF d >= SF THEN "over" ELSE "mid"
Class(t) == DistClass(Dist(t)) \o (IF Exact(t) THEN "-exact" ELSE "-inexact")
            \o (IF Cardinality(Sol(t)) = 1 THEN "-one" ELSE IF Cardinality(Sol(t)) = 2 THEN "-two" ELSE "-many")
            \o (IF Borrow(t) THEN "-borrow" ELSE "-keep")
=============================================================================
