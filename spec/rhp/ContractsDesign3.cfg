\* thorough: NewContract, two calls of any kind, then a renewal / refresh, all parameter combinations
SPECIFICATION Spec
CONSTANTS
  Plan <- PlanThorough
  Allows <- AllowValues
  Colls <- CollValues
  Cps = {0, 11}
  Fees = {1}
  Units = {0, 1}
INVARIANTS Sound Lineage
CHECK_DEADLOCK FALSE
