\* every skeleton of at most 3 operations (history carried, emitted at Stop)
SPECIFICATION Spec
CONSTANTS
  MaxOps = 3
  MaxSectors = 6
  AppendNs = {1, 2, 3}
  KeepHist = TRUE
  Focus = "all"
INVARIANTS TypeOK OneCollClassPerSegment OutcomeMatchesClass StartsWithNew Emit
CHECK_DEADLOCK FALSE
