SPECIFICATION Spec
CONSTANT TL_ChunkSize = 1
CHECK_DEADLOCK FALSE
