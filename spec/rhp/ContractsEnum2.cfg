\* every skeleton of at most 2 operations (history carried, emitted at Stop)
SPECIFICATION Spec
CONSTANTS
  MaxOps = 2
  MaxSectors = 6
  AppendNs = {1, 2, 3}
  KeepHist = TRUE
  Focus = "all"
INVARIANTS TypeOK OneCollClassPerSegment OutcomeMatchesClass StartsWithNew Emit
CHECK_DEADLOCK FALSE
