--------------------------- MODULE ContractsDesign ---------------------------
(* C17 — design level.  The RHP4 constructors and cost functions transcribed
   from rhp/v4/rhp.go (NewContract, PayWithContract and the ReviseFor*
   wrappers, RenewContract, RefreshContractPartialRollover,
   RefreshContractFullRollover, ContractCost, RenewalCost, RefreshCost) over
   BigNat, with every Currency subtraction made explicit.  TLC explores every
   lineage of at most MaxDepth calls for all combinations of the small
   parameter values of the configuration (values chosen on both sides of the
   comparisons and not divisible by 25) and checks on every step:

     - no subtraction underflows (the real code would panic);
     - the relational post-conditions of ContractRules (conservation, renter
       charged the usage, rollover bounded, costs fund the new contract exactly);
     - the transcribed consensus rules accept the result when the transaction
       is funded with exactly the reported costs.

   `why` names the first rule the last step broke ("" if none).              *)
EXTENDS ContractRules, TLC

CONSTANTS Plan,              \* Plan[d]: classes of calls allowed as d-th call ("new", "rev", "ren", "size")
                             \* "size": appends of 1..3 sectors and frees of 1..3 sectors (capacity bookkeeping:
                             \* sectors are freed and fewer / as many / more are appended again)
          Allows, Colls,     \* <<a, b>> stands for a * SectorSize + b hastings
          Cps, Fees,         \* hastings
          Units              \* per-unit prices (storage, ingress, free sector), hastings
VARIABLES fc, depth, why
vars == <<fc, depth, why>>
MaxDepth == Len(Plan)

Amt(x) == Add(Mul(SS, FromInt(x[1])), FromInt(x[2]))
Tip == 9            \* host tip in every price table
Child == 10         \* height of the block that would carry the transaction
PH0 == 40           \* proof height of the first contract

PT(cp, sp, ip, fsp, pc) == [cp |-> FromInt(cp), sp |-> FromInt(sp), ip |-> FromInt(ip), ep |-> Zero, fsp |-> FromInt(fsp), pc |-> FromInt(pc), tip |-> Tip]

\* first failing <<condition, message>>
FirstFail(checks) ==
  IF \A i \in DOMAIN checks : checks[i][1] THEN ""
  ELSE checks[CHOOSE i \in DOMAIN checks : ~checks[i][1] /\ \A j \in 1..(i - 1) : checks[j][1]][2]

\* request validation (rhp/v4/validation.go): allowance > 0 and >= storage price * (collateral / collateral price)
\* (collateral price is 0 or 1 in this model, so the quotient is the collateral itself)
MinAllowance(p, coll) == IF p.pc = Zero THEN Zero ELSE Mul(p.sp, coll)
RequestOK(p, allow, coll) == allow # Zero /\ Le(MinAllowance(p, coll), allow)

\* ---- transcriptions -----------------------------------------------------------------
M_New(p, allow, coll, ph) ==
  [fs |-> Zero, cap |-> Zero, ph |-> ph, eh |-> ph + ProofWindow, ro |-> allow, ho |-> Add(coll, p.cp),
   mh |-> coll, tc |-> coll, rn |-> 0]
\* ContractCost
M_ContractCost(c, fee) == [safe |-> Le(c.tc, c.ho),
                           renter |-> Add(Add(Add(c.ro, Sub(c.ho, c.tc)), fee), TaxV2(c)), host |-> c.tc]

\* PayWithContract
M_CanPay(c, u) == Le(RenterCost(u), c.ro) /\ Le(u.coll, c.mh)
M_Pay(c, u) == [c EXCEPT !.rn = @ + 1, !.ro = Sub(@, RenterCost(u)), !.ho = Add(@, RenterCost(u)), !.mh = Sub(@, u.coll)]
\* ReviseForAppendSectors / FreeSectors / FundAccounts (usage from the price table)
M_Revise(op, c, p, n, amount) ==
  LET u == ExpectedUsage(op, c, p, n, amount)
      sized == CASE op = "append" -> [c EXCEPT !.fs = Add(@, Mul(SS, FromInt(n))), !.cap = Add(@, Mul(SS, Growth(c, n)))]
                 [] op = "free"   -> [c EXCEPT !.fs = Sub(@, Mul(SS, FromInt(n)))]
                 [] OTHER         -> c
  IN [ok |-> M_CanPay(c, u), fc |-> IF M_CanPay(c, u) THEN M_Pay(sized, u) ELSE c, u |-> u]

\* RenewContract
M_Renew(c, p, allow, coll, ph) ==
  LET neh == ph + ProofWindow
      risked == Mul(Mul(p.pc, c.fs), FromInt(neh - p.tip))
      ntc == Add(coll, risked)
      storage == Mul(Mul(p.sp, c.fs), FromInt(neh - c.eh))
      nho == Add(Add(ntc, storage), p.cp)
      hr == IF Lt(ntc, c.tc) THEN ntc ELSE c.tc
      rr == IF Lt(allow, c.ro) THEN allow ELSE c.ro
      nc == [c EXCEPT !.rn = 0, !.cap = c.fs, !.eh = neh, !.ph = ph, !.ro = allow, !.tc = ntc, !.mh = coll, !.ho = nho]
  IN [safe |-> Le(hr, c.ho) /\ Le(rr, c.ro) /\ Le(ntc, nho) /\ Le(Add(ntc, p.cp), nho) /\ Le(coll, ntc),
      r |-> [fro |-> Sub(c.ro, rr), fho |-> Sub(c.ho, hr), rr |-> rr, hr |-> hr, nc |-> nc],
      u |-> [ZeroUsage EXCEPT !.rpc = p.cp, !.st = Sub(Sub(nho, ntc), p.cp), !.coll = Sub(ntc, coll)]]
\* RenewalCost
M_RenewalCost(r, fee) ==
  LET gross == Add(Add(Add(r.nc.ro, Sub(r.nc.ho, r.nc.tc)), fee), TaxV2(r.nc)) IN
  [safe |-> Le(r.nc.tc, r.nc.ho) /\ Le(r.rr, gross) /\ Le(r.hr, r.nc.tc),
   renter |-> Sub(gross, r.rr), host |-> Sub(r.nc.tc, r.hr)]

\* RefreshContractPartialRollover
M_RefreshPartial(c, p, allow, coll) ==
  LET rev == Sub(c.ho, c.tc)  rc == Sub(c.tc, c.mh)
      nho == Add(Add(Add(rev, rc), coll), p.cp)
      hostFunds == Sub(nho, p.cp)
      hr == IF Lt(hostFunds, c.ho) THEN hostFunds ELSE c.ho
      renterFunds == Add(allow, p.cp)
      rr == IF Lt(renterFunds, c.ro) THEN renterFunds ELSE c.ro
      nc == [c EXCEPT !.rn = 0, !.ho = nho, !.mh = coll, !.tc = Add(rc, coll), !.ro = allow]
  IN [safe |-> Le(c.tc, c.ho) /\ Le(c.mh, c.tc) /\ Le(p.cp, nho) /\ Le(hr, c.ho) /\ Le(rr, c.ro),
      r |-> [fro |-> Sub(c.ro, rr), fho |-> Sub(c.ho, hr), rr |-> rr, hr |-> hr, nc |-> nc],
      u |-> [ZeroUsage EXCEPT !.rpc = p.cp, !.coll = Sub(nc.tc, nc.mh)]]
\* RefreshContractFullRollover
M_RefreshFull(c, p, allow, coll) ==
  LET nc == [c EXCEPT !.rn = 0, !.ro = Add(c.ro, allow), !.ho = Add(Add(c.ho, coll), p.cp), !.mh = Add(c.mh, coll), !.tc = Add(c.tc, coll)]
  IN [safe |-> Le(nc.mh, nc.tc),
      r |-> [fro |-> Zero, fho |-> Zero, rr |-> c.ro, hr |-> c.ho, nc |-> nc],
      u |-> [ZeroUsage EXCEPT !.rpc = p.cp, !.coll = Sub(nc.tc, nc.mh)]]
\* RefreshCost
M_RefreshCost(p, r, fee) ==
  [safe |-> Le(r.rr, Add(r.nc.ro, p.cp)) /\ Le(Add(p.cp, r.hr), r.nc.ho),
   renter |-> Add(Add(Sub(Add(r.nc.ro, p.cp), r.rr), fee), TaxV2(r.nc)),
   host |-> Sub(Sub(r.nc.ho, p.cp), r.hr)]

\* ---- what every step must satisfy ---------------------------------------------------------
NewChecks(c, p, allow, coll, fee) ==
  LET k == M_ContractCost(c, fee) IN
  << <<k.safe, "ContractCost underflows">> >> \o
  PostNew(c, [ZeroUsage EXCEPT !.rpc = p.cp], p, allow, coll, c.ph) \o
  << <<CostsFundExactly(c, Zero, Zero, k.renter, k.host, fee), "formation costs are not exact">>,
     <<ConsensusValidV2Formation(c, Child, <<k.renter, k.host>>, <<>>, fee), "exactly funded formation refused by the consensus rules">> >>

RevChecks(op, c, m, p, n, amount) ==
  IF m.ok THEN PostRevision(op, c, m.fc, m.u, p, n, amount) \o
               << <<ConsensusValidV2Revision(c, m.fc, Child, TRUE), "revision refused by the consensus rules">> >>
  ELSE PostRevisionError(op, c, m.fc, p, n, amount)

RenewalChecks(kind, c, m, k, p, allow, coll, ph, fee) ==
  << <<m.safe, "constructor underflows">>, <<k.safe, "cost function underflows">> >> \o
  PostRenewalCommon(c, m.r, k.renter, k.host, fee) \o
  (CASE kind = "renew"    -> PostRenew(c, m.r, m.u, p, allow, coll, ph)
     [] kind = "refreshP" -> PostRefreshPartial(c, m.r, m.u, p, allow, coll)
     [] kind = "refreshF" -> PostRefreshFull(c, m.r, m.u, p, allow, coll)) \o
  << <<ConsensusValidV2Renewal(c, m.r, Child, <<k.renter, k.host>>, <<>>, fee), "exactly funded renewal refused by the consensus rules">> >>

\* ---- the lineage -------------------------------------------------------------------------
NoFC == [fs |-> Zero, cap |-> Zero, ph |-> 0, eh |-> 0, ro |-> Zero, ho |-> Zero, mh |-> Zero, tc |-> Zero, rn |-> 0]
Init == fc = NoFC /\ depth = 0 /\ why = ""

Prices == {PT(cp, sp, 0, 0, pc) : cp \in Cps, sp \in Units, pc \in {0, 1}}
AppendPrices == {PT(0, sp, ip, 0, pc) : sp \in Units, ip \in {0, 1}, pc \in {0, 1}}

New == /\ depth = 0
       /\ \E p \in Prices, a \in Allows, co \in Colls, fee \in Fees :
            LET allow == Amt(a) coll == Amt(co) c == M_New(p, allow, coll, PH0) IN
            /\ RequestOK(p, allow, coll)
            /\ fc' = c
            /\ why' = FirstFail(NewChecks(c, p, allow, coll, FromInt(fee)))
       /\ depth' = 1

Step(c2, w) == fc' = c2 /\ why' = w /\ depth' = depth + 1
Live(class) == depth >= 1 /\ depth < MaxDepth /\ why = "" /\ class \in Plan[depth + 1]

AppendS(class, Ns) ==
          /\ Live(class)
          /\ \E p \in AppendPrices, n \in Ns :
               LET m == M_Revise("append", fc, p, n, Zero) IN Step(m.fc, FirstFail(RevChecks("append", fc, m, p, n, Zero)))
FreeS(class, Ks) ==
        /\ Live(class)
        /\ \E fsp \in Units, k \in Ks :
             LET p == PT(0, 0, 0, fsp, 0) m == M_Revise("free", fc, p, k, Zero) IN
             /\ Le(Mul(SS, FromInt(k)), fc.fs)          \* request validation: only stored sectors can be freed
             /\ Step(m.fc, FirstFail(RevChecks("free", fc, m, p, k, Zero)))
\* fund: one hasting, half, everything, one too many
FundS == /\ Live("rev")
        /\ \E amount \in {One, DivSmall(fc.ro, 2), fc.ro, Add(fc.ro, One)} :
             LET p == PT(0, 0, 0, 0, 0) m == M_Revise("fund", fc, p, 0, amount) IN
             /\ amount # Zero
             /\ Step(m.fc, FirstFail(RevChecks("fund", fc, m, p, 0, amount)))
Renew == /\ Live("ren")
         /\ \E p \in Prices, a \in Allows, co \in Colls, fee \in Fees, dph \in {1, 30} :
              LET allow == Amt(a) coll == Amt(co) ph == fc.ph + dph
                  m == M_Renew(fc, p, allow, coll, ph) k == M_RenewalCost(m.r, FromInt(fee)) IN
              /\ RequestOK(p, allow, coll)
              /\ Step(m.r.nc, FirstFail(RenewalChecks("renew", fc, m, k, p, allow, coll, ph, FromInt(fee))))
Refresh(kind) ==
  /\ Live("ren")
  /\ \E p \in Prices, a \in Allows, co \in Colls, fee \in Fees :
       LET allow == Amt(a) coll == Amt(co)
           m == IF kind = "refreshP" THEN M_RefreshPartial(fc, p, allow, coll) ELSE M_RefreshFull(fc, p, allow, coll)
           k == M_RefreshCost(p, m.r, FromInt(fee)) IN
       /\ RequestOK(p, allow, coll)
       /\ Step(m.r.nc, FirstFail(RenewalChecks(kind, fc, m, k, p, allow, coll, fc.ph, FromInt(fee))))

Next == New \/ AppendS("rev", {1, 2}) \/ FreeS("rev", {1}) \/ AppendS("size", {1, 2, 3}) \/ FreeS("size", {1, 2, 3}) \/ FundS \/ Renew \/ Refresh("refreshP") \/ Refresh("refreshF")
Spec == Init /\ [][Next]_vars

\* the invariant: no step ever breaks a rule
Sound == why = ""
\* lineage invariants the constructors rely on (never checked by consensus)
Lineage == depth >= 1 => /\ Le(fc.mh, fc.tc) /\ Le(fc.tc, fc.ho) /\ Le(fc.fs, fc.cap)
\* a revision never lowers the capacity and keeps the filesize within it, whatever was freed before
\* (validateRevision: "decreases capacity", "filesize exceeds capacity"); also part of RevChecks via
\* ConsensusValidV2Revision and ExpectedSize, stated here on the lineage itself
Revises == AppendS("rev", {1, 2}) \/ FreeS("rev", {1}) \/ AppendS("size", {1, 2, 3}) \/ FreeS("size", {1, 2, 3}) \/ FundS
CapacityMonotone == [][Revises => (Le(fc.cap, fc'.cap) /\ Le(fc'.fs, fc'.cap))]_vars
\* reachability witness (ContractsDesignSizesReach.cfg; the harness expects TLC to REFUTE NeverPartialRefill):
\* the size plan contains a successful append into a contract with free capacity that leaves free capacity,
\* i.e. sectors were freed and fewer were appended again
PartialRefillStep == /\ Lt(fc.fs, fc.cap) /\ Lt(fc.fs, fc'.fs) /\ Lt(fc'.fs, fc'.cap) /\ fc'.cap = fc.cap /\ why' = ""
NeverPartialRefill == [][~PartialRefillStep]_vars

\* ---- constant values for the configurations (cfg files cannot spell tuples) -----------------
PlanQuick    == <<{"new"}, {"rev", "ren"}>>
PlanThorough == <<{"new"}, {"rev", "ren"}, {"rev", "ren"}, {"ren"}>>
PlanSizes    == <<{"new"}, {"size"}, {"size"}, {"size"}, {"size", "ren"}>>
OneAllow     == {<<4000, 7>>}
OneColl      == {<<300, 3>>}
AllowValues  == {<<0, 1>>, <<400, 7>>}
CollValues   == {<<0, 0>>, <<0, 1>>, <<300, 3>>}
=============================================================================
