\* reachability witness for ContractsDesignSizes.cfg: TLC must refute NeverPartialRefill (see ContractsDesign.tla)
SPECIFICATION Spec
CONSTANTS
  Plan <- PlanSizes
  Allows <- OneAllow
  Colls <- OneColl
  Cps = {11}
  Fees = {1}
  Units = {1}
INVARIANTS Sound
PROPERTIES NeverPartialRefill
CHECK_DEADLOCK FALSE
