\* every admission case for contract shapes up to 3 units of capacity (one initial state per case, emitted)
SPECIFICATION Spec
CONSTANTS
  MaxCap = 3
INVARIANTS InstanceSane StalePricesDoNotHelp OnlyStoredSectors Emit
CHECK_DEADLOCK FALSE
