--------------------------- MODULE CurrencyTrace ---------------------------
(* Trace validation of the real 128-bit Currency code (types/currency.go).
   Each trace line records one operand pair with the results of every
   operation, the overflow flags, which non-reporting variants panicked, and
   the text forms.  The specification recomputes everything with BigNat:
   exact sums, differences and products, quotients by post-condition,
   decimal digits by repeated short division.                                *)
EXTENDS BigNat, TraceLib, Json
Trace == ndJsonDeserialize("trace.ndjson")
N == Len(Trace)
Two128 == Pow2(128)
Two64  == Pow2(64)
Fits(x) == Lt(x, Two128)

\* ---- arithmetic line ------------------------------------------------------
Arith(t, l) ==
  LET a == t.a  b == t.b  b64 == t.b64
      sum == Add(a, b)  prod == Mul(a, b)  prod64 == Mul(a, b64)
  IN
  /\ Check(IsNat(a) /\ IsNat(b) /\ Fits(a) /\ Fits(b) /\ Lt(b64, Two64), l, "operand not a 128-bit value")
  \* Add
  /\ Check(t.addOf = ~Fits(sum), l, "AddWithOverflow flag")
  /\ Check(t.addOf \/ t.add = sum, l, "AddWithOverflow value")
  /\ Check(t.addPanic = t.addOf, l, "Add panics iff overflow")
  \* Sub
  /\ Check(t.subUf = Lt(a, b), l, "SubWithUnderflow flag")
  /\ Check(t.subUf \/ t.sub = Sub(a, b), l, "SubWithUnderflow value")
  /\ Check(t.subPanic = t.subUf, l, "Sub panics iff underflow")
  \* Mul
  /\ Check(t.mulOf = ~Fits(prod), l, "MulWithOverflow flag")
  /\ Check(t.mulOf \/ t.mul = prod, l, "MulWithOverflow value")
  /\ Check(t.mulPanic = t.mulOf, l, "Mul panics iff overflow")
  \* Mul64
  /\ Check(t.mul64Of = ~Fits(prod64), l, "Mul64WithOverflow flag")
  /\ Check(t.mul64Of \/ t.mul64 = prod64, l, "Mul64WithOverflow value")
  /\ Check(t.mul64Panic = t.mul64Of, l, "Mul64 panics iff overflow")
  \* Div, Div64 : quotient by post-condition; division by zero panics
  /\ Check(t.divPanic = (b = <<>>), l, "Div panics iff divisor is zero")
  /\ Check(b = <<>> \/ IsQuot(a, b, t.div), l, "Div quotient")
  /\ Check(t.div64Panic = (b64 = <<>>), l, "Div64 panics iff divisor is zero")
  /\ Check(b64 = <<>> \/ IsQuot(a, b64, t.div64), l, "Div64 quotient")
  \* Cmp, Equals, IsZero
  /\ Check(t.cmp = Cmp(a, b), l, "Cmp is the integer order")
  /\ Check(t.eq = (a = b), l, "Equals")
  /\ Check(t.zero = (a = <<>>), l, "IsZero")

\* ---- text line --------------------------------------------------------------
\* exact: digit sequence of ExactString / %d / MarshalText ; unit form split by
\* the harness into mantissa digits, fraction digits and unit index
\* (0 = H, 4 = pS, 5 = nS, ..., 12 = TS; u = thousands group of the unit).
RECURSIVE Zeros(_)
Zeros(k) == IF k <= 0 THEN <<>> ELSE <<0>> \o Zeros(k - 1)
Text(t, l) ==
  LET a == t.a  ds == Digits(a)  u0 == (Len(ds) - 1) \div 3
      u == IF u0 > 12 THEN 12 ELSE u0 IN
  /\ Check(t.exact = ds, l, "ExactString digits")
  /\ Check(t.json = ds, l, "MarshalText digits")
  /\ Check(t.fmtd = ds, l, "%d digits")
  /\ Check(t.rtExact /\ t.rtUnit /\ t.rtJSON /\ t.rtFmtd, l, "text form does not parse back to the same value")
  /\ IF a = <<>> THEN Check(t.unit = 8 /\ t.mant = <<0>> /\ t.frac = <<>>, l, "zero prints as 0 SC")
     ELSE IF u0 < 4 THEN Check(t.unit = 0 /\ t.mant = ds /\ t.frac = <<>>, l, "small values print in hastings")
     ELSE /\ Check(t.unit = u, l, "unit of the suffixed form")
          /\ Check(t.mant \o t.frac \o Zeros(3 * u - Len(t.frac)) = ds, l, "suffixed form value")
          /\ Check(t.frac = <<>> \/ t.frac[Len(t.frac)] # 0, l, "fraction has trailing zero")
          /\ Check(Len(t.frac) <= 3 * u, l, "fraction longer than the unit")

\* ---- parse line: a decimal literal the parser must accept or reject --------
\* neg: leading minus sign; mant/frac digit sequences; exp: power of ten of the unit (0 for H / none)
\* Acceptable only if not negative, a whole number of hastings, and below 2^128.
RECURSIVE AllZero(_)
AllZero(s) == s = <<>> \/ (Head(s) = 0 /\ AllZero(Tail(s)))
Parse(t, l) ==
  LET keep == IF Len(t.frac) <= t.exp THEN t.frac ELSE SubSeq(t.frac, 1, t.exp)
      drop == IF Len(t.frac) <= t.exp THEN <<>> ELSE SubSeq(t.frac, t.exp + 1, Len(t.frac))
      whole == FromDigits(t.mant \o keep \o Zeros(t.exp - Len(keep)))
      \* minus zero is not a negative amount
      ok == /\ AllZero(drop) /\ Fits(whole) /\ (~t.neg \/ whole = <<>>)
  \* the property demands rejection of bad literals and the exact value of accepted ones;
  \* acceptance of every good literal is demanded only through the round trips of Text
  IN /\ Check(~t.accepted \/ ok, l, "ParseCurrency accepted a negative, fractional or out-of-range literal")
     /\ Check(~t.accepted \/ t.value = whole, l, "ParseCurrency value")

Line(l) == LET t == Trace[l] IN
  CASE t.ev = "arith" -> Arith(t, l)
    [] t.ev = "text"  -> Text(t, l)
    [] t.ev = "parse" -> Parse(t, l)
    [] OTHER -> Reject(l, "unknown event")

VARIABLES chunk, pos
Init == chunk = 0 /\ pos = 0
Last(c) == IF c * TL_ChunkSize < N THEN c * TL_ChunkSize ELSE N
Next == \/ /\ chunk = 0
           /\ chunk' \in 1..NChunks(N)
           /\ pos' = (chunk' - 1) * TL_ChunkSize + 1
        \/ /\ chunk > 0 /\ pos <= Last(chunk)
           /\ Line(pos)
           /\ pos' = pos + 1 /\ UNCHANGED chunk
Spec == Init /\ [][Next]_<<chunk, pos>>
=============================================================================
