------------------------------ MODULE Currency ------------------------------
(* Prototype: types.Currency arithmetic with limbs of W bits instead of 64.
   Transcribes AddWithOverflow, SubWithUnderflow, MulWithOverflow,
   Mul64WithOverflow, quoRem64, quoRem, Cmp; checks them against exact
   arithmetic for every operand pair.                                      *)
EXTENDS Integers, TLC
CONSTANT W
B == 2^W
Val(c) == c.hi * B + c.lo
Cur(n) == [lo |-> n % B, hi |-> n \div B]
\* math/bits at width W
Add64(x, y, c) == [sum |-> (x + y + c) % B, carry |-> (x + y + c) \div B]
Sub64(x, y, b) == [diff |-> (x - y - b) % B, borrow |-> IF x - y - b < 0 THEN 1 ELSE 0]
Mul64(x, y)    == [hi |-> (x * y) \div B, lo |-> (x * y) % B]
Div64(hi, lo, y) == [quo |-> (hi * B + lo) \div y, rem |-> (hi * B + lo) % y]     \* requires hi < y
RECURSIVE LeadingZeros(_)
LeadingZeros(x) == IF x >= B \div 2 THEN 0 ELSE 1 + LeadingZeros(2 * x + 1)      \* x # 0 assumed; 2x+1 keeps it non-zero
Shl(x, n) == (x * 2^n) % B
Shr(x, n) == x \div 2^n

AddWithOverflow(c, v) ==
  LET l == Add64(c.lo, v.lo, 0) h == Add64(c.hi, v.hi, l.carry)
  IN [r |-> [lo |-> l.sum, hi |-> h.sum], of |-> h.carry # 0]
SubWithUnderflow(c, v) ==
  LET l == Sub64(c.lo, v.lo, 0) h == Sub64(c.hi, v.hi, l.borrow)
  IN [r |-> [lo |-> l.diff, hi |-> h.diff], of |-> h.borrow # 0]
MulWithOverflow(c, v) ==
  LET m  == Mul64(c.lo, v.lo)
      p01 == Mul64(c.hi, v.lo)
      p23 == Mul64(c.lo, v.hi)
      a0 == Add64(m.hi, p01.lo, 0)
      a1 == Add64(a0.sum, p23.lo, 0)
  IN [r |-> [lo |-> m.lo, hi |-> a1.sum],
      of |-> (c.hi # 0 /\ v.hi # 0) \/ p01.hi # 0 \/ p23.hi # 0 \/ a0.carry # 0 \/ a1.carry # 0]
Mul64WithOverflow(c, v) ==
  LET m0 == Mul64(c.lo, v) m1 == Mul64(c.hi, v) a == Add64(m0.hi, m1.lo, 0)
  IN [r |-> [lo |-> m0.lo, hi |-> a.sum], of |-> m1.hi # 0 \/ a.carry # 0]
QuoRem64(c, v) ==
  IF c.hi < v
  THEN LET d == Div64(c.hi, c.lo, v) IN [q |-> [lo |-> d.quo, hi |-> 0], r |-> d.rem]
  ELSE LET dh == Div64(0, c.hi, v) dl == Div64(dh.rem, c.lo, v)
       IN [q |-> [lo |-> dl.quo, hi |-> dh.quo], r |-> dl.rem]
CmpC(c, v) == IF c = v THEN 0 ELSE IF c.hi < v.hi \/ (c.hi = v.hi /\ c.lo < v.lo) THEN -1 ELSE 1
QuoRem(c, v) ==
  IF v.hi = 0
  THEN LET x == QuoRem64(c, v.lo) IN [q |-> x.q, r |-> [lo |-> x.r, hi |-> 0]]
  ELSE LET n   == LeadingZeros(v.hi)
           v1  == [lo |-> Shl(v.lo, n), hi |-> (Shl(v.hi, n) + Shr(v.lo, W - n)) % B]
           u1  == [lo |-> (Shr(c.lo, 1) + Shl(c.hi, W - 1)) % B, hi |-> Shr(c.hi, 1)]
           tq0 == Shr(Div64(u1.hi, u1.lo, v1.hi).quo, (W - 1) - n)
           tq  == IF tq0 # 0 THEN tq0 - 1 ELSE 0
           r0  == SubWithUnderflow(c, Mul64WithOverflow(v, tq).r).r
       IN IF CmpC(r0, v) >= 0
          THEN [q |-> Cur(tq + 1), r |-> SubWithUnderflow(r0, v).r]
          ELSE [q |-> Cur(tq), r |-> r0]

Max == B * B
All == 0..(Max - 1)
VARIABLES a, b
Init == a \in All /\ b \in All
Next == UNCHANGED <<a, b>>
Exact ==
  LET A == Cur(a) Bv == Cur(b) IN
  /\ LET x == AddWithOverflow(A, Bv) IN x.of = (a + b >= Max) /\ (~x.of => Val(x.r) = a + b)
  /\ LET x == SubWithUnderflow(A, Bv) IN x.of = (a < b) /\ (~x.of => Val(x.r) = a - b)
  /\ LET x == MulWithOverflow(A, Bv) IN x.of = (a * b >= Max) /\ (~x.of => Val(x.r) = a * b)
  /\ (b < B => LET x == Mul64WithOverflow(A, b) IN x.of = (a * b >= Max) /\ (~x.of => Val(x.r) = a * b))
  /\ (b # 0 => LET x == QuoRem(A, Bv) IN Val(x.q) = a \div b /\ Val(x.r) = a % b)
  /\ (b # 0 /\ b < B => LET x == QuoRem64(A, b) IN Val(x.q) = a \div b /\ x.r = a % b)
  /\ CmpC(A, Bv) = (IF a = b THEN 0 ELSE IF a < b THEN -1 ELSE 1)
=============================================================================
