INIT Init
NEXT Next
CONSTANT W = 5
INVARIANT Exact
CHECK_DEADLOCK FALSE
