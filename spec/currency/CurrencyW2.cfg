INIT Init
NEXT Next
CONSTANT W = 2
INVARIANT Exact
CHECK_DEADLOCK FALSE
