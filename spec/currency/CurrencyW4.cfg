INIT Init
NEXT Next
CONSTANT W = 4
INVARIANT Exact
CHECK_DEADLOCK FALSE
