INIT Init
NEXT Next
CONSTANT W = 3
INVARIANT Exact
CHECK_DEADLOCK FALSE
