----------------------------- MODULE Exchanges -----------------------------
(* Several RPC exchanges on ONE connection (an RHP2 session, an RHP3 stream,
   an RHP4 stream, a gateway stream): whatever one side writes is what the
   other reads, in order, for all sequences on one connection.

   An exchange is what the caller writes - the preamble the protocol
   prescribes for every exchange, the RPC id, optionally a request object -
   followed by what the callee answers: its preamble, then one or more
   responses (objects or error responses).  Both directions are byte streams
   (FIFO).  Each reader follows the grammar of the protocol: it knows what
   kind of item comes next and takes exactly that item.

     proto   caller writes per exchange        callee writes per exchange
     rhp2    id [req]                          resp+
     rhp3    SUB id [req]                      SUBACK resp+     (subscription before EVERY id)
     rhp4    id [req]                          resp+
     gw      id req                            resp             (one response, no error responses)

   Checked over all interleavings of the four parties' steps (caller writes,
   callee reads, callee writes, caller reads) for every conversation of up to
   MaxEx exchanges:
     Aligned   whenever a reader takes an item, the item at the head of its
               stream is the one its grammar expects, of the exchange it is in;
     InOrder   what each side has been handed is exactly what the other side
               wrote for it, in order, nothing skipped, nothing invented;
     Drained   when the conversation is over nothing is left in either stream.
   Every conversation is printed as an EXCH record; the harness carries it out
   on one real connection of that protocol with real objects.               *)
EXTENDS Integers, Sequences, FiniteSets, TLC, Json
CONSTANTS Protos, MaxEx, MaxResp, Emit
VARIABLES proto,
          plan,     \* the conversation: <<[req |-> BOOLEAN, resps |-> <<"obj" | "err", ...>>], ...>>
          up, down, \* caller -> callee, callee -> caller : sequences of items [ex, kind, idx]
          cw, hr, hw, cr,   \* progress of: caller writing, callee reading, callee writing, caller reading  (exchange, position)
          gotUp, gotDown,   \* items handed to the callee / the caller
          ok
vars == <<proto, plan, up, down, cw, hr, hw, cr, gotUp, gotDown, ok>>

RespSeqs == UNION {[1..n -> {"obj", "err"}] : n \in 1..MaxResp}
ExKinds(p) == IF p = "gw" THEN {[req |-> TRUE, resps |-> <<"obj">>]}
              ELSE {[req |-> q, resps |-> r] : q \in BOOLEAN, r \in RespSeqs}
Plans(p) == UNION {[1..k -> ExKinds(p)] : k \in 1..MaxEx}

\* what each side writes for exchange i
UpItems(p, i, e) ==
  (IF p = "rhp3" THEN <<[ex |-> i, kind |-> "sub", idx |-> 0]>> ELSE <<>>)
  \o <<[ex |-> i, kind |-> "id", idx |-> 0]>>
  \o (IF e.req THEN <<[ex |-> i, kind |-> "req", idx |-> 0]>> ELSE <<>>)
DownItems(p, i, e) ==
  (IF p = "rhp3" THEN <<[ex |-> i, kind |-> "suback", idx |-> 0]>> ELSE <<>>)
  \o [j \in 1..Len(e.resps) |-> [ex |-> i, kind |-> e.resps[j], idx |-> j]]

Init == /\ proto \in Protos /\ plan \in Plans(proto)
        /\ up = <<>> /\ down = <<>> /\ gotUp = <<>> /\ gotDown = <<>> /\ ok = TRUE
        /\ cw = 1 /\ hw = 1 /\ hr = <<1, 1>> /\ cr = <<1, 1>>

N == Len(plan)
\* the caller writes the next exchange once it has read every response of the previous one
CallerWrite == /\ cw <= N /\ cr[1] = cw
               /\ up' = up \o UpItems(proto, cw, plan[cw]) /\ cw' = cw + 1
               /\ UNCHANGED <<proto, plan, down, hr, hw, cr, gotUp, gotDown, ok>>
\* the callee reads the items of the exchange it is in, one at a time, by its grammar
CalleeRead ==
  /\ hr[1] <= N /\ up # <<>>
  /\ LET want == UpItems(proto, hr[1], plan[hr[1]])
         h == Head(up) IN
     /\ ok' = (ok /\ h = want[hr[2]])
     /\ gotUp' = Append(gotUp, h) /\ up' = Tail(up)
     /\ hr' = IF hr[2] = Len(want) THEN <<hr[1] + 1, 1>> ELSE <<hr[1], hr[2] + 1>>
  /\ UNCHANGED <<proto, plan, down, cw, hw, cr, gotDown>>
\* the callee answers an exchange once it has read all of it
CalleeWrite == /\ hw <= N /\ hr[1] > hw
               /\ down' = down \o DownItems(proto, hw, plan[hw]) /\ hw' = hw + 1
               /\ UNCHANGED <<proto, plan, up, cw, hr, cr, gotUp, gotDown, ok>>
CallerRead ==
  /\ cr[1] <= N /\ cr[1] < cw /\ down # <<>>
  /\ LET want == DownItems(proto, cr[1], plan[cr[1]])
         h == Head(down) IN
     /\ ok' = (ok /\ h = want[cr[2]])
     /\ gotDown' = Append(gotDown, h) /\ down' = Tail(down)
     /\ cr' = IF cr[2] = Len(want) THEN <<cr[1] + 1, 1>> ELSE <<cr[1], cr[2] + 1>>
  /\ UNCHANGED <<proto, plan, up, cw, hr, hw, gotUp>>
Next == CallerWrite \/ CalleeRead \/ CalleeWrite \/ CallerRead
Spec == Init /\ [][Next]_vars

\* ---- properties ------------------------------------------------------------------------------
RECURSIVE AllUp(_), AllDown(_)
AllUp(i)   == IF i > N THEN <<>> ELSE UpItems(proto, i, plan[i]) \o AllUp(i + 1)
AllDown(i) == IF i > N THEN <<>> ELSE DownItems(proto, i, plan[i]) \o AllDown(i + 1)
IsPrefix(s, t) == Len(s) <= Len(t) /\ s = SubSeq(t, 1, Len(s))
Aligned == ok
InOrder == /\ IsPrefix(gotUp, AllUp(1))
           /\ IsPrefix(gotDown, AllDown(1))
Over    == cr[1] > N
Drained == Over => (up = <<>> /\ down = <<>> /\ gotUp = AllUp(1) /\ gotDown = AllDown(1))

EmitCase == (Emit /\ Over) => PrintT("@@EXCH " \o ToJson([proto |-> proto, plan |-> plan]))
=============================================================================
