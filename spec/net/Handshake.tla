----------------------------- MODULE Handshake -----------------------------
(* Gateway handshake (gateway.Dial / gateway.Accept), the sub-model of the
   session family: the dialer D and the acceptor A exchange version strings
   and headers [genesis, unique id, port]; each side accepts the header it
   RECEIVES iff its genesis equals the own genesis and its unique id differs
   from the own one, and tells the peer; a rejection ends the handshake for
   both.  The adversary on the wire may rewrite the version strings and the
   genesis / unique id of either header in flight (nothing authenticates
   them).  A version is recorded, never judged.

     step 0  D -> A version, A -> D version
     step 1  D -> A header ; A judges, answers
     step 2  A -> D header ; D judges, answers
     step 3  established

   Every run is printed as an HS record; the harness runs the real Dial and
   Accept against each other with the same headers and the same rewrites.   *)
EXTENDS Integers, Sequences, TLC, Json
CONSTANTS Gen, Uid, Emit
VARIABLES hd, ha,     \* own headers of D and A : [gen, uid]
          rw,         \* the adversary's plan: 0 = leave alone, otherwise the value written over the field
          step, dst, ast,      \* "run" | "ok" | "fail"
          dsees, asees         \* what each side learnt about the peer : [ver, uid]
vars == <<hd, ha, rw, step, dst, ast, dsees, asees>>
OwnVersion == 1     \* both real endpoints announce the same version; 2 is what the adversary writes
None == [ver |-> 0, uid |-> 0]
Init == /\ hd \in [gen : Gen, uid : Uid] /\ ha \in [gen : Gen, uid : Uid]
        /\ rw \in [vDA : {0, 2}, vAD : {0, 2}, gDA : {0} \cup Gen, uDA : {0} \cup Uid,
                   gAD : {0} \cup Gen, uAD : {0} \cup Uid]
        /\ step = 0 /\ dst = "run" /\ ast = "run" /\ dsees = None /\ asees = None
Over(v, r) == IF r = 0 THEN v ELSE r
\* headers as received
RecvByA == [gen |-> Over(hd.gen, rw.gDA), uid |-> Over(hd.uid, rw.uDA)]
RecvByD == [gen |-> Over(ha.gen, rw.gAD), uid |-> Over(ha.uid, rw.uAD)]
Acceptable(own, theirs) == theirs.gen = own.gen /\ theirs.uid # own.uid

Versions == /\ step = 0 /\ step' = 1
            /\ asees' = [asees EXCEPT !.ver = Over(OwnVersion, rw.vDA)]
            /\ dsees' = [dsees EXCEPT !.ver = Over(OwnVersion, rw.vAD)]
            /\ UNCHANGED <<hd, ha, rw, dst, ast>>
AJudges == /\ step = 1
           /\ IF Acceptable(ha, RecvByA)
              THEN /\ step' = 2 /\ asees' = [asees EXCEPT !.uid = RecvByA.uid]
                   /\ UNCHANGED <<dst, ast>>
              ELSE /\ step' = 4 /\ ast' = "fail" /\ dst' = "fail" /\ UNCHANGED asees
           /\ UNCHANGED <<hd, ha, rw, dsees>>
DJudges == /\ step = 2
           /\ IF Acceptable(hd, RecvByD)
              THEN /\ step' = 3 /\ dsees' = [dsees EXCEPT !.uid = RecvByD.uid]
                   /\ dst' = "ok" /\ ast' = "ok"
              ELSE /\ step' = 4 /\ ast' = "fail" /\ dst' = "fail" /\ UNCHANGED dsees
           /\ UNCHANGED <<hd, ha, rw, asees>>
Next == Versions \/ AJudges \/ DJudges
Spec == Init /\ [][Next]_vars

Done == step \in {3, 4}
Untouched == rw.gDA = 0 /\ rw.uDA = 0 /\ rw.gAD = 0 /\ rw.uAD = 0
\* both sides agree on the outcome
Agreement == Done => dst = ast
\* accept iff genesis IDs match and unique IDs differ (as sent, when nothing was rewritten)
AcceptIff == (Done /\ Untouched) => ((dst = "ok") <=> (hd.gen = ha.gen /\ hd.uid # ha.uid))
\* an established side never holds a peer with a foreign genesis or its own unique id
Sound == (dst = "ok") => /\ Acceptable(hd, RecvByD) /\ Acceptable(ha, RecvByA)
                         /\ dsees.uid # hd.uid /\ asees.uid # ha.uid
\* the version is whatever arrived
VersionRecorded == Done => /\ asees.ver = Over(OwnVersion, rw.vDA)
                           /\ dsees.ver = Over(OwnVersion, rw.vAD)
HSRec == [gd |-> hd.gen, ud |-> hd.uid, ga |-> ha.gen, ua |-> ha.uid,
          vDA |-> rw.vDA, vAD |-> rw.vAD, gDA |-> rw.gDA, uDA |-> rw.uDA, gAD |-> rw.gAD, uAD |-> rw.uAD,
          ok |-> dst = "ok", dver |-> dsees.ver, duid |-> dsees.uid, aver |-> asees.ver, auid |-> asees.uid,
          afirst |-> ~Acceptable(ha, RecvByA)]
EmitHS == (Emit /\ Done) => PrintT("@@HS " \o ToJson(HSRec))
=============================================================================
