\* Every block of <= 4 transactions x pattern of equal members x omitted position set x offered subset x extras x order:
\* 17 244 cases (3 282 on blocks of distinct transactions), ~4 s.
SPECIFICATION Spec
CONSTANTS
  MaxTx = 4
  MaxRep = 4
INVARIANTS OutlineIsDefinition SameID MissingExact CompleteExact SecondCallCompletes CodecIdentity
CHECK_DEADLOCK FALSE
