\* Every block shape with <= 4 transactions x omitted set x offered subset x extras x order: 3 282 cases, ~5 s.
SPECIFICATION Spec
CONSTANTS
  MaxTx = 4
INVARIANTS OutlineIsDefinition SameID MissingExact CompleteExact CodecIdentity
CHECK_DEADLOCK FALSE
