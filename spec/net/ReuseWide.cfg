SPECIFICATION Spec
CONSTANTS
  Lens = {0, 1, 64, 4095, 4096, 4097, 12288, 70000}
  MaxSteps = 4
  Chunk = 4096
  Emit = TRUE
INVARIANTS Faithful NoTrust Replace EmitCase
CHECK_DEADLOCK FALSE
