SPECIFICATION Spec
CONSTANTS
  PW = 8
  NONCE = 12
  TAG = 16
  MinMsg = 4096
  MaxPlain = 16384
  MaxLimit = 0
  Sweep = TRUE
  W = 520
  Extra = {16, 17, 64, 200, 1024, 2048, 3000, 6000, 8000, 12000, 16000}
  Ample = 65536
  LW = 6
  Emit = TRUE
INVARIANTS PadRule Whole Layout NotTiny Admit Faithful Bounded Exact Agree Crossed EmitCase
CHECK_DEADLOCK FALSE
