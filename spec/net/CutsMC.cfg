SPECIFICATION Spec
CONSTANTS
  PW = 2
  NONCE = 3
  TAG = 4
  Chunk = 4
  AllTotals = {16, 23}
  EdgeTotals = {29}
  Emit = FALSE
INVARIANTS NotDelivered Closes EofIffAtStart EmitCase
CHECK_DEADLOCK FALSE
