----------------------------- MODULE FrameSizes -----------------------------
(* Sizes of one RHP2 message from the writer to the reader, and the boundary
   sets of every framing rule.

   RHP2 (rhp/v2 writeMessage / readMessage / RawResponse).  An object whose
   encoding is p bytes (for a response: flag byte included) is framed as

        len(PW) | nonce(NONCE) | object(p) | padding | tag(TAG)

   The writer encodes prefix, nonce and object into a buffer, then fixes the
   size of the whole frame: never below MinMsg - a short frame is PADDED UP TO
   MinMsg, a frame that reaches MinMsg with its tag is sent as it is - and
   seals everything between nonce and tag.  The prefix declares the bytes
   behind it.  The reader is called with the caller's limit m; it never
   applies less than MinMsg.  It refuses a declared size above its limit
   before reading anything else, otherwise reads exactly the declared bytes,
   opens the frame and decodes the object from the front of the plaintext
   (the encoding is self-delimiting: padding is never looked at).

   Checked for every p and m (FrameSizesMC.cfg: small constants, exhaustive;
   FrameSizes*.cfg: the constants of the code, the swept sizes):
     PadRule    the frame is at least MinMsg; padding exists only in a frame of exactly MinMsg
     Whole      every byte of the object is inside the sealed part (nothing is cut off)
     Layout     the declared size is nonce + object + padding + tag
     NotTiny    the writer never produces a frame the reader calls too small
     Admit      the reader accepts iff the declared size is within max(m, MinMsg)
     Faithful   an accepted message decodes to all p bytes of the object written
     Bounded    the reader never takes more than PW + max(m, MinMsg) bytes
     Exact      an accepted message is consumed to its last byte and no further

   Boundaries.  A rule of the writer or the reader is a predicate of p (does
   the writer pad?  is the declared size above the floor the reader applies
   whatever the caller says?).  A BOUNDARY is a size at which one of these
   predicates changes its value; they are computed from the predicates the
   actions use, not listed by hand.  With Sweep = TRUE the model walks every p
   within W bytes of a boundary (both sides) and, for each, the limits m that
   lie on both sides of ITS boundary - the declared size - plus none at all
   and a generous one.  Each walk is printed as a SIZE record carrying what
   the specification demands (bytes on the wire, padding, accepted or
   refused, bytes consumed); the harness sends an object of exactly p bytes
   over real sessions in every mode and compares.

   Readers without a frame of their own (RHP3 streams, RHP4, gateway) only
   have the limit as a boundary (Framing.tla is their model): EDGE records
   give the slacks  limit - message size  in -LW..LW with the demanded outcome;
   the harness places real messages at exactly these distances from the
   nominal / observed limits.                                              *)
EXTENDS Integers, Sequences, FiniteSets, TLC, Json
CONSTANTS PW, NONCE, TAG, MinMsg,
          MaxPlain,   \* largest encoded object considered
          MaxLimit,   \* Sweep = FALSE: limits 0..MaxLimit
          Sweep,      \* TRUE: only the boundary windows and the limits around the declared size
          W,          \* half width of a window
          Extra,      \* further sizes walked when sweeping (an RPC id, tiny and large objects)
          Ample,      \* "generous": this much above the declared size
          LW,         \* slacks -LW..LW for plain limited readers
          Emit
VARIABLES fam,        \* "rhp2" | "edge"
          p, m,       \* rhp2: object bytes, caller's limit;  edge: p = slack + LW, m = 0
          pc,         \* "encode" | "size" | "seal" | "prefix" | "body" | "decode" | "done"
          buf,        \* writer: bytes encoded so far (prefix, nonce, object)
          total,      \* writer: size of the whole frame, prefix included
          wire,       \* the frame in flight: [decl, nonce, body, pad, tag]  (region lengths)
          consumed,   \* reader: bytes taken from the connection
          opened,     \* reader: plaintext bytes after opening the frame
          got,        \* reader: object bytes decoded
          accepted
vars == <<fam, p, m, pc, buf, total, wire, consumed, opened, got, accepted>>

Max(a, b) == IF a > b THEN a ELSE b
Min(a, b) == IF a < b THEN a ELSE b

\* ---- the rules -------------------------------------------------------------------------------
Buf(q)   == PW + NONCE + q                                   \* what the writer has encoded before it sizes the frame
Pads(q)  == Buf(q) + TAG < MinMsg                            \* writer: is the frame padded?
Total(q) == IF Pads(q) THEN MinMsg ELSE Buf(q) + TAG
Decl(q)  == Total(q) - PW                                    \* what the prefix declares
Lim(l)   == Max(l, MinMsg)                                   \* reader: the limit it really applies
OverFloor(q) == Decl(q) > MinMsg                             \* reader: refused unless the caller allows more than the floor

\* ---- boundaries ------------------------------------------------------------------------------
Branch(q)  == <<Pads(q), OverFloor(q)>>
Boundaries == {q \in 1..MaxPlain : Branch(q) # Branch(q - 1)}
Window     == {q \in 0..MaxPlain : \E b \in Boundaries : q >= b - W /\ q < b + W} \cup Extra
\* limits on both sides of the declared size, none, generous
Limits(q)  == {l \in {0, Decl(q) - 1, Decl(q), Decl(q) + 1, Decl(q) + Ample} : l >= 0}
Slacks     == 0..(2 * LW)                                    \* slack + LW

Init == /\ \/ /\ fam = "rhp2"
              /\ p \in (IF Sweep THEN Window ELSE 0..MaxPlain)
              /\ m \in (IF Sweep THEN Limits(p) ELSE 0..MaxLimit)
              /\ pc = "encode"
           \/ /\ fam = "edge" /\ p \in Slacks /\ m = 0 /\ pc = "done"
        /\ buf = 0 /\ total = 0 /\ consumed = 0 /\ opened = 0 /\ got = 0 /\ accepted = FALSE
        /\ wire = [decl |-> 0, nonce |-> 0, body |-> 0, pad |-> 0, tag |-> 0]

\* writer
Encode == /\ pc = "encode" /\ pc' = "size"
          /\ buf' = PW + NONCE + p
          /\ UNCHANGED <<total, wire, consumed, opened, got, accepted>>
Size ==   /\ pc = "size" /\ pc' = "seal"
          /\ total' = (IF buf + TAG < MinMsg THEN MinMsg ELSE buf + TAG)
          /\ UNCHANGED <<buf, wire, consumed, opened, got, accepted>>
Seal ==   /\ pc = "seal" /\ pc' = "prefix"
          /\ LET sealed == total - TAG - (PW + NONCE)        \* the bytes between nonce and tag
                 body == Min(p, sealed) IN
             wire' = [decl |-> total - PW, nonce |-> NONCE, body |-> body, pad |-> sealed - body, tag |-> TAG]
          /\ UNCHANGED <<buf, total, consumed, opened, got, accepted>>
\* reader
Prefix == /\ pc = "prefix"
          /\ consumed' = PW
          /\ pc' = (IF wire.decl > Lim(m) \/ wire.decl < NONCE + TAG THEN "done" ELSE "body")
          /\ UNCHANGED <<buf, total, wire, opened, got, accepted>>
Body ==   /\ pc = "body" /\ pc' = "decode"
          /\ consumed' = consumed + wire.decl
          /\ opened' = wire.decl - NONCE - TAG
          /\ UNCHANGED <<buf, total, wire, got, accepted>>
Decode == /\ pc = "decode" /\ pc' = "done"
          /\ got' = Min(p, Min(opened, wire.body))
          /\ accepted' = (opened >= p /\ wire.body >= p)      \* otherwise the decoder runs out of bytes
          /\ UNCHANGED <<buf, total, wire, consumed, opened>>
Next == (Encode \/ Size \/ Seal \/ Prefix \/ Body \/ Decode) /\ UNCHANGED <<fam, p, m>>
Spec == Init /\ [][Next]_vars

\* ---- properties ------------------------------------------------------------------------------
Sealed  == fam = "rhp2" /\ pc \in {"prefix", "body", "decode", "done"}
Done    == fam = "rhp2" /\ pc = "done"
PadRule == Sealed => /\ total >= MinMsg /\ wire.pad >= 0
                     /\ (wire.pad > 0 => total = MinMsg)
Whole   == Sealed => wire.body = p
Layout  == Sealed => wire.decl = wire.nonce + wire.body + wire.pad + wire.tag
NotTiny == Sealed => wire.decl >= NONCE + TAG
Admit   == Done => (accepted <=> wire.decl <= Lim(m))
Faithful == (Done /\ accepted) => got = p
Bounded == fam = "rhp2" => consumed <= PW + Lim(m)
Exact   == (Done /\ accepted) => consumed = PW + wire.decl
\* the rules as operators and the rules as actions are the same rules
Agree   == Sealed => (total = Total(p) /\ wire.decl = Decl(p))
\* the sweep really crosses every boundary, on both sides
Crossed == Sweep => \A b \in Boundaries : (b - 1) \in Window /\ b \in Window

\* ---- case records ----------------------------------------------------------------------------
Zone == IF wire.pad > 0 THEN "padded"
        ELSE IF total = MinMsg THEN "exact"
        ELSE IF wire.decl <= MinMsg THEN "unpadded" ELSE "overfloor"
SizeRec == [p |-> p, m |-> m, total |-> total, decl |-> wire.decl, pad |-> wire.pad, lim |-> Lim(m),
            accept |-> accepted, consumed |-> consumed, zone |-> Zone,
            edge |-> \E b \in Boundaries : p \in {b - 1, b}]
EmitCase == /\ (Emit /\ Done) => PrintT("@@SIZE " \o ToJson(SizeRec))
            /\ (Emit /\ fam = "edge") => PrintT("@@EDGE " \o ToJson([slack |-> p - LW, accept |-> p - LW >= 0]))
=============================================================================
