SPECIFICATION Spec
CONSTANTS
  Gen = {1, 2}
  Uid = {1, 2}
  Emit = TRUE
INVARIANTS Agreement AcceptIff Sound VersionRecorded EmitHS
CHECK_DEADLOCK FALSE
