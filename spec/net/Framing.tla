------------------------------ MODULE Framing ------------------------------
(* Size arithmetic of RPC framing.

   A receiver reads a message through a reader that hands out at most `lim`
   bytes (io.LimitedReader).  A message is   fixed part | count | count
   elements of s bytes   (types.DecodeSlice: the announced count is refused
   when it exceeds the bytes the reader may still hand out), or, in the
   prefixed protocols (RHP2 frames, gateway v1 handshake),  a size prefix of
   PW bytes followed by that many bytes, refused when the size exceeds lim.

   Model checked here (Framing.cfg), for every limit, shape and every amount
   of bytes the peer actually supplies (including "never stops"):
     Bounded  - the reader never consumes more than lim (PW + lim) bytes;
     Admits   - a message is accepted iff it fits the limit and is complete;
     Exact    - an accepted message is consumed to its last byte and no further.
   FramingTrace.tla validates the recorded behaviour of the real readers
   against the same arithmetic.                                              *)
EXTENDS Integers, Sequences, TLC
CONSTANTS MaxLim, MaxFixed, MaxCount, ElemSizes, CW, PW, MaxAvail
VARIABLES mode,      \* "slice" | "prefixed"
          lim, fixed, s, n,     \* the reader's limit; the message: fixed bytes, n elements of s bytes (prefixed: n = announced size)
          avail,     \* bytes the peer supplies before falling silent
          pc,        \* "fixed" | "count" | "elems" | "prefix" | "body" | "accept" | "refuse"
          rem,       \* what the limited reader may still hand out
          consumed,  \* bytes taken from the connection
          left       \* elements still to read
vars == <<mode, lim, fixed, s, n, avail, pc, rem, consumed, left>>

Size == IF mode = "slice" THEN fixed + CW + n * s ELSE n
Init == /\ mode \in {"slice", "prefixed"}
        /\ lim \in 0..MaxLim /\ fixed \in 0..MaxFixed /\ s \in ElemSizes /\ n \in 0..MaxCount
        /\ avail \in 0..MaxAvail
        /\ (mode = "prefixed") => (fixed = 0 /\ s = 1)
        /\ pc = (IF mode = "slice" THEN "fixed" ELSE "prefix")
        /\ rem = (IF mode = "slice" THEN lim ELSE PW + lim)
        /\ consumed = 0 /\ left = 0

\* take k bytes: succeeds iff the limited reader and the peer both have them; a failed read still
\* consumes what was there
Min(a, b) == IF a < b THEN a ELSE b
CanTake(k) == rem >= k /\ avail - consumed >= k
Take(k, ok, next) ==
  IF CanTake(k) THEN /\ consumed' = consumed + k /\ rem' = rem - k /\ pc' = ok /\ left' = next
  ELSE /\ consumed' = consumed + Min(Min(rem, avail - consumed), k)
       /\ rem' = rem - Min(Min(rem, avail - consumed), k) /\ pc' = "refuse" /\ left' = left

ReadFixed == pc = "fixed" /\ Take(fixed, "count", 0)
ReadCount == /\ pc = "count"
             /\ IF CanTake(CW) /\ n > rem - CW     \* announced count exceeds what may still be read
                THEN consumed' = consumed + CW /\ rem' = rem - CW /\ pc' = "refuse" /\ left' = left
                ELSE Take(CW, IF n = 0 THEN "accept" ELSE "elems", n)
ReadElem == /\ pc = "elems"
            /\ Take(s, IF left = 1 THEN "accept" ELSE "elems", left - 1)
ReadPrefix == /\ pc = "prefix"
              /\ IF CanTake(PW) /\ n > lim
                 THEN consumed' = consumed + PW /\ rem' = rem - PW /\ pc' = "refuse" /\ left' = left
                 ELSE Take(PW, "body", 0)
ReadBody == pc = "body" /\ Take(n, "accept", 0)
Next == /\ (ReadFixed \/ ReadCount \/ ReadElem \/ ReadPrefix \/ ReadBody)
        /\ UNCHANGED <<mode, lim, fixed, s, n, avail>>
Spec == Init /\ [][Next]_vars

Pre == IF mode = "slice" THEN 0 ELSE PW
Bounded == consumed <= Pre + lim
Done == pc \in {"accept", "refuse"}
Admits == Done => ((pc = "accept") <=> (Size <= lim /\ avail >= Pre + Size))
Exact == (pc = "accept") => consumed = Pre + Size
=============================================================================
