---------------------------- MODULE FramingTrace ----------------------------
(* Trace validation of the real RPC readers (gateway, RHP2, RHP3, RHP4)
   against the size arithmetic of Framing.tla.  The harness measures, with
   the real writers and readers only,

     shape   - one message: its shape (fixed bytes, groups of n elements of s
               bytes, both measured from the real encoder), the bytes it
               occupies on the wire, the limit observed for its reader
               (limLo = largest size known to be read, limHi = smallest size
               known to be refused, -1 = never refused; for RHP2/RHP3 the
               caller's maxLen m instead), whether the reader accepted it,
               whether it decoded to the same object, how many bytes the
               reader consumed (-1 = not observable through the multiplexer),
               and whether the shape is a maximum of the protocol;
     hungry  - a peer that announces a count and never stops sending;
     err     - an error response and how it surfaced;
     proto   - the protocol constants of the code.

   Messages "V:" are verdicts about the code (re-executed by the harness
   before anything is reported); "H:" mean harness and specification disagree
   about the catalogue (infrastructure).                                     *)
EXTENDS Integers, Sequences, TLC, TraceLib, Json
CONSTANTS MaxSectorBatch, MaxAccountBatch, RHP2MinMsg, RHP2Overhead, RHP3Slack,
          MaxBlockWeight, MaxInputs, MaxProofDepth
Trace == ndJsonDeserialize("trace.ndjson")
N == Len(Trace)

RECURSIVE SumGroups(_)
SumGroups(g) == IF g = <<>> THEN 0 ELSE Head(g)[1] * Head(g)[2] + SumGroups(Tail(g))
Counts(g) == [i \in 1..Len(g) |-> g[i][1]]
Max(a, b) == IF a > b THEN a ELSE b

\* ---- the protocol's own maxima: object -> admissible maximal count vectors -------------------
\* rhp4: batch sizes of Validate (rhp/v4/validation.go), proof lengths of a 4 MiB sector (2^16 leaves)
\* and of a 64-bit tree; gateway: what the per-object limits are written for (100 hashes, 32 ids, Max headers).
MaxCounts ==
  [o \in {"rhp4/FreeSectorsRequest/req", "rhp4/AppendSectorsRequest/req"} |-> {<<MaxSectorBatch>>}] @@
  [o \in {"rhp4/ReplenishAccountsRequest/req", "rhp4/FundAccountsRequest/req", "rhp4/AttachPoolsRequest/req",
          "rhp4/DetachPoolsRequest/req", "rhp4/ReplenishAccountsResponse/resp", "rhp4/FundAccountsResponse/resp"}
       |-> {<<MaxAccountBatch>>}] @@
  [o \in {"rhp4/FreeSectorsResponse/resp", "rhp4/SectorRootsResponse/resp"} |-> {<<128, MaxSectorBatch>>}] @@
  [o \in {"rhp4/AppendSectorsResponse/resp"} |-> {<<MaxSectorBatch, 64>>}] @@
  [o \in {"rhp4/ReadSectorResponse/resp"} |-> {<<32>>}] @@
  [o \in {"rhp4/VerifySectorResponse/resp"} |-> {<<16>>}] @@
  [o \in {"rhp4/SettingsRequest/req", "rhp4/LatestRevisionRequest/req", "rhp4/ReadSectorRequest/req",
          "rhp4/WriteSectorRequest/req", "rhp4/SectorRootsRequest/req", "rhp4/AccountBalanceRequest/req",
          "rhp4/VerifySectorRequest/req", "rhp4/FreeSectorsSecondResponse/resp", "rhp4/FreeSectorsThirdResponse/resp",
          "rhp4/AppendSectorsSecondResponse/resp", "rhp4/AppendSectorsThirdResponse/resp",
          "rhp4/LatestRevisionResponse/resp", "rhp4/WriteSectorResponse/resp", "rhp4/AccountBalanceResponse/resp",
          "rhp4/ReplenishAccountsSecondResponse/resp", "rhp4/ReplenishAccountsThirdResponse/resp",
          "rhp4/AttachPoolsResponse/resp", "rhp4/DetachPoolsResponse/resp",
          "gw/SendHeaders/req", "gw/SendCheckpoint/req", "gw/RelayV2Header/req"} |-> {<<>>}] @@
  [o \in {"gw/SendTransactions/req"} |-> {<<100>>}] @@
  [o \in {"gw/SendV2Blocks/req"} |-> {<<32>>}] @@
  [o \in {"gw/SendHeaders/resp"} |-> {<<1>>, <<10>>, <<2000>>}] @@     \* = the Max of the request
  [o \in {"gw/ShareNodes/resp"} |-> {<<100>>}] @@                       \* 100 peers (47 bytes each: longest host:port of an IPv6 literal)
  [o \in {"gw/DiscoverIP/resp"} |-> {<<45>>}] @@
  \* blocks / transaction sets at the block weight limit (2 000 000), Merkle proofs not counted
  [o \in {"gw/SendV2Blocks/resp", "gw/SendTransactions/resp", "gw/SendCheckpoint/resp",
          "gw/RelayV2BlockOutline/req", "gw/RelayV2TransactionSet/req"} |-> {<<MaxBlockWeight>>}]

Id(t) == t.fam \o "/" \o t.obj \o "/" \o t.dir
\* MaxProofDepth = 0 takes the proof-carrying shapes out of the maxima (development switch)
Eff(t) == t.maximal /\ ~(t.fam = "gw" /\ Len(t.groups) = 2 /\ MaxProofDepth = 0)
\* The block weight does not count Merkle proofs. A weight-maximal transaction set may additionally carry up to
\* one proof of MaxProofDepth hashes per input (or the multiproof that replaces them in a block), MaxInputs inputs
\* of minimal weight fitting under the weight limit.
WeightObjects == {"gw/SendV2Blocks/resp", "gw/SendTransactions/resp", "gw/SendCheckpoint/resp",
                  "gw/RelayV2BlockOutline/req", "gw/RelayV2TransactionSet/req"}
IsMaximal(t) == \/ (Id(t) \in DOMAIN MaxCounts /\ Counts(t.groups) \in MaxCounts[Id(t)])
                \/ /\ Id(t) \in WeightObjects /\ Len(t.groups) = 2
                   /\ t.groups[1] = <<MaxBlockWeight, 1>> /\ t.groups[2][2] = 32
                   /\ t.groups[2][1] <= MaxInputs * MaxProofDepth

\* ---- limits -----------------------------------------------------------------------------------
\* RHP2 and RHP3 readers take the limit from the caller (m): RHP2 never goes below the padding size,
\* RHP3 allows RHP3Slack bytes of framing on top, the 8-byte prefix included.
Nominal(t) == CASE t.fam = "rhp2" -> Max(t.m, RHP2MinMsg)
                [] t.fam = "rhp3" -> t.m + RHP3Slack - 8
                [] OTHER -> -1
Lo(t) == IF Nominal(t) >= 0 THEN Nominal(t) ELSE t.limLo
Hi(t) == IF Nominal(t) >= 0 THEN Nominal(t) + 1 ELSE t.limHi
\* bytes a message of `plain` encoded bytes occupies behind the prefix
Wire(t, plain) == IF t.fam = "rhp2" THEN Max(RHP2MinMsg - 8, plain + RHP2Overhead) ELSE plain

Shape(t, l) ==
  LET size == t.fixed + SumGroups(t.groups)
      lo == Lo(t)  hi == Hi(t) IN
  /\ Check(size = t.plain, l, "H: encoded length is not fixed + sum of n*s")
  /\ Check(Wire(t, t.plain) = t.enc, l, "V: size of the frame on the wire")
  /\ Check(lo < hi \/ hi < 0, l, "H: observed limit interval empty")
  /\ Check(t.enc > lo \/ t.accepted, l, "V: message within the receiver's limit refused")
  /\ Check(hi < 0 \/ t.enc < hi \/ ~t.accepted, l, "V: message over the receiver's limit accepted")
  /\ Check(~t.accepted \/ t.same, l, "V: accepted message decodes to a different object")
  /\ Check(t.consumed < 0 \/ t.consumed <= t.pre + lo, l, "V: reader consumed more than prefix + limit")
  /\ Check(t.consumed < 0 \/ ~t.accepted \/ t.consumed = t.pre + t.enc, l, "V: reader did not consume exactly the message")
  /\ Check(~Eff(t) \/ t.accepted, l, "V: maximal valid message refused")
  /\ Check(~Eff(t) \/ IsMaximal(t), l, "H: shape marked maximal is not a maximum of the protocol")

Hungry(t, l) ==
  /\ Check(t.consumed <= t.pre + Lo(t), l, "V: never-ending peer made the reader consume more than prefix + limit")
  /\ Check(t.refused, l, "V: never-ending message accepted")

Err(t, l) ==
  /\ Check(t.asErr, l, "V: error response did not surface as an RPC error")
  /\ Check(~t.asErr \/ (t.codeSame /\ t.descSame), l, "V: error response surfaced as a different error")

Proto(t, l) ==
  /\ Check(t.maxSectorBatch = MaxSectorBatch /\ t.maxAccountBatch = MaxAccountBatch, l, "H: batch size constants differ from the specification")

Line(l) == LET t == Trace[l] IN
  CASE t.ev = "shape"  -> Shape(t, l)
    [] t.ev = "hungry" -> Hungry(t, l)
    [] t.ev = "err"    -> Err(t, l)
    [] t.ev = "proto"  -> Proto(t, l)
    [] OTHER -> Reject(l, "H: unknown event")

\* every object with a protocol maximum must have been exercised at it
Covered == \A o \in DOMAIN MaxCounts :
              \E i \in 1..N : Trace[i].ev = "shape" /\ Trace[i].maximal /\ Id(Trace[i]) = o

VARIABLES chunk, pos
Init == chunk = 0 /\ pos = 0 /\ Check(Covered, 0, "H: an object with a protocol maximum has no maximal line")
Last(c) == IF c * TL_ChunkSize < N THEN c * TL_ChunkSize ELSE N
Next == \/ /\ chunk = 0
           /\ chunk' \in 1..NChunks(N)
           /\ pos' = (chunk' - 1) * TL_ChunkSize + 1
        \/ /\ chunk > 0 /\ pos <= Last(chunk)
           /\ Line(pos)
           /\ pos' = pos + 1 /\ UNCHANGED chunk
Spec == Init /\ [][Next]_<<chunk, pos>>
=============================================================================
