\* As Outline.cfg with blocks of <= 5 transactions: 154 008 cases, ~25 s.
SPECIFICATION Spec
CONSTANTS
  MaxTx = 5
  MaxRep = 5
INVARIANTS OutlineIsDefinition SameID MissingExact CompleteExact SecondCallCompletes CodecIdentity
CHECK_DEADLOCK FALSE
