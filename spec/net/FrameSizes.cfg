SPECIFICATION Spec
CONSTANTS
  PW = 8
  NONCE = 12
  TAG = 16
  MinMsg = 4096
  MaxPlain = 8192
  MaxLimit = 0
  Sweep = TRUE
  W = 64
  Extra = {16, 200, 2048, 8000}
  Ample = 65536
  LW = 3
  Emit = TRUE
INVARIANTS PadRule Whole Layout NotTiny Admit Faithful Bounded Exact Agree Crossed EmitCase
CHECK_DEADLOCK FALSE
