SPECIFICATION Spec
CONSTANTS
  PW = 8
  NONCE = 12
  TAG = 16
  Chunk = 64
  AllTotals = {4096}
  EdgeTotals = {6037}
  Emit = TRUE
INVARIANTS NotDelivered Closes EofIffAtStart EmitCase
CHECK_DEADLOCK FALSE
