------------------------------- MODULE Cuts -------------------------------
(* A frame cut in transit: the first c bytes of a frame arrive, then the
   connection ends.

   RHP2.  A frame is  len(PW) | nonce | ciphertext | tag , Total bytes in all.
   The reader takes the prefix with one full read and the declared bytes in
   full reads of at most Chunk bytes (types.Decoder).  A full read that gets
   nothing at all ends with "eof", one that gets only a part with "short" -
   the two look different to the reader (io.EOF / io.ErrUnexpectedEOF), but
   both mean the same: the frame was cut.  Whatever the cut point,
     NotDelivered  nothing is handed to the application, and
     Closes        the session is closed for good: it reports closed, names
                   the failure, and accepts no further writes.
   Cut points are walked exhaustively (All = TRUE: every c in 1..Total-1) or
   over the boundary set derived from the reader's steps: every c at which a
   read starts (the "eof" points: behind the prefix and at every multiple of
   Chunk behind it) +- 1, and the first / last byte of every region +- 1.
   Each walk is printed as a CUT record with what the specification demands.

   Plain limited readers (RHP4 ReadRequest / ReadResponse, gateway objects):
   PLAIN records say the same for a message without a frame: every proper
   prefix of a message, followed by the end of the stream, is refused.      *)
EXTENDS Integers, Sequences, FiniteSets, TLC, Json
CONSTANTS PW, NONCE, TAG, Chunk,
          AllTotals,  \* frame sizes walked exhaustively
          EdgeTotals, \* frame sizes walked over the boundary set
          Emit
VARIABLES total, cut, pos, pc, how, delivered, closed
vars == <<total, cut, pos, pc, how, delivered, closed>>

Min(a, b) == IF a < b THEN a ELSE b
\* the positions at which the reader starts a full read
Starts(t) == {0, PW} \cup {q \in PW..(t - 1) : (q - PW) % Chunk = 0}
RegionEdges(t) == {0, PW, PW + NONCE, t - TAG, t}
Near(S, t) == {c \in 1..(t - 1) : \E q \in S : c \in {q - 1, q, q + 1}}
Frames == {<<t, TRUE>> : t \in AllTotals} \cup {<<t, FALSE>> : t \in EdgeTotals}
CutsOf(f) == IF f[2] THEN 1..(f[1] - 1) ELSE Near(Starts(f[1]) \cup RegionEdges(f[1]), f[1])
Region(c, t) == IF c < PW THEN "prefix" ELSE IF c < PW + NONCE THEN "nonce" ELSE IF c < t - TAG THEN "ciphertext" ELSE "tag"

Init == /\ \E f \in Frames : total = f[1] /\ cut \in CutsOf(f)
        /\ pos = 0 /\ pc = "prefix" /\ how = "" /\ delivered = FALSE /\ closed = FALSE

\* one full read of k bytes
Take(k, next) ==
  IF cut - pos >= k THEN /\ pos' = pos + k /\ pc' = next /\ UNCHANGED <<how, closed>>
  ELSE /\ how' = (IF cut - pos = 0 THEN "eof" ELSE "short")
       /\ pos' = cut /\ pc' = "failed" /\ closed' = TRUE       \* a cut frame closes the session, however it shows
ReadPrefix == pc = "prefix" /\ Take(PW, "body") /\ UNCHANGED delivered
ReadBody == /\ pc = "body"
            /\ IF pos = total THEN /\ pc' = "done" /\ delivered' = TRUE /\ UNCHANGED <<pos, how, closed>>
               ELSE Take(Min(Chunk, total - pos), "body") /\ UNCHANGED delivered
Next == (ReadPrefix \/ ReadBody) /\ UNCHANGED <<total, cut>>
Spec == Init /\ [][Next]_vars

Done == pc \in {"failed", "done"}
NotDelivered == ~delivered
Closes == Done => (pc = "failed" /\ closed /\ how \in {"eof", "short"})
\* the reader's view really differs between the cut points, and both views occur
EofIffAtStart == (pc = "failed") => ((how = "eof") <=> (cut \in Starts(total)))

EmitCase == (Emit /\ Done) =>
  PrintT("@@CUT " \o ToJson([total |-> total, cut |-> cut, region |-> Region(cut, total), how |-> how,
                             delivered |-> delivered, closed |-> closed]))
=============================================================================
