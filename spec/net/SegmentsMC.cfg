SPECIFICATION Spec
CONSTANTS
  Lanes = {"rhp2-h2r", "rhp2-r2h", "rhp4-req", "rhp4-resp", "rhp3"}
  MaxMsgs = 2
  MaxCuts = 0
  Periods = {}
  Chunk = 2
  Buf = 4
  Free = TRUE
  Eager = FALSE
  Greedy = FALSE
  Emit = FALSE
INVARIANTS Faithful NoOverRead AllDelivered EmitCase
CHECK_DEADLOCK TRUE
