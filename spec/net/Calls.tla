------------------------------- MODULE Calls -------------------------------
(* The convenience entry points that carry their OWN read limit: RHP2
   Transport.Call and RHP3 Stream.Call write a request and read the
   response with the documented limit CallLimit ("large enough for all RPCs
   except Read, Write and SectorRoots").

     rhp2  the limit applies to the declared size of the frame, never below
           MinMsg:  nonce + p + padding + tag  <=  max(CallLimit, MinMsg)
     rhp3  the limit plus the framing allowance Slack3 bounds the whole
           message, prefix included:  PW3 + p  <=  CallLimit + Slack3

   p = encoded response (flag byte included).  Every response up to the bound
   is delivered, every larger one refused.  The model walks the sizes in steps
   of Step up to MaxP and every size within LW bytes of each bound, and prints
   a CALL record with the demanded outcome; the harness performs a real Call
   between real endpoints whose callee answers with a real response of exactly
   that size.                                                                *)
EXTENDS Integers, Sequences, TLC, Json
CONSTANTS CallLimit, MinMsg, NONCE, TAG, PW, PW3, Slack3, Step, MaxP, LW, Emit
VARIABLES proto, p, pc, accepted
vars == <<proto, p, pc, accepted>>
Max(a, b) == IF a > b THEN a ELSE b
\* rhp2: what the writer declares for p bytes (FrameSizes.tla)
Decl(q) == Max(MinMsg, PW + NONCE + q + TAG) - PW
Fits(pr, q) == IF pr = "rhp2" THEN Decl(q) <= Max(CallLimit, MinMsg) ELSE PW3 + q <= CallLimit + Slack3
\* the largest p that fits: derived from the rule, not written down
BoundOf(pr) == CHOOSE q \in 1..MaxP : Fits(pr, q) /\ ~Fits(pr, q + 1)
Bound2 == BoundOf("rhp2")
Bound3 == BoundOf("rhp3")
Bound(pr) == IF pr = "rhp2" THEN Bound2 ELSE Bound3
SizesOf(b) == {q \in 1..MaxP : q % Step = 0} \cup {q \in 1..MaxP : q >= b - LW /\ q <= b + LW}
Sizes2 == SizesOf(Bound2)
Sizes3 == SizesOf(Bound3)
Sizes(pr) == IF pr = "rhp2" THEN Sizes2 ELSE Sizes3
Init == proto \in {"rhp2", "rhp3"} /\ p \in Sizes(proto) /\ pc = "call" /\ accepted = FALSE
Next == pc = "call" /\ pc' = "done" /\ accepted' = Fits(proto, p) /\ UNCHANGED <<proto, p>>
Spec == Init /\ [][Next]_vars
\* monotone: everything below an accepted size is accepted (no hole below the documented limit)
NoHole == (pc = "done" /\ accepted) => \A q \in Sizes(proto) : q <= p => Fits(proto, q)
AtLeastDocumented == (pc = "done" /\ proto = "rhp3" /\ p + PW3 <= CallLimit) => accepted
EmitCase == (Emit /\ pc = "done") => PrintT("@@CALL " \o ToJson([proto |-> proto, p |-> p, accept |-> accepted, bound |-> Bound(proto)]))
=============================================================================
