SPECIFICATION Spec
CONSTANTS
  PW = 8
  NONCE = 12
  TAG = 16
  Chunk = 64
  AllTotals = {4096, 6037}
  EdgeTotals = {20000}
  Emit = TRUE
INVARIANTS NotDelivered Closes EofIffAtStart EmitCase
CHECK_DEADLOCK FALSE
