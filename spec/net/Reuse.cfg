SPECIFICATION Spec
CONSTANTS
  Lens = {0, 1, 64, 4096, 4097, 20000}
  MaxSteps = 3
  Chunk = 4096
  Emit = TRUE
INVARIANTS Faithful NoTrust Replace EmitCase
CHECK_DEADLOCK FALSE
