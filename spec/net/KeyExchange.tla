---------------------------- MODULE KeyExchange ----------------------------
(* RHP2 key exchange (NewRenterTransport / NewHostTransport), the second
   handshake sub-model: the renter sends an ephemeral key, the host answers
   with its ephemeral key, a signature over both keys and the cipher, then
   the first encrypted frame (the challenge).  The adversary flips one bit in
   one region of the exchange.  The renter must end up with a session iff
   nothing it relies on was touched: its own key as seen by the host, the
   host's key, the signature, the cipher choice, the challenge frame.       *)
EXTENDS Integers, Sequences, TLC, Json
CONSTANTS Regions, Emit
VARIABLES touched, renter    \* region flipped ("none"), "run" | "session" | "nosession"
Init == touched \in Regions \cup {"none"} /\ renter = "run"
Next == renter = "run" /\ renter' = (IF touched = "none" THEN "session" ELSE "nosession") /\ UNCHANGED touched
Spec == Init /\ [][Next]_<<touched, renter>>
\* no session over a modified exchange
Authentic == (renter = "session") => touched = "none"
EmitKX == (Emit /\ renter # "run") => PrintT("@@KX " \o ToJson([region |-> touched, session |-> renter = "session"]))
=============================================================================
