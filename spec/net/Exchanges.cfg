SPECIFICATION Spec
CONSTANTS
  Protos = {"rhp2", "rhp3", "rhp4", "gw"}
  MaxEx = 3
  MaxResp = 2
  Emit = TRUE
INVARIANTS Aligned InOrder Drained EmitCase
CHECK_DEADLOCK FALSE
