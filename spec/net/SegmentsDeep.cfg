SPECIFICATION Spec
CONSTANTS
  Lanes = {"rhp2-h2r", "rhp2-r2h", "rhp4-req", "rhp4-resp", "rhp3", "gw"}
  MaxMsgs = 2
  MaxCuts = 2
  Periods = {1, 2, 3, 4, 5}
  Chunk = 2
  Buf = 4
  Free = FALSE
  Eager = TRUE
  Greedy = FALSE
  Emit = TRUE
INVARIANTS Faithful NoOverRead AllDelivered EmitCase
CHECK_DEADLOCK TRUE
