SPECIFICATION Spec
CONSTANTS
  Lanes = {"rhp2-h2r"}
  MaxMsgs = 2
  MaxCuts = 0
  Periods = {1}
  Chunk = 2
  Buf = 4
  Free = FALSE
  Eager = TRUE
  Greedy = TRUE
  Emit = FALSE
INVARIANTS Faithful
CHECK_DEADLOCK FALSE
