SPECIFICATION Spec
CONSTANTS
  MaxLim = 12
  MaxFixed = 3
  MaxCount = 9
  ElemSizes = {1, 2, 3}
  CW = 2
  PW = 2
  MaxAvail = 18
INVARIANTS Bounded Admits Exact
CHECK_DEADLOCK FALSE
