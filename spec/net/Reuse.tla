------------------------------- MODULE Reuse -------------------------------
(* Receiver reuse: what one side writes is what the other reads, for every
   sequence of messages on one connection - whatever the receiving object held
   before.

   (1) The buffer-reusing decoder (rhp/v2 RPCReadResponse.DecodeFrom: "reuse
   the existing capacity if possible").  The receiver owns a byte buffer with
   a length and a capacity.  A response announces n bytes of data:
     - n fits the capacity: the buffer is resliced to n and filled from the
       stream;
     - otherwise the buffer is EMPTIED and grown chunk by chunk as the data
       arrives (the announced length is untrusted: never allocate it up
       front); each step takes min(rest, max(length so far, Chunk)) bytes.
   A capacity is whatever the allocator gave: after growing to n bytes it is
   anything from n upwards (Tight / Roomy are explored).  The receiver is
   either one object reused for the whole sequence or a fresh one per
   message.  Checked for every sequence of lengths out of Lens, up to
   MaxSteps messages:
     Faithful  after a message of n bytes the buffer holds exactly n bytes,
               all of them read from the stream for this message, none left
               over from an earlier one (stale = 0), and exactly n bytes of
               data were taken from the stream (nothing is left behind to be
               parsed as the next field);
     NoTrust   while growing, the buffer holds exactly the bytes that have
               arrived for this message and never more than announced (it is
               not allocated by the announced length).
   Every complete sequence is printed as a REUSE record; the harness sends
   real responses with data of exactly these lengths over one real session
   and reads them into one reused / fresh real object through ReadResponse
   and through RawResponse, expecting the identical object each time.

   (2) Any receiver.  A field of a receiver that already holds a value (a
   slice with some elements, an optional that is set or not) and a message
   that carries another: decoding REPLACES.  The result is the incoming value,
   element for element - nothing of the previous value survives, nothing is
   appended to it, an absent optional is absent afterwards.  DIRTY records
   list every pair (what the receiver held, what arrives) over the size
   classes zero / one / few / many and set / unset; the harness decodes real
   objects of those shapes into receivers holding real objects of the other
   shapes, for every registered wire type of gateway, RHP2, RHP3 and RHP4,
   and compares with decoding into a zero value.                             *)
EXTENDS Integers, Sequences, FiniteSets, TLC, Json
CONSTANTS Lens, MaxSteps, Chunk, Emit
VARIABLES fam,       \* "buffer" | "slot"
          recv,      \* buffer: "reused" | "fresh"
          seq,       \* buffer: lengths of the messages so far
          len, cap,  \* buffer: the receiver's buffer
          want,      \* buffer: announced length of the message being read
          stale,     \* buffer: bytes in front of the data that were not read for this message
          consumed,  \* buffer: data bytes taken from the stream for this message
          pc,        \* buffer: "idle" | "reset" | "grow";  slot: "hold" | "done"
          slot       \* slot: [kind, prev, new, content]
vars == <<fam, recv, seq, len, cap, want, stale, consumed, pc, slot>>

Max(a, b) == IF a > b THEN a ELSE b
Min(a, b) == IF a < b THEN a ELSE b

\* ---- (2) any receiver ------------------------------------------------------------------------
Classes == {"zero", "one", "few", "many"}
N(c) == CASE c = "zero" -> 0 [] c = "one" -> 1 [] c = "few" -> 2 [] c = "many" -> 3
           [] c = "unset" -> 0 [] c = "set" -> 1
Elems(owner, c) == [i \in 1..N(c) |-> <<owner, i>>]
NoSlot == [kind |-> "none", prev |-> "zero", new |-> "zero", content |-> <<>>]
\* elements that are one of three variants (an outline entry: a v1 transaction, a v2 transaction, a bare hash): what
\* the receiver held at a position is of another variant than what arrives there (variant of element i: (i + shift) % 3)
VElems(owner, c, shift) == [i \in 1..N(c) |-> <<owner, i, (i + shift) % 3>>]
Slots == {[kind |-> "slice", prev |-> a, new |-> b, content |-> Elems("old", a)] : a \in Classes, b \in Classes}
    \cup {[kind |-> "variant", prev |-> a, new |-> b, content |-> VElems("old", a, 0)] : a \in Classes, b \in Classes}
    \* one field of a fixed width: the zero / sentinel value (no account, no address, zero currency, false, the
    \* empty string) is a value like any other - it REPLACES what the receiver held
    \cup {[kind |-> "scalar", prev |-> a, new |-> b, content |-> <<<<"old", 1, a>>>>] : a \in {"zero", "nonzero"}, b \in {"zero", "nonzero"}}
    \cup {[kind |-> "optional", prev |-> a, new |-> b, content |-> Elems("old", a)] : a \in {"set", "unset"}, b \in {"set", "unset"}}

\* ---- (1) the buffer --------------------------------------------------------------------------
Init == \/ /\ fam = "buffer" /\ recv \in {"reused", "fresh"} /\ pc = "idle" /\ slot = NoSlot
           /\ seq = <<>> /\ len = 0 /\ cap = 0 /\ want = 0 /\ stale = 0 /\ consumed = 0
        \/ /\ fam = "slot" /\ slot \in Slots /\ pc = "hold" /\ recv = "fresh"
           /\ seq = <<>> /\ len = 0 /\ cap = 0 /\ want = 0 /\ stale = 0 /\ consumed = 0

\* a message announcing n bytes arrives
Arrive(n) ==
  /\ fam = "buffer" /\ pc = "idle" /\ Len(seq) < MaxSteps
  /\ seq' = Append(seq, n) /\ want' = n
  /\ LET c0 == IF recv = "fresh" THEN 0 ELSE cap      \* a fresh object has no buffer
         l0 == IF recv = "fresh" THEN 0 ELSE len
     IN IF c0 >= n
        THEN \* resliced to n and overwritten from the stream
             /\ len' = n /\ cap' = c0 /\ stale' = 0 /\ consumed' = n /\ pc' = "idle"
        ELSE \* too small: what the buffer holds now is old
             /\ len' = l0 /\ stale' = l0 /\ cap' = c0 /\ consumed' = 0 /\ pc' = "reset"
  /\ UNCHANGED <<fam, recv, slot>>
\* the buffer is emptied before it grows
Reset ==
  /\ fam = "buffer" /\ pc = "reset" /\ pc' = "grow"
  /\ len' = 0 /\ stale' = 0
  /\ UNCHANGED <<fam, recv, seq, cap, want, consumed, slot>>
Grow ==
  /\ fam = "buffer" /\ pc = "grow"
  /\ IF len < want
     THEN LET k == Min(want - len, Max(len, Chunk)) IN
          /\ len' = len + k /\ consumed' = consumed + k
          /\ cap' = Max(cap, len + k)
          /\ pc' = "grow"
     ELSE \* done: the allocator may have been tight or roomy
          /\ cap' \in {cap, Max(cap, 2 * len)}
          /\ pc' = "idle" /\ UNCHANGED <<len, consumed>>
  /\ UNCHANGED <<fam, recv, seq, want, stale, slot>>
\* ---- slot ------------------------------------------------------------------------------------
Decode ==
  /\ fam = "slot" /\ pc = "hold" /\ pc' = "done"
  /\ slot' = [slot EXCEPT !.content = CASE slot.kind = "variant" -> VElems("new", slot.new, 1)
                                        [] slot.kind = "scalar" -> <<<<"new", 1, slot.new>>>>
                                        [] OTHER -> Elems("new", slot.new)]
  /\ UNCHANGED <<fam, recv, seq, len, cap, want, stale, consumed>>

Next == (\E n \in Lens : Arrive(n)) \/ Reset \/ Grow \/ Decode
Spec == Init /\ [][Next]_vars

\* ---- properties ------------------------------------------------------------------------------
Read == fam = "buffer" /\ pc = "idle" /\ seq # <<>>
Faithful == Read => (len = want /\ stale = 0 /\ consumed = want /\ cap >= len)
NoTrust  == (fam = "buffer" /\ pc = "grow") => (len = consumed /\ len <= want)
Replace  == (fam = "slot" /\ pc = "done") =>
               /\ Len(slot.content) = (IF slot.kind = "scalar" THEN 1 ELSE N(slot.new))
               /\ (slot.kind = "scalar" => slot.content[1][3] = slot.new)
               /\ \A i \in 1..Len(slot.content) : slot.content[i][1] = "new" /\ slot.content[i][2] = i
               /\ (slot.kind = "variant" => \A i \in 1..Len(slot.content) : slot.content[i][3] = (i + 1) % 3)

\* ---- case records ----------------------------------------------------------------------------
EmitCase ==
  /\ (Emit /\ Read /\ Len(seq) = MaxSteps) => PrintT("@@REUSE " \o ToJson([recv |-> recv, lens |-> seq]))
  /\ (Emit /\ fam = "slot" /\ pc = "done") =>
        PrintT("@@DIRTY " \o ToJson([kind |-> slot.kind, prev |-> slot.prev, new |-> slot.new,
                                      count |-> IF slot.kind = "scalar" THEN 1 ELSE N(slot.new)]))
=============================================================================
