SPECIFICATION Spec
CONSTANTS
  MaxMsgs = 4
  MaxFaults = 2
  RefusalCloses = TRUE
  Emit = TRUE
INVARIANTS TypeOK PrefixInOrder KindPreserved NoFaultAllDelivered NothingAfterFault FaultDetected EmitCase
PROPERTY ClosedIsFinal
CHECK_DEADLOCK FALSE
