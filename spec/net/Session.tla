------------------------------ MODULE Session ------------------------------
(* One direction of a framed, authenticated session (RHP2 encrypted loop; the
   same delivery properties are demanded end to end of the RHP3 and gateway
   streams): a writer, a channel of frames in flight, an adversary, a reader.

   A frame on the wire is   len(8) | nonce | body | padding | tag  .
   The adversary may, once per frame and at most MaxFaults times,
     lenup  - raise the declared size by a few bytes (the reader needs bytes
              that lie behind the frame),
     lendn  - lower the declared size by a few bytes,
     lenhi  - flip a high-order bit of the declared size (it exceeds every limit),
     nonce, body, pad, tag - flip one bit in that region,
     trunc  - cut bytes off the end of the frame (later frames move up),
     ext    - insert bytes behind the frame (the frame itself stays intact).

   The reader takes frames in order.  What it needs is decided by the bytes:
     - an intact frame read at a frame boundary is delivered;
     - a frame whose authenticated bytes changed (nonce, body, pad, tag,
       lendn; lenup/trunc once the missing bytes have arrived from behind)
       fails authentication: nothing is delivered, the session is CLOSED;
     - a declared size above the limit is REFUSED before anything is read
       (lenhi; the garbage that follows an ext): the read reports an error
       and the conversation is over - the application must not read on.
       Whether the transport itself must then report "closed" is the
       constant RefusalCloses (the property text says every modification
       closes the session; the RHP2 code closes on authentication failures
       only - see the harness notes);
     - lenup/trunc on the last frame ever written: the reader starves
       (observed through a deadline; "not delivered", no other verdict).

   Each conversation is printed at its end as a CASE record: the harness
   applies the same faults between real endpoints and compares.            *)
EXTENDS Integers, Sequences, FiniteSets, TLC, Json
CONSTANTS MaxMsgs,        \* longest conversation
          MaxFaults,      \* faults per conversation
          RefusalCloses,  \* TRUE: a refused (over-limit) size must also mark the session closed
          Emit            \* TRUE: print CASE records
VARIABLES k,          \* length of this conversation
          kinds,      \* kinds[i] \in {"obj","err"} : object or error response
          sent,       \* frames written so far
          chan,       \* frames in flight, FIFO : [seq, f]   f = fault applied ("none")
          faults,     \* faults[i] = fault applied to frame i, or "none"
          delivered,  \* <<[seq, kind]>> handed to the application
          rstate,     \* "open" | "closed" (fault detected, final) | "refused" (size refused) | "lost" (after ext)
          nread       \* frames consumed by the reader (delivered or not)
vars == <<k, kinds, sent, chan, faults, delivered, rstate, nread>>

FaultKinds == {"lenup", "lendn", "lenhi", "nonce", "body", "pad", "tag", "trunc", "ext"}
AuthKinds  == {"lendn", "nonce", "body", "pad", "tag"}    \* detected as soon as the frame is read
NeedMore   == {"lenup", "trunc"}                          \* detected once bytes from behind arrive

Init == /\ k \in 1..MaxMsgs
        /\ kinds \in [1..k -> {"obj", "err"}]
        /\ sent = 0 /\ chan = <<>> /\ delivered = <<>>
        /\ faults = [i \in 1..MaxMsgs |-> "none"]
        /\ rstate = "open" /\ nread = 0

Write == /\ sent < k
         /\ sent' = sent + 1
         /\ chan' = Append(chan, [seq |-> sent + 1, f |-> "none"])
         /\ UNCHANGED <<k, kinds, faults, delivered, rstate, nread>>

Touched == {i \in 1..MaxMsgs : faults[i] # "none"}
Tamper == /\ Cardinality(Touched) < MaxFaults
          /\ \E i \in DOMAIN chan, fk \in FaultKinds :
               /\ chan[i].f = "none"
               /\ chan' = [chan EXCEPT ![i].f = fk]
               /\ faults' = [faults EXCEPT ![chan[i].seq] = fk]
          /\ UNCHANGED <<k, kinds, sent, delivered, rstate, nread>>

\* bytes behind the head frame exist (or will: the adversary only rewrites, the writer goes on)
MoreBehind == Len(chan) > 1

Read ==
  /\ chan # <<>>
  /\ rstate \in {"open", "lost"}
  /\ LET h == Head(chan) IN
     IF rstate = "lost"
     THEN \* position lost after an insertion: the next 8 bytes are not a size
          /\ rstate' = "refused" /\ delivered' = delivered
          /\ chan' = Tail(chan) /\ nread' = nread + 1
     ELSE CASE h.f = "none" ->
                 /\ delivered' = Append(delivered, [seq |-> h.seq, kind |-> kinds[h.seq]])
                 /\ rstate' = "open" /\ chan' = Tail(chan) /\ nread' = nread + 1
            [] h.f = "ext" ->
                 /\ delivered' = Append(delivered, [seq |-> h.seq, kind |-> kinds[h.seq]])
                 /\ rstate' = "lost" /\ chan' = Tail(chan) /\ nread' = nread + 1
            [] h.f \in AuthKinds ->
                 /\ delivered' = delivered /\ rstate' = "closed"
                 /\ chan' = Tail(chan) /\ nread' = nread + 1
            [] h.f = "lenhi" ->
                 /\ delivered' = delivered /\ rstate' = "refused"
                 /\ chan' = Tail(chan) /\ nread' = nread + 1
            [] h.f \in NeedMore ->
                 /\ MoreBehind            \* otherwise the read stays blocked
                 /\ delivered' = delivered /\ rstate' = "closed"
                 /\ chan' = Tail(chan) /\ nread' = nread + 1
  /\ UNCHANGED <<k, kinds, sent, faults>>

Next == Write \/ Tamper \/ Read
Spec == Init /\ [][Next]_vars

\* ---- properties ----------------------------------------------------------
TypeOK == /\ rstate \in {"open", "closed", "refused", "lost"}
          /\ sent \in 0..k /\ nread \in 0..k
\* exactly once, in order, nothing skipped, nothing invented
PrefixInOrder == \A i \in DOMAIN delivered : delivered[i].seq = i
\* an error response surfaces as an error response, an object as an object
KindPreserved == \A i \in DOMAIN delivered : delivered[i].kind = kinds[delivered[i].seq]
NoFaultAllDelivered == (Touched = {} /\ sent = k /\ chan = <<>>) => Len(delivered) = k
\* nothing at or behind a touched frame is delivered, except the intact frame an insertion follows
FirstFault == IF Touched = {} THEN k + 1
              ELSE CHOOSE i \in Touched : \A j \in Touched : i <= j
NothingAfterFault == \A i \in DOMAIN delivered :
                        \/ delivered[i].seq < FirstFault
                        \/ (delivered[i].seq = FirstFault /\ faults[FirstFault] = "ext")
\* a detected fault is final: the session stays closed/refused and delivers nothing more
ClosedIsFinal == [][(rstate \in {"closed", "refused"}) => (rstate' = rstate /\ delivered' = delivered)]_vars
FaultDetected == (nread > Len(delivered)) => rstate \in {"closed", "refused"}

\* ---- case records ----------------------------------------------------------
Blocked == sent = k /\ rstate = "open" /\ Len(chan) = 1 /\ Head(chan).f \in NeedMore
Finished == /\ sent = k
            /\ \/ chan = <<>>
               \/ rstate \in {"closed", "refused"}
               \/ Blocked
\* the adversary is done when the conversation is: a frame in flight behind a dead session is never looked at
End == IF rstate = "closed" THEN "fail"
       ELSE IF rstate = "refused" THEN (IF RefusalCloses THEN "fail" ELSE "refuse")
       ELSE IF chan = <<>> THEN "done" ELSE "block"
FaultSeq == LET S == Touched
                RECURSIVE Up(_)
                Up(i) == IF i > k THEN <<>>
                         ELSE (IF i \in S THEN <<[frame |-> i, kind |-> faults[i]]>> ELSE <<>>) \o Up(i + 1)
            IN Up(1)
\* cause: what ended the conversation - "auth" (authentication failure), "size" (declared size refused), "" otherwise
Cause == IF rstate = "closed" THEN "auth" ELSE IF rstate = "refused" THEN "size" ELSE ""
CaseRec == [k |-> k, kinds |-> [i \in 1..k |-> kinds[i]], faults |-> FaultSeq,
            delivered |-> Len(delivered), end |-> End, cause |-> Cause]
\* (a frame still in flight behind a finished conversation can be touched without effect: such
\*  schedules are printed too, the harness applies them all the same)
EmitCase == (Emit /\ Finished) => PrintT("@@CASE " \o ToJson(CaseRec))
=============================================================================
