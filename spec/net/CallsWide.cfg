SPECIFICATION Spec
CONSTANTS
  CallLimit = 4096
  MinMsg = 4096
  NONCE = 12
  TAG = 16
  PW = 8
  PW3 = 8
  Slack3 = 1024
  Step = 16
  MaxP = 9000
  LW = 40
  Emit = TRUE
INVARIANTS NoHole AtLeastDocumented EmitCase
CHECK_DEADLOCK FALSE
