------------------------------ MODULE Segments ------------------------------
(* The connection under a transport is a BYTE STREAM, not a sequence of
   messages.  What one side writes with k Write calls reaches the other side
   cut into reads at arbitrary points: several frames in flight may arrive in
   one read (coalescing), one frame may arrive in many (down to one byte at a
   time), and a cut may fall inside a length prefix, a nonce or a MAC.

     Segmentation   the sequence of objects handed to the application - and
                    the fate of the session - does not depend on how the
                    stream is cut into reads.

   Model.  One direction of one connection ("lane").  The writer puts whole
   frames on the stream, as many as it likes without waiting (frames "in
   flight"), except in front of a frame marked turn: that one answers
   something the peer says only after it has read everything before it (a
   request/response turnaround; the writer is then blocked reading).  The
   network is a byte queue: sent - dlv bytes are in flight, dlv - pos have
   arrived and wait in the receiver's socket buffer.  Deliver(k) moves k
   bytes from the first to the second.  A read of the connection asks for n
   bytes and gets min(n, arrived) of them, at least one.

   The reader follows the grammar of its read path; a path is a sequence of
   steps of known length (the declared length once the prefix is in):
     plain   one step: the whole message              (a field decoder behind a limit)
     msg     prefix | rest                            (RHP2 readMessage: ReadID, ReadRequest, ReadResponse)
     raw     prefix | nonce | body | tag              (RHP2 RawResponse, ResponseReader.Read, VerifyTag)
     idreq   id | request body                        (RHP4 ReadID then ReadRequest)
   and asks the connection for at most Chunk bytes and never for more than is
   left of the step.

   Free = TRUE   Deliver(k) for every k at every moment, all interleavings
                 with the writer and the reader: Faithful, NoOverRead,
                 AllDelivered and absence of deadlock are checked for every
                 segmentation of every conversation (SegmentsMC.cfg).
   Free = FALSE  the segmentation is a value chosen in the initial state:
                 a set of cut points (at most MaxCuts of them, between any
                 two units of the stream) or a period; the network hands over
                 one segment at a time - the next one when the previous one
                 has been taken, and only complete unless the writer is
                 quiet (blocked or finished).  A read never crosses a cut.
                 Every (lane, conversation, segmentation) is printed as a SEG
                 record; the harness realises it on a buffered in-memory
                 connection between the real endpoints.  (Every view a reader
                 can have of a Free behaviour is the view of one of these:
                 cut exactly where a read came back short.)
   Greedy = TRUE a reader that is NOT the one specified: path msg reads
                 through a persistent buffer that asks the connection for Buf
                 bytes, path raw reads the connection directly.  It violates
                 Faithful as soon as two frames arrive in one read
                 (SegmentsGreedy.cfg; the harness demands that violation).

   A unit of the model stands for a non-empty run of bytes of the same part
   of a frame; the harness places the unit boundaries of a part on byte
   offsets of the real part (inside the 8-byte prefix, the 12-byte nonce, the
   body, the 16-byte tag).  A period of 1 is "one byte per read".           *)
EXTENDS Integers, Sequences, FiniteSets, TLC, Json
CONSTANTS Lanes,     \* subset of {"rhp2-h2r", "rhp2-r2h", "rhp4-req", "rhp4-resp", "rhp3", "gw"}
          MaxMsgs,   \* messages / exchanges after the handshake
          MaxCuts,   \* cut points per segmentation
          Periods,   \* periodic segmentations (units)
          Chunk,     \* the reader's largest request to the connection
          Buf,       \* Greedy: the size of the persistent buffer
          Free, Eager, Greedy, Emit
VARIABLES lane, plan, seg,
          w, sent,          \* frames written, bytes written
          dlv,              \* bytes that have arrived at the receiver
          pos,              \* bytes the reader has taken from the connection
          fr, st, rem,      \* reader: frame, step, bytes left of the step
          first,            \* stream offset at which the reader began the frame (-1: not begun)
          held,             \* Greedy: bytes sitting in the persistent buffer
          got               \* per frame handed over: <<from, to>> offsets of the bytes it was made of
vars == <<lane, plan, seg, w, sent, dlv, pos, fr, st, rem, first, held, got>>

Min(a, b) == IF a < b THEN a ELSE b
SetMin(S) == CHOOSE x \in S : \A y \in S : x <= y

\* ---- frames -----------------------------------------------------------------------------------
F(path, size, kind, turn) == [path |-> path, size |-> size, kind |-> kind, turn |-> turn]
Body(size) == CASE size = "nil" -> 0 [] size = "small" -> 1 [] size = "pad" -> 2 [] size = "big" -> 3 [] OTHER -> 2
\* the parts of a frame, in units
Parts(f) ==
  CASE f.path \in {"msg", "raw"} -> <<2, 1, Body(f.size), 2>>      \* length prefix | nonce | ciphertext | tag
    [] f.path = "idreq"          -> <<2, Body(f.size)>>             \* RPC id | request object
    [] f.kind \in {"obj", "err"} -> <<1, Body(f.size)>>             \* RHP4 response: flag | object
    [] OTHER                     -> <<Body(f.size)>>                \* key exchange message, multiplexer packet
RECURSIVE SumSeq(_)
SumSeq(s) == IF s = <<>> THEN 0 ELSE Head(s) + SumSeq(Tail(s))
Total(f) == SumSeq(Parts(f))
NonZero(s) == SelectSeq(s, LAMBDA x : x > 0)
Steps(f) == CASE f.path = "msg" -> <<Parts(f)[1], Total(f) - Parts(f)[1]>>
              [] f.path \in {"raw", "idreq"} -> NonZero(Parts(f))
              [] OTHER -> <<Total(f)>>

\* ---- conversations per lane ---------------------------------------------------------------------
SeqsUpTo(S, n) == UNION {[1..k -> S] : k \in 1..n}
RECURSIVE Flatten(_)
Flatten(ss) == IF ss = <<>> THEN <<>> ELSE Head(ss) \o Flatten(Tail(ss))
Turned(s) == [i \in 1..Len(s) |-> IF i = 1 THEN [s[1] EXCEPT !.turn = TRUE] ELSE s[i]]

Resp2 == {F(p, s, k, FALSE) : p \in {"msg", "raw"}, s \in {"pad", "big"}, k \in {"obj", "err"}}
Exch2 == {<<F("msg", "pad", "id", FALSE)>>} \cup {<<F("msg", "pad", "id", FALSE), F("msg", s, "req", FALSE)>> : s \in {"pad", "big"}}
Req4  == {F("idreq", s, "req", FALSE) : s \in {"nil", "small", "big"}}
Resp4 == {F("plain", "small", "err", FALSE)} \cup {F("plain", s, "obj", FALSE) : s \in {"small", "big"}}
Pkt   == F("plain", "big", "pkt", TRUE)

Plans(l) ==
  CASE l = "rhp2-h2r"  -> \* the host: key exchange response, challenge frame, then responses - one burst
         {<<F("plain", "pad", "kx", FALSE), F("msg", "pad", "chal", FALSE)>> \o r : r \in SeqsUpTo(Resp2, MaxMsgs)}
    [] l = "rhp2-r2h"  -> \* the renter: key exchange request; after the host's answer, requests - one burst
         {<<F("plain", "small", "kx", FALSE)>> \o Turned(Flatten(e)) : e \in SeqsUpTo(Exch2, MaxMsgs)}
    [] l = "rhp4-req"  -> SeqsUpTo(Req4, MaxMsgs + 1)
    [] l = "rhp4-resp" -> SeqsUpTo(Resp4, MaxMsgs + 1)
    [] OTHER           -> \* multiplexed (RHP3, gateway): lock-step exchanges; the packets are the multiplexer's
         {[i \in 1..k |-> Pkt] : k \in 1..(MaxMsgs + 1)}
Opaque(l) == l \in {"rhp3", "gw"}   \* frame boundaries not visible to the harness: periodic segmentations only

RECURSIVE StartOf(_, _)
StartOf(p, i) == IF i <= 1 THEN 0 ELSE StartOf(p, i - 1) + Total(p[i - 1])
EndOf(p, i) == StartOf(p, i) + Total(p[i])
Size(p) == EndOf(p, Len(p))

Upto(S, m) == {{}} \cup (IF m >= 1 THEN {{a} : a \in S} ELSE {})
                   \cup (IF m >= 2 THEN {{a, b} : a \in S, b \in S} ELSE {})
                   \cup (IF m >= 3 THEN {{a, b, c} : a \in S, b \in S, c \in S} ELSE {})
Segs(l, p) == (IF Opaque(l) THEN {[kind |-> "cuts", at |-> {}, k |-> 0]}
               ELSE {[kind |-> "cuts", at |-> S, k |-> 0] : S \in Upto(1..(Size(p) - 1), MaxCuts)})
              \cup {[kind |-> "every", at |-> {}, k |-> q] : q \in Periods}

Init == /\ lane \in Lanes /\ plan \in Plans(lane)
        /\ seg \in (IF Free THEN {[kind |-> "cuts", at |-> {}, k |-> 0]} ELSE Segs(lane, plan))
        /\ w = 0 /\ sent = 0 /\ dlv = 0 /\ pos = 0
        /\ fr = 1 /\ st = 1 /\ rem = Steps(plan[1])[1] /\ first = -1 /\ held = 0 /\ got = <<>>

N == Len(plan)
Done == fr > N
Arrived == dlv - pos

\* ---- the writer ----------------------------------------------------------------------------------
CanWrite == w < N /\ (plan[w + 1].turn => fr > w)
WriterQuiet == ~CanWrite            \* finished, or blocked until the peer has read everything and answered
Write == /\ CanWrite /\ w' = w + 1 /\ sent' = sent + Total(plan[w + 1])
         /\ UNCHANGED <<lane, plan, seg, dlv, pos, fr, st, rem, first, held, got>>

\* ---- the network ---------------------------------------------------------------------------------
NextCut(d) == IF seg.kind = "every" THEN d + seg.k - (d % seg.k)
              ELSE LET later == {c \in seg.at : c > d} IN IF later = {} THEN Size(plan) ELSE SetMin(later)
Deliver ==
  /\ sent > dlv
  /\ IF Free THEN \E k \in 1..(sent - dlv) : dlv' = dlv + k
     ELSE /\ Arrived = 0                                   \* one segment at a time
          /\ Eager => ~CanWrite
          /\ (sent >= NextCut(dlv) \/ WriterQuiet)         \* complete, unless nothing more can come
          /\ dlv' = Min(NextCut(dlv), sent)
  /\ UNCHANGED <<lane, plan, seg, w, sent, pos, fr, st, rem, first, held, got>>

\* ---- the reader ----------------------------------------------------------------------------------
\* t bytes starting at stream offset c go into the current step
Consume(c, t) ==
  LET f1 == IF first < 0 THEN c ELSE first
      stp == Steps(plan[fr]) IN
  IF rem - t > 0 THEN /\ rem' = rem - t /\ first' = f1 /\ UNCHANGED <<fr, st, got>>
  ELSE IF st < Len(stp) THEN /\ st' = st + 1 /\ rem' = stp[st + 1] /\ first' = f1 /\ UNCHANGED <<fr, got>>
  ELSE /\ got' = Append(got, <<f1, c + t>>) /\ fr' = fr + 1 /\ st' = 1 /\ first' = -1
       /\ rem' = IF fr + 1 <= N THEN Steps(plan[fr + 1])[1] ELSE 0
UseBuf == Greedy /\ plan[fr].path = "msg"
Read ==
  /\ ~Done
  /\ (~Free /\ Eager) => ~CanWrite
  /\ IF ~UseBuf
     THEN /\ Arrived > 0
          /\ LET k == Min(Min(Chunk, rem), Arrived) IN Consume(pos, k) /\ pos' = pos + k
          /\ UNCHANGED held
     ELSE IF held > 0
          THEN LET t == Min(rem, held) IN Consume(pos - held, t) /\ held' = held - t /\ UNCHANGED pos
          ELSE /\ Arrived > 0
               /\ LET k == Min(Buf, Arrived) IN pos' = pos + k /\ held' = k
               /\ UNCHANGED <<fr, st, rem, first, got>>
  /\ UNCHANGED <<lane, plan, seg, w, sent, dlv>>

Idle == Done /\ UNCHANGED vars
Next == Write \/ Deliver \/ Read \/ Idle
Spec == Init /\ [][Next]_vars

\* ---- Segmentation ----------------------------------------------------------------------------------
\* every object handed over is made of exactly the bytes written as that frame, in order
Faithful == \A i \in 1..Len(got) : got[i] = <<StartOf(plan, i), EndOf(plan, i)>>
\* no read takes a byte of a later frame
NoOverRead == ~Done => pos <= EndOf(plan, fr)
\* the conversation ends with everything handed over and nothing left anywhere
AllDelivered == Done => (Len(got) = N /\ w = N /\ pos = sent /\ held = 0)
\* (CHECK_DEADLOCK TRUE: no segmentation starves the reader)

\* a cut point as (frame, part, unit within the part, units of the part)
Place(c) ==
  LET f == CHOOSE i \in 1..N : StartOf(plan, i) < c /\ c <= EndOf(plan, i)
      o == c - StartOf(plan, f)
      ps == Parts(plan[f])
      PEnd(j) == SumSeq(SubSeq(ps, 1, j))
      p == CHOOSE j \in 1..Len(ps) : PEnd(j) - ps[j] < o /\ o <= PEnd(j)
  IN [f |-> f, p |-> p, u |-> o - (PEnd(p) - ps[p]), of |-> ps[p]]
EmitCase == (Emit /\ ~Free /\ Done) =>
  PrintT("@@SEG " \o ToJson([lane |-> lane, plan |-> plan,
                             seg |-> [kind |-> seg.kind, k |-> seg.k, at |-> {Place(c) : c \in seg.at}],
                             delivered |-> Len(got), left |-> sent - pos]))
=============================================================================
