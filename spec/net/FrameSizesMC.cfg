SPECIFICATION Spec
CONSTANTS
  PW = 2
  NONCE = 3
  TAG = 4
  MinMsg = 16
  MaxPlain = 24
  MaxLimit = 36
  Sweep = FALSE
  W = 2
  Extra = {}
  Ample = 5
  LW = 2
  Emit = FALSE
INVARIANTS PadRule Whole Layout NotTiny Admit Faithful Bounded Exact Agree Crossed EmitCase
CHECK_DEADLOCK FALSE
