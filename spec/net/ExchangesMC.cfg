SPECIFICATION Spec
CONSTANTS
  Protos = {"rhp2", "rhp3", "rhp4", "gw"}
  MaxEx = 2
  MaxResp = 2
  Emit = FALSE
INVARIANTS Aligned InOrder Drained EmitCase
CHECK_DEADLOCK FALSE
