SPECIFICATION Spec
CONSTANTS
  TL_ChunkSize = 64
  MaxSectorBatch = 262144
  MaxAccountBatch = 1000
  RHP2MinMsg = 4096
  RHP2Overhead = 28
  RHP3Slack = 1024
  MaxBlockWeight = 2000000
  MaxInputs = 15384
  MaxProofDepth = 64
CHECK_DEADLOCK FALSE
