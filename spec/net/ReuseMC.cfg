SPECIFICATION Spec
CONSTANTS
  Lens = {0, 1, 2, 3, 5, 9}
  MaxSteps = 4
  Chunk = 2
  Emit = FALSE
INVARIANTS Faithful NoTrust Replace EmitCase
CHECK_DEADLOCK FALSE
