------------------------------- MODULE Outline -------------------------------
(* Compact block relay, gateway/outline.go and the outline codec of gateway/encoding.go
   (property C18).

   Definition.  A block is a header (parent, nonce, timestamp), a miner address and a SEQUENCE of
   transactions, v1 before v2.  Nothing makes the members of that sequence distinct: a transaction
   that spends nothing (arbitrary data only) is valid at every position of a valid block, any number
   of times.  Its ID is the header hash over the commitment; the commitment is the Merkle root over
   (state+miner leaf, transaction hashes...) -- symbolic here: hashes are texts, so the model is
   injective and everything is relative to collision resistance.
   The OUTLINE of b with the POSITIONS O omitted is b with the transactions at O replaced by
   their hashes (an outline is a per-position object: the wire form carries one kind byte per
   position, so the same transaction may be present in full at one position and as a hash at another).
   The candidate pool is a MULTISET offered in some order; a position is RESOLVED by a pool iff the
   pool holds a transaction with the position's hash -- however often the pool holds it, and however
   many positions ask for it.  Completion may take several calls on the same outline.

   Transcription.  OutlineBlock (+ RemoveTransactions: removal is by hash, so it omits every
   position of a removed transaction), ID / commitment, Missing, Complete (hash maps of the offered
   pool, later entries overwrite earlier ones, v1 map consulted before the v2 map, payout = block
   reward + fees of what is present, found transactions written back into the outline) and the codec
   (transactions, v2 transactions and hashes sent as three lists plus one kind byte per position).

   Cases.  Every block with <= MaxTx transactions: k1 v1, k2 v2, and for each version every PATTERN
   of equal members (restricted growth strings: position j carries the transaction with id g[j]; at
   most MaxRep positions repeat an earlier one) x every omitted position set O x every pool: prov
   subset of the omitted ids offered, extras (0 none; 1 unrelated v1 and v2 transactions; 2 unrelated
   ones, the block's own non-omitted transactions -- with their multiplicities -- and every offered
   one twice), order (0 block order, 1 reversed).  When the first call leaves positions unresolved, a
   second call on the same outline is offered the rest (same extras and order) and must deliver the
   block.  Eval prints the case with the expected outcome.                                         *)
EXTENDS Integers, Sequences, FiniteSets, TLC, Json

CONSTANTS MaxTx, MaxRep

Reward == 1000
Tx(id, ver) == [id |-> id, ver |-> ver, fee |-> 10 * id + ver]
NoTx == [id |-> 0, ver |-> 0, fee |-> 0]
Hash(t) == "T" \o ToString(t.ver) \o "#" \o ToString(t.id)

RECURSIVE Join(_)
Join(ss) == IF ss = <<>> THEN "" ELSE "," \o Head(ss) \o Join(Tail(ss))
RECURSIVE Sum(_)
Sum(s) == IF s = <<>> THEN 0 ELSE Head(s) + Sum(Tail(s))
Reverse(s) == [j \in 1..Len(s) |-> s[Len(s) + 1 - j]]
RECURSIVE SortedSeq(_)
SortedSeq(S) == IF S = {} THEN <<>> ELSE LET x == CHOOSE y \in S : \A z \in S : y <= z IN <<x>> \o SortedSeq(S \ {x})
MaxOf(S) == IF S = {} THEN 0 ELSE CHOOSE y \in S : \A z \in S : z <= y

\* State.Commitment / V2BlockOutline.commitment: leaf 0 binds the parent state and the miner address
Commit(miner, hashes) == "C(S|" \o miner \o Join(hashes) \o ")"
HeaderID(parent, nonce, ts, com) == "B(" \o parent \o "," \o ToString(nonce) \o "," \o ToString(ts) \o "," \o com \o ")"

-----------------------------------------------------------------------------
(* ------------------------------ definition ------------------------------- *)
\* patterns of equal members among k positions: restricted growth strings
Patterns(k) == {g \in [1..k -> 1..k] : \A j \in 1..k : g[j] <= 1 + MaxOf({g[i] : i \in 1..(j - 1)})}
Repeats(g) == Len(g) - Cardinality({g[j] : j \in 1..Len(g)})

\* position j of the v1 list carries transaction g1[j]; position j of the v2 list transaction k1 + g2[j]
TheBlock(g1, g2) ==
  LET k1 == Len(g1)
      v1 == [j \in 1..k1 |-> Tx(g1[j], 1)]
      v2 == [j \in 1..Len(g2) |-> Tx(k1 + g2[j], 2)]
      all == v1 \o v2
  IN [parent |-> "P", nonce |-> 7, ts |-> 9, height |-> 5,
      payouts |-> <<[addr |-> "M", val |-> Reward + Sum([j \in 1..Len(all) |-> all[j].fee])]>>,
      v1 |-> v1, v2 |-> v2,
      commitment |-> Commit("M", [j \in 1..Len(all) |-> Hash(all[j])])]
Txs(b) == b.v1 \o b.v2
BlockID(b) == HeaderID(b.parent, b.nonce, b.ts, b.commitment)
IdsAt(b, S) == {Txs(b)[j].id : j \in S}
TxOfId(b, i) == Txs(b)[CHOOSE j \in 1..Len(Txs(b)) : Txs(b)[j].id = i]

\* the outline of b with the positions O omitted
OutlineOf(b, O) ==
  [height |-> b.height, parent |-> b.parent, nonce |-> b.nonce, ts |-> b.ts, miner |-> b.payouts[1].addr,
   txs |-> [j \in 1..Len(Txs(b)) |-> [hash |-> Hash(Txs(b)[j]), tx |-> IF j \in O THEN NoTx ELSE Txs(b)[j]]]]

\* every position that carries a transaction also carried by a position of O
Closure(b, O) == {j \in 1..Len(Txs(b)) : \E i \in O : Txs(b)[i] = Txs(b)[j]}

\* the positions of O a pool (any sequence of transactions) resolves
Resolved(b, O, pool) == {j \in O : \E i \in 1..Len(pool) : Hash(pool[i]) = Hash(Txs(b)[j])}

-----------------------------------------------------------------------------
(* ----------------------------- transcription ----------------------------- *)
\* RemoveTransactions(txns, v2txns)
RemoveTransactions(o, rm1, rm2) ==
  LET remove == {Hash(rm1[j]) : j \in 1..Len(rm1)} \cup {Hash(rm2[j]) : j \in 1..Len(rm2)}
  IN [o EXCEPT !.txs = [j \in 1..Len(o.txs) |-> IF o.txs[j].hash \in remove THEN [o.txs[j] EXCEPT !.tx = NoTx] ELSE o.txs[j]]]
\* OutlineBlock(b, txns, v2txns)
OutlineBlock(b, rm1, rm2) ==
  RemoveTransactions(
    [height |-> b.height, parent |-> b.parent, nonce |-> b.nonce, ts |-> b.ts, miner |-> b.payouts[1].addr,
     txs |-> [j \in 1..Len(b.v1) |-> [hash |-> Hash(b.v1[j]), tx |-> b.v1[j]]]
             \o [j \in 1..Len(b.v2) |-> [hash |-> Hash(b.v2[j]), tx |-> b.v2[j]]]], rm1, rm2)

OutlineCommitment(o) == Commit(o.miner, [j \in 1..Len(o.txs) |-> o.txs[j].hash])
OutlineID(o) == HeaderID(o.parent, o.nonce, o.ts, OutlineCommitment(o))
Missing(o) == LET ms == SelectSeq(o.txs, LAMBDA e : e.tx = NoTx) IN [j \in 1..Len(ms) |-> ms[j].hash]

\* map built by  for i := range txns { m[hash(txns[i])] = &txns[i] } ; the map is only read afterwards
Lookup(pool, h) ==
  LET hits == {j \in 1..Len(pool) : Hash(pool[j]) = h}
  IN IF hits = {} THEN NoTx ELSE pool[CHOOSE j \in hits : \A k \in hits : k <= j]
Complete(o, pool1, pool2) ==
  LET filled == [j \in 1..Len(o.txs) |->
                   IF o.txs[j].tx # NoTx THEN o.txs[j]
                   ELSE LET a == Lookup(pool1, o.txs[j].hash)  b == Lookup(pool2, o.txs[j].hash)
                        IN [o.txs[j] EXCEPT !.tx = IF a # NoTx THEN a ELSE b]]
      present == SelectSeq(filled, LAMBDA e : e.tx # NoTx)
      p1 == SelectSeq(present, LAMBDA e : e.tx.ver = 1)
      p2 == SelectSeq(present, LAMBDA e : e.tx.ver = 2)
      o2 == [o EXCEPT !.txs = filled]             \* Complete fills the outline in place
  IN [block |-> [parent |-> o.parent, nonce |-> o.nonce, ts |-> o.ts, height |-> o.height,
                 payouts |-> <<[addr |-> o.miner, val |-> Reward + Sum([j \in 1..Len(present) |-> present[j].tx.fee])]>>,
                 v1 |-> [j \in 1..Len(p1) |-> p1[j].tx], v2 |-> [j \in 1..Len(p2) |-> p2[j].tx],
                 commitment |-> OutlineCommitment(o)],
      missing |-> Missing(o2), outline |-> o2]

\* codec: three lists and the kinds
Encode(o) ==
  [height |-> o.height, parent |-> o.parent, nonce |-> o.nonce, ts |-> o.ts, miner |-> o.miner,
   txns   |-> LET s == SelectSeq(o.txs, LAMBDA e : e.tx.ver = 1) IN [j \in 1..Len(s) |-> s[j].tx],
   v2txns |-> LET s == SelectSeq(o.txs, LAMBDA e : e.tx.ver = 2) IN [j \in 1..Len(s) |-> s[j].tx],
   hashes |-> Missing(o),
   kinds  |-> [j \in 1..Len(o.txs) |-> IF o.txs[j].tx.ver = 1 THEN 0 ELSE IF o.txs[j].tx.ver = 2 THEN 1 ELSE 2]]
RECURSIVE DecodeTxs(_, _, _, _)
DecodeTxs(kinds, a, b, h) ==
  IF kinds = <<>> THEN <<>>
  ELSE IF Head(kinds) = 0 THEN <<[hash |-> Hash(Head(a)), tx |-> Head(a)]>> \o DecodeTxs(Tail(kinds), Tail(a), b, h)
  ELSE IF Head(kinds) = 1 THEN <<[hash |-> Hash(Head(b)), tx |-> Head(b)]>> \o DecodeTxs(Tail(kinds), a, Tail(b), h)
  ELSE <<[hash |-> Head(h), tx |-> NoTx]>> \o DecodeTxs(Tail(kinds), a, b, Tail(h))
Decode(w) ==
  [height |-> w.height, parent |-> w.parent, nonce |-> w.nonce, ts |-> w.ts, miner |-> w.miner,
   txs |-> DecodeTxs(w.kinds, w.txns, w.v2txns, w.hashes)]

-----------------------------------------------------------------------------
(* --------------------------------- cases --------------------------------- *)
Extras == <<Tx(101, 1), Tx(102, 2), Tx(103, 1), Tx(104, 2)>>
\* a pool for the outline of b with the positions O omitted: the transactions with the ids prov are offered
PoolOf(b, O, prov, extras, ord) ==
  LET k == Len(Txs(b))
      offered == [j \in 1..Cardinality(prov) |-> TxOfId(b, SortedSeq(prov)[j])]
      own == LET s == SortedSeq((1..k) \ O) IN [j \in 1..Len(s) |-> Txs(b)[s[j]]]
      base == IF extras = 0 THEN offered
              ELSE IF extras = 1 THEN SubSeq(Extras, 1, 2) \o offered \o SubSeq(Extras, 3, 4)
              ELSE offered \o Extras \o own \o offered
  IN IF ord = 1 THEN Reverse(base) ELSE base
\* class of the pool by what it resolves (got: ids of resolved positions)
Class(OI, got, extras, ord) ==
  IF OI = {} THEN "nothing-omitted"
  ELSE IF got = OI THEN (IF extras > 0 THEN "superset" ELSE IF ord = 1 /\ Cardinality(OI) > 1 THEN "permuted" ELSE "exact")
  ELSE IF got = {} THEN (IF extras > 0 THEN "unrelated-only" ELSE "empty")
  ELSE (IF extras > 0 THEN "partial+extra" ELSE "partial")
RepTag(b, O) ==
  IF \E i, j \in O : i # j /\ Txs(b)[i] = Txs(b)[j] THEN "/repeated-omitted"
  ELSE IF \E i, j \in 1..Len(Txs(b)) : i # j /\ Txs(b)[i] = Txs(b)[j] THEN "/repeated"
  ELSE ""
HashesAt(b, s) == [j \in 1..Len(s) |-> Hash(Txs(b)[s[j]])]
IdsOf(pool) == [j \in 1..Len(pool) |-> pool[j].id]
V(pool, ver) == SelectSeq(pool, LAMBDA t : t.ver = ver)

Case(p) ==
  LET b  == TheBlock(p.g1, p.g2)
      k  == Len(Txs(b))
      rm == [j \in 1..Cardinality(p.O) |-> Txs(b)[SortedSeq(p.O)[j]]]
      orm == OutlineBlock(b, V(rm, 1), V(rm, 2))          \* what OutlineBlock makes of "omit these"
      o  == OutlineOf(b, p.O)                             \* the outline under test
      pool == PoolOf(b, p.O, p.prov, p.extras, p.ord)
      r  == Complete(o, V(pool, 1), V(pool, 2))
      still == p.O \ Resolved(b, p.O, pool)
      \* second call on the same outline: the rest arrives
      poolB == PoolOf(b, still, IdsAt(b, still), p.extras, p.ord)
      rB == Complete(r.outline, V(poolB, 1), V(poolB, 2))
  IN [k1 |-> Len(p.g1), k2 |-> Len(p.g2), ids |-> [j \in 1..k |-> Txs(b)[j].id],
      omit |-> SortedSeq(p.O), omitrm |-> SortedSeq(Closure(b, p.O)),
      class |-> Class(IdsAt(b, p.O), IdsAt(b, p.O \ still), p.extras, p.ord) \o RepTag(b, p.O),
      pool1 |-> IdsOf(V(pool, 1)), pool2 |-> IdsOf(V(pool, 2)),
      complete |-> still = {}, missing |-> SortedSeq(still),
      pool1b |-> IdsOf(V(poolB, 1)), pool2b |-> IdsOf(V(poolB, 2)),
      kinds |-> Encode(o).kinds, kindsrm |-> Encode(orm).kinds,
      okOutline  |-> /\ orm = OutlineOf(b, Closure(b, p.O))
                     /\ (Closure(b, p.O) = p.O) => orm = o,
      okID       |-> OutlineID(o) = BlockID(b) /\ OutlineID(orm) = BlockID(b),
      okMissing  |-> /\ Missing(o) = HashesAt(b, SortedSeq(p.O))
                     /\ Missing(orm) = HashesAt(b, SortedSeq(Closure(b, p.O))),
      okComplete |-> /\ r.missing = HashesAt(b, SortedSeq(still))
                     /\ (still = {}) <=> (r.block = b)
                     /\ r.outline = OutlineOf(b, still),
      okSecond   |-> /\ rB.missing = <<>>
                     /\ rB.block = b
                     /\ rB.outline = OutlineOf(b, {}),
      okCodec    |-> /\ Decode(Encode(o)) = o /\ Decode(Encode(orm)) = orm
                     /\ Decode(Encode(r.outline)) = r.outline]

VARIABLES plan, out
vars == <<plan, out>>
Init ==
  /\ \E k1 \in 0..MaxTx : \E k2 \in 0..(MaxTx - k1) : \E g1 \in Patterns(k1) : \E g2 \in Patterns(k2) :
       /\ Repeats(g1) + Repeats(g2) <= MaxRep
       /\ \E O \in SUBSET (1..(k1 + k2)) : \E prov \in SUBSET IdsAt(TheBlock(g1, g2), O) :
            \E extras \in 0..2 : \E ord \in 0..1 :
              plan = [ph |-> 0, g1 |-> g1, g2 |-> g2, O |-> O, prov |-> prov, extras |-> extras, ord |-> ord]
  /\ out = [ph |-> 0]
Eval ==
  /\ plan.ph = 0
  /\ plan' = [plan EXCEPT !.ph = 1]
  /\ \E r \in {Case(plan)} :
       /\ out' = [ph |-> 1, okOutline |-> r.okOutline, okID |-> r.okID, okMissing |-> r.okMissing,
                  okComplete |-> r.okComplete, okSecond |-> r.okSecond, okCodec |-> r.okCodec]
       /\ PrintT("@@OUTLINE " \o ToJson([k1 |-> r.k1, k2 |-> r.k2, ids |-> r.ids, omit |-> r.omit, omitrm |-> r.omitrm,
                                         class |-> r.class, pool1 |-> r.pool1, pool2 |-> r.pool2, complete |-> r.complete,
                                         missing |-> r.missing, pool1b |-> r.pool1b, pool2b |-> r.pool2b,
                                         kinds |-> r.kinds, kindsrm |-> r.kindsrm]))
Next == Eval
Spec == Init /\ [][Next]_vars

Done == out.ph = 1
OutlineIsDefinition == Done => out.okOutline     \* OutlineBlock/RemoveTransactions = block with every position of an omitted transaction replaced by its hash
SameID              == Done => out.okID          \* outline ID = block ID
MissingExact        == Done => out.okMissing     \* Missing = the hashes of the omitted positions, in block order
CompleteExact       == Done => out.okComplete    \* original block iff the pool resolves every omitted position, else exactly the rest
SecondCallCompletes == Done => out.okSecond      \* a second call that is offered the rest delivers the original block
CodecIdentity       == Done => out.okCodec       \* decode(encode(outline)) = outline
=============================================================================
