------------------------------- MODULE Outline -------------------------------
(* Compact block relay, gateway/outline.go and the outline codec of gateway/encoding.go
   (property C18).

   Definition.  A block is a header (parent, nonce, timestamp), a miner address and a list of
   transactions, v1 before v2.  Its ID is the header hash over the commitment; the commitment
   is the Merkle root over (state+miner leaf, transaction hashes...) -- symbolic here: hashes are
   texts, so the model is injective and everything is relative to collision resistance.
   The OUTLINE of b with the positions O omitted is b with the transactions at O replaced by
   their hashes.

   Transcription.  OutlineBlock (+ RemoveTransactions), ID / commitment, Missing, Complete
   (hash maps of the offered pool, later entries overwrite earlier ones, v1 map consulted before
   the v2 map, payout = block reward + fees of what is present) and the codec (transactions,
   v2 transactions and hashes sent as three lists plus one kind byte per position).

   Cases.  Every block shape with <= MaxTx transactions (k1 v1, k2 v2) x every omitted set O
   x every pool: prov subset of O offered, extras (0 none; 1 unrelated v1 and v2 transactions;
   2 unrelated ones, the block's own non-omitted transactions and every offered one twice),
   order (0 block order, 1 reversed).  Eval prints the case with the expected outcome.      *)
EXTENDS Integers, Sequences, FiniteSets, TLC, Json

CONSTANTS MaxTx

Reward == 1000
Tx(id, ver) == [id |-> id, ver |-> ver, fee |-> 10 * id + ver]
NoTx == [id |-> 0, ver |-> 0, fee |-> 0]
Hash(t) == "T" \o ToString(t.ver) \o "#" \o ToString(t.id)

RECURSIVE Join(_)
Join(ss) == IF ss = <<>> THEN "" ELSE "," \o Head(ss) \o Join(Tail(ss))
RECURSIVE Sum(_)
Sum(s) == IF s = <<>> THEN 0 ELSE Head(s) + Sum(Tail(s))
Reverse(s) == [j \in 1..Len(s) |-> s[Len(s) + 1 - j]]
RECURSIVE SortedSeq(_)
SortedSeq(S) == IF S = {} THEN <<>> ELSE LET x == CHOOSE y \in S : \A z \in S : y <= z IN <<x>> \o SortedSeq(S \ {x})

\* State.Commitment / V2BlockOutline.commitment: leaf 0 binds the parent state and the miner address
Commit(miner, hashes) == "C(S|" \o miner \o Join(hashes) \o ")"
HeaderID(parent, nonce, ts, com) == "B(" \o parent \o "," \o ToString(nonce) \o "," \o ToString(ts) \o "," \o com \o ")"

-----------------------------------------------------------------------------
(* ------------------------------ definition ------------------------------- *)
TheBlock(k1, k2) ==
  LET v1 == [j \in 1..k1 |-> Tx(j, 1)]
      v2 == [j \in 1..k2 |-> Tx(k1 + j, 2)]
      all == v1 \o v2
  IN [parent |-> "P", nonce |-> 7, ts |-> 9, height |-> 5,
      payouts |-> <<[addr |-> "M", val |-> Reward + Sum([j \in 1..Len(all) |-> all[j].fee])]>>,
      v1 |-> v1, v2 |-> v2,
      commitment |-> Commit("M", [j \in 1..Len(all) |-> Hash(all[j])])]
Txs(b) == b.v1 \o b.v2
BlockID(b) == HeaderID(b.parent, b.nonce, b.ts, b.commitment)

\* the outline of b with the positions O omitted
OutlineOf(b, O) ==
  [height |-> b.height, parent |-> b.parent, nonce |-> b.nonce, ts |-> b.ts, miner |-> b.payouts[1].addr,
   txs |-> [j \in 1..Len(Txs(b)) |-> [hash |-> Hash(Txs(b)[j]), tx |-> IF j \in O THEN NoTx ELSE Txs(b)[j]]]]

-----------------------------------------------------------------------------
(* ----------------------------- transcription ----------------------------- *)
\* RemoveTransactions(txns, v2txns)
RemoveTransactions(o, rm1, rm2) ==
  LET remove == {Hash(rm1[j]) : j \in 1..Len(rm1)} \cup {Hash(rm2[j]) : j \in 1..Len(rm2)}
  IN [o EXCEPT !.txs = [j \in 1..Len(o.txs) |-> IF o.txs[j].hash \in remove THEN [o.txs[j] EXCEPT !.tx = NoTx] ELSE o.txs[j]]]
\* OutlineBlock(b, txns, v2txns)
OutlineBlock(b, rm1, rm2) ==
  RemoveTransactions(
    [height |-> b.height, parent |-> b.parent, nonce |-> b.nonce, ts |-> b.ts, miner |-> b.payouts[1].addr,
     txs |-> [j \in 1..Len(b.v1) |-> [hash |-> Hash(b.v1[j]), tx |-> b.v1[j]]]
             \o [j \in 1..Len(b.v2) |-> [hash |-> Hash(b.v2[j]), tx |-> b.v2[j]]]], rm1, rm2)

OutlineCommitment(o) == Commit(o.miner, [j \in 1..Len(o.txs) |-> o.txs[j].hash])
OutlineID(o) == HeaderID(o.parent, o.nonce, o.ts, OutlineCommitment(o))
Missing(o) == LET ms == SelectSeq(o.txs, LAMBDA e : e.tx = NoTx) IN [j \in 1..Len(ms) |-> ms[j].hash]

\* map built by  for i := range txns { m[hash(txns[i])] = &txns[i] }
Lookup(pool, h) ==
  LET hits == {j \in 1..Len(pool) : Hash(pool[j]) = h}
  IN IF hits = {} THEN NoTx ELSE pool[CHOOSE j \in hits : \A k \in hits : k <= j]
Complete(o, pool1, pool2) ==
  LET filled == [j \in 1..Len(o.txs) |->
                   IF o.txs[j].tx # NoTx THEN o.txs[j]
                   ELSE LET a == Lookup(pool1, o.txs[j].hash)  b == Lookup(pool2, o.txs[j].hash)
                        IN [o.txs[j] EXCEPT !.tx = IF a # NoTx THEN a ELSE b]]
      present == SelectSeq(filled, LAMBDA e : e.tx # NoTx)
      p1 == SelectSeq(present, LAMBDA e : e.tx.ver = 1)
      p2 == SelectSeq(present, LAMBDA e : e.tx.ver = 2)
      o2 == [o EXCEPT !.txs = filled]             \* Complete fills the outline in place
  IN [block |-> [parent |-> o.parent, nonce |-> o.nonce, ts |-> o.ts, height |-> o.height,
                 payouts |-> <<[addr |-> o.miner, val |-> Reward + Sum([j \in 1..Len(present) |-> present[j].tx.fee])]>>,
                 v1 |-> [j \in 1..Len(p1) |-> p1[j].tx], v2 |-> [j \in 1..Len(p2) |-> p2[j].tx],
                 commitment |-> OutlineCommitment(o)],
      missing |-> Missing(o2), outline |-> o2]

\* codec: three lists and the kinds
Encode(o) ==
  [height |-> o.height, parent |-> o.parent, nonce |-> o.nonce, ts |-> o.ts, miner |-> o.miner,
   txns   |-> LET s == SelectSeq(o.txs, LAMBDA e : e.tx.ver = 1) IN [j \in 1..Len(s) |-> s[j].tx],
   v2txns |-> LET s == SelectSeq(o.txs, LAMBDA e : e.tx.ver = 2) IN [j \in 1..Len(s) |-> s[j].tx],
   hashes |-> Missing(o),
   kinds  |-> [j \in 1..Len(o.txs) |-> IF o.txs[j].tx.ver = 1 THEN 0 ELSE IF o.txs[j].tx.ver = 2 THEN 1 ELSE 2]]
RECURSIVE DecodeTxs(_, _, _, _)
DecodeTxs(kinds, a, b, h) ==
  IF kinds = <<>> THEN <<>>
  ELSE IF Head(kinds) = 0 THEN <<[hash |-> Hash(Head(a)), tx |-> Head(a)]>> \o DecodeTxs(Tail(kinds), Tail(a), b, h)
  ELSE IF Head(kinds) = 1 THEN <<[hash |-> Hash(Head(b)), tx |-> Head(b)]>> \o DecodeTxs(Tail(kinds), a, Tail(b), h)
  ELSE <<[hash |-> Head(h), tx |-> NoTx]>> \o DecodeTxs(Tail(kinds), a, b, Tail(h))
Decode(w) ==
  [height |-> w.height, parent |-> w.parent, nonce |-> w.nonce, ts |-> w.ts, miner |-> w.miner,
   txs |-> DecodeTxs(w.kinds, w.txns, w.v2txns, w.hashes)]

-----------------------------------------------------------------------------
(* --------------------------------- cases --------------------------------- *)
Extras == <<Tx(101, 1), Tx(102, 2), Tx(103, 1), Tx(104, 2)>>
PoolOf(b, O, prov, extras, ord) ==
  LET k == Len(Txs(b))
      offered == [j \in 1..Cardinality(prov) |-> Txs(b)[SortedSeq(prov)[j]]]
      own == LET s == SortedSeq((1..k) \ O) IN [j \in 1..Len(s) |-> Txs(b)[s[j]]]
      base == IF extras = 0 THEN offered
              ELSE IF extras = 1 THEN SubSeq(Extras, 1, 2) \o offered \o SubSeq(Extras, 3, 4)
              ELSE offered \o Extras \o own \o offered
  IN IF ord = 1 THEN Reverse(base) ELSE base
Class(O, prov, extras, ord) ==
  IF O = {} THEN "nothing-omitted"
  ELSE IF prov = O THEN (IF extras > 0 THEN "superset" ELSE IF ord = 1 /\ Cardinality(O) > 1 THEN "permuted" ELSE "exact")
  ELSE IF prov = {} THEN (IF extras > 0 THEN "unrelated-only" ELSE "empty")
  ELSE (IF extras > 0 THEN "partial+extra" ELSE "partial")

Case(p) ==
  LET b  == TheBlock(p.k1, p.k2)
      k  == p.k1 + p.k2
      rm == [j \in 1..Cardinality(p.O) |-> Txs(b)[SortedSeq(p.O)[j]]]
      o  == OutlineBlock(b, SelectSeq(rm, LAMBDA t : t.ver = 1), SelectSeq(rm, LAMBDA t : t.ver = 2))
      pool == PoolOf(b, p.O, p.prov, p.extras, p.ord)
      pool1 == SelectSeq(pool, LAMBDA t : t.ver = 1)
      pool2 == SelectSeq(pool, LAMBDA t : t.ver = 2)
      r  == Complete(o, pool1, pool2)
      still == SortedSeq(p.O \ p.prov)
  IN [k1 |-> p.k1, k2 |-> p.k2, omit |-> SortedSeq(p.O), class |-> Class(p.O, p.prov, p.extras, p.ord),
      pool1 |-> [j \in 1..Len(pool1) |-> pool1[j].id], pool2 |-> [j \in 1..Len(pool2) |-> pool2[j].id],
      complete |-> p.prov = p.O, missing |-> still,
      kinds |-> Encode(o).kinds,
      okOutline  |-> o = OutlineOf(b, p.O),
      okID       |-> OutlineID(o) = BlockID(b),
      okMissing  |-> Missing(o) = [j \in 1..Cardinality(p.O) |-> Hash(Txs(b)[SortedSeq(p.O)[j]])],
      okComplete |-> /\ r.missing = [j \in 1..Len(still) |-> Hash(Txs(b)[still[j]])]
                     /\ (p.prov = p.O) <=> (r.block = b)
                     /\ r.outline = OutlineOf(b, p.O \ p.prov),
      okCodec    |-> Decode(Encode(o)) = o /\ Decode(Encode(r.outline)) = r.outline]

VARIABLES plan, out
vars == <<plan, out>>
Init ==
  /\ \E k1 \in 0..MaxTx : \E k2 \in 0..(MaxTx - k1) : \E O \in SUBSET (1..(k1 + k2)) : \E prov \in SUBSET O :
       \E extras \in 0..2 : \E ord \in 0..1 :
         plan = [ph |-> 0, k1 |-> k1, k2 |-> k2, O |-> O, prov |-> prov, extras |-> extras, ord |-> ord]
  /\ out = [ph |-> 0]
Eval ==
  /\ plan.ph = 0
  /\ plan' = [plan EXCEPT !.ph = 1]
  /\ \E r \in {Case(plan)} :
       /\ out' = [ph |-> 1, okOutline |-> r.okOutline, okID |-> r.okID, okMissing |-> r.okMissing,
                  okComplete |-> r.okComplete, okCodec |-> r.okCodec]
       /\ PrintT("@@OUTLINE " \o ToJson([k1 |-> r.k1, k2 |-> r.k2, omit |-> r.omit, class |-> r.class, pool1 |-> r.pool1,
                                         pool2 |-> r.pool2, complete |-> r.complete, missing |-> r.missing, kinds |-> r.kinds]))
Next == Eval
Spec == Init /\ [][Next]_vars

Done == out.ph = 1
OutlineIsDefinition == Done => out.okOutline     \* OutlineBlock/RemoveTransactions = block with O replaced by hashes
SameID              == Done => out.okID          \* outline ID = block ID
MissingExact        == Done => out.okMissing     \* Missing = the omitted hashes, in block order
CompleteExact       == Done => out.okComplete    \* original block iff everything omitted was offered, else exactly the rest
CodecIdentity       == Done => out.okCodec       \* decode(encode(outline)) = outline
=============================================================================
