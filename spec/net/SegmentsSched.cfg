SPECIFICATION Spec
CONSTANTS
  Lanes = {"rhp2-h2r", "rhp2-r2h", "rhp4-req", "rhp3"}
  MaxMsgs = 1
  MaxCuts = 2
  Periods = {1, 2, 3}
  Chunk = 2
  Buf = 4
  Free = FALSE
  Eager = FALSE
  Greedy = FALSE
  Emit = FALSE
INVARIANTS Faithful NoOverRead AllDelivered EmitCase
CHECK_DEADLOCK TRUE
