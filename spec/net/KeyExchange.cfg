SPECIFICATION Spec
CONSTANTS
  Regions = {"reqkey", "respkey", "respsig", "respcipher", "challenge"}
  Emit = TRUE
INVARIANTS Authentic EmitKX
CHECK_DEADLOCK FALSE
