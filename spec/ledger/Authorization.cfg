INIT Init
NEXT Next
INVARIANTS CoveredPresent EveryShapeHasRejects UncoveredOnlyPartial
CHECK_DEADLOCK FALSE
