------------------------------ MODULE LedgerMC ------------------------------
(* Constant definitions for the model-checking and generation configurations of Ledger. *)
EXTENDS Ledger
\* genesis allocations: values straddle the rounding boundaries of the v2 tax (div 25), the claim formula
\* (div 10000) and the v1 tax (3.9 % rounded down to a multiple of 10000)
G_SC == << [val |-> 300000, addr |-> "A"], [val |-> 1199, addr |-> "B"] >>
G_SC3 == << [val |-> 3000000, addr |-> "A"], [val |-> 1040000, addr |-> "B"], [val |-> 1199, addr |-> "M"] >>
G_SF == << [val |-> 7000, addr |-> "A"], [val |-> 3000, addr |-> "B"] >>
RH1 == { <<250024, 25>> }
RH2 == { <<250024, 25>>, <<599, 0>>, <<0, 49>> }
=============================================================================
