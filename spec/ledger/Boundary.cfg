INIT Init
NEXT Next
CONSTANTS MatDelay = 1 AllowH = 2 RequireH = 20 First = 2 Span = 3
INVARIANTS Monotone
CHECK_DEADLOCK FALSE
