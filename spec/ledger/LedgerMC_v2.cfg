SPECIFICATION Spec
CONSTANTS
  Addrs = {"A", "B"}
  DevH = 1000
  DevLock = 0
  MatDelay = 1
  AllowH = 0
  RequireH = 1
  EphH = 0
  FoundH = 100
  Reward = 500
  MaxHeight = 2
  MaxTxns = 2
  MaxReverts = 1
  GenSC <- G_SC
  GenSF <- G_SF
  Templates = {"pay", "sf", "form2", "rev2", "res2", "renew2"}
  Defects = {}
  PayAmts = {599}
  Fees = {0, 10}
  Pay1 = {}
  Sizes = {64}
  FormRH <- RH1
  RevShifts = {24}
  SFSplits = {3000}
  Focus = FALSE
  StopAfterReject = FALSE
  HistPost = TRUE
  WinStarts = {0, 1, 2}
  WinLens = {1, 2}
INVARIANTS Conservation SiafundsConst NoDoubleUse PoolCoversClaims LiveNotGone
PROPERTIES RevertInverse RevisionStep
VIEW View
CHECK_DEADLOCK FALSE
