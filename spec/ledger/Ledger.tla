------------------------------- MODULE Ledger -------------------------------
(* The consensus ledger of SiaFoundation/core as a state machine over abstract
   elements: State + MidState + element store, driven by
       Begin  (NewMidState)
       TxnV1 / TxnV2   (ValidateTransaction  + ApplyTransaction,
                        ValidateV2Transaction + ApplyV2Transaction)
       BadTxn (a transaction the transcribed validation rejects: the block is poisoned)
       End    (miner payout, Foundation subsidy, v1 expirations, commit | reject)
       Revert (RevertBlock)
   One action per critical section of consensus/validation.go and
   consensus/application.go.  A transaction is one generic record (all fields
   of types.Transaction / types.V2Transaction that have an effect); Valid1 /
   Valid2 transcribe the validation rules clause by clause over it and
   Apply1 / Apply2 transcribe the application.  Templates only *propose*
   transactions; whether one is valid is always decided by Valid1 / Valid2.

   Identifiers are structural 5-tuples <<kind, b, t, i, j>> mirroring the ID
   derivations of types/types.go (b = block height, t = index of the
   transaction in the block, i = index in the transaction, j = output index /
   renewal generation); the harness maps them to real IDs by calling the real
   derivations.  Amounts are hastings as small naturals.                      *)
EXTENDS Integers, Sequences, FiniteSets, TLC

CONSTANTS
  Addrs,        \* ordinary owner addresses (strings); "F","M" are the Foundation primary / failsafe, "V" the void address
  MatDelay,     \* Network.MaturityDelay
  AllowH,       \* HardforkV2.AllowHeight
  RequireH,     \* HardforkV2.RequireHeight
  EphH,         \* HardforkV2.EphemeralOutputHeight
  FoundH,       \* HardforkFoundation.Height (the one-off subsidy is paid in that block; monthly ones are beyond every bound used)
  DevH,         \* HardforkDevAddr.Height: from there on a v1 siafund output held by the old developer address "D" may be
                \* spent with the unlock conditions of the new developer address (key "N") - auth = "dev"
  DevLock,      \* the time lock of those unlock conditions (they are ordinary unlock conditions: nothing spends before it)
  Reward,       \* constant coinbase (InitialCoinbase = MinimumCoinbase)
  MaxHeight,    \* bound on the tip height
  MaxTxns,      \* bound on transactions per block
  MaxReverts,   \* bound on Revert steps in one behaviour
  GenSC,        \* genesis siacoin outputs:  sequence of [val, addr]
  GenSF,        \* genesis siafund outputs:  sequence of [val, addr]   (values sum to SFCount)
  Templates,    \* set of enabled template names
  Defects       \* set of enabled defect kinds

SFCount == 10000

\* ---- identifier kinds -------------------------------------------------------
SCO == 1      \* siacoin output      <<SCO, b, t, i, 0>>
SFO == 2      \* siafund output      <<SFO, b, t, i, 0>>
FC1 == 3      \* v1 contract         <<FC1, b, t, i, 0>>
FC2 == 4      \* v2 contract         <<FC2, b, t, i, g>>   g = number of renewals since formation at (b,t,i)
CLAIM == 5    \* claim output of siafund output (b,t,i)
VALID == 6    \* valid proof output j of v1 contract (b,t,i)
MISSED == 7   \* missed proof output j of v1 contract (b,t,i)
RENTER == 8   \* renter output of v2 contract (b,t,i,g)
HOST == 9     \* host output of v2 contract (b,t,i,g)
MINER == 10   \* miner payout <<MINER, b, 0, 0, 0>>
FOUND == 11   \* Foundation subsidy <<FOUND, b, 0, 0, 0>>

Id(k, b, t, i, j) == <<k, b, t, i, j>>
Derive(k, id) == <<k, id[2], id[3], id[4], id[5]>>
DeriveJ(k, id, j) == <<k, id[2], id[3], id[4], j>>

\* ---- small helpers ----------------------------------------------------------
RECURSIVE SumVals(_)
SumVals(s) == IF s = <<>> THEN 0 ELSE Head(s).val + SumVals(Tail(s))
RECURSIVE SumF(_, _)
SumF(f, S) == IF S = {} THEN 0 ELSE LET x == CHOOSE y \in S : TRUE IN f[x] + SumF(f, S \ {x})
Range(s) == {s[i] : i \in DOMAIN s}
NoDup(s) == \A i, j \in DOMAIN s : i # j => s[i] # s[j]
Restrict(f, S) == [x \in S |-> f[x]]
f ++ g == [x \in (DOMAIN f) \cup (DOMAIN g) |-> IF x \in DOMAIN g THEN g[x] ELSE f[x]]
NULL == [null |-> TRUE]

\* ---- taxes --------------------------------------------------------------------
Tax2(r, h) == (r + h) \div 25
\* post-tax-fork v1 rule: 3.9 %, rounded down to a multiple of the siafund count
Tax1(pay) == LET x == (pay * 39) \div 1000 IN x - (x % SFCount)
Claim(poolNow, start, val) == ((poolNow - start) \div SFCount) * val

\* ---- contracts ----------------------------------------------------------------
\* v1: [pay, vo, mo, ws, we, rn, size, owner]   vo/mo sequences of [val, addr]
\* v2: [r, h, ra, ha, mh, coll, ph, eh, rn, cap, size, rk, hk]
Locked1(c) == SumVals(c.vo)
Locked2(c) == c.r + c.h

VARIABLES
  height,     \* tip height
  sc,         \* unspent siacoin elements   id -> [val, addr, mat]
  sf,         \* unspent siafund elements   id -> [val, addr, cs]     cs = claim start
  c1,         \* unresolved v1 contracts    id -> contract
  c2,         \* unresolved v2 contracts    id -> contract
  pool,       \* State.SiafundTaxRevenue
  fnd,        \* [p, m] Foundation subsidy / management address
  natt,       \* State.Attestations: number of attestations so far
  undo,       \* stack of committed states (for Revert)
  minted, claimed, forfeited,   \* history: subsidies so far, claims paid, value forfeited by v2 expirations
  spentBag,   \* history: id -> number of times spent/resolved in the accepted history (branch-local)
  gone,       \* ids spent or resolved in an earlier block of the current branch (material for cross-block reuse defects)
  ms,         \* MidState while a block is being validated, or NULL
  nrev,       \* Revert steps so far
  hist        \* generation only: the behaviour as a sequence of steps (never part of a VIEW)

committed == <<height, sc, sf, c1, c2, pool, fnd, natt, minted, claimed, forfeited, spentBag, gone>>
vars == <<height, sc, sf, c1, c2, pool, fnd, natt, undo, minted, claimed, forfeited, spentBag, gone, ms, nrev, hist>>
child == height + 1

Snapshot == [height |-> height, sc |-> sc, sf |-> sf, c1 |-> c1, c2 |-> c2, pool |-> pool, fnd |-> fnd, natt |-> natt,
             minted |-> minted, claimed |-> claimed, forfeited |-> forfeited, spentBag |-> spentBag, gone |-> gone]

\* ---- MidState -------------------------------------------------------------------
\* sc/sf/c1/c2 are the merged views (committed elements overlaid with the block's creations and revisions);
\* spends = MidState.spends; created = ids created in this block (ephemeral: not in the accumulator);
\* rev2 = v2 contracts revised in this block; base1 = pre-block version of v1 contracts touched in this block.
FreshMS == [sc |-> sc, sf |-> sf, c1 |-> c1, c2 |-> c2, spends |-> {}, created |-> {}, rev2 |-> {},
            pool |-> pool, fnd |-> fnd, att |-> 0, fees |-> 0, forfeit |-> 0, claimed |-> 0, ntx |-> 0, nv2 |-> 0,
            bad |-> FALSE, txs |-> <<>>, focus |-> "any"]

\* ---- generic transaction --------------------------------------------------------
\* sci: <<[id, auth]>>   sco: <<[val, addr]>>   sfi: <<[id, claim, auth]>>   sfo: <<[val, addr]>>
\* fee: Nat  (v1: one MinerFees entry when > 0)
\* fc: <<contract>>   rev: <<[cid, c, auth]>>
\* res: <<[cid, kind, pf, ren]>>  kind \in {"proof","expire","renew"}; pf = proof quality; ren = renewal record or NoRen
\* fnd: "" | new Foundation address        att: number of attestations (v2), aauth: their signature quality
\* tag: template / defect name
NoRen == [fr |-> 0, fh |-> 0, rr |-> 0, hr |-> 0, nc |-> NULL, auth |-> "ok"]
EmptyTx(ver) == [ver |-> ver, sci |-> <<>>, sco |-> <<>>, sfi |-> <<>>, sfo |-> <<>>, fee |-> 0,
                 fc |-> <<>>, rev |-> <<>>, res |-> <<>>, fnd |-> "", fauth |-> "ok", att |-> 0, aauth |-> "ok", tag |-> "",
                 slack |-> -1,   \* distance (in blocks) from the height at which the transaction's timing rule flips; -1: none
                 big |-> ""]     \* "sf" / "sc": the first two siafund (siacoin) outputs are each 2^63 SF (2^127 H) larger than
                                 \* stated - values TLC's integers cannot hold. The sums of such a transaction differ from the
                                 \* stated ones by 2^64 (2^128): it balances only in arithmetic modulo the machine word.

AuthOK(a) == a = "ok"

-----------------------------------------------------------------------------
(* ------------------------- v1 validation (ValidateTransaction) ------------------------- *)
\* the honest store supplies a parent iff it is unspent / unresolved in the committed state
Has1SC(m, id) == id \in DOMAIN m.sc /\ (id \in m.created \/ id \in DOMAIN sc)
Has1SF(m, id) == id \in DOMAIN m.sf /\ (id \in m.created \/ id \in DOMAIN sf)
Has1FC(m, id) == id \in DOMAIN m.c1 /\ (id \in m.created \/ id \in DOMAIN c1)

V1_Era(m, t)      == child < RequireH
V1_MinValues(m, t) == /\ \A i \in DOMAIN t.sco : t.sco[i].val > 0
                      /\ \A i \in DOMAIN t.sfo : t.sfo[i].val > 0
                      /\ \A i \in DOMAIN t.fc : t.fc[i].pay > 0
V1_Siacoins(m, t) ==
  /\ \A i \in DOMAIN t.sci : LET id == t.sci[i].id IN
        /\ id \notin m.spends
        /\ Has1SC(m, id)
        /\ AuthOK(t.sci[i].auth)                    \* unlock conditions hash to the parent's address, signatures valid
        /\ m.sc[id].mat <= child
  /\ SumF([i \in DOMAIN t.sci |-> IF t.sci[i].id \in DOMAIN m.sc THEN m.sc[t.sci[i].id].val ELSE 0], DOMAIN t.sci)
       = SumVals(t.sco) + SumF([i \in DOMAIN t.fc |-> t.fc[i].pay], DOMAIN t.fc) + t.fee
V1_Siafunds(m, t) ==
  /\ \A i \in DOMAIN t.sfi : LET id == t.sfi[i].id IN
        /\ id \notin m.spends
        /\ Has1SF(m, id)
        /\ \/ AuthOK(t.sfi[i].auth)
           \/ /\ t.sfi[i].auth = "dev"          \* the developer-address override: only for outputs of the old address, only from
              /\ m.sf[id].addr = "D"            \* the fork height on, and only once the new conditions' own time lock has passed
              /\ child >= DevH /\ child >= DevLock
  /\ SumF([i \in DOMAIN t.sfi |-> IF t.sfi[i].id \in DOMAIN m.sf THEN m.sf[t.sfi[i].id].val ELSE 0], DOMAIN t.sfi)
       = SumVals(t.sfo)
V1_Formation(m, t) == \A i \in DOMAIN t.fc : LET c == t.fc[i] IN
  /\ c.ws >= child /\ c.we > c.ws
  /\ SumVals(c.vo) = SumVals(c.mo)
  /\ c.pay = SumVals(c.vo) + Tax1(c.pay)
V1_Revisions(m, t) == \A i \in DOMAIN t.rev : LET r == t.rev[i] IN
  /\ r.c.ws >= child /\ r.c.we > r.c.ws
  /\ r.cid \notin m.spends
  /\ Has1FC(m, r.cid)
  /\ LET p == m.c1[r.cid] IN
       /\ p.ws >= child                            \* window not yet open
       /\ r.c.rn > p.rn
       /\ AuthOK(r.auth)
       /\ SumVals(r.c.vo) = SumVals(p.vo) /\ SumVals(r.c.mo) = SumVals(p.mo)
V1_Proofs(m, t) ==
  /\ (t.res # <<>> => t.sco = <<>> /\ t.sfo = <<>> /\ t.fc = <<>> /\ t.rev = <<>>)
  /\ NoDup([i \in DOMAIN t.res |-> t.res[i].cid])
  /\ \A i \in DOMAIN t.res : LET r == t.res[i] IN
        /\ r.kind = "proof"
        /\ r.cid \notin m.spends
        /\ Has1FC(m, r.cid)
        /\ m.c1[r.cid].ws <= child                \* the block at height WindowStart-1 exists (honest store)
        /\ (m.c1[r.cid].size = 0 \/ r.pf = "ok")  \* size 0 needs no proof
V1_Foundation(m, t) ==
  (child >= FoundH /\ t.fnd # "") =>
     /\ t.fnd # "V"
     /\ \E i \in DOMAIN t.sci : /\ t.sci[i].id \in DOMAIN m.sc
                                /\ m.sc[t.sci[i].id].addr \in {fnd.p, fnd.m}     \* the Foundation keys as of the parent state
                                /\ t.fauth = "ok"                 \* whole-transaction signature of that input
V1_NoDupParents(m, t) ==   \* validateSignatures: one sigMap entry per parent
  NoDup([i \in DOMAIN t.sci |-> t.sci[i].id] \o [i \in DOMAIN t.sfi |-> t.sfi[i].id] \o [i \in DOMAIN t.rev |-> t.rev[i].cid])
Valid1(m, t) == /\ V1_Era(m, t) /\ V1_MinValues(m, t) /\ V1_Siacoins(m, t) /\ V1_Siafunds(m, t)
                /\ V1_Formation(m, t) /\ V1_Revisions(m, t) /\ V1_Proofs(m, t) /\ V1_Foundation(m, t)
                /\ V1_NoDupParents(m, t)

(* ------------------------- v1 application (ApplyTransaction) ------------------------- *)
NewSC(b, t, s, mat) == [id \in {Id(SCO, b, t, i, 0) : i \in DOMAIN s} |-> [val |-> s[id[4]].val, addr |-> s[id[4]].addr, mat |-> mat]]
NewSF(b, t, s, cs)  == [id \in {Id(SFO, b, t, i, 0) : i \in DOMAIN s} |-> [val |-> s[id[4]].val, addr |-> s[id[4]].addr, cs |-> cs]]
Claims(m, t) == [id \in {Derive(CLAIM, t.sfi[i].id) : i \in DOMAIN t.sfi} |->
                   LET i == CHOOSE k \in DOMAIN t.sfi : Derive(CLAIM, t.sfi[k].id) = id
                       e == m.sf[t.sfi[i].id]
                   IN [val |-> Claim(m.pool, e.cs, e.val), addr |-> t.sfi[i].claim, mat |-> child + MatDelay]]
ClaimSum(m, t) == SumF([i \in DOMAIN t.sfi |-> Claim(m.pool, m.sf[t.sfi[i].id].cs, m.sf[t.sfi[i].id].val)], DOMAIN t.sfi)
\* siafund outputs are created after the inputs' claims: claim start is the pool *before* this transaction's contracts
PayoutOuts(k, cid, outs) == [id \in {DeriveJ(k, cid, j - 1) : j \in DOMAIN outs} |->
                               [val |-> outs[id[5] + 1].val, addr |-> outs[id[5] + 1].addr, mat |-> child + MatDelay]]
RECURSIVE ProofOuts1(_, _, _)
ProofOuts1(m, t, i) == IF i > Len(t.res) THEN <<>>
                       ELSE PayoutOuts(VALID, t.res[i].cid, m.c1[t.res[i].cid].vo) ++ ProofOuts1(m, t, i + 1)
Apply1(m, t) ==
  LET n   == m.ntx
      nfc == [id \in {Id(FC1, child, n, i, 0) : i \in DOMAIN t.fc} |-> t.fc[id[4]]]
      revd == [cid \in {t.rev[i].cid : i \in DOMAIN t.rev} |->
                 LET i == CHOOSE k \in DOMAIN t.rev : t.rev[k].cid = cid IN [t.rev[i].c EXCEPT !.pay = m.c1[cid].pay]]
      scNew == NewSC(child, n, t.sco, 0) ++ Claims(m, t) ++ ProofOuts1(m, t, 1)
      taxes == SumF([i \in DOMAIN t.fc |-> Tax1(t.fc[i].pay)], DOMAIN t.fc)
  IN [m EXCEPT
        !.sc = @ ++ scNew,
        !.sf = @ ++ NewSF(child, n, t.sfo, m.pool),
        !.c1 = (@ ++ revd) ++ nfc,
        !.spends = @ \cup {t.sci[i].id : i \in DOMAIN t.sci} \cup {t.sfi[i].id : i \in DOMAIN t.sfi} \cup {t.res[i].cid : i \in DOMAIN t.res},
        !.created = @ \cup DOMAIN scNew \cup {Id(SFO, child, n, i, 0) : i \in DOMAIN t.sfo} \cup DOMAIN nfc,
        !.pool = @ + taxes,
        !.claimed = @ + ClaimSum(m, t),
        !.fees = @ + t.fee,
        !.fnd = IF height >= FoundH /\ t.fnd # "" THEN [p |-> t.fnd, m |-> t.fnd] ELSE @,
        !.ntx = @ + 1,
        !.txs = Append(@, t)]

-----------------------------------------------------------------------------
(* ------------------------- v2 validation (ValidateV2Transaction) ------------------------- *)
\* a parent is acceptable if it is in the accumulator unspent (committed and live) or, for siacoin outputs,
\* ephemeral (created in this block)
InAcc(committedF, id) == id \in DOMAIN committedF
V2_Era(m, t) == child >= AllowH
V2_NonEmpty(m, t) == t.sci # <<>> \/ t.sco # <<>> \/ t.sfi # <<>> \/ t.sfo # <<>> \/ t.fc # <<>> \/ t.rev # <<>> \/ t.res # <<>> \/ t.fnd # "" \/ t.att > 0
V2_Attestations(m, t) == t.att > 0 => AuthOK(t.aauth)        \* every attestation is signed by its key
RenewIn(t)  == SumF([i \in DOMAIN t.res |-> IF t.res[i].kind = "renew" THEN t.res[i].ren.rr + t.res[i].ren.hr ELSE 0], DOMAIN t.res)
RenewOut(t) == SumF([i \in DOMAIN t.res |-> IF t.res[i].kind = "renew" THEN LET nc == t.res[i].ren.nc IN nc.r + nc.h + Tax2(nc.r, nc.h) ELSE 0], DOMAIN t.res)
V2_Siacoins(m, t) ==
  /\ NoDup([i \in DOMAIN t.sci |-> t.sci[i].id])
  /\ \A i \in DOMAIN t.sci : LET id == t.sci[i].id IN
        /\ id \notin m.spends
        /\ id \in DOMAIN m.sc
        /\ (id \in m.created \/ InAcc(sc, id))
        /\ m.sc[id].mat <= child
        /\ AuthOK(t.sci[i].auth)
  /\ \A i \in DOMAIN t.sco : t.sco[i].val > 0
  /\ SumF([i \in DOMAIN t.sci |-> IF t.sci[i].id \in DOMAIN m.sc THEN m.sc[t.sci[i].id].val ELSE 0], DOMAIN t.sci) + RenewIn(t)
       = SumVals(t.sco) + SumF([i \in DOMAIN t.fc |-> t.fc[i].r + t.fc[i].h + Tax2(t.fc[i].r, t.fc[i].h)], DOMAIN t.fc) + RenewOut(t) + t.fee
V2_Siafunds(m, t) ==
  /\ NoDup([i \in DOMAIN t.sfi |-> t.sfi[i].id])
  /\ \A i \in DOMAIN t.sfi : LET id == t.sfi[i].id IN
        /\ id \notin m.spends
        /\ id \in DOMAIN m.sf
        /\ (IF id \in m.created THEN child < EphH ELSE InAcc(sf, id))    \* ephemeral siafund parents only below the fix height
        /\ AuthOK(t.sfi[i].auth)
  /\ \A i \in DOMAIN t.sfo : t.sfo[i].val > 0
  /\ SumF([i \in DOMAIN t.sfi |-> IF t.sfi[i].id \in DOMAIN m.sf THEN m.sf[t.sfi[i].id].val ELSE 0], DOMAIN t.sfi) = SumVals(t.sfo)
ContractOK2(c) ==
  /\ c.size <= c.cap
  /\ c.ph >= child
  /\ c.eh > c.ph
  /\ ~(c.r = 0 /\ c.h = 0)
  /\ c.mh <= c.h
  /\ c.coll <= c.h
ParentOK2(m, t, cid, before) ==      \* validateParent; before = ids revised/resolved earlier in this transaction
  /\ cid \notin m.spends
  /\ cid \notin before
  /\ cid \in DOMAIN c2                 \* unresolved in the accumulator: created-in-block contracts are not
V2_Formation(m, t) == \A i \in DOMAIN t.fc : ContractOK2(t.fc[i]) /\ AuthOK(t.fc[i].auth)
V2_Revisions(m, t) == \A i \in DOMAIN t.rev : LET r == t.rev[i] IN
  /\ ParentOK2(m, t, r.cid, {t.rev[k].cid : k \in 1..(i - 1)})
  /\ c2[r.cid].ph >= child                       \* the parent as committed
  /\ LET cur == m.c2[r.cid] IN                   \* the contract as it stands after earlier revisions in this block
       /\ r.c.cap >= cur.cap
       /\ r.c.size <= r.c.cap
       /\ cur.ph >= child
       /\ r.c.rn > cur.rn
       /\ r.c.r + r.c.h = cur.r + cur.h
       /\ r.c.mh <= cur.mh
       /\ (child >= EphH => r.c.mh <= r.c.h)
       /\ r.c.coll = cur.coll
       /\ r.c.ph >= child
       /\ r.c.eh > r.c.ph
       /\ AuthOK(r.auth)                           \* signed by the keys of the contract as it currently stands
V2_Resolutions(m, t) == \A i \in DOMAIN t.res : LET r == t.res[i] IN
  /\ ParentOK2(m, t, r.cid, {t.rev[k].cid : k \in DOMAIN t.rev} \cup {t.res[k].cid : k \in 1..(i - 1)})
  /\ LET c == m.c2[r.cid] IN     \* the contract as it stands after earlier revisions in this block (its current keys)
       CASE r.kind = "renew" ->
              /\ r.ren.fr + r.ren.rr + r.ren.fh + r.ren.hr = c.r + c.h
              /\ r.ren.rr + r.ren.hr <= r.ren.nc.r + r.ren.nc.h + Tax2(r.ren.nc.r, r.ren.nc.h)
              /\ ContractOK2(r.ren.nc) /\ AuthOK(r.ren.nc.auth)
              /\ r.ren.nc.rk = c.rk /\ r.ren.nc.hk = c.hk
              /\ AuthOK(r.ren.auth)
         [] r.kind = "proof"  -> child >= c.ph + 1 /\ (c.size = 0 \/ r.pf = "ok")   \* the block at ProofHeight must be an ancestor; an empty file has no leaf to prove
         [] r.kind = "expire" -> child > c.eh
V2_Foundation(m, t) ==
  \* (authority is judged against the parent state: a second update in the same block is still authorised by the keys
  \*  the block started with)
  t.fnd # "" => \E i \in DOMAIN t.sci : t.sci[i].id \in DOMAIN m.sc /\ m.sc[t.sci[i].id].addr = fnd.m
Valid2(m, t) == /\ V2_Era(m, t) /\ V2_NonEmpty(m, t) /\ V2_Siacoins(m, t) /\ V2_Siafunds(m, t)
                /\ V2_Formation(m, t) /\ V2_Revisions(m, t) /\ V2_Resolutions(m, t) /\ V2_Foundation(m, t)
                /\ V2_Attestations(m, t)

(* ------------------------- v2 application (ApplyV2Transaction) ------------------------- *)
Claims2(m, t) == Claims(m, t)
RECURSIVE ResOuts2(_, _, _)
ResOuts2(m, t, i) ==
  IF i > Len(t.res) THEN <<>>
  ELSE LET r == t.res[i]  c == m.c2[r.cid]
           rv == IF r.kind = "renew" THEN r.ren.fr ELSE c.r
           hv == IF r.kind = "renew" THEN r.ren.fh ELSE IF r.kind = "expire" THEN c.mh ELSE c.h
       IN (Derive(RENTER, r.cid) :> [val |-> rv, addr |-> c.ra, mat |-> child + MatDelay])
          ++ (Derive(HOST, r.cid) :> [val |-> hv, addr |-> c.ha, mat |-> child + MatDelay])
          ++ ResOuts2(m, t, i + 1)
Apply2(m, t) ==
  LET n    == m.ntx
      nfc  == [id \in {Id(FC2, child, n, i, 0) : i \in DOMAIN t.fc} |-> t.fc[id[4]]]
      renw == [id \in {<<FC2, t.res[i].cid[2], t.res[i].cid[3], t.res[i].cid[4], t.res[i].cid[5] + 1>> : i \in {k \in DOMAIN t.res : t.res[k].kind = "renew"}} |->
                 LET i == CHOOSE k \in DOMAIN t.res : t.res[k].kind = "renew" /\ t.res[k].cid[2] = id[2] /\ t.res[k].cid[3] = id[3] /\ t.res[k].cid[4] = id[4] /\ t.res[k].cid[5] + 1 = id[5]
                 IN t.res[i].ren.nc]
      revd == [cid \in {t.rev[i].cid : i \in DOMAIN t.rev} |-> LET i == CHOOSE k \in DOMAIN t.rev : t.rev[k].cid = cid IN t.rev[i].c]
      scNew == NewSC(child, n, t.sco, 0) ++ Claims2(m, t) ++ ResOuts2(m, t, 1)
      taxes == SumF([i \in DOMAIN t.fc |-> Tax2(t.fc[i].r, t.fc[i].h)], DOMAIN t.fc)
               + SumF([i \in DOMAIN t.res |-> IF t.res[i].kind = "renew" THEN Tax2(t.res[i].ren.nc.r, t.res[i].ren.nc.h) ELSE 0], DOMAIN t.res)
      forf  == SumF([i \in DOMAIN t.res |-> IF t.res[i].kind = "expire" THEN m.c2[t.res[i].cid].h - m.c2[t.res[i].cid].mh ELSE 0], DOMAIN t.res)
  IN [m EXCEPT
        !.sc = @ ++ scNew,
        !.sf = @ ++ NewSF(child, n, t.sfo, m.pool),
        !.c2 = ((@ ++ revd) ++ nfc) ++ renw,
        !.spends = @ \cup {t.sci[i].id : i \in DOMAIN t.sci} \cup {t.sfi[i].id : i \in DOMAIN t.sfi} \cup {t.res[i].cid : i \in DOMAIN t.res},
        !.created = @ \cup DOMAIN scNew \cup {Id(SFO, child, n, i, 0) : i \in DOMAIN t.sfo} \cup DOMAIN nfc \cup DOMAIN renw,
        !.rev2 = @ \cup DOMAIN revd,
        !.pool = @ + taxes,
        !.claimed = @ + ClaimSum(m, t),
        !.forfeit = @ + forf,
        !.fees = @ + t.fee,
        !.fnd = IF t.fnd = "" THEN @ ELSE [p |-> t.fnd, m |-> IF t.fnd = "V" THEN @.m ELSE t.fnd],
        !.att = @ + t.att,
        !.ntx = @ + 1, !.nv2 = @ + 1,
        !.txs = Append(@, t)]

ValidTx(m, t) == t.big = "" /\ IF t.ver = 1 THEN m.nv2 = 0 /\ Valid1(m, t) ELSE Valid2(m, t)     \* v1 transactions precede v2 in a block
ApplyTx(m, t) == IF t.ver = 1 THEN Apply1(m, t) ELSE Apply2(m, t)

-----------------------------------------------------------------------------
(* ------------------------- templates: proposals of transactions ------------------------- *)
CONSTANTS PayAmts, Fees, Pay1, Sizes, FormRH, RevShifts, SFSplits,
          WinStarts, WinLens,   \* formation menus: window start / proof height offsets from the child height, and window lengths
          HistPost,   \* generation: record the committed state after every step in hist (FALSE keeps exhaustive enumerations small)
          StopAfterReject,   \* generation aid (exhaustive enumeration): a behaviour ends with its first rejected block
          Focus      \* generation aid: TRUE = every block draws one template family (keeps random simulation from being
                     \* drowned by the many payment variants); FALSE = all enabled templates in every block

Owners == Addrs
\* (the Foundation subsidy is opaque in the bounded model - its real value is 30000 SC per block of the period - and is never spent)
SpendableSC(m) == {id \in DOMAIN m.sc : id \notin m.spends /\ m.sc[id].mat <= child /\ m.sc[id].addr \in Owners \cup {"F", "M"} /\ id[1] # FOUND}
LiveSF(m) == {id \in DOMAIN m.sf : id \notin m.spends}
In(id) == [id |-> id, auth |-> "ok"]
Out(v, a) == [val |-> v, addr |-> a]
Vers == {v \in {1, 2} : (v = 1 /\ child < RequireH) \/ (v = 2 /\ child >= AllowH)}

PayTx(m, v, id, a, f, x) ==
  [EmptyTx(v) EXCEPT !.sci = <<In(id)>>, !.fee = f, !.tag = "pay", !.slack = child - m.sc[id].mat,
     !.sco = IF m.sc[id].val - a - f > 0 THEN <<Out(a, x), Out(m.sc[id].val - a - f, m.sc[id].addr)>> ELSE <<Out(a, x)>>]
T_Pay(m) == IF "pay" \notin Templates THEN {} ELSE
  {PayTx(m, q[1], q[2], q[3], q[4], q[5]) :
     q \in {y \in Vers \X SpendableSC(m) \X PayAmts \X Fees \X Addrs : y[3] + y[4] <= m.sc[y[2]].val}}
T_Pay2(m) == IF "pay2" \notin Templates THEN {} ELSE
  {[EmptyTx(q[1]) EXCEPT !.sci = <<In(q[2]), In(q[3])>>, !.sco = <<Out(m.sc[q[2]].val + m.sc[q[3]].val, m.sc[q[2]].addr)>>, !.tag = "pay2"] :
     q \in {y \in Vers \X SpendableSC(m) \X SpendableSC(m) : y[2] # y[3]}}
SFTx(m, v, id, s, x) ==
  [EmptyTx(v) EXCEPT !.sfi = <<[id |-> id, claim |-> m.sf[id].addr, auth |-> "ok"]>>, !.tag = "sf",
     !.sfo = IF s < m.sf[id].val THEN <<Out(s, x), Out(m.sf[id].val - s, m.sf[id].addr)>> ELSE <<Out(m.sf[id].val, x)>>]
T_SF(m) == IF "sf" \notin Templates THEN {} ELSE
  {SFTx(m, q[1], q[2], q[3], q[4]) : q \in Vers \X LiveSF(m) \X SFSplits \X Addrs}
  \* the same through the developer-address override (v1 only, whatever the height: Txn keeps the valid ones)
  \cup {[SFTx(m, 1, q[1], q[2], q[3]) EXCEPT !.sfi[1].auth = "dev", !.tag = "sfdev"] :
          q \in {y \in LiveSF(m) \X SFSplits \X Addrs : 1 \in Vers /\ m.sf[y[1]].addr = "D"}}
\* v1 formation: payout P funded by one input; valid = (renter, host), missed = (renter, host-burn, burn to the void)
C1(P, a, ws, we, size) == LET vs == P - Tax1(P) rs == vs \div 2 hs == vs - rs burn == hs \div 3 IN
  [pay |-> P, vo |-> <<Out(rs, a), Out(hs, "B")>>, mo |-> <<Out(rs, a), Out(hs - burn, "B"), Out(burn, "V")>>,
   ws |-> ws, we |-> we, rn |-> 0, size |-> size, owner |-> a]
Form1Tx(m, id, P, dw, de, size) ==
  [EmptyTx(1) EXCEPT !.sci = <<In(id)>>, !.fc = <<C1(P, m.sc[id].addr, child + dw, child + dw + de, size)>>, !.tag = "form1", !.slack = dw,
     !.sco = IF m.sc[id].val - P > 0 THEN <<Out(m.sc[id].val - P, m.sc[id].addr)>> ELSE <<>>]
T_Form1(m) == IF "form1" \notin Templates \/ 1 \notin Vers THEN {} ELSE
  {Form1Tx(m, q[1], q[2], q[3], q[4], q[5]) :
     q \in {y \in SpendableSC(m) \X Pay1 \X WinStarts \X WinLens \X Sizes : y[2] <= m.sc[y[1]].val}}
Live1(m) == {cid \in DOMAIN m.c1 : cid \notin m.spends}
Rev1(c, d, dw) == [c EXCEPT !.rn = @ + 1, !.ws = @ + dw, !.we = @ + dw,
                     !.vo = <<Out(c.vo[1].val - d, c.vo[1].addr), Out(c.vo[2].val + d, c.vo[2].addr)>>,
                     !.mo = <<Out(c.mo[1].val - d, c.mo[1].addr), Out(c.mo[2].val + d, c.mo[2].addr), c.mo[3]>>]
\* the largest revision number ("final revision" by convention): TLC's largest integer stands for 2^64-1 (the harness maps
\* MaxRN and MaxRN-1 to 2^64-1 and 2^64-2); nothing can follow it
MaxRN == 2147483647
T_Rev1(m) == IF "rev1" \notin Templates \/ 1 \notin Vers THEN {} ELSE
  {[EmptyTx(1) EXCEPT !.rev = <<[cid |-> q[1], c |-> Rev1(m.c1[q[1]], q[2], q[3]), auth |-> "ok"]>>, !.tag = "rev1", !.slack = m.c1[q[1]].ws - child] :
     q \in {y \in Live1(m) \X RevShifts \X {0, 2} : y[2] <= m.c1[y[1]].vo[1].val /\ m.c1[y[1]].rn < MaxRN - 1}}
  \cup (IF "finalrn" \notin Defects THEN {} ELSE
        {[EmptyTx(1) EXCEPT !.rev = <<[cid |-> q[1], c |-> [Rev1(m.c1[q[1]], q[2], 0) EXCEPT !.rn = MaxRN], auth |-> "ok"]>>, !.tag = "rev1final", !.slack = m.c1[q[1]].ws - child] :
           q \in {y \in Live1(m) \X RevShifts : y[2] <= m.c1[y[1]].vo[1].val /\ m.c1[y[1]].rn < MaxRN - 1}})
T_Prove1(m) == IF "prove1" \notin Templates \/ 1 \notin Vers THEN {} ELSE
  {[EmptyTx(1) EXCEPT !.res = <<[cid |-> cid, kind |-> "proof", pf |-> "ok", ren |-> NoRen]>>, !.tag = "prove1", !.slack = child - m.c1[cid].ws] :
     cid \in {x \in Live1(m) : m.c1[x].ws <= child}}
\* v2 formation
C2(r, h, a, ph, eh) == [r |-> r, h |-> h, ra |-> a, ha |-> "B", mh |-> h - (h \div 4), coll |-> h \div 2, ph |-> ph, eh |-> eh,
                        \* (an empty file is a special case of several resolution rules: contracts with an even proof height are
                        \*  empty in configurations whose size menu contains 0)
                        rn |-> 0, cap |-> 128, size |-> IF 0 \in Sizes /\ ph % 2 = 0 THEN 0 ELSE 64, rk |-> "R", hk |-> "H", auth |-> "ok"]
Cost2(rh) == rh[1] + rh[2] + Tax2(rh[1], rh[2])
Form2Tx(m, id, rh, dp, de) ==
  [EmptyTx(2) EXCEPT !.sci = <<In(id)>>, !.fc = <<C2(rh[1], rh[2], m.sc[id].addr, child + dp, child + dp + de)>>, !.tag = "form2", !.slack = dp,
     !.sco = IF m.sc[id].val - Cost2(rh) > 0 THEN <<Out(m.sc[id].val - Cost2(rh), m.sc[id].addr)>> ELSE <<>>]
T_Form2(m) == IF "form2" \notin Templates \/ 2 \notin Vers THEN {} ELSE
  {Form2Tx(m, q[1], q[2], q[3], q[4]) :
     q \in {y \in SpendableSC(m) \X FormRH \X WinStarts \X WinLens : Cost2(y[2]) <= m.sc[y[1]].val}}
Live2(m) == {cid \in DOMAIN m.c2 : cid \notin m.spends /\ cid \in DOMAIN c2}
Rev2(c, d, dp) == [c EXCEPT !.rn = @ + 1, !.r = @ - d, !.h = @ + d, !.mh = IF @ > d THEN @ - d ELSE 0, !.ph = @ + dp, !.eh = @ + dp]
T_Rev2(m) == IF "rev2" \notin Templates \/ 2 \notin Vers THEN {} ELSE
  {[EmptyTx(2) EXCEPT !.rev = <<[cid |-> q[1], c |-> Rev2(m.c2[q[1]], q[2], q[3]), auth |-> "ok"]>>, !.tag = "rev2", !.slack = m.c2[q[1]].ph - child] :
     q \in {y \in Live2(m) \X RevShifts \X {0, 1} : y[2] <= m.c2[y[1]].r}}
T_Res2(m) == IF "res2" \notin Templates \/ 2 \notin Vers THEN {} ELSE
  {[EmptyTx(2) EXCEPT !.res = <<[cid |-> q[1], kind |-> q[2], pf |-> "ok", ren |-> NoRen]>>, !.tag = q[2],
                       !.slack = IF q[2] = "proof" THEN child - (m.c2[q[1]].ph + 1) ELSE child - (m.c2[q[1]].eh + 1)] :
     q \in Live2(m) \X {"proof", "expire"}}   \* (an empty file with the zero root is "proved" by any leaf and an empty proof)
\* renewal: roll a quarter of each side over, fund the rest of the new contract from one input
RenewTx(m, cid, id, nr) ==
  LET c == m.c2[cid]  rr == c.r \div 4  hr == c.h \div 4
      nc == C2(nr, c.h, c.ra, child + 1, child + 3)
      need == nc.r + nc.h + Tax2(nc.r, nc.h) - rr - hr
  IN [EmptyTx(2) EXCEPT !.sci = <<In(id)>>, !.tag = "renew",
        !.res = <<[cid |-> cid, kind |-> "renew", pf |-> "ok",
                   ren |-> [fr |-> c.r - rr, fh |-> c.h - hr, rr |-> rr, hr |-> hr, nc |-> nc, auth |-> "ok"]]>>,
        !.sco = IF m.sc[id].val - need > 0 THEN <<Out(m.sc[id].val - need, m.sc[id].addr)>> ELSE <<>>]
T_Renew2(m) == IF "renew2" \notin Templates \/ 2 \notin Vers THEN {} ELSE
  {RenewTx(m, q[1], q[2], q[3]) : q \in Live2(m) \X SpendableSC(m) \X {y[1] : y \in FormRH}}
T_Fnd(m) == IF "fnd" \notin Templates THEN {} ELSE
  {[EmptyTx(q[1]) EXCEPT !.sci = <<In(q[2])>>, !.sco = <<Out(m.sc[q[2]].val, m.sc[q[2]].addr)>>, !.fnd = q[3], !.tag = "fnd"] :
     q \in {y \in Vers \X {z \in SpendableSC(m) : m.sc[z].addr \in {"F", "M"}} \X {"F", "M", "V"} : y[3] # "V" \/ y[1] = 2}}   \* (a v2 update to the void address waives the subsidy)

On(m, k, S) == IF m.focus = "any" \/ m.focus = k THEN S ELSE {}
T_Attest(m) == IF "attest" \notin Templates \/ 2 \notin Vers THEN {} ELSE
  {[EmptyTx(2) EXCEPT !.sci = <<In(id)>>, !.sco = <<Out(m.sc[id].val, m.sc[id].addr)>>, !.att = 1, !.tag = "attest"] : id \in SpendableSC(m)}
  \cup {[EmptyTx(2) EXCEPT !.att = 2, !.tag = "attest"]}      \* a transaction of attestations only
Cand(m) == On(m, "attest", T_Attest(m)) \cup On(m, "pay", T_Pay(m)) \cup On(m, "pay2", T_Pay2(m)) \cup On(m, "sf", T_SF(m)) \cup On(m, "form1", T_Form1(m))
           \cup On(m, "rev1", T_Rev1(m)) \cup On(m, "prove1", T_Prove1(m)) \cup On(m, "form2", T_Form2(m)) \cup On(m, "rev2", T_Rev2(m))
           \cup On(m, "res2", T_Res2(m)) \cup On(m, "renew2", T_Renew2(m)) \cup On(m, "fnd", T_Fnd(m))

(* ------------------------- defects: single-point mutations and second uses ------------------------- *)
Tag(t, d) == [t EXCEPT !.tag = t.tag \o "!" \o d]
\* a different transaction with the same parents (one hasting moved from the first output to the fee)
Vary(t) == IF t.sco # <<>> /\ t.sco[1].val > 1 THEN [t EXCEPT !.sco[1].val = @ - 1, !.fee = @ + 1] ELSE t
Mut(m, t) ==
     (IF "unbalanced" \in Defects /\ t.sco # <<>> THEN {Tag([t EXCEPT !.sco[1].val = @ + 1], "plus1"), Tag([t EXCEPT !.fee = @ + 1], "fee1")} ELSE {})
\cup (IF "unbalanced" \in Defects /\ t.sco # <<>> /\ t.sco[1].val > 1 THEN {Tag([t EXCEPT !.sco[1].val = @ - 1], "minus1")} ELSE {})
\cup (IF "wrap" \in Defects /\ t.sfo # <<>> THEN {Tag([t EXCEPT !.big = "sf"], "sfwrap")} ELSE {})
\cup (IF "wrap" \in Defects /\ t.sco # <<>> /\ t.sci # <<>> THEN {Tag([t EXCEPT !.big = "sc"], "scwrap")} ELSE {})
\cup (IF "zero" \in Defects /\ t.sco # <<>> /\ t.sci # <<>> THEN {Tag([t EXCEPT !.sco = Append(@, Out(0, "A"))], "zero")} ELSE {})
\cup (IF "auth" \in Defects /\ t.sci # <<>> THEN {Tag([t EXCEPT !.sci[1].auth = a], a) : a \in {"badsig", "nosig", "wrongkey"}} ELSE {})
\cup (IF "auth" \in Defects /\ t.att > 0 THEN {Tag([t EXCEPT !.aauth = "badsig"], "badsig")} ELSE {})
\cup (IF "auth" \in Defects /\ t.sfi # <<>> THEN {Tag([t EXCEPT !.sfi[1].auth = "badsig"], "badsig")} ELSE {})
\cup (IF "auth" \in Defects /\ t.rev # <<>> THEN {Tag([t EXCEPT !.rev[1].auth = a], a) : a \in {"badsig", "newkeys"}} ELSE {})
\cup (IF "intx" \in Defects /\ t.sci # <<>> THEN {Tag([t EXCEPT !.sci = Append(@, @[1]), !.sco = Append(@, Out(m.sc[t.sci[1].id].val, "A"))], "intx")} ELSE {})
\cup (IF "intx" \in Defects /\ t.sfi # <<>> THEN {Tag([t EXCEPT !.sfi = Append(@, @[1]), !.sfo = Append(@, Out(m.sf[t.sfi[1].id].val, "A"))], "intx")} ELSE {})
\cup (IF "intx" \in Defects /\ t.rev # <<>> THEN {Tag([t EXCEPT !.rev = Append(@, [@[1] EXCEPT !.c.rn = @ + 1])], "intx")} ELSE {})
\cup (IF "intx" \in Defects /\ t.res # <<>> /\ t.ver = 2 /\ t.res[1].kind # "renew" THEN {Tag([t EXCEPT !.res = Append(@, @[1])], "intx")} ELSE {})
\cup (IF "intx" \in Defects /\ t.res # <<>> /\ t.ver = 1 THEN {Tag([t EXCEPT !.res = Append(@, @[1])], "intx")} ELSE {})   \* the same storage proof twice
\cup (IF "revision" \in Defects /\ t.rev # <<>> /\ t.ver = 2 THEN
        {Tag([t EXCEPT !.rev[1].c.h = @ + 1], "sum"), Tag([t EXCEPT !.rev[1].c.rn = m.c2[t.rev[1].cid].rn], "samern"),
         Tag([t EXCEPT !.rev[1].c.mh = m.c2[t.rev[1].cid].mh + 1, !.rev[1].c.h = @ + 0], "missedup"),
         Tag([t EXCEPT !.rev[1].c.coll = @ + 1], "coll"), Tag([t EXCEPT !.rev[1].c.cap = @ - 1], "capdown")}
        \* value moved from the host to the renter until the host's valid output is below its missed value (an expiry
        \* would then pay out more than is locked); only a defect from the fix height on
        \cup (IF t.rev[1].c.mh >= 1 /\ child >= EphH
              THEN {Tag([t EXCEPT !.rev[1].c.h = t.rev[1].c.mh - 1, !.rev[1].c.r = t.rev[1].c.r + t.rev[1].c.h - (t.rev[1].c.mh - 1)], "missedabovehost")}
              ELSE {}) ELSE {})
\cup (IF "revision" \in Defects /\ t.rev # <<>> /\ t.ver = 1 THEN
        {Tag([t EXCEPT !.rev[1].c.vo[2].val = @ + 1], "validsum"), Tag([t EXCEPT !.rev[1].c.mo[2].val = @ + 1], "missedsum"),
         Tag([t EXCEPT !.rev[1].c.rn = m.c1[t.rev[1].cid].rn], "samern")} ELSE {})
\cup (IF "proof" \in Defects /\ t.res # <<>> /\ t.res[1].kind = "proof" THEN {Tag([t EXCEPT !.res[1].pf = p], p) : p \in {"wrongleaf", "wrongdata", "short"}} ELSE {})
\* a v1 transaction with a storage proof may carry nothing else that changes a contract: the proof is checked against the
\* contract as it stood before the transaction, a revision in the same transaction would be paid out
\cup (IF "proof" \in Defects /\ t.res # <<>> /\ t.ver = 1 /\ t.rev = <<>> /\ t.res[1].cid \in DOMAIN m.c1 THEN
        (IF m.c1[t.res[1].cid].rn < MaxRN - 1 /\ m.c1[t.res[1].cid].vo[1].val > 0
         THEN {Tag([t EXCEPT !.rev = <<[cid |-> t.res[1].cid, c |-> Rev1(m.c1[t.res[1].cid], 1, 2), auth |-> "ok"]>>], "withrev")} ELSE {}) ELSE {})
\cup (IF "formation" \in Defects /\ t.fc # <<>> /\ t.ver = 2 THEN
        {Tag([t EXCEPT !.fc[1].ph = child - 1, !.fc[1].eh = child], "phpast"), Tag([t EXCEPT !.fc[1].eh = t.fc[1].ph], "nowindow"),
         Tag([t EXCEPT !.fc[1].mh = t.fc[1].h + 1], "missedhigh"), Tag([t EXCEPT !.fc[1].auth = "badsig"], "badsig"),
         \* a contract that commits nothing, formed by a transaction that spends nothing: it could be mined again unchanged,
         \* under the same transaction id and hence the same contract id
         Tag([t EXCEPT !.sci = <<>>, !.sco = <<>>, !.fee = 0, !.fc = <<[t.fc[1] EXCEPT !.r = 0, !.h = 0, !.mh = 0, !.coll = 0]>>], "zeroval")} ELSE {})
\cup (IF "formation" \in Defects /\ t.fc # <<>> /\ t.ver = 1 THEN
        {Tag([t EXCEPT !.fc[1].ws = child - 1], "wspast"), Tag([t EXCEPT !.fc[1].we = t.fc[1].ws], "nowindow"),
         Tag([t EXCEPT !.fc[1].pay = @ + 10000, !.sco = IF @ # <<>> /\ @[1].val > 10000 THEN [@ EXCEPT ![1].val = @ - 10000] ELSE @], "tax")} ELSE {})

\* second uses: of something used earlier in this block (a variant of the transaction that used it), or in an earlier block
SpendAgain(m, id, e) ==    \* e = [k, val, addr]
  {[EmptyTx(v) EXCEPT !.sci = <<In(id)>>, !.sco = <<Out(e.val, e.addr)>>, !.tag = "reuse-gone"] : v \in (IF e.k = "sc" THEN Vers ELSE {})}
  \cup {[EmptyTx(v) EXCEPT !.sfi = <<[id |-> id, claim |-> e.addr, auth |-> "ok"]>>, !.sfo = <<Out(e.val, e.addr)>>, !.tag = "reuse-gone"] : v \in (IF e.k = "sf" THEN Vers ELSE {})}
  \cup (IF e.k = "c2" /\ 2 \in Vers THEN {[EmptyTx(2) EXCEPT !.res = <<[cid |-> id, kind |-> "expire", pf |-> "ok", ren |-> NoRen]>>, !.tag = "reuse-gone"]} ELSE {})
  \cup (IF e.k = "c1" /\ 1 \in Vers THEN {[EmptyTx(1) EXCEPT !.res = <<[cid |-> id, kind |-> "proof", pf |-> "ok", ren |-> NoRen]>>, !.tag = "reuse-gone"]} ELSE {})
\* the parents of an earlier transaction of the block used again: as a variant of that transaction (same version), or
\* as a plain transfer of the same inputs in the other transaction version
ReuseAs(m, t, v) ==
  IF v = t.ver \/ (t.sci = <<>> /\ t.sfi = <<>>) THEN Vary(t)
  ELSE [EmptyTx(v) EXCEPT !.sci = t.sci, !.sfi = t.sfi, !.tag = t.tag,
          !.sco = IF t.sci = <<>> THEN <<>> ELSE <<Out(SumF([i \in DOMAIN t.sci |-> m.sc[t.sci[i].id].val], DOMAIN t.sci), "A")>>,
          !.sfo = IF t.sfi = <<>> THEN <<>> ELSE <<Out(SumF([i \in DOMAIN t.sfi |-> m.sf[t.sfi[i].id].val], DOMAIN t.sfi), "A")>>]
BadCand(m) ==
     UNION {Mut(m, t) : t \in {u \in Cand(m) : ValidTx(m, u)}}
\cup (IF "reuse" \in Defects THEN {Tag(ReuseAs(m, m.txs[i], v), "reuse") : i \in DOMAIN m.txs, v \in {w \in Vers : w = 2 \/ m.nv2 = 0}} ELSE {})
\cup (IF "reuse" \in Defects THEN UNION {SpendAgain(m, id, gone[id]) : id \in DOMAIN gone} ELSE {})
\cup (IF "era" \in Defects THEN {Tag([t EXCEPT !.ver = 3 - t.ver], "era") :
          t \in {u \in Cand(m) : ValidTx(m, u) /\ u.fc = <<>> /\ u.rev = <<>> /\ u.res = <<>> /\ (3 - u.ver) \notin Vers /\ (u.ver = 1 \/ m.nv2 = 0)}} ELSE {})
\cup (IF "immature" \in Defects THEN
        {[EmptyTx(q[1]) EXCEPT !.sci = <<In(q[2])>>, !.sco = <<Out(m.sc[q[2]].val, m.sc[q[2]].addr)>>, !.tag = "immature"] :
            q \in Vers \X {y \in DOMAIN m.sc : y \notin m.spends /\ m.sc[y].mat > child /\ m.sc[y].val > 0 /\ m.sc[y].addr \in Owners}} ELSE {})
\* the same for an immature output created in this block, presented by a v2 transaction as mature (stated maturity 0):
\* from the ephemeral-output height on the stated element must equal the created one
\cup (IF "immature" \in Defects /\ 2 \in Vers /\ child >= EphH THEN
        {[EmptyTx(2) EXCEPT !.sci = <<[id |-> y, auth |-> "mislabel-mat"]>>, !.sco = <<Out(m.sc[y].val, m.sc[y].addr)>>, !.tag = "immature!mislabel"] :
            y \in {z \in DOMAIN m.sc : z \in m.created /\ z \notin m.spends /\ m.sc[z].mat > child /\ m.sc[z].val > 0 /\ m.sc[z].addr \in Owners}} ELSE {})
\* every revision / proof / expiration of every live contract, whatever the height: BadTxn keeps the invalid ones
\cup (IF "timing" \in Defects THEN
        {Tag(t, "timing") : t \in
           (IF 2 \in Vers THEN {[EmptyTx(2) EXCEPT !.rev = <<[cid |-> q[1], c |-> Rev2(m.c2[q[1]], q[2], 0), auth |-> "ok"]>>, !.tag = "rev2"] :
                                  q \in {y \in Live2(m) \X RevShifts : y[2] <= m.c2[y[1]].r}}
                               \cup {[EmptyTx(2) EXCEPT !.res = <<[cid |-> q[1], kind |-> q[2], pf |-> "ok", ren |-> NoRen]>>, !.tag = q[2]] :
                                  q \in Live2(m) \X {"proof", "expire"}} ELSE {})
           \cup (IF 1 \in Vers THEN {[EmptyTx(1) EXCEPT !.rev = <<[cid |-> q[1], c |-> Rev1(m.c1[q[1]], q[2], 0), auth |-> "ok"]>>, !.tag = "rev1"] :
                                  q \in {y \in Live1(m) \X RevShifts : y[2] <= m.c1[y[1]].vo[1].val /\ m.c1[y[1]].rn < MaxRN - 1}}
                               \cup {[EmptyTx(1) EXCEPT !.res = <<[cid |-> cid, kind |-> "proof", pf |-> "ok", ren |-> NoRen]>>, !.tag = "prove1"] :
                                  cid \in Live1(m)} ELSE {})} ELSE {})
\* an input whose parent id is the id of an element of ANOTHER kind touched earlier in the same block (the code keeps one
\* id -> index map for all kinds of in-block elements): such an id denotes no siacoin output, whoever signs and whatever
\* value is claimed. The candidates claim owner and value of every siacoin output the block has touched so far.
\cup (IF "confuse" \in Defects /\ 1 \in Vers /\ m.nv2 = 0 THEN
        LET other == {id \in (DOMAIN m.c1 \cup DOMAIN m.sf \cup m.spends) : id[1] \in {SFO, FC1} /\ (id[2] = child \/ id \in m.spends)}
            own   == {<<m.sc[y].val, m.sc[y].addr>> : y \in {z \in DOMAIN m.sc : z[2] = child \/ z \in m.spends}}
                     \cup {<<sc[y].val, sc[y].addr>> : y \in {z \in DOMAIN sc : z \in m.spends}}
        IN {[EmptyTx(1) EXCEPT !.sci = <<[id |-> q[1], auth |-> "as:" \o q[2][2]]>>, !.sco = <<Out(q[2][1], q[2][2])>>, !.tag = "confuse"] :
               q \in other \X {w \in own : w[1] > 0 /\ w[2] \in Owners}} ELSE {})
\* the v2 form: from the ephemeral-output height on a parent created in this block must be stated exactly (id, output,
\* maturity). Candidates: the id of an in-block siafund output or v2 contract with the contents of an in-block siacoin output.
\cup (IF "confuse" \in Defects /\ 2 \in Vers /\ child >= EphH THEN
        LET other == {id \in m.created : id[1] \in {SFO, FC2}}
            own   == {<<m.sc[y].val, m.sc[y].addr, m.sc[y].mat>> : y \in {z \in DOMAIN m.sc : z \in m.created /\ z \notin m.spends}}
        IN {[EmptyTx(2) EXCEPT !.sci = <<[id |-> q[1], auth |-> "as:" \o q[2][2] \o ":" \o ToString(q[2][1]) \o ":" \o ToString(q[2][3])]>>,
                               !.sco = <<Out(q[2][1], q[2][2])>>, !.tag = "confuse"] :
               q \in other \X {w \in own : w[1] > 0 /\ w[2] \in Owners}} ELSE {})
\* the override used on an output that is not the old developer address's (authorisation), or before its heights (timing)
\cup (IF "auth" \in Defects /\ 1 \in Vers /\ m.nv2 = 0 THEN
        {[SFTx(m, 1, q[1], q[2], q[3]) EXCEPT !.sfi[1].auth = "dev", !.tag = "sf!devother"] :
            q \in {y \in LiveSF(m) \X SFSplits \X Addrs : m.sf[y[1]].addr # "D"}} ELSE {})
\cup (IF "timing" \in Defects /\ 1 \in Vers /\ m.nv2 = 0 THEN
        {[SFTx(m, 1, q[1], q[2], q[3]) EXCEPT !.sfi[1].auth = "dev", !.tag = "sfdev!timing", !.slack = IF DevH > DevLock THEN DevH - child ELSE DevLock - child] :
            q \in {y \in LiveSF(m) \X SFSplits \X Addrs : m.sf[y[1]].addr = "D"}} ELSE {})
\* after the final revision every further revision has a revision number that is not higher
\cup (IF "finalrn" \in Defects /\ 1 \in Vers /\ m.nv2 = 0 THEN
        {[EmptyTx(1) EXCEPT !.rev = <<[cid |-> q[1], c |-> [m.c1[q[1]] EXCEPT !.rn = q[2]], auth |-> "ok"]>>, !.tag = "rev1!stalern"] :
            q \in {y \in Live1(m) \X {0, 1, MaxRN - 1, MaxRN} : m.c1[y[1]].rn = MaxRN}} ELSE {})
\* a v2 contract formed earlier in this block has no place in the accumulator yet: it can be neither revised nor resolved
\cup (IF "inblock" \in Defects /\ 2 \in Vers THEN
        {[EmptyTx(2) EXCEPT !.rev = <<[cid |-> cid, c |-> [m.c2[cid] EXCEPT !.rn = @ + 1], auth |-> "ok"]>>, !.tag = "rev2!inblock"] :
            cid \in {x \in DOMAIN m.c2 : x \notin DOMAIN c2 /\ x \notin m.spends}}
        \cup {[EmptyTx(2) EXCEPT !.res = <<[cid |-> cid, kind |-> "expire", pf |-> "ok", ren |-> NoRen]>>, !.tag = "expire!inblock"] :
            cid \in {x \in DOMAIN m.c2 : x \notin DOMAIN c2 /\ x \notin m.spends}} ELSE {})
\* from the ephemeral-output height on a siafund output cannot be spent in the block that creates it
\cup (IF "inblock" \in Defects /\ 2 \in Vers /\ child >= EphH THEN
        {[SFTx(m, 2, q[1], q[2], q[3]) EXCEPT !.tag = "sf!ephemeral"] :
            q \in {y \in LiveSF(m) \X SFSplits \X Addrs : y[1] \in m.created}} ELSE {})
\cup (IF "early" \in Defects /\ 2 \in Vers THEN
        {[EmptyTx(2) EXCEPT !.res = <<[cid |-> q[1], kind |-> q[2], pf |-> "ok", ren |-> NoRen]>>, !.tag = q[2] \o "!early"] :
            q \in Live2(m) \X {"proof", "expire"}} ELSE {})

-----------------------------------------------------------------------------
(* ------------------------- actions ------------------------- *)
GenesisSC == [id \in {Id(SCO, 0, 0, i, 0) : i \in DOMAIN GenSC} |-> [val |-> GenSC[id[4]].val, addr |-> GenSC[id[4]].addr, mat |-> 0]]
GenesisSF == [id \in {Id(SFO, 0, 0, i, 0) : i \in DOMAIN GenSF} |-> [val |-> GenSF[id[4]].val, addr |-> GenSF[id[4]].addr, cs |-> 0]]
\* the genesis block's own miner payout is empty; height 0 is the genesis block
Init == /\ height = 0 /\ sc = GenesisSC /\ sf = GenesisSF /\ c1 = <<>> /\ c2 = <<>> /\ pool = 0
        /\ fnd = [p |-> "F", m |-> "M"] /\ natt = 0 /\ undo = <<>> /\ minted = SumVals(GenSC) /\ claimed = 0 /\ forfeited = 0
        /\ spentBag = <<>> /\ gone = <<>> /\ ms = NULL /\ nrev = 0 /\ hist = <<>>

Begin == /\ ms = NULL /\ height < MaxHeight
         /\ (StopAfterReject => \A k \in DOMAIN hist : hist[k].verdict # "reject")
         /\ \E f \in (IF Focus THEN Templates \cup {"any"} ELSE {"any"}) : ms' = [FreshMS EXCEPT !.focus = f]
         /\ UNCHANGED <<committed, undo, nrev, hist>>

Txn == /\ ms # NULL /\ ~ms.bad /\ ms.ntx < MaxTxns
       /\ \E t \in Cand(ms) : ValidTx(ms, t) /\ ms' = ApplyTx(ms, t)
       /\ UNCHANGED <<committed, undo, nrev, hist>>

BadTxn == /\ ms # NULL /\ ~ms.bad /\ ms.ntx < MaxTxns
          \* (a v1 transaction cannot physically follow a v2 transaction in a block)
          /\ \E t \in BadCand(ms) : (t.ver = 2 \/ ms.nv2 = 0) /\ ~ValidTx(ms, t) /\ ms' = [ms EXCEPT !.bad = TRUE, !.txs = Append(@, t)]
          /\ UNCHANGED <<committed, undo, nrev, hist>>

\* v1 contracts whose window ends with this block and that were not proved in it (honest store)
\* (from the require height on the supplement must be empty: a v1 contract still open then stays locked for good)
Expiring(m) == IF child >= RequireH THEN {} ELSE {cid \in DOMAIN c1 : c1[cid].we = child /\ cid \notin m.spends}
RECURSIVE ExpOuts(_, _)
ExpOuts(m, S) == IF S = {} THEN <<>> ELSE LET cid == CHOOSE x \in S : TRUE IN PayoutOuts(MISSED, cid, m.c1[cid].mo) ++ ExpOuts(m, S \ {cid})
Subsidy == child = FoundH
GoneRec(m, id) == IF id[1] = SFO THEN [k |-> "sf", val |-> m.sf[id].val, addr |-> m.sf[id].addr]
                  ELSE IF id[1] = FC1 THEN [k |-> "c1", val |-> 0, addr |-> ""]
                  ELSE IF id[1] = FC2 THEN [k |-> "c2", val |-> 0, addr |-> ""]
                  ELSE [k |-> "sc", val |-> m.sc[id].val, addr |-> m.sc[id].addr]
Post(s) == IF ~HistPost THEN [none |-> TRUE] ELSE
           [h |-> s.height, pool |-> s.pool, fnd |-> s.fnd, att |-> s.natt,
            sc |-> {<<id, s.sc[id].val, s.sc[id].addr, s.sc[id].mat>> : id \in DOMAIN s.sc},
            sf |-> {<<id, s.sf[id].val, s.sf[id].addr, s.sf[id].cs>> : id \in DOMAIN s.sf},
            c1 |-> {<<id, s.c1[id]>> : id \in DOMAIN s.c1},
            c2 |-> {<<id, s.c2[id]>> : id \in DOMAIN s.c2}]
\* a block whose transactions are all valid but whose miner payout is not reward + fees (validateMinerPayouts), or which
\* pays it out in two outputs (allowed in blocks without v2 data, forbidden with them)
\* payout-wrap-*: several outputs whose sum is reward + fees only modulo 2^128 (two outputs of 2^127 beside the honest one);
\* the sum of the naturals is what the rule compares, wherever in the list the machine addition would wrap
BlockDefects == IF "payout" \in Defects THEN {"payout+1", "payout-1", "payout-split", "payout-wrap-early", "payout-wrap-mid", "payout-wrap-last"} ELSE {}
BlockVerdict(d) == IF d = "payout-split" /\ child < AllowH THEN "accept" ELSE "reject"
\* the miner payout forgets the fees of the block's v1 (v2) transactions
RECURSIVE FeesOf(_, _)
FeesOf(txs, v) == IF txs = <<>> THEN 0 ELSE (IF Head(txs).ver = v THEN Head(txs).fee ELSE 0) + FeesOf(Tail(txs), v)
FeeDefects(m) == IF "payout" \notin Defects THEN {} ELSE
                   {d \in {"payout-nov1fees", "payout-nov2fees"} : FeesOf(m.txs, IF d = "payout-nov1fees" THEN 1 ELSE 2) > 0}
EndBad ==
  /\ ms # NULL /\ ~ms.bad
  /\ \E d \in BlockDefects \cup FeeDefects(ms) : BlockVerdict(d) = "reject"
        /\ hist' = Append(hist, [op |-> "block", verdict |-> "reject", txs |-> ms.txs, bdefect |-> d])
  /\ ms' = NULL /\ UNCHANGED <<committed, undo, nrev>>
End ==
  /\ ms # NULL
  /\ IF ms.bad
     THEN /\ UNCHANGED <<committed, undo>>
          /\ hist' = Append(hist, [op |-> "block", verdict |-> "reject", txs |-> ms.txs])
     ELSE LET exp   == Expiring(ms)
              dead  == ms.spends \cup exp
              split == "payout" \in Defects /\ child < AllowH /\ ms.ntx % 2 = 1      \* a v1 block may pay the miner in several outputs
              extra == (IF split THEN (Id(MINER, child, 0, 0, 0) :> [val |-> Reward + ms.fees - 1, addr |-> "A", mat |-> child + MatDelay])
                                      ++ (Id(MINER, child, 0, 0, 1) :> [val |-> 1, addr |-> "A", mat |-> child + MatDelay])
                        ELSE (Id(MINER, child, 0, 0, 0) :> [val |-> Reward + ms.fees, addr |-> "A", mat |-> child + MatDelay]))
                       ++ (IF Subsidy /\ fnd.p # "V" THEN Id(FOUND, child, 0, 0, 0) :> [val |-> 0, addr |-> fnd.p, mat |-> child + MatDelay] ELSE <<>>)   \* scheduled by the parent state: an address update in this very block does not redirect, waive or revive it
                       ++ ExpOuts(ms, exp)
              scAll == ms.sc ++ extra
          IN /\ undo' = <<Snapshot>> \o undo
             /\ height' = child
             /\ sc' = Restrict(scAll, DOMAIN scAll \ dead)
             /\ sf' = Restrict(ms.sf, DOMAIN ms.sf \ dead)
             /\ c1' = Restrict(ms.c1, DOMAIN ms.c1 \ dead)
             /\ c2' = Restrict(ms.c2, DOMAIN ms.c2 \ dead)
             /\ pool' = ms.pool /\ fnd' = ms.fnd /\ natt' = natt + ms.att
             /\ minted' = minted + Reward
             /\ claimed' = claimed + ms.claimed
             /\ forfeited' = forfeited + ms.forfeit
             /\ spentBag' = [id \in DOMAIN spentBag \cup dead |-> (IF id \in DOMAIN spentBag THEN spentBag[id] ELSE 0) + (IF id \in dead THEN 1 ELSE 0)]
             \* (including outputs created and spent inside this block: they enter the accumulator as spent leaves)
             /\ gone' = gone ++ [id \in dead |-> GoneRec(ms, id)]
             /\ hist' = Append(hist, [op |-> "block", verdict |-> "accept", txs |-> ms.txs, exp |-> exp,
                                      bdefect |-> IF "payout" \in Defects /\ child < AllowH /\ ms.ntx % 2 = 1 THEN "payout-split" ELSE "",
                                      post |-> Post([height |-> child, pool |-> ms.pool, fnd |-> ms.fnd, natt |-> natt + ms.att, sc |-> sc', sf |-> sf', c1 |-> c1', c2 |-> c2'])])
  /\ ms' = NULL /\ UNCHANGED nrev

Revert == /\ ms = NULL /\ undo # <<>> /\ nrev < MaxReverts
          /\ (StopAfterReject => \A k \in DOMAIN hist : hist[k].verdict # "reject")
          /\ LET u == Head(undo) IN
               /\ height' = u.height /\ sc' = u.sc /\ sf' = u.sf /\ c1' = u.c1 /\ c2' = u.c2 /\ pool' = u.pool /\ fnd' = u.fnd /\ natt' = u.natt
               /\ minted' = u.minted /\ claimed' = u.claimed /\ forfeited' = u.forfeited /\ spentBag' = u.spentBag /\ gone' = u.gone
               /\ hist' = Append(hist, [op |-> "revert", verdict |-> "done", post |-> Post(u)])
          /\ undo' = Tail(undo) /\ nrev' = nrev + 1 /\ UNCHANGED ms

Next == Begin \/ Txn \/ BadTxn \/ End \/ EndBad \/ Revert
Spec == Init /\ [][Next]_vars

-----------------------------------------------------------------------------
(* ------------------------- design invariants ------------------------- *)
Conservation == ms = NULL =>
   SumF([id \in DOMAIN sc |-> sc[id].val], DOMAIN sc) + SumF([id \in DOMAIN c1 |-> Locked1(c1[id])], DOMAIN c1)
   + SumF([id \in DOMAIN c2 |-> Locked2(c2[id])], DOMAIN c2) + (pool - claimed) + forfeited = minted
SiafundsConst == SumF([id \in DOMAIN sf |-> sf[id].val], DOMAIN sf) = SumVals(GenSF)
NoDoubleUse == \A id \in DOMAIN spentBag : spentBag[id] <= 1
PoolCoversClaims == claimed <= pool
\* no element is both live and recorded as spent/resolved; every id spent in the block was live or created in it
LiveNotGone == ms = NULL => (DOMAIN gone) \cap (DOMAIN sc \cup DOMAIN sf \cup DOMAIN c1 \cup DOMAIN c2) = {}
RevertInverse == [][(ms = NULL /\ ms' = NULL /\ nrev' = nrev + 1) =>
                     <<height', sc', sf', c1', c2', pool', fnd'>> = <<Head(undo).height, Head(undo).sc, Head(undo).sf, Head(undo).c1, Head(undo).c2, Head(undo).pool, Head(undo).fnd>>]_vars
\* an accepted v2 revision never changes the total, lowers the number, raises missed host value or changes collateral
RevisionStep == [][\A cid \in (DOMAIN c2) \cap (DOMAIN c2') :
                     (height' = height + 1 /\ c2'[cid] # c2[cid]) =>
                        /\ Locked2(c2'[cid]) = Locked2(c2[cid]) /\ c2'[cid].rn > c2[cid].rn
                        /\ c2'[cid].mh <= c2[cid].mh /\ c2'[cid].coll = c2[cid].coll]_vars
RevisionStep1 == [][\A cid \in (DOMAIN c1) \cap (DOMAIN c1') :
                     (height' = height + 1 /\ c1'[cid] # c1[cid]) =>
                        /\ Locked1(c1'[cid]) = Locked1(c1[cid]) /\ c1'[cid].rn > c1[cid].rn /\ c1'[cid].pay = c1[cid].pay]_vars
\* generation
View == <<committed, undo, nrev, IF ms = NULL THEN NULL ELSE [ms EXCEPT !.txs = <<>>]>>
=============================================================================
