---------------------------- MODULE LedgerTrace ----------------------------
(* Trace validation of the ledger equation at real magnitudes (property C01).

   A Go driver builds long random chains with the real code on several network
   shapes (decreasing coinbase, Foundation subsidy, both v1 tax eras, v1 and v2
   contracts, siafund transfers) and records one line per accepted block:
   the block's value-bearing events in transaction order (contract formations
   with their amounts, siafund claims with claim start / share / paid value,
   created siafund outputs with their claim start, v2 expirations) and the
   sums found in the element store afterwards.  All amounts travel as BigNat
   limbs.  This specification recomputes everything itself - block reward,
   Foundation subsidy, taxes (three formulas), claims - and checks at every
   block that

     unspent + locked(v1) + locked(v2) + (pool - claimed) + forfeited
        = genesis + sum of scheduled subsidies

   that siafunds stay constant, that every claim pays exactly its share, that
   fees reappear in the miner payout, and that the pool grows by exactly the
   taxes of the contracts formed.                                            *)
EXTENDS BigNat, TLC, Json
Trace == ndJsonDeserialize("trace.ndjson")
N == Len(Trace)
VARIABLES l,         \* next line
          net,       \* network parameters of the current chain (from the Reset line)
          minted, claimed, forfeited
vars == <<l, net, minted, claimed, forfeited>>

SC == FromDigits(<<1,0,0,0,0,0,0,0,0,0,0,0,0,0,0,0,0,0,0,0,0,0,0,0,0>>)      \* 10^24 hastings
SFCount == 10000
Reject(line, msg) == PrintT("@@REJECT " \o ToString(line) \o " " \o msg)
Check(c, line, msg) == IF c THEN TRUE ELSE Reject(line, msg)

\* ---- schedule ----------------------------------------------------------------
Reward(nt, h) == LET dec == Mul(FromInt(h), SC) IN
                 IF Lt(nt.initial, dec) \/ Lt(Sub(nt.initial, dec), nt.minimum) THEN nt.minimum ELSE Sub(nt.initial, dec)
Subsidy(nt, h, void) ==
  IF void \/ h < nt.foundH \/ (h - nt.foundH) % nt.perMonth # 0 THEN <<>>
  ELSE Mul(Mul(FromInt(30000), SC), FromInt(IF h = nt.foundH THEN nt.perYear ELSE nt.perMonth))

\* ---- taxes ---------------------------------------------------------------------
RoundSF(x) == Sub(x, FromInt(ModSmall(x, SFCount)))
\* before the tax fork the rate is the float64 nearest to 0.039, which is exactly 5620492334958379 / 2^57
M039 == FromDigits(<<5,6,2,0,4,9,2,3,3,4,9,5,8,3,7,9>>)
Shr57(x) == DivSmall(DivSmall(DivSmall(DivSmall(x, 32768), 32768), 32768), 4096)
Tax1(nt, h, pay) == IF h < nt.taxForkH THEN RoundSF(Shr57(Mul(pay, M039)))
                    ELSE RoundSF(DivSmall(MulSmall(pay, 39), 1000))
Tax2(r, hh) == DivSmall(Add(r, hh), 25)
ClaimOf(pool, start, n) == MulSmall(DivSmall(Sub(pool, start), SFCount), n)

\* ---- one block: fold over its events in transaction order -------------------------
\* st = [pool, claimed, forf, ok]
RECURSIVE Fold(_, _, _, _, _)
Fold(nt, h, items, k, st) ==
  IF k > Len(items) THEN st
  ELSE LET it == items[k] IN
    CASE it.k = "form1" -> Fold(nt, h, items, k + 1, [st EXCEPT !.pool = Add(@, Tax1(nt, h, it.pay))])
      [] it.k = "form2" -> Fold(nt, h, items, k + 1, [st EXCEPT !.pool = Add(@, Tax2(it.r, it.h))])
      [] it.k = "claim" ->
           LET good == Le(it.start, st.pool) /\ it.val = ClaimOf(st.pool, it.start, it.n) IN
           Fold(nt, h, items, k + 1, [st EXCEPT !.claimed = Add(@, it.val), !.ok = @ /\ good])
      [] it.k = "sfout" -> Fold(nt, h, items, k + 1, [st EXCEPT !.ok = @ /\ (it.cs = st.pool)])
      [] it.k = "expire2" -> Fold(nt, h, items, k + 1, [st EXCEPT !.forf = Add(@, Sub(it.h, it.mh))])
      [] OTHER -> [st EXCEPT !.ok = FALSE]

Init == l = 1 /\ net = [none |-> TRUE] /\ minted = <<>> /\ claimed = <<>> /\ forfeited = <<>>
Reset(t) == /\ net' = t.net /\ minted' = t.genesis /\ claimed' = <<>> /\ forfeited' = <<>>
Block(t) ==
  LET st0 == [pool |-> t.pool0, claimed |-> <<>>, forf |-> <<>>, ok |-> TRUE]
      st  == Fold(net, t.h, t.items, 1, st0)
      rew == Reward(net, t.h)
      sub == Subsidy(net, t.h, t.void)
      m1  == Add(minted, Add(rew, sub))
      c1  == Add(claimed, st.claimed)
      f1  == Add(forfeited, st.forf)
  IN
  /\ Check(st.ok, l, "a siafund claim does not pay exactly its share, or a new siafund output has the wrong claim start")
  /\ Check(st.pool = t.pool, l, "the siafund pool did not grow by exactly the taxes of the contracts formed")
  /\ Check(t.payout = Add(rew, t.fees), l, "miner payout is not block reward + fees")
  /\ Check(t.subsidy = sub, l, "Foundation subsidy differs from the schedule")
  /\ Check(t.sf = SFCount, l, "siafund total changed")
  /\ Check(Le(c1, t.pool), l, "more claimed than collected")
  /\ Check(Add(Add(Add(t.utxo, t.locked1), t.locked2), Add(Sub(t.pool, c1), f1)) = m1, l, "ledger equation broken: value created or destroyed")
  /\ minted' = m1 /\ claimed' = c1 /\ forfeited' = f1 /\ UNCHANGED net
Next == /\ l <= N /\ l' = l + 1
        /\ LET t == Trace[l] IN IF t.ev = "reset" THEN Reset(t) ELSE Block(t)
Spec == Init /\ [][Next]_vars
=============================================================================
