------------------------------ MODULE Positions ------------------------------
(* Second uses at every position (property C02, "within or across transactions of a block").

   Ledger.tla explores second uses among the two or three inputs its templates have. The rule itself is about
   positions: a block is a sequence of transactions, a transaction spends a sequence of parents, and the block is
   acceptable only if no parent stands at two positions of it - whatever the two positions are and however many
   other inputs surround them. Here a parent is a slot number (slot k names the k-th unspent genesis output, all
   owned by the spender), and the cases are transactions of width n in which the input at position j names the
   parent of the input at position i, for every pair i < j up to width Full and for the pairs of marked positions
   (around 8, 16, 32, 64, 128 and the two ends) of the wider ones, and pairs of transactions in which position j of
   the second names the parent at position i of the first. Every case states its outputs as the sum of all
   inputs, the repeated one counted twice: that is what the repetition is for.                                 *)
EXTENDS Integers, Sequences, FiniteSets, TLC, Json

CONSTANTS Full,     \* every pair of positions of every width 2..Full
          Wide,     \* further widths: marked positions only
          Across    \* widths of the transactions of a block in the across-transactions cases

Marks(n) == {k \in {1, 2, 7, 8, 9, 10, 15, 16, 17, 31, 32, 33, 63, 64, 65, 127, 128, 129, n - 1, n} : k >= 1 /\ k <= n}
Pairs(n) == IF n <= Full THEN {p \in (1..n) \X (1..n) : p[1] < p[2]}
                         ELSE {p \in Marks(n) \X Marks(n) : p[1] < p[2]}

\* the rule: positions of a block are (transaction, input) pairs; no two of them name the same parent
Positions(blk) == UNION {{<<t, k>> : k \in 1..Len(blk[t])} : t \in 1..Len(blk)}
Acceptable(blk) == \A p, q \in Positions(blk) : p # q => blk[p[1]][p[2]] # blk[q[1]][q[2]]

\* one transaction of width n: position j names the parent of position i (i = 0: nobody does)
Within(n, i, j) == << [k \in 1..n |-> IF k = j /\ i > 0 THEN i ELSE k] >>
\* two transactions of widths n and m over disjoint parents, except that position j of the second names the parent
\* at position i of the first
AcrossBlk(n, m, i, j) == << [k \in 1..n |-> k], [k \in 1..m |-> IF k = j /\ i > 0 THEN i ELSE n + k] >>

Widths == (2..Full) \cup Wide
WCases == UNION {{<<n, p[1], p[2]>> : p \in Pairs(n)} : n \in Widths} \cup {<<n, 0, 0>> : n \in Widths}
ACases == {<<n, m, i, j>> \in Across \X Across \X (0..129) \X (0..129) :
             \/ (i = 0 /\ j = 0)
             \/ (i \in Marks(n) /\ j \in Marks(m))}

Cases == {[kind |-> "within", blk |-> Within(c[1], c[2], c[3]), i |-> c[2], j |-> c[3]] : c \in WCases}
   \cup  {[kind |-> "across", blk |-> AcrossBlk(c[1], c[2], c[3], c[4]), i |-> c[3], j |-> c[4]] : c \in ACases}

VARIABLE done
Init == done = FALSE
Next == /\ ~done /\ done' = TRUE
        /\ PrintT("@@POSITIONS " \o ToJson({[kind |-> c.kind, blk |-> c.blk, i |-> c.i, j |-> c.j, ok |-> Acceptable(c.blk)] : c \in Cases}))

\* model-internal sanity: a case is acceptable iff it is a control, and both verdicts occur for every width
Sound == \A c \in Cases : Acceptable(c.blk) <=> c.i = 0
BothVerdicts == \A n \in Widths : (\E c \in Cases : c.kind = "within" /\ Len(c.blk[1]) = n /\ c.i = 0)
                                /\ (\E c \in Cases : c.kind = "within" /\ Len(c.blk[1]) = n /\ c.i > 0)
=============================================================================
