------------------------------ MODULE Boundary ------------------------------
(* Where the height- and time-dependent consensus rules flip (property C08).
   For every rule, a transaction that is valid except for the rule is
   presented in the child block of a state of height child-1; B is the value
   the rule compares with (maturity height, lock height, window start, proof
   height, expiration height, fork height).  Valid(rule, child, B) states on
   which side of B the transaction is acceptable; the harness builds each
   scenario on a real chain and compares verdicts at child = B-2 .. B+2.

   Height compared by v2 spend policies: the parent block's height (child-1).
   Time compared by after(t): the median of the last <= 11 block timestamps of
   the parent state, strictly.                                               *)
EXTENDS Integers, Sequences, FiniteSets, TLC, Json

CONSTANTS MatDelay, AllowH, RequireH,   \* network configuration
          First,                        \* lowest height at which the prerequisite of a scenario can be created
          Span                          \* bounds B range over First+1 .. First+Span

HeightRules == {"mat-v1", "mat-v2", "uclock-v1-sc", "uclock-v1-sf", "siglock-v1", "siglock-v1-partial", "uclock-v2", "above-v2",
                "form1-windowstart", "rev1-parent-windowstart", "rev1-new-windowstart", "prove1-windowstart",
                "prove1-windowstart-empty", "prove1-windowstart-inblock", "prove1-windowstart-empty-inblock",
                "form2-proofheight", "rev2-parent-proofheight", "rev2-new-proofheight", "prove2-proofheight", "expire2-expiration",
                "era-v1", "era-v2"}
V1Rules == {"mat-v1", "uclock-v1-sc", "uclock-v1-sf", "siglock-v1", "siglock-v1-partial", "form1-windowstart", "rev1-parent-windowstart",
            "rev1-new-windowstart", "prove1-windowstart", "prove1-windowstart-empty", "prove1-windowstart-inblock",
            "prove1-windowstart-empty-inblock", "era-v1"}

\* does the rule, taken alone, admit the transaction in the child block?
RuleOK(rule, child, B) ==
  CASE rule \in {"mat-v1", "mat-v2"}            -> child >= B          \* maturity height B
    [] rule \in {"uclock-v1-sc", "uclock-v1-sf"} -> child >= B          \* unlock conditions timelock B
    [] rule \in {"siglock-v1", "siglock-v1-partial"} -> child >= B     \* signature timelock B (whole-transaction / explicit-field signature)
    [] rule \in {"uclock-v2", "above-v2"}        -> child - 1 >= B      \* parent height compared
    [] rule = "form1-windowstart"                -> child <= B          \* window start B must not be in the past
    [] rule = "rev1-parent-windowstart"          -> child <= B          \* not once the window has opened
    [] rule = "rev1-new-windowstart"             -> child <= B
    [] rule \in {"prove1-windowstart", "prove1-windowstart-empty"} -> child >= B   \* the block at height B-1 exists - also when the file is empty and nothing is challenged
    \* the contract formed by an earlier transaction of the same block: formation wants child <= B, the proof child >= B
    [] rule \in {"prove1-windowstart-inblock", "prove1-windowstart-empty-inblock"} -> child = B
    [] rule = "form2-proofheight"                -> child <= B
    [] rule = "rev2-parent-proofheight"          -> child <= B
    [] rule = "rev2-new-proofheight"             -> child <= B
    [] rule = "prove2-proofheight"               -> child >= B + 1      \* the block at the proof height is an ancestor
    [] rule = "expire2-expiration"               -> child >= B + 1      \* not at or before the expiration height
    [] rule = "era-v1"                           -> child < B           \* B = require height
    [] rule = "era-v2"                           -> child >= B          \* B = allow height

\* the transaction's own era must admit it for the rule to be observable
EraOK(rule, child) == IF rule \in V1Rules THEN child < RequireH ELSE child >= AllowH
Bounds(rule) == IF rule = "era-v1" THEN {RequireH} ELSE IF rule = "era-v2" THEN {AllowH} ELSE (First + 1)..(First + Span)
\* rules that combine a "not after B" with a "not before B" condition admit exactly child = B; beyond B it is the
\* formation rule that refuses the block (form1-windowstart covers that side)
TwoSided == {"prove1-windowstart-inblock", "prove1-windowstart-empty-inblock"}
Cases == {<<r, B, ch>> \in HeightRules \X (0..(First + Span + 8)) \X (1..(First + Span + 8)) :
             /\ B \in Bounds(r) /\ ch >= B - 2 /\ ch <= B + 2
             /\ (r \in {"era-v1", "era-v2"} \/ (ch > First /\ EraOK(r, ch)))
             /\ (r \in TwoSided => ch <= B)}
Expected(c) == RuleOK(c[1], c[3], c[2])

\* ---- median time -----------------------------------------------------------
\* ts: block timestamps, oldest first (ts[1] = genesis).  The parent state holds the newest min(n, 11).
RECURSIVE Insert(_, _)
Insert(x, s) == IF s = <<>> THEN <<x>> ELSE IF x <= Head(s) THEN <<x>> \o s ELSE <<Head(s)>> \o Insert(x, Tail(s))
RECURSIVE Sort(_)
Sort(s) == IF s = <<>> THEN <<>> ELSE Insert(Head(s), Sort(Tail(s)))
LastN(s, n) == IF Len(s) <= n THEN s ELSE SubSeq(s, Len(s) - n + 1, Len(s))
\* twice the median (the median of an even count is the midpoint, possibly a half second)
Median2(ts) == LET w == Sort(LastN(ts, 11)) n == Len(w) IN
               IF n % 2 = 1 THEN 2 * w[(n + 1) \div 2] ELSE w[n \div 2] + w[n \div 2 + 1]
\* a timestamp sequence a chain can have: every block is not older than the median before it
RECURSIVE Admissible(_)
Admissible(ts) == Len(ts) <= 1 \/ (Admissible(SubSeq(ts, 1, Len(ts) - 1)) /\ 2 * ts[Len(ts)] >= Median2(SubSeq(ts, 1, Len(ts) - 1)))
Pattern(name, n) ==
  CASE name = "steady"  -> [i \in 1..n |-> 1000 + 10 * i]
    [] name = "constant" -> [i \in 1..n |-> 1000]
    [] name = "sawtooth" -> [i \in 1..n |-> 1000 + 10 * (i \div 2) + (IF i % 2 = 0 THEN 7 ELSE 0)]
    [] name = "jump"     -> [i \in 1..n |-> IF i = n - 1 THEN 5000 ELSE 1000 + i]
    [] name = "odd"      -> [i \in 1..n |-> 1000 + 3 * i + (i % 2)]
Patterns == {"steady", "constant", "sawtooth", "jump", "odd"}
Lengths == {1, 2, 3, 4, 10, 11, 12, 13, 14}
TimeCases == {<<p, n, d>> \in Patterns \X Lengths \X {-1, 0, 1} : Admissible(Pattern(p, n))}
\* after(T): T in whole seconds around the median; valid iff median > T (strictly)
LockOf(c) == (Median2(Pattern(c[1], c[2])) \div 2) + c[3]
TimeExpected(c) == Median2(Pattern(c[1], c[2])) > 2 * LockOf(c)

VARIABLE done
Init == done = FALSE
Next == /\ ~done /\ done' = TRUE
        /\ PrintT("@@CASES " \o ToJson([h |-> {[rule |-> c[1], B |-> c[2], child |-> c[3], ok |-> Expected(c)] : c \in Cases},
                                        t |-> {[pattern |-> c[1], n |-> c[2], ts |-> Pattern(c[1], c[2]), lock |-> LockOf(c), ok |-> TimeExpected(c)] : c \in TimeCases}]))
\* model-internal sanity: every rule has both verdicts among its cases, and flips exactly once along child
BothVerdicts == \A r \in HeightRules : (\E c \in Cases : c[1] = r /\ (c[2] > 1 \/ r # "era-v2")) =>
                   ((\E c \in Cases : c[1] = r /\ Expected(c)) /\ (\E c \in Cases : c[1] = r /\ ~Expected(c)))
Monotone == \A c, d \in Cases : (c[1] = d[1] /\ c[2] = d[2] /\ c[3] < d[3] /\ EraOK(c[1], c[3]) /\ EraOK(d[1], d[3])) =>
               (Expected(c) = Expected(d) \/ (Expected(c) # Expected(d) /\ \A e \in Cases : (e[1] = c[1] /\ e[2] = c[2] /\ e[3] <= c[3]) => Expected(e) = Expected(c)))
=============================================================================
