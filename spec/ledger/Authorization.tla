--------------------------- MODULE Authorization ---------------------------
(* Content-binding authorisation (property C03).

   A *shape* is a kind of valid, signed transaction.  Each shape has a set of
   authorisations: signatures (or preimages) that consensus requires, each
   covering some classes of the transaction's content.  A *tampering* is a
   single-point change made after signing: to a content class, to a witness,
   or to the claimed keys / policy.  Expected(s, t) is the verdict the
   property demands for the tampered block; Resigned(s, t) is the verdict when
   the signer authorises the tampered content again (the control that shows
   nothing but the stale authorisation is wrong with the tampered block).

   The coverage relation is written from the property text: every signature
   binds all of the transaction's effect-bearing content (v1 whole-transaction
   signatures and v2 input signatures), or exactly the fields it names (v1
   partial signatures); contract, renewal and attestation signatures bind
   their object; a Foundation address change needs an input controlled by the
   current Foundation keys.                                                  *)
EXTENDS Integers, Sequences, FiniteSets, TLC, Json

\* ---- content classes ---------------------------------------------------------
Content == {"out-addr", "out-split", "fee-shift", "arb", "claim", "contract", "revision", "renewal-final",
            "renewal-new", "attest-value", "fnd-addr", "uncovered-out", "second-out", "arb-shift"}
Witness == {"sig-flip", "sig-drop", "sig-extra", "sig-swap", "sig-dup-key", "pre-wrong", "pre-extra", "pre-drop",
            "in2-sig-flip", "in2-sig-drop", "in2-sig-zero", "in2-sig-extra"}    \* the witnesses of a second input from the same address
Keys    == {"other-policy", "other-key", "proposed-keys", "renew-other-keys", "renew-stale-keys", "attest-other-key",
            "fnd-unauthorised", "contract-sig-flip", "renewal-sig-flip", "attest-sig-flip", "timelocked-policy",
            "relabel-parent", "stale-keys", "alg-swap", "fnd-append", "fnd-append-void", "renewal-swap-new",
            \* an update by somebody else to an address that is already one of the two in effect (it still changes the other)
            "fnd-unauthorised-primary", "fnd-unauthorised-mgmt"}
Tampers == Content \cup Witness \cup Keys

\* ---- shapes ---------------------------------------------------------------------
\* has: content classes present in the transaction; covered: classes bound by a required signature;
\* wit: kinds of witnesses present; any: TRUE when the key type accepts any signature (unknown algorithm)
Shape(has, covered, wit, any, keys) == [has |-> has, covered |-> covered, wit |-> wit, any |-> any, keys |-> keys]
AllPay == {"out-addr", "out-split", "fee-shift", "arb"}
Shapes == [
  \* alg-swap: the same key bytes presented under an algorithm nobody verifies - other unlock conditions, another address
  \* (arb-shift: bytes moved across the boundary of two arbitrary-data entries - same count, same concatenation)
  v1whole    |-> Shape(AllPay \cup {"arb-shift"}, AllPay \cup {"arb-shift"}, {"sig"}, FALSE, {"other-policy", "other-key", "alg-swap"}),
  v1partial  |-> Shape(AllPay \cup {"uncovered-out"}, {"out-addr", "out-split", "fee-shift"}, {"sig"}, FALSE, {"other-policy", "other-key"}),
  \* a partial signature naming output 1 only (the list of covered outputs is not a prefix of the outputs): output 1 is
  \* bound, output 0 and the memo are not
  v1partial1 |-> Shape(AllPay \cup {"second-out"}, {"second-out", "out-split", "fee-shift"}, {"sig"}, FALSE, {"other-policy", "other-key"}),
  v1multisig |-> Shape(AllPay \cup {"arb-shift"}, AllPay \cup {"arb-shift"}, {"sig", "sig2"}, FALSE, {"other-policy", "other-key"}),
  \* a key of an unknown algorithm is satisfied by any signature bytes (documented legacy rule), so nothing binds the content
  v1unknown  |-> Shape(AllPay, {}, {"sig"}, TRUE, {"other-policy"}),
  v1sf       |-> Shape({"claim", "out-addr", "arb"}, {"claim", "out-addr", "arb"}, {"sig"}, FALSE, {"other-policy", "other-key", "alg-swap"}),
  v1revision |-> Shape({"revision", "arb"}, {"revision", "arb"}, {"sig"}, FALSE, {"other-policy", "other-key", "alg-swap"}),
  \* a payment the Foundation signs with a partial signature (its input, its output, a memo): a third party must not be
  \* able to append a Foundation address update that the signature does not cover
  v1fndpartial |-> Shape({"out-addr", "uncovered-out"}, {"out-addr"}, {"sig"}, FALSE, {"fnd-append", "other-key"}),
  v1foundation |-> Shape({"fnd-addr", "out-addr"}, {"fnd-addr", "out-addr"}, {"sig"}, FALSE, {"fnd-unauthorised", "fnd-unauthorised-primary", "fnd-unauthorised-mgmt", "other-key"}),
  v2pk       |-> Shape(AllPay, AllPay, {"sig"}, FALSE, {"other-policy", "other-key", "relabel-parent"}),
  \* an output created earlier in the same block (no accumulator proof): the claimed parent must still be the real one
  \* two inputs from one address: each input carries its own witnesses and each must be checked
  v2two      |-> Shape(AllPay, AllPay, {"sig", "in2"}, FALSE, {"other-key"}),
  \* an ordinary payment from the Foundation management address: nobody may attach an address update afterwards - not even
  \* one to the void address (which waives the subsidy)
  v2mgmt     |-> Shape(AllPay, AllPay, {"sig"}, FALSE, {"fnd-append", "fnd-append-void", "other-key"}),
  v2ephemeral |-> Shape(AllPay, AllPay, {"sig"}, FALSE, {"other-policy", "other-key", "relabel-parent"}),
  \* two revisions of one contract in one block, the first handing it to a new renter key: the second must be signed
  \* by the keys of the contract as it then stands
  v2rev2     |-> Shape({"revision"}, {"revision"}, {}, FALSE, {"stale-keys", "contract-sig-flip"}),
  v2uc       |-> Shape(AllPay, AllPay, {"sig"}, FALSE, {"other-policy", "other-key"}),
  v2thresh   |-> Shape(AllPay, AllPay, {"sig", "sig2"}, FALSE, {"other-policy", "other-key"}),
  v2hash     |-> Shape(AllPay, AllPay, {"sig", "pre"}, FALSE, {"other-policy", "other-key"}),
  v2above    |-> Shape(AllPay, AllPay, {"sig"}, FALSE, {"other-policy", "other-key", "timelocked-policy"}),
  v2after    |-> Shape(AllPay, AllPay, {"sig"}, FALSE, {"other-policy", "other-key", "timelocked-policy"}),
  v2sf       |-> Shape({"claim", "out-addr", "arb"}, {"claim", "out-addr", "arb"}, {"sig"}, FALSE, {"other-policy", "other-key"}),
  v2form     |-> Shape({"contract", "out-addr", "arb"}, {"contract", "out-addr", "arb"}, {"sig"}, FALSE, {"other-key", "contract-sig-flip"}),
  v2rev      |-> Shape({"revision"}, {"revision"}, {}, FALSE, {"proposed-keys", "contract-sig-flip"}),
  v2renew    |-> Shape({"renewal-final", "renewal-new", "out-addr"}, {"renewal-final", "renewal-new", "out-addr"}, {"sig"}, FALSE,
                       {"renew-other-keys", "renew-stale-keys", "renewal-sig-flip", "contract-sig-flip", "renewal-swap-new"}),
  v2attest   |-> Shape({"attest-value", "out-addr"}, {"attest-value", "out-addr"}, {"sig"}, FALSE, {"attest-other-key", "attest-sig-flip"}),
  v2foundation |-> Shape({"fnd-addr", "out-addr"}, {"fnd-addr", "out-addr"}, {"sig"}, FALSE, {"fnd-unauthorised", "fnd-unauthorised-primary", "fnd-unauthorised-mgmt"})
]
ShapeNames == DOMAIN Shapes

\* ---- which tamperings apply to a shape -------------------------------------------
Applies(s, t) ==
  LET sh == Shapes[s] IN
  \/ t \in Content /\ t \in sh.has
  \/ t \in {"sig-flip", "sig-drop", "sig-extra"} /\ "sig" \in sh.wit
  \/ t = "sig-swap" /\ "sig2" \in sh.wit
  \/ t \in {"in2-sig-flip", "in2-sig-drop", "in2-sig-zero", "in2-sig-extra"} /\ "in2" \in sh.wit
  \/ t = "sig-dup-key" /\ s = "v1multisig"        \* the second required signature made by the first key once more
  \/ t \in {"pre-wrong", "pre-extra", "pre-drop"} /\ "pre" \in sh.wit
  \/ t = "pre-extra" /\ "sig" \in sh.wit /\ s \in {"v2pk", "v2thresh"}      \* a preimage nobody asked for
  \/ t \in Keys /\ t \in sh.keys

\* ---- the verdict the property demands ---------------------------------------------
\* content: rejected iff a required signature covers it (the signature no longer matches);
\* witnesses: rejected when corrupted, dropped, duplicated, added or reordered - except that a key of an unknown
\*            algorithm accepts any signature bytes (documented legacy rule), though not a missing or extra one;
\* keys: substituting keys or policy, or signing with keys that are not the current ones, is always rejected.
Expected(s, t) ==
  LET sh == Shapes[s] IN
  IF t \in Content THEN (IF t \in sh.covered THEN "reject" ELSE "accept")
  ELSE IF t \in Witness THEN (IF sh.any /\ t = "sig-flip" THEN "accept" ELSE "reject")
  ELSE "reject"
\* after the legitimate signer signs the tampered content again it must be valid: only for content tamperings
Resigned(s, t) == IF t \in Content THEN "accept" ELSE "n/a"

Cases == {<<s, t>> \in ShapeNames \X Tampers : Applies(s, t)}
VARIABLE done
Init == done = FALSE
Next == ~done /\ done' = TRUE
        /\ PrintT("@@AUTH " \o ToJson({[shape |-> c[1], tamper |-> c[2], expected |-> Expected(c[1], c[2]), resigned |-> Resigned(c[1], c[2])] : c \in Cases}))
\* coherence of the table
CoveredPresent == \A s \in ShapeNames : Shapes[s].covered \subseteq Shapes[s].has
EveryShapeHasRejects == \A s \in ShapeNames : \E t \in Tampers : Applies(s, t) /\ Expected(s, t) = "reject"
UncoveredOnlyPartial == \A s \in ShapeNames : (Shapes[s].has \ Shapes[s].covered # {}) => (s \in {"v1partial", "v1partial1", "v1fndpartial"} \/ Shapes[s].any)
=============================================================================
