------------------------------ MODULE Extremes ------------------------------
(* C10, validation side: the catalogue of STRUCTURE-AWARE EXTREMES.

   A case is  (a valid transaction t of a valid block on a reachable state,
   taken from a behaviour of Ledger.tla)  x  (one entry of this catalogue).
   An entry names a member of the generic transaction of Ledger.tla
   (ver, sci, sco, sfi, sfo, fee, fc, rev, res, fnd) or of the block / header /
   v1 supplement around it, and the extreme put there.  `need` is the part of
   the generic transaction that must be present for the entry to apply
   ("" = always;  "res:renew" = a resolution of that kind).  TLC enumerates
   the catalogue (members x extremes, and for currencies also pairs of
   members x pairs of extremes); the harness applies every applicable entry
   to every valid transaction it replays, once as is and once re-signed and
   re-sealed (payout, commitment, nonce) so that the code behind the first
   check is reached.

   A second kind of case needs a HISTORY: the family "reveal" (COMMIT, THEN REVEAL, below) first lets a valid block pay to
   the address of odd unlock conditions / policies and then spends that output revealing them.

   PREDICTION for every case: ValidateBlock / ValidateOrphan / ValidateHeader /
   ValidateTransaction / ValidateV2Transaction / ValidateTransactionElements
   return (accept or reject); a block that is accepted can be applied and
   reverted.  Never a panic, never a hang.                                   *)
EXTENDS Integers, Sequences, FiniteSets, TLC, Json

\* ---- currency-valued members: <<ver, member, need>>  (ver 0: the block) ---------------
Cur1 == << <<1, "fee", "">>, <<1, "sco.val", "sco">>, <<1, "fc.pay", "fc">>, <<1, "fc.vo.val", "fc">>, <<1, "fc.mo.val", "fc">>,
           <<1, "rev.vo.val", "rev">>, <<1, "rev.mo.val", "rev">>, <<1, "supp.sci.val", "sci">>, <<1, "supp.fc.pay", "rev">>, <<1, "supp.sp.vo.val", "res">> >>
Cur2 == << <<2, "fee", "">>, <<2, "sco.val", "sco">>, <<2, "sci.parent.val", "sci">>, <<2, "sfi.parent.claimstart", "sfi">>,
           <<2, "fc.r", "fc">>, <<2, "fc.h", "fc">>, <<2, "fc.mh", "fc">>, <<2, "fc.coll", "fc">>,
           <<2, "rev.r", "rev">>, <<2, "rev.h", "rev">>, <<2, "rev.mh", "rev">>, <<2, "rev.coll", "rev">>,
           <<2, "rev.parent.r", "rev">>, <<2, "rev.parent.h", "rev">>, <<2, "res.parent.r", "res">>, <<2, "res.parent.h", "res">>, <<2, "res.parent.mh", "res">>,
           <<2, "ren.fr", "res:renew">>, <<2, "ren.fh", "res:renew">>, <<2, "ren.rr", "res:renew">>, <<2, "ren.hr", "res:renew">>,
           <<2, "ren.nc.r", "res:renew">>, <<2, "ren.nc.h", "res:renew">>, <<2, "ren.nc.mh", "res:renew">>, <<2, "ren.nc.coll", "res:renew">> >>
Cur0 == << <<0, "payout", "">> >>
CurVals == <<"0", "1", "2^64", "2^127", "2^128-1", "2^128-2", "2^64-1">>
BigVals == <<"2^64", "2^127", "2^128-1">>
Range(s) == {s[i] : i \in DOMAIN s}
E(fam, f, x) == [fam |-> fam, ver |-> f[1], t |-> f[2], need |-> f[3], x |-> x, t2 |-> "", need2 |-> "", x2 |-> ""]
E2(fam, f, x, g, y) == [fam |-> fam, ver |-> IF f[1] = 0 THEN g[1] ELSE f[1], t |-> f[2], need |-> f[3], x |-> x, t2 |-> g[2], need2 |-> g[3], x2 |-> y]
CurSingles == {E("cur", f, x) : f \in Range(Cur1 \o Cur2 \o Cur0), x \in Range(CurVals)}
\* pairs: two members of one transaction version (or one member and the miner payout), two big values; the same member twice = its first two entries
PairsOf(fs) == {E2("cur2", fs[q[1]], x, fs[q[2]], y) : q \in {r \in (DOMAIN fs) \X (DOMAIN fs) : r[1] <= r[2]}, x \in Range(BigVals), y \in Range(BigVals)}
CurPairs == PairsOf(Cur1 \o Cur0) \cup PairsOf(Cur2 \o Cur0)    \* (unordered pairs)

\* ---- complements: the overflow pre-checks pass by the narrowest margin ---------------------------------------------------------
\* validateCurrencyOverflow (v1) and validateV2CurrencyOverflow (v2) add up a fixed list of members of the transaction and reject
\* the transaction if the sum exceeds 2^128-1; later code then adds currency values without checking.  PreCheck1 / PreCheck2 are
\* those lists (v2: every contract also contributes its tax, a function of renter + host value).  For each listed member m the
\* extreme is  "rest": m := the largest value for which the pre-checked sum is still <= 2^128-1  (2^128-1 minus everything else
\* the pre-check counts), and that value -1 and +1.  With "rest" the pre-check passes and ANY later sum that includes something
\* the pre-check leaves out (parent values, rollovers on the input side, claim outputs, taxes, fees, payouts) overflows -- provided
\* what is left out exceeds the "rest" that is also in the later sum.  A balanced transaction keeps the rest large, therefore two
\* more variants first set EVERY OTHER pre-checked member to 1 (the smallest value the minimum-value rules allow) or to 0, and
\* then take the complement: the pre-check passes with a rest of a few hastings, and any genuine parent value tips a later sum over.
PreCheck1 == << <<1, "sco.val", "sco">>, <<1, "fc.pay", "fc">>, <<1, "fc.vo.val", "fc">>, <<1, "fc.mo.val", "fc">>, <<1, "rev.vo.val", "rev">>, <<1, "rev.mo.val", "rev">> >>
PreCheck2 == << <<2, "fee", "">>, <<2, "sco.val", "sco">>, <<2, "fc.r", "fc">>, <<2, "fc.h", "fc">>, <<2, "fc.mh", "fc">>, <<2, "fc.coll", "fc">>,
                <<2, "rev.r", "rev">>, <<2, "rev.h", "rev">>, <<2, "rev.mh", "rev">>, <<2, "rev.coll", "rev">>,
                <<2, "ren.fr", "res:renew">>, <<2, "ren.fh", "res:renew">>, <<2, "ren.rr", "res:renew">>, <<2, "ren.hr", "res:renew">>,
                <<2, "ren.nc.r", "res:renew">>, <<2, "ren.nc.h", "res:renew">>, <<2, "ren.nc.mh", "res:renew">>, <<2, "ren.nc.coll", "res:renew">> >>
\* members the v1 pre-check leaves out but validateSiacoins adds with a check of its own: the same margin from their side
NotPreChecked1 == << <<1, "fee", "">> >>
ComplementCat == {E("complement", f, x) : f \in Range(PreCheck1 \o PreCheck2 \o NotPreChecked1), x \in {"rest-1", "rest", "rest+1", "rest,others=1", "rest,others=0"}}

\* ---- wraps: sums formed in 64-bit arithmetic ---------------------------------------------------------------------------------
\* Siafund input and output values are added as uint64 (validateSiafunds, validateV2Siafunds): a PAIR (x, 2^64 - x + honest)
\* wraps to the honest total, so the sums balance while one value is enormous; whatever is later computed from a single value
\* (the siafund claim: pool share x value) sees the enormous one.  U64Sums are the members summed that way (no other uint64 sum
\* of member values exists in validation: weights are sums of encoded lengths).  The second member of the pair is the same
\* member's second entry (the harness adds one where the transaction has a single entry: for inputs a second parent created
\* in the same block).  Mutants of this family, and of the other siafund families, also run on the state with its siafund pool
\* raised to 1000 SC ("rich pool"): the model's amounts are small for TLC's sake, every real chain has a pool of that order,
\* and the pool enters validation only through claim arithmetic.
U64Sums == << <<1, "sfo.val", "sfo">>, <<1, "supp.sfi.val", "sfi">>, <<2, "sfo.val", "sfo">>, <<2, "sfi.parent.val", "sfi">> >>
WrapCat == {E2("wrap", f, x, f, "2^64-x+honest") : f \in Range(U64Sums), x \in {"1", "2^32", "2^63", "2^64-2", "2^64-1"}}

\* ---- Merkle proofs and leaf indices of elements, storage proofs ---------------------------
Elems == << <<2, "sci.parent", "sci">>, <<2, "sfi.parent", "sfi">>, <<2, "rev.parent", "rev">>, <<2, "res.parent", "res">>, <<2, "res.proofindex", "res:proof">>,
            <<1, "supp.sci", "sci">>, <<1, "supp.sfi", "sfi">>, <<1, "supp.rev", "rev">>, <<1, "supp.sp", "res">>, <<1, "supp.expiring", "">> >>
Proofs == Elems \o << <<2, "res.sp", "res:proof">>, <<1, "sp", "res">> >>
ProofVals == <<"empty", "cut1", "+1", "63", "64", "65", "200", "zeroed">>
LeafVals == <<"0", "+1", "-1", "2^63", "2^64-1", "unassigned">>
ProofCat == {E("proof", f, x) : f \in Range(Proofs), x \in Range(ProofVals)} \cup {E("leaf", f, x) : f \in Range(Elems), x \in Range(LeafVals)}

\* ---- v1 signatures: covered fields, key indices, unlock conditions ---------------------------
CFLists == <<"SiacoinInputs", "SiacoinOutputs", "FileContracts", "FileContractRevisions", "StorageProofs", "SiafundInputs", "SiafundOutputs", "MinerFees", "ArbitraryData", "Signatures">>
CFVals == <<"len", "len+1", "2^63", "2^64-1", "dup", "unsorted", "12000x0", "all+len">>
SigNeed == "sig"      \* a v1 transaction with at least one signature
CoveredCat == {[fam |-> "covered", ver |-> 1, t |-> l, need |-> SigNeed, x |-> x, t2 |-> w, need2 |-> "", x2 |-> ""] : l \in Range(CFLists), x \in Range(CFVals), w \in {"whole", "partial"}}
SigCat == {E("sig", <<1, "PublicKeyIndex", SigNeed>>, x) : x \in {"len", "1", "2^63", "2^64-1"}} \cup
          {E("sig", <<1, "Timelock", SigNeed>>, x) : x \in {"child", "child+1", "2^64-1"}} \cup
          {E("sig", <<1, "ParentID", SigNeed>>, x) : x \in {"unknown", "zero"}} \cup
          {E("sig", <<1, "Signature", SigNeed>>, x) : x \in {"empty", "63", "65", "1000"}} \cup
          {E("sig", <<1, "list", SigNeed>>, x) : x \in {"dup", "none", "reversed", "1000-copies"}} \cup
          {E("uc", <<1, "SignaturesRequired", SigNeed>>, x) : x \in {"0", "2", "2^64-1"}} \cup
          {E("uc", <<1, "PublicKeys", SigNeed>>, x) : x \in {"empty", "dup-key", "256-keys"}} \cup
          {E("uc", <<1, "Timelock", SigNeed>>, x) : x \in {"child+1", "2^64-1"}} \cup
          {E("uc", <<1, "Algorithm", SigNeed>>, x) : x \in {"entropy", "unknown", "zero"}} \cup
          {E("uc", <<1, "Key", SigNeed>>, x) : x \in {"empty", "31", "33", "1000"}}

\* ---- parents and supplements -----------------------------------------------------------------
Parents == << <<1, "sci", "sci">>, <<1, "sfi", "sfi">>, <<1, "rev", "rev">>, <<1, "res", "res">>, <<2, "sci", "sci">>, <<2, "sfi", "sfi">>, <<2, "rev", "rev">>, <<2, "res", "res">> >>
\* id-of-committed-other-kind: the id of a committed element of ANOTHER kind (an output id where a contract id belongs, ...);
\* (ids of elements of another kind created earlier in the same block: family "confuse" below)
ParentCat == {E("parents", f, x) : f \in Range(Parents), x \in {"dup", "unknown-id", "drop", "id-of-committed-other-kind"}}
SuppCat == {E("supp", <<1, t, "">>, x) : t \in {"sci", "sfi", "rev", "sp", "expiring"}, x \in {"missing", "extra", "dup", "reversed", "from-other-txn"}} \cup
           {E("supp", <<1, "txs", "">>, x) : x \in {"short", "long", "empty", "nil"}} \cup
           {E("supp", <<1, "sp.windowid", "res">>, x) : x \in {"zero", "tip"}} \cup
           {E("supp", <<2, "txs", "">>, x) : x \in {"long", "expiring-extra"}}

\* ---- supplement x block shape x era ---------------------------------------------------------------------------------------------
\* ValidateBlock is handed (block, supplement); nothing says the supplement fits the block.  Block shapes: the block as it is; with a
\* v1 transaction appended (one that an earlier block of the history carried, else a minimal one) -- in the era after RequireHeight
\* that is a v1 transaction where none is allowed; with a v2 transaction appended (before AllowHeight: where none is allowed).
\* Supplement variants, relative to the honest supplement of the block: honest (one entry per v1 transaction), empty (what the era
\* after RequireHeight requires), one entry short / long, entries permuted, every entry's lists emptied / cut by one / one too long.
\* The eras come with the network shapes (before AllowHeight, transition, at and after RequireHeight).
SuppEraCat == {[fam |-> "suppera", ver |-> 0, t |-> shape, need |-> "", x |-> v, t2 |-> "", need2 |-> "", x2 |-> ""] :
                  shape \in {"block-as-is", "v1-transaction-appended", "v2-transaction-appended"},
                  v \in {"honest", "empty", "short", "long", "permuted", "lists-emptied", "lists-truncated", "lists-overlong"}}

\* ---- spend policies, resolutions, eras --------------------------------------------------------
\* DECODABILITY.  The property quantifies over DECODABLE transactions and blocks: every value a mutant carries must be one that
\* some decoder of core (DecodeFrom or UnmarshalJSON) hands over.  Plain numbers, byte strings, lists and list lengths always are.
\* The extremes below are not plain; for each, the decoder that produces it:
\*   nil-type              JSON: {"siacoinInputs":[{"satisfiedPolicy":{}}]} unmarshals without error and leaves Policy.Type nil
\*                         (family "decoded" carries such documents verbatim); DecodeFrom never does
\*   depth33, depth200     JSON only: the policy text "thresh(1,[thresh(1,[...]])" has no depth limit; DecodeFrom stops at depth 32
\*   arity256, arity1000,  JSON only: the text form lists any number of sub-policies; the binary form counts them in one byte
\*   1025-leaves
\*   every other policy /  both decoders
\*   unlock-condition entry
\* The harness does not take this on trust: a mutant of the families "policy" and "uc" is executed only if the changed transaction
\* survives a round trip through one of the two codecs (encode, decode, encode again: same bytes); nil-type, which no ENCODER
\* accepts, is admitted on the strength of the "decoded" family, which shows the decoder producing it.
\* NOT in the catalogue, because no decoder produces them: a nil V2FileContractResolution.Resolution (UnmarshalJSON rejects an
\* absent / unknown type, DecodeFrom an unknown tag), typed nil pointers inside interfaces.
PolicyCat == {E("policy", <<2, t, t>>, x) : t \in {"sci", "sfi"},
                 x \in {"depth32", "depth33", "depth200", "arity255", "arity256", "arity1000", "n255-of-1", "n0-of-0", "no-sigs", "one-extra-sig", "1000-extra-sigs",
                        "one-extra-preimage", "1000-extra-preimages", "nil-type", "opaque", "uc-0-of-0", "uc-need-2^64-1", "hash-no-preimage", "1024-leaves", "1025-leaves"}}
ResCat == {E("resolution", <<2, "type", "res">>, x) : x \in {"to-proof", "to-expiration", "to-renewal"}}
EraCat == {E("era", <<0, "block", "">>, x) : x \in {"v2data-present", "v2data-nil", "v2data-empty", "v2height-0", "v2height+1", "v2height-2^64-1", "commitment-zero"}} \cup
          {E("era", <<1, "txn", "">>, "as-only-v2-era")} \cup {E("era", <<2, "txn", "">>, "in-block-without-v2data")}

\* ---- contracts: file sizes, windows, revision numbers -------------------------------------------
SizeCat == {E("filesize", f, x) : f \in {<<1, "fc", "fc">>, <<1, "rev", "rev">>, <<1, "supp.sp", "res">>, <<2, "fc", "fc">>, <<2, "rev", "rev">>, <<2, "ren.nc", "res:renew">>, <<2, "res.parent", "res:proof">>},
               x \in {"0", "1", "63", "65", "2^63", "2^64-1", "size>capacity"}}
WinCat == {E("window", f, x) : f \in {<<1, "fc.ws", "fc">>, <<1, "fc.we", "fc">>, <<1, "rev.ws", "rev">>, <<1, "rev.we", "rev">>, <<1, "rev.rn", "rev">>, <<1, "supp.sp.ws", "res">>,
                                       <<2, "fc.ph", "fc">>, <<2, "fc.eh", "fc">>, <<2, "rev.ph", "rev">>, <<2, "rev.eh", "rev">>, <<2, "rev.rn", "rev">>,
                                       <<2, "ren.nc.ph", "res:renew">>, <<2, "ren.nc.eh", "res:renew">>, <<2, "res.parent.ph", "res">>, <<2, "res.parent.eh", "res">>, <<2, "res.proofindex.height", "res:proof">>},
              x \in {"0", "child", "2^63", "2^64-2", "2^64-1"}}

\* ---- transaction and block shape ------------------------------------------------------------------
ShapeCat == {E("weight", <<v, "arbitrary-data-filler", "">>, x) : v \in {1, 2}, x \in {"max-1", "max", "max+1", "2x-max"}} \cup
            {E("empty", <<v, "append-empty-transaction", "">>, "empty") : v \in {1, 2}} \cup
            {E("arb", <<1, "ArbitraryData", "">>, x) : x \in {"foundation-prefix-only", "foundation-truncated-31", "foundation-truncated-63", "foundation-void", "foundation-extra-bytes",
                                                            "foundation-valid-unsigned", "empty-item", "1000-empty-items", "1MB-with-prefix"}} \cup
            {E("arb", <<2, "ArbitraryData", "">>, x) : x \in {"empty", "1MB", "foundation-prefix-only"}} \cup
            {E("arb", <<2, "NewFoundationAddress", "">>, x) : x \in {"void", "self", "present"}} \cup
            {E("siafund", f, x) : f \in {<<1, "sfo.val", "sfo">>, <<2, "sfo.val", "sfo">>, <<2, "sfi.parent.val", "sfi">>}, x \in {"0", "1", "10000", "10001", "2^63", "2^64-1"}} \cup
            {E("siafund", f, "void") : f \in {<<1, "sfi.claim", "sfi">>, <<2, "sfi.claim", "sfi">>}} \cup
            {E("attestation", <<2, "Attestations", "">>, x) : x \in {"valid", "empty-key", "1MB-value", "bad-signature", "1000-copies"}} \cup
            {E("maturity", <<2, "sci.parent.maturity", "sci">>, x) : x \in {"0", "child+1", "2^64-1"}} \cup
            {E("header", <<0, "Nonce", "">>, x) : x \in {"+1", "2^64-1"}} \cup
            {E("header", <<0, "Timestamp", "">>, x) : x \in {"epoch", "year-1", "min", "max", "before-median", "far-future"}} \cup
            {E("header", <<0, "ParentID", "">>, x) : x \in {"zero", "own-id"}} \cup
            {E("payouts", <<0, "MinerPayouts", "">>, x) : x \in {"none", "two-halves", "1000-entries", "zero-value", "extra-zero-entry", "void-address"}}

\* ---- an id of the wrong kind: a v1 transaction appended to the block whose parent id is the id of an element of ANOTHER kind
\* that an earlier transaction of the same block created (ids of all kinds share one 32-byte space) ---------------------------------
\* v2: an "ephemeral" parent (unassigned leaf index) is looked up by its id among what the block has recorded so far.  The input
\* names the id of an element of another kind recorded earlier in the block: an attestation (a transaction of nothing but n+1
\* attestations is placed before the spend; "@j" = the attestation at index j, where n is the number of siacoin (siafund) records
\* the block has made by then: below, at and above that count), a siafund / siacoin output, a contract created or revised in the
\* block.  The network shapes put such blocks before and after EphemeralOutputHeight.
Confuse2Cat == {E("confuse", <<2, t, "">>, x) : t \in {"sci", "sfi"},
                   x \in {"attestation@0", "attestation@n-1", "attestation@n", "attestation@n+1", "attestation@n+8", "siafund-output", "siacoin-output", "contract", "revised-contract"}}
               \ {E("confuse", <<2, "sci", "">>, "siacoin-output"), E("confuse", <<2, "sfi", "">>, "siafund-output")}
Confuse1Cat == {E("confuse", <<1, t, "">>, x) : t \in {"rev", "res", "sci", "sfi"}, x \in {"siacoin-output", "siafund-output", "contract"}}
              \ {E("confuse", <<1, "sci", "">>, "siacoin-output"), E("confuse", <<1, "sfi", "">>, "siafund-output"),
                 E("confuse", <<1, "rev", "">>, "contract"), E("confuse", <<1, "res", "">>, "contract")}
ConfuseCat == Confuse1Cat \cup Confuse2Cat

\* ---- life cycle: a contract FORMED with an extreme file size (a valid formation), then storage proofs of every length for it
\* once its window is open, then its end (expiration); ver 1 and 2 ------------------------------------------------------------
LifecycleCat == {[fam |-> "lifecycle", ver |-> v, t |-> "filesize", need |-> "", x |-> s, t2 |-> "proof-length", need2 |-> "", x2 |-> l] :
                    v \in {1, 2}, s \in {"65", "2^63", "2^63+64", "2^64-1"}, l \in {"0", "1", "2", "57", "58", "59", "63", "64", "65", "200"}}

\* ---- transactions as a JSON decoder hands them over: members the wire never leaves empty are nil / zero here ---------
DecodedCat == {E("decoded", <<2, "json", "">>, x) : x \in {"{\"siacoinInputs\":[{}]}", "{\"siafundInputs\":[{}]}", "{\"fileContractResolutions\":[null]}", "{\"fileContractRevisions\":[{}]}",
                   "{\"fileContracts\":[{}]}", "{\"attestations\":[{}]}", "{\"siacoinOutputs\":[{}]}", "{\"minerFee\":\"1\"}", "{\"siacoinInputs\":[{\"satisfiedPolicy\":{}}]}",
                   "{\"fileContractResolutions\":[{\"parent\":{},\"type\":\"expiration\",\"resolution\":null}]}", "{\"fileContractResolutions\":[{\"parent\":{},\"type\":\"storageProof\",\"resolution\":null}]}"}} \cup
              {E("decoded", <<1, "json", "">>, x) : x \in {"{\"siacoinInputs\":[{}]}", "{\"siafundInputs\":[{}]}", "{\"signatures\":[{}]}", "{\"fileContractRevisions\":[{}]}", "{\"storageProofs\":[{}]}",
                   "{\"fileContracts\":[{}]}", "{\"minerFees\":[\"0\"]}", "{\"arbitraryData\":[null]}", "{\"signatures\":[{\"coveredFields\":{\"signatures\":[0,0,1]}}]}"}}

\* ---- COMMIT, THEN REVEAL: content that a valid block commits to by its hash and that only a LATER block interprets -------------------
\* The property speaks of arbitrary blocks on arbitrary REACHABLE states.  The families above change a block that stands on a state
\* whose elements honest templates created; a mutant of the unlock conditions or of the policy of an input changes the address and is
\* refused before anything interprets it.  But an address is 32 opaque bytes: any block may pay an output (siacoin, siafund) or bind a
\* v1 contract (UnlockHash) to the hash of ANY unlock conditions / spend policy -- keys of odd lengths, unknown algorithms, zero or
\* huge SignaturesRequired, huge timelocks, no keys, opaque or unsatisfiable policies.  Nothing looks at the pre-image then.  A block
\* on the state reached that way reveals the pre-image, passes the address comparison, and the signature / policy interpreter runs
\* on content no honest wallet produced.  (Fixed-size members -- attestation keys, v2 contract keys -- have no such freedom.)
\*
\* Two blocks: block 1 (height 1, an ordinary valid payment) funds the address of every pre-image below with a siacoin output, a
\* siafund output and (unlock conditions) a v1 contract; block 2 (height Child) spends one of them revealing the pre-image, in one of
\* the FORMS.  The model transcribes the two interpreters (validateSignatures for v1 inputs and revisions, SpendPolicy.Verify for v2
\* inputs) over abstract content: a key is (algorithm, length) whose bytes are those of the signer's key as far as they go; a
\* signature is the signer's, cut or extended to a length (v1), or the signer's / garbage (v2).  For every case it computes the
\* STAGE that decides it.  The prediction for the property is only that every entry point returns; the stage says that the case
\* gets PAST the address comparison and where (the harness checks on the real code that it does: a reveal that dies earlier would
\* make the family vacuous).
Child == 2
Huge == 1000000      \* stands for 2^63 in the model's arithmetic, Huge + 1 for 2^64-1
Num(s, len) == CASE s = "0" -> 0 [] s = "1" -> 1 [] s = "2" -> 2 [] s = "child-1" -> Child - 1 [] s = "child" -> Child [] s = "child+1" -> Child + 1
                 [] s = "len" -> len [] s = "2^63" -> Huge [] s = "2^64-1" -> Huge + 1
Pick(seq, i, stride) == seq[(((i - 1) \div stride) % Len(seq)) + 1]      \* component of the i-th element of a product of sequences

Key(a, n) == [alg |-> a, len |-> n]
GoodKey == Key("ed25519", 32)
KeyAlgs == <<"ed25519", "entropy", "unknown", "zero">>
KeyLens == <<0, 1, 31, 32, 33, 64>>
OddKeys == <<Key("ed25519", 31), Key("ed25519", 0), Key("ed25519", 33), Key("unknown", 0), Key("entropy", 32)>>
KeyLists == << <<>> >> \o [i \in 1..24 |-> <<Key(Pick(KeyAlgs, i, 6), Pick(KeyLens, i, 1))>>]
                       \o [i \in 1..5 |-> <<GoodKey, OddKeys[i]>>] \o [i \in 1..5 |-> <<OddKeys[i], GoodKey>>]
Reqs == <<"0", "1", "2", "2^64-1">>
Tls == <<"0", "child-1", "child", "child+1", "2^64-1">>
UCs == [i \in 1..(Len(KeyLists) * 20) |-> [keys |-> Pick(KeyLists, i, 20), req |-> Pick(Reqs, i, 5), tl |-> Pick(Tls, i, 1)]]
\* ed25519 keys are copied into 32 bytes (cut or zero-filled); signatures into 64
KeyIsSigner(k) == k.alg = "ed25519" /\ k.len >= 32

\* -- v1: the signatures of the revealing transaction
Pkis == <<"0", "1", "len", "2^63", "2^64-1">>
Slens == <<0, 63, 64, 65>>
Cfs == <<"whole", "partial", "whole+fields", "field-index=len", "sig-index=len", "field-index=2^64-1">>
Stls == <<"child", "child+1", "2^64-1">>
Sg(p, l, c, t) == [pki |-> p, slen |-> l, cf |-> c, stl |-> t]
SigOne == [i \in 1..120 |-> Sg(Pick(Pkis, i, 24), Pick(Slens, i, 6), Pick(Cfs, i, 1), "0")]
RevealsV1 == << <<>> >> \o [i \in 1..120 |-> <<SigOne[i]>>] \o [i \in 1..3 |-> <<Sg("0", 64, "whole", Stls[i])>>]
                        \o [i \in 1..4 |-> <<Sg(Pick(<<"0", "1">>, i, 2), 64, "whole", "0"), Sg(Pick(<<"0", "1">>, i, 1), 64, "whole", "0")>>]
FormsV1 == <<"sci", "sfi", "rev">>
CfInRange(cf) == cf \in {"whole", "partial", "whole+fields"}
\* Two verifications are left OPEN (the model does not compute curve arithmetic): the all-zero signature under the all-zero key
\* (a point of small order), and the signer's signature cut by one byte (the zero fill restores it when its last byte is zero).
\* `open` is what they yield; the harness accepts the stage of either value.
OpenCheck(k, s) == k.alg = "ed25519" /\ ((k.len = 0 /\ s.slen = 0) \/ (KeyIsSigner(k) /\ s.slen = 63))
RECURSIVE SigLoop(_, _, _, _, _, _)
SigLoop(uc, sigs, i, need, used, open) ==
    IF i > Len(sigs) THEN (IF need > 0 THEN "missing" ELSE "accept")
    ELSE LET s == sigs[i]
             idx == Num(s.pki, Len(uc.keys))
         IN  IF idx >= Len(uc.keys) THEN "nokey"
             ELSE IF need = 0 \/ idx \in used THEN "redundant"
             ELSE IF Num(s.stl, 0) > Child THEN "sig-timelock"
             ELSE IF ~CfInRange(s.cf) THEN "covered"
             ELSE LET k == uc.keys[idx + 1]
                  IN  IF k.alg = "ed25519" THEN (IF (KeyIsSigner(k) /\ s.slen >= 64) \/ (open /\ OpenCheck(k, s)) THEN SigLoop(uc, sigs, i + 1, need - 1, used \cup {idx}, open) ELSE "invalid")
                      ELSE IF k.alg = "entropy" THEN "entropy"
                      ELSE SigLoop(uc, sigs, i + 1, need - 1, used \cup {idx}, open)      \* unknown algorithms count as signed
V1StageO(uc, sigs, open) == IF Num(uc.tl, 0) > Child THEN "input-timelock" ELSE SigLoop(uc, sigs, 1, Num(uc.req, 0), {}, open)
V1Stage(uc, sigs) == V1StageO(uc, sigs, FALSE)

\* -- v2: policies (the committed one; the revealed one may replace sub-policies of a threshold by their opaque hashes)
PAbove(v) == [k |-> "above", v |-> v]
PAfter(v) == [k |-> "after", v |-> v]
PPk(x) == [k |-> "pk", key |-> x]
PHash(h) == [k |-> "hash", h |-> h]
POpaque == [k |-> "opaque"]
PUc(u) == [k |-> "uc", uc |-> u]
PTh(n, of) == [k |-> "thresh", n |-> n, of |-> of]
PMasked(p) == [k |-> "masked", p |-> p]
Simple == <<PAbove("0"), PAbove("child-1"), PAbove("child"), PAbove("2^64-1"),
            PAfter("epoch"), PAfter("far"), PAfter("2^63-1"), PAfter("2^63"), PAfter("2^64-1"),
            PPk("A"), PPk("zero"), PPk("ff"), PHash("P"), PHash("other"), POpaque>>
StdUC == [keys |-> <<GoodKey>>, req |-> "1", tl |-> "0"]
Leaves == <<PPk("A"), PAbove("0"), PAbove("2^64-1"), PHash("P"), POpaque, PUc(StdUC), PTh(1, <<PPk("A")>>)>>
OfLists == << <<>> >> \o [i \in 1..7 |-> <<Leaves[i]>>] \o [i \in 1..49 |-> <<Pick(Leaves, i, 7), Pick(Leaves, i, 1)>>]
                      \o << <<PPk("A"), PPk("A"), PPk("A")>>, <<PPk("A"), PHash("P"), PAbove("0")>> >>
Ns == <<0, 1, 2, 255>>
Threshes == [i \in 1..(Len(OfLists) * 4) |-> PTh(Pick(Ns, i, 1), Pick(OfLists, i, 4))]
Masks == <<"none", "first", "all">>
Mask(p, m) == IF p.k # "thresh" \/ m = "none" THEN p
              ELSE PTh(p.n, [j \in DOMAIN p.of |-> IF (m = "all" \/ j = 1) /\ p.of[j].k # "opaque" THEN PMasked(p.of[j]) ELSE p.of[j]])
SigSeqs == << <<>>, <<"A">>, <<"bad">>, <<"A", "A">>, <<"A", "bad">>, <<"bad", "A">>, <<"bad", "bad">>, <<"A", "A", "A">> >>
PreSeqs == << <<>>, <<"P">>, <<"bad">>, <<"P", "P">> >>
Sats == [i \in 1..32 |-> [s |-> Pick(SigSeqs, i, 4), p |-> Pick(PreSeqs, i, 1)]]
FormsV2 == <<"sci", "sfi">>
\* SpendPolicy.Verify: the height is that of the parent block; signatures and pre-images are consumed from the front
R(e, s, p) == [e |-> e, s |-> s, p |-> p]
RECURSIVE Ver(_, _, _), UcLoop(_, _, _, _, _), ThLoop(_, _, _, _, _, _)
Ver(pol, s, p) ==
    CASE pol.k = "above" -> R(IF Child - 1 >= Num(pol.v, 0) THEN "" ELSE "height", s, p)
      [] pol.k = "after" -> R(IF pol.v \in {"epoch", "2^63", "2^64-1"} THEN "" ELSE "time", s, p)      \* seconds above 2^63-1 are negative
      [] pol.k = "pk" -> IF Len(s) > 0 /\ pol.key = "A" /\ Head(s) = "A" THEN R("", Tail(s), p) ELSE R("signature", s, p)
      [] pol.k = "hash" -> IF Len(p) > 0 /\ pol.h = "P" /\ Head(p) = "P" THEN R("", s, Tail(p)) ELSE R("preimage", s, p)
      [] pol.k \in {"opaque", "masked"} -> R("opaque", s, p)
      [] pol.k = "uc" -> IF Child - 1 < Num(pol.uc.tl, 0) THEN R("height", s, p) ELSE UcLoop(pol.uc.keys, 1, Num(pol.uc.req, 0), s, p)
      [] pol.k = "thresh" -> ThLoop(pol.of, 1, pol.n, 0, s, p)
UcLoop(keys, i, need, s, p) ==
    IF i > Len(keys) \/ need = 0 \/ need > (Len(keys) - i) + 1 \/ need > Len(s) THEN R(IF need = 0 THEN "" ELSE "uc-threshold", s, p)
    ELSE LET k == keys[i]
         IN  IF k.alg = "entropy" THEN R("entropy", s, p)
             ELSE IF k.alg = "ed25519" THEN (IF KeyIsSigner(k) /\ Head(s) = "A" THEN UcLoop(keys, i + 1, need - 1, Tail(s), p) ELSE UcLoop(keys, i + 1, need, s, p))
             ELSE UcLoop(keys, i + 1, need - 1, Tail(s), p)
ThLoop(of, i, n, sat, s, p) ==
    IF i > Len(of) THEN R(IF sat = n THEN "" ELSE "threshold", s, p)
    ELSE LET sp == of[i]
         IN  IF sp.k = "uc" THEN R("uc-sub-policy", s, p)
             ELSE IF sp.k \in {"opaque", "masked"} THEN ThLoop(of, i + 1, n, sat, s, p)
             ELSE IF sat = n THEN R("threshold-exceeded", s, p)
             ELSE LET r == Ver(sp, s, p) IN IF r.e # "" THEN r ELSE ThLoop(of, i + 1, n, sat + 1, r.s, r.p)
V2Stage(pol, sat) == LET r == Ver(pol, sat.s, sat.p)
                     IN  IF r.e # "" THEN r.e ELSE IF Len(r.s) > 0 THEN "superfluous-sig" ELSE IF Len(r.p) > 0 THEN "superfluous-pre" ELSE "accept"
CommitsV2 == Simple \o Threshes \o [i \in DOMAIN UCs |-> PUc(UCs[i])]
MasksOf(c) == IF c.k = "thresh" /\ Len(c.of) > 0 THEN Masks ELSE <<"none">>
\* what the family must show (checked below): every stage of both interpreters is the verdict of some case, and every odd key is
\* dereferenced by some case (the interpreter reads its bytes)
StagesV1 == {V1Stage(UCs[i], RevealsV1[r]) : i \in DOMAIN UCs, r \in DOMAIN RevealsV1}
StagesV2 == {V2Stage(Mask(CommitsV2[i], m), Sats[s]) : i \in 1..(Len(Simple) + Len(Threshes)), m \in {"none", "first", "all"}, s \in DOMAIN Sats}
                \cup {V2Stage(PUc(UCs[i]), Sats[s]) : i \in DOMAIN UCs, s \in DOMAIN Sats}
ASSUME RevealStages == /\ StagesV1 = {"input-timelock", "nokey", "redundant", "sig-timelock", "covered", "invalid", "entropy", "missing", "accept"}
                       /\ StagesV2 = {"height", "time", "signature", "preimage", "opaque", "uc-threshold", "entropy", "threshold", "threshold-exceeded", "uc-sub-policy",
                                      "superfluous-sig", "superfluous-pre", "accept"}
ASSUME OddKeysRead == \A n \in {0, 1, 31, 33, 64} : \E i \in DOMAIN UCs, r \in DOMAIN RevealsV1 :
                          /\ UCs[i].keys = <<Key("ed25519", n)>>
                          /\ V1Stage(UCs[i], RevealsV1[r]) \in {"invalid", "accept"}
RevealCat == {E("reveal", <<1, f, "">>, "uc") : f \in Range(FormsV1)} \cup
             {E("reveal", <<2, f, "">>, x) : f \in Range(FormsV2), x \in {"above", "after", "pk", "hash", "opaque", "thresh", "uc"}}

Catalogue == SuppEraCat \cup WrapCat \cup ComplementCat \cup LifecycleCat \cup ConfuseCat \cup DecodedCat \cup CurSingles \cup CurPairs \cup ProofCat \cup CoveredCat \cup SigCat \cup ParentCat \cup SuppCat \cup PolicyCat \cup ResCat \cup EraCat \cup SizeCat \cup WinCat \cup ShapeCat \cup RevealCat
Families == {e.fam : e \in Catalogue}

VARIABLE step
Init == /\ step = 0
        /\ \A e \in Catalogue : PrintT("@@EXT " \o ToJson(e))
        /\ PrintT("@@EXTCOUNT " \o ToString(Cardinality(Catalogue)))
        /\ PrintT("@@FAMILIES " \o ToJson(Families))
        \* commit, then reveal: the pre-images with the predicted stage of every reveal
        /\ PrintT("@@RV1R " \o ToJson(RevealsV1))
        /\ PrintT("@@RV2S " \o ToJson(Sats))
        /\ PrintT("@@RVF " \o ToJson([v1 |-> FormsV1, v2 |-> FormsV2]))
        /\ \A i \in DOMAIN UCs : PrintT("@@RV1 " \o ToJson([uc |-> UCs[i], st |-> [r \in DOMAIN RevealsV1 |-> V1Stage(UCs[i], RevealsV1[r])],
                                                                   st2 |-> [r \in DOMAIN RevealsV1 |-> V1StageO(UCs[i], RevealsV1[r], TRUE)]]))
        /\ \A i \in DOMAIN CommitsV2 : \A j \in DOMAIN MasksOf(CommitsV2[i]) :
              LET c == CommitsV2[i]
                  m == MasksOf(c)[j]
              IN  PrintT("@@RV2 " \o ToJson([commit |-> c, mask |-> m, reveal |-> Mask(c, m), st |-> [s \in DOMAIN Sats |-> V2Stage(Mask(c, m), Sats[s])]]))
        /\ PrintT("@@RVCOUNT " \o ToJson(<<Len(UCs), Len(RevealsV1), Len(CommitsV2), Len(Sats)>>))
Next == step = 0 /\ step' = 1
Spec == Init /\ [][Next]_step
\* every entry is well formed: a known version, a member, an extreme; exactly the pair entries name a second member and extreme
ASSUME WellFormed == \A e \in Catalogue : /\ e.ver \in {0, 1, 2} /\ e.t # "" /\ e.x # ""
                                   /\ (e.fam = "cur2" => e.t2 # "" /\ e.x2 # "")
                                   /\ (e.fam \notin {"cur2", "covered", "lifecycle", "wrap"} => e.t2 = "" /\ e.x2 = "")
=============================================================================
