----------------------------- MODULE TextLimits -----------------------------
(* The values at the limits (Text!LimitCases), emitted one per initial state as
   @@LIMIT records for the harness, which builds each at its real size and has
   the real code print and parse it in every form.  Model-internal checks
   (a failure here is a specification bug):
     - the descriptors' "within" flags are what the limit constants say;
     - AGREEMENT inside the specification: every limit currency, printed in the
       unit form and in the exact form, lies in the accepted language and
       denotes the value; every "beyond" currency text lies outside it;
     - the limit timestamps lie in the 64-bit range, the RFC 3339 edges are the
       first and last second the form can print.                             *)
EXTENDS Text, TLC, Json
VARIABLE c
Init == c \in LimitCases /\ PrintT("@@LIMIT " \o ToJson(c))
Next == UNCHANGED c
Spec == Init /\ [][Next]_c

Flags ==
  /\ c.fam = "nest" => c.within = (c.a <= 32)
  /\ c.fam = "wide" => c.within = (c.a <= 255)
  /\ c.fam \in {"keys", "keylen", "specbyte", "currency"} => c.within
  /\ c.fam = "beyond" => ~c.within /\ c.t # <<>>
CurrencyAgreement ==
  /\ c.fam = "currency" =>
       /\ IsNat(c.n) /\ Le(c.n, MaxCurrency)
       /\ \A f \in UnitForms \cup ExactForms :
            LET txt == CurFormText(f, c.n) IN CurAccepts(txt) /\ CurDenotes(txt) = c.n
       /\ CurFormText("JSON", c.n) = <<QUOTE>> \o Dec(c.n) \o <<QUOTE>>
  /\ (c.fam = "beyond" /\ c.s = "Currency") => CurWellFormedText(c.t) /\ ~CurAccepts(c.t)
TimeRange ==
  c.fam = "time" => LET t == Unix(c.a = 1, c.n) IN
       /\ IsUnix64(t.neg, t.n)
       /\ c.within = InJSONYears(t)
       /\ UnixLe(MinUnix64, t) /\ UnixLe(t, MaxUnix64)
SpecBytes ==
  c.fam = "specbyte" => LET bs == Pad16(SpecPattern(c.a, c.b)) IN
       /\ Len(bs) = 16 /\ IsBytes(bs)
       /\ (c.b # 5 => InSpecAlphabet(bs))                 \* only pattern 5 can leave the layout domain
       /\ (InSpecAlphabet(bs) /\ NeedsQuote(Trim0(bs))) => SpecText(bs)[1] = QUOTE
=============================================================================
