-------------------------------- MODULE Text --------------------------------
(* Printed forms and accepted languages of the identifiers, numbers and policy
   strings of go.sia.tech/core, as sequences of character codes (TLC strings
   are atomic), and the equivalence under which a text / JSON round trip must
   be the identity.

   Nothing here is copied from the Go marshalers: the layouts below are the
   protocol's textual conventions
     - a hash / ID / signature is the lower-case hex of its bytes, no prefix;
     - an address is hex(32 bytes) followed by hex(6-byte checksum), the
       checksum being the first six bytes of the BLAKE2b-256 hash of the 32
       bytes (TLC cannot hash: the checksum is part of the abstract value and
       is recomputed by the harness with an independent BLAKE2b);
     - public keys and RHP4 accounts are "ed25519:" + hex(32 bytes);
     - a specifier prints its bytes up to the trailing zero padding, bare when
       every byte is an ASCII letter or digit, otherwise as a quoted string
       literal with backslash escapes;
     - an unlock key is <specifier>:<hex of key>;  a chain index <height>::<hex id>;
     - a protocol version is v<a>.<b>.<c>;  Work and Currency are decimal;
     - policy strings:  above(n) after(n) pk(0x..) h(0x..) opaque(0x..)
       thresh(n,[p,...])  uc(timelock,[key,...],sigs).
   Numbers that may exceed 2^31 are BigNat limb sequences (base 2^15).        *)
EXTENDS Integers, Sequences, BigNat

\* ---------------------------------------------------------------------------
\* characters
IsDigit(c)    == c \in 48..57
IsLowerHex(c) == c \in 48..57 \/ c \in 97..102
IsHex(c)      == IsLowerHex(c) \/ c \in 65..70
IsAlnum(c)    == c \in 48..57 \/ c \in 65..90 \/ c \in 97..122
Lower(c)      == IF c \in 65..90 THEN c + 32 ELSE c
Upper(c)      == IF c \in 97..122 THEN c - 32 ELSE c
LowerSeq(s)   == [i \in DOMAIN s |-> Lower(s[i])]
UpperSeq(s)   == [i \in DOMAIN s |-> Upper(s[i])]
AllHex(s)     == \A i \in DOMAIN s : IsHex(s[i])
AllLowerHex(s) == \A i \in DOMAIN s : IsLowerHex(s[i])
IsBytes(bs)   == \A i \in DOMAIN bs : bs[i] \in 0..255

HexDigit(n)   == IF n < 10 THEN 48 + n ELSE 87 + n
HexVal(c)     == IF c \in 48..57 THEN c - 48 ELSE IF c \in 97..102 THEN c - 87 ELSE c - 55
HexOf(bs)     == [i \in 1..(2 * Len(bs)) |->
                    LET b == bs[(i + 1) \div 2] IN
                    IF i % 2 = 1 THEN HexDigit(b \div 16) ELSE HexDigit(b % 16)]
\* inverse, defined on even-length all-hex texts (either case)
UnHex(s)      == [i \in 1..(Len(s) \div 2) |-> 16 * HexVal(s[2 * i - 1]) + HexVal(s[2 * i])]

\* decimal numerals
Dec(x)        == LET ds == Digits(x) IN [i \in DOMAIN ds |-> 48 + ds[i]]
DecInt(n)     == Dec(FromInt(n))

\* literals (TLC cannot index strings)
L_ed25519 == <<101, 100, 50, 53, 53, 49, 57, 58>>      \* ed25519:
L_0x      == <<48, 120>>                                \* 0x
L_above   == <<97, 98, 111, 118, 101>>
L_after   == <<97, 102, 116, 101, 114>>
L_pk      == <<112, 107>>
L_h       == <<104>>
L_thresh  == <<116, 104, 114, 101, 115, 104>>
L_opaque  == <<111, 112, 97, 113, 117, 101>>
L_uc      == <<117, 99>>
LP == 40   RP == 41   LB == 91   RB == 93   COMMA == 44   COLON == 58   QUOTE == 34   BSL == 92
DOT == 46  MINUS == 45  LV == 118

\* ---------------------------------------------------------------------------
\* identifier kinds
HashKinds == {"Hash256", "BlockID", "TransactionID", "SiacoinOutputID", "SiafundOutputID",
              "FileContractID", "AttestationID"}
PrefixedKinds == {"PublicKey", "Account"}
NBytes(kind) == IF kind = "Signature" THEN 64 ELSE 32
Prefix(kind) == IF kind \in PrefixedKinds THEN L_ed25519 ELSE <<>>

\* ---------------------------------------------------------------------------
\* specifiers.  The quoting alphabet of this specification: ASCII, and bytes that
\* can never start a valid UTF-8 sequence when no lead byte 0xC2..0xF4 is present
\* (continuation bytes, 0xC0, 0xC1, 0xF5..0xFF): each such byte is escaped alone.
InSpecAlphabet(bs) == \A i \in DOMAIN bs : bs[i] \in 0..193 \/ bs[i] \in 245..255
RECURSIVE Trim0(_)
Trim0(bs) == IF Len(bs) > 0 /\ bs[Len(bs)] = 0 THEN Trim0(SubSeq(bs, 1, Len(bs) - 1)) ELSE bs
EscByte(b) ==
  CASE b = QUOTE -> <<BSL, QUOTE>>
    [] b = BSL   -> <<BSL, BSL>>
    [] b = 7     -> <<BSL, 97>>
    [] b = 8     -> <<BSL, 98>>
    [] b = 12    -> <<BSL, 102>>
    [] b = 10    -> <<BSL, 110>>
    [] b = 13    -> <<BSL, 114>>
    [] b = 9     -> <<BSL, 116>>
    [] b = 11    -> <<BSL, 118>>
    [] b < 32 \/ b >= 127 -> <<BSL, 120, HexDigit(b \div 16), HexDigit(b % 16)>>
    [] OTHER     -> <<b>>
RECURSIVE EscBody(_)
EscBody(s) == IF s = <<>> THEN <<>> ELSE EscByte(Head(s)) \o EscBody(Tail(s))
Quoted(s)  == <<QUOTE>> \o EscBody(s) \o <<QUOTE>>
NeedsQuote(s) == \E i \in DOMAIN s : ~IsAlnum(s[i])
SpecText(bs16) == LET t == Trim0(bs16) IN IF NeedsQuote(t) THEN Quoted(t) ELSE t

UnlockKeyText(alg, key) == SpecText(alg) \o <<COLON>> \o HexOf(key)

\* ---------------------------------------------------------------------------
\* TextOf(kind, v) / PrintID: the text form of abstract value v
PrintID(kind, v) ==
  CASE kind \in HashKinds \/ kind = "Signature" -> HexOf(v.b)
    [] kind \in PrefixedKinds -> L_ed25519 \o HexOf(v.b)
    [] kind = "Address"       -> HexOf(v.b) \o HexOf(v.ck)
    [] kind = "Specifier"     -> SpecText(v.b)
    [] kind = "UnlockKey"     -> UnlockKeyText(v.alg, v.key)
    [] kind = "ChainIndex"    -> Dec(v.h) \o <<COLON, COLON>> \o HexOf(v.id)
    [] kind = "ProtocolVersion" -> <<LV>> \o DecInt(v.v[1]) \o <<DOT>> \o DecInt(v.v[2]) \o <<DOT>> \o DecInt(v.v[3])
    [] kind = "Work"          -> Dec(v.n)
    [] kind = "Currency"      -> Dec(v.n)

WellFormedID(kind, v) ==
  CASE kind \in HashKinds \/ kind = "Signature" \/ kind \in PrefixedKinds -> Len(v.b) = NBytes(kind) /\ IsBytes(v.b)
    [] kind = "Address"   -> Len(v.b) = 32 /\ Len(v.ck) = 6 /\ IsBytes(v.b) /\ IsBytes(v.ck)
    [] kind = "Specifier" -> Len(v.b) = 16 /\ IsBytes(v.b) /\ InSpecAlphabet(v.b)
    [] kind = "UnlockKey" -> Len(v.alg) = 16 /\ IsBytes(v.alg) /\ InSpecAlphabet(v.alg) /\ IsBytes(v.key)
    [] kind = "ChainIndex" -> IsNat(v.h) /\ Lt(v.h, Pow2(64)) /\ Len(v.id) = 32 /\ IsBytes(v.id)
    [] kind = "ProtocolVersion" -> Len(v.v) = 3 /\ IsBytes(v.v)
    [] kind = "Work"      -> IsNat(v.n) /\ Lt(v.n, Pow2(256))
    [] kind = "Currency"  -> IsNat(v.n) /\ Lt(v.n, Pow2(128))

\* ---------------------------------------------------------------------------
\* policy strings.  A policy is a record with k in
\*   above[n]  after[neg,n]  pk[b]  h[b]  opaque[b]  thresh[n (int), of]  uc[tl, keys[alg,key], sr]
RECURSIVE Join(_)
Join(ts) == IF ts = <<>> THEN <<>>
            ELSE IF Len(ts) = 1 THEN ts[1] ELSE ts[1] \o <<COMMA>> \o Join(Tail(ts))
Call(name, arg) == name \o <<LP>> \o arg \o <<RP>>
RECURSIVE PolText(_)
PolText(p) ==
  CASE p.k = "above"  -> Call(L_above, Dec(p.n))
    [] p.k = "after"  -> Call(L_after, (IF p.neg THEN <<MINUS>> ELSE <<>>) \o Dec(p.n))
    [] p.k = "pk"     -> Call(L_pk, L_0x \o HexOf(p.b))
    [] p.k = "h"      -> Call(L_h, L_0x \o HexOf(p.b))
    [] p.k = "opaque" -> Call(L_opaque, L_0x \o HexOf(p.b))
    [] p.k = "thresh" -> Call(L_thresh, DecInt(p.n) \o <<COMMA, LB>>
                              \o Join([i \in DOMAIN p.of |-> PolText(p.of[i])]) \o <<RB>>)
    [] p.k = "uc"     -> Call(L_uc, Dec(p.tl) \o <<COMMA, LB>>
                              \o Join([i \in DOMAIN p.keys |-> UnlockKeyText(p.keys[i].alg, p.keys[i].key)])
                              \o <<RB, COMMA>> \o Dec(p.sr))
RECURSIVE WellFormedPol(_)
WellFormedPol(p) ==
  CASE p.k = "above"  -> IsNat(p.n) /\ Lt(p.n, Pow2(64))
    [] p.k = "after"  -> IsNat(p.n) /\ Lt(p.n, Pow2(63)) /\ (p.neg => p.n # <<>>)
    [] p.k \in {"pk", "h", "opaque"} -> Len(p.b) = 32 /\ IsBytes(p.b)
    [] p.k = "thresh" -> p.n \in 0..255 /\ \A i \in DOMAIN p.of : WellFormedPol(p.of[i])
    [] p.k = "uc"     -> /\ IsNat(p.tl) /\ Lt(p.tl, Pow2(64)) /\ IsNat(p.sr) /\ Lt(p.sr, Pow2(64))
                         /\ \A i \in DOMAIN p.keys : /\ Len(p.keys[i].alg) = 16 /\ IsBytes(p.keys[i].alg)
                                                     /\ InSpecAlphabet(p.keys[i].alg) /\ IsBytes(p.keys[i].key)
    [] OTHER -> FALSE

TextOf(kind, v)     == IF kind = "SpendPolicy" THEN PolText(v) ELSE PrintID(kind, v)
WellFormed(kind, v) == IF kind = "SpendPolicy" THEN WellFormedPol(v) ELSE WellFormedID(kind, v)

\* the JSON string carrying a text form (Go escapes the HTML characters as well);
\* the text forms above never contain raw control characters
JSONChar(c) ==
  CASE c = QUOTE -> <<BSL, QUOTE>>
    [] c = BSL   -> <<BSL, BSL>>
    [] c \in {60, 62, 38} -> <<BSL, 117, 48, 48, HexDigit(c \div 16), HexDigit(c % 16)>>
    [] OTHER -> <<c>>
RECURSIVE JSONBody(_)
JSONBody(s) == IF s = <<>> THEN <<>> ELSE JSONChar(Head(s)) \o JSONBody(Tail(s))
JSONString(s) == <<QUOTE>> \o JSONBody(s) \o <<QUOTE>>
\* kinds whose JSON form is the quoted text form
TextJSONKinds == HashKinds \cup PrefixedKinds \cup
                 {"Signature", "Address", "Specifier", "UnlockKey", "ProtocolVersion", "Work", "Currency"}

\* ---------------------------------------------------------------------------
\* Normalisation: the equivalence under which a round trip must be the identity.
\* The only things a text or JSON form does not carry are (i) whether an empty
\* collection was nil or empty (flags ofNil / keysNil / keyNil of the abstract
\* values are ignored) and, for the big JSON types compared on the Go side,
\* the rules listed in JSONRules below.
RECURSIVE PolEquiv(_, _)
PolEquiv(a, b) ==
  /\ a.k = b.k
  /\ CASE a.k = "above"  -> a.n = b.n
       [] a.k = "after"  -> a.neg = b.neg /\ a.n = b.n
       [] a.k \in {"pk", "h", "opaque"} -> a.b = b.b
       [] a.k = "thresh" -> /\ a.n = b.n /\ Len(a.of) = Len(b.of)
                            /\ \A i \in DOMAIN a.of : PolEquiv(a.of[i], b.of[i])
       [] a.k = "uc"     -> /\ a.tl = b.tl /\ a.sr = b.sr /\ Len(a.keys) = Len(b.keys)
                            /\ \A i \in DOMAIN a.keys : /\ a.keys[i].alg = b.keys[i].alg
                                                        /\ a.keys[i].key = b.keys[i].key
       [] OTHER -> FALSE
Equiv(kind, a, b) ==
  CASE kind = "SpendPolicy" -> PolEquiv(a, b)
    [] kind = "UnlockKey"   -> a.alg = b.alg /\ a.key = b.key        \* keyNil ignored
    [] kind = "Address"     -> a.b = b.b /\ a.ck = b.ck
    [] kind = "ChainIndex"  -> a.h = b.h /\ a.id = b.id
    [] kind = "ProtocolVersion" -> a.v = b.v
    [] kind \in {"Work", "Currency"} -> a.n = b.n
    [] OTHER -> a.b = b.b

\* Rules the Go-side comparison of the big JSON types may use, and where.
\*   nil-empty       a nil collection and an empty one are the same value
\*   time-instant    times are compared as instants (zone and monotonic reading are not data)
\*   revision-payout FileContractRevision.Payout is not part of a revision (documented sentinel after decoding)
\*   network-omitted State.Network is configuration, not encoded
\*   acc-unused-trees ElementAccumulator.Trees[h] is data only where bit h of NumLeaves is set (the slots
\*                   of merged trees keep stale roots in memory; neither encoding carries them)
CommonRules == {"nil-empty", "time-instant"}
HasV1Revision == {"FileContractRevision", "Transaction", "Block", "V1TransactionSupplement", "V1BlockSupplement",
                  "rhp2.ContractRevision"}
JSONRules(type) == CommonRules
                   \cup (IF type \in HasV1Revision THEN {"revision-payout"} ELSE {})
                   \cup (IF type = "State" THEN {"network-omitted", "acc-unused-trees"} ELSE {})
                   \cup (IF type = "ElementAccumulator" THEN {"acc-unused-trees"} ELSE {})

\* ---------------------------------------------------------------------------
\* accepted language (structure only; an address additionally needs its checksum)
HexPartOK(s, n) == Len(s) = 2 * n /\ AllHex(s)
HasPrefix(s, p) == Len(s) >= Len(p) /\ SubSeq(s, 1, Len(p)) = p
Accepts(kind, s) ==
  CASE kind \in HashKinds \/ kind = "Signature" -> HexPartOK(s, NBytes(kind))
    [] kind \in PrefixedKinds -> HasPrefix(s, L_ed25519) /\ HexPartOK(SubSeq(s, 9, Len(s)), 32)
    [] kind = "Address" -> HexPartOK(s, 38)
\* the bytes an accepted text denotes
Decode(kind, s) == IF kind \in PrefixedKinds THEN UnHex(SubSeq(s, 9, Len(s))) ELSE UnHex(s)

\* ---------------------------------------------------------------------------
\* corruption operators (direction A)
Subst(s, i, c)  == [s EXCEPT ![i] = c]
Insert(s, i, c) == SubSeq(s, 1, i - 1) \o <<c>> \o SubSeq(s, i, Len(s))     \* c becomes s'[i]
Delete(s, i)    == SubSeq(s, 1, i - 1) \o SubSeq(s, i + 1, Len(s))
Swap(s, i)      == [s EXCEPT ![i] = s[i + 1], ![i + 1] = s[i]]
CaseVariant(orig, s) == s # orig /\ LowerSeq(s) = LowerSeq(orig)
=============================================================================
