-------------------------------- MODULE Text --------------------------------
(* Printed forms and accepted languages of the identifiers, numbers and policy
   strings of go.sia.tech/core, as sequences of character codes (TLC strings
   are atomic), and the equivalence under which a text / JSON round trip must
   be the identity.

   Nothing here is copied from the Go marshalers: the layouts below are the
   protocol's textual conventions
     - a hash / ID / signature is the lower-case hex of its bytes, no prefix;
     - an address is hex(32 bytes) followed by hex(6-byte checksum), the
       checksum being the first six bytes of the BLAKE2b-256 hash of the 32
       bytes (TLC cannot hash: the checksum is part of the abstract value and
       is recomputed by the harness with an independent BLAKE2b);
     - public keys and RHP4 accounts are "ed25519:" + hex(32 bytes);
     - a specifier prints its bytes up to the trailing zero padding, bare when
       every byte is an ASCII letter or digit, otherwise as a quoted string
       literal with backslash escapes;
     - an unlock key is <specifier>:<hex of key>;  a chain index <height>::<hex id>;
     - a protocol version is v<a>.<b>.<c>;  Work and Currency are decimal;
     - policy strings:  above(n) after(n) pk(0x..) h(0x..) opaque(0x..)
       thresh(n,[p,...])  uc(timelock,[key,...],sigs).
   Numbers that may exceed 2^31 are BigNat limb sequences (base 2^15).

   LIMITS (section "limits" below).  The text and JSON forms are one of several
   codecs of the same values; the others (the binary codec, the Go type itself)
   bound what a value can be: a policy may sit under at most 32 thresholds, a
   threshold counts its children in one byte, a currency has 128 bits, a
   timestamp is a 64-bit Unix second.  The agreement clause of this
   specification: EVERY VALUE THE BINARY CODEC ROUND-TRIPS HAS A TEXT FORM (AND A
   JSON FORM) THAT PARSES BACK TO IT, in every printed form the type offers.
   One step beyond a limit a form may refuse, but it may not return a
   different value.  LimitCases enumerates the extreme values (as compact
   descriptors; the harness builds them at their real size and TextTrace checks
   with Realises that what was built is what was described).                 *)
EXTENDS Integers, Sequences, BigNat

\* ---------------------------------------------------------------------------
\* characters
IsDigit(c)    == c \in 48..57
IsLowerHex(c) == c \in 48..57 \/ c \in 97..102
IsHex(c)      == IsLowerHex(c) \/ c \in 65..70
IsAlnum(c)    == c \in 48..57 \/ c \in 65..90 \/ c \in 97..122
Lower(c)      == IF c \in 65..90 THEN c + 32 ELSE c
Upper(c)      == IF c \in 97..122 THEN c - 32 ELSE c
LowerSeq(s)   == [i \in DOMAIN s |-> Lower(s[i])]
UpperSeq(s)   == [i \in DOMAIN s |-> Upper(s[i])]
AllHex(s)     == \A i \in DOMAIN s : IsHex(s[i])
AllLowerHex(s) == \A i \in DOMAIN s : IsLowerHex(s[i])
IsBytes(bs)   == \A i \in DOMAIN bs : bs[i] \in 0..255

HexDigit(n)   == IF n < 10 THEN 48 + n ELSE 87 + n
HexVal(c)     == IF c \in 48..57 THEN c - 48 ELSE IF c \in 97..102 THEN c - 87 ELSE c - 55
HexOf(bs)     == [i \in 1..(2 * Len(bs)) |->
                    LET b == bs[(i + 1) \div 2] IN
                    IF i % 2 = 1 THEN HexDigit(b \div 16) ELSE HexDigit(b % 16)]
\* inverse, defined on even-length all-hex texts (either case)
UnHex(s)      == [i \in 1..(Len(s) \div 2) |-> 16 * HexVal(s[2 * i - 1]) + HexVal(s[2 * i])]

\* decimal numerals
Dec(x)        == LET ds == Digits(x) IN [i \in DOMAIN ds |-> 48 + ds[i]]
DecInt(n)     == Dec(FromInt(n))

\* literals (TLC cannot index strings)
L_ed25519 == <<101, 100, 50, 53, 53, 49, 57, 58>>      \* ed25519:
L_0x      == <<48, 120>>                                \* 0x
L_above   == <<97, 98, 111, 118, 101>>
L_after   == <<97, 102, 116, 101, 114>>
L_pk      == <<112, 107>>
L_h       == <<104>>
L_thresh  == <<116, 104, 114, 101, 115, 104>>
L_opaque  == <<111, 112, 97, 113, 117, 101>>
L_uc      == <<117, 99>>
LP == 40   RP == 41   LB == 91   RB == 93   COMMA == 44   COLON == 58   QUOTE == 34   BSL == 92
DOT == 46  MINUS == 45  LV == 118

\* ---------------------------------------------------------------------------
\* identifier kinds
HashKinds == {"Hash256", "BlockID", "TransactionID", "SiacoinOutputID", "SiafundOutputID",
              "FileContractID", "AttestationID"}
PrefixedKinds == {"PublicKey", "Account"}
NBytes(kind) == IF kind = "Signature" THEN 64 ELSE 32
Prefix(kind) == IF kind \in PrefixedKinds THEN L_ed25519 ELSE <<>>

\* ---------------------------------------------------------------------------
\* specifiers.  The quoting alphabet of this specification: ASCII, bytes that can
\* never start a valid UTF-8 sequence (continuation bytes without a lead byte, 0xC0,
\* 0xC1, 0xF5..0xFF) and lead bytes 0xC2..0xF4 that are NOT followed by a continuation
\* byte (a truncated sequence): each such byte is escaped alone.  Byte strings that
\* contain a lead byte followed by a continuation byte may be valid UTF-8 text, whose
\* quoted layout is not stated here: such specifiers are round-tripped only
\* (documented restriction; trace lines carry layout = FALSE for them).
IsCont(b) == b \in 128..191
IsLead(b) == b \in 194..244
InSpecAlphabet(bs) == \A i \in DOMAIN bs : IsLead(bs[i]) => (i = Len(bs) \/ ~IsCont(bs[i + 1]))
RECURSIVE Trim0(_)
Trim0(bs) == IF Len(bs) > 0 /\ bs[Len(bs)] = 0 THEN Trim0(SubSeq(bs, 1, Len(bs) - 1)) ELSE bs
EscByte(b) ==
  CASE b = QUOTE -> <<BSL, QUOTE>>
    [] b = BSL   -> <<BSL, BSL>>
    [] b = 7     -> <<BSL, 97>>
    [] b = 8     -> <<BSL, 98>>
    [] b = 12    -> <<BSL, 102>>
    [] b = 10    -> <<BSL, 110>>
    [] b = 13    -> <<BSL, 114>>
    [] b = 9     -> <<BSL, 116>>
    [] b = 11    -> <<BSL, 118>>
    [] b < 32 \/ b >= 127 -> <<BSL, 120, HexDigit(b \div 16), HexDigit(b % 16)>>
    [] OTHER     -> <<b>>
RECURSIVE EscBody(_)
EscBody(s) == IF s = <<>> THEN <<>> ELSE EscByte(Head(s)) \o EscBody(Tail(s))
Quoted(s)  == <<QUOTE>> \o EscBody(s) \o <<QUOTE>>
NeedsQuote(s) == \E i \in DOMAIN s : ~IsAlnum(s[i])
SpecText(bs16) == LET t == Trim0(bs16) IN IF NeedsQuote(t) THEN Quoted(t) ELSE t

UnlockKeyText(alg, key) == SpecText(alg) \o <<COLON>> \o HexOf(key)

\* ---------------------------------------------------------------------------
\* TextOf(kind, v) / PrintID: the text form of abstract value v
PrintID(kind, v) ==
  CASE kind \in HashKinds \/ kind = "Signature" -> HexOf(v.b)
    [] kind \in PrefixedKinds -> L_ed25519 \o HexOf(v.b)
    [] kind = "Address"       -> HexOf(v.b) \o HexOf(v.ck)
    [] kind = "Specifier"     -> SpecText(v.b)
    [] kind = "UnlockKey"     -> UnlockKeyText(v.alg, v.key)
    [] kind = "ChainIndex"    -> Dec(v.h) \o <<COLON, COLON>> \o HexOf(v.id)
    [] kind = "ProtocolVersion" -> <<LV>> \o DecInt(v.v[1]) \o <<DOT>> \o DecInt(v.v[2]) \o <<DOT>> \o DecInt(v.v[3])
    [] kind = "Work"          -> Dec(v.n)
    [] kind = "Currency"      -> Dec(v.n)

\* strict: the value also lies in the domain for which the LAYOUT is stated (quoting alphabet)
WellFormedID(kind, v, strict) ==
  CASE kind \in HashKinds \/ kind = "Signature" \/ kind \in PrefixedKinds -> Len(v.b) = NBytes(kind) /\ IsBytes(v.b)
    [] kind = "Address"   -> Len(v.b) = 32 /\ Len(v.ck) = 6 /\ IsBytes(v.b) /\ IsBytes(v.ck)
    [] kind = "Specifier" -> Len(v.b) = 16 /\ IsBytes(v.b) /\ (strict => InSpecAlphabet(v.b))
    [] kind = "UnlockKey" -> Len(v.alg) = 16 /\ IsBytes(v.alg) /\ (strict => InSpecAlphabet(v.alg)) /\ IsBytes(v.key)
    [] kind = "ChainIndex" -> IsNat(v.h) /\ Lt(v.h, Pow2(64)) /\ Len(v.id) = 32 /\ IsBytes(v.id)
    [] kind = "ProtocolVersion" -> Len(v.v) = 3 /\ IsBytes(v.v)
    [] kind = "Work"      -> IsNat(v.n) /\ Lt(v.n, Pow2(256))
    [] kind = "Currency"  -> IsNat(v.n) /\ Lt(v.n, Pow2(128))

\* ---------------------------------------------------------------------------
\* policy strings.  A policy is a record with k in
\*   above[n]  after[neg,n]  pk[b]  h[b]  opaque[b]  thresh[n (int), of]  uc[tl, keys[alg,key], sr]
\* ts[lo] , ts[lo+1] , ... , ts[hi]   (balanced, so that 255 children or 1024 keys stay cheap)
RECURSIVE JoinR(_, _, _)
JoinR(ts, lo, hi) == IF lo > hi THEN <<>>
                     ELSE IF lo = hi THEN ts[lo]
                     ELSE LET mid == (lo + hi) \div 2 IN JoinR(ts, lo, mid) \o <<COMMA>> \o JoinR(ts, mid + 1, hi)
Join(ts) == JoinR(ts, 1, Len(ts))
Call(name, arg) == name \o <<LP>> \o arg \o <<RP>>
RECURSIVE PolText(_)
PolText(p) ==
  CASE p.k = "above"  -> Call(L_above, Dec(p.n))
    [] p.k = "after"  -> Call(L_after, (IF p.neg THEN <<MINUS>> ELSE <<>>) \o Dec(p.n))
    [] p.k = "pk"     -> Call(L_pk, L_0x \o HexOf(p.b))
    [] p.k = "h"      -> Call(L_h, L_0x \o HexOf(p.b))
    [] p.k = "opaque" -> Call(L_opaque, L_0x \o HexOf(p.b))
    [] p.k = "thresh" -> Call(L_thresh, DecInt(p.n) \o <<COMMA, LB>>
                              \o Join([i \in DOMAIN p.of |-> PolText(p.of[i])]) \o <<RB>>)
    [] p.k = "uc"     -> Call(L_uc, Dec(p.tl) \o <<COMMA, LB>>
                              \o Join([i \in DOMAIN p.keys |-> UnlockKeyText(p.keys[i].alg, p.keys[i].key)])
                              \o <<RB, COMMA>> \o Dec(p.sr))
\* a Unix second as carried by the binary form: sign and magnitude, -2^63 .. 2^63-1
IsUnix64(neg, n) == /\ IsNat(n) /\ (neg => n # <<>>)
                    /\ IF neg THEN Le(n, Pow2(63)) ELSE Lt(n, Pow2(63))
RECURSIVE WellFormedPol(_, _)
WellFormedPol(p, strict) ==
  CASE p.k = "above"  -> IsNat(p.n) /\ Lt(p.n, Pow2(64))
    [] p.k = "after"  -> IsUnix64(p.neg, p.n)
    [] p.k \in {"pk", "h", "opaque"} -> Len(p.b) = 32 /\ IsBytes(p.b)
    [] p.k = "thresh" -> p.n \in 0..255 /\ \A i \in DOMAIN p.of : WellFormedPol(p.of[i], strict)
    [] p.k = "uc"     -> /\ IsNat(p.tl) /\ Lt(p.tl, Pow2(64)) /\ IsNat(p.sr) /\ Lt(p.sr, Pow2(64))
                         /\ \A i \in DOMAIN p.keys : /\ Len(p.keys[i].alg) = 16 /\ IsBytes(p.keys[i].alg)
                                                     /\ (strict => InSpecAlphabet(p.keys[i].alg)) /\ IsBytes(p.keys[i].key)
    [] OTHER -> FALSE

TextOf(kind, v)     == IF kind = "SpendPolicy" THEN PolText(v) ELSE PrintID(kind, v)
WellFormedS(kind, v, strict) == IF kind = "SpendPolicy" THEN WellFormedPol(v, strict) ELSE WellFormedID(kind, v, strict)
WellFormed(kind, v) == WellFormedS(kind, v, TRUE)

\* the JSON string carrying a text form (Go escapes the HTML characters as well);
\* the text forms above never contain raw control characters
JSONChar(c) ==
  CASE c = QUOTE -> <<BSL, QUOTE>>
    [] c = BSL   -> <<BSL, BSL>>
    [] c \in {60, 62, 38} -> <<BSL, 117, 48, 48, HexDigit(c \div 16), HexDigit(c % 16)>>
    [] OTHER -> <<c>>
RECURSIVE JSONBodyR(_, _, _)
JSONBodyR(s, lo, hi) == IF lo > hi THEN <<>>
                        ELSE IF lo = hi THEN JSONChar(s[lo])
                        ELSE LET mid == (lo + hi) \div 2 IN JSONBodyR(s, lo, mid) \o JSONBodyR(s, mid + 1, hi)
JSONBody(s) == JSONBodyR(s, 1, Len(s))
JSONString(s) == <<QUOTE>> \o JSONBody(s) \o <<QUOTE>>
\* kinds whose JSON form is the quoted text form
TextJSONKinds == HashKinds \cup PrefixedKinds \cup
                 {"Signature", "Address", "Specifier", "UnlockKey", "ProtocolVersion", "Work", "Currency"}

\* ---------------------------------------------------------------------------
\* Normalisation: the equivalence under which a round trip must be the identity.
\* The only things a text or JSON form does not carry are (i) whether an empty
\* collection was nil or empty (flags ofNil / keysNil / keyNil of the abstract
\* values are ignored) and, for the big JSON types compared on the Go side,
\* the rules listed in JSONRules below.
RECURSIVE PolEquiv(_, _)
PolEquiv(a, b) ==
  /\ a.k = b.k
  /\ CASE a.k = "above"  -> a.n = b.n
       [] a.k = "after"  -> a.neg = b.neg /\ a.n = b.n
       [] a.k \in {"pk", "h", "opaque"} -> a.b = b.b
       [] a.k = "thresh" -> /\ a.n = b.n /\ Len(a.of) = Len(b.of)
                            /\ \A i \in DOMAIN a.of : PolEquiv(a.of[i], b.of[i])
       [] a.k = "uc"     -> /\ a.tl = b.tl /\ a.sr = b.sr /\ Len(a.keys) = Len(b.keys)
                            /\ \A i \in DOMAIN a.keys : /\ a.keys[i].alg = b.keys[i].alg
                                                        /\ a.keys[i].key = b.keys[i].key
       [] OTHER -> FALSE
Equiv(kind, a, b) ==
  CASE kind = "SpendPolicy" -> PolEquiv(a, b)
    [] kind = "UnlockKey"   -> a.alg = b.alg /\ a.key = b.key        \* keyNil ignored
    [] kind = "Address"     -> a.b = b.b /\ a.ck = b.ck
    [] kind = "ChainIndex"  -> a.h = b.h /\ a.id = b.id
    [] kind = "ProtocolVersion" -> a.v = b.v
    [] kind \in {"Work", "Currency"} -> a.n = b.n
    [] OTHER -> a.b = b.b

\* Rules the Go-side comparison of the big JSON types may use, and where.
\*   nil-empty       a nil collection and an empty one are the same value
\*   time-instant    times are compared as instants (zone and monotonic reading are not data)
\*   revision-payout FileContractRevision.Payout is not part of a revision (documented sentinel after decoding)
\*   network-omitted State.Network is configuration, not encoded
\*   acc-unused-trees ElementAccumulator.Trees[h] is data only where bit h of NumLeaves is set (the slots
\*                   of merged trees keep stale roots in memory; neither encoding carries them)
CommonRules == {"nil-empty", "time-instant"}
HasV1Revision == {"FileContractRevision", "Transaction", "Block", "V1TransactionSupplement", "V1BlockSupplement",
                  "rhp2.ContractRevision"}
JSONRules(type) == CommonRules
                   \cup (IF type \in HasV1Revision THEN {"revision-payout"} ELSE {})
                   \cup (IF type = "State" THEN {"network-omitted", "acc-unused-trees"} ELSE {})
                   \cup (IF type = "ElementAccumulator" THEN {"acc-unused-trees"} ELSE {})

\* ---------------------------------------------------------------------------
\* accepted language (structure only; an address additionally needs its checksum)
HexPartOK(s, n) == Len(s) = 2 * n /\ AllHex(s)
HasPrefix(s, p) == Len(s) >= Len(p) /\ SubSeq(s, 1, Len(p)) = p
Accepts(kind, s) ==
  CASE kind \in HashKinds \/ kind = "Signature" -> HexPartOK(s, NBytes(kind))
    [] kind \in PrefixedKinds -> HasPrefix(s, L_ed25519) /\ HexPartOK(SubSeq(s, 9, Len(s)), 32)
    [] kind = "Address" -> HexPartOK(s, 38)
\* the bytes an accepted text denotes
Decode(kind, s) == IF kind \in PrefixedKinds THEN UnHex(SubSeq(s, 9, Len(s))) ELSE UnHex(s)

\* TOLERANT READING of specifiers and unlock keys: the accepted language is wider than the printed one.
\* Specifier.UnmarshalText accepts, besides the quoted literal, the UNQUOTED form of ANY text of at most
\* 16 bytes (specifiers with spaces or punctuation were printed unquoted historically), and an unlock key
\* is cut at its LAST colon.  A text such as   entropy:a:   is therefore a legal (non-canonical) text of the
\* key [algorithm "entropy:a", empty key] -- it is NOT a corrupted   entropy:ae   (decision of the project
\* lead, round 7: the rejection clause of the property is about a wrong length / prefix / alphabet under the
\* SAME reading; a string that is a legal text of another value under the tolerated grammar is outside it).
\* Corruption cases must stay outside this language unless they denote the same value (KeyTokSane, checked
\* for every generated case): the alteration classes never put a colon into the hex part of a key.
LastIndex(s, c) == IF \E i \in DOMAIN s : s[i] = c
                   THEN CHOOSE i \in DOMAIN s : s[i] = c /\ \A j \in (i + 1)..Len(s) : s[j] # c ELSE 0
PadTo16(bs) == bs \o [i \in 1..(16 - Len(bs)) |-> 0]
BareSpecOK(s) == Len(s) <= 16 /\ (Len(s) > 0 => s[1] # QUOTE)
AcceptsKeyBare(s) == LET i == LastIndex(s, COLON)  rest == SubSeq(s, i + 1, Len(s)) IN
  i > 0 /\ BareSpecOK(SubSeq(s, 1, i - 1)) /\ Len(rest) % 2 = 0 /\ AllHex(rest)
KeyDenotes(s) == LET i == LastIndex(s, COLON) IN
  [alg |-> PadTo16(SubSeq(s, 1, i - 1)), key |-> UnHex(SubSeq(s, i + 1, Len(s)))]
\* an altered text of the key v is outside the tolerant language, or denotes v
KeyTokSane(v, tok) == AcceptsKeyBare(tok) => (KeyDenotes(tok).alg = v.alg /\ KeyDenotes(tok).key = v.key)

\* ---------------------------------------------------------------------------
\* corruption operators (direction A)
Subst(s, i, c)  == [s EXCEPT ![i] = c]
Insert(s, i, c) == SubSeq(s, 1, i - 1) \o <<c>> \o SubSeq(s, i, Len(s))     \* c becomes s'[i]
Delete(s, i)    == SubSeq(s, 1, i - 1) \o SubSeq(s, i + 1, Len(s))
Swap(s, i)      == [s EXCEPT ![i] = s[i + 1], ![i + 1] = s[i]]
CaseVariant(orig, s) == s # orig /\ LowerSeq(s) = LowerSeq(orig)

\* ---------------------------------------------------------------------------
\* LIMITS: what the other codecs and the types admit, the values at those limits,
\* and the agreement clause.
\*
\*  policies    the binary form accepts a policy under at most MaxPolicyDepth
\*              thresholds (the root is under 0) and counts the children of a
\*              threshold in one byte.  The string form and the JSON object form
\*              must therefore round-trip every policy of depth <= 32 and of up to
\*              255 children per threshold.  DOCUMENTED RESTRICTION (a limit the
\*              forms do not share): the string and JSON forms have no bound of
\*              their own, so beyond the binary limits (depth 33, 256 children)
\*              they may accept or refuse -- but never yield a different value.
\*  unlock keys a key list and a key have no bound of their own in any form
\*              (64-bit length prefix); representative large sizes are used.
\*  currencies  128 bits, in EVERY printed form: the unit form of String / %s / %v,
\*              the exact decimal of ExactString / %d / MarshalText, and JSON.
\*  timestamps  the binary form carries a 64-bit Unix second; policy strings and
\*              policy JSON print that integer, so all of -2^63 .. 2^63-1 round-trip;
\*              RFC 3339 JSON (block timestamps, price validity, ...) can print
\*              years 0..9999 only: inside that range it must round-trip, outside it
\*              must refuse (DOCUMENTED RESTRICTION named by the property).
MaxPolicyDepth    == 32
MaxThreshChildren == 255
MaxOf(S) == CHOOSE m \in S : \A x \in S : x <= m
RECURSIVE PolDepth(_)
\* the number of thresholds above the deepest sub-policy
PolDepth(p) == IF p.k = "thresh" /\ Len(p.of) > 0
               THEN 1 + MaxOf({PolDepth(p.of[i]) : i \in DOMAIN p.of}) ELSE 0
RECURSIVE PolWidthOK(_)
PolWidthOK(p) == p.k = "thresh" => /\ Len(p.of) <= MaxThreshChildren
                                   /\ \A i \in DOMAIN p.of : PolWidthOK(p.of[i])
BinaryAdmitsPol(p) == PolDepth(p) <= MaxPolicyDepth /\ PolWidthOK(p)
\* v (well-formed, of the given kind) is a value the binary codec round-trips
Admitted(kind, v) == IF kind = "SpendPolicy" THEN BinaryAdmitsPol(v) ELSE TRUE
\* AGREEMENT: every value the binary codec round-trips has a text form and a JSON form
\* that parse back to it; a value it does not admit is refused or returned unchanged.
\* (parsed = the parser accepted, same = what it returned is the value under Equiv.)
Agrees(admitted, parsed, same) == IF admitted THEN parsed /\ same ELSE parsed => same

\* ---- currencies: every printed form ------------------------------------------
MaxCurrency == Sub(Pow2(128), One)
RECURSIVE Pow10(_)
Pow10(k) == IF k = 0 THEN One ELSE MulSmall(Pow10(k - 1), 10)
UnitNames == << <<112, 83>>, <<110, 83>>, <<117, 83>>, <<109, 83>>, <<83, 67>>,
                <<75, 83>>, <<77, 83>>, <<71, 83>>, <<84, 83>> >>          \* pS nS uS mS SC KS MS GS TS
RECURSIVE TrimZeros(_)
TrimZeros(ds) == IF Len(ds) > 0 /\ ds[Len(ds)] = 0 THEN TrimZeros(SubSeq(ds, 1, Len(ds) - 1)) ELSE ds
DigitChars(ds) == [i \in DOMAIN ds |-> 48 + ds[i]]
\* the unit form: below 10^12 hastings "<n> H"; otherwise the value as a decimal multiple of
\* the largest unit 10^(3u) H, u = 4..12 (pS .. TS), that does not exceed it, the fraction
\* printed exactly and without trailing zeros; zero is "0 SC".
CurUnitText(n) ==
  IF n = <<>> THEN <<48, 32, 83, 67>>
  ELSE LET ds == Digits(n)  len == Len(ds)  u0 == (len - 1) \div 3 IN
       IF u0 < 4 THEN DigitChars(ds) \o <<32, 72>>
       ELSE LET u == IF u0 > 12 THEN 12 ELSE u0
                k == len - 3 * u
                frac == TrimZeros(SubSeq(ds, k + 1, len)) IN
            DigitChars(SubSeq(ds, 1, k)) \o (IF frac = <<>> THEN <<>> ELSE <<DOT>> \o DigitChars(frac))
              \o <<32>> \o UnitNames[u - 3]
UnitForms  == {"String", "%s", "%v"}
ExactForms == {"ExactString", "%d", "MarshalText"}
CurForms   == UnitForms \cup ExactForms \cup {"JSON"}
CurFormText(f, n) == IF f \in UnitForms THEN CurUnitText(n)
                     ELSE IF f = "JSON" THEN JSONString(Dec(n)) ELSE Dec(n)
\* the entry points that must accept a printed form (JSON: the document; the others: the text)
CurEntries(f) == IF f = "JSON" THEN {"json.Unmarshal"} ELSE {"ParseCurrency", "UnmarshalText"}

\* the accepted language of ParseCurrency as far as the printed forms need it, and what a
\* text denotes:  <digits> | <digits>[.<digits>] SP <unit>  ->  digits * 10^(exponent of the unit)
FirstIndex(s, c) == IF \E i \in DOMAIN s : s[i] = c
                    THEN CHOOSE i \in DOMAIN s : s[i] = c /\ \A j \in 1..(i - 1) : s[j] # c ELSE 0
UnitExp(u) == IF u = <<72>> THEN 0
              ELSE IF \E i \in DOMAIN UnitNames : UnitNames[i] = u
                   THEN 3 * (3 + (CHOOSE i \in DOMAIN UnitNames : UnitNames[i] = u)) ELSE -1
AllDigits(s) == Len(s) > 0 /\ \A i \in DOMAIN s : IsDigit(s[i])
CurParts(s) == LET sp  == FirstIndex(s, 32)
                   num == IF sp = 0 THEN s ELSE SubSeq(s, 1, sp - 1)
                   dot == FirstIndex(num, DOT) IN
               [ip  |-> IF dot = 0 THEN num ELSE SubSeq(num, 1, dot - 1),
                fp  |-> IF dot = 0 THEN <<>> ELSE SubSeq(num, dot + 1, Len(num)),
                dot |-> dot # 0,
                exp |-> IF sp = 0 THEN 0 ELSE UnitExp(SubSeq(s, sp + 1, Len(s)))]
\* in the language of the printed forms, denoting a whole number of hastings
CurWellFormedText(s) == LET p == CurParts(s) IN
  /\ AllDigits(p.ip) /\ (p.dot => AllDigits(p.fp)) /\ p.exp >= 0 /\ Len(p.fp) <= p.exp
CurDenotes(s) == LET p == CurParts(s)  ds == p.ip \o p.fp IN
  Mul(FromDigits([i \in DOMAIN ds |-> ds[i] - 48]), Pow10(p.exp - Len(p.fp)))
\* accepted: well-formed and below 2^128
CurAccepts(s) == CurWellFormedText(s) /\ Lt(CurDenotes(s), Pow2(128))

\* ---- timestamps -----------------------------------------------------------
Unix(neg, n) == [neg |-> neg, n |-> n]
UnixLe(a, b) == IF a.neg /\ ~b.neg THEN TRUE
                ELSE IF ~a.neg /\ b.neg THEN FALSE
                ELSE IF a.neg THEN Le(b.n, a.n) ELSE Le(a.n, b.n)
MinJSONUnix == Unix(TRUE,  FromDigits(<<6, 2, 1, 6, 7, 2, 1, 9, 2, 0, 0>>))       \* 0000-01-01T00:00:00Z
MaxJSONUnix == Unix(FALSE, FromDigits(<<2, 5, 3, 4, 0, 2, 3, 0, 0, 7, 9, 9>>))    \* 9999-12-31T23:59:59Z
MinUnix64   == Unix(TRUE,  Pow2(63))
MaxUnix64   == Unix(FALSE, Sub(Pow2(63), One))
InJSONYears(t) == UnixLe(MinJSONUnix, t) /\ UnixLe(t, MaxJSONUnix)
UnixText(t) == (IF t.neg THEN <<MINUS>> ELSE <<>>) \o Dec(t.n)
L_afterJSON == <<123, 34, 116, 121, 112, 101, 34, 58, 34, 97, 102, 116, 101, 114, 34, 44, 34, 112, 111,
                 108, 105, 99, 121, 34, 58>>                                 \* {"type":"after","policy":
\* forms of a timestamp: the three forms of an after() policy, and the RFC 3339 string of a
\* JSON document (per carrier type)
AfterForms == {"after-string", "after-json", "after-binary"}
TimeForms  == AfterForms \cup {"rfc3339"}
\* the RFC 3339 text of the named edges (the layout of the others is Go's time package, trusted)
TimeLiterals ==
  << [t |-> MinJSONUnix, s |-> <<48, 48, 48, 48, 45, 48, 49, 45, 48, 49, 84, 48, 48, 58, 48, 48, 58, 48, 48, 90>>],
     [t |-> MaxJSONUnix, s |-> <<57, 57, 57, 57, 45, 49, 50, 45, 51, 49, 84, 50, 51, 58, 53, 57, 58, 53, 57, 90>>],
     [t |-> Unix(FALSE, Zero), s |-> <<49, 57, 55, 48, 45, 48, 49, 45, 48, 49, 84, 48, 48, 58, 48, 48, 58, 48, 48, 90>>],
     [t |-> Unix(TRUE, One),   s |-> <<49, 57, 54, 57, 45, 49, 50, 45, 51, 49, 84, 50, 51, 58, 53, 57, 58, 53, 57, 90>>] >>
TimeFormOK(f, t, text) ==
  CASE f = "after-string" -> text = Call(L_after, UnixText(t))
    [] f = "after-json"   -> text = L_afterJSON \o UnixText(t) \o <<125>>
    [] f = "rfc3339"      -> \A i \in DOMAIN TimeLiterals : TimeLiterals[i].t = t => text = TimeLiterals[i].s
    [] OTHER -> TRUE
\* which timestamps a form must round-trip
TimeAdmitted(f, t) == IF f = "rfc3339" THEN InJSONYears(t) ELSE TRUE

\* ---- the values at the limits ------------------------------------------------
\* compact descriptors; the harness builds the value at its real size, the real code prints
\* and parses it in every form, and TextTrace checks Realises(descriptor, value).
\*   nest      a policy under a thresholds (b children per threshold), leaf kind s
\*   wide      a threshold with a children of kind s and required count b
\*   keys      an unlock-conditions policy with a keys of b bytes each, n signatures required
\*   keylen    an unlock key of a bytes; algorithm class s
\*   specbyte  a specifier made of byte a in pattern b (see SpecPattern)
\*   currency  the currency n;   time  the Unix second (a = 1: negative) n
\*   beyond    the text t, one step outside the accepted language of kind s: must be refused
\* within: the value is one the binary codec round-trips (time: one RFC 3339 JSON can print).
D(fam, a, b, s, n, t, within) == [fam |-> fam, a |-> a, b |-> b, s |-> s, n |-> n, t |-> t, within |-> within]
NoLimit == D("none", 0, 0, "", <<>>, <<>>, TRUE)
LeafKinds == {"above", "after", "pk", "h", "opaque", "uc", "thresh"}
NestCases == {D("nest", d, w, l, <<>>, <<>>, d <= MaxPolicyDepth) :
                d \in {1, 2, MaxPolicyDepth - 1, MaxPolicyDepth, MaxPolicyDepth + 1}, w \in {1, 3}, l \in LeafKinds}
             \cup {D("nest", 0, 1, l, <<>>, <<>>, TRUE) : l \in LeafKinds}
WideCases == {D("wide", c, nn, k, <<>>, <<>>, c <= MaxThreshChildren) :
                c \in {0, 1, MaxThreshChildren, MaxThreshChildren + 1}, nn \in {0, 255}, k \in {"pk", "above", "uc"}}
             \cup {D("wide", c, 1, "pk", <<>>, <<>>, TRUE) : c \in {1, 2, MaxThreshChildren - 1}}
Max64 == Sub(Pow2(64), One)
KeysCases == {D("keys", c, kl, "", sr, <<>>, TRUE) : c \in {0, 1, 255, 256, 1024}, kl \in {0, 32}, sr \in {Zero, Max64}}
             \cup {D("keys", 1, 32, "", sr, <<>>, TRUE) : sr \in {One, FromInt(255), FromInt(256)}}
KeyLenCases == {D("keylen", l, 0, alg, <<>>, <<>>, TRUE) :
                  l \in {0, 1, 31, 32, 33, 64, 255, 256, 4096}, alg \in {"plain", "quoted"}}
               \cup {D("keylen", 65535, 0, "plain", <<>>, <<>>, TRUE)}
L_algPlain  == <<101, 100, 50, 53, 53, 49, 57>>              \* ed25519
L_algQuoted == <<97, 58, 98, 34, 40, 44, 41, 91, 93>>        \* a:b"(,)[]   separator, quote and every policy delimiter
Pad16(bs) == bs \o [i \in 1..(16 - Len(bs)) |-> 0]
SpecPattern(x, pat) ==
  CASE pat = 1 -> <<x>>
    [] pat = 2 -> <<97, x>>
    [] pat = 3 -> <<x, 97>>
    [] pat = 4 -> [i \in 1..16 |-> x]
    [] pat = 5 -> <<x, 128>>            \* followed by a continuation byte (valid UTF-8 when x is a two-byte lead)
SpecByteCases == {D("specbyte", x, pat, "", <<>>, <<>>, TRUE) : x \in 0..255, pat \in 1..5}
CurLimits == {Zero, One, MaxCurrency, Sub(MaxCurrency, One), Pow2(64), Max64, Pow2(127),
              MulSmall(DivSmall(MaxCurrency, 10), 10)}            \* 39 digits ending in 0
             \cup UNION {{Sub(Pow10(e), One), Pow10(e), Add(Pow10(e), One)} : e \in 0..38}
CurrencyCases == {D("currency", 0, 0, "", n, <<>>, TRUE) : n \in CurLimits}
TimeLimits == {Unix(FALSE, Zero), Unix(FALSE, One), Unix(TRUE, One),
               MinJSONUnix, Unix(TRUE, Add(MinJSONUnix.n, One)), Unix(TRUE, Sub(MinJSONUnix.n, One)),
               MaxJSONUnix, Unix(FALSE, Add(MaxJSONUnix.n, One)), Unix(FALSE, Sub(MaxJSONUnix.n, One)),
               MinUnix64, Unix(TRUE, Sub(Pow2(63), One)), MaxUnix64,
               Unix(FALSE, Pow2(31)), Unix(FALSE, Pow2(32)), Unix(FALSE, Add(Pow2(53), One))}
TimeCases == {D("time", IF t.neg THEN 1 ELSE 0, 0, "", t.n, <<>>, InJSONYears(t)) : t \in TimeLimits}
TwoPow63Text == Dec(Pow2(63))
TwoPow64Text == Dec(Pow2(64))
BeyondTexts ==
  << [s |-> "Currency",    t |-> Dec(Pow2(128))],                             \* 2^128, exact form
     [s |-> "Currency",    t |-> CurUnitText(Pow2(128))],                     \* 2^128, unit form
     [s |-> "Currency",    t |-> Dec(MaxCurrency) \o <<48>>],                 \* forty digits
     [s |-> "Currency",    t |-> CurUnitText(Mul(MaxCurrency, FromInt(1000)))], \* 340282.366... TS
     [s |-> "SpendPolicy", t |-> Call(L_thresh, <<50, 53, 54, COMMA, LB, RB>>)],  \* thresh(256,[])
     [s |-> "SpendPolicy", t |-> Call(L_above, TwoPow64Text)],
     [s |-> "SpendPolicy", t |-> Call(L_after, TwoPow63Text)],
     [s |-> "SpendPolicy", t |-> Call(L_after, <<MINUS>> \o Dec(Add(Pow2(63), One)))],
     [s |-> "SpendPolicy", t |-> Call(L_uc, TwoPow64Text \o <<COMMA, LB, RB, COMMA, 48>>)],
     [s |-> "SpendPolicy", t |-> Call(L_uc, <<48, COMMA, LB, RB, COMMA>> \o TwoPow64Text)],
     [s |-> "ChainIndex",  t |-> TwoPow64Text \o <<COLON, COLON>> \o HexOf([i \in 1..32 |-> 0])],
     [s |-> "Work",        t |-> Dec(Pow2(256))] >>
BeyondCases == {D("beyond", i, 0, BeyondTexts[i].s, <<>>, BeyondTexts[i].t, FALSE) : i \in DOMAIN BeyondTexts}
LimitCases == NestCases \cup WideCases \cup KeysCases \cup KeyLenCases \cup SpecByteCases
              \cup CurrencyCases \cup TimeCases \cup BeyondCases

\* the value v of the given kind is the one descriptor d describes
Realises(d, kind, v) ==
  CASE d.fam = "none" -> TRUE
    [] d.fam = "nest" -> /\ kind = "SpendPolicy" /\ PolDepth(v) = d.a
                         /\ (d.a > 0 => Len(v.of) = d.b) /\ (d.a = 0 => v.k = d.s)
    [] d.fam = "wide" -> /\ kind = "SpendPolicy" /\ v.k = "thresh" /\ Len(v.of) = d.a /\ v.n = d.b
                         /\ \A i \in DOMAIN v.of : v.of[i].k = d.s
    [] d.fam = "keys" -> /\ kind = "SpendPolicy" /\ v.k = "uc" /\ Len(v.keys) = d.a /\ v.sr = d.n
                         /\ \A i \in DOMAIN v.keys : Len(v.keys[i].key) = d.b
    [] d.fam = "keylen" -> /\ kind = "UnlockKey" /\ Len(v.key) = d.a
                           /\ v.alg = Pad16(IF d.s = "plain" THEN L_algPlain ELSE L_algQuoted)
    [] d.fam = "specbyte" ->
         LET want == Pad16(SpecPattern(d.a, d.b)) IN
         CASE kind = "Specifier"   -> v.b = want
           [] kind = "UnlockKey"   -> v.alg = want
           [] kind = "SpendPolicy" -> v.k = "uc" /\ Len(v.keys) = 1 /\ v.keys[1].alg = want
           [] OTHER -> FALSE
    [] d.fam = "currency" -> kind = "Currency" /\ v.n = d.n
    [] d.fam = "time" -> kind = "Time" /\ v.neg = (d.a = 1) /\ v.n = d.n
    [] OTHER -> FALSE

\* ---------------------------------------------------------------------------
\* UNMARSHALLING REPLACES.  Decoding a text or document A into a receiver that already
\* holds a value B yields the value A denotes -- not a mixture of A and B -- wherever the
\* text / document DETERMINES the value:
\*   (a) every UnmarshalText, and every JSON form that is a JSON string carrying a text form
\*       (identifiers, specifiers, unlock keys, currencies, chain indices in text form,
\*       versions, work): a scalar text alone determines the value;
\*   (b) JSON forms that are not a plain object-of-fields of the Go struct: values with
\*       internal or derived state and type-tagged unions, whose UnmarshalJSON allocates or
\*       selects a variant (VariantJSONTypes): ApplyUpdate and RevertUpdate (condensed
\*       per-height leaf groups: what the document does not mention must be RESET, because sync
\*       loops decode update k+1 into the variable that held update k), V2FileContractResolution,
\*       V2FileContractElementDiff (optional revision / resolution), SpendPolicy in object form,
\*       ElementAccumulator (trees present only where numLeaves has the bit).
\* DOCUMENTED EXCEPTION (outside the clause): plain object documents follow Go's merge
\* semantics -- a member absent from the object leaves the receiver's field untouched -- whether
\* encoding/json decodes the struct itself or a custom unmarshaller decodes the object field by
\* field (SatisfiedPolicy, StorageProof, V2StorageProof, FileContractRevision, ChainIndex as
\* object, every struct without a custom unmarshaller).  Their lines are information only.
\* A "used" fact:  fresh = A parses into a fresh receiver;  used = A parses into the used one;
\* same = the used receiver marshals back to A;  eq = it equals the fresh result field by
\* field, unexported fields included.
VariantJSONTypes == {"ApplyUpdate", "RevertUpdate", "V2FileContractResolution", "V2FileContractElementDiff",
                     "SpendPolicy", "ElementAccumulator"}
\* how: "text" (UnmarshalText) or "json";  scalar: the JSON document is a JSON string
InReplaceClause(how, scalar, type) == how = "text" \/ scalar \/ type \in VariantJSONTypes
Replaces(inClause, fresh, used, same, eq) == (inClause /\ fresh) => (used /\ same /\ eq)
\* an update decoded into a used receiver must refresh proofs exactly like the original:
\* no panic, the same proof, and it verifies
RefreshesAlike(panicked, proof, verifies, proofOrig) == ~panicked /\ proof = proofOrig /\ verifies
=============================================================================
