----------------------------- MODULE TextEmbed -----------------------------
(* Direction A at every EMBEDDING POSITION.

   TextCorrupt replays the corruption classes of the property on the stand-alone
   parser of each identifier kind.  The same identifiers also occur as TOKENS
   inside composite forms, where another parser (or another call site of the
   same parser) reads them:

     policy strings   the grammar of Text!PolText:  a policy string is a sequence
                      of tokens separated by the delimiters ( ) [ ] ,
                        above( <uint64> )            after( <int64> )
                        pk( 0x<32 bytes> )   h( 0x<32 bytes> )   opaque( 0x<32 bytes> )
                        thresh( <uint8> ,[ <policy> , ... ])
                        uc( <uint64> ,[ <unlock key> , ... ], <uint64> )
                      PolSegs below cuts the text of a policy into these tokens,
                      each with its class, its role (pk.key, uc.key, thresh.n ...)
                      and the place of its policy in the tree (root, first / middle
                      / last / only child of a threshold, nested); invariant Sane
                      ties the cut to the grammar: the tokens concatenated are
                      exactly PolText(p).
     JSON documents   every JSON string of a document that carries the text form
                      of an identifier (IDs, addresses, keys, signatures, unlock
                      keys, currencies ... inside transactions, policies in object
                      form, elements, updates, host settings).  The harness lists
                      the string leaves of real documents together with the
                      kind and abstract value of the Go field they came from;
                      Sane checks that each is the text form Text.tla states for
                      that value (so the leaf IS an embedded token of that kind).

   One initial state per composite base (a policy with its cut, a JSON leaf); each
   successor is one case: ONE token of the base altered by one corruption class
   (every token class, at every embedding position, at the character positions
   first / middle / last, length -1 +1 -2 +2, prefix removed or altered,
   alphabet; delimiters removed or doubled), everything around it untouched.
   Expectation of the property: the composite form is REJECTED, or at least not
   accepted as a different value (hex case may be tolerated); a JSON document
   whose address leaf was altered must be rejected.

   What is NOT a case (the accepted language is wider than the printed one, see
   Text!AcceptsKeyBare): an altered token that is itself a legal text of another
   value under the tolerated grammar.  Hence no colon is put into the hex part of an
   unlock key, two keys are not merged by removing their comma when the merged
   token is a legal key text (MergeOK), and a key token is never emptied (an
   absent list element; the list grammar tolerates a trailing comma).

   Numbers are not identifiers: a digit replaced by another digit is another
   valid number.  Only alterations that leave EVERY notation of a number are
   generated (a letter, nothing, a sign on an unsigned field, one past the
   range); NumSane states that no generated text is the canonical decimal of a
   different value in range.  Likewise a policy name is only altered into
   something that is not a policy name (NameSane), and a hex token is never
   altered into the canonical text of other bytes (Sane, as in TextCorrupt).  *)
EXTENDS CorruptOps
PBases == ndJsonDeserialize("pbases.ndjson")     \* [val |-> abstract policy] recorded from real policies
Leaves == ndJsonDeserialize("leaves.ndjson")     \* [kind, val, type, path] string leaves of real JSON documents
NP == Len(PBases)
NL == Len(Leaves)

\* ---- tokens of a policy string ------------------------------------------------
ZV == [alg |-> <<>>, key |-> <<>>, b |-> <<>>]
Seg(cls, role, where, t, v) == [cls |-> cls, role |-> role, where |-> where, t |-> t, v |-> v]
Lit(c) == Seg("lit", "delimiter", "", <<c>>, ZV)
PosName(i, n) == IF n = 1 THEN "only" ELSE IF i = 1 THEN "first" ELSE IF i = n THEN "last" ELSE "mid"
RECURSIVE JoinSegs(_, _)
JoinSegs(ss, i) == IF i > Len(ss) THEN <<>>
                   ELSE (IF i > 1 THEN <<Lit(COMMA)>> ELSE <<>>) \o ss[i] \o JoinSegs(ss, i + 1)
RECURSIVE PolSegs(_, _)
PolSegs(p, w) ==
  LET nm(t)           == Seg("name", p.k \o ".name", w, t, ZV)
      num(cls, role, t) == Seg(cls, role, w, t, ZV)
      hx(role)        == Seg("0x32", role, w, L_0x \o HexOf(p.b), [ZV EXCEPT !.b = p.b])
  IN
  CASE p.k = "above"  -> <<nm(L_above), Lit(LP), num("uint64", "above.n", Dec(p.n)), Lit(RP)>>
    [] p.k = "after"  -> <<nm(L_after), Lit(LP),
                           num("int64", "after.t", (IF p.neg THEN <<MINUS>> ELSE <<>>) \o Dec(p.n)), Lit(RP)>>
    [] p.k = "pk"     -> <<nm(L_pk), Lit(LP), hx("pk.key"), Lit(RP)>>
    [] p.k = "h"      -> <<nm(L_h), Lit(LP), hx("h.hash"), Lit(RP)>>
    [] p.k = "opaque" -> <<nm(L_opaque), Lit(LP), hx("opaque.addr"), Lit(RP)>>
    [] p.k = "thresh" ->
         <<nm(L_thresh), Lit(LP), num("uint8", "thresh.n", DecInt(p.n)), Lit(COMMA), Lit(LB)>>
         \o JoinSegs([i \in DOMAIN p.of |->
                        PolSegs(p.of[i], w \o "thresh.of[" \o PosName(i, Len(p.of)) \o "]/")], 1)
         \o <<Lit(RB), Lit(RP)>>
    [] p.k = "uc"     ->
         <<nm(L_uc), Lit(LP), num("uint64", "uc.timelock", Dec(p.tl)), Lit(COMMA), Lit(LB)>>
         \o JoinSegs([i \in DOMAIN p.keys |->
                        <<Seg("key", "uc.key", w \o "uc.keys[" \o PosName(i, Len(p.keys)) \o "]",
                              UnlockKeyText(p.keys[i].alg, p.keys[i].key),
                              [ZV EXCEPT !.alg = p.keys[i].alg, !.key = p.keys[i].key])>>], 1)
         \o <<Lit(RB), Lit(COMMA), num("uint64", "uc.sigs", Dec(p.sr)), Lit(RP)>>
RECURSIVE FlatR(_, _, _)
FlatR(ss, lo, hi) == IF lo > hi THEN <<>> ELSE ss[lo].t \o FlatR(ss, lo + 1, hi)
Flatten(ss) == FlatR(ss, 1, Len(ss))

\* ---- numbers -------------------------------------------------------------------
NumClasses == {"uint8", "uint64", "int64", "uint128", "uint256"}
Signed(cls) == cls = "int64"
\* the first magnitude outside the range
Bits(cls) == CASE cls = "uint8" -> 8 [] cls = "uint64" -> 64 [] cls = "int64" -> 63
               [] cls = "uint128" -> 128 [] cls = "uint256" -> 256
BoundTab == [cls \in {"uint8", "uint64", "int64", "uint128", "uint256"} |-> Pow2(Bits(cls))]
Bound(cls) == BoundTab[cls]
\* characters no notation of a number contains (a base prefix, an exponent, a digit separator or a
\* sign could be another notation of a number: they are not used)
NumBad == IF Thorough THEN {103, 71, 122, 58, 47, 0} ELSE {103, 58}
\* policy-string numbers are also tried with a hexadecimal prefix and one past the range; numbers that
\* are JSON strings (currencies, work) only with what no notation accepts
NumOps(cls, t, inPolicy) ==
  LET n == Len(t) IN
  {Op("num-subst", i, c) : i \in Probe(n), c \in NumBad}
  \cup {Op("num-ins", i, c) : i \in {1, n + 1}, c \in NumBad}
  \cup {Op("num-empty", 0, 0), Op("num-over", 0, 0)}
  \cup (IF Signed(cls) THEN {Op("num-over", 1, 0)} ELSE {Op("num-neg", 0, 0)})
  \cup (IF inPolicy THEN {Op("num-hex", 0, 0), Op("num-point", 0, 0)} ELSE {})
CorruptNum(cls, t, op) ==
  CASE op.o = "num-subst" -> Subst(t, op.i, op.c)
    [] op.o = "num-ins"   -> Insert(t, op.i, op.c)
    [] op.o = "num-empty" -> <<>>
    [] op.o = "num-over"  -> IF op.i = 1 THEN <<MINUS>> \o Dec(Add(Bound(cls), One)) ELSE Dec(Bound(cls))
    [] op.o = "num-neg"   -> <<MINUS>> \o (IF t = <<48>> THEN <<49>> ELSE t)      \* -0 is zero: use -1
    [] op.o = "num-hex"   -> L_0x \o t
    [] op.o = "num-point" -> t \o <<DOT, 48>>
\* the value a canonical decimal denotes; NumSane: the altered text is not the canonical decimal of a
\* different value in range
IsCanon(cls, s) == LET body == IF Signed(cls) /\ Len(s) > 0 /\ s[1] = MINUS THEN Tail(s) ELSE s IN
  /\ AllDigits(body) /\ (Len(body) > 1 => body[1] # 48)
  /\ LET m == FromDigits([i \in DOMAIN body |-> body[i] - 48]) IN
     IF body # s THEN Le(m, Bound(cls)) ELSE Lt(m, Bound(cls))
NumSane(cls, t, txt) == IsCanon(cls, t) /\ (IsCanon(cls, txt) => txt = t)

\* ---- policy names --------------------------------------------------------------
Names == {L_above, L_after, L_pk, L_h, L_thresh, L_opaque, L_uc}
NameOps == {Op("name-upper", 0, 0), Op("name-cap", 0, 0), Op("name-del", 0, 0), Op("name-del", 1, 0),
            Op("name-ins", 0, 120), Op("name-empty", 0, 0)}
CorruptName(t, op) ==
  CASE op.o = "name-upper" -> UpperSeq(t)
    [] op.o = "name-cap"   -> Subst(t, 1, Upper(t[1]))
    [] op.o = "name-del"   -> IF op.i = 1 THEN Tail(t) ELSE SubSeq(t, 1, Len(t) - 1)
    [] op.o = "name-ins"   -> t \o <<op.c>>
    [] op.o = "name-empty" -> <<>>
NameSane(t, txt) == t \in Names /\ txt \notin Names

\* ---- one token altered ---------------------------------------------------------
LitOps == {Op("delim-del", 0, 0), Op("delim-twice", 0, 0)}
SegOps(s) ==
  CASE s.cls = "lit"  -> LitOps
    [] s.cls = "name" -> NameOps
    [] s.cls \in NumClasses -> NumOps(s.cls, s.t, TRUE)
    [] s.cls = "0x32" -> OpsFor("0x32", s.v)
    [] s.cls = "key"  -> OpsFor("UnlockKey", s.v)
CorruptSeg(s, op) ==
  CASE s.cls = "lit"  -> IF op.o = "delim-del" THEN <<>> ELSE s.t \o s.t
    [] s.cls = "name" -> CorruptName(s.t, op)
    [] s.cls \in NumClasses -> CorruptNum(s.cls, s.t, op)
    [] s.cls = "0x32" -> Corrupt("0x32", s.v, op)
    [] s.cls = "key"  -> Corrupt("UnlockKey", s.v, op)

\* ---- JSON string leaves ----------------------------------------------------------
NumKind(kind) == IF kind = "Currency" THEN "uint128" ELSE IF kind = "Work" THEN "uint256" ELSE ""
\* an address inside a document: probe positions of the 64 + 12 characters instead of all of them (the
\* stand-alone family alters every position), with another hex digit, the other case, non-hex characters
AddrProbe == IF Thorough THEN {1, 2, 32, 63, 64, 65, 70, 76} ELSE {1, 64, 65, 76}
AddrChars(c) == LET v == HexVal(Lower(c)) IN
  {HexDigit((v + 1) % 16), Upper(c), 103, 32}
  \cup (IF Thorough THEN NonHex \cup {HexDigit(15 - v), Upper(HexDigit(15 - v)), HexDigit((v + 8) % 16)} ELSE {})
AddrEmbedded(hx, o) == o.o \notin {"subst", "swap"} \/ (o.i \in AddrProbe /\ (o.o = "swap" \/ o.c \in AddrChars(hx[o.i])))
LeafOrig(kind, v) == IF NumKind(kind) # "" THEN Dec(v.n) ELSE Original(kind, v)
LeafOps(kind, v) ==
  IF NumKind(kind) # "" THEN NumOps(NumKind(kind), Dec(v.n), FALSE)
  ELSE IF kind = "Address"
       THEN {o \in OpsFor(kind, v) : AddrEmbedded(HexPart(kind, v), o)}
       ELSE OpsFor(kind, v)
LeafCorrupt(kind, v, op) ==
  IF NumKind(kind) # "" THEN CorruptNum(NumKind(kind), Dec(v.n), op) ELSE Corrupt(kind, v, op)

\* the cut of a policy base is exactly its text form; no altered token lies in the accepted language of
\* a different value
HexTokSane(v, tok) ==
  (HasPrefix(tok, L_0x) /\ HexPartOK(SubSeq(tok, 3, Len(tok)), 32)) => UnHex(SubSeq(tok, 3, Len(tok))) = v.b
BaseSane(p, ss) == WellFormedPol(p, TRUE) /\ Flatten(ss) = PolText(p)
TokSane(s, tok) ==
  /\ s.cls = "name" => NameSane(s.t, tok)
  /\ s.cls \in NumClasses => NumSane(s.cls, s.t, tok)
  /\ s.cls = "0x32" => (HexTokSane(s.v, s.t) /\ HexTokSane(s.v, tok) /\ Len(s.v.b) = 32)
  /\ s.cls = "key" => KeyTokSane(s.v, tok)

\* One initial state per policy base carries the cut of the base (computed once), one per JSON leaf carries
\* the leaf; their successors are the cases: one token altered by one class.
VARIABLES fam, b, sg, op, segs
vars == <<fam, b, sg, op, segs>>
NoOp == Op("none", 0, 0)
PolCase(ss, g, o) == LET s == ss[g]  tok == CorruptSeg(s, o) IN
  [fam |-> "pol", b |-> b, sg |-> g, cls |-> s.cls, role |-> s.role, where |-> s.where,
   o |-> o.o, i |-> o.i, c |-> o.c, tok |-> tok, orig |-> s.t,
   text |-> FlatR(ss, 1, g - 1) \o tok \o FlatR(ss, g + 1, Len(ss)),
   casevar |-> CaseVariant(s.t, tok), expect |-> "reject-or-same"]
LeafCase(l, o) == LET kind == l.kind  v == l.val
                      orig == LeafOrig(kind, v)  tok == LeafCorrupt(kind, v, o)  cv == CaseVariant(orig, tok) IN
  [fam |-> "json", b |-> b, sg |-> 1, cls |-> kind, role |-> l.type, where |-> l.path,
   o |-> o.o, i |-> o.i, c |-> o.c, tok |-> tok, orig |-> orig, text |-> <<>>,
   casevar |-> cv,
   expect |-> IF cv THEN "same-or-reject" ELSE IF kind = "Address" THEN "reject" ELSE "reject-or-same"]

InitPol == /\ fam = "pol"
           /\ b \in 1..NP
           /\ sg = 0
           /\ op = NoOp
           /\ segs = PolSegs(PBases[b].val, "")
InitLeaf == /\ fam = "json"
            /\ b \in 1..NL
            /\ sg = 0
            /\ op = NoOp
            /\ segs = <<Leaves[b]>>
Init == InitPol \/ InitLeaf
\* the comma between two unlock keys removed: the two keys become ONE token, which under the tolerant
\* reading (Text!AcceptsKeyBare: cut at the last colon) may be a legal text of another key - then not a case
MergeOK(ss, g, o) ==
  (o.o = "delim-del" /\ g > 1 /\ g < Len(ss) /\ ss[g - 1].cls = "key" /\ ss[g + 1].cls = "key")
    => ~AcceptsKeyBare(ss[g - 1].t \o ss[g + 1].t)
NextPol == /\ fam = "pol" /\ sg = 0
           /\ \E g \in 1..Len(segs) : \E o \in SegOps(segs[g]) :
                 /\ CorruptSeg(segs[g], o) # segs[g].t
                 /\ MergeOK(segs, g, o)
                 /\ segs[g].cls = "key" => CorruptSeg(segs[g], o) # <<>>     \* nothing left: an ABSENT list element, not an altered key
                 /\ sg' = g /\ op' = o
                 /\ PrintT("@@ECASE " \o ToJson(PolCase(segs, g, o)))
           /\ UNCHANGED <<fam, b, segs>>
NextLeaf == /\ fam = "json" /\ sg = 0
            /\ LET l == segs[1] IN
               \E o \in LeafOps(l.kind, l.val) :
                 /\ LeafCorrupt(l.kind, l.val, o) # LeafOrig(l.kind, l.val)
                 /\ sg' = 1 /\ op' = o
                 /\ PrintT("@@ECASE " \o ToJson(LeafCase(l, o)))
            /\ UNCHANGED <<fam, b, segs>>
Next == NextPol \/ NextLeaf
Spec == Init /\ [][Next]_vars

\* the cut of every policy base is exactly its text form; no altered token lies in the accepted language
\* of a different value
PolSane == IF sg = 0 THEN BaseSane(PBases[b].val, segs)
           ELSE TokSane(segs[sg], CorruptSeg(segs[sg], op))
LeafSane == LET kind == segs[1].kind  v == segs[1].val IN
  IF sg = 0 THEN (IF NumKind(kind) # "" THEN WellFormed(kind, v) ELSE WellFormedS(kind, v, FALSE))
  ELSE LET tok == LeafCorrupt(kind, v, op) IN
  IF NumKind(kind) # "" THEN NumSane(NumKind(kind), Dec(v.n), tok)
  ELSE /\ kind = "UnlockKey" => KeyTokSane(v, tok)
       /\ kind \in HashKinds \cup PrefixedKinds \cup {"Signature", "Address"} =>
            /\ Accepts(kind, Original(kind, v))
            /\ Decode(kind, Original(kind, v)) = (IF kind = "Address" THEN v.b \o v.ck ELSE v.b)
            /\ (Accepts(kind, tok) /\ kind # "Address") => Decode(kind, tok) = v.b
Sane == IF fam = "pol" THEN PolSane ELSE LeafSane
=============================================================================
