SPECIFICATION Spec
INVARIANT Flags
INVARIANT CurrencyAgreement
INVARIANT TimeRange
INVARIANT SpecBytes
CHECK_DEADLOCK FALSE
