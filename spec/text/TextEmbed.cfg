SPECIFICATION Spec
CONSTANT Thorough = FALSE
INVARIANT Sane
CHECK_DEADLOCK FALSE
