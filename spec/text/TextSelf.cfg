SPECIFICATION Spec
INVARIANT HexInverse
INVARIANT HexLanguage
INVARIANT EscInverse
INVARIANT EscPrintable
INVARIANT SpecQuoting
INVARIANT DecInverse
INVARIANT PolShape
INVARIANT Limits
CHECK_DEADLOCK FALSE
