SPECIFICATION Spec
INVARIANT HexInverse
INVARIANT HexLanguage
INVARIANT EscInverse
INVARIANT EscPrintable
INVARIANT SpecQuoting
INVARIANT DecInverse
INVARIANT PolShape
CHECK_DEADLOCK FALSE
