SPECIFICATION Spec
CONSTANT Thorough = TRUE
INVARIANT Sane
CHECK_DEADLOCK FALSE
