----------------------------- MODULE TextTrace -----------------------------
(* Trace validation of the text and JSON forms of the real code (direction B)
   and of the update-through-JSON experiment.  One line = one recorded fact:

   ev = "text"    a value of an identifier / policy type, its text form as
                  character codes, what the real parser made of that text and
                  of the JSON form.  Checked: text = TextOf(value) (layout stated
                  in Text.tla), parse succeeded, parsed-back == value under
                  Equiv, JSON = quoted text where that is the JSON form.
                  Values at the limits (Text!LimitCases) carry their descriptor;
                  within the limits every form must parse back (agreement with
                  the binary codec), beyond them a form may refuse but not change.
   ev = "cur"     one currency in every printed form (unit form, exact form, JSON)
                  through every entry point that must accept it.
   ev = "time"    one Unix second through the forms of an after() policy (string,
                  JSON, binary) and as RFC 3339 string of JSON documents.
   ev = "jsonrt"  a value of one of the big JSON types was marshalled,
                  unmarshalled, compared (on the Go side, recording which
                  normalisation rules the comparison needed) and marshalled
                  again.  Checked: all four succeeded and only rules that
                  Text!JSONRules allows for the type were needed.
   ev = "used"    a document / text A decoded into a receiver that already held B
                  (Text!Replaces): for scalar text forms and for the variant /
                  derived-state JSON types (Text!InReplaceClause) the result must be A; update k+1 of a real chain (reorgs of depth >= 2 included)
                  decoded into the variable that held update k.
   ev = "upd"     one tracked element refreshed by an ApplyUpdate/RevertUpdate
                  and by the same update after json.Marshal/Unmarshal: proofs
                  (as interned hash numbers) must be identical and verify.   *)
EXTENDS Text, TraceLib, Json
Trace == ndJsonDeserialize("trace.ndjson")
N == Len(Trace)

\* every line names the family of its limit descriptor ("none" for the others) and carries
\* the descriptor itself only when there is one
LimOf(t)   == IF t.fam = "none" THEN NoLimit ELSE t.lim
IsLimit(d) == d = NoLimit \/ d \in LimitCases
BinOK(b)   == b \in {"ok", "n/a"}            \* "refused", "changed": the binary codec does not round-trip the value

\* ev = "text".  lim: the limit descriptor the value realises (NoLimit for the others);
\* layout: the value lies in the domain for which Text.tla states the layout;
\* bin: what the binary codec of the real code did with the value;  json: the JSON document,
\* logged only for the kinds whose JSON form is the quoted text (TextJSONKinds).
TextLine(t, l) ==
  IF ~WellFormedS(t.kind, t.val, FALSE)
  THEN Reject(l, "INFRA value outside the domain of the specification")
  ELSE IF t.layout # WellFormedS(t.kind, t.val, TRUE)
  THEN Reject(l, "INFRA layout flag does not match the layout domain of the specification")
  ELSE IF ~IsLimit(LimOf(t)) \/ ~Realises(LimOf(t), t.kind, t.val)
  THEN Reject(l, "INFRA the value is not the limit value its descriptor describes")
  ELSE LET adm == Admitted(t.kind, t.val) IN
  /\ Check(LimOf(t).fam = "none" \/ LimOf(t).within = adm, l, "INFRA descriptor and limit constants disagree")
  /\ Check(adm => BinOK(t.bin), l, "INFRA-BIN the binary codec does not round-trip a value within the stated limits")
  /\ Check(~adm => t.bin # "ok", l, "INFRA-BIN the binary codec round-trips a value beyond the stated limits")
  /\ IF t.layout THEN Check(t.text = TextOf(t.kind, t.val), l, "text-layout") ELSE TRUE
  /\ IF t.hasStr THEN Check(t.strSame, l, "string-differs") ELSE TRUE     \* String() = MarshalText(), compared by the harness
  \* agreement: admitted (or actually round-tripped by the binary codec) => parses back; else refuse or same
  /\ Check((adm \/ t.bin = "ok") => t.ok, l, "text-unparsed")
  /\ IF t.ok THEN Check(Equiv(t.kind, t.val, t.back), l, "text-value-changed") ELSE TRUE
  /\ Check((adm \/ t.bin = "ok") => t.jok, l, "json-unparsed")
  /\ IF t.jok THEN Check(Equiv(t.kind, t.val, t.jback), l, "json-value-changed") ELSE TRUE
  /\ IF t.kind \in TextJSONKinds THEN Check(t.json = JSONString(t.text), l, "json-layout") ELSE TRUE

\* ev = "cur": one currency in every printed form, each fed to every entry point that
\* must accept it.  forms: sequence of [f, e, text, ok, back].
CurLine(t, l) ==
  IF ~(IsNat(t.val.n) /\ Le(t.val.n, MaxCurrency))
  THEN Reject(l, "INFRA value outside the domain of the specification")
  ELSE IF ~IsLimit(LimOf(t)) \/ ~Realises(LimOf(t), "Currency", t.val)
  THEN Reject(l, "INFRA the value is not the limit value its descriptor describes")
  ELSE IF {<<t.forms[i].f, t.forms[i].e>> : i \in DOMAIN t.forms}
            # UNION {{<<f, e>> : e \in CurEntries(f)} : f \in CurForms}
  THEN Reject(l, "INFRA not every printed form was sent to every entry point")
  ELSE \A i \in DOMAIN t.forms : LET r == t.forms[i] IN
         /\ Check(r.text = CurFormText(r.f, t.val.n), l, "currency-layout:" \o r.f)
         /\ Check(r.ok, l, "currency-unparsed:" \o r.f \o ":" \o r.e)
         /\ IF r.ok THEN Check(r.back = t.val.n, l, "currency-value-changed:" \o r.f \o ":" \o r.e) ELSE TRUE

\* ev = "time": one Unix second in the forms of an after() policy and as the RFC 3339
\* string of JSON documents.  forms: sequence of [f, c (carrier type), printed, text, ok, bneg, bn].
TimeLine(t, l) ==
  LET v == Unix(t.val.neg, t.val.n) IN
  IF ~IsUnix64(v.neg, v.n)
  THEN Reject(l, "INFRA value outside the domain of the specification")
  ELSE IF ~IsLimit(LimOf(t)) \/ ~Realises(LimOf(t), "Time", t.val)
  THEN Reject(l, "INFRA the value is not the limit value its descriptor describes")
  ELSE IF ~(TimeForms \subseteq {t.forms[i].f : i \in DOMAIN t.forms})
  THEN Reject(l, "INFRA not every form of the timestamp was exercised")
  ELSE \A i \in DOMAIN t.forms : LET r == t.forms[i]  adm == TimeAdmitted(r.f, v) IN
         /\ IF r.printed THEN Check(TimeFormOK(r.f, v, r.text), l, "time-layout:" \o r.f \o ":" \o r.c) ELSE TRUE
         /\ Check(adm => (r.printed /\ r.ok), l, "time-unparsed:" \o r.f \o ":" \o r.c)
         /\ IF r.printed /\ r.ok
            THEN Check(r.bneg = v.neg /\ r.bn = v.n, l, "time-value-changed:" \o r.f \o ":" \o r.c) ELSE TRUE

\* ev = "jsonrt".  lim: the limit descriptor of the value placed inside (NoLimit: none);
\* beyond a limit the document may fail to marshal or to parse, but not change.
JsonLine(t, l) ==
  IF ~IsLimit(LimOf(t)) THEN Reject(l, "INFRA unknown limit descriptor")
  ELSE LET adm == LimOf(t).within IN
  /\ Check(adm => BinOK(t.bin), l, "INFRA-BIN the binary codec does not round-trip a value within the stated limits")
  /\ Check(~adm => t.bin # "ok", l, "INFRA-BIN the binary codec round-trips a value beyond the stated limits")
  /\ Check(adm => t.mok, l, "marshal-failed")
  /\ IF t.mok THEN Check(adm => t.uok, l, "json-unparsed") ELSE TRUE
  /\ IF t.mok /\ t.uok
     THEN /\ Check(t.eq, l, "json-value-changed")
          /\ Check(t.same, l, "json-remarshal-differs")
          /\ Check(\A i \in DOMAIN t.rules : t.rules[i] \in JSONRules(t.type), l, "json-rule-not-allowed")
     ELSE TRUE

\* pu / vu / panicU: the same update decoded into the variable that held the previous update
UpdLine(t, l) ==
  /\ Check(~t.panicA /\ t.va, l, "original-proof-invalid")
  /\ Check(~t.panicB, l, "json-update-panics")
  /\ Check(t.pb = t.pa, l, "json-update-proof-differs")
  /\ Check(t.vb, l, "json-update-proof-invalid")
  /\ Check(RefreshesAlike(t.panicU, t.pu, t.vu, t.pa), l, "used-receiver-update-refreshes-differently")

\* ev = "used": Text!Replaces
UsedLine(t, l) ==
  IF t.scope # InReplaceClause(t.how, t.scalar, t.type)
  THEN Reject(l, "INFRA the harness and Text!InReplaceClause disagree about the scope of the line")
  ELSE IF Replaces(t.scope, t.fok, t.uok, t.same, t.eq) THEN TRUE
  ELSE IF ~t.uok THEN Reject(l, "used-receiver-unparsed")
  ELSE /\ Check(t.same, l, "used-receiver-remarshal-differs")
       /\ Check(t.eq, l, "used-receiver-value-differs")

Line(l) == LET t == Trace[l] IN
  CASE t.ev = "text"   -> TextLine(t, l)
    [] t.ev = "jsonrt" -> JsonLine(t, l)
    [] t.ev = "cur"    -> CurLine(t, l)
    [] t.ev = "time"   -> TimeLine(t, l)
    [] t.ev = "upd"    -> UpdLine(t, l)
    [] t.ev = "used"   -> UsedLine(t, l)
    [] OTHER -> Reject(l, "INFRA unknown event")

VARIABLES chunk, pos
Init == chunk = 0 /\ pos = 0
Last(c) == IF c * TL_ChunkSize < N THEN c * TL_ChunkSize ELSE N
Next == \/ /\ chunk = 0
           /\ chunk' \in 1..NChunks(N)
           /\ pos' = (chunk' - 1) * TL_ChunkSize + 1
        \/ /\ chunk > 0 /\ pos <= Last(chunk)
           /\ Line(pos)
           /\ pos' = pos + 1 /\ UNCHANGED chunk
Spec == Init /\ [][Next]_<<chunk, pos>>
=============================================================================
