----------------------------- MODULE TextTrace -----------------------------
(* Trace validation of the text and JSON forms of the real code (direction B)
   and of the update-through-JSON experiment.  One line = one recorded fact:

   ev = "text"    a value of an identifier / policy type, its text form as
                  character codes, what the real parser made of that text and
                  of the JSON form.  Checked: text = TextOf(value) (layout stated
                  in Text.tla), parse succeeded, parsed-back == value under
                  Equiv, JSON = quoted text where that is the JSON form.
   ev = "jsonrt"  a value of one of the big JSON types was marshalled,
                  unmarshalled, compared (on the Go side, recording which
                  normalisation rules the comparison needed) and marshalled
                  again.  Checked: all four succeeded and only rules that
                  Text!JSONRules allows for the type were needed.
   ev = "upd"     one tracked element refreshed by an ApplyUpdate/RevertUpdate
                  and by the same update after json.Marshal/Unmarshal: proofs
                  (as interned hash numbers) must be identical and verify.   *)
EXTENDS Text, TraceLib, Json
Trace == ndJsonDeserialize("trace.ndjson")
N == Len(Trace)

TextLine(t, l) ==
  IF ~WellFormed(t.kind, t.val)
  THEN Reject(l, "INFRA value outside the domain of the specification")
  ELSE
  /\ Check(t.text = TextOf(t.kind, t.val), l, "text-layout")
  /\ IF t.hasStr THEN Check(t.str = t.text, l, "string-differs") ELSE TRUE
  /\ Check(t.ok, l, "text-unparsed")
  /\ IF t.ok THEN Check(Equiv(t.kind, t.val, t.back), l, "text-value-changed") ELSE TRUE
  /\ Check(t.jok, l, "json-unparsed")
  /\ IF t.jok THEN Check(Equiv(t.kind, t.val, t.jback), l, "json-value-changed") ELSE TRUE
  /\ IF t.kind \in TextJSONKinds THEN Check(t.json = JSONString(t.text), l, "json-layout") ELSE TRUE

JsonLine(t, l) ==
  /\ Check(t.mok, l, "marshal-failed")
  /\ IF t.mok THEN Check(t.uok, l, "json-unparsed") ELSE TRUE
  /\ IF t.mok /\ t.uok
     THEN /\ Check(t.eq, l, "json-value-changed")
          /\ Check(t.same, l, "json-remarshal-differs")
          /\ Check(\A i \in DOMAIN t.rules : t.rules[i] \in JSONRules(t.type), l, "json-rule-not-allowed")
     ELSE TRUE

UpdLine(t, l) ==
  /\ Check(~t.panicA /\ t.va, l, "original-proof-invalid")
  /\ Check(~t.panicB, l, "json-update-panics")
  /\ Check(t.pb = t.pa, l, "json-update-proof-differs")
  /\ Check(t.vb, l, "json-update-proof-invalid")

Line(l) == LET t == Trace[l] IN
  CASE t.ev = "text"   -> TextLine(t, l)
    [] t.ev = "jsonrt" -> JsonLine(t, l)
    [] t.ev = "upd"    -> UpdLine(t, l)
    [] OTHER -> Reject(l, "INFRA unknown event")

VARIABLES chunk, pos
Init == chunk = 0 /\ pos = 0
Last(c) == IF c * TL_ChunkSize < N THEN c * TL_ChunkSize ELSE N
Next == \/ /\ chunk = 0
           /\ chunk' \in 1..NChunks(N)
           /\ pos' = (chunk' - 1) * TL_ChunkSize + 1
        \/ /\ chunk > 0 /\ pos <= Last(chunk)
           /\ Line(pos)
           /\ pos' = pos + 1 /\ UNCHANGED chunk
Spec == Init /\ [][Next]_<<chunk, pos>>
=============================================================================
