---------------------------- MODULE CorruptOps ----------------------------
(* The corruption classes of direction A, as operators over (kind, abstract
   value): the text form of an identifier is cut into  pre \o hex \o post
   (pre: prefix / height:: / algorithm: / pk(0x / 0x ...) and every class of
   alteration named by the property (wrong length, prefix, alphabet; for an
   address every character) is an operation record [o, i, c].
   Shared by TextCorrupt (the stand-alone parsers of each kind) and TextEmbed
   (the same token classes at every position where a kind is EMBEDDED in a
   composite text form or JSON document).                                   *)
EXTENDS Text, TLC, Json
CONSTANT Thorough

\* ---- decomposition of the text form ---------------------------------------
\* "0x32": the argument token of pk(...), h(...), opaque(...) on its own: 0x + hex of 32 bytes
FixedHex == HashKinds \cup PrefixedKinds \cup {"Signature", "Address", "ChainIndex", "pol-pk", "pol-h", "pol-opaque", "0x32"}
PolName(kind) == IF kind = "pol-pk" THEN L_pk ELSE IF kind = "pol-h" THEN L_h ELSE L_opaque
Pre(kind, v) ==
  CASE kind \in PrefixedKinds -> L_ed25519
    [] kind = "ChainIndex"    -> Dec(v.h) \o <<COLON, COLON>>
    [] kind = "UnlockKey"     -> SpecText(v.alg) \o <<COLON>>
    [] kind \in {"pol-pk", "pol-h", "pol-opaque"} -> PolName(kind) \o <<LP>> \o L_0x
    [] kind = "0x32"          -> L_0x
    [] OTHER -> <<>>
HexPart(kind, v) ==
  CASE kind = "Address"    -> HexOf(v.b) \o HexOf(v.ck)
    [] kind = "ChainIndex" -> HexOf(v.id)
    [] kind = "UnlockKey"  -> HexOf(v.key)
    [] kind = "ProtocolVersion" -> <<>>
    [] OTHER -> HexOf(v.b)
Post(kind) == IF kind \in {"pol-pk", "pol-h", "pol-opaque"} THEN <<RP>> ELSE <<>>
SpecKind(kind) == IF kind \in {"pol-pk", "pol-h", "pol-opaque"} THEN "SpendPolicy" ELSE kind
Original(kind, v) ==
  IF kind \in {"ProtocolVersion", "Specifier"} THEN PrintID(kind, v) ELSE Pre(kind, v) \o HexPart(kind, v) \o Post(kind)

\* ---- replacement characters -------------------------------------------------
HexRepl(c) == LET v == HexVal(Lower(c)) IN
  IF Thorough THEN {HexDigit(x) : x \in 0..15}
  ELSE {HexDigit((v + 1) % 16), HexDigit((v + 8) % 16), HexDigit(15 - v)}
NonHex == IF Thorough THEN {103, 71, 32, 58, 111, 79, 108, 120, 45, 47, 64, 96, 0, 195}
          ELSE {103, 71, 32, 58}
\* an unlock key is cut at its last colon (Text!AcceptsKeyBare): a colon in its hex part moves the cut and
\* can give a legal text of another key - not a corruption
NonHexFor(kind) == IF kind = "UnlockKey" THEN NonHex \ {COLON} ELSE NonHex
AddrRepl(c) == (HexRepl(c) \cup {Upper(x) : x \in HexRepl(c) \cup {c}} \cup NonHex) \ {c}

\* ---- operations: uniform records [o, i, c] -----------------------------------
Op(o, i, c) == [o |-> o, i |-> i, c |-> c]
Ends(n) == IF n = 0 THEN {} ELSE {1, n}
Probe(n) == IF n = 0 THEN {} ELSE {1, (n + 1) \div 2, n}
OpsFor(kind, v) ==
  LET hx == HexPart(kind, v)  n == Len(hx) IN
  IF kind = "ProtocolVersion" THEN {Op("pv", k, 0) : k \in 1..9}
  ELSE IF kind = "Specifier" THEN {Op("sp", k, 0) : k \in 1..4}
  ELSE
    (IF kind = "Address"
       THEN UNION {{Op("subst", i, c) : c \in AddrRepl(hx[i])} : i \in 1..n}
            \cup {Op("swap", i, 0) : i \in {j \in 1..(n - 1) : hx[j] # hx[j + 1]}}
       ELSE {Op("subst", i, c) : i \in Probe(n), c \in NonHexFor(kind)})
    \cup {Op("upper", 0, 0)}
    \cup {Op("del", i, 0) : i \in Ends(n)}
    \cup {Op("ins", i, c) : i \in {1, n + 1}, c \in {48, 97}}
    \cup (IF kind = "UnlockKey" THEN {}            \* a key has no fixed length: only odd lengths are wrong
          ELSE {Op("del2", i, 0) : i \in Ends(n)} \cup {Op("ins2", i, c) : i \in {1, n + 1}, c \in {48, 97}}
               \cup {Op("empty", 0, 0)})
    \cup {Op("prefix", k, 0) : k \in 1..(IF kind = "ChainIndex" THEN 6 ELSE IF kind = "UnlockKey" THEN 5 ELSE 4)}

\* ---- the corrupted text ---------------------------------------------------
TwoPow64 == <<49, 56, 52, 52, 54, 55, 52, 52, 48, 55, 51, 55, 48, 57, 53, 53, 49, 54, 49, 54>>  \* 18446744073709551616
BadPrefix(kind, v, k) ==
  LET pre == Pre(kind, v) IN
  CASE kind \in PrefixedKinds ->
         (CASE k = 1 -> <<>>                                             \* prefix missing
            [] k = 2 -> Subst(pre, 7, 56)                               \* ed25518:
            [] k = 3 -> SubSeq(pre, 1, 7)                               \* separator missing
            [] k = 4 -> Subst(pre, 1, 69))                              \* Ed25519:
    [] kind = "ChainIndex" ->
         (CASE k = 1 -> Dec(v.h) \o <<COLON>>                           \* one colon
            [] k = 2 -> <<COLON, COLON>>                                \* no height
            [] k = 3 -> Dec(v.h) \o <<97, COLON, COLON>>                \* height with a letter
            [] k = 4 -> <<MINUS>> \o pre                                \* negative height
            [] k = 5 -> TwoPow64 \o <<COLON, COLON>>                    \* height 2^64
            [] k = 6 -> Dec(v.h) \o <<COLON, COLON, COLON, COLON>>)     \* separator twice
    [] kind = "UnlockKey" ->
         (CASE k = 1 -> SpecText(v.alg)                                 \* separator missing
            [] k = 2 -> SpecText(v.alg) \o <<59>>                       \* ; for :
            [] k = 3 -> <<QUOTE>> \o SpecText(v.alg) \o <<COLON>>        \* unterminated quote
            [] k = 4 -> SpecText(v.alg) \o [i \in 1..17 |-> 97] \o <<COLON>>    \* over-long algorithm (seventeen letters more)
            [] k = 5 -> <<>>)                                            \* algorithm and separator removed: the bare hex
    [] kind \in {"pol-pk", "pol-h", "pol-opaque"} ->
         (CASE k = 1 -> PolName(kind) \o <<LP>>                          \* 0x missing
            [] k = 2 -> PolName(kind) \o <<LP, 48, 88>>                  \* 0X
            [] k = 3 -> PolName(kind) \o <<LP, 49, 120>>                 \* 1x
            [] k = 4 -> PolName(kind) \o <<LP>> \o L_0x \o L_0x)         \* 0x twice
    [] kind = "0x32" ->
         (CASE k = 1 -> <<>>                                             \* 0x missing
            [] k = 2 -> <<48, 88>>                                       \* 0X
            [] k = 3 -> <<49, 120>>                                      \* 1x
            [] k = 4 -> L_0x \o L_0x)                                    \* 0x twice
    [] OTHER ->                                                          \* unprefixed kinds: a prefix added
         (CASE k = 1 -> <<104, COLON>>                                   \* h:
            [] k = 2 -> L_0x
            [] k = 3 -> L_ed25519
            [] k = 4 -> <<97, 100, 100, 114, COLON>>)                    \* addr:
PVText(v, k) ==
  LET a == DecInt(v.v[1])  b == DecInt(v.v[2])  c == DecInt(v.v[3]) IN
  CASE k = 1 -> a \o <<DOT>> \o b \o <<DOT>> \o c                        \* v missing
    [] k = 2 -> <<86>> \o a \o <<DOT>> \o b \o <<DOT>> \o c              \* V
    [] k = 3 -> <<LV>> \o a \o <<DOT>> \o b                              \* two components
    [] k = 4 -> <<LV>> \o a \o <<DOT>> \o b \o <<DOT, 50, 53, 54>>       \* component 256
    [] k = 5 -> <<LV>> \o a \o <<DOT, 120, DOT>> \o c                    \* letter component
    [] k = 6 -> <<>>
    [] k = 7 -> <<LV>> \o a \o <<DOT, DOT>> \o c                         \* empty component
    [] k = 8 -> <<LV, MINUS>> \o a \o <<DOT>> \o b \o <<DOT>> \o c       \* negative component
    [] k = 9 -> <<LV>> \o a \o <<DOT>> \o b \o <<DOT>>                   \* third component empty
SPText(k) ==
  CASE k = 1 -> [i \in 1..17 |-> 97]                                     \* seventeen letters
    [] k = 2 -> <<QUOTE>> \o [i \in 1..16 |-> 97] \o <<32, QUOTE>>        \* seventeen bytes, quoted
    [] k = 3 -> <<QUOTE, 97, 98, 99>>                                     \* unterminated quote
    [] k = 4 -> <<QUOTE, BSL, 113, QUOTE>>                                \* unknown escape
Corrupt(kind, v, op) ==
  LET pre == Pre(kind, v)  hx == HexPart(kind, v)  post == Post(kind)  n == Len(hx) IN
  CASE op.o = "pv"     -> PVText(v, op.i)
    [] op.o = "sp"     -> SPText(op.i)
    [] op.o = "subst"  -> pre \o Subst(hx, op.i, op.c) \o post
    [] op.o = "swap"   -> pre \o Swap(hx, op.i) \o post
    [] op.o = "upper"  -> pre \o UpperSeq(hx) \o post
    [] op.o = "del"    -> pre \o Delete(hx, op.i) \o post
    [] op.o = "del2"   -> pre \o Delete(Delete(hx, op.i), IF op.i = 1 THEN 1 ELSE n - 1) \o post
    [] op.o = "ins"    -> pre \o Insert(hx, op.i, op.c) \o post
    [] op.o = "ins2"   -> pre \o Insert(Insert(hx, op.i, op.c), op.i, 48) \o post
    [] op.o = "empty"  -> <<>>
    [] op.o = "prefix" -> BadPrefix(kind, v, op.i) \o hx \o post
=============================================================================
