---------------------------- MODULE TextCorrupt ----------------------------
(* Direction A: corrupted identifiers generated from the specified language.

   bases.ndjson holds one abstract value per line (kind, val) recorded from the
   real code (for an address the checksum bytes come from an independent
   BLAKE2b).  For each base the text form is computed HERE from Text.tla, cut
   into  pre \o hex \o post  (pre: prefix / height:: / algorithm: / pk(0x ...),
   and every corruption class below is applied.  One initial state = one case;
   the case is printed as an @@CASE record and the harness feeds the text to
   the real parser (UnmarshalText, Parse*, json.Unmarshal).

   Expectation stated by the property:
     - an address string with any character altered is rejected; the only
       alteration a parser may tolerate is the case of a hex letter, and then
       it must return the same address;
     - for the other identifiers a text of the wrong length, prefix or
       alphabet is rejected, or at least not accepted as a different value.
   Substituting one hex digit for another in a hash or key denotes another
   valid value and is therefore not a corruption (only the address carries a
   checksum): invariant Sane states that no emitted case lies in the accepted
   language of a different value.                                            *)
EXTENDS CorruptOps
Bases == ndJsonDeserialize("bases.ndjson")
NB == Len(Bases)


VARIABLES b, op
Case == LET kind == Bases[b].kind  v == Bases[b].val
            orig == Original(kind, v)  txt == Corrupt(kind, v, op)
            cv == CaseVariant(orig, txt) IN
  [b |-> b, kind |-> kind, o |-> op.o, i |-> op.i, c |-> op.c, text |-> txt, casevar |-> cv,
   expect |-> IF cv THEN "same-or-reject"
              ELSE IF kind = "Address" THEN "reject" ELSE "reject-or-same"]

Init == /\ b \in 1..NB
        /\ op \in OpsFor(Bases[b].kind, Bases[b].val)
        /\ Corrupt(Bases[b].kind, Bases[b].val, op) # Original(Bases[b].kind, Bases[b].val)   \* e.g. upper of an all-digit text
        /\ PrintT("@@CASE " \o ToJson(Case))
Next == UNCHANGED <<b, op>>
Spec == Init /\ [][Next]_<<b, op>>

\* the base is in the specification's domain and prints to a text of the accepted language;
\* no case (other than for an address) lies in the accepted language of a different value
Sane == LET kind == Bases[b].kind  v == Bases[b].val  txt == Corrupt(kind, v, op) IN
  /\ WellFormed(SpecKind(kind), IF SpecKind(kind) = "SpendPolicy" THEN [k |-> "pk", b |-> v.b] ELSE v)
  /\ kind = "UnlockKey" => KeyTokSane(v, txt)
  /\ kind \in HashKinds \cup PrefixedKinds \cup {"Signature", "Address"} =>
       /\ Accepts(kind, Original(kind, v))
       /\ Decode(kind, Original(kind, v)) = (IF kind = "Address" THEN v.b \o v.ck ELSE v.b)
       /\ (Accepts(kind, txt) /\ kind # "Address") => Decode(kind, txt) = v.b
=============================================================================
