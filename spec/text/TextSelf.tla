------------------------------ MODULE TextSelf ------------------------------
(* Model-internal checks of Text.tla (no real code involved): the printed forms
   are injective and lie in the accepted languages.  x ranges over all byte
   values, y over a probe set; a failure here is a specification bug.        *)
EXTENDS Text
VARIABLES x, y
ProbeBytes == {0, 7, 9, 10, 34, 48, 57, 65, 92, 97, 102, 103, 120, 126, 127, 128, 193, 245, 255}
Init == x \in 0..255 /\ y \in ProbeBytes
Next == UNCHANGED <<x, y>>
Spec == Init /\ [][Next]_<<x, y>>

Rep(b, n) == [i \in 1..n |-> b]
HexInverse == /\ UnHex(HexOf(<<x, y>>)) = <<x, y>>
              /\ UnHex(UpperSeq(HexOf(<<x, y>>))) = <<x, y>>
              /\ AllLowerHex(HexOf(<<x, y>>))
HexLanguage ==
  LET h == HexOf(Rep(x, 31) \o <<y>>) IN
  /\ Accepts("Hash256", h) /\ Decode("Hash256", h) = Rep(x, 31) \o <<y>>
  /\ Accepts("PublicKey", L_ed25519 \o h) /\ Decode("PublicKey", L_ed25519 \o h) = Rep(x, 31) \o <<y>>
  /\ ~Accepts("Hash256", Delete(h, 1)) /\ ~Accepts("Hash256", Insert(h, 1, 48))
  /\ ~Accepts("Hash256", Subst(h, 64, 103)) /\ ~Accepts("PublicKey", h)
  /\ Accepts("Address", h \o HexOf(Rep(y, 6)))
  /\ TextOf("Hash256", [b |-> Rep(x, 31) \o <<y>>]) = h
  /\ TextOf("Signature", [b |-> Rep(x, 63) \o <<y>>]) = HexOf(Rep(x, 63)) \o HexOf(<<y>>)

\* the inverse of the escaping used by Quoted
RECURSIVE Unesc(_)
Unesc(s) ==
  IF s = <<>> THEN <<>>
  ELSE IF s[1] # BSL THEN <<s[1]>> \o Unesc(Tail(s))
  ELSE LET e == s[2] IN
       IF e = 120 THEN <<16 * HexVal(s[3]) + HexVal(s[4])>> \o Unesc(SubSeq(s, 5, Len(s)))
       ELSE <<CASE e = QUOTE -> QUOTE [] e = BSL -> BSL [] e = 97 -> 7 [] e = 98 -> 8 [] e = 102 -> 12
                [] e = 110 -> 10 [] e = 114 -> 13 [] e = 116 -> 9 [] e = 118 -> 11>> \o Unesc(SubSeq(s, 3, Len(s)))
InAlpha(c) == InSpecAlphabet(<<c>>)
EscInverse == (InAlpha(x) /\ InAlpha(y)) =>
                /\ Unesc(EscBody(<<x, y>>)) = <<x, y>>
                /\ Unesc(EscBody(<<y, x, y>>)) = <<y, x, y>>
EscPrintable == InAlpha(x) => LET e == EscByte(x) IN
                /\ \A i \in DOMAIN e : e[i] \in 32..126
                /\ (Len(e) = 1 => e[1] \notin {QUOTE, BSL})
SpecQuoting ==
  LET s == <<x, y>> \o Rep(0, 14)  t == Trim0(s) IN
  (InAlpha(x) /\ InAlpha(y)) =>
    /\ (IsAlnum(x) /\ IsAlnum(y)) => SpecText(s) = <<x, y>>
    /\ (y = 0 /\ IsAlnum(x)) => SpecText(s) = <<x>>
    /\ (x = 0 /\ y = 0) => SpecText(s) = <<>>
    /\ (~IsAlnum(x) /\ x # 0) => /\ SpecText(s)[1] = QUOTE
                                 /\ Unesc(SubSeq(SpecText(s), 2, Len(SpecText(s)) - 1)) = t
    /\ JSONString(SpecText(s))[1] = QUOTE
DecInverse == /\ FromDigits([i \in DOMAIN DecInt(x * 256 + y) |-> DecInt(x * 256 + y)[i] - 48]) = FromInt(x * 256 + y)
              /\ (x * 256 + y > 0 => DecInt(x * 256 + y)[1] # 48)
PolShape ==
  LET pk == [k |-> "pk", b |-> Rep(x, 32)]
      ab == [k |-> "above", n |-> FromInt(x * 256 + y)]
      uc == [k |-> "uc", tl |-> FromInt(x), keys |-> <<[alg |-> <<101, 100>> \o Rep(0, 14), key |-> <<x, y>>]>>, sr |-> FromInt(y)]
      th == [k |-> "thresh", n |-> y, of |-> <<pk, ab, uc>>] IN
  /\ WellFormedPol(th)
  /\ PolText(pk) = L_pk \o <<LP>> \o L_0x \o HexOf(Rep(x, 32)) \o <<RP>>
  /\ PolText(th) = L_thresh \o <<LP>> \o DecInt(y) \o <<COMMA, LB>> \o PolText(pk) \o <<COMMA>> \o PolText(ab)
                     \o <<COMMA>> \o PolText(uc) \o <<RB, RP>>
  /\ PolText(uc) = L_uc \o <<LP>> \o DecInt(x) \o <<COMMA, LB, 101, 100, COLON>> \o HexOf(<<x, y>>) \o <<RB, COMMA>> \o DecInt(y) \o <<RP>>
  /\ PolEquiv(th, th) /\ ~PolEquiv(th, [th EXCEPT !.n = (y + 1) % 256])
  /\ PolText([k |-> "thresh", n |-> 0, of |-> <<>>]) = L_thresh \o <<LP, 48, COMMA, LB, RB, RP>>
=============================================================================
