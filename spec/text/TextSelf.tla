------------------------------ MODULE TextSelf ------------------------------
(* Model-internal checks of Text.tla (no real code involved): the printed forms
   are injective and lie in the accepted languages.  x ranges over all byte
   values, y over a probe set; a failure here is a specification bug.        *)
EXTENDS Text
VARIABLES x, y
ProbeBytes == {0, 7, 9, 10, 31, 32, 34, 48, 57, 65, 92, 97, 102, 103, 120, 126, 127, 128, 193, 245, 255}
Init == x \in 0..255 /\ y \in ProbeBytes
Next == UNCHANGED <<x, y>>
Spec == Init /\ [][Next]_<<x, y>>

Rep(b, n) == [i \in 1..n |-> b]
HexInverse == /\ UnHex(HexOf(<<x, y>>)) = <<x, y>>
              /\ UnHex(UpperSeq(HexOf(<<x, y>>))) = <<x, y>>
              /\ AllLowerHex(HexOf(<<x, y>>))
HexLanguage ==
  LET h == HexOf(Rep(x, 31) \o <<y>>) IN
  /\ Accepts("Hash256", h) /\ Decode("Hash256", h) = Rep(x, 31) \o <<y>>
  /\ Accepts("PublicKey", L_ed25519 \o h) /\ Decode("PublicKey", L_ed25519 \o h) = Rep(x, 31) \o <<y>>
  /\ ~Accepts("Hash256", Delete(h, 1)) /\ ~Accepts("Hash256", Insert(h, 1, 48))
  /\ ~Accepts("Hash256", Subst(h, 64, 103)) /\ ~Accepts("PublicKey", h)
  /\ Accepts("Address", h \o HexOf(Rep(y, 6)))
  /\ TextOf("Hash256", [b |-> Rep(x, 31) \o <<y>>]) = h
  /\ TextOf("Signature", [b |-> Rep(x, 63) \o <<y>>]) = HexOf(Rep(x, 63)) \o HexOf(<<y>>)

\* the inverse of the escaping used by Quoted
RECURSIVE Unesc(_)
Unesc(s) ==
  IF s = <<>> THEN <<>>
  ELSE IF s[1] # BSL THEN <<s[1]>> \o Unesc(Tail(s))
  ELSE LET e == s[2] IN
       IF e = 120 THEN <<16 * HexVal(s[3]) + HexVal(s[4])>> \o Unesc(SubSeq(s, 5, Len(s)))
       ELSE <<CASE e = QUOTE -> QUOTE [] e = BSL -> BSL [] e = 97 -> 7 [] e = 98 -> 8 [] e = 102 -> 12
                [] e = 110 -> 10 [] e = 114 -> 13 [] e = 116 -> 9 [] e = 118 -> 11>> \o Unesc(SubSeq(s, 3, Len(s)))
InAlpha(c) == InSpecAlphabet(<<c>>)      \* every single byte lies in the quoting alphabet; pairs: lead + continuation do not
EscInverse == InSpecAlphabet(<<x, y>>) =>
                /\ Unesc(EscBody(<<x, y>>)) = <<x, y>>
                /\ Unesc(EscBody(<<y, x, y>>)) = <<y, x, y>>
EscPrintable == InAlpha(x) => LET e == EscByte(x) IN
                /\ \A i \in DOMAIN e : e[i] \in 32..126
                /\ (Len(e) = 1 => e[1] \notin {QUOTE, BSL})
SpecQuoting ==
  LET s == <<x, y>> \o Rep(0, 14)  t == Trim0(s) IN
  InSpecAlphabet(s) =>
    /\ (IsAlnum(x) /\ IsAlnum(y)) => SpecText(s) = <<x, y>>
    /\ (y = 0 /\ IsAlnum(x)) => SpecText(s) = <<x>>
    /\ (x = 0 /\ y = 0) => SpecText(s) = <<>>
    /\ (~IsAlnum(x) /\ x # 0) => /\ SpecText(s)[1] = QUOTE
                                 /\ Unesc(SubSeq(SpecText(s), 2, Len(SpecText(s)) - 1)) = t
    /\ JSONString(SpecText(s))[1] = QUOTE
DecInverse == /\ FromDigits([i \in DOMAIN DecInt(x * 256 + y) |-> DecInt(x * 256 + y)[i] - 48]) = FromInt(x * 256 + y)
              /\ (x * 256 + y > 0 => DecInt(x * 256 + y)[1] # 48)
PolShape ==
  LET pk == [k |-> "pk", b |-> Rep(x, 32)]
      ab == [k |-> "above", n |-> FromInt(x * 256 + y)]
      uc == [k |-> "uc", tl |-> FromInt(x), keys |-> <<[alg |-> <<101, 100>> \o Rep(0, 14), key |-> <<x, y>>]>>, sr |-> FromInt(y)]
      th == [k |-> "thresh", n |-> y, of |-> <<pk, ab, uc>>] IN
  /\ WellFormedPol(th, TRUE)
  /\ PolText(pk) = L_pk \o <<LP>> \o L_0x \o HexOf(Rep(x, 32)) \o <<RP>>
  /\ PolText(th) = L_thresh \o <<LP>> \o DecInt(y) \o <<COMMA, LB>> \o PolText(pk) \o <<COMMA>> \o PolText(ab)
                     \o <<COMMA>> \o PolText(uc) \o <<RB, RP>>
  /\ PolText(uc) = L_uc \o <<LP>> \o DecInt(x) \o <<COMMA, LB, 101, 100, COLON>> \o HexOf(<<x, y>>) \o <<RB, COMMA>> \o DecInt(y) \o <<RP>>
  /\ PolEquiv(th, th) /\ ~PolEquiv(th, [th EXCEPT !.n = (y + 1) % 256])
  /\ PolText([k |-> "thresh", n |-> 0, of |-> <<>>]) = L_thresh \o <<LP, 48, COMMA, LB, RB, RP>>
\* limits: depth and width of policies, the unit form of currencies, signed Unix seconds
RECURSIVE Nested(_, _)
Nested(d, leaf) == IF d = 0 THEN leaf ELSE [k |-> "thresh", n |-> 1, of |-> <<Nested(d - 1, leaf)>>]
\* (evaluated on four values of x: none of it depends on more than the magnitude of x)
Limits == x \in {0, 1, 97, 255} =>
  LET pk == [k |-> "pk", b |-> Rep(x, 32)]
      e0 == [k |-> "thresh", n |-> 0, of |-> <<>>]
      d  == y % 40                                     \* the probe set reaches 31, 32, 33
      n  == x * 256 + y  IN
  /\ PolDepth(pk) = 0 /\ PolDepth(e0) = 0
  /\ PolDepth(Nested(d, pk)) = d /\ PolDepth(Nested(d, e0)) = d
  /\ BinaryAdmitsPol(Nested(d, pk)) = (d <= 32)
  /\ PolDepth([k |-> "thresh", n |-> 2, of |-> <<pk, Nested(d, pk), pk>>]) = d + 1
  /\ PolText(Nested(2, pk)) = L_thresh \o <<LP, 49, COMMA, LB>> \o L_thresh \o <<LP, 49, COMMA, LB>> \o PolText(pk) \o <<RB, RP, RB, RP>>
  /\ Agrees(TRUE, TRUE, TRUE) /\ ~Agrees(TRUE, FALSE, FALSE) /\ Agrees(FALSE, FALSE, FALSE) /\ ~Agrees(FALSE, TRUE, FALSE)
  \* the unit form denotes the value, for small values and scaled up to each unit
  /\ \A e \in {0, 9, 11, 12, 13, 24, 36, 38} :
       LET v == Mul(FromInt(n), Pow10(e))  txt == CurUnitText(v) IN
       (Lt(v, Pow2(128)) => CurAccepts(txt) /\ CurDenotes(txt) = v) /\ CurDenotes(Dec(v)) = v
  /\ (x = 0 /\ y = 0) =>
     /\ CurUnitText(Pow10(24)) = <<49, 32, 83, 67>>                                    \* 1 SC
     /\ CurUnitText(Add(Pow10(24), Pow10(23))) = <<49, 46, 49, 32, 83, 67>>            \* 1.1 SC
     /\ CurUnitText(Sub(Pow10(12), One)) = [i \in 1..12 |-> 57] \o <<32, 72>>          \* 999999999999 H
     /\ CurUnitText(Pow10(12)) = <<49, 32, 112, 83>>                                   \* 1 pS
     /\ CurUnitText(Pow10(40)) = <<49, 48, 48, 48, 48, 32, 84, 83>>                    \* 10000 TS
     /\ Len(Digits(MaxCurrency)) = 39
     /\ Len(CurUnitText(MaxCurrency)) = 43                                             \* 340.<36 digits> TS
  /\ UnixLe(Unix(TRUE, FromInt(n + 1)), Unix(FALSE, FromInt(n))) /\ ~UnixLe(Unix(FALSE, FromInt(n)), Unix(TRUE, FromInt(n + 1)))
  /\ UnixLe(Unix(TRUE, FromInt(n + 1)), Unix(TRUE, FromInt(n))) /\ UnixLe(Unix(FALSE, FromInt(n)), Unix(FALSE, FromInt(n + 1)))
  /\ InJSONYears(Unix(FALSE, FromInt(n))) /\ ~InJSONYears(Unix(FALSE, Add(MaxJSONUnix.n, FromInt(n + 1))))
  /\ ~InJSONYears(MinUnix64) /\ ~InJSONYears(MaxUnix64) /\ InJSONYears(MinJSONUnix) /\ InJSONYears(MaxJSONUnix)
=============================================================================
