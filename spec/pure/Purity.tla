------------------------------- MODULE Purity -------------------------------
(* C09 — validation and application are pure functions of their inputs.

   The library's entry points (ValidateBlock, ApplyBlock, RevertBlock, the
   per-transaction path, ValidateTransactionElements, the block encoder) are
   specified as ONE memo function:

     memo : Key -> Result          what a function returned for given inputs
     open : CallId -> call         calls that have begun and not yet ended
     seen : Mem -> Digest          the contents of every memory region that
                                   was ever handed to a call, as first seen

   A Key is the content hash of (function name, state bytes, block bytes,
   supplement bytes): it does not mention where the bytes live, so copies of
   a block that were obtained independently (decoded, multiproof-expanded,
   JSON, Share()d memory, DeepCopy) share a key exactly when they have the
   same content.  "Same content" is what the encodings and the ID carry: in
   particular a TIMESTAMP IS ITS ENCODED SECOND - the sub-second part, the
   location and the monotonic clock reading an in-memory time may carry are
   representation (SameTimestamp below); a block given in such a
   representation has the ID, proof of work and encoding of its whole-second
   UTC form, hence its key, and so must verdict, state and update be - also
   for every later block of a chain whose state would have kept the
   difference.  A Mem names one region of memory holding inputs; a Digest
   is a hash of everything reachable from it (every proof slice included).

   Begin(id, key, mem, d)  a call starts on the inputs in mem, which hash to d.
                           Allowed iff id is fresh and mem still has the
                           contents it had whenever it was seen before.
   End(id, res, d, fresh)  the call returns res; the inputs now hash to d.
                           Allowed iff d is the digest recorded at Begin
                           (inputs unchanged), res is what was returned for
                           this key before, if anything was (same inputs =>
                           same outputs), and the accumulator proofs of the
                           elements in the result (which the call and later
                           UpdateElementProof rewrite in place) are not
                           memory of the inputs (fresh).
   Audit(mem, d)           the harness looks at mem while no call is running.
   Mutate(key, mem, d, d1, res)
                           the one kind of operation that is MEANT to write:
                           UpdateElementProof brings the proof of ONE element
                           (the cell mem, digest d before and d1 after) up to
                           date with a block.  Its key is the content of the
                           cell before together with the update applied; like
                           every key it does not say how that content was
                           obtained.  Allowed iff the cell is as it was last
                           seen and the content it is left with (res) is the
                           one this key produced before, if it did: the same
                           content obtained as a decoded copy, expanded from a
                           multiproof, deep-copied, JSON-decoded or held in
                           Share()d memory reaches the same content.  Only
                           seen[mem] moves; every other cell - the
                           neighbouring elements of the same value, the same
                           element in every other copy - keeps what Begin and
                           Audit demand of it: the contents it was seen with.

   Place(mem, who, frozen, regs)
                           OWNERSHIP OF BACKING ARRAYS.  Results are independent
                           values: an update that ApplyBlock / RevertBlock
                           returned (who = that update, frozen: nobody is ever
                           meant to write it again) and every cell a holder keeps
                           of an element (a Copy() of an element of an update's
                           diffs, kept up to date over a HISTORY of updates with
                           the updates' own UpdateElementProof - elements the
                           update itself spent, revised or resolved included)
                           live in memory of their own.  regs is the set of
                           stretches [lo, hi) of addresses that back mem, up to
                           capacity, after it was returned (publish), copied
                           (track) or refreshed (every Mutate is followed by the
                           Place of the refreshed cell: the refresh may have
                           moved it).  Allowed iff no stretch overlaps a stretch
                           of another mem; stretches of one frozen owner may
                           overlap each other (an update may share memory with
                           itself, a holder's cells are written one by one and
                           may not).  A refresh that hands the holder the
                           update's own array leaves the same CONTENT as an honest
                           one - no digest tells them apart at that moment; the
                           damage is done by the next refresh, which writes the
                           update (or another holder's cell) in place.
   Look(mem, d)            a returned result is looked at again, any time later
                           (after later blocks were applied, after holders were
                           refreshed with it and with later updates): it has the
                           contents it was returned with.

   There is no ordering constraint between calls: every interleaving of Begin
   and End events is a behaviour, so the specification is insensitive to the
   schedule; what it fixes is that results are a function of the key and that
   memory never changes.

   This module holds the acceptance predicates and state updates as operators
   over a record st = [memo, open, seen, reg]; PurityMC (calls, Mutate) and
   OwnershipMC (Place, Look over histories of updates) explore them against
   honest and dishonest implementations, PurityTrace applies them to a log
   recorded from the real code.                                              *)
EXTENDS Integers, Sequences, FiniteSets, TLC

\* a time as held in memory: [sec, nsec, zone, mono]; its content is sec
SameTimestamp(a, b) == a.sec = b.sec
Empty == [x \in {} |-> TRUE]
Fresh0 == [memo |-> Empty, open |-> Empty, seen |-> Empty, reg |-> Empty]

\* ---- Begin ---------------------------------------------------------------
BeginIdFresh(st, e) == e.id \notin DOMAIN st.open
BeginMemSame(st, e) == e.mem \in DOMAIN st.seen => st.seen[e.mem] = e.d
BeginOK(st, e)      == BeginIdFresh(st, e) /\ BeginMemSame(st, e)
AfterBegin(st, e) ==
  [st EXCEPT !.open = (e.id :> [key |-> e.key, mem |-> e.mem, d |-> e.d]) @@ @,
             !.seen = IF e.mem \in DOMAIN @ THEN @ ELSE (e.mem :> e.d) @@ @]

\* ---- End -----------------------------------------------------------------
EndOpen(st, e)      == e.id \in DOMAIN st.open
EndUnchanged(st, e) == e.d = st.open[e.id].d                       \* inputs were not modified
EndSeenSame(st, e)  == st.seen[st.open[e.id].mem] = e.d             \* ... nor by anybody else meanwhile
EndSameResult(st, e) ==                                             \* same inputs => same outputs
  LET k == st.open[e.id].key IN k \in DOMAIN st.memo => st.memo[k] = e.res
EndFresh(st, e)     == e.fresh                                      \* result owns its proof memory
EndOK(st, e) == /\ EndOpen(st, e) /\ EndUnchanged(st, e) /\ EndSeenSame(st, e)
                /\ EndSameResult(st, e) /\ EndFresh(st, e)
AfterEnd(st, e) ==
  IF ~EndOpen(st, e) THEN st ELSE
  LET k == st.open[e.id].key IN
  [st EXCEPT !.open = [i \in DOMAIN @ \ {e.id} |-> @[i]],
             !.memo = IF k \in DOMAIN @ THEN @ ELSE (k :> e.res) @@ @]

\* ---- Audit ---------------------------------------------------------------
AuditOK(st, e) == e.mem \in DOMAIN st.seen => st.seen[e.mem] = e.d
AfterAudit(st, e) == [st EXCEPT !.seen = IF e.mem \in DOMAIN @ THEN @ ELSE (e.mem :> e.d) @@ @]

\* ---- Mutate --------------------------------------------------------------
\* e = [key, mem, d, d1, res]
MutCellSame(st, e)   == e.mem \in DOMAIN st.seen => st.seen[e.mem] = e.d       \* nobody else wrote the cell meanwhile
MutSameResult(st, e) == e.key \in DOMAIN st.memo => st.memo[e.key] = e.res     \* same content + same update => same content
MutNotInUse(st, e)   == \A i \in DOMAIN st.open : st.open[i].mem # e.mem       \* (environment) no call is reading the cell
MutOK(st, e) == MutCellSame(st, e) /\ MutSameResult(st, e)
AfterMut(st, e) ==
  [st EXCEPT !.seen = (e.mem :> e.d1) @@ @,
             !.memo = IF e.key \in DOMAIN @ THEN @ ELSE (e.key :> e.res) @@ @]

\* ---- Place / Look (ownership of backing arrays) ----------------------------
\* e = [mem, who, frozen, regs];  st.reg[m] = [who, frozen, regs];  a stretch is <<lo, hi>>
Overlap(r, s) == r[1] < r[2] /\ s[1] < s[2] /\ r[1] < s[2] /\ s[1] < r[2]
SharesWith(e, o) == \E r \in e.regs, s \in o.regs : Overlap(r, s)
SelfDisjoint(e)  == e.frozen \/ \A r, s \in e.regs : r = s \/ ~Overlap(r, s)
Sharers(st, e)   == {m \in DOMAIN st.reg \ {e.mem} :
                       /\ ~(e.frozen /\ st.reg[m].frozen /\ st.reg[m].who = e.who)   \* one update, several cells
                       /\ SharesWith(e, st.reg[m])}
PlaceOK(st, e)    == SelfDisjoint(e) /\ Sharers(st, e) = {}
AfterPlace(st, e) == [st EXCEPT !.reg = (e.mem :> [who |-> e.who, frozen |-> e.frozen, regs |-> e.regs]) @@ @]
\* e = [mem, d]
LookOK(st, e)    == e.mem \in DOMAIN st.seen => st.seen[e.mem] = e.d
AfterLook(st, e) == [st EXCEPT !.seen = IF e.mem \in DOMAIN @ THEN @ ELSE (e.mem :> e.d) @@ @]

\* quiescent: every call that began has ended
Quiet(st) == DOMAIN st.open = {}
=============================================================================
