SPECIFICATION Spec
CONSTANTS
  Holders = {"h1", "h2"}
  Updates = {"u1", "u2"}
  Arrays = {1, 2, 3, 4, 5}
  Vals = {"v0", "v1"}
  Blind = FALSE
INVARIANTS TypeOK Sound Complete RegIsArr OwnershipSuffices
CHECK_DEADLOCK FALSE
