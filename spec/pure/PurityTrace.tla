----------------------------- MODULE PurityTrace -----------------------------
(* Trace validation of the real consensus code against Purity.tla (direction B).

   The harness runs ValidateBlock, ApplyBlock, RevertBlock, the per-transaction
   path, ValidateTransactionElements and the block encoder from 1, 2, 8 or 32
   goroutines on the same memory and on copies of it, and logs

     B   a call begins:  id, fn, case, mem, d     (d = digest of everything reachable from the inputs)
     E   a call ends:    id, res, d, fresh         (res = digest of verdict class / State bytes / update JSON;
                                                    fresh = no accumulator proof of an element of the update lives in input memory)
     A   audit:          mem, d                    (inputs looked at while no call is running)
     M   update:         id, fn, op, case, mem, d, d1, res, who, frozen, regs
                                                   (UpdateElementProof on ONE element of one copy of the inputs: mem names
                                                    the cell = that element's proof memory up to its capacity, d / d1 its
                                                    digest before / after, fn = "upd:" + content of the element before,
                                                    res = content of the element after; case = the block whose update is
                                                    applied.  After every M the harness audits the neighbouring cells of
                                                    the same copy, after every pass over a copy the cells of the source
                                                    the copies were made from, at the end every cell of every copy.)

     P   place:          mem, who, frozen, regs, by
                                                 (ownership of backing arrays, Purity!Place: the memory that backs mem up to
                                                  capacity, as stretches <<lo, hi>> of addresses (order-preserving ranks of
                                                  the real addresses, per segment).  by = "publish": who is an update that
                                                  ApplyBlock / RevertBlock just returned, mem names it, regs are the proof
                                                  arrays reachable from it, frozen; by = "track": mem is the cell of one
                                                  element a holder just copied; every M line carries the same members for
                                                  the cell as it is AFTER the refresh)
     L   look:           mem, d                    (a returned update, deep digest, looked at again after later refreshes)

   in the order in which the events happened.  A Key of Purity is <<fn, case>>
   where case = content hash of (state bytes, block bytes, supplement bytes).
   Because the clauses of Purity speak about one key / one memory region at a
   time, the log is filed by case: the events of one case, in their recorded
   order, form a segment headed by a "seg" line, and segments are validated
   independently and in parallel (from the root state TLC branches into every
   segment).  The per-transaction verdict is logged with fn = "validate", the
   key of the block verdict, whenever the block-level checks pass, so that
   the memo clause demands that both verdicts agree.

   The trace is stateful: one TLC state per line; memo/open/seen evolve as
   Purity prescribes.  A clause that does not hold prints a REJECT record with
   the line number; "V:" clauses are verdicts about the code, "H:" clauses
   mean the harness filed the log wrongly (infrastructure).  After a rejected
   digest the specification continues from the digest it was shown, so that
   every change is reported once.  Acceptance: no REJECT record and exactly
   1 + Len(Trace) distinct states (every line was consumed).                 *)
EXTENDS Purity, TraceLib, Json
Trace == ndJsonDeserialize("trace.ndjson")
N == Len(Trace)
Segs == {i \in 1..N : Trace[i].ev = "seg"}
SegsDistinct == Cardinality({Trace[i].case : i \in Segs}) = Cardinality(Segs)
VARIABLES l, st, cs

BeginLine(t, ln) ==
  LET e == [id |-> t.id, key |-> t.fn, mem |-> t.mem, d |-> t.d] IN
  /\ Check(t.case = cs, ln, "H:event filed under another case")
  /\ Check(BeginIdFresh(st, e), ln, "H:call id reused")
  /\ Check(BeginMemSame(st, e), ln, "V:input-changed-between-calls " \o t.fn)
  /\ st' = [AfterBegin(st, e) EXCEPT !.seen = (e.mem :> e.d) @@ @]

EndLine(t, ln) ==
  LET e == [id |-> t.id, res |-> t.res, d |-> t.d, fresh |-> t.fresh] IN
  IF ~EndOpen(st, e) THEN Reject(ln, "H:end without begin") /\ st' = st
  ELSE LET fn == st.open[e.id].key  m == st.open[e.id].mem IN
       /\ Check(EndUnchanged(st, e), ln, "V:input-modified-during-call " \o fn)
       /\ Check(~EndUnchanged(st, e) \/ EndSeenSame(st, e), ln, "V:input-modified-by-concurrent-call " \o fn)
       /\ Check(EndSameResult(st, e), ln, "V:result-differs " \o fn)
       /\ Check(EndFresh(st, e), ln, "V:result-aliases-input-proof " \o fn)
       \* the library's own Share/Move guard ("Move called on shared StateElement") stopped ApplyBlock of a block
       \* the Ledger specification accepts: memory that was only lent to the call was about to be rewritten
       /\ Check(~(e.res = "panic:shared" /\ fn = "apply"), ln, "V:aliasing-guard-fired " \o fn)
       /\ st' = [AfterEnd(st, e) EXCEPT !.seen = (m :> e.d) @@ @]

\* the copies of one case (independently allocated, decoded through the multiproof form, decoded plainly, JSON,
\* DeepCopy/Copy, Share()d views) are updated under the same keys: Purity!MutSameResult is "obtained how is irrelevant"
Regs(t) == {<<t.regs[i][1], t.regs[i][2]>> : i \in 1..Len(t.regs)}
PlaceOf(t) == [mem |-> t.mem, who |-> t.who, frozen |-> t.frozen, regs |-> Regs(t)]
MutLine(t, ln) ==
  LET e == [key |-> t.fn, mem |-> t.mem, d |-> t.d, d1 |-> t.d1, res |-> t.res]
      p == PlaceOf(t) IN
  /\ Check(t.case = cs, ln, "H:event filed under another case")
  /\ Check(MutNotInUse(st, e), ln, "H:update of memory a call is running on")
  /\ Check(MutCellSame(st, e), ln, "V:cell-changed-before-update " \o t.op)
  /\ Check(MutSameResult(st, e), ln, "V:update-result-differs " \o t.op)
  \* the refreshed cell is memory of its holder alone: not the update's, not another holder's, not a neighbour's
  /\ Check(PlaceOK(st, p), ln, "V:refresh-shares-array " \o t.op)
  /\ st' = AfterPlace(AfterMut(st, e), p)

PlaceLine(t, ln) ==
  LET p == PlaceOf(t) IN
  /\ Check(t.case = cs, ln, "H:event filed under another case")
  /\ Check(PlaceOK(st, p), ln, "V:array-shared " \o t.by)
  /\ st' = AfterPlace(st, p)

LookLine(t, ln) ==
  LET e == [mem |-> t.mem, d |-> t.d] IN
  /\ Check(LookOK(st, e), ln, "V:result-changed-after-return look")
  /\ st' = [AfterLook(st, e) EXCEPT !.seen = (e.mem :> e.d) @@ @]

AuditLine(t, ln) ==
  LET e == [mem |-> t.mem, d |-> t.d] IN
  /\ Check(AuditOK(st, e), ln, "V:input-changed-when-quiet audit")
  /\ st' = [AfterAudit(st, e) EXCEPT !.seen = (e.mem :> e.d) @@ @]

LastOfSegment(ln) == ln = N \/ Trace[ln + 1].ev = "seg"

Init == /\ l = 0 /\ st = Fresh0 /\ cs = ""
        /\ Check(N = 0 \/ Trace[1].ev = "seg", 0, "H:log does not start with a segment")
        /\ Check(SegsDistinct, 0, "H:two segments for one case")
Next ==
  \/ /\ l = 0
     /\ \E r \in Segs : l' = r /\ st' = Fresh0 /\ cs' = Trace[r].case
  \/ /\ l > 0 /\ l < N /\ Trace[l + 1].ev # "seg"
     /\ LET t == Trace[l + 1] IN
        /\ CASE t.ev = "B" -> BeginLine(t, l + 1)
             [] t.ev = "E" -> EndLine(t, l + 1)
             [] t.ev = "A" -> AuditLine(t, l + 1)
             [] t.ev = "M" -> MutLine(t, l + 1)
             [] t.ev = "P" -> PlaceLine(t, l + 1)
             [] t.ev = "L" -> LookLine(t, l + 1)
             [] OTHER -> Reject(l + 1, "H:unknown event") /\ st' = st
        /\ Check(~LastOfSegment(l + 1) \/ Quiet(st'), l + 1, "H:segment ends with a call still open")
        /\ l' = l + 1 /\ UNCHANGED cs
Spec == Init /\ [][Next]_<<l, st, cs>>
=============================================================================
