---------------------------- MODULE OwnershipMC ----------------------------
(* Design-level exploration of the ownership clauses of Purity.tla (Place,
   Look) over HISTORIES: updates are returned one after the other (Publish);
   holders take a copy of the element out of an update (Track) and bring it up
   to date with an update's own UpdateElementProof (Refresh), again and again.
   One element is followed; every owner (holder or update) has one cell for
   it.  Ground truth is memory itself: arr[o] is the backing array of owner
   o's cell, mem[a] what array a holds - a write through one owner is seen by
   every owner on the same array.

   An HONEST implementation gives every returned update and every copy an
   array of its own, and a refresh writes the holder's own array in place or
   moves the cell to a new array (append).  A DISHONEST one may alias at each
   of the three points: a returned update on memory somebody holds already
   (PublishOn), a copy on the array it was copied from (TrackAlias), and - the
   case no single call and no digest shows - a refresh that hands the holder
   the array of the update it was refreshed with, or of another holder
   (RefreshAdopt): the content is exactly what an honest refresh leaves.

   Invariants: the specification rejects exactly the events after which two
   owners share an array (Sound, Complete); and, as long as it has rejected
   nothing, every update that was ever returned still has the contents it was
   returned with, and no two holders can see each other's writes
   (OwnershipSuffices).  With Blind = TRUE the specification does not look at
   Place events (what the check did before): then UpdatesKeepContents is
   violated by the history  Publish u1; Track h <- u1; Refresh h with u1
   (adopt); Publish u2; Refresh h with u2 (in place)  - the harness runs that
   configuration too and requires TLC to find the violation.               *)
EXTENDS Purity
CONSTANTS Holders, Updates, Arrays, Vals, Blind
VARIABLES st,     \* specification state (reg and seen are used)
          arr,    \* arr[o]: array of owner o's cell (0: o has no cell yet)
          mem,    \* mem[a]: contents of array a
          pub,    \* pub[u]: contents update u was returned with ("none": not yet returned)
          last    \* [bad, ok, kind] of the last event
vars == <<st, arr, mem, pub, last>>
Owners == Holders \cup Updates
Stretch(a) == {<<a, a + 1>>}
Free == {a \in Arrays : \A o \in Owners : arr[o] # a}
SharedNow(a2, o) == \E p \in Owners \ {o} : a2[p] # 0 /\ a2[p] = a2[o]      \* ground truth after the event

Init == /\ st = Fresh0
        /\ arr = [o \in Owners |-> 0]
        /\ mem \in [Arrays -> Vals]
        /\ pub = [u \in Updates |-> "none"]
        /\ last = [bad |-> FALSE, ok |-> TRUE, kind |-> "init"]

\* the Place event of owner o, whose cell now lives in array a
PlaceEv(o, a) == [mem |-> o, who |-> o, frozen |-> o \in Updates, regs |-> Stretch(a)]
Placed(o, a, a2, kind) ==
  LET e == PlaceEv(o, a)  ok == Blind \/ PlaceOK(st, e) IN
  /\ last' = [bad |-> SharedNow(a2, o), ok |-> ok, kind |-> kind]
  /\ arr' = a2
  /\ st' = IF ok THEN AfterPlace(st, e) ELSE st

\* an update is returned with contents v, in array a
Publish(u, a, v, kind) ==
  /\ arr[u] = 0
  /\ mem' = [mem EXCEPT ![a] = v]
  /\ pub' = [pub EXCEPT ![u] = v]
  /\ LET e == PlaceEv(u, a)  ok == Blind \/ PlaceOK(st, e)  a2 == [arr EXCEPT ![u] = a] IN
     /\ last' = [bad |-> SharedNow(a2, u), ok |-> ok, kind |-> kind]
     /\ arr' = a2
     /\ st' = IF ok THEN AfterLook(AfterPlace(st, e), [mem |-> u, d |-> v]) ELSE st
PublishHonest(u) == \E a \in Free, v \in Vals : Publish(u, a, v, "publish")
PublishOn(u)     == \E o \in Owners, v \in Vals : arr[o] # 0 /\ Publish(u, arr[o], v, "publish-on")

\* a holder copies the element out of a returned update
Track(h, u, a, kind) ==
  /\ arr[h] = 0 /\ arr[u] # 0
  /\ mem' = [mem EXCEPT ![a] = mem[arr[u]]]
  /\ Placed(h, a, [arr EXCEPT ![h] = a], kind)
  /\ UNCHANGED pub
TrackHonest(h, u) == \E a \in Free : Track(h, u, a, "track")
TrackAlias(h, u)  == Track(h, u, arr[u], "track-alias")

\* a holder refreshes its cell with a returned update
RefreshInPlace(h, u) == \E v \in Vals :
  /\ arr[h] # 0 /\ arr[u] # 0
  /\ mem' = [mem EXCEPT ![arr[h]] = v]                 \* written where the cell lives, whoever else lives there
  /\ Placed(h, arr[h], arr, "refresh")
  /\ UNCHANGED pub
RefreshMove(h, u) == \E a \in Free, v \in Vals :
  /\ arr[h] # 0 /\ arr[u] # 0
  /\ mem' = [mem EXCEPT ![a] = v]
  /\ Placed(h, a, [arr EXCEPT ![h] = a], "refresh-move")
  /\ UNCHANGED pub
RefreshAdopt(h, o) ==                                  \* o: the update used, or another holder
  /\ arr[h] # 0 /\ arr[o] # 0 /\ o # h /\ arr[o] # arr[h]
  /\ Placed(h, arr[o], [arr EXCEPT ![h] = arr[o]], "refresh-adopt")
  /\ UNCHANGED <<mem, pub>>

\* a returned update is looked at again
Look(u) ==
  LET e == [mem |-> u, d |-> mem[arr[u]]]  ok == LookOK(st, e) IN
  /\ arr[u] # 0
  /\ last' = [bad |-> mem[arr[u]] # pub[u], ok |-> ok, kind |-> "look"]
  /\ st' = IF ok THEN AfterLook(st, e) ELSE st
  /\ UNCHANGED <<arr, mem, pub>>

Live == ~last.bad \/ (Blind /\ last.kind # "look")
DoPublish      == Live /\ \E u \in Updates : PublishHonest(u)
DoPublishOn    == Live /\ \E u \in Updates : PublishOn(u)
DoTrack        == Live /\ \E h \in Holders, u \in Updates : TrackHonest(h, u)
DoTrackAlias   == Live /\ \E h \in Holders, u \in Updates : TrackAlias(h, u)
DoRefresh      == Live /\ \E h \in Holders, u \in Updates : RefreshInPlace(h, u)
DoRefreshMove  == Live /\ \E h \in Holders, u \in Updates : RefreshMove(h, u)
DoRefreshAdopt == Live /\ \E h \in Holders, o \in Owners : RefreshAdopt(h, o)
DoLook         == Live /\ \E u \in Updates : Look(u)
Next == DoPublish \/ DoPublishOn \/ DoTrack \/ DoTrackAlias \/ DoRefresh \/ DoRefreshMove \/ DoRefreshAdopt \/ DoLook
Spec == Init /\ [][Next]_vars
\* the only dishonesty is the refresh that adopts (every single call returns what an honest one returns)
NextAdoptOnly == DoPublish \/ DoTrack \/ DoRefresh \/ DoRefreshMove \/ DoRefreshAdopt \/ DoLook
SpecAdoptOnly == Init /\ [][NextAdoptOnly]_vars

TypeOK == /\ arr \in [Owners -> Arrays \cup {0}] /\ mem \in [Arrays -> Vals]
          /\ DOMAIN st.reg \subseteq Owners /\ DOMAIN st.seen \subseteq Updates
\* every event that leaves two owners on one array (or shows a changed update) is rejected ...
Sound    == last.bad => ~last.ok
\* ... and no other event is
Complete == ~last.bad => last.ok
\* what the specification believes about where cells live is the truth
RegIsArr == ~last.bad => \A o \in DOMAIN st.reg : st.reg[o].regs = Stretch(arr[o])
\* ownership suffices: while nothing was rejected, returned updates are what they were returned as, and holders are apart
UpdatesKeepContents == \A u \in Updates : arr[u] # 0 => mem[arr[u]] = pub[u]
HoldersApart == \A h1, h2 \in Holders : (h1 # h2 /\ arr[h1] # 0) => arr[h1] # arr[h2]
OwnershipSuffices == ~last.bad => (UpdatesKeepContents /\ HoldersApart)
=============================================================================
