\* The specification without the Place clause (what the check demanded before): TLC must find a history in which a
\* returned update changes (UpdatesKeepContents violated) although every single event was accepted.
SPECIFICATION SpecAdoptOnly
CONSTANTS
  Holders = {"h1"}
  Updates = {"u1", "u2"}
  Arrays = {1, 2, 3, 4}
  Vals = {"v0", "v1"}
  Blind = TRUE
INVARIANTS TypeOK UpdatesKeepContents
CHECK_DEADLOCK FALSE
