SPECIFICATION Spec
CONSTANTS
  Keys = {"k1", "k2", "k3"}
  Ids = {1, 2, 3}
  Results = {"r0", "r1"}
  Mems = {"m1", "m2"}
  Digests = {"d0", "d1"}
INVARIANTS TypeOK MemoFunctional MemoAgrees SeenIsFirst Sound Complete
CHECK_DEADLOCK FALSE
