\* Wider constants; not run by ./check since the Mutate actions were added (more than 15 minutes with 8 workers).
\* quick runs PurityMC1.cfg (65 k states), thorough PurityMC.cfg (754 k states).
SPECIFICATION Spec
CONSTANTS
  Keys = {"k1", "k2", "k3"}
  Ids = {1, 2, 3}
  Results = {"r0", "r1"}
  Mems = {"m1", "m2"}
  Digests = {"d0", "d1"}
INVARIANTS TypeOK MemoFunctional MemoAgrees SeenIsFirst Sound Complete ObtainedHowIrrelevant
CHECK_DEADLOCK FALSE
