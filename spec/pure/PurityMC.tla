------------------------------ MODULE PurityMC ------------------------------
(* Design-level exploration of Purity.tla: an environment issues concurrent
   calls against memory regions; an HONEST implementation answers from a fixed
   function impl : Key -> Result and leaves memory alone; a DISHONEST one may,
   in one End, (a) return something else than what was returned for the key
   before, (b) modify the inputs of the call, (c) modify another region that
   calls have seen (shared backing memory), (d) hand back a result that
   aliases the proofs it was given.  Ground truth is kept beside the
   specification's state (world, first, acc); the invariants say that the
   specification rejects exactly the events that expose dishonesty, and that
   what it accepts is a function of the key.  The model stops at the first
   rejected dishonest event (the trace validator goes on, a model need not). *)
EXTENDS Purity
CONSTANTS Keys, Ids, Results, Mems, Digests
VARIABLES st,      \* specification state [memo, open, seen]
          world,   \* world[m]: what memory region m contains now
          first,   \* first[m]: what m contained when it was first presented
          impl,    \* the honest function
          acc,     \* accepted <<key, result>> pairs (history)
          last     \* classification of the last event: [bad, ok, kind]
vars == <<st, world, first, impl, acc, last>>

Init == /\ st = Fresh0
        /\ world \in [Mems -> Digests]
        /\ first = Empty
        /\ impl \in [Keys -> Results]
        /\ acc = {}
        /\ last = [bad |-> FALSE, ok |-> TRUE, kind |-> "init"]

Present(m, d) == IF m \in DOMAIN first THEN first ELSE (m :> d) @@ first
Exposes(m, d) == m \in DOMAIN first /\ first[m] # d      \* ground truth: m was modified since first shown

Begin(id, k, m) ==
  LET e == [id |-> id, key |-> k, mem |-> m, d |-> world[m]]
      ok == BeginOK(st, e) IN
  /\ id \notin DOMAIN st.open
  /\ last' = [bad |-> Exposes(m, e.d), ok |-> ok, kind |-> "begin"]
  /\ st' = IF ok THEN AfterBegin(st, e) ELSE st
  /\ first' = Present(m, e.d)
  /\ UNCHANGED <<world, impl, acc>>

\* an End of call id that returns res, after the implementation rewrote memory to w
End(id, res, w, fresh, kind) ==
  LET c == st.open[id]
      e == [id |-> id, res |-> res, d |-> w[c.mem], fresh |-> fresh]
      ok == EndOK(st, e)
      wrong == c.key \in DOMAIN st.memo /\ st.memo[c.key] # res IN
  /\ last' = [bad |-> Exposes(c.mem, e.d) \/ wrong \/ ~fresh, ok |-> ok, kind |-> kind]
  /\ st' = IF ok THEN AfterEnd(st, e) ELSE st
  /\ acc' = IF ok THEN acc \cup {<<c.key, res>>} ELSE acc
  /\ world' = w
  /\ UNCHANGED <<first, impl>>

EndHonest(id)   == End(id, impl[st.open[id].key], world, TRUE, "end")
EndOther(id)    == \E r \in Results : /\ st.open[id].key \in DOMAIN st.memo /\ r # st.memo[st.open[id].key]
                                      /\ End(id, r, world, TRUE, "other-result")
EndMutateOwn(id) == \E d \in Digests \ {world[st.open[id].mem]} :
                      End(id, impl[st.open[id].key], [world EXCEPT ![st.open[id].mem] = d], TRUE, "mutate-own")
EndMutateElse(id) == \E m \in Mems \ {st.open[id].mem}, d \in Digests : d # world[m] /\
                      End(id, impl[st.open[id].key], [world EXCEPT ![m] = d], TRUE, "mutate-else")
EndAliased(id)  == End(id, impl[st.open[id].key], world, FALSE, "aliased")

Audit(m) ==
  LET e == [mem |-> m, d |-> world[m]]  ok == AuditOK(st, e) IN
  /\ last' = [bad |-> Exposes(m, e.d), ok |-> ok, kind |-> "audit"]
  /\ st' = IF ok THEN AfterAudit(st, e) ELSE st
  /\ first' = Present(m, e.d)
  /\ UNCHANGED <<world, impl, acc>>

\* one named action per kind of event, so that TLC's coverage shows that each kind occurs
Live == ~last.bad
DoBegin      == Live /\ \E id \in Ids, k \in Keys, m \in Mems : Begin(id, k, m)
DoEnd        == Live /\ \E id \in DOMAIN st.open : EndHonest(id)
DoOther      == Live /\ \E id \in DOMAIN st.open : EndOther(id)
DoMutateOwn  == Live /\ \E id \in DOMAIN st.open : EndMutateOwn(id)
DoMutateElse == Live /\ \E id \in DOMAIN st.open : EndMutateElse(id)
DoAliased    == Live /\ \E id \in DOMAIN st.open : EndAliased(id)
DoAudit      == Live /\ \E m \in Mems : Audit(m)
Next == DoBegin \/ DoEnd \/ DoOther \/ DoMutateOwn \/ DoMutateElse \/ DoAliased \/ DoAudit
Spec == Init /\ [][Next]_vars

TypeOK == /\ DOMAIN st.memo \subseteq Keys /\ \A k \in DOMAIN st.memo : st.memo[k] \in Results
          /\ DOMAIN st.open \subseteq Ids
          /\ DOMAIN st.seen \subseteq Mems /\ \A m \in DOMAIN st.seen : st.seen[m] \in Digests
\* the specification never accepts two different results for one key
MemoFunctional == \A p, q \in acc : p[1] = q[1] => p[2] = q[2]
MemoAgrees     == \A p \in acc : p[1] \in DOMAIN st.memo /\ st.memo[p[1]] = p[2]
\* what the specification remembers of memory is the ground truth
SeenIsFirst    == ~last.bad => st.seen = first
\* every event that exposes dishonesty is rejected ...
Sound    == last.bad => ~last.ok
\* ... and no event of an honest history is
Complete == ~last.bad => last.ok
=============================================================================
