------------------------------ MODULE PurityMC ------------------------------
(* Design-level exploration of Purity.tla: an environment issues concurrent
   calls against memory regions; an HONEST implementation answers from a fixed
   function impl : Key -> Result and leaves memory alone; a DISHONEST one may,
   in one End, (a) return something else than what was returned for the key
   before, (b) modify the inputs of the call, (c) modify another region that
   calls have seen (shared backing memory), (d) hand back a result that
   aliases the proofs it was given.  The one writing operation, Mutate
   (UpdateElementProof on one cell), is answered honestly from a fixed function
   upd : Content -> Content of the cell's content alone - so cells that hold
   the same content, however they came to hold it (the Mems of the model: an
   original, a decoded copy, a deep copy ...), are left with the same content -
   and dishonestly by (e) leaving a content other than the one this content
   was updated to before (the outcome depends on how the value was obtained)
   or (f) also writing a cell it was not given (a neighbouring element whose
   proof lives in the spare capacity of this one, or the same element of a
   copy whose proof shares its backing array).  Ground truth is kept beside the
   specification's state (world, first, acc); the invariants say that the
   specification rejects exactly the events that expose dishonesty, and that
   what it accepts is a function of the key.  The model stops at the first
   rejected dishonest event (the trace validator goes on, a model need not). *)
EXTENDS Purity
CONSTANTS Keys, Ids, Results, Mems, Digests
VARIABLES st,      \* specification state [memo, open, seen]
          world,   \* world[m]: what memory region m contains now
          first,   \* first[m]: what m contained when it was first presented
          impl,    \* the honest function
          acc,     \* accepted <<key, result>> pairs (history)
          last,    \* classification of the last event: [bad, ok, kind]
          upd,     \* the honest update function on cell contents
          org      \* org[m]: the content m held before its last accepted update ("none": never updated)
vars == <<st, world, first, impl, acc, last, upd, org>>

Init == /\ st = Fresh0
        /\ world \in [Mems -> Digests]
        /\ first = Empty
        /\ impl \in [Keys -> Results]
        /\ acc = {}
        /\ last = [bad |-> FALSE, ok |-> TRUE, kind |-> "init"]
        /\ upd \in [Digests -> Digests]
        /\ org = [m \in Mems |-> "none"]

Present(m, d) == IF m \in DOMAIN first THEN first ELSE (m :> d) @@ first
Exposes(m, d) == m \in DOMAIN first /\ first[m] # d      \* ground truth: m was modified since first shown

Begin(id, k, m) ==
  LET e == [id |-> id, key |-> k, mem |-> m, d |-> world[m]]
      ok == BeginOK(st, e) IN
  /\ id \notin DOMAIN st.open
  /\ last' = [bad |-> Exposes(m, e.d), ok |-> ok, kind |-> "begin"]
  /\ st' = IF ok THEN AfterBegin(st, e) ELSE st
  /\ first' = Present(m, e.d)
  /\ UNCHANGED <<world, impl, acc, upd, org>>

\* an End of call id that returns res, after the implementation rewrote memory to w
End(id, res, w, fresh, kind) ==
  LET c == st.open[id]
      e == [id |-> id, res |-> res, d |-> w[c.mem], fresh |-> fresh]
      ok == EndOK(st, e)
      wrong == c.key \in DOMAIN st.memo /\ st.memo[c.key] # res IN
  /\ last' = [bad |-> Exposes(c.mem, e.d) \/ wrong \/ ~fresh, ok |-> ok, kind |-> kind]
  /\ st' = IF ok THEN AfterEnd(st, e) ELSE st
  /\ acc' = IF ok THEN acc \cup {<<c.key, res>>} ELSE acc
  /\ world' = w
  /\ UNCHANGED <<first, impl, upd, org>>

EndHonest(id)   == End(id, impl[st.open[id].key], world, TRUE, "end")
EndOther(id)    == \E r \in Results : /\ st.open[id].key \in DOMAIN st.memo /\ r # st.memo[st.open[id].key]
                                      /\ End(id, r, world, TRUE, "other-result")
EndMutateOwn(id) == \E d \in Digests \ {world[st.open[id].mem]} :
                      End(id, impl[st.open[id].key], [world EXCEPT ![st.open[id].mem] = d], TRUE, "mutate-own")
EndMutateElse(id) == \E m \in Mems \ {st.open[id].mem}, d \in Digests : d # world[m] /\
                      End(id, impl[st.open[id].key], [world EXCEPT ![m] = d], TRUE, "mutate-else")
EndAliased(id)  == End(id, impl[st.open[id].key], world, FALSE, "aliased")

Audit(m) ==
  LET e == [mem |-> m, d |-> world[m]]  ok == AuditOK(st, e) IN
  /\ last' = [bad |-> Exposes(m, e.d), ok |-> ok, kind |-> "audit"]
  /\ st' = IF ok THEN AfterAudit(st, e) ELSE st
  /\ first' = Present(m, e.d)
  /\ UNCHANGED <<world, impl, acc, upd, org>>

\* UpdateElementProof on cell m leaves content new there and the rest of memory as in w.  The key is the content
\* of the cell (the update applied is fixed in this model).  The environment only updates cells nobody is reading.
Mutate(m, new, w, kind) ==
  LET e == [key |-> world[m], mem |-> m, d |-> world[m], d1 |-> new, res |-> new]
      ok == MutOK(st, e)
      wrong == e.key \in DOMAIN st.memo /\ st.memo[e.key] # new IN
  /\ MutNotInUse(st, e)
  /\ last' = [bad |-> Exposes(m, e.d) \/ wrong, ok |-> ok, kind |-> kind]
  /\ st' = IF ok THEN AfterMut(st, e) ELSE st
  /\ acc' = IF ok THEN acc \cup {<<e.key, new>>} ELSE acc
  /\ world' = [w EXCEPT ![m] = new]
  /\ first' = IF ok THEN (m :> new) @@ first ELSE Present(m, e.d)   \* the cell legitimately holds new from now on
  /\ org' = IF ok THEN [org EXCEPT ![m] = e.d] ELSE org
  /\ UNCHANGED <<impl, upd>>

MutateHonest(m)  == Mutate(m, upd[world[m]], world, "mutate")
MutateDiverge(m) == \E d \in Digests : /\ world[m] \in DOMAIN st.memo /\ d # st.memo[world[m]]
                                       /\ Mutate(m, d, world, "mutate-diverge")
MutateSpill(m)   == \E m2 \in Mems \ {m}, d \in Digests : d # world[m2] /\
                      Mutate(m, upd[world[m]], [world EXCEPT ![m2] = d], "mutate-spill")

\* one named action per kind of event, so that TLC's coverage shows that each kind occurs
Live == ~last.bad
DoBegin      == Live /\ \E id \in Ids, k \in Keys, m \in Mems : Begin(id, k, m)
DoEnd        == Live /\ \E id \in DOMAIN st.open : EndHonest(id)
DoOther      == Live /\ \E id \in DOMAIN st.open : EndOther(id)
DoMutateOwn  == Live /\ \E id \in DOMAIN st.open : EndMutateOwn(id)
DoMutateElse == Live /\ \E id \in DOMAIN st.open : EndMutateElse(id)
DoAliased    == Live /\ \E id \in DOMAIN st.open : EndAliased(id)
DoAudit      == Live /\ \E m \in Mems : Audit(m)
DoMutate        == Live /\ \E m \in Mems : MutateHonest(m)
DoMutateDiverge == Live /\ \E m \in Mems : MutateDiverge(m)
DoMutateSpill   == Live /\ \E m \in Mems : MutateSpill(m)
Next == DoBegin \/ DoEnd \/ DoOther \/ DoMutateOwn \/ DoMutateElse \/ DoAliased \/ DoAudit
        \/ DoMutate \/ DoMutateDiverge \/ DoMutateSpill
Spec == Init /\ [][Next]_vars

TypeOK == /\ DOMAIN st.memo \subseteq Keys \cup Digests
          /\ \A k \in DOMAIN st.memo : st.memo[k] \in (IF k \in Keys THEN Results ELSE Digests)
          /\ DOMAIN st.open \subseteq Ids
          /\ DOMAIN st.seen \subseteq Mems /\ \A m \in DOMAIN st.seen : st.seen[m] \in Digests
\* the specification never accepts two different results for one key
MemoFunctional == \A p, q \in acc : p[1] = q[1] => p[2] = q[2]
MemoAgrees     == \A p \in acc : p[1] \in DOMAIN st.memo /\ st.memo[p[1]] = p[2]
\* what the specification remembers of memory is the ground truth
SeenIsFirst    == ~last.bad => st.seen = first
\* every event that exposes dishonesty is rejected ...
Sound    == last.bad => ~last.ok
\* ... and no event of an honest history is
Complete == ~last.bad => last.ok
\* "obtained how" does not matter: whenever memory is what the specification believes it to be (nothing written
\* behind its back is still undetected), two cells that were updated from the same content hold the same content,
\* and a cell that was never updated holds what it was first seen with
Clean == \A m \in DOMAIN first : first[m] = world[m]
ObtainedHowIrrelevant ==
  (~last.bad /\ Clean) =>
     \A m1, m2 \in Mems : (org[m1] # "none" /\ org[m1] = org[m2]) => world[m1] = world[m2]
=============================================================================
