SPECIFICATION Spec
CONSTANTS
  Keys = {"k1"}
  Ids = {1, 2}
  Results = {"r0", "r1"}
  Mems = {"m1", "m2"}
  Digests = {"d0", "d1"}
INVARIANTS TypeOK MemoFunctional MemoAgrees SeenIsFirst Sound Complete ObtainedHowIrrelevant
CHECK_DEADLOCK FALSE
