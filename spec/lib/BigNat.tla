------------------------------- MODULE BigNat -------------------------------
(* Arbitrary-precision naturals for TLC: little-endian sequences of limbs in
   base 2^15 (so that a limb product plus carries stays far below TLC's 2^31).
   The canonical form has no trailing zero limb; zero is <<>>.
   Large divisions are never computed here: they are checked by their
   post-condition (q*v + r = c, r < v).                                      *)
EXTENDS Integers, Sequences
Base == 32768
RECURSIVE BN_strip(_)
BN_strip(s) == IF Len(s) > 0 /\ s[Len(s)] = 0 THEN BN_strip(SubSeq(s, 1, Len(s) - 1)) ELSE s
Norm(x) == BN_strip(x)
Limb(x, i) == IF i <= Len(x) THEN x[i] ELSE 0
Max2(a, b) == IF a > b THEN a ELSE b
IsNat(x) == /\ \A i \in DOMAIN x : x[i] \in 0..(Base - 1)
            /\ (Len(x) > 0 => x[Len(x)] # 0)
RECURSIVE BN_addc(_, _, _, _)
BN_addc(x, y, i, c) == IF i > Max2(Len(x), Len(y)) THEN (IF c = 0 THEN <<>> ELSE <<c>>)
                       ELSE LET s == Limb(x, i) + Limb(y, i) + c IN <<s % Base>> \o BN_addc(x, y, i + 1, s \div Base)
Add(x, y) == Norm(BN_addc(x, y, 1, 0))
RECURSIVE BN_muls(_, _, _, _)
BN_muls(x, m, i, c) == IF i > Len(x) THEN (IF c = 0 THEN <<>> ELSE <<c>>)
                       ELSE LET p == x[i] * m + c IN <<p % Base>> \o BN_muls(x, m, i + 1, p \div Base)
\* multiply by a small factor (m < Base)
MulSmall(x, m) == Norm(BN_muls(x, m, 1, 0))
Shift(x, k) == IF x = <<>> THEN <<>> ELSE [i \in 1..k |-> 0] \o x
RECURSIVE BN_mulr(_, _, _)
BN_mulr(x, y, j) == IF j > Len(y) THEN <<>> ELSE Add(Shift(MulSmall(x, y[j]), j - 1), BN_mulr(x, y, j + 1))
Mul(x, y) == BN_mulr(x, y, 1)
RECURSIVE BN_cmpr(_, _, _)
BN_cmpr(x, y, i) == IF i = 0 THEN 0
                    ELSE IF Limb(x, i) < Limb(y, i) THEN -1
                    ELSE IF Limb(x, i) > Limb(y, i) THEN 1 ELSE BN_cmpr(x, y, i - 1)
Cmp(x, y) == BN_cmpr(x, y, Max2(Len(x), Len(y)))
Le(x, y) == Cmp(x, y) <= 0
Lt(x, y) == Cmp(x, y) < 0
RECURSIVE BN_subb(_, _, _, _)
BN_subb(x, y, i, b) == IF i > Max2(Len(x), Len(y)) THEN <<>>
                       ELSE LET d == Limb(x, i) - Limb(y, i) - b IN
                            IF d < 0 THEN <<d + Base>> \o BN_subb(x, y, i + 1, 1) ELSE <<d>> \o BN_subb(x, y, i + 1, 0)
\* requires x >= y
Sub(x, y) == Norm(BN_subb(x, y, 1, 0))
RECURSIVE BN_divs(_, _, _, _)
BN_divs(x, m, i, r) == IF i = 0 THEN <<>> ELSE LET cur == r * Base + x[i] IN BN_divs(x, m, i - 1, cur % m) \o <<cur \div m>>
\* short division by a small divisor (0 < m < Base)
DivSmall(x, m) == Norm(BN_divs(x, m, Len(x), 0))
RECURSIVE BN_mods(_, _, _, _)
BN_mods(x, m, i, r) == IF i = 0 THEN r ELSE BN_mods(x, m, i - 1, (r * Base + x[i]) % m)
ModSmall(x, m) == BN_mods(x, m, Len(x), 0)
Zero == <<>>
One == <<1>>
FromInt(n) == IF n = 0 THEN <<>> ELSE IF n < Base THEN <<n>>
              ELSE IF n < Base * Base THEN <<n % Base, n \div Base>>
              ELSE <<n % Base, (n \div Base) % Base, n \div (Base * Base)>>
RECURSIVE ToInt(_)
\* only for values known to be small
ToInt(x) == IF x = <<>> THEN 0 ELSE x[1] + Base * ToInt(Tail(x))
\* 2^k
RECURSIVE BN_pow2(_)
BN_pow2(k) == IF k < 15 THEN <<2 ^ k>> ELSE <<0>> \o BN_pow2(k - 15)
Pow2(k) == BN_pow2(k)
\* decimal digits, most significant first; zero is <<0>>
RECURSIVE BN_digits(_)
BN_digits(x) == IF x = <<>> THEN <<>> ELSE BN_digits(DivSmall(x, 10)) \o <<ModSmall(x, 10)>>
Digits(x) == IF x = <<>> THEN <<0>> ELSE BN_digits(x)
RECURSIVE BN_fromdigits(_, _, _)
BN_fromdigits(ds, i, acc) == IF i > Len(ds) THEN acc ELSE BN_fromdigits(ds, i + 1, Add(MulSmall(acc, 10), FromInt(ds[i])))
FromDigits(ds) == BN_fromdigits(ds, 1, <<>>)
\* floor(c / v) = q  stated by post-condition (v # 0)
IsQuot(c, v, q) == v # <<>> /\ Le(Mul(q, v), c) /\ Lt(c, Mul(Add(q, One), v))
=============================================================================
