------------------------------ MODULE TraceLib ------------------------------
(* Parallel validation of a trace whose lines are independent of each other
   (each line is one recorded call of a pure function): the lines are cut
   into chunks; from the root state TLC branches into one state per chunk and
   then walks each chunk line by line, so that several workers validate
   different chunks at once and the search stays linear in the trace length.
   A line that the specification does not allow prints a REJECT record (the
   harness turns it into a replay on the real code); acceptance is decided by
   the harness from the REJECT records and TLC's state count
   (1 + chunks + lines).                                                     *)
EXTENDS Integers, Sequences, TLC
CONSTANT TL_ChunkSize
Reject(line, msg) == PrintT("@@REJECT " \o ToString(line) \o " " \o msg)
\* c holds, or a REJECT record is printed and validation continues.
\* (IF, not \/ : inside an action TLC explores both disjuncts of a disjunction.)
Check(c, line, msg) == IF c THEN TRUE ELSE Reject(line, msg)
NChunks(n) == (n + TL_ChunkSize - 1) \div TL_ChunkSize
=============================================================================
