----------------------------- MODULE BigNatTest -----------------------------
(* Cross-check of BigNat against TLC's native integers on all pairs of a set
   of values that straddle one and two limb boundaries.                      *)
EXTENDS BigNat, TLC
Vals == (0..40) \cup (32760..32775) \cup {65535, 65536, 65537, 1000000, 1073741823}
VARIABLES a, b
Init == a \in Vals /\ b \in Vals
Next == UNCHANGED <<a, b>>
Agree ==
  LET A == FromInt(a) B == FromInt(b) IN
  /\ IsNat(A) /\ ToInt(A) = a
  /\ ToInt(Add(A, B)) = a + b
  /\ (a >= b => ToInt(Sub(A, B)) = a - b)
  /\ (a < 46000 /\ b < 46000 => ToInt(Mul(A, B)) = a * b)
  /\ Cmp(A, B) = (IF a < b THEN -1 ELSE IF a > b THEN 1 ELSE 0)
  /\ (b > 0 /\ b < Base => ToInt(DivSmall(A, b)) = a \div b /\ ModSmall(A, b) = a % b)
  /\ (b > 0 => IsQuot(A, B, FromInt(a \div b)))
  /\ (b > 0 /\ a \div b > 0 => ~IsQuot(A, B, FromInt((a \div b) - 1)))
  /\ FromDigits(Digits(A)) = A
  /\ Mul(A, Mul(B, B)) = Mul(Mul(A, B), B)
=============================================================================
