SPECIFICATION Spec
CONSTANT TL_ChunkSize = 32
CHECK_DEADLOCK FALSE
