SPECIFICATION Spec
CONSTANTS Source = "file" MaxLen = 3 Discipline = "none" Emit = TRUE
INVARIANT Current
INVARIANT EmitHistory
VIEW View
CHECK_DEADLOCK FALSE
