------------------------------ MODULE WireRHP3 ------------------------------
(* Protocol layout of the RHP3 objects (rhp/v3): siad-era payment, account and
   MDM program messages.                                                     *)
EXTENDS WireCodec, TLC
LOCAL Values == Slice(CurV1)
LOCAL TxnSig == Ref("TransactionSignature")
LOCAL Acct == Account3
\* an instruction travels as its 16-byte specifier, the u64 length of its arguments, and the arguments
LOCAL Instruction == TaggedFramed(<<<<"InstrAppendSector", <<65,112,112,101,110,100,0,0,0,0,0,0,0,0,0,0>>, Ref("rhp3_InstrAppendSector")>>, <<"InstrAppendSectorRoot", <<65,112,112,101,110,100,83,101,99,116,111,114,82,111,111,116>>, Ref("rhp3_InstrAppendSectorRoot")>>, <<"InstrDropSectors", <<68,114,111,112,83,101,99,116,111,114,115,0,0,0,0,0>>, Ref("rhp3_InstrDropSectors")>>, <<"InstrHasSector", <<72,97,115,83,101,99,116,111,114,0,0,0,0,0,0,0>>, Ref("rhp3_InstrHasSector")>>, <<"InstrReadOffset", <<82,101,97,100,79,102,102,115,101,116,0,0,0,0,0,0>>, Ref("rhp3_InstrReadOffset")>>, <<"InstrReadSector", <<82,101,97,100,83,101,99,116,111,114,0,0,0,0,0,0>>, Ref("rhp3_InstrReadSector")>>, <<"InstrSwapSector", <<83,119,97,112,83,101,99,116,111,114,0,0,0,0,0,0>>, Ref("rhp3_InstrSwapSector")>>, <<"InstrUpdateSector", <<85,112,100,97,116,101,83,101,99,116,111,114,0,0,0,0>>, Ref("rhp3_InstrUpdateSector")>>, <<"InstrStoreSector", <<83,116,111,114,101,83,101,99,116,111,114,0,0,0,0,0>>, Ref("rhp3_InstrStoreSector")>>, <<"InstrRevision", <<82,101,118,105,115,105,111,110,0,0,0,0,0,0,0,0>>, Ref("rhp3_InstrRevision")>>, <<"InstrReadRegistry", <<82,101,97,100,82,101,103,105,115,116,114,121,0,0,0,0>>, Ref("rhp3_InstrReadRegistry")>>, <<"InstrUpdateRegistry", <<85,112,100,97,116,101,82,101,103,105,115,116,114,121,0,0>>, Ref("rhp3_InstrUpdateRegistry")>>, <<"InstrReadRegistryNoVersion", <<82,101,97,100,82,101,103,105,115,116,114,121,0,0,0,0>>, Ref("rhp3_InstrReadRegistryNoVersion")>>, <<"InstrUpdateRegistryNoType", <<85,112,100,97,116,101,82,101,103,105,115,116,114,121,0,0>>, Ref("rhp3_InstrUpdateRegistryNoType")>>>>)

RHP3Schema == [
  rhp3_InstrAppendSector |-> Struct(<<F("SectorDataOffset", U64), F("ProofRequired", Bool)>>),
  rhp3_InstrAppendSectorRoot |-> Struct(<<F("MerkleRootOffset", U64), F("ProofRequired", Bool)>>),
  rhp3_InstrDropSectors |-> Struct(<<F("SectorCountOffset", U64), F("ProofRequired", Bool)>>),
  rhp3_InstrHasSector |-> Struct(<<F("MerkleRootOffset", U64)>>),
  rhp3_InstrReadOffset |-> Struct(<<F("OffsetOffset", U64), F("LengthOffset", U64), F("ProofRequired", Bool)>>),
  rhp3_InstrReadSector |-> Struct(<<F("MerkleRootOffset", U64), F("OffsetOffset", U64), F("LengthOffset", U64), F("ProofRequired", Bool)>>),
  rhp3_InstrSwapSector |-> Struct(<<F("Sector1Offset", U64), F("Sector2Offset", U64), F("ProofRequired", Bool)>>),
  rhp3_InstrUpdateSector |-> Struct(<<F("Offset", U64), F("Length", U64), F("DataOffset", U64), F("ProofRequired", Bool)>>),
  rhp3_InstrStoreSector |-> Struct(<<F("DataOffset", U64), F("Duration", U64)>>),
  rhp3_InstrRevision |-> Struct(<<>>),
  rhp3_InstrReadRegistry |-> Struct(<<F("PublicKeyOffset", U64), F("PublicKeyLength", U64), F("TweakOffset", U64), F("Version", U8)>>),
  rhp3_InstrUpdateRegistry |-> Struct(<<F("TweakOffset", U64), F("RevisionOffset", U64), F("SignatureOffset", U64), F("PublicKeyOffset", U64), F("PublicKeyLength", U64), F("DataOffset", U64), F("DataLength", U64), F("EntryType", U8)>>),
  rhp3_InstrReadRegistryNoVersion |-> Struct(<<F("InstrReadRegistry", Struct(<<F("PublicKeyOffset", U64), F("PublicKeyLength", U64), F("TweakOffset", U64), F("Version", NT("pre-1.5.7 form: no version on the wire; decoders set 1"))>>))>>),
  rhp3_InstrUpdateRegistryNoType |-> Struct(<<F("InstrUpdateRegistry", Struct(<<F("TweakOffset", U64), F("RevisionOffset", U64), F("SignatureOffset", U64), F("PublicKeyOffset", U64), F("PublicKeyLength", U64), F("DataOffset", U64), F("DataLength", U64), F("EntryType", NT("pre-1.5.7 form: no entry type on the wire; decoders set EntryTypeArbitrary"))>>))>>),
  rhp3_SettingsID |-> Fixed(16),
  rhp3_Account |-> Account3,
  rhp3_RPCError |-> Struct(<<F("Type", Spec16), F("Data", Bytes), F("Description", Str)>>),
  rhp3_PayByEphemeralAccountRequest |-> Struct(<<F("Account", Acct), F("Expiry", U64), F("Amount", CurV1), F("Nonce", Fixed(8)), F("Signature", Sig), F("Priority", U64)>>),
  rhp3_PayByContractRequest |-> Struct(<<F("ContractID", H32), F("RevisionNumber", U64), F("ValidProofValues", Values), F("MissedProofValues", Values),
      F("RefundAccount", Acct), F("Signature", LFixed(64))>>),
  rhp3_PaymentResponse |-> Struct(<<F("Signature", Sig)>>),
  rhp3_RPCPriceTableResponse |-> Struct(<<>>),
  rhp3_RPCUpdatePriceTableResponse |-> Struct(<<F("PriceTableJSON", Bytes)>>),
  rhp3_RPCFundAccountRequest |-> Struct(<<F("Account", Acct)>>),
  rhp3_FundAccountReceipt |-> Struct(<<F("Host", Ref("UnlockKey")), F("Account", Acct), F("Amount", CurV1), F("Timestamp", Time)>>),
  rhp3_RPCFundAccountResponse |-> Struct(<<F("Balance", CurV1), F("Receipt", Ref("rhp3_FundAccountReceipt")), F("Signature", Sig)>>),
  rhp3_RPCAccountBalanceRequest |-> Struct(<<F("Account", Acct)>>),
  rhp3_RPCAccountBalanceResponse |-> Struct(<<F("Balance", CurV1)>>),
  rhp3_RPCExecuteProgramRequest |-> Struct(<<F("FileContractID", H32), F("Program", Slice(Instruction)), F("ProgramData", Bytes)>>),
  \* the output is not length-prefixed: its length is the OutputLength member; the error travels as its text ("" = none)
  rhp3_RPCExecuteProgramResponse |-> Struct(<<F("AdditionalCollateral", CurV1), F("OutputLength", U64), F("NewMerkleRoot", H32), F("NewSize", U64),
      F("Proof", Slice(H32)), F("Error", ErrStr), F("TotalCost", CurV1), F("FailureRefund", CurV1), F("Output", Raw(<<"OutputLength">>))>>),
  rhp3_RPCFinalizeProgramRequest |-> Struct(<<F("Signature", LFixed(64)), F("RevisionNumber", U64), F("ValidProofValues", Values), F("MissedProofValues", Values)>>),
  rhp3_RPCFinalizeProgramResponse |-> Struct(<<F("Signature", LFixed(64))>>),
  rhp3_RPCLatestRevisionRequest |-> Struct(<<F("ContractID", H32)>>),
  rhp3_RPCLatestRevisionResponse |-> Struct(<<F("Revision", Ref("FileContractRevision"))>>),
  rhp3_RPCRenewContractRequest |-> Struct(<<F("TransactionSet", Slice(Ref("Transaction"))), F("RenterKey", Ref("UnlockKey")), F("FinalRevisionSignature", Sig)>>),
  rhp3_RPCRenewContractHostAdditions |-> Struct(<<F("Parents", Slice(Ref("Transaction"))), F("SiacoinInputs", Slice(Ref("SiacoinInput"))),
      F("SiacoinOutputs", Slice(Ref("V1SiacoinOutput"))), F("FinalRevisionSignature", Sig)>>),
  rhp3_RPCRenewSignatures |-> Struct(<<F("TransactionSignatures", Slice(TxnSig)), F("RevisionSignature", TxnSig)>>)
]
=============================================================================
