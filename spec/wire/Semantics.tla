----------------------------- MODULE Semantics -----------------------------
(* The PRE-IMAGE of every identifier and signature hash of the protocol:
   the byte string that is hashed (BLAKE2b-256), given as a TERM.

   A term is a sequence whose elements are bytes or nested hashes
   [h |-> term] (the 32 bytes of the BLAKE2b-256 hash of the inner term).
   TLC cannot hash; it prints terms, the harness evaluates them with the real
   hash function and compares with what the code under test returns
   (SemanticsTrace).  Which members of an object enter a pre-image is stated
   by the semantic lines of WireSemantics ("everything that has an effect,
   nothing that is a witness"); this module adds distinguishers, specifiers,
   indices, the replay prefix of each era, and Merkle trees.                 *)
EXTENDS Wire, WireSemantics

\* ---- interpreter of the semantic lines -------------------------------------------
\* witnesses contribute nothing, blanked slots their zeros, untagged unions the body of the variant;
\* everything else is the protocol layout of the member (Wire!Enc)
RECURSIVE SemEnc(_, _)
SemEnc(c, v) ==
  CASE c.k = "struct" -> Cat([i \in 1..Len(c.fs) |-> LET f == c.fs[i] IN
                           CASE f[2].k = "nt" -> <<>> [] f[2].k = "const" -> f[2].bs [] OTHER -> SemEnc(f[2], v[f[1]])])
    [] c.k = "slice" -> LEInt(Len(v), 8) \o Cat([i \in 1..Len(v) |-> SemEnc(c.e, v[i])])
    [] c.k = "opt" -> IF v = <<>> THEN <<0>> ELSE <<1>> \o SemEnc(c.e, v[1])
    [] c.k = "union" -> LET i == CHOOSE i \in 1..Len(c.vs) : c.vs[i][1] = v.tag IN
                        (IF "untagged" \in DOMAIN c THEN <<>> ELSE <<c.vs[i][2]>>) \o SemEnc(c.vs[i][3], v.v)
    [] OTHER -> Enc(c, v)
Sem(name, v) == SemEnc(SemanticSchema[name], v)
Lay(name, v) == Enc(Schema[name], v)

\* ---- constants of the protocol ---------------------------------------------------
\* v2 distinguishers: the text "sia/" purpose "|"
D_IdTransaction == <<115, 105, 97, 47, 105, 100, 47, 116, 114, 97, 110, 115, 97, 99, 116, 105, 111, 110, 124>>   \* "sia/id/transaction|"
D_IdSiacoinOutput == <<115, 105, 97, 47, 105, 100, 47, 115, 105, 97, 99, 111, 105, 110, 111, 117, 116, 112, 117, 116, 124>>   \* "sia/id/siacoinoutput|"
D_IdSiafundOutput == <<115, 105, 97, 47, 105, 100, 47, 115, 105, 97, 102, 117, 110, 100, 111, 117, 116, 112, 117, 116, 124>>   \* "sia/id/siafundoutput|"
D_IdFileContract == <<115, 105, 97, 47, 105, 100, 47, 102, 105, 108, 101, 99, 111, 110, 116, 114, 97, 99, 116, 124>>   \* "sia/id/filecontract|"
D_IdAttestation == <<115, 105, 97, 47, 105, 100, 47, 97, 116, 116, 101, 115, 116, 97, 116, 105, 111, 110, 124>>   \* "sia/id/attestation|"
D_IdV2ClaimOutput == <<115, 105, 97, 47, 105, 100, 47, 118, 50, 115, 105, 97, 99, 111, 105, 110, 99, 108, 97, 105, 109, 111, 117, 116, 112, 117, 116, 124>>   \* "sia/id/v2siacoinclaimoutput|"
D_IdV2ContractOutput == <<115, 105, 97, 47, 105, 100, 47, 118, 50, 102, 105, 108, 101, 99, 111, 110, 116, 114, 97, 99, 116, 111, 117, 116, 112, 117, 116, 124>>   \* "sia/id/v2filecontractoutput|"
D_IdV2Renewal == <<115, 105, 97, 47, 105, 100, 47, 118, 50, 102, 105, 108, 101, 99, 111, 110, 116, 114, 97, 99, 116, 114, 101, 110, 101, 119, 97, 108, 124>>   \* "sia/id/v2filecontractrenewal|"
D_SigInput == <<115, 105, 97, 47, 115, 105, 103, 47, 105, 110, 112, 117, 116, 124>>   \* "sia/sig/input|"
D_SigFileContract == <<115, 105, 97, 47, 115, 105, 103, 47, 102, 105, 108, 101, 99, 111, 110, 116, 114, 97, 99, 116, 124>>   \* "sia/sig/filecontract|"
D_SigRenewal == <<115, 105, 97, 47, 115, 105, 103, 47, 102, 105, 108, 101, 99, 111, 110, 116, 114, 97, 99, 116, 114, 101, 110, 101, 119, 97, 108, 124>>   \* "sia/sig/filecontractrenewal|"
D_SigAttestation == <<115, 105, 97, 47, 115, 105, 103, 47, 97, 116, 116, 101, 115, 116, 97, 116, 105, 111, 110, 124>>   \* "sia/sig/attestation|"
D_Commitment == <<115, 105, 97, 47, 99, 111, 109, 109, 105, 116, 109, 101, 110, 116, 124>>   \* "sia/commitment|"
D_Address == <<115, 105, 97, 47, 97, 100, 100, 114, 101, 115, 115, 124>>   \* "sia/address|"
D_LeafChainIndex == <<115, 105, 97, 47, 108, 101, 97, 102, 47, 99, 104, 97, 105, 110, 105, 110, 100, 101, 120, 124>>   \* "sia/leaf/chainindex|"
D_LeafSiacoin == <<115, 105, 97, 47, 108, 101, 97, 102, 47, 115, 105, 97, 99, 111, 105, 110, 124>>   \* "sia/leaf/siacoin|"
D_LeafSiafund == <<115, 105, 97, 47, 108, 101, 97, 102, 47, 115, 105, 97, 102, 117, 110, 100, 124>>   \* "sia/leaf/siafund|"
D_LeafFileContract == <<115, 105, 97, 47, 108, 101, 97, 102, 47, 102, 105, 108, 101, 99, 111, 110, 116, 114, 97, 99, 116, 124>>   \* "sia/leaf/filecontract|"
D_LeafV2FileContract == <<115, 105, 97, 47, 108, 101, 97, 102, 47, 118, 50, 102, 105, 108, 101, 99, 111, 110, 116, 114, 97, 99, 116, 124>>   \* "sia/leaf/v2filecontract|"
D_LeafAttestation == <<115, 105, 97, 47, 108, 101, 97, 102, 47, 97, 116, 116, 101, 115, 116, 97, 116, 105, 111, 110, 124>>   \* "sia/leaf/attestation|"
\* v1 specifiers: 16 bytes, the text padded with zeros
S_SiacoinOutput == <<115, 105, 97, 99, 111, 105, 110, 32, 111, 117, 116, 112, 117, 116, 0, 0>>   \* "siacoin output"
S_SiafundOutput == <<115, 105, 97, 102, 117, 110, 100, 32, 111, 117, 116, 112, 117, 116, 0, 0>>   \* "siafund output"
S_FileContract == <<102, 105, 108, 101, 32, 99, 111, 110, 116, 114, 97, 99, 116, 0, 0, 0>>   \* "file contract"
S_StorageProof == <<115, 116, 111, 114, 97, 103, 101, 32, 112, 114, 111, 111, 102, 0, 0, 0>>   \* "storage proof"
S_Foundation == <<102, 111, 117, 110, 100, 97, 116, 105, 111, 110, 0, 0, 0, 0, 0, 0>>   \* "foundation"

Idx(i) == LEInt(i, 8)                 \* a position (small number) as a 64-bit little-endian number
N(w) == w[4] + 65536 * w[3]           \* a small 64-bit number <<w3,w2,w1,w0>> as an integer (w3 = w2 = 0 is the harness's duty)
H(term) == [h |-> term]               \* the hash of a term, as an element of an enclosing term
HashOf(term) == <<H(term)>>           \* ... as a 32-byte value
Zero32 == Zeros(32)

\* ---- hardfork eras -----------------------------------------------------------------
\* a signature is judged against the chain tip; the tip's height decides the era; the replay prefix of the era
\* precedes every siacoin input and every siafund input in a v1 signature hash.
\* net = [asic |-> h, foundation |-> h, v2allow |-> h] (activation heights), height = height of the tip.
\* Legacy of the original chain, kept because every node must hash alike: the prefix accompanies INPUTS only, so a
\* v1 signature over a transaction without inputs (a bare contract revision) reads the same in every era
\* (SemanticsDistinct!LegacyCorner states it); v2 has no such corner.
EraPrefix(height, net) ==
  IF height >= net.v2allow THEN <<2>> ELSE IF height >= net.foundation THEN <<1>> ELSE IF height >= net.asic THEN <<0>> ELSE <<>>
V2Prefix == <<2>>                     \* every v2 signature hash and the v2 commitment carry the prefix of the v2 era

\* ---- identifiers (pre-images; the identifier is the hash of the term) ------------------
\* v1: a transaction is identified by everything but its signatures; what it creates by a specifier, the same
\* content and the position
PreV1TxnID(t) == Sem("Sem_Transaction", t)
PreV1FullHash(t) == Lay("Transaction", t)
PreV1SiacoinOutputID(t, i) == S_SiacoinOutput \o Sem("Sem_Transaction", t) \o Idx(i)
PreV1SiafundOutputID(t, i) == S_SiafundOutput \o Sem("Sem_Transaction", t) \o Idx(i)
PreV1FileContractID(t, i) == S_FileContract \o Sem("Sem_Transaction", t) \o Idx(i)
PreV1ClaimOutputID(sfoid) == sfoid
PreV1ContractOutputID(fcid, valid, i) == S_StorageProof \o fcid \o <<IF valid THEN 1 ELSE 0>> \o Idx(i)
PreMinerOutputID(bid, i) == bid \o Idx(i)
PreFoundationOutputID(bid) == bid \o S_Foundation
\* v2: distinguisher, parent identifier, position
PreV2TxnID(t) == D_IdTransaction \o Sem("Sem_V2Transaction", t)
PreV2FullHash(t) == Lay("V2Transaction", t)
PreV2SiacoinOutputID(txid, i) == D_IdSiacoinOutput \o txid \o Idx(i)
PreV2SiafundOutputID(txid, i) == D_IdSiafundOutput \o txid \o Idx(i)
PreV2FileContractID(txid, i) == D_IdFileContract \o txid \o Idx(i)
PreAttestationID(txid, i) == D_IdAttestation \o txid \o Idx(i)
PreV2ClaimOutputID(sfoid) == D_IdV2ClaimOutput \o sfoid
PreV2RenterOutputID(fcid) == D_IdV2ContractOutput \o fcid \o Idx(0)
PreV2HostOutputID(fcid) == D_IdV2ContractOutput \o fcid \o Idx(1)
PreV2RenewalID(fcid) == D_IdV2Renewal \o fcid

\* ---- signature hashes --------------------------------------------------------------
\* v1, whole transaction: every member but the signatures (count, then the entries; the era prefix before each
\* input), then what identifies the signature being made, then the other signatures it covers
Prefixed(p, name, s) == LEInt(Len(s), 8) \o Cat([i \in 1..Len(s) |-> p \o Lay(name, s[i])])
List(name, s) == LEInt(Len(s), 8) \o Cat([i \in 1..Len(s) |-> Lay(name, s[i])])
PreWholeSigHash(p, t, j) ==
  LET sg == t.Signatures[j] IN
  Prefixed(p, "SiacoinInput", t.SiacoinInputs) \o List("V1SiacoinOutput", t.SiacoinOutputs) \o
  List("FileContract", t.FileContracts) \o List("FileContractRevision", t.FileContractRevisions) \o
  List("StorageProof", t.StorageProofs) \o Prefixed(p, "SiafundInput", t.SiafundInputs) \o
  List("V1SiafundOutput", t.SiafundOutputs) \o Enc(Slice(CurV1), t.MinerFees) \o Enc(Slice(Bytes), t.ArbitraryData) \o
  sg.ParentID \o LE64(sg.PublicKeyIndex) \o LE64(sg.Timelock) \o
  Cat([k \in 1..Len(sg.CoveredFields.Signatures) |-> Lay("TransactionSignature", t.Signatures[N(sg.CoveredFields.Signatures[k]) + 1])])
\* v1, partial: exactly the covered entries, in the order of the covered-fields lists, nothing else
Picked(p, name, s, is) == Cat([k \in 1..Len(is) |-> p \o Lay(name, s[N(is[k]) + 1])])
PrePartialSigHash(p, t, cf) ==
  Picked(p, "SiacoinInput", t.SiacoinInputs, cf.SiacoinInputs) \o Picked(<<>>, "V1SiacoinOutput", t.SiacoinOutputs, cf.SiacoinOutputs) \o
  Picked(<<>>, "FileContract", t.FileContracts, cf.FileContracts) \o Picked(<<>>, "FileContractRevision", t.FileContractRevisions, cf.FileContractRevisions) \o
  Picked(<<>>, "StorageProof", t.StorageProofs, cf.StorageProofs) \o Picked(p, "SiafundInput", t.SiafundInputs, cf.SiafundInputs) \o
  Picked(<<>>, "V1SiafundOutput", t.SiafundOutputs, cf.SiafundOutputs) \o
  Cat([k \in 1..Len(cf.MinerFees) |-> Enc(CurV1, t.MinerFees[N(cf.MinerFees[k]) + 1])]) \o
  Cat([k \in 1..Len(cf.ArbitraryData) |-> Enc(Bytes, t.ArbitraryData[N(cf.ArbitraryData[k]) + 1])]) \o
  Picked(<<>>, "TransactionSignature", t.Signatures, cf.Signatures)
\* v2: purpose, prefix of the v2 era, the object with its own signature slots blanked
PreInputSigHash(t) == D_SigInput \o V2Prefix \o Sem("Sem_V2Transaction", t)
PreContractSigHash(fc) == D_SigFileContract \o V2Prefix \o Sem("Sem_V2FileContract", fc)
PreRenewalSigHash(r) == D_SigRenewal \o V2Prefix \o Sem("Sem_V2FileContractRenewal", r)
PreAttestationSigHash(a) == D_SigAttestation \o V2Prefix \o Sem("Sem_Attestation", a)

\* ---- Merkle trees and blocks ---------------------------------------------------------
\* leaf = hash(0 | data); node = hash(1 | left | right); n leaves split at the largest power of two below n
Leaf(data) == HashOf(<<0>> \o data)
Node(l, r) == HashOf(<<1>> \o l \o r)
RECURSIVE Split(_, _), Root(_)
Split(n, k) == IF 2 * k < n THEN Split(n, 2 * k) ELSE k
Root(ls) == IF Len(ls) = 0 THEN Zero32 ELSE IF Len(ls) = 1 THEN ls[1]
            ELSE LET k == Split(Len(ls), 1) IN Node(Root(SubSeq(ls, 1, k)), Root(SubSeq(ls, k + 1, Len(ls))))
\* a block's identifier is the hash of its header: parent, nonce, time, commitment
PreHeaderID(h) == h.ParentID \o LE64(h.Nonce) \o LE64(h.Timestamp) \o h.Commitment
\* v1 commitment: Merkle root over the miner payouts and the transactions (all of each: signatures included)
V1Commitment(b) == Root([i \in 1..Len(b.MinerPayouts) |-> Leaf(Lay("V1SiacoinOutput", b.MinerPayouts[i]))] \o
                        [i \in 1..Len(b.Transactions) |-> Leaf(Lay("Transaction", b.Transactions[i]))])
\* v2 commitment: Merkle root over (parent state and miner address), the v1 transactions, the v2 transactions (all of each)
PreCommitmentLeaf(s, miner) == <<0>> \o D_Commitment \o V2Prefix \o HashOf(Lay("consensus_State", s)) \o miner
V2Commitment(s, miner, txns, v2txns) ==
  Root(<<HashOf(PreCommitmentLeaf(s, miner))>> \o [i \in 1..Len(txns) |-> Leaf(Lay("Transaction", txns[i]))] \o
       [i \in 1..Len(v2txns) |-> Leaf(Lay("V2Transaction", v2txns[i]))])
\* b is a block under line V2Block (V2 = <<>> for a v1 block); a v2 block carries its commitment
PreBlockID(b) == b.ParentID \o LE64(b.Nonce) \o LE64(b.Timestamp) \o (IF b.V2 = <<>> THEN V1Commitment(b) ELSE b.V2[1].Commitment)

\* ---- "exactly": what no identifier binds has no effect ------------------------------------------
\* Two blocks in memory with the same layout are ONE block to every other node (they differ only in members the lines
\* mark NT: the payout restated by a v1 revision, ownership flags, sub-second parts of times inside transactions).  By
\* the pre-images above they have the same identifier, the same transaction identifiers and the same signature hashes.
\* The converse of "an identifier changes with every effect-bearing member" is then a demand on the state machine: such
\* blocks get the same verdict and have the same effect (child state, update) - an NT member that reaches the state
\* would be effect-bearing content outside every identifier.  The harness changes each NT member of accepted blocks
\* alone (header members excepted: the property keeps them fixed) and compares identifier, verdict and effect.
SameBlock(b1, b2) == Lay("V2Block", b1) = Lay("V2Block", b2)
\* "any LATER change": the identifier is that of the content the block has when it is asked for, also when the block was
\* identified, validated or encoded before and changed in place since (SemanticsCurrent).

\* ---- addresses and element hashes (entry points of SemanticsPure: every hash function shares the pools) ---------
\* the address of unlock conditions: Merkle root over the timelock, each key, the number of signatures required
UnlockHash(uc) == Root(<<Leaf(LE64(uc.Timelock))>> \o [i \in 1..Len(uc.PublicKeys) |-> Leaf(Lay("UnlockKey", uc.PublicKeys[i]))] \o
                       <<Leaf(LE64(uc.SignaturesRequired))>>)
\* the address of a policy with root node nd (a 32-byte value): unlock conditions keep their v1 address; a threshold
\* is hashed with every sub-policy replaced by the opaque node of its address (version 1, opcode 5, n, one-byte
\* count, then opcode 6 and the address per sub-policy: the layout of WireTypes!PolicyNode); anything else as laid out
RECURSIVE NodeAddress(_)
NodeAddress(nd) ==
  CASE nd.tag = "PolicyTypeUnlockConditions" -> UnlockHash(nd.v)
    [] nd.tag = "PolicyTypeThreshold" ->
         HashOf(D_Address \o <<1, 5, nd.v.N, Len(nd.v.Of)>> \o
                Cat([i \in 1..Len(nd.v.Of) |-> <<6>> \o (IF nd.v.Of[i].Type.tag = "PolicyTypeOpaque" THEN nd.v.Of[i].Type.v
                                                          ELSE NodeAddress(nd.v.Of[i].Type))]))
    [] OTHER -> HashOf(D_Address \o Lay("SpendPolicy", [Type |-> nd]))
\* the hash of an element's contents in the accumulator: purpose, identifier, contents
PreElementHash(t) ==
  CASE t.el = "chainindex" -> D_LeafChainIndex \o t.id \o Lay("ChainIndex", t.v)
    [] t.el = "siacoin" -> D_LeafSiacoin \o t.id \o Lay("V2SiacoinOutput", t.v) \o LE64(t.x)
    [] t.el = "siafund" -> D_LeafSiafund \o t.id \o Lay("V2SiafundOutput", t.v) \o Enc(CurV2, t.x)
    [] t.el = "filecontract" -> D_LeafFileContract \o t.id \o Lay("FileContract", t.v)
    [] t.el = "v2filecontract" -> D_LeafV2FileContract \o t.id \o Lay("V2FileContract", t.v)
    [] t.el = "attestation" -> D_LeafAttestation \o t.id \o Lay("Attestation", t.v)

\* ---- one logged request -> the value the protocol prescribes (a term of 32 bytes) -------------
Value(t) ==
  CASE t.kind = "v1txid" -> HashOf(PreV1TxnID(t.v))
    [] t.kind = "v1fullhash" -> HashOf(PreV1FullHash(t.v))
    [] t.kind = "v1leaf" -> Leaf(Lay("Transaction", t.v))
    [] t.kind = "v1scoid" -> HashOf(PreV1SiacoinOutputID(t.v, t.i))
    [] t.kind = "v1sfoid" -> HashOf(PreV1SiafundOutputID(t.v, t.i))
    [] t.kind = "v1fcid" -> HashOf(PreV1FileContractID(t.v, t.i))
    [] t.kind = "v1claimout" -> HashOf(PreV1ClaimOutputID(t.id))
    [] t.kind = "v1validout" -> HashOf(PreV1ContractOutputID(t.id, TRUE, t.i))
    [] t.kind = "v1missedout" -> HashOf(PreV1ContractOutputID(t.id, FALSE, t.i))
    [] t.kind = "minerout" -> HashOf(PreMinerOutputID(t.id, t.i))
    [] t.kind = "foundationout" -> HashOf(PreFoundationOutputID(t.id))
    [] t.kind = "v2txid" -> HashOf(PreV2TxnID(t.v))
    [] t.kind = "v2fullhash" -> HashOf(PreV2FullHash(t.v))
    [] t.kind = "v2leaf" -> Leaf(Lay("V2Transaction", t.v))
    [] t.kind = "v2scoid" -> HashOf(PreV2SiacoinOutputID(t.id, t.i))
    [] t.kind = "v2sfoid" -> HashOf(PreV2SiafundOutputID(t.id, t.i))
    [] t.kind = "v2fcid" -> HashOf(PreV2FileContractID(t.id, t.i))
    [] t.kind = "attestationid" -> HashOf(PreAttestationID(t.id, t.i))
    [] t.kind = "v2claimout" -> HashOf(PreV2ClaimOutputID(t.id))
    [] t.kind = "v2renterout" -> HashOf(PreV2RenterOutputID(t.id))
    [] t.kind = "v2hostout" -> HashOf(PreV2HostOutputID(t.id))
    [] t.kind = "v2renewalid" -> HashOf(PreV2RenewalID(t.id))
    [] t.kind = "wholesighash" -> HashOf(PreWholeSigHash(EraPrefix(t.height, t.net), t.v, t.j))
    [] t.kind = "partialsighash" -> HashOf(PrePartialSigHash(EraPrefix(t.height, t.net), t.v, t.cf))
    [] t.kind = "inputsighash" -> HashOf(PreInputSigHash(t.v))
    [] t.kind = "contractsighash" -> HashOf(PreContractSigHash(t.v))
    [] t.kind = "renewalsighash" -> HashOf(PreRenewalSigHash(t.v))
    [] t.kind = "attestationsighash" -> HashOf(PreAttestationSigHash(t.v))
    [] t.kind = "headerid" -> HashOf(PreHeaderID(t.v))
    [] t.kind = "blockid" -> HashOf(PreBlockID(t.v))
    [] t.kind = "v1commitment" -> V1Commitment(t.v)
    [] t.kind = "commitmentleaf" -> HashOf(PreCommitmentLeaf(t.s, t.id))
    [] t.kind = "v2commitment" -> V2Commitment(t.s, t.id, t.txns, t.v2txns)
    [] t.kind = "address" -> NodeAddress(t.v.Type)
    [] t.kind = "elementhash" -> HashOf(PreElementHash(t))
    [] OTHER -> <<"unknown kind">>
=============================================================================
