---------------------------- MODULE SemanticsDump ----------------------------
(* Exports the wire schema together with the semantic lines (as JSON), so that
   the harness classifies the members of an object (effect-bearing / witness)
   from the very lines TLC interprets.                                        *)
EXTENDS Semantics, Json
VARIABLE done
Init == done = FALSE
Next == ~done /\ done' = TRUE /\ PrintT("@@SCHEMA " \o ToJson(Schema @@ SemanticSchema))
Spec == Init /\ [][Next]_done
=============================================================================
