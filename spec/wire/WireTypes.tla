----------------------------- MODULE WireTypes -----------------------------
(* Protocol layout of the wire objects of package types: one schema line per
   wire type.  Field names are those of the in-memory objects (the harness
   walks object and line in lock-step and refuses to run when the two
   disagree about the set of members); the ORDER is the order on the wire.   *)
EXTENDS WireCodec, TLC


\* ---- identifiers and scalars ---------------------------------------------
Ids == [
  Hash256 |-> H32, BlockID |-> H32, TransactionID |-> H32, Address |-> H32, PublicKey |-> H32,
  SiacoinOutputID |-> H32, SiafundOutputID |-> H32, FileContractID |-> H32, AttestationID |-> H32,
  Signature |-> Sig, Specifier |-> Spec16,
  V1Currency |-> CurV1, V2Currency |-> CurV2
]

\* ---- v1 -------------------------------------------------------------------
V1 == [
  ChainIndex |-> Struct(<<F("Height", U64), F("ID", H32)>>),
  UnlockKey |-> Struct(<<F("Algorithm", Spec16), F("Key", Bytes)>>),
  UnlockConditions |-> Struct(<<F("Timelock", U64), F("PublicKeys", Slice(Ref("UnlockKey"))), F("SignaturesRequired", U64)>>),
  V1SiacoinOutput |-> Struct(<<F("Value", CurV1), F("Address", H32)>>),
  \* siad compatibility: a siafund output carries a "claim start" that is always the zero currency (length 0)
  V1SiafundOutput |-> Struct(<<F("Value", CurV1of64), F("Address", H32), F("_claimStart", Const(<<0,0,0,0,0,0,0,0>>))>>),
  SiacoinInput |-> Struct(<<F("ParentID", H32), F("UnlockConditions", Ref("UnlockConditions"))>>),
  SiafundInput |-> Struct(<<F("ParentID", H32), F("UnlockConditions", Ref("UnlockConditions")), F("ClaimAddress", H32)>>),
  FileContract |-> Struct(<<F("Filesize", U64), F("FileMerkleRoot", H32), F("WindowStart", U64), F("WindowEnd", U64),
      F("Payout", CurV1), F("ValidProofOutputs", Slice(Ref("V1SiacoinOutput"))), F("MissedProofOutputs", Slice(Ref("V1SiacoinOutput"))),
      F("UnlockHash", H32), F("RevisionNumber", U64)>>),
  \* a revision restates the contract with the revision number first and without the payout
  FileContractRevision |-> Struct(<<F("ParentID", H32), F("UnlockConditions", Ref("UnlockConditions")),
      F("FileContract", Struct(<<F("RevisionNumber", U64), F("Filesize", U64), F("FileMerkleRoot", H32), F("WindowStart", U64), F("WindowEnd", U64),
          F("ValidProofOutputs", Slice(Ref("V1SiacoinOutput"))), F("MissedProofOutputs", Slice(Ref("V1SiacoinOutput"))), F("UnlockHash", H32),
          F("Payout", NT("a revision cannot change the payout; decoders set the 2^128-1 sentinel"))>>))>>),
  StorageProof |-> Struct(<<F("ParentID", H32), F("Leaf", Fixed(64)), F("Proof", Slice(H32))>>),
  FoundationAddressUpdate |-> Struct(<<F("NewPrimary", H32), F("NewFailsafe", H32)>>),
  CoveredFields |-> Struct(<<F("WholeTransaction", Bool), F("SiacoinInputs", Slice(U64)), F("SiacoinOutputs", Slice(U64)),
      F("FileContracts", Slice(U64)), F("FileContractRevisions", Slice(U64)), F("StorageProofs", Slice(U64)),
      F("SiafundInputs", Slice(U64)), F("SiafundOutputs", Slice(U64)), F("MinerFees", Slice(U64)),
      F("ArbitraryData", Slice(U64)), F("Signatures", Slice(U64))>>),
  TransactionSignature |-> Struct(<<F("ParentID", H32), F("PublicKeyIndex", U64), F("Timelock", U64),
      F("CoveredFields", Ref("CoveredFields")), F("Signature", Bytes)>>),
  Transaction |-> Struct(<<F("SiacoinInputs", Slice(Ref("SiacoinInput"))), F("SiacoinOutputs", Slice(Ref("V1SiacoinOutput"))),
      F("FileContracts", Slice(Ref("FileContract"))), F("FileContractRevisions", Slice(Ref("FileContractRevision"))),
      F("StorageProofs", Slice(Ref("StorageProof"))), F("SiafundInputs", Slice(Ref("SiafundInput"))),
      F("SiafundOutputs", Slice(Ref("V1SiafundOutput"))), F("MinerFees", Slice(CurV1)), F("ArbitraryData", Slice(Bytes)),
      F("Signatures", Slice(Ref("TransactionSignature")))>>),
  BlockHeader |-> Struct(<<F("ParentID", H32), F("Nonce", U64), F("Timestamp", Time), F("Commitment", H32)>>),
  V1Block |-> Struct(<<F("ParentID", H32), F("Nonce", U64), F("Timestamp", Time), F("MinerPayouts", Slice(Ref("V1SiacoinOutput"))),
      F("Transactions", Slice(Ref("Transaction"))), F("V2", NT("the v1 block layout has no v2 part"))>>)
]

\* ---- spend policies -------------------------------------------------------
\* version byte 1, then the policy tree; every node is an opcode byte and its operand;
\* a threshold is n, a ONE-BYTE count, and the sub-policies (no version bytes inside)
PolicyNode == Union(<<
    <<"PolicyTypeAbove", 1, U64>>, <<"PolicyTypeAfter", 2, Time>>, <<"PolicyTypePublicKey", 3, H32>>, <<"PolicyTypeHash", 4, H32>>,
    <<"PolicyTypeThreshold", 5, Struct(<<F("N", U8), F("Of", SliceN(Ref("PolicyInner")))>>)>>,
    <<"PolicyTypeOpaque", 6, H32>>, <<"PolicyTypeUnlockConditions", 7, Ref("UnlockConditions")>> >>)
Policy == [
  PolicyInner |-> Struct(<<F("Type", PolicyNode)>>),
  SpendPolicy |-> Struct(<<F("_version", Const(<<1>>)), F("Type", PolicyNode)>>),
  SatisfiedPolicy |-> Struct(<<F("Policy", Ref("SpendPolicy")), F("Signatures", Slice(Sig)), F("Preimages", Slice(H32))>>)
]

\* ---- v2 -------------------------------------------------------------------
V2 == [
  V2SiacoinOutput |-> Struct(<<F("Value", CurV2), F("Address", H32)>>),
  V2SiafundOutput |-> Struct(<<F("Value", U64), F("Address", H32)>>),
  StateElement |-> Struct(<<F("LeafIndex", U64), F("MerkleProof", Slice(H32)), F("shared", NT("in-memory ownership flag"))>>),
  ChainIndexElement |-> Struct(<<F("StateElement", Ref("StateElement")), F("ID", H32), F("ChainIndex", Ref("ChainIndex"))>>),
  SiacoinElement |-> Struct(<<F("StateElement", Ref("StateElement")), F("ID", H32), F("SiacoinOutput", Ref("V2SiacoinOutput")), F("MaturityHeight", U64)>>),
  SiafundElement |-> Struct(<<F("StateElement", Ref("StateElement")), F("ID", H32), F("SiafundOutput", Ref("V2SiafundOutput")), F("ClaimStart", CurV2)>>),
  FileContractElement |-> Struct(<<F("StateElement", Ref("StateElement")), F("ID", H32), F("FileContract", Ref("FileContract"))>>),
  V2FileContractElement |-> Struct(<<F("StateElement", Ref("StateElement")), F("ID", H32), F("V2FileContract", Ref("V2FileContract"))>>),
  V2FileContract |-> Struct(<<F("Capacity", U64), F("Filesize", U64), F("FileMerkleRoot", H32), F("ProofHeight", U64), F("ExpirationHeight", U64),
      F("RenterOutput", Ref("V2SiacoinOutput")), F("HostOutput", Ref("V2SiacoinOutput")), F("MissedHostValue", CurV2), F("TotalCollateral", CurV2),
      F("RenterPublicKey", H32), F("HostPublicKey", H32), F("RevisionNumber", U64), F("RenterSignature", Sig), F("HostSignature", Sig)>>),
  V2SiacoinInput |-> Struct(<<F("Parent", Ref("SiacoinElement")), F("SatisfiedPolicy", Ref("SatisfiedPolicy"))>>),
  V2SiafundInput |-> Struct(<<F("Parent", Ref("SiafundElement")), F("ClaimAddress", H32), F("SatisfiedPolicy", Ref("SatisfiedPolicy"))>>),
  V2FileContractRevision |-> Struct(<<F("Parent", Ref("V2FileContractElement")), F("Revision", Ref("V2FileContract"))>>),
  V2FileContractRenewal |-> Struct(<<F("FinalRenterOutput", Ref("V2SiacoinOutput")), F("FinalHostOutput", Ref("V2SiacoinOutput")),
      F("RenterRollover", CurV2), F("HostRollover", CurV2), F("NewContract", Ref("V2FileContract")), F("RenterSignature", Sig), F("HostSignature", Sig)>>),
  V2StorageProof |-> Struct(<<F("ProofIndex", Ref("ChainIndexElement")), F("Leaf", Fixed(64)), F("Proof", Slice(H32))>>),
  V2FileContractExpiration |-> Struct(<<>>),
  V2FileContractResolution |-> Struct(<<F("Parent", Ref("V2FileContractElement")),
      F("Resolution", Union(<< <<"V2FileContractRenewal", 0, Ref("V2FileContractRenewal")>>, <<"V2StorageProof", 1, Ref("V2StorageProof")>>,
                               <<"V2FileContractExpiration", 2, Ref("V2FileContractExpiration")>> >>))>>),
  Attestation |-> Struct(<<F("PublicKey", H32), F("Key", Str), F("Value", Bytes), F("Signature", Sig)>>),
  V2Transaction |-> Struct(<<F("_version", Const(<<2>>)), F("_fields", Bitmap(<<
      <<"SiacoinInputs", Slice(Ref("V2SiacoinInput")), "nonempty">>, <<"SiacoinOutputs", Slice(Ref("V2SiacoinOutput")), "nonempty">>,
      <<"SiafundInputs", Slice(Ref("V2SiafundInput")), "nonempty">>, <<"SiafundOutputs", Slice(Ref("V2SiafundOutput")), "nonempty">>,
      <<"FileContracts", Slice(Ref("V2FileContract")), "nonempty">>, <<"FileContractRevisions", Slice(Ref("V2FileContractRevision")), "nonempty">>,
      <<"FileContractResolutions", Slice(Ref("V2FileContractResolution")), "nonempty">>, <<"Attestations", Slice(Ref("Attestation")), "nonempty">>,
      <<"ArbitraryData", Bytes, "nonempty">>, <<"NewFoundationAddress", Opt(H32), "some">>, <<"MinerFee", CurV2, "nonzero">> >>))>>),
  V2BlockData |-> Struct(<<F("Height", U64), F("Commitment", H32), F("Transactions", Multiproof(Ref("V2Transaction")))>>),
  V2Block |-> Struct(<<F("ParentID", H32), F("Nonce", U64), F("Timestamp", Time), F("MinerPayouts", Slice(Ref("V1SiacoinOutput"))),
      F("Transactions", Slice(Ref("Transaction"))), F("V2", Opt(Ref("V2BlockData")))>>),
  V2TransactionsMultiproof |-> Multiproof(Ref("V2Transaction"))
]

TypesSchema == Ids @@ V1 @@ Policy @@ V2
=============================================================================
