SPECIFICATION Spec
CONSTANT TL_ChunkSize = 16
CHECK_DEADLOCK FALSE
