------------------------------ MODULE WireRHP2 ------------------------------
(* Protocol layout of the RHP2 objects (rhp/v2).  RHP2 is the siad-era protocol:
   64-byte signatures travel as length-prefixed byte strings (LFixed).        *)
EXTENDS WireCodec, TLC
LOCAL Values == Slice(CurV1)
LOCAL TxnSig == Ref("TransactionSignature")

RHP2Schema == [
  rhp2_Challenge |-> Fixed(16),
  rhp2_RPCError |-> Struct(<<F("Type", Spec16), F("Data", Bytes), F("Description", Str)>>),
  rhp2_RPCFormContractRequest |-> Struct(<<F("Transactions", Slice(Ref("Transaction"))), F("RenterKey", Ref("UnlockKey"))>>),
  rhp2_RPCFormContractAdditions |-> Struct(<<F("Parents", Slice(Ref("Transaction"))), F("Inputs", Slice(Ref("SiacoinInput"))),
      F("Outputs", Slice(Ref("V1SiacoinOutput")))>>),
  rhp2_RPCFormContractSignatures |-> Struct(<<F("ContractSignatures", Slice(TxnSig)), F("RevisionSignature", TxnSig)>>),
  rhp2_RPCRenewAndClearContractRequest |-> Struct(<<F("Transactions", Slice(Ref("Transaction"))), F("RenterKey", Ref("UnlockKey")),
      F("FinalValidProofValues", Values), F("FinalMissedProofValues", Values)>>),
  rhp2_RPCRenewAndClearContractSignatures |-> Struct(<<F("ContractSignatures", Slice(TxnSig)), F("RevisionSignature", TxnSig),
      F("FinalRevisionSignature", LFixed(64))>>),
  rhp2_RPCLockRequest |-> Struct(<<F("ContractID", H32), F("Signature", LFixed(64)), F("Timeout", U64)>>),
  rhp2_RPCLockResponse |-> Struct(<<F("Acquired", Bool), F("NewChallenge", Fixed(16)), F("Revision", Ref("FileContractRevision")),
      F("Signatures", Slice(TxnSig))>>),
  rhp2_RPCReadRequest |-> Struct(<<F("Sections", Slice(Struct(<<F("MerkleRoot", H32), F("Offset", U64), F("Length", U64)>>))),
      F("MerkleProof", Bool), F("RevisionNumber", U64), F("ValidProofValues", Values), F("MissedProofValues", Values), F("Signature", LFixed(64))>>),
  rhp2_RPCReadResponse |-> Struct(<<F("Signature", LFixed(64)), F("Data", Bytes), F("MerkleProof", Slice(H32))>>),
  rhp2_RPCSectorRootsRequest |-> Struct(<<F("RootOffset", U64), F("NumRoots", U64), F("RevisionNumber", U64),
      F("ValidProofValues", Values), F("MissedProofValues", Values), F("Signature", LFixed(64))>>),
  rhp2_RPCSectorRootsResponse |-> Struct(<<F("Signature", LFixed(64)), F("SectorRoots", Slice(H32)), F("MerkleProof", Slice(H32))>>),
  rhp2_RPCSettingsResponse |-> Struct(<<F("Settings", Bytes)>>),
  rhp2_RPCWriteRequest |-> Struct(<<F("Actions", Slice(Struct(<<F("Type", Spec16), F("A", U64), F("B", U64), F("Data", Bytes)>>))),
      F("MerkleProof", Bool), F("RevisionNumber", U64), F("ValidProofValues", Values), F("MissedProofValues", Values)>>),
  rhp2_RPCWriteMerkleProof |-> Struct(<<F("OldSubtreeHashes", Slice(H32)), F("OldLeafHashes", Slice(H32)), F("NewMerkleRoot", H32)>>),
  rhp2_RPCWriteResponse |-> Struct(<<F("Signature", LFixed(64))>>)
]
=============================================================================
