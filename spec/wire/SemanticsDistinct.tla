-------------------------- MODULE SemanticsDistinct --------------------------
(* Distinct derivations have distinct pre-images.

   A derivation is (kind, parent, position): which identifier or signature
   hash is derived, from which parent identifier / object, at which position
   (for v1 signature hashes: in which era).  Over two parent identifiers,
   small transactions, positions 0..2 and the four eras, the pre-images of any
   two different derivations differ AS BYTE STRINGS (by distinguisher,
   specifier, length, position or era prefix), so equal identifiers would
   need a hash collision.  The harness registers every identifier the real
   code derives on real chains under its derivation and demands the same.    *)
EXTENDS Semantics, FiniteSets, Json

P(b) == [i \in 1..32 |-> b]                  \* a 32-byte identifier
W0 == <<0, 0, 0, 0>>
C0 == <<0, 0, 0, 0, 0, 0, 0, 0>>
Net == [asic |-> 3, foundation |-> 6, v2allow |-> 9]
EraHeight == <<1, 4, 7, 10>>                 \* a tip height in each era

\* ---- small v1 transactions ---------------------------------------------------
UC == [Timelock |-> W0, PublicKeys |-> <<>>, SignaturesRequired |-> W0]
CF0 == [WholeTransaction |-> TRUE, SiacoinInputs |-> <<>>, SiacoinOutputs |-> <<>>, FileContracts |-> <<>>, FileContractRevisions |-> <<>>,
        StorageProofs |-> <<>>, SiafundInputs |-> <<>>, SiafundOutputs |-> <<>>, MinerFees |-> <<>>, ArbitraryData |-> <<>>, Signatures |-> <<>>]
SigOf(p) == [ParentID |-> P(p), PublicKeyIndex |-> W0, Timelock |-> W0, CoveredFields |-> CF0, Signature |-> <<>>]
T0 == [SiacoinInputs |-> <<>>, SiacoinOutputs |-> <<>>, FileContracts |-> <<>>, FileContractRevisions |-> <<>>, StorageProofs |-> <<>>,
       SiafundInputs |-> <<>>, SiafundOutputs |-> <<>>, MinerFees |-> <<>>, ArbitraryData |-> <<>>, Signatures |-> <<>>]
T1 == [T0 EXCEPT !.SiacoinInputs = <<[ParentID |-> P(7), UnlockConditions |-> UC]>>, !.Signatures = <<SigOf(7)>>]
T2 == [T0 EXCEPT !.SiafundInputs = <<[ParentID |-> P(8), UnlockConditions |-> UC, ClaimAddress |-> P(9)]>>, !.Signatures = <<SigOf(8)>>]
T3 == [T0 EXCEPT !.SiacoinOutputs = <<[Value |-> C0, Address |-> P(1)]>>]
V1Txns == <<T0, T1, T2, T3>>
CoverInput(a) == IF a = 2 THEN [CF0 EXCEPT !.WholeTransaction = FALSE, !.SiacoinInputs = <<W0>>]
                 ELSE [CF0 EXCEPT !.WholeTransaction = FALSE, !.SiafundInputs = <<W0>>]

\* ---- small v2 objects ----------------------------------------------------------
U0 == [SiacoinInputs |-> <<>>, SiacoinOutputs |-> <<>>, SiafundInputs |-> <<>>, SiafundOutputs |-> <<>>, FileContracts |-> <<>>,
       FileContractRevisions |-> <<>>, FileContractResolutions |-> <<>>, Attestations |-> <<>>, ArbitraryData |-> <<>>,
       NewFoundationAddress |-> <<>>, MinerFee |-> C0]
U1 == [U0 EXCEPT !.ArbitraryData = <<1>>]
V2Txns == <<U0, U1>>
Out0 == [Value |-> C0, Address |-> P(1)]
FC0 == [Capacity |-> W0, Filesize |-> W0, FileMerkleRoot |-> P(0), ProofHeight |-> W0, ExpirationHeight |-> W0, RenterOutput |-> Out0, HostOutput |-> Out0,
        MissedHostValue |-> C0, TotalCollateral |-> C0, RenterPublicKey |-> P(1), HostPublicKey |-> P(2), RevisionNumber |-> W0]
R0 == [FinalRenterOutput |-> Out0, FinalHostOutput |-> Out0, RenterRollover |-> C0, HostRollover |-> C0, NewContract |-> FC0]
A0 == [PublicKey |-> P(1), Key |-> <<>>, Value |-> <<>>]

\* ---- derivations <<kind, a, i>> ---------------------------------------------------
ByParentAndPosition == {"minerout", "v1validout", "v1missedout", "v2scoid", "v2sfoid", "v2fcid", "attestationid"}
ByParent == {"foundationout", "v1claimout", "v2claimout", "v2renterout", "v2hostout", "v2renewalid"}
ByV1TxnAndPosition == {"v1scoid", "v1sfoid", "v1fcid"}
ByV1Txn == {"v1txid", "v1fullhash", "v1leaf"}
ByV2Txn == {"v2txid", "v2fullhash", "v2leaf", "inputsighash"}
ByObject == {"contractsighash", "renewalsighash", "attestationsighash"}
ByV1TxnAndEra == {"wholesighash", "partialsighash"}      \* transactions 2 and 3 carry an input
Derivations ==
  (ByParentAndPosition \X (1..2) \X (0..2)) \cup (ByParent \X (1..2) \X {0}) \cup
  (ByV1TxnAndPosition \X (1..4) \X (0..2)) \cup (ByV1Txn \X (1..4) \X {0}) \cup
  (ByV2Txn \X (1..2) \X {0}) \cup (ByObject \X {1} \X {0}) \cup (ByV1TxnAndEra \X (2..3) \X (1..4))

Pre(d) == LET kind == d[1]  a == d[2]  i == d[3] IN
  CASE kind = "minerout" -> PreMinerOutputID(P(a), i)
    [] kind = "v1validout" -> PreV1ContractOutputID(P(a), TRUE, i)
    [] kind = "v1missedout" -> PreV1ContractOutputID(P(a), FALSE, i)
    [] kind = "v2scoid" -> PreV2SiacoinOutputID(P(a), i)
    [] kind = "v2sfoid" -> PreV2SiafundOutputID(P(a), i)
    [] kind = "v2fcid" -> PreV2FileContractID(P(a), i)
    [] kind = "attestationid" -> PreAttestationID(P(a), i)
    [] kind = "foundationout" -> PreFoundationOutputID(P(a))
    [] kind = "v1claimout" -> PreV1ClaimOutputID(P(a))
    [] kind = "v2claimout" -> PreV2ClaimOutputID(P(a))
    [] kind = "v2renterout" -> PreV2RenterOutputID(P(a))
    [] kind = "v2hostout" -> PreV2HostOutputID(P(a))
    [] kind = "v2renewalid" -> PreV2RenewalID(P(a))
    [] kind = "v1scoid" -> PreV1SiacoinOutputID(V1Txns[a], i)
    [] kind = "v1sfoid" -> PreV1SiafundOutputID(V1Txns[a], i)
    [] kind = "v1fcid" -> PreV1FileContractID(V1Txns[a], i)
    [] kind = "v1txid" -> PreV1TxnID(V1Txns[a])
    [] kind = "v1fullhash" -> PreV1FullHash(V1Txns[a])
    [] kind = "v1leaf" -> <<0>> \o PreV1FullHash(V1Txns[a])
    [] kind = "v2txid" -> PreV2TxnID(V2Txns[a])
    [] kind = "v2fullhash" -> PreV2FullHash(V2Txns[a])
    [] kind = "v2leaf" -> <<0>> \o PreV2FullHash(V2Txns[a])
    [] kind = "inputsighash" -> PreInputSigHash(V2Txns[a])
    [] kind = "contractsighash" -> PreContractSigHash(FC0)
    [] kind = "renewalsighash" -> PreRenewalSigHash(R0)
    [] kind = "attestationsighash" -> PreAttestationSigHash(A0)
    [] kind = "wholesighash" -> PreWholeSigHash(EraPrefix(EraHeight[i], Net), V1Txns[a], 1)
    [] kind = "partialsighash" -> PrePartialSigHash(EraPrefix(EraHeight[i], Net), V1Txns[a], CoverInput(a))

\* the documented legacy corner: without inputs there is no place for the era prefix
T4 == [T0 EXCEPT !.FileContractRevisions = <<[ParentID |-> P(5), UnlockConditions |-> UC,
          FileContract |-> [RevisionNumber |-> W0, Filesize |-> W0, FileMerkleRoot |-> P(0), WindowStart |-> W0, WindowEnd |-> W0,
                            ValidProofOutputs |-> <<>>, MissedProofOutputs |-> <<>>, UnlockHash |-> P(0)]]>>,
       !.Signatures = <<SigOf(5)>>]
LegacyCorner == \A i \in 1..4 : PreWholeSigHash(EraPrefix(EraHeight[i], Net), T4, 1) = PreWholeSigHash(<<>>, T4, 1)

IsBytes(s) == \A j \in 1..Len(s) : s[j] \in 0..255
PreOf == [d \in Derivations |-> Pre(d)]       \* evaluated once
Distinct == /\ LegacyCorner
            /\ \A d \in Derivations : IsBytes(PreOf[d])
            /\ \A d1, d2 \in Derivations : d1 # d2 => PreOf[d1] # PreOf[d2]

VARIABLE done
Init == done = FALSE
Next == ~done /\ done' = TRUE /\ PrintT("@@DERIVATIONS " \o ToString(Cardinality(Derivations)))
Spec == Init /\ [][Next]_done
=============================================================================
