------------------------------ MODULE WireLimit ------------------------------
(* C11, decoding under a byte limit.

   A decoder of core is not a function of the bytes alone: it is created over
   a reader that may hand out at most L more bytes (io.LimitedReader), and L
   is part of its behaviour -- it bounds what may be consumed and it is what
   the length prefixes of collections are checked against before anything is
   allocated.  L is chosen by whoever creates the decoder: the transports use
   the maximal length of the expected message, a decoder over a stored or
   already framed message (NewBufDecoder) uses EXACTLY the length of the
   encoding.  "Decoding its encoding yields an equal value" is therefore a
   statement for every limit:

     a decoder with limit L that is handed a valid encoding of S bytes
     accepts it iff  S <= L   (Accepts),   for every L in Nat,

   and when it accepts it yields the value and has consumed exactly S bytes.

   What a plausibility check on a length prefix may rely on: after the prefix
   of a collection of n elements, a valid encoding still holds at least
   n * (smallest wire size of an element) bytes, all of them under the limit.
   The smallest element of the schema lines is ONE byte (bool, u8); elements
   of 8 bytes (u64, byte strings), 16 (v2 currency), 32 (hashes) and
   composites exist as well.  A check that assumes more than the element type
   guarantees refuses valid encodings whose collection is large relative to
   the rest of the message and to the slack L - S; it cannot be seen with one
   or two elements or with a generous limit.

   Cases: for every schema line and every collection place in it (slices with
   u64 and u8 counts, byte strings, texts; reached through optional parts,
   union variants, struct members and up to Depth references) the value that
   is minimal everywhere else and holds n elements at that place, with n
   chosen so that the collection outweighs the rest of the message
   (n * es > 2 * size of the base value + 256 bytes, capped at 255 for one-byte
   counts).  For each: abstract value, the bytes Wire!Enc prescribes, element
   size es, count n, and the limit schedule  S-9 S-8 S-1 S S+1 S+7 S+8 S+9
   2S+64 2^31-1 2^63-1  with the verdict Accepts(L, S).  The harness hands the
   bytes to the real decoder under each limit.                              *)
EXTENDS WireEnum

Accepts(L, S) == S <= L

\* ---- the limited reader, as a state machine (checked by TLC on small numbers: ReaderOK) ----
\* A decoder reads a valid encoding of S bytes in chunks; with limit L every read of k bytes needs k <= left.
\* Whatever the chunking, all S bytes arrive iff S <= L.
RECURSIVE ReadAll(_, _)
ReadAll(chunks, left) == IF chunks = <<>> THEN TRUE
                         ELSE IF Head(chunks) > left THEN FALSE ELSE ReadAll(Tail(chunks), left - Head(chunks))
RECURSIVE Sum(_)
Sum(q) == IF q = <<>> THEN 0 ELSE Head(q) + Sum(Tail(q))
Chunkings == UNION {[1..k -> 0..3] : k \in 0..4}
ReaderOK == \A q \in Chunkings : \A L \in 0..13 : ReadAll(q, L) = Accepts(L, Sum(q))

\* ---- values with one dominant collection --------------------------------------
ESize(c) == Len(Enc(c, Base(c)))
\* element i of a long collection: scalars differ from one element to the next (exposes reordering and reuse)
Elem(c, i) ==
  CASE c.k = "u8" -> i % 256
    [] c.k \in {"u64", "time"} -> <<0, 0, i \div 65536, i % 65536>>
    [] c.k = "bool" -> i % 2 = 1
    [] c.k = "fixed" -> [j \in 1..c.n |-> (i + j) % 256]
    [] c.k = "curv2" -> <<0, 0, 0, 0, 0, 0, 0, i % 65536>>
    [] OTHER -> Base(c)
ByteSeq(n) == [i \in 1..n |-> 1 + (i % 250)]
Text(n) == [i \in 1..n |-> 97 + (i % 26)]
Cap(c, n) == IF c.k = "slicen" /\ n > 255 THEN 255 ELSE n

RECURSIVE Dom(_, _, _, _)
\* T: target number of bytes of the collection; p: the place (text)
Dom(c, d, T, p) ==
  CASE c.k \in {"slice", "slicen"} ->
         LET es == ESize(c.e)
             n == Cap(c, (T \div (IF es = 0 THEN 1 ELSE es)) + 1) IN
         << [v |-> [i \in 1..n |-> Elem(c.e, i)], es |-> es, n |-> n, ek |-> c.e.k, place |-> p \o "[]"] >>
         \o Map(Dom(c.e, d, T, p \o "[]"), LAMBDA x : [x EXCEPT !.v = <<@>>])
    [] c.k \in {"bytes", "str"} -> << [v |-> ByteSeq(T + 1), es |-> 1, n |-> T + 1, ek |-> "byte", place |-> p] >>
    [] c.k = "errstr" -> << [v |-> Text(T + 1), es |-> 1, n |-> T + 1, ek |-> "byte", place |-> p] >>
    [] c.k = "opt" -> Map(Dom(c.e, d, T, p), LAMBDA x : [x EXCEPT !.v = <<@>>])
    [] c.k = "ref" -> IF d = 0 THEN <<>> ELSE Dom(Schema[c.name], d - 1, T, p)
    [] c.k = "struct" ->
         LET ms == Members(c)  b == Base(c) IN
         Cat([i \in 1..Len(ms) |-> Map(Dom(ms[i][2], d, T, p \o "." \o ms[i][1]),
                                       LAMBDA x : [x EXCEPT !.v = FixDeps(c, [b EXCEPT ![ms[i][1]] = x.v])])])
    [] c.k \in {"union", "tframed"} ->
         Cat([i \in 1..Len(c.vs) |-> Map(Dom(c.vs[i][3], d, T, p \o "<" \o c.vs[i][1] \o ">"),
                                       LAMBDA x : [x EXCEPT !.v = [tag |-> c.vs[i][1], v |-> @]])])
    [] OTHER -> <<>>      \* scalars; multiproof / outline lists need consistent proofs (direction B, generic limit sweep)

Target(name) == 2 * ESize(Schema[name]) + 256
LCases(name) == Dom(Schema[name], Depth, Target(name), "")

\* ---- the limit schedule ---------------------------------------------------------
MaxInt31 == <<0, 0, 32767, 65535>>
MaxInt63 == <<32767, 65535, 65535, 65535>>
Near(S) == SelectSeq(<<S - 9, S - 8, S - 1, S, S + 1, S + 7, S + 8, S + 9, 2 * S + 64>>, LAMBDA L : L >= 0)
Limits(S) == [i \in 1..Len(Near(S)) |-> [limit |-> LenWords(Near(S)[i]), accept |-> Accepts(Near(S)[i], S)]]
             \o << [limit |-> MaxInt31, accept |-> TRUE], [limit |-> MaxInt63, accept |-> TRUE] >>
\* the schedule for values whose size the model does not know (generated values of direction B): L = mul * S + add
Schedule == << [mul |-> 1, add |-> -1, accept |-> FALSE], [mul |-> 1, add |-> 0, accept |-> TRUE], [mul |-> 1, add |-> 1, accept |-> TRUE],
               [mul |-> 1, add |-> 8, accept |-> TRUE], [mul |-> 2, add |-> 64, accept |-> TRUE] >>
ScheduleOK == \A S \in 0..40 : \A i \in 1..Len(Schedule) : LET L == Schedule[i].mul * S + Schedule[i].add IN
                 L >= 0 => Schedule[i].accept = Accepts(L, S)

EmitL(name, x) ==
  LET bs == Enc(Schema[name], x.v)  S == Len(bs) IN
  /\ Assert(x.es >= 1, "a collection element without bytes: the count of a valid encoding would not be bounded by the bytes that follow")
  /\ PrintT("@@LCASE " \o ToJson([type |-> name, place |-> x.place, ek |-> x.ek, es |-> x.es, n |-> x.n, size |-> S,
                                    rest |-> S - x.n * x.es, value |-> x.v, bytes |-> bs, limits |-> Limits(S)]))
EmitAllL(name, cs) == /\ \A i \in 1..Len(cs) : EmitL(name, cs[i])
                      /\ PrintT("@@LCOUNT " \o name \o " " \o ToString(Len(cs)))

\* (the variables ty, done are those of WireEnum)
LInit == /\ ty = "" /\ done = FALSE
         /\ Assert(ReaderOK, "the limited reader does not deliver exactly the encodings that fit the limit")
         /\ Assert(ScheduleOK, "schedule verdicts disagree with Accepts")
         /\ PrintT("@@LSCHED " \o ToJson(Schedule))
LNext == \/ /\ ty = "" /\ ty' \in DOMAIN Schema /\ done' = FALSE
         \/ /\ ty # "" /\ ~done
            /\ EmitAllL(ty, LCases(ty))
            /\ done' = TRUE /\ UNCHANGED ty
LSpec == LInit /\ [][LNext]_<<ty, done>>
=============================================================================
