----------------------------- MODULE WireCodec -----------------------------
(* The codec combinator language of the wire formats of core.

   A codec is a record [k |-> kind, ...].  A schema line is a codec that
   states the PROTOCOL LAYOUT of one wire type; the interpreter Wire!Enc turns
   a codec and an abstract value into the byte sequence.  Nothing in here is
   derived from the Go encoders.

   Abstract values (what the harness logs, what TLC enumerates):
     u8            an integer 0..255
     u64 / time    <<w3, w2, w1, w0>>  four 16-bit words, most significant first
                   (time = seconds since the Unix epoch, modulo 2^64)
     bool          TRUE / FALSE
     fixed(n)      a sequence of n bytes
     bytes / str   a sequence of bytes (the length prefix is part of the layout)
     currency      <<w7, ..., w0>>  eight 16-bit words, most significant first
     slice         a sequence;  opt: <<>> (absent) or <<x>> (present)
     struct        a record keyed by field name
     union         [tag |-> variantName, v |-> value]
   Field names starting with "_" are wire-only (constants of the protocol).    *)
EXTENDS Integers, Sequences

U8   == [k |-> "u8"]
U64  == [k |-> "u64"]
Time == [k |-> "time"]
Bool == [k |-> "bool"]
Fixed(n) == [k |-> "fixed", n |-> n]
LFixed(n) == [k |-> "lfixed", n |-> n]  \* a fixed-size value sent as a length-prefixed byte string (u64 n, then n bytes)
Bytes == [k |-> "bytes"]                 \* u64 length, then the bytes
Str   == [k |-> "str"]                   \* same layout as Bytes
CurV1 == [k |-> "curv1"]                 \* u64 length, big-endian magnitude without leading zero bytes
CurV2 == [k |-> "curv2"]                 \* low 64 bits LE, then high 64 bits LE
CurV1of64 == [k |-> "curv1u64"]          \* a 64-bit amount in the v1 currency layout (siafund values)
Slice(c)  == [k |-> "slice", e |-> c]    \* u64 count, then the elements
SliceN(c) == [k |-> "slicen", e |-> c]   \* u8 count, then the elements
Opt(c)    == [k |-> "opt", e |-> c]      \* presence byte 0/1, then the value if present
Ref(name) == [k |-> "ref", name |-> name]
Struct(fs) == [k |-> "struct", fs |-> fs]            \* fs: sequence of <<name, codec>> in WIRE order
Union(vs)  == [k |-> "union", vs |-> vs]             \* vs: sequence of <<variant name, tag byte, codec>>
Const(bs)  == [k |-> "const", bs |-> bs]             \* protocol constant (version byte, placeholder)
NT(why)    == [k |-> "nt", why |-> why]              \* member of the in-memory object that is NOT transmitted
\* v2 transaction: version byte 2, u64 bitmap of the present fields, then the present fields in bit order.
\* fs: sequence of <<name, codec, rule>>; rule "nonempty" (slice / byte string present iff non-empty),
\* "some" (optional value, transmitted WITHOUT a presence byte), "nonzero" (currency present iff non-zero)
Bitmap(fs) == [k |-> "bitmap", fs |-> fs]
\* the first min(height + 1 mod 2^64, 11) entries of an 11-entry array; ctl = path to the height
Timestamps(ctl) == [k |-> "timestamps", ctl |-> ctl]
\* entry h (0-based) of a 64-entry array is transmitted iff bit h of the u64 at path ctl is set
Masked(ctl, c) == [k |-> "masked", ctl |-> ctl, e |-> c]
\* a list of v2 transactions in multiproof form (types/multiproof.go):
\* the transactions with the Merkle proofs of all assigned leaves removed, the u64 leaf-count hint, the proof hashes
Multiproof(txn) == [k |-> "multiproof", e |-> txn]
\* a block outline's transaction list: v1 transactions, v2 transactions (multiproof form), bare hashes, one kind byte each
Outline(txn, v2txn) == [k |-> "outline", t1 |-> txn, t2 |-> v2txn]

\* rhp/v3: an ephemeral account id (32 bytes) travels as an unlock key: the all-zero account as the zero specifier
\* and an empty key, any other as the specifier "ed25519" and the 32 bytes, length-prefixed
Account3 == [k |-> "account3"]
\* union whose tag is a byte string and whose body is length-prefixed (u64); vs: <<variant name, tag bytes, codec>>
TaggedFramed(vs) == [k |-> "tframed", vs |-> vs]
ErrStr == [k |-> "errstr"]            \* an optional error: its text as Str, the empty text when there is none
Raw(ctl) == [k |-> "raw", ctl |-> ctl] \* bytes without a length prefix: their number is the u64 member at path ctl

F(name, c) == <<name, c>>   \* a struct member
H32 == Fixed(32)      \* hashes, ids, addresses, public keys
Sig == Fixed(64)
Spec16 == Fixed(16)   \* specifiers
=============================================================================
