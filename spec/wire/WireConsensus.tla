--------------------------- MODULE WireConsensus ---------------------------
(* Protocol layout of the wire objects of package consensus. *)
EXTENDS WireCodec, TLC

ConsensusSchema == [
  consensus_Work |-> Struct(<<F("n", Fixed(32))>>),                 \* 256-bit big-endian number
  \* leaf count, then the roots of exactly those trees whose bit is set in the leaf count, smallest tree first
  consensus_ElementAccumulator |-> Struct(<<F("NumLeaves", U64), F("Trees", Masked(<<"NumLeaves">>, H32))>>),
  consensus_State |-> Struct(<<
      F("Network", NT("network parameters are configuration, not state")),
      F("Index", Ref("ChainIndex")),
      F("PrevTimestamps", Timestamps(<<"Index", "Height">>)),      \* newest first; only as many as there are ancestors, at most 11
      F("Depth", H32), F("ChildTarget", H32), F("SiafundTaxRevenue", CurV2),
      F("OakTime", U64), F("OakTarget", H32),
      F("FoundationSubsidyAddress", H32), F("FoundationManagementAddress", H32),
      F("TotalWork", Ref("consensus_Work")), F("Difficulty", Ref("consensus_Work")), F("OakWork", Ref("consensus_Work")),
      F("Elements", Ref("consensus_ElementAccumulator")), F("Attestations", U64)>>),
  consensus_V1StorageProofSupplement |-> Struct(<<F("FileContract", Ref("FileContractElement")), F("WindowID", H32)>>),
  consensus_V1TransactionSupplement |-> Struct(<<F("SiacoinInputs", Slice(Ref("SiacoinElement"))), F("SiafundInputs", Slice(Ref("SiafundElement"))),
      F("RevisedFileContracts", Slice(Ref("FileContractElement"))), F("StorageProofs", Slice(Ref("consensus_V1StorageProofSupplement")))>>),
  consensus_V1BlockSupplement |-> Struct(<<F("Transactions", Slice(Ref("consensus_V1TransactionSupplement"))),
      F("ExpiringFileContracts", Slice(Ref("FileContractElement")))>>)
]
=============================================================================
