SPECIFICATION Spec
CONSTANTS Source = "file" Threads = 3 MaxLen = 8 Discipline = "reset-at-get" Emit = TRUE
INVARIANT Pure
INVARIANT EmitAny
CHECK_DEADLOCK FALSE
