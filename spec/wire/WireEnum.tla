------------------------------ MODULE WireEnum ------------------------------
(* Direction A: for every schema line TLC enumerates small shapes -- the base
   value (all numbers zero, every collection empty, every optional part
   absent, first variant of every union) and every value that differs from
   the base in ONE place: each optional part present, each collection of
   length 1 and 2, each union variant, each scalar at boundary contents --
   and emits (type, abstract value, bytes prescribed by the protocol).  The
   real decoder must accept the bytes, yield that abstract value, and
   re-encode to the same bytes.
   Variations are kept in sequences (not sets): values of different shapes are
   never compared with each other.                                          *)
EXTENDS Wire, Json
CONSTANT Depth          \* how many references a variation may descend through

Zeros(n) == [i \in 1..n |-> 0]
Count(n) == [i \in 1..n |-> i % 256]          \* distinct bytes: exposes any reordering
Ones(n)  == [i \in 1..n |-> 255]
MaxW(n)  == [i \in 1..n |-> 65535]
Map(s, Op(_)) == [i \in 1..Len(s) |-> Op(s[i])]
RECURSIVE Put(_, _, _)
Put(v, p, x) == IF p = <<>> THEN x ELSE [v EXCEPT ![Head(p)] = Put(@, Tail(p), x)]

IsValueField(f) == f[2].k \notin {"nt", "const"}
RECURSIVE Base(_), Vars(_, _), StructVars(_, _, _), FixDeps(_, _), FixRaw(_, _, _)
\* names and codecs of the members of a struct value (bitmap members belong to the enclosing struct)
Members(c) == Cat([i \in 1..Len(c.fs) |-> LET f == c.fs[i] IN
                  IF f[2].k = "bitmap" THEN [j \in 1..Len(f[2].fs) |-> <<f[2].fs[j][1], f[2].fs[j][2]>>]
                  ELSE IF IsValueField(f) THEN <<f>> ELSE <<>>])
Base(c) ==
  CASE c.k = "u8" -> 0
    [] c.k \in {"u64", "time", "curv1u64"} -> Zeros(4)
    [] c.k = "bool" -> FALSE
    [] c.k \in {"fixed", "lfixed"} -> Zeros(c.n)
    [] c.k = "account3" -> Zeros(32)
    [] c.k \in {"bytes", "str", "slice", "slicen", "opt", "multiproof", "outline", "errstr", "raw"} -> <<>>
    [] c.k \in {"curv1", "curv2"} -> Zeros(8)
    [] c.k = "ref" -> Base(Schema[c.name])
    [] c.k = "struct" -> LET ms == Members(c) IN FixDeps(c, [n \in {ms[i][1] : i \in 1..Len(ms)} |->
                              LET i == CHOOSE i \in 1..Len(ms) : ms[i][1] = n IN Base(ms[i][2])])
    [] c.k \in {"union", "tframed"} -> [tag |-> c.vs[1][1], v |-> Base(c.vs[1][3])]
    [] c.k = "timestamps" -> [i \in 1..11 |-> Zeros(4)]
    [] c.k = "masked" -> [i \in 1..64 |-> Base(c.e)]
\* members whose extent depends on a sibling: slots that are not transmitted are zero
\* a member without a length prefix dictates the value of the member that states its length
FixRaw(c, v, i) == IF i > Len(c.fs) THEN v
                   ELSE IF c.fs[i][2].k = "raw" THEN FixRaw(c, Put(v, c.fs[i][2].ctl, LenWords(Len(v[c.fs[i][1]]))), i + 1)
                   ELSE FixRaw(c, v, i + 1)
FixDeps(c, v0) ==
  LET v == FixRaw(c, v0, 1)
      deps == {i \in 1..Len(c.fs) : c.fs[i][2].k \in {"timestamps", "masked"}} IN
  [n \in DOMAIN v |->
     IF \E i \in deps : c.fs[i][1] = n
     THEN LET f == c.fs[CHOOSE i \in deps : c.fs[i][1] = n] IN
          IF f[2].k = "timestamps" THEN [j \in 1..11 |-> IF j <= NumTimestamps(Get(v, f[2].ctl)) THEN v[n][j] ELSE Zeros(4)]
          ELSE [j \in 1..64 |-> IF Bit(Get(v, f[2].ctl), j - 1) = 1 THEN v[n][j] ELSE Base(f[2].e)]
     ELSE v[n]]
SeqVars(e, d) == << <<Base(e)>>, <<Base(e), Base(e)>> >> \o Map(Vars(e, d), LAMBDA x : <<x>>) \o Map(Vars(e, 0), LAMBDA x : <<Base(e), x>>)
U64Vars == << <<0, 0, 0, 1>>, <<0, 0, 1, 0>>, MaxW(4), <<258, 772, 1286, 1800>> >>
Vars(c, d) ==
  CASE c.k = "u8" -> <<1, 255>>
    [] c.k \in {"u64", "time", "curv1u64"} -> U64Vars
    [] c.k = "bool" -> <<TRUE>>
    [] c.k \in {"fixed", "lfixed"} -> <<Count(c.n), Ones(c.n)>>
    [] c.k = "account3" -> <<Count(32), Ones(32), [i \in 1..32 |-> IF i = 32 THEN 1 ELSE 0]>>
    [] c.k \in {"bytes", "str", "raw"} -> << <<7>>, <<1, 2, 3>>, Count(70) >>
    [] c.k = "errstr" -> << <<101>>, <<101, 114, 114>> >>
    [] c.k \in {"curv1", "curv2"} -> << <<0,0,0,0,0,0,0,1>>, <<0,0,0,1,0,0,0,0>>, <<0,0,0,0,1,0,0,0>>, MaxW(8), <<258, 772, 1286, 1800, 2314, 2828, 3342, 3856>> >>
    [] c.k \in {"slice", "slicen"} -> SeqVars(c.e, d)
    [] c.k = "opt" -> << <<Base(c.e)>> >> \o Map(Vars(c.e, d), LAMBDA x : <<x>>)
    [] c.k = "ref" -> IF d = 0 THEN <<>> ELSE Vars(Schema[c.name], d - 1)
    [] c.k = "struct" -> StructVars(c, Base(c), d)
    [] c.k \in {"union", "tframed"} -> Cat([i \in 1..Len(c.vs) |->
                              (IF i = 1 THEN <<>> ELSE << [tag |-> c.vs[i][1], v |-> Base(c.vs[i][3])] >>) \o
                              Map(Vars(c.vs[i][3], d), LAMBDA x : [tag |-> c.vs[i][1], v |-> x])])
    [] c.k = "timestamps" -> << [i \in 1..11 |-> <<0, 0, i, 2 * i>>] >>
    [] c.k = "masked" -> << [i \in 1..64 |-> [j \in 1..32 |-> (i + j) % 256]] >>
    [] c.k \in {"multiproof", "outline"} -> <<>>     \* covered by direction B only (needs mutually consistent proofs)
\* controlling values that move the extent of a dependent member across its boundaries
CtlVars(k) == IF k = "timestamps" THEN << <<0,0,0,0>>, <<0,0,0,4>>, <<0,0,0,9>>, <<0,0,0,10>>, <<0,0,0,11>>, <<0,0,1,0>>, MaxW(4), <<65535,65535,65535,65534>> >>
              ELSE << <<0,0,0,1>>, <<0,0,0,5>>, <<32768,0,0,1>>, <<0,1,0,0>>, MaxW(4) >>
StructVars(c, b, d) == LET ms == Members(c) IN
  Cat([i \in 1..Len(ms) |-> Map(Vars(ms[i][2], d), LAMBDA x : FixDeps(c, [b EXCEPT ![ms[i][1]] = x]))]) \o
  Cat([i \in 1..Len(c.fs) |-> LET f == c.fs[i] IN
        IF f[2].k \in {"timestamps", "masked"}
        THEN Map(CtlVars(f[2].k), LAMBDA h : FixDeps(c, Put([b EXCEPT ![f[1]] = Vars(f[2], d)[1]], f[2].ctl, h)))
        ELSE <<>>])

Cases(name) == <<Base(Schema[name])>> \o Vars(Schema[name], Depth)
Emit(name, v) == PrintT("@@CASE " \o ToJson([type |-> name, value |-> v, bytes |-> Enc(Schema[name], v)]))

\* (an operator parameter is evaluated once; a LET definition would be re-evaluated at every use)
EmitAll(name, cs) == /\ \A i \in 1..Len(cs) : Emit(name, cs[i])
                     /\ PrintT("@@COUNT " \o name \o " " \o ToString(Len(cs)))

VARIABLES ty, done
Init == ty = "" /\ done = FALSE
Next == \/ /\ ty = "" /\ ty' \in DOMAIN Schema /\ done' = FALSE
        \/ /\ ty # "" /\ ~done
           /\ EmitAll(ty, Cases(ty))
           /\ done' = TRUE /\ UNCHANGED ty
Spec == Init /\ [][Next]_<<ty, done>>
=============================================================================
