------------------------------ MODULE Malformed ------------------------------
(* C10, decoder side: the catalogue of FORMAT-AWARE malformed encodings.

   For every schema line (WireCodec combinator language) and every small valid
   shape of it (WireEnum!Cases plus the multiproof / outline shapes below) the
   annotated interpreter EncM yields the protocol encoding TOGETHER WITH the
   positions of its structural items ("marks"): length prefixes, one-byte
   counts, bool and presence bytes, union tags, v1 currencies, 64-bit numbers,
   the multiproof leaf-count hint, outline kind bytes, specifiers, the v2
   field bitmap, protocol constants, whole spend policies.  The catalogue maps
   every mark to the byte strings an adversary would put in its place, and
   every encoding to its cut points.  TLC enumerates
         (type, base shape, mark, corruption)
   and prints the bytes compactly: the valid encoding once, then per
   corruption the replaced span and the replacing bytes (long replacements are
   named blobs printed once).  The harness only splices.

   PREDICTION for every case: the decoder terminates with a value or an error
   -- no panic, no hang, no allocation out of proportion to the input.

   The second half is the catalogue of corruptions of JSON documents and
   identifier texts (UnmarshalJSON / UnmarshalText entry points).            *)
EXTENDS WireEnum
CONSTANTS Only,      \* the schema lines to enumerate (those with a registered decoder)
          MaxCuts    \* encodings up to this length are cut at every position

\* ---- annotated encodings --------------------------------------------------------
\* a mark: <<offset (0-based), width, kind, aux, owner schema line, member path inside the owner>>
Leaf(bs) == [b |-> bs, m |-> <<>>]
Mk(bs, kind, aux, o, p) == [b |-> bs, m |-> << <<0, Len(bs), kind, aux, o, p>> >>]
Shift(ms, d) == [i \in 1..Len(ms) |-> <<ms[i][1] + d, ms[i][2], ms[i][3], ms[i][4], ms[i][5], ms[i][6]>>]
\* (operator parameters are evaluated once; a LET definition would be re-evaluated at every use)
Join(x, r, off) == [b |-> x.b \o r.b, m |-> Shift(x.m, off) \o r.m]
RECURSIVE CatMFrom(_, _, _)
CatMFrom(ps, i, off) == IF i > Len(ps) THEN Leaf(<<>>) ELSE Join(ps[i], CatMFrom(ps, i + 1, off + Len(ps[i].b)), off)
CatM(ps) == CatMFrom(ps, 1, 0)
Whole(x, kind, o, p) == [b |-> x.b, m |-> << <<0, Len(x.b), kind, 0, o, p>> >> \o x.m]
Sub(p, n) == IF p = "" THEN n ELSE p \o "." \o n
RECURSIVE MaxTagFrom(_, _)
MaxTagFrom(vs, i) == IF i > Len(vs) THEN 0 ELSE LET r == MaxTagFrom(vs, i + 1) IN IF vs[i][2] > r THEN vs[i][2] ELSE r
Prefixed(kind, body, o, p) == CatM(<<Mk(LEInt(Len(body), 8), kind, Len(body), o, p), Leaf(body)>>)
Cur1(e, o, p) == Mk(e, "cur1", Len(e) - 8, o, p)
FramedM(spec, body, o, p) == CatM(<<Mk(spec, "spec", 0, o, p), Mk(LEInt(Len(body.b), 8), "len", Len(body.b), o, p), body>>)

RECURSIVE EncM(_, _, _, _), FieldEncM(_, _, _, _), BitmapEncM(_, _, _, _), MultiproofEncM(_, _, _, _)
RefM(name, v) == IF name = "SpendPolicy" THEN Whole(EncM(Schema[name], v, name, ""), "policy", name, "")
                 ELSE EncM(Schema[name], v, name, "")
BitmapEncM(fs, v, o, p) ==
  LET on == [i \in 1..Len(fs) |-> Present(fs[i][3], v[fs[i][1]])]
      RECURSIVE Mask(_)
      Mask(i) == IF i > Len(fs) THEN 0 ELSE (IF on[i] THEN 1 ELSE 0) + 2 * Mask(i + 1)
  IN CatM(<<Mk(LEInt(Mask(1), 8), "bitmap", 0, o, Sub(p, "_fields"))>> \o
          [i \in 1..Len(fs) |-> IF ~on[i] THEN Leaf(<<>>)
                                ELSE IF fs[i][3] = "some" THEN EncM(fs[i][2].e, v[fs[i][1]][1], o, Sub(p, fs[i][1]))
                                ELSE EncM(fs[i][2], v[fs[i][1]], o, Sub(p, fs[i][1]))])
MultiproofEncM(e, txns, o, p) ==
  CatM(<<Mk(LEInt(Len(txns), 8), "len", Len(txns), o, p)>> \o
       [i \in 1..Len(txns) |-> EncM(e, StripTxn(txns[i]), o, p \o "[]")] \o
       <<Mk(HintBytes(Cat([i \in 1..Len(txns) |-> TxnLeaves(txns[i])])), "hint", 0, o, Sub(p, "_hint")),
         Leaf(ProofHashes(Cat([i \in 1..Len(txns) |-> TxnLeaves(txns[i])])))>>)
FieldEncM(f, v, o, p) ==
  CASE f[2].k = "nt" -> Leaf(<<>>)
    [] f[2].k = "const" -> Mk(f[2].bs, "const", 0, o, Sub(p, f[1]))
    [] f[2].k = "bitmap" -> BitmapEncM(f[2].fs, v, o, p)
    [] f[2].k \in {"timestamps", "raw", "masked"} -> Leaf(FieldEnc(f, v))
    [] OTHER -> EncM(f[2], v[f[1]], o, Sub(p, f[1]))
Pick(v, tag) == SelectSeq(v, LAMBDA x : x.tag = tag)
EncM(c, v, o, p) ==
  CASE c.k = "u8" -> Mk(<<v>>, "u8", v, o, p)
    [] c.k \in {"u64", "time"} -> Mk(LE64(v), "u64", 0, o, p)
    [] c.k = "bool" -> Mk(<<IF v THEN 1 ELSE 0>>, "bool", 0, o, p)
    [] c.k = "fixed" -> Leaf(Enc(c, v))
    [] c.k = "lfixed" -> Prefixed("len", v, o, p)
    [] c.k \in {"bytes", "str", "errstr"} -> Prefixed("len", v, o, p)
    [] c.k \in {"curv1", "curv1u64"} -> Cur1(V1Amount(v), o, p)
    [] c.k = "curv2" -> Leaf(Enc(c, v))
    [] c.k = "slice" -> CatM(<<Mk(LEInt(Len(v), 8), "len", Len(v), o, p)>> \o [i \in 1..Len(v) |-> EncM(c.e, v[i], o, p \o "[]")])
    [] c.k = "slicen" -> CatM(<<Mk(<<Len(v)>>, "cnt8", Len(v), o, p)>> \o [i \in 1..Len(v) |-> EncM(c.e, v[i], o, p \o "[]")])
    [] c.k = "opt" -> IF v = <<>> THEN Mk(<<0>>, "pres", 0, o, p) ELSE CatM(<<Mk(<<1>>, "pres", 1, o, p), EncM(c.e, v[1], o, p)>>)
    [] c.k = "ref" -> RefM(c.name, v)
    [] c.k = "struct" -> CatM([i \in 1..Len(c.fs) |-> FieldEncM(c.fs[i], v, o, p)])
    [] c.k = "union" -> LET i == CHOOSE i \in 1..Len(c.vs) : c.vs[i][1] = v.tag IN
                        CatM(<<Mk(<<c.vs[i][2]>>, "tag", MaxTagFrom(c.vs, 1), o, p), EncM(c.vs[i][3], v.v, o, p)>>)
    [] c.k = "tframed" -> LET i == CHOOSE i \in 1..Len(c.vs) : c.vs[i][1] = v.tag IN FramedM(c.vs[i][2], EncM(c.vs[i][3], v.v, o, p), o, p)
    [] c.k = "account3" -> IF \A i \in 1..32 : v[i] = 0 THEN CatM(<<Mk(Zeros16, "spec", 0, o, p), Mk(LEInt(0, 8), "len", 0, o, p)>>)
                           ELSE CatM(<<Mk(SpecEd25519, "spec", 1, o, p), Mk(LEInt(32, 8), "len", 32, o, p), Leaf(v)>>)
    [] c.k = "multiproof" -> MultiproofEncM(c.e, v, o, p)
    [] c.k = "outline" ->
         CatM(<<Mk(LEInt(Len(Pick(v, "Transaction")), 8), "len", Len(Pick(v, "Transaction")), o, Sub(p, "_v1"))>> \o
              [i \in 1..Len(Pick(v, "Transaction")) |-> EncM(c.t1, Pick(v, "Transaction")[i].v, o, Sub(p, "_v1") \o "[]")] \o
              <<MultiproofEncM(c.t2, [i \in 1..Len(Pick(v, "V2Transaction")) |-> Pick(v, "V2Transaction")[i].v], o, Sub(p, "_v2")),
                Mk(LEInt(Len(Pick(v, "Hash")), 8), "len", Len(Pick(v, "Hash")), o, Sub(p, "_hashes")),
                Leaf(Cat([i \in 1..Len(Pick(v, "Hash")) |-> Pick(v, "Hash")[i].v]))>> \o
              [i \in 1..Len(v) |-> Mk(<<KindByte(v[i].tag)>>, "kind", KindByte(v[i].tag), o, Sub(p, "_kinds"))])
TopM(name, v) == RefM(name, v)

\* ---- shapes that WireEnum leaves to direction B: multiproof sets and outlines -----
\* (the proofs need not verify against anything here: a decoder must survive whatever the hashes are)
Hash(i) == [j \in 1..32 |-> (i * 16 + j) % 256]
SEl(idx, plen) == [LeafIndex |-> LenWords(idx), MerkleProof |-> [j \in 1..plen |-> Hash(j)]]
In2(idx, plen) == [Base(Schema["V2SiacoinInput"]) EXCEPT !.Parent.StateElement = SEl(idx, plen)]
Txn2(idxs, plen) == [Base(Schema["V2Transaction"]) EXCEPT !.SiacoinInputs = [i \in 1..Len(idxs) |-> In2(idxs[i], plen)]]
Res2(idx, pidx, plen) ==   \* a storage-proof resolution: two leaves (contract, chain index)
  [Base(Schema["V2Transaction"]) EXCEPT !.FileContractResolutions =
     << [Base(Schema["V2FileContractResolution"]) EXCEPT !.Parent.StateElement = SEl(idx, plen),
           !.Resolution = [tag |-> "V2StorageProof", v |-> [Base(Schema["V2StorageProof"]) EXCEPT !.ProofIndex.StateElement = SEl(pidx, plen)]]] >>]
Eph2 == [Base(Schema["V2Transaction"]) EXCEPT !.SiacoinInputs = << [Base(Schema["V2SiacoinInput"]) EXCEPT !.Parent.StateElement = [LeafIndex |-> Unassigned, MerkleProof |-> <<>>]] >>]
MPSets == << <<Txn2(<<0>>, 0)>>, <<Txn2(<<5>>, 3)>>, <<Txn2(<<1, 6>>, 3)>>, <<Txn2(<<3, 3>>, 2)>>, <<Txn2(<<2>>, 2), Txn2(<<1>>, 2)>>,
             <<Res2(4, 7, 3)>>, <<Eph2, Txn2(<<9>>, 4)>>, <<Txn2(<<0, 1, 2, 3>>, 2)>> >>
BlockData(mp) == [Base(Schema["V2BlockData"]) EXCEPT !.Transactions = mp]
Block2(mp) == [Base(Schema["V2Block"]) EXCEPT !.V2 = <<BlockData(mp)>>]
OutlineOf(mp) == [Base(Schema["gateway_V2BlockOutline"]) EXCEPT !.Transactions =
   <<[tag |-> "Transaction", v |-> Base(Schema["Transaction"])]>> \o [i \in 1..Len(mp) |-> [tag |-> "V2Transaction", v |-> mp[i]]] \o <<[tag |-> "Hash", v |-> Hash(9)]>>]
HashOutline == [Base(Schema["gateway_V2BlockOutline"]) EXCEPT !.Transactions = <<[tag |-> "Hash", v |-> Hash(1)], [tag |-> "Hash", v |-> Hash(2)]>>]
Map2(Op(_)) == [i \in 1..Len(MPSets) |-> Op(MPSets[i])]
Extra(name) ==
  CASE name = "V2TransactionsMultiproof" -> MPSets
    [] name = "V2BlockData" -> Map2(BlockData)
    [] name = "V2Block" -> Map2(Block2)
    [] name = "gateway_V2BlockOutline" -> Map2(OutlineOf) \o <<HashOutline>>
    [] name = "gateway_RPCRelayV2BlockOutline_Request" -> Map2(LAMBDA mp : [Base(Schema[name]) EXCEPT !.Block = OutlineOf(mp)])
    [] name = "gateway_RPCSendV2Blocks_Response" -> Map2(LAMBDA mp : [Base(Schema[name]) EXCEPT !.Blocks = <<Block2(mp)>>])
    [] name = "gateway_RPCSendCheckpoint_Response" -> Map2(LAMBDA mp : [Base(Schema[name]) EXCEPT !.Block = Block2(mp)])
    [] OTHER -> <<>>
Shapes(name) == Cases(name) \o Extra(name)

\* ---- blobs: long replacement byte strings, printed once and referred to by index -----
RECURSIVE Nest(_)
Nest(d) == IF d = 0 THEN [tag |-> "PolicyTypeAbove", v |-> Zeros(4)]
           ELSE [tag |-> "PolicyTypeThreshold", v |-> [N |-> 1, Of |-> << [Type |-> Nest(d - 1)] >>]]
NestBytes(d) == Enc(Schema["SpendPolicy"], [Type |-> Nest(d)])          \* d nested 1-of-1 thresholds around above(0)
\* version byte, then d thresholds (opcode 5, n = 255, count = 255), each claiming 255 sub-policies, then nothing
DeepWide(d) == [i \in 1..(3 * d + 1) |-> IF i = 1 THEN 1 ELSE IF (i - 2) % 3 = 0 THEN 5 ELSE 255]
Blobs == << <<"policy-depth", "32", NestBytes(32)>>, <<"policy-depth", "33", NestBytes(33)>>, <<"policy-depth", "34", NestBytes(34)>>,
            <<"policy-depth", "64", NestBytes(64)>>, <<"policy-depth", "200", NestBytes(200)>>,
            <<"policy-deep-wide", "32x255", DeepWide(32)>>, <<"policy-deep-wide", "33x255", DeepWide(33)>>,
            <<"policy-deep-wide", "1000x255", DeepWide(1000)>>, <<"policy-deep-wide", "8000x255", DeepWide(8000)>>,
            <<"policy-arity", "255-of-nothing", <<1, 5, 255, 255>>>>, <<"policy-arity", "2-of-255-one-present", <<1, 5, 2, 255, 1>> \o Zeros(8)>>,
            <<"policy-opcode", "0", <<1, 0>>>>, <<"policy-opcode", "8", <<1, 8>>>>, <<"policy-opcode", "255", <<1, 255>>>>,
            <<"policy-version", "0", <<0, 1>> \o Zeros(8)>>, <<"policy-version", "2", <<2, 1>> \o Zeros(8)>> >>
BlobRef(i) == <<-1, i>>

\* ---- the catalogue: what replaces a mark ----------------------------------------------
P31 == <<0, 0, 0, 128, 0, 0, 0, 0>>     P32 == <<0, 0, 0, 0, 1, 0, 0, 0>>
P63 == <<0, 0, 0, 0, 0, 0, 0, 128>>     M64 == Ones(8)
\* a length prefix n followed by rem bytes
LenVars(n, rem) == << <<"len-inflated", "n+1", LEInt(n + 1, 8)>>, <<"len-inflated", "remaining", LEInt(rem, 8)>>, <<"len-inflated", "remaining+1", LEInt(rem + 1, 8)>>,
                      <<"len-inflated", "2^31", P31>>, <<"len-inflated", "2^32", P32>>, <<"len-inflated", "2^63", P63>>, <<"len-inflated", "2^64-1", M64>>,
                      <<"len-inflated", "2^64-8", <<248, 255, 255, 255, 255, 255, 255, 255>>>> >> \o
                   (IF n > 0 THEN << <<"len-deflated", "n-1", LEInt(n - 1, 8)>>, <<"len-deflated", "0", Zeros(8)>> >> ELSE <<>>)
CntVars(n) == (IF n < 255 THEN << <<"count-inflated", "n+1", <<n + 1>>>>, <<"count-inflated", "255", <<255>>>> >> ELSE <<>>) \o
              (IF n > 0 THEN << <<"count-deflated", "n-1", <<n - 1>>>> >> ELSE <<>>)
TagVars(t, mx) == << <<"tag-unknown", "max+1", <<mx + 1>>>>, <<"tag-unknown", "255", <<255>>>>, <<"tag-unknown", "128", <<128>>>> >> \o
                  (IF mx >= 7 THEN << <<"tag-unknown", "0", <<0>>>> >> ELSE <<>>)       \* policy opcodes start at 1
\* a v1 currency: u64 length n <= 16, then n magnitude bytes (data)
CurVars(data) == LET n == Len(data) IN
   << <<"currency-overlong", "17-bytes", LEInt(17, 8) \o Ones(17)>>, <<"currency-overlong", "17-no-data", LEInt(17, 8)>>,
      <<"currency-overlong", "255-bytes", LEInt(255, 8) \o Ones(255)>>,
      <<"currency-overlong", "2^32", P32>>, <<"currency-overlong", "2^63", P63>>, <<"currency-overlong", "2^64-1", M64>>,
      <<"currency-leading-zero", "0+data", LEInt(n + 1, 8) \o <<0>> \o data>>, <<"currency-leading-zero", "16-zeros", LEInt(16, 8) \o Zeros(16)>>,
      <<"currency-overlong", "0+16-bytes", LEInt(17, 8) \o <<0>> \o Ones(16)>> >>
U64Vars2 == << <<"u64-extreme", "2^31", P31>>, <<"u64-extreme", "2^32", P32>>, <<"u64-extreme", "2^63", P63>>, <<"u64-extreme", "2^64-1", M64>>, <<"u64-extreme", "2^64-2", <<254>> \o Ones(7)>> >>
SmallU64 == [i \in 1..10 |-> <<"leaf-index", ToString(i - 1), LEInt(i - 1, 8)>>]
HintVars == [i \in 1..10 |-> <<"multiproof-hint", ToString(i - 1), LEInt(i - 1, 8)>>] \o
            << <<"multiproof-hint", "2^63", P63>>, <<"multiproof-hint", "2^64-1", M64>>, <<"multiproof-hint", "2^32", P32>> >>
KindVars(k) == << <<"outline-kind", "3", <<3>>>>, <<"outline-kind", "255", <<255>>>>, <<"outline-kind", "next", <<(k + 1) % 3>>>>, <<"outline-kind", "prev", <<(k + 2) % 3>>>> >>
SpecVars == << <<"specifier-variant", "zeros", Zeros16>>, <<"specifier-variant", "ones", Ones(16)>>, <<"specifier-variant", "ed25519", SpecEd25519>>,
               <<"specifier-variant", "ed25519-unpadded", <<101, 100, 50, 53, 53, 49, 57, 255, 0, 0, 0, 0, 0, 0, 0, 0>>>>,
               <<"specifier-variant", "entropy", <<101, 110, 116, 114, 111, 112, 121, 0, 0, 0, 0, 0, 0, 0, 0, 0>>>> >>
BitmapVars == << <<"bitmap-unknown-bits", "all", M64>>, <<"bitmap-unknown-bits", "bit11", <<0, 8, 0, 0, 0, 0, 0, 0>>>>, <<"bitmap-unknown-bits", "bit63", P63>>,
                 <<"bitmap-unknown-bits", "known-all", <<255, 7, 0, 0, 0, 0, 0, 0>>>>, <<"bitmap-unknown-bits", "none", Zeros(8)>> >>
ConstVars(bs) == << <<"constant-changed", "zeros", Zeros(Len(bs))>>, <<"constant-changed", "ones", Ones(Len(bs))>>, <<"constant-changed", "+1", [i \in 1..Len(bs) |-> (bs[i] + 1) % 256]>> >>
PolicyVars == [i \in 1..Len(Blobs) |-> <<Blobs[i][1], Blobs[i][2], BlobRef(i)>>]
\* m a mark of an encoding b: what replaces it.  Replacements that do not depend on the mark are printed once (FixedVars).
KindName(m) == IF m[3] = "u64" /\ m[6] = "LeafIndex" THEN "leafidx" ELSE IF m[3] = "pres" THEN (IF m[4] = 0 THEN "pres0" ELSE "pres1") ELSE m[3]
PresVars(x) == << <<"presence-invalid", "2", <<2>>>>, <<"presence-invalid", "255", <<255>>>>, <<"presence-flipped", "flip", <<1 - x>>>> >>
FixedVars == [u64 |-> U64Vars2, leafidx |-> U64Vars2 \o SmallU64,
          bool |-> << <<"bool-invalid", "2", <<2>>>>, <<"bool-invalid", "255", <<255>>>> >>,
          pres0 |-> PresVars(0), pres1 |-> PresVars(1),
          u8 |-> << <<"u8-extreme", "255", <<255>>>>, <<"u8-extreme", "0", <<0>>>> >>,
          hint |-> HintVars, spec |-> SpecVars, bitmap |-> BitmapVars, policy |-> PolicyVars]
MarkVars(m, b) ==
  CASE m[3] = "len" -> LenVars(m[4], Len(b) - (m[1] + m[2]))
    [] m[3] = "cnt8" -> CntVars(m[4])
    [] m[3] = "tag" -> TagVars(b[m[1] + 1], m[4])
    [] m[3] = "cur1" -> CurVars(SubSeq(b, m[1] + 9, m[1] + m[2]))
    [] m[3] = "kind" -> KindVars(m[4])
    [] m[3] = "const" -> ConstVars(SubSeq(b, m[1] + 1, m[1] + m[2]))
    [] OTHER -> <<>>          \* see FixedVars[KindName(m)]
Classes == {"len-inflated", "len-deflated", "count-inflated", "count-deflated", "bool-invalid", "presence-invalid", "presence-flipped", "tag-unknown",
            "currency-overlong", "currency-leading-zero", "u64-extreme", "leaf-index", "u8-extreme", "multiproof-hint", "outline-kind", "specifier-variant",
            "bitmap-unknown-bits", "constant-changed", "policy-depth", "policy-deep-wide", "policy-arity", "policy-opcode", "policy-version",
            "truncated", "extended", "all-counts-255"}
\* cut points: every proper prefix of a short encoding; around every mark, the head and the tail of a long one
Cuts(b, ms) == IF Len(b) <= MaxCuts THEN 0..(Len(b) - 1)
               ELSE {k \in (0..24) \cup ((Len(b) - 24)..(Len(b) - 1)) \cup UNION {{ms[i][1], ms[i][1] + 1, ms[i][1] + ms[i][2] - 1, ms[i][1] + ms[i][2]} : i \in 1..Len(ms)} : k >= 0 /\ k < Len(b)}
Tails == << <<"extended", "+00", <<0>>>>, <<"extended", "+ff", <<255>>>>, <<"extended", "+8xff", Ones(8)>>, <<"extended", "+self-length", <<1, 0, 0, 0, 0, 0, 0, 0>>>> >>
\* every one-byte count raised to 255 at once (nested thresholds, each claiming 255 sub-policies)
AllCounts(ms) == SelectSeq(ms, LAMBDA m : m[3] = "cnt8")

\* the number of malformed encodings a shape yields (the harness must arrive at the same number)
VarCount(m, b) == IF MarkVars(m, b) = <<>> THEN Len(FixedVars[KindName(m)]) ELSE Len(MarkVars(m, b))
RECURSIVE SumVars(_, _, _)
SumVars(ms, b, i) == IF i > Len(ms) THEN 0 ELSE VarCount(ms[i], b) + SumVars(ms, b, i + 1)
NumCases(x) == Cardinality(Cuts(x.b, x.m)) + Len(Tails) + SumVars(x.m, x.b, 1) + (IF AllCounts(x.m) = <<>> THEN 0 ELSE 1)

\* ---- emission ---------------------------------------------------------------------
\* SHAPE: type, index, bytes, cuts, marks: one entry per mark <<offset, width, kind, owner, path, variants>>, variant = <<class, name, bytes | blob reference>>
\* (variants empty: those of FixedVars[kind]);  counts: offsets of all one-byte counts;  n: number of cases of the shape
ShapeJson(name, k, x) ==
  ToJson([type |-> name, shape |-> k, bytes |-> x.b, cuts |-> Cuts(x.b, x.m),
          marks |-> [i \in 1..Len(x.m) |-> <<x.m[i][1], x.m[i][2], KindName(x.m[i]), x.m[i][5], x.m[i][6], MarkVars(x.m[i], x.b)>>],
          counts |-> [i \in 1..Len(AllCounts(x.m)) |-> AllCounts(x.m)[i][1]],
          n |-> NumCases(x)])
EmitShape(name, k, v, x) == /\ Assert(x.b = Enc(Schema[name], v), <<"annotated encoding differs from Wire!Enc", name, k>>)
                            /\ PrintT("@@SHAPE " \o ShapeJson(name, k, x))
EmitShapes(name, cs) == /\ \A k \in 1..Len(cs) : EmitShape(name, k, cs[k], TopM(name, cs[k]))
                        /\ PrintT("@@COUNT " \o name \o " " \o ToString(Len(cs)))

\* ---- JSON documents and identifier texts --------------------------------------------
\* An entry <<class, variant, how, n, text>> says what replaces ONE node of a valid JSON document (every node in turn),
\* or the whole text of a valid identifier.  how:
\*   "lit"     the text as it stands                         "hex"       a quoted string of n hex digits
\*   "prefix-hex" the node's own prefix ("addr:", "h:", "ed25519:" ...) then n hex digits     "index-hex"  "7::" then n hex digits
\*   "digits" / "neg-digits" a number of n digits            "str-digits" / "str-neg-digits"  the same, quoted
\*   "str"     a quoted string of n letters                  "arrays" / "objects"  n levels of nesting around null
\*   "policy"  n nested thresh(1,[...]) around above(0)      "policy-arity"  thresh(1,[above(0) x n])
\*   "cut"     the document / text cut at every position     "dupkey" / "delkey" / "addkey"  an object member doubled / removed / added
\*   "repeat"  an array of n copies of the node              "append"    the text appended to the document
\*   "invalid-utf8" / "nul" / "escapes"  strings with such contents
J(class, variant, how, n, text) == <<class, variant, how, n, text>>
JsonCatalogue == <<
  J("json-wrong-type", "null", "lit", 0, "null"), J("json-wrong-type", "true", "lit", 0, "true"), J("json-wrong-type", "0", "lit", 0, "0"), J("json-wrong-type", "-1", "lit", 0, "-1"),
  J("json-wrong-type", "1.5", "lit", 0, "1.5"), J("json-wrong-type", "empty-string", "lit", 0, "\"\""), J("json-wrong-type", "string", "lit", 0, "\"x\""),
  J("json-wrong-type", "empty-array", "lit", 0, "[]"), J("json-wrong-type", "empty-object", "lit", 0, "{}"), J("json-wrong-type", "array-of-null", "lit", 0, "[null]"),
  J("json-wrong-type", "nested-empty-array", "lit", 0, "[[]]"), J("json-wrong-type", "object-empty-key", "lit", 0, "{\"\":null}"),
  J("json-huge-number", "2^63", "lit", 0, "9223372036854775808"), J("json-huge-number", "2^64", "lit", 0, "18446744073709551616"),
  J("json-huge-number", "2^128", "lit", 0, "340282366920938463463374607431768211456"), J("json-huge-number", "1e400", "lit", 0, "1e400"), J("json-huge-number", "1e-400", "lit", 0, "1e-400"),
  J("json-huge-number", "-2^63-1", "lit", 0, "-9223372036854775809"), J("json-huge-number", "digits", "digits", 40, ""), J("json-huge-number", "digits", "digits", 400, ""),
  J("json-huge-number", "digits", "digits", 20000, ""), J("json-huge-number", "quoted-digits", "str-digits", 39, ""), J("json-huge-number", "quoted-digits", "str-digits", 40, ""),
  J("json-huge-number", "quoted-digits", "str-digits", 78, ""), J("json-huge-number", "quoted-digits", "str-digits", 20000, ""), J("json-huge-number", "quoted-digits", "str-digits", 300000, ""),
  J("json-huge-number", "quoted-negative", "str-neg-digits", 40, ""), J("json-huge-number", "quoted-2^128", "lit", 0, "\"340282366920938463463374607431768211456\""),
  J("json-huge-number", "quoted-2^256", "lit", 0, "\"115792089237316195423570985008687907853269984665640564039457584007913129639936\""),
  J("json-huge-number", "quoted-exponent", "lit", 0, "\"1e1000000000\""), J("json-huge-number", "quoted-hex", "lit", 0, "\"0xffffffffffffffffffffffffffffffffffffffffffffffffffffffffffffffffffff\""),
  J("json-huge-number", "quoted-unit", "lit", 0, "\"340282366920938463463374607431768211456 TS\""), J("json-huge-number", "quoted-fraction", "lit", 0, "\"0.0000000000000000000000000000000000001 SC\""),
  J("json-number-exponent", "quoted-exponent-unit", "lit", 0, "\"1e300000 SC\""),
  J("json-number-exponent", "quoted-exponent", "lit", 0, "\"1e300000\""),
  J("json-long-hex", "hex", "hex", 0, ""), J("json-long-hex", "hex", "hex", 1, ""), J("json-long-hex", "hex", "hex", 15, ""), J("json-long-hex", "hex", "hex", 16, ""), J("json-long-hex", "hex", "hex", 17, ""),
  J("json-long-hex", "hex", "hex", 31, ""), J("json-long-hex", "hex", "hex", 32, ""), J("json-long-hex", "hex", "hex", 33, ""), J("json-long-hex", "hex", "hex", 63, ""), J("json-long-hex", "hex", "hex", 64, ""),
  J("json-long-hex", "hex", "hex", 65, ""), J("json-long-hex", "hex", "hex", 66, ""), J("json-long-hex", "hex", "hex", 76, ""), J("json-long-hex", "hex", "hex", 77, ""), J("json-long-hex", "hex", "hex", 128, ""),
  J("json-long-hex", "hex", "hex", 129, ""), J("json-long-hex", "hex", "hex", 130, ""), J("json-long-hex", "hex", "hex", 1000, ""), J("json-long-hex", "hex", "hex", 100001, ""),
  J("json-long-hex", "prefixed", "prefix-hex", 0, ""), J("json-long-hex", "prefixed", "prefix-hex", 63, ""), J("json-long-hex", "prefixed", "prefix-hex", 65, ""), J("json-long-hex", "prefixed", "prefix-hex", 66, ""),
  J("json-long-hex", "prefixed", "prefix-hex", 76, ""), J("json-long-hex", "prefixed", "prefix-hex", 78, ""), J("json-long-hex", "prefixed", "prefix-hex", 128, ""), J("json-long-hex", "prefixed", "prefix-hex", 130, ""),
  J("json-long-hex", "prefixed", "prefix-hex", 1000, ""), J("json-long-hex", "non-hex", "lit", 0, "\"zz00000000000000000000000000000000000000000000000000000000000000\""),
  J("json-long-hex", "index-form", "index-hex", 64, ""), J("json-long-hex", "index-form", "index-hex", 66, ""), J("json-long-hex", "index-form", "index-hex", 1000, ""),
  J("json-long-hex", "index-form-no-height", "lit", 0, "\"::00\""), J("json-long-hex", "index-form-3-parts", "lit", 0, "\"1::2::3\""),
  J("json-long-string", "letters", "str", 17, ""), J("json-long-string", "letters", "str", 1000, ""), J("json-long-string", "letters", "str", 1000000, ""),
  J("json-long-string", "escapes", "escapes", 1000, ""), J("json-long-string", "invalid-utf8", "invalid-utf8", 0, ""), J("json-long-string", "nul", "nul", 0, ""),
  J("json-deep-nesting", "arrays", "arrays", 100, ""), J("json-deep-nesting", "arrays", "arrays", 9999, ""), J("json-deep-nesting", "arrays", "arrays", 10001, ""), J("json-deep-nesting", "arrays", "arrays", 200000, ""),
  J("json-deep-nesting", "objects", "objects", 100, ""), J("json-deep-nesting", "objects", "objects", 10001, ""), J("json-deep-nesting", "objects", "objects", 100000, ""),
  J("json-deep-nesting", "policy-thresholds", "policy", 33, ""), J("json-deep-nesting", "policy-thresholds", "policy", 1000, ""), J("json-deep-nesting", "policy-thresholds", "policy", 100000, ""),
  J("json-policy-text", "unterminated", "lit", 0, "\"thresh(1,[thresh(1,[\""), J("json-policy-text", "arity", "policy-arity", 256, ""), J("json-policy-text", "arity", "policy-arity", 70000, ""),
  J("json-policy-text", "n-300", "lit", 0, "\"thresh(300,[above(0)])\""), J("json-policy-text", "unknown", "lit", 0, "\"frob(1)\""),
  J("json-policy-text", "uc-huge-count", "lit", 0, "\"uc(0,[],18446744073709551616)\""), J("json-policy-text", "unbalanced", "lit", 0, "\"thresh(1,[above(0)]))))\""),
  J("json-policy-text", "empty-args", "lit", 0, "\"thresh(,[])\""), J("json-policy-text", "above-huge", "lit", 0, "\"above(18446744073709551616)\""),
  J("json-policy-text", "pk-long", "lit", 0, "\"pk(0x000000000000000000000000000000000000000000000000000000000000000000)\""),
  J("json-structure", "truncated", "cut", 0, ""), J("json-structure", "duplicate-key", "dupkey", 0, ""), J("json-structure", "missing-key", "delkey", 0, ""), J("json-structure", "unknown-key", "addkey", 0, ""),
  J("json-structure", "array-of-copies", "repeat", 1000, ""), J("json-structure", "trailing-garbage", "append", 0, "}]garbage") >>
TextCatalogue == <<
  J("text-length", "empty", "lit", 0, ""), J("text-length", "cut", "cut", 0, ""), J("text-length", "hex", "hex", 1, ""), J("text-length", "hex", "hex", 63, ""), J("text-length", "hex", "hex", 64, ""),
  J("text-length", "hex", "hex", 65, ""), J("text-length", "hex", "hex", 66, ""), J("text-length", "hex", "hex", 76, ""), J("text-length", "hex", "hex", 128, ""), J("text-length", "hex", "hex", 130, ""),
  J("text-length", "hex", "hex", 1000, ""), J("text-length", "hex", "hex", 1000001, ""),
  J("text-length", "prefixed", "prefix-hex", 0, ""), J("text-length", "prefixed", "prefix-hex", 1, ""), J("text-length", "prefixed", "prefix-hex", 63, ""), J("text-length", "prefixed", "prefix-hex", 65, ""),
  J("text-length", "prefixed", "prefix-hex", 66, ""), J("text-length", "prefixed", "prefix-hex", 76, ""), J("text-length", "prefixed", "prefix-hex", 77, ""), J("text-length", "prefixed", "prefix-hex", 128, ""),
  J("text-length", "prefixed", "prefix-hex", 130, ""), J("text-length", "prefixed", "prefix-hex", 1000, ""), J("text-length", "prefixed", "prefix-hex", 100000, ""),
  J("text-length", "index-form", "index-hex", 0, ""), J("text-length", "index-form", "index-hex", 63, ""), J("text-length", "index-form", "index-hex", 65, ""), J("text-length", "index-form", "index-hex", 66, ""),
  J("text-length", "index-form", "index-hex", 128, ""), J("text-length", "index-form", "index-hex", 1000, ""),
  J("text-number", "digits", "digits", 39, ""), J("text-number", "digits", "digits", 40, ""), J("text-number", "digits", "digits", 78, ""), J("text-number", "digits", "digits", 79, ""),
  J("text-number", "digits", "digits", 1000, ""), J("text-number", "digits", "digits", 100000, ""), J("text-number", "digits", "digits", 300000, ""), J("text-number", "negative", "neg-digits", 5, ""),
  J("text-number", "hex-form", "lit", 0, "0x1f"), J("text-number", "exponent", "lit", 0, "1e5"), J("text-number", "huge-exponent", "lit", 0, "1e1000000000"), J("text-number", "unit", "lit", 0, "1 SC"),
  J("text-number", "huge-unit", "lit", 0, "340282366920938463463374607431768211456 TS"), J("text-number", "fraction", "lit", 0, "1.5"), J("text-number", "tiny-fraction", "lit", 0, "0.0000000000000000000000000000000000001 SC"),
  J("text-number-exponent", "exponent-unit", "lit", 0, "1e300000 SC"),
  J("text-number-exponent", "exponent", "lit", 0, "1e300000"),
  J("text-number", "underscores", "lit", 0, "1_000"), J("text-number", "sign-only", "lit", 0, "-"), J("text-number", "plus", "lit", 0, "+1"), J("text-number", "2^256", "lit", 0, "115792089237316195423570985008687907853269984665640564039457584007913129639936"),
  J("text-chars", "non-hex", "lit", 0, "zz00000000000000000000000000000000000000000000000000000000000000"), J("text-chars", "colon-only", "lit", 0, ":"), J("text-chars", "double-colon", "lit", 0, "::"),
  J("text-chars", "prefix-only", "prefix-hex", 0, ""), J("text-chars", "wrong-prefix", "lit", 0, "xyz:0000000000000000000000000000000000000000000000000000000000000000"),
  J("text-chars", "invalid-utf8", "invalid-utf8", 0, ""), J("text-chars", "nul", "nul", 0, ""), J("text-chars", "quote", "lit", 0, "\"\"\""),
  J("text-chars", "version-4-parts", "lit", 0, "1.2.3.4"), J("text-chars", "version-huge", "lit", 0, "4294967296.0.0"), J("text-chars", "version-negative", "lit", 0, "-1.0.0"),
  J("text-chars", "letters", "str", 17, ""), J("text-chars", "letters", "str", 100000, "") >>

\* (the variables ty, done are those of WireEnum)
MInit == /\ ty = "" /\ done = FALSE
         /\ PrintT("@@BLOBS " \o ToJson(Blobs))
         /\ PrintT("@@JSONCAT " \o ToJson(JsonCatalogue))
         /\ PrintT("@@TEXTCAT " \o ToJson(TextCatalogue))
         /\ PrintT("@@CLASSES " \o ToJson(Classes))
         /\ PrintT("@@FIXED " \o ToJson(FixedVars))
         /\ PrintT("@@TAILS " \o ToJson(Tails))
MNext == \/ /\ ty = "" /\ ty' \in Only /\ done' = FALSE
         \/ /\ ty # "" /\ ~done
            /\ EmitShapes(ty, Shapes(ty))
            /\ done' = TRUE /\ UNCHANGED ty
AllLines == DOMAIN Schema
MSpec == MInit /\ [][MNext]_<<ty, done>>
=============================================================================
