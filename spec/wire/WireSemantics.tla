--------------------------- MODULE WireSemantics ---------------------------
(* SEMANTIC layouts: for every object that is hashed into an identifier or a
   signature hash, the line says which members are part of the pre-image.

   The rule (property C12): EVERYTHING THAT HAS AN EFFECT on the ledger is in
   the pre-image, NOTHING THAT IS A WITNESS is.  A witness is a datum whose
   only role is to convince a validator that the effect is authorised or that
   an element exists: signatures, satisfied policies, Merkle proofs and leaf
   positions of parent elements, and the restated contents of a parent element
   (the parent's ID already determines them).

   The lines are written in the codec language of WireCodec with three
   conventions:
     NT(why)                    the member is a witness: not in the pre-image
     F("_x", Const(zeros))      a witness slot that the layout keeps, filled
                                with zeros ("blanked")
     Untagged(Union(..))        the variant's body without a tag byte
   Member names are those of the in-memory objects, so the harness walks an
   object and its semantic line in lock-step (wirebridge.Leaves): a leaf under
   a codec is EFFECT-BEARING (changing it alone must change the hash), a leaf
   under NT is a WITNESS (changing it alone must not).  That classification is
   the table of direction A; it is read from these lines, not restated in Go. *)
EXTENDS WireCodec, TLC

Witness(why) == NT(why)
Zeros(n) == [i \in 1..n |-> 0]
BlankSig == Const(Zeros(64))                     \* a signature slot, blanked
EmptyList == Const(Zeros(8))                     \* a list slot, emptied (count 0)
Untagged(u) == [k |-> "union", vs |-> u.vs, untagged |-> TRUE]

\* ---- parents: only the identity of a spent / revised / resolved element is an effect -----------
SemStateElement == Struct(<<
    F("LeafIndex", Witness("position of the parent in the accumulator")),
    F("MerkleProof", Witness("membership proof of the parent")),
    F("shared", NT("in-memory ownership flag"))>>)
SemSiacoinParent == Struct(<<
    F("StateElement", SemStateElement), F("ID", H32),
    F("SiacoinOutput", Struct(<<F("Value", Witness("restated parent content")), F("Address", Witness("restated parent content"))>>)),
    F("MaturityHeight", Witness("restated parent content"))>>)
SemSiafundParent == Struct(<<
    F("StateElement", SemStateElement), F("ID", H32),
    F("SiafundOutput", Struct(<<F("Value", Witness("restated parent content")), F("Address", Witness("restated parent content"))>>)),
    F("ClaimStart", Witness("restated parent content"))>>)
SemContractParent == Struct(<<
    F("StateElement", SemStateElement), F("ID", H32),
    F("V2FileContract", Witness("restated parent content"))>>)

\* ---- v2 ------------------------------------------------------------------------------------------
SemV2SiacoinInput == Struct(<<F("Parent", SemSiacoinParent), F("SatisfiedPolicy", Witness("authorisation of the spend"))>>)
\* the claim address decides who is paid the accrued siafund claim: it is an effect
SemV2SiafundInput == Struct(<<F("Parent", SemSiafundParent), F("ClaimAddress", H32), F("SatisfiedPolicy", Witness("authorisation of the spend"))>>)
\* a contract, with both signature slots blanked
SemV2Contract == Struct(<<
    F("Capacity", U64), F("Filesize", U64), F("FileMerkleRoot", H32), F("ProofHeight", U64), F("ExpirationHeight", U64),
    F("RenterOutput", Ref("V2SiacoinOutput")), F("HostOutput", Ref("V2SiacoinOutput")), F("MissedHostValue", CurV2), F("TotalCollateral", CurV2),
    F("RenterPublicKey", H32), F("HostPublicKey", H32), F("RevisionNumber", U64),
    F("RenterSignature", Witness("renter's authorisation")), F("_renterSignature", BlankSig),
    F("HostSignature", Witness("host's authorisation")), F("_hostSignature", BlankSig)>>)
SemV2Revision == Struct(<<F("Parent", SemContractParent), F("Revision", SemV2Contract)>>)
SemV2Renewal == Struct(<<
    F("FinalRenterOutput", Ref("V2SiacoinOutput")), F("FinalHostOutput", Ref("V2SiacoinOutput")),
    F("RenterRollover", CurV2), F("HostRollover", CurV2), F("NewContract", SemV2Contract),
    F("RenterSignature", Witness("renter's authorisation")), F("_renterSignature", BlankSig),
    F("HostSignature", Witness("host's authorisation")), F("_hostSignature", BlankSig)>>)
\* a storage proof names the block it answers to (leaf position, id, chain index; the membership proof of that
\* block is a witness and its slot is emptied) and carries the proved segment and its path
SemV2StorageProof == Struct(<<
    F("ProofIndex", Struct(<<
        F("StateElement", Struct(<<F("LeafIndex", U64), F("MerkleProof", Witness("membership proof of the proof-index block")),
                                   F("_merkleProof", EmptyList), F("shared", NT("in-memory ownership flag"))>>)),
        F("ID", H32), F("ChainIndex", Ref("ChainIndex"))>>)),
    F("Leaf", Fixed(64)), F("Proof", Slice(H32))>>)
SemV2Resolution == Struct(<<
    F("Parent", SemContractParent),
    F("Resolution", Untagged(Union(<< <<"V2FileContractRenewal", 0, SemV2Renewal>>, <<"V2StorageProof", 1, SemV2StorageProof>>,
                                     <<"V2FileContractExpiration", 2, Struct(<<>>)>> >>)))>>)
\* the attestation as its signer signs it: signature slot blanked
SemAttestationUnsigned == Struct(<<F("PublicKey", H32), F("Key", Str), F("Value", Bytes),
    F("Signature", Witness("attester's authorisation")), F("_signature", BlankSig)>>)

SemanticSchema == [
  \* v1: everything but the signatures (member order is the wire order)
  Sem_Transaction |-> Struct(<<
      F("SiacoinInputs", Slice(Ref("SiacoinInput"))), F("SiacoinOutputs", Slice(Ref("V1SiacoinOutput"))),
      F("FileContracts", Slice(Ref("FileContract"))), F("FileContractRevisions", Slice(Ref("FileContractRevision"))),
      F("StorageProofs", Slice(Ref("StorageProof"))), F("SiafundInputs", Slice(Ref("SiafundInput"))),
      F("SiafundOutputs", Slice(Ref("V1SiafundOutput"))), F("MinerFees", Slice(CurV1)), F("ArbitraryData", Slice(Bytes)),
      F("Signatures", Witness("authorisation of the inputs and revisions"))>>),
  \* v2: all members, always present (no bitmap), inputs / revisions / resolutions reduced to their effect
  Sem_V2Transaction |-> Struct(<<
      F("SiacoinInputs", Slice(SemV2SiacoinInput)), F("SiacoinOutputs", Slice(Ref("V2SiacoinOutput"))),
      F("SiafundInputs", Slice(SemV2SiafundInput)), F("SiafundOutputs", Slice(Ref("V2SiafundOutput"))),
      F("FileContracts", Slice(SemV2Contract)), F("FileContractRevisions", Slice(SemV2Revision)),
      F("FileContractResolutions", Slice(SemV2Resolution)), F("Attestations", Slice(Ref("Attestation"))),
      F("ArbitraryData", Bytes), F("NewFoundationAddress", Opt(H32)), F("MinerFee", CurV2)>>),
  Sem_V2FileContract |-> SemV2Contract,
  Sem_V2FileContractRenewal |-> SemV2Renewal,
  Sem_Attestation |-> SemAttestationUnsigned
]
=============================================================================
