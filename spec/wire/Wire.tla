------------------------------- MODULE Wire -------------------------------
(* Interpreter of the codec combinator language (WireCodec) over the schema
   lines of all packages:  Enc(c, v) is the byte sequence the protocol
   prescribes for abstract value v under codec c.
   Direction B: the harness logs (type, abstract value, bytes produced by the
   real encoder) and WireTrace checks bytes = Enc(Schema[type], value).
   Direction A: WireEnum enumerates small shapes (Base / Vars) of every schema
   line and emits (type, value, Enc) for the real decoder.                  *)
EXTENDS WireTypes, WireConsensus, WireGateway, WireRHP4, WireRHP2, WireRHP3, FiniteSets

Schema == TypesSchema @@ ConsensusSchema @@ GatewaySchema @@ RHP4Schema @@ RHP2Schema @@ RHP3Schema

\* ---- bytes ------------------------------------------------------------------
RECURSIVE LEInt(_, _)
LEInt(n, w) == IF w = 0 THEN <<>> ELSE <<n % 256>> \o LEInt(n \div 256, w - 1)   \* small integer, w bytes, little-endian
WordLE(x) == <<x % 256, x \div 256>>
WordBE(x) == <<x \div 256, x % 256>>
\* 64-bit number as <<w3,w2,w1,w0>> -> 8 bytes little-endian
LE64(w) == WordLE(w[4]) \o WordLE(w[3]) \o WordLE(w[2]) \o WordLE(w[1])
RECURSIVE ConcatWords(_, _)
ConcatWords(ws, i) == IF i > Len(ws) THEN <<>> ELSE WordBE(ws[i]) \o ConcatWords(ws, i + 1)   \* big-endian bytes
RECURSIVE TrimLeft(_)
TrimLeft(s) == IF Len(s) > 0 /\ s[1] = 0 THEN TrimLeft(Tail(s)) ELSE s
RECURSIVE Concat(_, _)
Concat(ss, i) == IF i > Len(ss) THEN <<>> ELSE ss[i] \o Concat(ss, i + 1)
Cat(ss) == Concat(ss, 1)
V1Amount(ws) == LET t == TrimLeft(ConcatWords(ws, 1)) IN LEInt(Len(t), 8) \o t
RECURSIVE Get(_, _)
Get(v, p) == IF p = <<>> THEN v ELSE Get(v[Head(p)], Tail(p))
\* bit h (0..63) of a 64-bit number
Pow2(n) == CASE n = 0 -> 1 [] n = 1 -> 2 [] n = 2 -> 4 [] n = 3 -> 8 [] n = 4 -> 16 [] n = 5 -> 32 [] n = 6 -> 64 [] n = 7 -> 128
             [] n = 8 -> 256 [] n = 9 -> 512 [] n = 10 -> 1024 [] n = 11 -> 2048 [] n = 12 -> 4096 [] n = 13 -> 8192 [] n = 14 -> 16384 [] n = 15 -> 32768
Bit(w, h) == (w[4 - (h \div 16)] \div Pow2(h % 16)) % 2
LenWords(n) == <<0, 0, n \div 65536, n % 65536>>      \* a small length as a 64-bit number
AllOnes64 == <<65535, 65535, 65535, 65535>>
\* number of previous-block timestamps a state at this height carries: min(height + 1 mod 2^64, 11)
NumTimestamps(h) == IF h = AllOnes64 THEN 0 ELSE IF h[1] = 0 /\ h[2] = 0 /\ h[3] = 0 /\ h[4] < 10 THEN h[4] + 1 ELSE 11

\* ---- multiproofs (types/multiproof.go, protocol description) ------------------
\* LeafIndex of an element that is not in the accumulator yet ("ephemeral"): 10101010101010101010
Unassigned == <<35885, 65323, 24406, 62226>>
SE(x) == x.StateElement
LeafOf(se) == IF se.LeafIndex = Unassigned THEN <<>> ELSE <<[idx |-> se.LeafIndex, proof |-> se.MerkleProof]>>
\* the accumulator leaves a transaction refers to, in protocol order
TxnLeaves(t) ==
  Cat([i \in 1..Len(t.SiacoinInputs) |-> LeafOf(SE(t.SiacoinInputs[i].Parent))]) \o
  Cat([i \in 1..Len(t.SiafundInputs) |-> LeafOf(SE(t.SiafundInputs[i].Parent))]) \o
  Cat([i \in 1..Len(t.FileContractRevisions) |-> LeafOf(SE(t.FileContractRevisions[i].Parent))]) \o
  Cat([i \in 1..Len(t.FileContractResolutions) |-> LET r == t.FileContractResolutions[i] IN
        LeafOf(SE(r.Parent)) \o (IF r.Resolution.tag = "V2StorageProof" THEN LeafOf(SE(r.Resolution.v.ProofIndex)) ELSE <<>>)])
StripSE(se) == IF se.LeafIndex = Unassigned THEN se ELSE [se EXCEPT !.MerkleProof = <<>>]
StripParent(x) == [x EXCEPT !.Parent.StateElement = StripSE(@)]
StripRes(r) == LET p == StripParent(r) IN
  IF r.Resolution.tag = "V2StorageProof" THEN [p EXCEPT !.Resolution.v.ProofIndex.StateElement = StripSE(@)] ELSE p
StripTxn(t) == [t EXCEPT
  !.SiacoinInputs = LET s == @ IN [i \in 1..Len(s) |-> StripParent(s[i])],
  !.SiafundInputs = LET s == @ IN [i \in 1..Len(s) |-> StripParent(s[i])],
  !.FileContractRevisions = LET s == @ IN [i \in 1..Len(s) |-> StripParent(s[i])],
  !.FileContractResolutions = LET s == @ IN [i \in 1..Len(s) |-> StripRes(s[i])]]
\* leaf-count hint: OR over the leaves of (index with the low h bits cleared, bit h set), h = proof length
HintBit(ls, b) == IF \E i \in 1..Len(ls) : LET h == Len(ls[i].proof) IN (b = h \/ (b > h /\ Bit(ls[i].idx, b) = 1)) THEN 1 ELSE 0
HintBytes(ls) == [j \in 1..8 |-> LET b0 == 8 * (j - 1) IN
   HintBit(ls, b0) + 2 * HintBit(ls, b0 + 1) + 4 * HintBit(ls, b0 + 2) + 8 * HintBit(ls, b0 + 3) + 16 * HintBit(ls, b0 + 4)
   + 32 * HintBit(ls, b0 + 5) + 64 * HintBit(ls, b0 + 6) + 128 * HintBit(ls, b0 + 7)]
LessW(a, b) == \E i \in 1..4 : a[i] < b[i] /\ \A j \in 1..(i - 1) : a[j] = b[j]
RECURSIVE InsertLeaf(_, _), SortLeaves(_)
InsertLeaf(s, x) == IF s = <<>> THEN <<x>> ELSE IF LessW(x.idx, Head(s).idx) THEN <<x>> \o s ELSE <<Head(s)>> \o InsertLeaf(Tail(s), x)
SortLeaves(s) == IF s = <<>> THEN <<>> ELSE InsertLeaf(SortLeaves(Tail(s)), Head(s))
\* the proof hashes of one tree of height h: walk the tree; an empty half is represented by its root,
\* which is entry h of the proof of the first leaf of the other half
RECURSIVE TreeProof(_, _)
TreeProof(h, ls) == IF h = 0 THEN <<>> ELSE
  LET left == SelectSeq(ls, LAMBDA l : Bit(l.idx, h - 1) = 0)
      right == SelectSeq(ls, LAMBDA l : Bit(l.idx, h - 1) = 1) IN
  (IF left = <<>> THEN <<right[1].proof[h]>> ELSE TreeProof(h - 1, left)) \o
  (IF right = <<>> THEN <<left[1].proof[h]>> ELSE TreeProof(h - 1, right))
ProofHashes(ls) == Cat([h1 \in 1..64 |-> LET at == SortLeaves(SelectSeq(ls, LAMBDA l : Len(l.proof) = h1 - 1)) IN
                          IF at = <<>> THEN <<>> ELSE Cat(TreeProof(h1 - 1, at))])

Zeros16 == [i \in 1..16 |-> 0]
SpecEd25519 == <<101, 100, 50, 53, 53, 49, 57, 0, 0, 0, 0, 0, 0, 0, 0, 0>>     \* "ed25519"
Framed(tag, body) == tag \o LEInt(Len(body), 8) \o body

\* ---- the interpreter ----------------------------------------------------------
RECURSIVE Enc(_, _), FieldEnc(_, _), BitmapEnc(_, _), MultiproofEnc(_, _)
Present(rule, x) == CASE rule = "nonempty" -> x # <<>> [] rule = "some" -> x # <<>> [] rule = "nonzero" -> \E i \in 1..Len(x) : x[i] # 0
BitmapEnc(fs, v) ==
  LET on == [i \in 1..Len(fs) |-> Present(fs[i][3], v[fs[i][1]])]
      RECURSIVE Mask(_)
      Mask(i) == IF i > Len(fs) THEN 0 ELSE (IF on[i] THEN 1 ELSE 0) + 2 * Mask(i + 1)
  IN LEInt(Mask(1), 8) \o
     Cat([i \in 1..Len(fs) |-> IF ~on[i] THEN <<>>
                               ELSE IF fs[i][3] = "some" THEN Enc(fs[i][2].e, v[fs[i][1]][1])
                               ELSE Enc(fs[i][2], v[fs[i][1]])])
MultiproofEnc(e, txns) ==
  LET ls == Cat([i \in 1..Len(txns) |-> TxnLeaves(txns[i])]) IN
  LEInt(Len(txns), 8) \o Cat([i \in 1..Len(txns) |-> Enc(e, StripTxn(txns[i]))]) \o HintBytes(ls) \o ProofHashes(ls)
\* one member of a struct; v is the whole struct value (layouts that depend on a sibling member read it from v)
FieldEnc(f, v) == LET c == f[2] IN
  CASE c.k = "nt" -> <<>>
    [] c.k = "const" -> c.bs
    [] c.k = "bitmap" -> BitmapEnc(c.fs, v)
    [] c.k = "timestamps" -> LET n == NumTimestamps(Get(v, c.ctl)) IN Cat([i \in 1..n |-> LE64(v[f[1]][i])])
    [] c.k = "raw" -> IF Get(v, c.ctl) = LenWords(Len(v[f[1]])) THEN v[f[1]] ELSE <<"length member does not match">>
    [] c.k = "masked" -> LET m == Get(v, c.ctl) IN Cat([i \in 1..64 |-> IF Bit(m, i - 1) = 1 THEN Enc(c.e, v[f[1]][i]) ELSE <<>>])
    [] OTHER -> Enc(c, v[f[1]])
KindByte(tag) == CASE tag = "Transaction" -> 0 [] tag = "V2Transaction" -> 1 [] tag = "Hash" -> 2
Enc(c, v) ==
  CASE c.k = "u8" -> <<v>>
    [] c.k = "u64" -> LE64(v)
    [] c.k = "time" -> LE64(v)
    [] c.k = "bool" -> <<IF v THEN 1 ELSE 0>>
    [] c.k = "fixed" -> IF Len(v) = c.n THEN v ELSE <<"wrong length">>
    [] c.k = "lfixed" -> IF Len(v) = c.n THEN LEInt(c.n, 8) \o v ELSE <<"wrong length">>
    [] c.k = "bytes" -> LEInt(Len(v), 8) \o v
    [] c.k = "str" -> LEInt(Len(v), 8) \o v
    [] c.k = "curv1" -> V1Amount(v)
    [] c.k = "curv1u64" -> V1Amount(v)
    [] c.k = "curv2" -> LE64(SubSeq(v, 5, 8)) \o LE64(SubSeq(v, 1, 4))
    [] c.k = "slice" -> LEInt(Len(v), 8) \o Cat([i \in 1..Len(v) |-> Enc(c.e, v[i])])
    [] c.k = "slicen" -> <<Len(v)>> \o Cat([i \in 1..Len(v) |-> Enc(c.e, v[i])])
    [] c.k = "opt" -> IF v = <<>> THEN <<0>> ELSE <<1>> \o Enc(c.e, v[1])
    [] c.k = "ref" -> Enc(Schema[c.name], v)
    [] c.k = "struct" -> Cat([i \in 1..Len(c.fs) |-> FieldEnc(c.fs[i], v)])
    [] c.k = "union" -> LET i == CHOOSE i \in 1..Len(c.vs) : c.vs[i][1] = v.tag IN <<c.vs[i][2]>> \o Enc(c.vs[i][3], v.v)
    [] c.k = "tframed" -> LET i == CHOOSE i \in 1..Len(c.vs) : c.vs[i][1] = v.tag IN Framed(c.vs[i][2], Enc(c.vs[i][3], v.v))
    [] c.k = "account3" -> IF \A i \in 1..32 : v[i] = 0 THEN Zeros16 \o LEInt(0, 8) ELSE SpecEd25519 \o LEInt(32, 8) \o v
    [] c.k = "errstr" -> LEInt(Len(v), 8) \o v
    [] c.k = "multiproof" -> MultiproofEnc(c.e, v)
    [] c.k = "outline" ->
         LET pick(tag) == SelectSeq(v, LAMBDA x : x.tag = tag)
             t1 == pick("Transaction")  t2 == pick("V2Transaction")  hs == pick("Hash") IN
         LEInt(Len(t1), 8) \o Cat([i \in 1..Len(t1) |-> Enc(c.t1, t1[i].v)]) \o
         MultiproofEnc(c.t2, [i \in 1..Len(t2) |-> t2[i].v]) \o
         LEInt(Len(hs), 8) \o Cat([i \in 1..Len(hs) |-> hs[i].v]) \o
         [i \in 1..Len(v) |-> KindByte(v[i].tag)]
=============================================================================
