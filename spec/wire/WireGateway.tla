---------------------------- MODULE WireGateway ----------------------------
(* Protocol layout of the gateway handshake header, the block outline and the
   request / response halves of every RPC object.  An RPC object holds both
   halves in one in-memory object; the members of the other half are marked
   not transmitted in each line.                                           *)
EXTENDS WireCodec, TLC
LOCAL Resp == NT("member of the response half")
LOCAL Req == NT("member of the request half")
LOCAL None == NT("this half is empty")

GatewaySchema == [
  gateway_Header |-> Struct(<<F("GenesisID", H32), F("UniqueID", Fixed(8)), F("NetAddress", Str)>>),
  gateway_V2BlockOutline |-> Struct(<<F("Height", U64), F("ParentID", H32), F("Nonce", U64), F("Timestamp", Time), F("MinerAddress", H32),
      F("Transactions", Outline(Ref("Transaction"), Ref("V2Transaction")))>>),
  gateway_RPCShareNodes_Response |-> Struct(<<F("emptyRequest", None), F("Peers", Slice(Str))>>),
  gateway_RPCDiscoverIP_Response |-> Struct(<<F("emptyRequest", None), F("IP", Str)>>),
  gateway_RPCSendHeaders_Request |-> Struct(<<F("Index", Ref("ChainIndex")), F("Max", U64), F("Headers", Resp), F("Remaining", Resp)>>),
  gateway_RPCSendHeaders_Response |-> Struct(<<F("Index", Req), F("Max", Req), F("Headers", Slice(Ref("BlockHeader"))), F("Remaining", U64)>>),
  gateway_RPCSendV2Blocks_Request |-> Struct(<<F("History", Slice(H32)), F("Max", U64), F("Blocks", Resp), F("Remaining", Resp)>>),
  gateway_RPCSendV2Blocks_Response |-> Struct(<<F("History", Req), F("Max", Req), F("Blocks", Slice(Ref("V2Block"))), F("Remaining", U64)>>),
  gateway_RPCSendTransactions_Request |-> Struct(<<F("Index", Ref("ChainIndex")), F("Hashes", Slice(H32)), F("Transactions", Resp), F("V2Transactions", Resp)>>),
  gateway_RPCSendTransactions_Response |-> Struct(<<F("Index", Req), F("Hashes", Req), F("Transactions", Slice(Ref("Transaction"))),
      F("V2Transactions", Slice(Ref("V2Transaction")))>>),
  gateway_RPCSendCheckpoint_Request |-> Struct(<<F("Index", Ref("ChainIndex")), F("Block", Resp), F("State", Resp)>>),
  gateway_RPCSendCheckpoint_Response |-> Struct(<<F("Index", Req), F("Block", Ref("V2Block")), F("State", Ref("consensus_State"))>>),
  gateway_RPCRelayV2Header_Request |-> Struct(<<F("Header", Ref("BlockHeader")), F("emptyResponse", None)>>),
  gateway_RPCRelayV2BlockOutline_Request |-> Struct(<<F("Block", Ref("gateway_V2BlockOutline")), F("emptyResponse", None)>>),
  gateway_RPCRelayV2TransactionSet_Request |-> Struct(<<F("Index", Ref("ChainIndex")), F("Transactions", Slice(Ref("V2Transaction"))), F("emptyResponse", None)>>)
]
=============================================================================
