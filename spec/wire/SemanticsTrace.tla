--------------------------- MODULE SemanticsTrace ---------------------------
(* Every line of the trace is one request logged by the harness: the kind of
   identifier / signature hash and the abstract value(s) it is derived from.
   TLC answers with the value the protocol prescribes, as a term
   (Semantics!Value); the harness evaluates the term with the real BLAKE2b
   and compares with what the code under test returned for the same object.
   Lines are independent: chunked parallel evaluation (TraceLib).            *)
EXTENDS Semantics, TraceLib, Json
Trace == ndJsonDeserialize("trace.ndjson")
NLines == Len(Trace)

Line(l) == PrintT("@@PRE " \o ToString(l) \o " " \o ToJson(Value(Trace[l])))

VARIABLES chunk, pos
Init == chunk = 0 /\ pos = 0
Last(c) == IF c * TL_ChunkSize < NLines THEN c * TL_ChunkSize ELSE NLines
Next == \/ /\ chunk = 0
           /\ chunk' \in 1..NChunks(NLines)
           /\ pos' = (chunk' - 1) * TL_ChunkSize + 1
        \/ /\ chunk > 0 /\ pos <= Last(chunk)
           /\ Line(pos)
           /\ pos' = pos + 1 /\ UNCHANGED chunk
Spec == Init /\ [][Next]_<<chunk, pos>>
=============================================================================
