------------------------------ MODULE WireDump ------------------------------
(* Exports the schema (all lines, as JSON) so that the harness walks the
   in-memory objects in lock-step with the very lines TLC interprets.        *)
EXTENDS Wire, Json
VARIABLE done
Init == done = FALSE
Next == ~done /\ done' = TRUE /\ PrintT("@@SCHEMA " \o ToJson(Schema))
Spec == Init /\ [][Next]_done
=============================================================================
