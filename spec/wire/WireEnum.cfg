SPECIFICATION Spec
CONSTANT Depth = 8
CHECK_DEADLOCK FALSE
