--------------------------- MODULE SemanticsCurrent ---------------------------
(* Every identifier / signature hash is a function of the CURRENT CONTENT of
   its argument (property C12: "a block's ID binds its entire content, so any
   LATER change to a block's content is rejected or yields a different ID";
   identifiers "change whenever any effect-bearing field changes").

   SemanticsPure speaks about what OTHER calls did before (pools of hashers
   shared between all values).  This module speaks about what was done before
   TO THE VALUE ITSELF: it was hashed, encoded, validated, copied - and THEN
   changed.  The value of a call is H(pre-image of the content the argument
   has NOW) (Semantics!Value), whatever was computed from the argument before.

   Why this needs a state machine: an object in memory is more than its
   members.  An implementation may carry along a MEMO (an unexported cell
   beside the members: a cached root, an encoded form, a "verified" mark)
   that a use fills and a later use consults.  The protocol knows nothing of
   it; whether it may be consulted is decided by what the implementation can
   see of the changes, and in memory a change comes in different forms:

     write-element   an element of a list member is overwritten in place:
                     the content changes, the list's store and length do not
     write-scalar    a scalar member is overwritten
     replace         a list member is assigned another list of the same
                     length: content and store change, the length does not
     resize          a list member is cut (same store) or grown (same or
                     another store): content and length change
     copy            the object is copied as a struct: the copy shares the
                     stores of its lists and takes the memo along

   Requirement Current: every use returns the value of the content the object
   has at that moment.  DISCIPLINES (when a memo is trusted) are mechanisms,
   not the requirement:
     "none"                no memo                                 Current holds
     "keyed-on-content"    trusted iff the content is what it was  Current holds
     "keyed-on-identity"   trusted iff store and length of the list are what
                           they were                               VIOLATED by
                           write-element / write-scalar after any use
                           (SemanticsCurrentBroken.cfg - TLC must find it; the
                           harness demands that it does)
     "keyed-on-length"     trusted iff the length is what it was   VIOLATED (also by replace)
     "fill-once"           always trusted                          VIOLATED by every change

   Two uses of the module:
    * Emit = FALSE, Source = "small": exhaustive check of a discipline over an
      object with one list member and one scalar member, three uses.
    * Emit = TRUE, Source = "file": the catalogue of the REAL object types
      (current.ndjson, written by the harness: per type the uses the code
      offers - every identifier / signature hash function of the Semantics
      catalogue that takes the object, its encoder, its validator - and the
      forms of change its members admit).  TLC enumerates every history of at
      most MaxLen operations in which a use is followed by a change (the
      others cannot show a difference) and prints it.  The harness replays
      each on real objects and then observes EVERY identifier / signature hash
      of the object: each must be the hash of the pre-image Semantics!Value
      prescribes for the content the object has then (SemanticsTrace) - which
      is also what a fresh copy of that content yields.                      *)
EXTENDS Integers, Sequences, FiniteSets, TLC, Json

CONSTANTS Source,      \* "small" | "file"
          MaxLen,      \* operations per history (the closing observation is not counted)
          Discipline,  \* "none" | "keyed-on-content" | "keyed-on-identity" | "keyed-on-length" | "fill-once"
          Emit         \* TRUE: keep and print histories

Modes == <<"write-element", "write-scalar", "replace", "resize">>
Small == << [name |-> "object", uses |-> <<"id", "sibling", "encode">>, modes |-> Modes] >>
Catalogue == IF Source = "file" THEN ndJsonDeserialize("current.ndjson") ELSE Small

\* an operation as a number: use u of the type's list, 100 = copy, 200 + m = change of form Modes[m]
CopyOp == 100
IsUse(o) == o < CopyOp
IsChange(o) == o > 200
ModeOf(o) == Modes[o - 200]

VARIABLES ty,     \* the type of the object (index into the catalogue)
          cont,   \* <<version of the list member's content, version of the scalar member's content>>
          store,  \* identity of the list member's store
          len,    \* its length
          memo,   \* <<>> or <<what a use left beside the members>>
          n,      \* operations so far
          hist,   \* Emit: the operations
          ok      \* every use so far returned the value of the content the object had
vars == <<ty, cont, store, len, memo, n, hist, ok>>

Init == /\ ty \in 1..Len(Catalogue)
        /\ cont = <<0, 0>> /\ store = 0 /\ len = 2 /\ memo = <<>>
        /\ n = 0 /\ hist = <<>> /\ ok = TRUE

Trusted(m) ==
  CASE Discipline = "keyed-on-content"  -> m.cont = cont
    [] Discipline = "keyed-on-identity" -> m.store = store /\ m.len = len
    [] Discipline = "keyed-on-length"   -> m.len = len
    [] Discipline = "fill-once"         -> TRUE
    [] OTHER                            -> FALSE

Log(o) == /\ n' = n + 1
          /\ hist' = IF Emit THEN Append(hist, o) ELSE hist

\* any use (an identifier, a sibling function, the encoder, the validator) may consult and may fill the memo
Use(u) ==
  LET hit == memo # <<>> /\ Trusted(memo[1])
      val == IF hit THEN memo[1].cont ELSE cont
  IN /\ ok' = (ok /\ val = cont)
     /\ memo' = IF hit \/ Discipline = "none" THEN memo ELSE <<[cont |-> cont, store |-> store, len |-> len]>>
     /\ UNCHANGED <<ty, cont, store, len>>
     /\ Log(u)

NewStore == n + 1          \* a store that no list had before
Change(m) ==
  /\ IF Modes[m] = "write-element" THEN cont' = <<cont[1] + 1, cont[2]>> /\ UNCHANGED <<store, len>>
     ELSE IF Modes[m] = "write-scalar" THEN cont' = <<cont[1], cont[2] + 1>> /\ UNCHANGED <<store, len>>
     ELSE IF Modes[m] = "replace" THEN cont' = <<cont[1] + 1, cont[2]>> /\ store' = NewStore /\ UNCHANGED len
     ELSE /\ cont' = <<cont[1] + 1, cont[2]>>                          \* resize
          /\ IF Emit THEN len' = len + 1 /\ store' = NewStore         \* which of the three happens is the harness's report
             ELSE \/ len > 0 /\ len' = len - 1 /\ UNCHANGED store     \* cut
                  \/ len' = len + 1 /\ UNCHANGED store                \* grown within the store's capacity
                  \/ len' = len + 1 /\ store' = NewStore              \* grown into another store
  /\ UNCHANGED <<ty, memo, ok>>
  /\ Log(200 + m)

\* the copy shares the stores and takes the memo along; the history goes on with the copy
Copy == UNCHANGED <<ty, cont, store, len, memo, ok>> /\ Log(CopyOp)

Next == /\ n < MaxLen
        /\ \/ \E u \in 1..Len(Catalogue[ty].uses) : Use(u)
           \/ \E m \in 1..Len(Modes) : (\E k \in 1..Len(Catalogue[ty].modes) : Catalogue[ty].modes[k] = Modes[m]) /\ Change(m)
           \/ Copy
Spec == Init /\ [][Next]_vars

\* ---- the requirement ------------------------------------------------------------------
Current == ok

\* ---- generation (Emit) -------------------------------------------------------------------
\* a history worth replaying has a use that is followed (not necessarily directly) by a change
Worth(h) == \E i \in 1..Len(h) : \E j \in 1..Len(h) : i < j /\ IsUse(h[i]) /\ IsChange(h[j])
View == IF Emit THEN <<ty, hist>> ELSE <<cont, store, len, memo, n, ok>>
EmitHistory == (Emit /\ Worth(hist)) => PrintT("@@CUR " \o ToString(<<ty>> \o hist))
=============================================================================
