SPECIFICATION Spec
CONSTANTS Source = "file" Threads = 1 MaxLen = 4 Discipline = "reset-at-get" Emit = TRUE
INVARIANT Pure
INVARIANT EmitHistory
CONSTRAINT Prune
VIEW View
CHECK_DEADLOCK FALSE
