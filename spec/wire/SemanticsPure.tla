---------------------------- MODULE SemanticsPure ----------------------------
(* Every identifier / signature hash / address function is a PURE FUNCTION of
   its argument (property C12: identifiers "bind exactly the effect-bearing
   content" - and nothing else, in particular not what was hashed before).

   The value of a call is H(pre-image of the argument) (Semantics!Value)
   WHATEVER THE HISTORY of earlier calls: calls that ran to completion, calls
   that were ABORTED half-way (the argument is malformed, the encoding panics,
   the caller recovers - an RPC handler, a validator under recover), calls of
   OTHER hash functions, calls made on other goroutines.

   Why this needs a state machine: an implementation does not allocate a hash
   state per call, it keeps POOLS of hashers that calls borrow and give back.
   A hasher is a buffer: what was written into it since it was last emptied.
   A call is a sequence of USES; a use borrows a hasher from a pool (any
   hasher resting there, or a new one: a pool may allocate or drop at will),
   writes the input of the use, sums, and gives the hasher back.  An aborted
   call gives the hasher back from the middle of a use (deferred Put) with a
   PART of the input written.  Between borrowing and giving back the hasher is
   owned exclusively, so a use is one atomic step and calls of different
   goroutines interleave use by use; Threads only labels who makes a call
   (the pools are global), it is carried for the harness, which executes every
   call on the goroutine named.

   Invariant Pure: every completed use hashed EXACTLY its own input.
   DISCIPLINES (when a hasher is emptied) are mechanisms, not the requirement:
     "reset-at-get"   empty when borrowed                    Pure holds
     "reset-at-put"   empty when given back (also on abort)  Pure holds
     "reset-at-sum"   empty after a completed sum only       Pure is VIOLATED:
                      abort, then any call of the same pool (SemanticsPureBroken.cfg
                      - TLC must find it; the harness demands that it does)

   Two uses of the module:
    * Emit = FALSE, Source = "small": exhaustive check of a discipline over the
      built-in catalogue (two pools; per pool an identifier, a sibling function
      and an aborting call; a call using both pools and one aborting in its
      second use; a function that needs no pool), every choice of hasher.
    * Emit = TRUE, Source = "file": the catalogue of the REAL entry points
      (catalogue.ndjson, written by the harness: name, pools used, whether the
      call aborts, in which use, nested or not).  TLC enumerates every history
      of MaxLen calls that contains an aborted call before its last call and
      ends in a completed one (shorter ones are prefixes, the others cannot
      show a difference) and prints it (SemanticsPureGen.cfg: 3 calls by 2
      goroutines; SemanticsPureGenDeep.cfg: 4 calls by 1); -simulate with
      SemanticsPureSim.cfg prints random histories of 8 calls by 3 goroutines.
      The harness replays each history on the real code and compares EVERY
      completed call with the value the same call returns in a fresh process
      and that with the hash of the pre-image (Semantics!Value, SemanticsTrace).
      The pools named in the catalogue are the sharing core has today; the
      replay does not use them: it demands the values whatever is shared.   *)
EXTENDS Integers, Sequences, FiniteSets, Bags, TLC, Json

CONSTANTS Source,      \* "small" | "file"
          Threads,     \* number of goroutines (labels)
          MaxLen,      \* calls per history
          Discipline,  \* "reset-at-get" | "reset-at-put" | "reset-at-sum"
          Emit         \* TRUE: keep and print histories

\* an entry: name, the pools its uses borrow from (in order), abort = 0 (completes) or the use in which it panics,
\* nested = 1: the uses before the aborting one are still unfinished when it panics
Small == <<
  [name |-> "types-id",         uses |-> <<"types">>,              abort |-> 0, nested |-> 0],
  [name |-> "types-sibling",    uses |-> <<"types">>,              abort |-> 0, nested |-> 0],
  [name |-> "types-aborted",    uses |-> <<"types">>,              abort |-> 1, nested |-> 0],
  [name |-> "consensus-id",     uses |-> <<"consensus">>,          abort |-> 0, nested |-> 0],
  [name |-> "consensus-aborted", uses |-> <<"consensus">>,         abort |-> 1, nested |-> 0],
  [name |-> "both-id",          uses |-> <<"consensus", "types">>, abort |-> 0, nested |-> 0],
  [name |-> "both-aborted",     uses |-> <<"consensus", "types">>, abort |-> 2, nested |-> 0],
  [name |-> "nested-aborted",   uses |-> <<"types", "types">>,     abort |-> 2, nested |-> 1],
  [name |-> "poolless-id",      uses |-> <<>>,                     abort |-> 0, nested |-> 0] >>
Catalogue == IF Source = "file" THEN ndJsonDeserialize("catalogue.ndjson") ELSE Small
NOps == Len(Catalogue)
Ops == 1..NOps
Aborts(o) == Catalogue[o].abort # 0
PoolNames == {"types", "consensus"}

\* ---- hashers ------------------------------------------------------------------------
\* what a use writes: <<op, use, 1>> its whole input, <<op, use, 0>> a proper part of it (then the panic)
Chunk(o, u, whole) == <<o, u, IF whole THEN 1 ELSE 0>>
Clean == <<>>
Borrowed(b) == IF Discipline = "reset-at-get" THEN Clean ELSE b     \* the buffer the use starts writing into
Summed(b)   == IF Discipline = "reset-at-sum" THEN Clean ELSE b     \* ... after a completed sum
Returned(b) == IF Discipline = "reset-at-put" THEN Clean ELSE b     \* ... as it rests in the pool again

VARIABLES pool,   \* pool[p]: the bag of buffers of the hashers resting in pool p (clean new ones can always be had)
          n,      \* calls made
          hist,   \* Emit: the calls, each 1000 * thread + op
          pure    \* every completed use so far hashed exactly its own input
vars == <<pool, n, hist, pure>>

Put(pl, p, b) == [pl EXCEPT ![p] = @ (+) SetToBag({b})]
Take(pl, p, b) == [pl EXCEPT ![p] = @ (-) SetToBag({b})]

\* the hashers a use may get: any resting one or a new one.  When histories are emitted the choice is not enumerated
\* (it cannot be replayed, and View tells histories apart by the calls alone): a resting hasher if there is one
Choices(pl, p) == IF ~Emit THEN BagToSet(pl[p]) \cup {Clean}
                  ELSE IF BagToSet(pl[p]) = {} THEN {Clean} ELSE {CHOOSE b \in BagToSet(pl[p]) : TRUE}
\* all outcomes [pool, pure] of the uses u.. of call o, started with pools pl; held: the buffers of the hashers the
\* call still holds (a NESTED call borrows for use u + 1 while use u is unfinished: an address of a threshold policy
\* computes the addresses of its sub-policies in the middle of its own hashing); on a panic all are given back
RECURSIVE Outcomes(_, _, _, _, _), PutAll(_, _, _)
PutAll(pl, ps, bs) == IF bs = <<>> THEN pl ELSE PutAll(Put(pl, Head(ps), Head(bs)), Tail(ps), Tail(bs))
Outcomes(o, u, pl, ok, held) ==
  LET e == Catalogue[o]  us == e.uses IN
  IF u > Len(us) THEN {[pool |-> pl, pure |-> ok]}
  ELSE LET p == us[u] IN
       UNION {
         LET rest == IF b \in BagToSet(pl[p]) THEN Take(pl, p, b) ELSE pl      \* borrowed (or new: b = Clean)
             start == Borrowed(b)
             part == Returned(start \o <<Chunk(o, u, FALSE)>>)
             full == start \o <<Chunk(o, u, TRUE)>>
         IN IF e.abort = u                                                      \* panic: deferred Puts, no value
              THEN {[pool |-> PutAll(Put(rest, p, part), SubSeq(us, 1, u - 1), held), pure |-> ok]}
            ELSE IF e.nested = 1 /\ e.abort > u                                 \* stays open while the next use runs
              THEN Outcomes(o, u + 1, rest, ok, Append(held, part))
            ELSE Outcomes(o, u + 1, Put(rest, p, Returned(Summed(full))), ok /\ full = <<Chunk(o, u, TRUE)>>, held)
         : b \in Choices(pl, p) }

Init == pool = [p \in PoolNames |-> EmptyBag] /\ n = 0 /\ hist = <<>> /\ pure = TRUE

Call(t, o) ==
  /\ n < MaxLen
  /\ \E out \in Outcomes(o, 1, pool, TRUE, <<>>) :
        /\ pool' = out.pool
        /\ pure' = (pure /\ out.pure)
  /\ n' = n + 1
  /\ hist' = IF Emit THEN Append(hist, 1000 * t + o) ELSE hist

\* the first call is made by goroutine 1 (the labels are symmetric)
Next == \E t \in 1..Threads, o \in Ops : (n = 0 => t = 1) /\ Call(t, o)
Spec == Init /\ [][Next]_vars

\* ---- the requirement ------------------------------------------------------------------
Pure == pure

\* ---- generation (Emit) -------------------------------------------------------------------
OpOf(c) == c % 1000
HasAbort(h) == \E i \in 1..Len(h) : Aborts(OpOf(h[i]))
\* a history worth replaying contains an aborted call before its last call, and its last call completes
Worth(h) == Len(h) >= 2 /\ ~Aborts(OpOf(h[Len(h)])) /\ HasAbort(SubSeq(h, 1, Len(h) - 1))
\* do not extend histories that cannot become worth replaying any more
Prune == ~Emit \/ Len(hist) < MaxLen - 1 \/ (Len(hist) = MaxLen - 1 /\ HasAbort(hist)) \/ (Len(hist) = MaxLen /\ Worth(hist))
\* histories are told apart by the calls alone (which hasher a use happened to borrow is not replayable)
View == IF Emit THEN <<hist>> ELSE <<pool, n, pure>>
EmitHistory == (Emit /\ Len(hist) = MaxLen /\ Worth(hist)) => PrintT("@@SEQ " \o ToString(hist))
\* random histories (-simulate): every history of full length
EmitAny == (Emit /\ Len(hist) = MaxLen) => PrintT("@@SEQ " \o ToString(hist))
=============================================================================
