SPECIFICATION MSpec
CONSTANTS
  Depth = 1
  MaxCuts = 160
  Only <- AllLines
CHECK_DEADLOCK FALSE
