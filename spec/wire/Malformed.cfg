SPECIFICATION MSpec
CONSTANTS
  Depth = 2
  MaxCuts = 160
  Only = {"SpendPolicy", "V2TransactionsMultiproof", "rhp3_Account", "UnlockKey", "V1Currency", "gateway_V2BlockOutline", "rhp3_RPCExecuteProgramRequest"}
CHECK_DEADLOCK FALSE
