----------------------------- MODULE WireTrace -----------------------------
(* Direction B: every line of the trace is (type, abstract value, bytes the
   real encoder produced); the layout oracle demands bytes = Enc(Schema[type],
   value).  Lines are independent: chunked parallel validation (TraceLib).   *)
EXTENDS Wire, TraceLib, Json
Trace == ndJsonDeserialize("trace.ndjson")
N == Len(Trace)

Line(l) == LET t == Trace[l] IN
  IF t.type \notin DOMAIN Schema THEN Reject(l, "unknown type")
  ELSE Check(Enc(Schema[t.type], t.value) = t.bytes, l, "layout")

VARIABLES chunk, pos
Init == chunk = 0 /\ pos = 0
Last(c) == IF c * TL_ChunkSize < N THEN c * TL_ChunkSize ELSE N
Next == \/ /\ chunk = 0
           /\ chunk' \in 1..NChunks(N)
           /\ pos' = (chunk' - 1) * TL_ChunkSize + 1
        \/ /\ chunk > 0 /\ pos <= Last(chunk)
           /\ Line(pos)
           /\ pos' = pos + 1 /\ UNCHANGED chunk
Spec == Init /\ [][Next]_<<chunk, pos>>
=============================================================================
