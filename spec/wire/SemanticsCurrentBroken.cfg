SPECIFICATION Spec
CONSTANTS Source = "small" MaxLen = 6 Discipline = "keyed-on-identity" Emit = FALSE
INVARIANT Current
VIEW View
CHECK_DEADLOCK FALSE
