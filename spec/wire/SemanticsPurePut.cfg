SPECIFICATION Spec
CONSTANTS Source = "small" Threads = 1 MaxLen = 5 Discipline = "reset-at-put" Emit = FALSE
INVARIANT Pure
VIEW View
CHECK_DEADLOCK FALSE
