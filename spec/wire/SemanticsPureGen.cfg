SPECIFICATION Spec
CONSTANTS Source = "file" Threads = 2 MaxLen = 3 Discipline = "reset-at-get" Emit = TRUE
INVARIANT Pure
INVARIANT EmitHistory
CONSTRAINT Prune
VIEW View
CHECK_DEADLOCK FALSE
