---------------------------- MODULE PolicyLimits ----------------------------
(* C11, spend policies at the limits of the binary codec (types/encoding.go,
   SpendPolicy.EncodeTo / DecodeFrom).

   What the codec can express: a threshold node carries its child count in ONE
   byte, so a node has at most 255 children; there is no other limit on the
   encoder's side.  What the decoder refuses (read off the decoder of the
   unchanged tree): a policy NODE AT NESTING DEPTH > 32, the root being at
   depth 0 and the children of a node at depth d at depth d + 1
   (maxPolicyDepth = 32; the check is made on entering every node, leaf or
   threshold).  The rule is over DEPTH ONLY: the binary decoder has no limit on
   the total number of sub-policies or of threshold nodes (the 1024-sub-policy
   style limits belong to the text parser, not to this codec), so wide and
   shallow policies with more than 32, more than 255 and about 1000 threshold
   nodes are ordinary values that must round-trip.

   A shape is <<"leaf", i>>  (above(i))  or  <<"th", n, kids>> with kids a
   sequence of <<count, shape>> (count copies of shape, in this order).
   For every shape TLC emits the abstract value, the bytes Wire!Enc prescribes,
   its depth / number of threshold nodes / number of nodes and the verdict
   Accept == Depth <= 32.  The harness builds the Go value from the abstract
   value: the real encoder must produce exactly these bytes (it never fails);
   the real decoder must return the value and re-encode canonically when
   Accept, and must fail (not panic) otherwise.                               *)
EXTENDS Wire, Json
MaxPolicyDepth == 32

Leaf(i) == <<"leaf", i>>
Th(n, kids) == <<"th", n, kids>>
IsLeaf(s) == s[1] = "leaf"
RECURSIVE Value(_), Depth(_), Thresholds(_), Nodes(_), Chain(_, _), Comb(_, _)
MaxOf(q) == IF Len(q) = 0 THEN 0 ELSE CHOOSE m \in {q[i] : i \in 1..Len(q)} : \A i \in 1..Len(q) : q[i] <= m
RECURSIVE SumOf(_, _)
SumOf(q, i) == IF i > Len(q) THEN 0 ELSE q[i] + SumOf(q, i + 1)
Value(s) ==
  IF IsLeaf(s) THEN [tag |-> "PolicyTypeAbove", v |-> <<0, 0, 0, s[2]>>]
  ELSE [tag |-> "PolicyTypeThreshold",
        v |-> [N |-> s[2], Of |-> Cat([j \in 1..Len(s[3]) |-> [i \in 1..s[3][j][1] |-> [Type |-> Value(s[3][j][2])]]])]]
\* greatest nesting depth of a node, the root at 0
Depth(s) == IF IsLeaf(s) \/ Len(s[3]) = 0 THEN 0 ELSE 1 + MaxOf([j \in 1..Len(s[3]) |-> Depth(s[3][j][2])])
Thresholds(s) == IF IsLeaf(s) THEN 0 ELSE 1 + SumOf([j \in 1..Len(s[3]) |-> s[3][j][1] * Thresholds(s[3][j][2])], 1)
Nodes(s) == IF IsLeaf(s) THEN 1 ELSE 1 + SumOf([j \in 1..Len(s[3]) |-> s[3][j][1] * Nodes(s[3][j][2])], 1)
Width(s) == SumOf([j \in 1..Len(s[3]) |-> s[3][j][1]], 1)
Accept(s) == Depth(s) <= MaxPolicyDepth

\* d nested 1-of-1 thresholds around s
Chain(d, s) == IF d = 0 THEN s ELSE Th(1, << <<1, Chain(d - 1, s)>> >>)
\* d nested 2-of-2 thresholds, each holding a leaf and the next level (leaf first)
Comb(d, s) == IF d = 0 THEN s ELSE Th(2, << <<1, Leaf(d)>>, <<1, Comb(d - 1, s)>> >>)
Wide(n, w, s) == Th(n, << <<w, s>> >>)                       \* n-of-w, all members s
T11 == Chain(1, Leaf(7))                                      \* 1-of-1 around a leaf
T12 == Th(1, << <<2, Leaf(3)>> >>)                            \* 1-of-2 of leaves
Empty == Th(0, <<>>)                                          \* a threshold without members

Shapes == <<
  \* pure chains around the depth limit
  <<"chain-31", Chain(31, Leaf(1))>>, <<"chain-32", Chain(32, Leaf(1))>>, <<"chain-33", Chain(33, Leaf(1))>>, <<"chain-34", Chain(34, Leaf(1))>>,
  <<"chain-32-empty-threshold", Chain(32, Empty)>>, <<"chain-33-empty-threshold", Chain(33, Empty)>>,
  <<"comb-32", Comb(32, Leaf(0))>>, <<"comb-33", Comb(33, Leaf(0))>>,
  \* wide and shallow: many threshold nodes, small depth
  <<"wide-31x1of1", Wide(1, 31, T11)>>, <<"wide-32x1of1", Wide(1, 32, T11)>>, <<"wide-33x1of1", Wide(1, 33, T11)>>,
  <<"wide-2of40x1of2", Wide(2, 40, T12)>>,
  <<"wide-255-leaves", Wide(255, 255, Leaf(9))>>, <<"wide-255x1of1", Wide(1, 255, T11)>>, <<"wide-255-empty-thresholds", Wide(0, 255, Empty)>>,
  <<"wide-6x6x6", Wide(1, 6, Wide(2, 6, Wide(3, 6, Leaf(5))))>>,
  <<"wide-4x255x1of1", Wide(1, 4, Wide(1, 255, T11))>>, <<"wide-250x3x1of1", Wide(200, 250, Wide(1, 3, T11))>>,
  <<"wide-mixed", Th(2, << <<20, T11>>, <<3, Leaf(2)>>, <<20, T12>>, <<1, Wide(1, 30, Empty)>> >>)>>,
  \* combinations: width at the depth limit, wide siblings before and after a deep member
  <<"chain-30-wide-40x1of1", Chain(30, Wide(1, 40, T11))>>, <<"chain-31-wide-40x1of1", Chain(31, Wide(1, 40, T11))>>,
  <<"chain-31-wide-255-leaves", Chain(31, Wide(255, 255, Leaf(4)))>>, <<"chain-32-wide-255-leaves", Chain(32, Wide(255, 255, Leaf(4)))>>,
  <<"wide-then-deep-32", Th(1, << <<40, T11>>, <<1, Chain(31, Leaf(1))>> >>)>>, <<"wide-then-deep-33", Th(1, << <<40, T11>>, <<1, Chain(32, Leaf(1))>> >>)>>,
  <<"deep-then-wide-32", Th(1, << <<1, Chain(31, Leaf(1))>>, <<40, T11>> >>)>>, <<"deep-then-wide-33", Th(1, << <<1, Chain(32, Leaf(1))>>, <<40, T11>> >>)>>,
  <<"two-deep-32", Th(2, << <<2, Chain(31, Leaf(1))>> >>)>>, <<"three-deep-20", Th(2, << <<3, Chain(20, Leaf(1))>> >>)>>,
  <<"comb-16-wide-255x1of1", Comb(16, Wide(1, 255, T11))>> >>

Emit(i) == LET name == Shapes[i][1]  s == Shapes[i][2]  v == Value(s) IN
  /\ Assert(IsLeaf(s) \/ Width(s) <= 255, "a threshold of more than 255 members is not a wire value")
  /\ PrintT("@@PL " \o ToJson([name |-> name, depth |-> Depth(s), thresholds |-> Thresholds(s), nodes |-> Nodes(s),
                                 accept |-> Accept(s), value |-> [Type |-> v], bytes |-> Enc(Schema["SpendPolicy"], [Type |-> v])]))
VARIABLES idx, done
Init == idx = 0 /\ done = FALSE
Next == \/ /\ idx = 0 /\ idx' \in 1..Len(Shapes) /\ done' = FALSE
        \/ /\ idx # 0 /\ ~done /\ Emit(idx) /\ done' = TRUE /\ UNCHANGED idx
Spec == Init /\ [][Next]_<<idx, done>>
=============================================================================
