SPECIFICATION Spec
INVARIANT Distinct
CHECK_DEADLOCK FALSE
