SPECIFICATION Spec
CONSTANTS
  ShapeIds = {1, 2, 3, 4, 5, 6}
  Intervals = {10, 600}
  TargetIds = {1, 2, 3, 6, 8, 10, 12, 13}
  ChainLen = 14
  Win = 1
  Spread = 1
  Fracs = {0, 1, 2, 3}
  FracSpread = 4
  TwoRegime = FALSE
INVARIANTS WellFormed TimeRule EraOrder Crossing Emit
CHECK_DEADLOCK FALSE
