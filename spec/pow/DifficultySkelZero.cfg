SPECIFICATION Spec
CONSTANTS
  ShapeIds = {7, 8, 9, 10, 11, 12, 13, 14, 15, 16, 17, 18}
  Intervals = {600}
  TargetIds = {1, 6}
  ChainLen = 14
  Win = 1
  Spread = 1
  Fracs = {0, 1, 2, 3}
  FracSpread = 4
  TwoRegime = FALSE
INVARIANTS WellFormed TimeRule EraOrder Crossing Emit
CHECK_DEADLOCK FALSE
