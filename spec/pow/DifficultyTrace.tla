--------------------------- MODULE DifficultyTrace ---------------------------
(* Trace validation of the real proof-of-work code against Difficulty.tla
   (direction B).  The trace is stateful: one TLC state per line.

     reset  a chain starts (state after the genesis block), or the harness
            skipped steps of a long chain: the specification's state is seeded
            from the recorded state, which must satisfy the state clauses.
            cont = TRUE marks a mere cut: the recorded state must equal the
            state the specification has reached (segments are validated in
            parallel: from the root TLC branches into every reset line).
     step   one header applied by ApplyHeader and, in lock-step, by ApplyBlock;
            the line carries both resulting states, the candidate headers that
            were submitted to ValidateHeader against the state before the step
            with their verdicts, a sibling state and the fork-choice verdicts.

   The state before a step is never read from the line: it is the state the
   specification derived from the previous line.  Every clause that does not
   hold prints a REJECT record (line, clause); the harness re-executes the
   step on the real code and reports it.  Acceptance: no REJECT and
   1 + Len(Trace) distinct states (every line was reached).                  *)
EXTENDS Difficulty, TraceLib, Json
Trace == ndJsonDeserialize("trace.ndjson")
N == Len(Trace)
VARIABLES l, st

\* the specification's view of a recorded state
View(net, s) == [net |-> net, height |-> s.height, T |-> s.T, D |-> s.D, W |-> s.W, depth |-> s.depth,
                 oakW |-> s.oakW, oakT |-> s.oakT, pt |-> s.pt, prev |-> s.prev, tip |-> s.id]

StateClauses(net, s, ln) ==
  /\ Check(NonZero(net, s), ln, "NonZero")
  /\ Check(InvDifficulty(net, s), ln, "Inverse.difficulty")
  /\ Check(InvTotalWork(net, s), ln, "Inverse.totalWork")
  /\ Check(InvOakWork(net, s), ln, "Inverse.oakWork")
  /\ Check(InvPoWTarget(net, s), ln, "Inverse.powTarget")

ResetOK(t, ln) ==
  IF t.panic # "" THEN Reject(ln, "Total")
  ELSE /\ Check(WellFormedNet(t.net), ln, "Env.network")
       /\ Check(Len(t.s.prev) = (IF t.s.height + 1 > 11 THEN 11 ELSE t.s.height + 1), ln, "Env.window")
       /\ StateClauses(t.net, View(t.net, t.s), ln)

Header(t, c) == [parent |-> t.parents[c.p], ts |-> c.ts, nonce |-> c.nonce, id |-> c.id]

StepOK(t, ln) ==
  IF t.panic # "" THEN Reject(ln, "Total")
  ELSE
  LET net == st.net
      hd  == Header(t, t.cands[1])             \* the header that was applied
      s2  == View(net, t.f)
      era == Era(net, st.height + 1)
  IN
  \* header-only application yields the same proof-of-work state as the full block
  /\ Check(t.h = t.f, ln, "HeaderFull")
  \* bookkeeping of the tip and of the timestamp window
  /\ Check(s2.height = st.height + 1 /\ s2.tip = hd.id, ln, "Index")
  /\ Check(s2.prev = Window(<<hd.ts>> \o st.prev), ln, "PrevTimestamps")
  \* the clamp of the era
  /\ Check(Clamp(net, st, s2), ln, era)
  /\ StateClauses(net, s2, ln)
  /\ Check(WorkMono(net, st, s2), ln, "WorkMono")
  /\ Check(WorkSum(net, st, s2), ln, "WorkSum")
  \* every candidate header: the verdict of ValidateHeader is the header rule
  /\ \A j \in DOMAIN t.cands :
       LET c == t.cands[j]  want == HeaderOK(net, st, Header(t, c)) IN
       Check(c.ok = want /\ c.okh = want, ln, "HeaderOK." \o c.k)
  /\ Check(~t.hasM2 \/ t.m2 = Median2(st.prev), ln, "Env.skeletonMedian")
  \* fork choice: verdicts are the definition, and the relation is asymmetric
  /\ LET sib == [W |-> t.sib.W, D |-> t.sib.D] IN
     /\ Check(/\ t.hv[1] = Heavier(s2, sib) /\ t.hv[2] = Heavier(sib, s2)
              /\ t.hv[3] = Heavier(s2, st)  /\ t.hv[4] = Heavier(st, s2), ln, "Heavier.definition")
     /\ Check(~(t.hv[1] /\ t.hv[2]) /\ ~(t.hv[3] /\ t.hv[4]), ln, "Heavier.asymmetry")

Resets == {i \in 1..N : Trace[i].ev = "reset"}
Init == l = 0 /\ st = [height |-> -1]
Next ==
  \/ /\ l = 0
     /\ \E r \in Resets :
          /\ ResetOK(Trace[r], r)
          /\ l' = r /\ st' = View(Trace[r].net, Trace[r].s)
  \/ /\ l > 0 /\ l < N
     /\ LET t == Trace[l + 1] IN
        IF t.ev = "step"
        THEN /\ StepOK(t, l + 1)
             /\ l' = l + 1
             /\ st' = IF t.panic # "" THEN st ELSE View(st.net, t.f)
        ELSE \* a reset line ends the segment; a cut must continue the state reached here
             /\ t.cont
             /\ Check(t.panic = "" /\ View(t.net, t.s) = st, l + 1, "Env.cut")
             /\ l' = l + 1 /\ st' = View(t.net, t.s)
Spec == Init /\ [][Next]_<<l, st>>
=============================================================================
