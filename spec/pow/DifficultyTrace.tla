--------------------------- MODULE DifficultyTrace ---------------------------
(* Trace validation of the real proof-of-work code against Difficulty.tla
   (direction B).  The trace is stateful: one TLC state per line.

     reset  a chain starts (state after the genesis block), or the harness
            skipped steps of a long chain: the specification's state is seeded
            from the recorded state, which must satisfy the state clauses.
            cont = TRUE marks a mere cut: the recorded state must equal the
            state the specification has reached (segments are validated in
            parallel: from the root TLC branches into every reset line).
     step   one header applied by ApplyHeader and, in lock-step, by ApplyBlock;
            the line carries both resulting states, the candidate headers that
            were submitted to ValidateHeader against the state before the step
            with their verdicts, a sibling state and the fork-choice verdicts.
            Timestamps are instants <<s, ns>>.  Three more states are on the
            line: x, reached by a third chain that takes the header and the
            full-block entry point in alternation and is handed every instant
            in another representation (time zone, monotonic clock reading), and
            dh / df, the state before the step extended by the header / block
            as it comes back from its encoding (whole seconds): they must be
            the states h / f (clause Encoded.same).

   The state before a step is never read from the line: it is the state the
   specification derived from the previous line.  Every clause that does not
   hold prints a REJECT record (line, clause); the harness re-executes the
   step on the real code and reports it.  Acceptance: no REJECT and
   1 + Len(Trace) distinct states (every line was reached).                  *)
EXTENDS Difficulty, TraceLib, Json
Trace == ndJsonDeserialize("trace.ndjson")
N == Len(Trace)
VARIABLES l, st

\* the specification's view of a recorded state
View(net, s) == [net |-> net, height |-> s.height, T |-> s.T, D |-> s.D, W |-> s.W, depth |-> s.depth,
                 oakW |-> s.oakW, oakT |-> s.oakT, pt |-> s.pt, prev |-> s.prev, tip |-> s.id]

StateClauses(net, s, ln) ==
  /\ Check(NonZero(net, s), ln, "NonZero")
  /\ Check(InvDifficulty(net, s), ln, "Inverse.difficulty")
  /\ Check(InvTotalWork(net, s), ln, "Inverse.totalWork")
  /\ Check(InvOakWork(net, s), ln, "Inverse.oakWork")
  /\ Check(InvPoWTarget(net, s), ln, "Inverse.powTarget")

Instants(q) == \A i \in DOMAIN q : IsInstant(q[i])
ResetOK(t, ln) ==
  IF t.panic # "" THEN Reject(ln, "Total")
  ELSE /\ Check(WellFormedNet(t.net), ln, "Env.network")
       /\ Check(Len(t.s.prev) = (IF t.s.height + 1 > 11 THEN 11 ELSE t.s.height + 1), ln, "Env.window")
       /\ Check(Instants(t.s.prev), ln, "Env.instant")
       /\ StateClauses(t.net, View(t.net, t.s), ln)

Header(t, c) == [parent |-> t.parents[c.p], ts |-> c.ts, nonce |-> c.nonce, id |-> c.id]

StepOK(t, ln) ==
  IF t.panic # "" THEN Reject(ln, "Total")
  ELSE
  LET net == st.net
      hd  == Header(t, t.cands[1])             \* the header that was applied
      s2  == View(net, t.f)
      era == Era(net, st.height + 1)
      med == Median(st.prev)
  IN
  /\ Check(IsInstant(hd.ts) /\ \A j \in DOMAIN t.cands : IsInstant(t.cands[j].ts), ln, "Env.instant")
  \* header-only application yields the same proof-of-work state as the full block (every field, the oak time and
  \* the timestamp window at the resolution of one nanosecond)
  /\ Check(t.h = t.f, ln, "HeaderFull")
  \* ... whichever entry point applied the headers before it, and however the instants are represented
  /\ Check(t.x = t.f, ln, "HeaderFull.instant")
  \* ... and the state is a function of the ENCODED header: the block and the header as they come back from their
  \* encoding (same ID, whole second) give the same state as the original forms, by both entry points, and every
  \* candidate gets the same verdict in both forms
  /\ Check(/\ t.df = t.f /\ t.dh = t.h
           /\ \A j \in DOMAIN t.cands : t.cands[j].okd = t.cands[j].ok, ln, "Encoded.same")
  \* bookkeeping of the tip and of the timestamp window
  /\ Check(s2.height = st.height + 1 /\ s2.tip = hd.id, ln, "Index")
  /\ Check(s2.prev = Window(<<Sec(hd.ts)>> \o st.prev), ln, "PrevTimestamps")
  \* the clamp of the era
  /\ Check(Clamp(net, st, s2), ln, era)
  /\ StateClauses(net, s2, ln)
  /\ Check(WorkMono(net, st, s2), ln, "WorkMono")
  /\ Check(WorkSum(net, st, s2), ln, "WorkSum")
  \* every candidate header: the verdict of ValidateHeader is the header rule
  /\ \A j \in DOMAIN t.cands :
       LET c == t.cands[j]  want == HeaderOKm(net, st, Header(t, c), med) IN
       Check(c.ok = want /\ c.okh = want /\ c.okr = want, ln, "HeaderOK." \o c.k)
  /\ Check(~t.hasMed \/ t.med = med, ln, "Env.skeletonMedian")
  \* fork choice: verdicts are the definition, and the relation is asymmetric
  /\ LET sib == [W |-> t.sib.W, D |-> t.sib.D] IN
     /\ Check(/\ t.hv[1] = Heavier(s2, sib) /\ t.hv[2] = Heavier(sib, s2)
              /\ t.hv[3] = Heavier(s2, st)  /\ t.hv[4] = Heavier(st, s2), ln, "Heavier.definition")
     /\ Check(~(t.hv[1] /\ t.hv[2]) /\ ~(t.hv[3] /\ t.hv[4]), ln, "Heavier.asymmetry")

Resets == {i \in 1..N : Trace[i].ev = "reset"}
Init == l = 0 /\ st = [height |-> -1]
Next ==
  \/ /\ l = 0
     /\ \E r \in Resets :
          /\ ResetOK(Trace[r], r)
          /\ l' = r /\ st' = View(Trace[r].net, Trace[r].s)
  \/ /\ l > 0 /\ l < N
     /\ LET t == Trace[l + 1] IN
        IF t.ev = "step"
        THEN /\ StepOK(t, l + 1)
             /\ l' = l + 1
             /\ st' = IF t.panic # "" THEN st ELSE View(st.net, t.f)
        ELSE \* a reset line ends the segment; a cut must continue the state reached here
             /\ t.cont
             /\ Check(t.panic = "" /\ View(t.net, t.s) = st, l + 1, "Env.cut")
             /\ l' = l + 1 /\ st' = View(t.net, t.s)
Spec == Init /\ [][Next]_<<l, st>>
=============================================================================
