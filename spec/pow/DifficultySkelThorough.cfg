SPECIFICATION Spec
CONSTANTS
  ShapeIds = {1, 2, 3, 4, 5, 6}
  Intervals = {2, 10, 600}
  TargetIds = {1, 2, 3, 6, 7, 8, 9, 10, 11, 12, 13, 14}
  ChainLen = 14
  Win = 1
  Spread = 3
  Fracs = {0, 1, 2, 3}
  FracSpread = 4
  TwoRegime = TRUE
INVARIANTS WellFormed TimeRule EraOrder Crossing Emit
CHECK_DEADLOCK FALSE
