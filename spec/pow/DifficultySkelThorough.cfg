SPECIFICATION Spec
CONSTANTS
  ShapeIds = {1, 2, 3, 4, 5, 6}
  Intervals = {2, 10, 600}
  TargetIds = {1, 2, 3}
  ChainLen = 14
  Win = 1
  TwoRegime = TRUE
INVARIANTS WellFormed TimeRule EraOrder Crossing Emit
CHECK_DEADLOCK FALSE
