SPECIFICATION Spec
CONSTANTS
  StartIds = {1, 2, 3, 4, 5, 6, 7, 8, 9, 10, 11, 12, 13}
  Intervals = {10, 600}
  Bounds = {1, 2, 3}
  DClasses = {"belowS", "belowL", "aboveS", "aboveL", "half", "double", "quad", "main"}
  Ks = {1, 2, 3, 7}
  WSteps = {1, 2, 3, 5}
  Pushes = {"up", "down", "hold"}
  Regimes = {0, 1, 3, 4, 6}
  ChainLen = 7
INVARIANTS WellFormed EdgeCarry WorkCross Headroom Emit
CHECK_DEADLOCK FALSE
